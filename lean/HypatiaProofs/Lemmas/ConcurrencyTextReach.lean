import HypatiaModel.ConcurrencyText
import HypatiaProofs.Lemmas.ConcurrencyMerge

/-!
Object-level text index: every operation is a sequence of *valid primitive steps*.

`TPrim` lists the primitive steps of `HypatiaModel/ConcurrencyText.lean` – with the three
disciplined pairs "in-place change of a stored dict + what the code does to the bucket key right
after" taken as one step each – and `TPrim.ok D y p` the side condition under which the operations
perform step `p` in state `y` (`D` = the docids the operation is about).  `Reach D x y`: `y` is
obtained from `x` by valid steps.  Every modelled operation of the unchanged code
(`addReassign = true`, `massRootOnly = false`) satisfies `Reach` (`reach_step`, `reach_run`), so a
property preserved by the valid primitive steps holds for all histories of operations.
-/
set_option linter.unusedSectionVars false
set_option linter.unusedSimpArgs false
set_option linter.unusedVariables false
namespace Hyp.CIdx
open Hyp

variable {W Wt : Type} [DecidableEq W] [DecidableEq Wt]

inductive TPrim (W Wt : Type) where
  | rd (l : TLoc W)
  | newWord (w : W)                                             -- `_new_wid` + the two stores of `_getWordIdCreate`
  | wiSet (i : Nat) (v : PVal Wt)
  | wiErase (i : Nat)
  | dictPutR (i : Nat) (m : AMap Int Wt) (d : Int) (f : Wt)     -- `dictPut` + the re-assignment
  | dictDelR (i : Nat) (m : AMap Int Wt) (d : Int)              -- `dictDel` + the re-assignment
  | dictDelE (i : Nat) (m : AMap Int Wt) (d : Int)              -- `dictDel` + `del self._wordinfo[wid]`
  | dwSet (d : Int) (ws : List Nat)
  | dwErase (d : Int)
  | dwtSet (d : Int) (f : Wt)
  | dwtErase (d : Int)
  | wcChange (δ : Int)
  | icChange (δ : Int)
  | tdlChange (δ : Int)
  | niRemove (d : Int)
  | niAdd (d : Int)
  | treePut (o : Oid) (d : Int) (f : Wt)
  | treeDel (o : Oid) (d : Int)
  | alloc (m : AMap Int Wt)

def TPrim.app (p : TPrim W Wt) (y : TTx W Wt) : TTx W Wt :=
  match p with
  | .rd l => y.rd l
  | .newWord w => ((TTx.newWid y).1.widsSet w (TTx.newWid y).2).wordsSet (TTx.newWid y).2 w
  | .wiSet i v => y.wiSet i v
  | .wiErase i => y.wiErase i
  | .dictPutR i m d f => (y.dictPut i m d f).wiSet i (.dict (AMap.set m d f))
  | .dictDelR i m d => (y.dictDel i m d).wiSet i (.dict (AMap.erase m d))
  | .dictDelE i m d => (y.dictDel i m d).wiErase i
  | .dwSet d ws => y.dwSet d ws
  | .dwErase d => y.dwErase d
  | .dwtSet d f => y.dwtSet d f
  | .dwtErase d => y.dwtErase d
  | .wcChange δ => y.wcChange δ
  | .icChange δ => y.icChange δ
  | .tdlChange δ => y.tdlChange δ
  | .niRemove d => y.niRemove d
  | .niAdd d => y.niAdd d
  | .treePut o d f => y.treePut o d f
  | .treeDel o d => y.treeDel o d
  | .alloc m => (y.alloc m).1

/-- the posting a `_wordinfo` value stands for in heap `h` -/
def pvalPosting (h : THeap W Wt) : Option (PVal Wt) → AMap Int Wt
  | some (.dict m) => m
  | some (.ref o) => (AMap.get h.tree o).getD []
  | none => []

theorem posting_eq_pval (h : THeap W Wt) (i : Nat) : h.posting i = pvalPosting h (AMap.get h.wordinfo i) := by
  unfold THeap.posting pvalPosting
  cases AMap.get h.wordinfo i with
  | none => rfl
  | some v => cases v <;> rfl

/-- the side condition under which the operations perform a step (`D`: the operation's docids):
docid-keyed accesses are at own docids; an in-place change is applied to the dict that *is* stored;
a store / deletion of a `_wordinfo` key leaves the entries of foreign docids as they are -/
def TPrim.ok (D : Int → Prop) (y : TTx W Wt) : TPrim W Wt → Prop
  | .rd _ => True
  | .newWord w => AMap.get y.heap.wids w = none
  | .wiSet i v => (∀ d, ¬ D d → AMap.get (pvalPosting y.heap (some v)) d = AMap.get (y.heap.posting i) d) ∧
      (∀ o, v = .ref o → AMap.get y.heap.wordinfo i = some (.ref o) ∨
        ((AMap.get y.heap.tree o).isSome ∧ o.1 = y.me)) ∧
      (∀ o, AMap.get y.heap.wordinfo i = some (.ref o) → v = .ref o)
  | .wiErase i => (∀ d, ¬ D d → AMap.get (y.heap.posting i) d = none) ∧
      (∀ o, AMap.get y.heap.wordinfo i = some (.ref o) → AMap.get y.heap.tree o = some [])
  | .dictPutR i m d _ => AMap.get y.heap.wordinfo i = some (.dict m) ∧ D d
  | .dictDelR i m d => AMap.get y.heap.wordinfo i = some (.dict m) ∧ D d
  | .dictDelE i m d => AMap.get y.heap.wordinfo i = some (.dict m) ∧ D d ∧ AMap.erase m d = []
  | .dwSet d _ => D d
  | .dwErase d => D d
  | .dwtSet d _ => D d
  | .dwtErase d => D d
  | .wcChange _ => True
  | .icChange _ => True
  | .tdlChange _ => True
  | .niRemove d => D d
  | .niAdd d => D d
  | .treePut o d _ => D d ∧ ((∃ i, AMap.get y.heap.wordinfo i = some (.ref o)) ∨
      (o.1 = y.me ∧ (AMap.get y.heap.tree o).isSome))
  | .treeDel o d => D d ∧ ((∃ i, AMap.get y.heap.wordinfo i = some (.ref o)) ∨
      (o.1 = y.me ∧ (AMap.get y.heap.tree o).isSome))
  | .alloc _ => True

/-- `y` is obtained from `x` by valid primitive steps -/
inductive Reach (D : Int → Prop) (x : TTx W Wt) : TTx W Wt → Prop where
  | refl : Reach D x x
  | step {y : TTx W Wt} (p : TPrim W Wt) : Reach D x y → p.ok D y → Reach D x (p.app y)

theorem Reach.trans {D : Int → Prop} {x y z : TTx W Wt} (h1 : Reach D x y) (h2 : Reach D y z) : Reach D x z := by
  induction h2 with
  | refl => exact h1
  | step p _ hp ih => exact Reach.step p ih hp

theorem Reach.mono {D D' : Int → Prop} (hD : ∀ d, D d → D' d) {x y : TTx W Wt} (h : Reach D x y) :
    Reach D' x y := by
  induction h with
  | refl => exact Reach.refl
  | step p _ hp ih =>
    refine Reach.step p ih ?_
    cases p <;> simp only [TPrim.ok] at hp ⊢ <;> first
      | trivial
      | exact hD _ hp
      | exact hp
      | exact ⟨hp.1, hD _ hp.2⟩
      | exact ⟨hp.1, hD _ hp.2.1, hp.2.2⟩
      | exact fun d hd => hp d (fun h => hd (hD d h))
      | exact ⟨fun d hd => hp.1 d (fun h => hd (hD d h)), hp.2⟩
      | exact ⟨hD _ hp.1, hp.2⟩

/-- a property preserved by every valid step holds along `Reach` -/
theorem Reach.induct {D : Int → Prop} {x y : TTx W Wt} (P : TTx W Wt → Prop) (h0 : P x)
    (hs : ∀ (p : TPrim W Wt) (z : TTx W Wt), Reach D x z → P z → p.ok D z → P (p.app z))
    (h : Reach D x y) : P y := by
  induction h with
  | refl => exact h0
  | step p hr hp ih => exact hs p _ hr ih hp

/-! ### one-step constructors -/
section Steps
variable {D : Int → Prop} {x y : TTx W Wt}

theorem Reach.rd (h : Reach D x y) (l : TLoc W) : Reach D x (y.rd l) := Reach.step (.rd l) h trivial
theorem Reach.wcChange (h : Reach D x y) (δ : Int) : Reach D x (y.wcChange δ) :=
  Reach.step (.wcChange δ) h trivial
theorem Reach.icChange (h : Reach D x y) (δ : Int) : Reach D x (y.icChange δ) :=
  Reach.step (.icChange δ) h trivial
theorem Reach.tdlChange (h : Reach D x y) (δ : Int) : Reach D x (y.tdlChange δ) :=
  Reach.step (.tdlChange δ) h trivial
theorem Reach.newWord (h : Reach D x y) (w : W) (hw : AMap.get y.heap.wids w = none) :
    Reach D x (((TTx.newWid y).1.widsSet w (TTx.newWid y).2).wordsSet (TTx.newWid y).2 w) :=
  Reach.step (.newWord w) h hw
theorem Reach.dwSet (h : Reach D x y) {d : Int} (hd : D d) (ws : List Nat) : Reach D x (y.dwSet d ws) :=
  Reach.step (.dwSet d ws) h hd
theorem Reach.dwErase (h : Reach D x y) {d : Int} (hd : D d) : Reach D x (y.dwErase d) :=
  Reach.step (.dwErase d) h hd
theorem Reach.dwtSet (h : Reach D x y) {d : Int} (hd : D d) (f : Wt) : Reach D x (y.dwtSet d f) :=
  Reach.step (.dwtSet d f) h hd
theorem Reach.dwtErase (h : Reach D x y) {d : Int} (hd : D d) : Reach D x (y.dwtErase d) :=
  Reach.step (.dwtErase d) h hd
theorem Reach.niRemove (h : Reach D x y) {d : Int} (hd : D d) : Reach D x (y.niRemove d) :=
  Reach.step (.niRemove d) h hd
theorem Reach.niAdd (h : Reach D x y) {d : Int} (hd : D d) : Reach D x (y.niAdd d) :=
  Reach.step (.niAdd d) h hd
theorem Reach.treePut (h : Reach D x y) (o : Oid) {d : Int} (hd : D d) (f : Wt)
    (ho : (∃ i, AMap.get y.heap.wordinfo i = some (.ref o)) ∨ (o.1 = y.me ∧ (AMap.get y.heap.tree o).isSome)) :
    Reach D x (y.treePut o d f) :=
  Reach.step (.treePut o d f) h ⟨hd, ho⟩
theorem Reach.treeDel (h : Reach D x y) (o : Oid) {d : Int} (hd : D d)
    (ho : (∃ i, AMap.get y.heap.wordinfo i = some (.ref o)) ∨ (o.1 = y.me ∧ (AMap.get y.heap.tree o).isSome)) :
    Reach D x (y.treeDel o d) :=
  Reach.step (.treeDel o d) h ⟨hd, ho⟩
theorem Reach.alloc (h : Reach D x y) (m : AMap Int Wt) : Reach D x (y.alloc m).1 :=
  Reach.step (.alloc m) h trivial

end Steps

end Hyp.CIdx
