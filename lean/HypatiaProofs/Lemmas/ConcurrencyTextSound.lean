import HypatiaProofs.Lemmas.ConcurrencyTextOps

/-!
Invariants of the object-level text index that hold along every sequence of valid primitive steps:

* `TSound`   – the write log is sound: an object that is not registered is unchanged;
* `LexTrack` – the lexicon is untouched, or the first free word id of the snapshot has been taken
  (and `_words` is registered);
* `Own`      – identities: the allocator only hands out `(me, n)` with `n` below `next`.
-/
set_option linter.unusedSectionVars false
set_option linter.unusedSimpArgs false
set_option linter.unusedVariables false
namespace Hyp.CIdx
open Hyp

variable {W Wt : Type} [DecidableEq W] [DecidableEq Wt]

theorem writes_rd (y : TTx W Wt) (l : TLoc W) : (y.rd l).writes = y.writes := rfl
theorem writes_nt (y : TTx W Wt) (l : TLoc W) : (y.nt l).writes = l :: y.writes := by
  simp [TTx.writes, TTx.nt]
theorem writes_pl (y : TTx W Wt) (l : TLoc W) : (y.pl l).writes = y.writes := by
  simp [TTx.writes, TTx.pl]
theorem tdirty_cons (l : TLoc W) (w : List (TLoc W)) (o : TObj) :
    tdirty (l :: w) o = (decide (l.obj = o) || tdirty w o) := rfl

/-! ### `_new_wid` touches the lexicon's `Length` only -/

theorem skipLoop_frame : ∀ (n : Nat) (y : TTx W Wt),
    (TTx.skipLoop y n).heap = { y.heap with lexCount := (TTx.skipLoop y n).heap.lexCount } ∧
    (TTx.skipLoop y n).me = y.me ∧ (TTx.skipLoop y n).next = y.next ∧
    (∀ o, o ≠ TObj.lexCount → tdirty (TTx.skipLoop y n).writes o = tdirty y.writes o)
  | 0, y => ⟨rfl, rfl, rfl, fun _ _ => rfl⟩
  | n + 1, y => by
    unfold TTx.skipLoop
    simp only
    split
    · obtain ⟨h1, h2, h3, h4⟩ := skipLoop_frame n (((y.rd .lexCount).rd (.words y.heap.lexCount.toNat)).lexChange 1)
      refine ⟨?_, ?_, ?_, ?_⟩
      · rw [h1]; rfl
      · rw [h2]; rfl
      · rw [h3]; rfl
      · intro o ho
        rw [h4 o ho]
        show tdirty (((y.rd .lexCount).rd (.words y.heap.lexCount.toNat)).nt .lexCount).writes o = _
        rw [writes_nt, tdirty_cons]
        have : decide ((TLoc.lexCount : TLoc W).obj = o) = false := by
          exact decide_eq_false (fun (e : TObj.lexCount = o) => ho e.symm)
        rw [this]; rfl
    · exact ⟨rfl, rfl, rfl, fun _ _ => rfl⟩

theorem newWid_frame (y : TTx W Wt) :
    (TTx.newWid y).1.heap = { y.heap with lexCount := (TTx.newWid y).1.heap.lexCount } ∧
    (TTx.newWid y).1.me = y.me ∧ (TTx.newWid y).1.next = y.next ∧
    (∀ o, o ≠ TObj.lexCount → tdirty (TTx.newWid y).1.writes o = tdirty y.writes o) := by
  unfold TTx.newWid
  simp only
  obtain ⟨h1, h2, h3, h4⟩ := skipLoop_frame ((y.lexChange 1).heap.words.length + 1) (y.lexChange 1)
  refine ⟨?_, ?_, ?_, ?_⟩
  · show (TTx.skipLoop (y.lexChange 1) _).heap = _
    rw [h1]; rfl
  · show (TTx.skipLoop (y.lexChange 1) _).me = _
    rw [h2]; rfl
  · show (TTx.skipLoop (y.lexChange 1) _).next = _
    rw [h3]; rfl
  · intro o ho
    show tdirty (TTx.skipLoop (y.lexChange 1) _).writes o = _
    rw [h4 o ho]
    show tdirty (y.nt .lexCount).writes o = _
    rw [writes_nt, tdirty_cons]
    have : decide ((TLoc.lexCount : TLoc W).obj = o) = false := by
      exact decide_eq_false (fun (e : TObj.lexCount = o) => ho e.symm)
    rw [this]; rfl

/-- the id `_new_wid` returns depends on `_words` and the `Length` only -/
theorem skipLoop_congr : ∀ (n : Nat) (y z : TTx W Wt), y.heap.words = z.heap.words →
    y.heap.lexCount = z.heap.lexCount →
    (TTx.skipLoop y n).heap.lexCount = (TTx.skipLoop z n).heap.lexCount
  | 0, y, z, _, h2 => h2
  | n + 1, y, z, h1, h2 => by
    unfold TTx.skipLoop
    simp only
    split
    · next hy =>
      split
      · exact skipLoop_congr n _ _ h1 (by simp [TTx.lexChange, TTx.nt, TTx.rd, h2])
      · next hz =>
        exact absurd (show (AMap.get z.heap.words z.heap.lexCount.toNat).isSome = true by
          rw [← h1, ← h2]; exact hy) hz
    · next hy =>
      split
      · next hz =>
        exact absurd (show (AMap.get y.heap.words y.heap.lexCount.toNat).isSome = true by
          rw [h1, h2]; exact hz) hy
      · exact h2

theorem newWid_congr (y z : TTx W Wt) (h1 : y.heap.words = z.heap.words)
    (h2 : y.heap.lexCount = z.heap.lexCount) : (TTx.newWid y).2 = (TTx.newWid z).2 := by
  unfold TTx.newWid
  simp only [TTx.rd]
  have e : (y.lexChange 1).heap.words.length = (z.lexChange 1).heap.words.length := by
    show y.heap.words.length = z.heap.words.length; rw [h1]
  rw [e, skipLoop_congr _ (y.lexChange 1) (z.lexChange 1) h1 (by simp [TTx.lexChange, TTx.nt, h2])]

/-! ### soundness of the write log -/

structure TSound (H : THeap W Wt) (y : TTx W Wt) : Prop where
  wids : tdirty y.writes .wids = false → y.heap.wids = H.wids
  words : tdirty y.writes .words = false → y.heap.words = H.words
  wordinfo : tdirty y.writes .wordinfo = false → y.heap.wordinfo = H.wordinfo
  docwords : tdirty y.writes .docwords = false → y.heap.docwords = H.docwords
  docweight : tdirty y.writes .docweight = false → y.heap.docweight = H.docweight
  ni : tdirty y.writes .ni = false → y.heap.ni = H.ni
  tree : ∀ o, tdirty y.writes (.tree o) = false → AMap.get y.heap.tree o = AMap.get H.tree o

theorem tsound_start (H : THeap W Wt) (me : Nat) : TSound H (TTx.start H me) :=
  ⟨fun _ => rfl, fun _ => rfl, fun _ => rfl, fun _ => rfl, fun _ => rfl, fun _ => rfl, fun _ _ => rfl⟩

/-- a step that registers location `l` and changes nothing but the object of `l` -/
theorem tsound_nt {H : THeap W Wt} {y : TTx W Wt} (hs : TSound H y) (l : TLoc W) (h' : THeap W Wt)
    (e1 : l.obj ≠ .wids → h'.wids = y.heap.wids) (e2 : l.obj ≠ .words → h'.words = y.heap.words)
    (e3 : l.obj ≠ .wordinfo → h'.wordinfo = y.heap.wordinfo)
    (e4 : l.obj ≠ .docwords → h'.docwords = y.heap.docwords)
    (e5 : l.obj ≠ .docweight → h'.docweight = y.heap.docweight)
    (e6 : l.obj ≠ .ni → h'.ni = y.heap.ni)
    (e7 : ∀ o, l.obj ≠ .tree o → AMap.get h'.tree o = AMap.get y.heap.tree o) :
    TSound H ({ y with heap := h' }.nt l) := by
  have key : ∀ o, tdirty ({ y with heap := h' }.nt l).writes o = false → l.obj ≠ o ∧ tdirty y.writes o = false := by
    intro o h
    have : ({ y with heap := h' }.nt l).writes = l :: y.writes := writes_nt _ _
    rw [this, tdirty_cons] at h
    simp only [Bool.or_eq_false_iff, decide_eq_false_iff_not] at h
    exact h
  refine ⟨?_, ?_, ?_, ?_, ?_, ?_, ?_⟩
  · intro h; obtain ⟨a, b⟩ := key _ h; exact (e1 a).trans (hs.wids b)
  · intro h; obtain ⟨a, b⟩ := key _ h; exact (e2 a).trans (hs.words b)
  · intro h; obtain ⟨a, b⟩ := key _ h; exact (e3 a).trans (hs.wordinfo b)
  · intro h; obtain ⟨a, b⟩ := key _ h; exact (e4 a).trans (hs.docwords b)
  · intro h; obtain ⟨a, b⟩ := key _ h; exact (e5 a).trans (hs.docweight b)
  · intro h; obtain ⟨a, b⟩ := key _ h; exact (e6 a).trans (hs.ni b)
  · intro o h; obtain ⟨a, b⟩ := key _ h; exact (e7 o a).trans (hs.tree o b)

theorem tsound_rd {H : THeap W Wt} {y : TTx W Wt} (hs : TSound H y) (l : TLoc W) : TSound H (y.rd l) :=
  ⟨hs.wids, hs.words, hs.wordinfo, hs.docwords, hs.docweight, hs.ni, hs.tree⟩

theorem get_set_tree_ne {m : AMap Oid (AMap Int Wt)} {o o' : Oid} (v : AMap Int Wt) (h : o ≠ o') :
    AMap.get (AMap.set m o v) o' = AMap.get m o' := by
  rw [AMap.get_set]; simp [h]

theorem tsound_prim {H : THeap W Wt} {D : Int → Prop} (p : TPrim W Wt) {y : TTx W Wt} (hs : TSound H y) :
    TSound H (p.app y) := by
  cases p with
  | rd l => exact tsound_rd hs l
  | newWord w =>
    obtain ⟨h1, h2, h3, h4⟩ := newWid_frame y
    -- after `_new_wid` the soundness still holds (only the Length moved)
    have hn : TSound H (TTx.newWid y).1 := by
      refine ⟨?_, ?_, ?_, ?_, ?_, ?_, ?_⟩
      · intro h; rw [h4 _ (by simp)] at h; rw [h1]; exact hs.wids h
      · intro h; rw [h4 _ (by simp)] at h; rw [h1]; exact hs.words h
      · intro h; rw [h4 _ (by simp)] at h; rw [h1]; exact hs.wordinfo h
      · intro h; rw [h4 _ (by simp)] at h; rw [h1]; exact hs.docwords h
      · intro h; rw [h4 _ (by simp)] at h; rw [h1]; exact hs.docweight h
      · intro h; rw [h4 _ (by simp)] at h; rw [h1]; exact hs.ni h
      · intro o h; rw [h4 _ (by simp)] at h; rw [h1]; exact hs.tree o h
    have hw := tsound_nt hn (.wids w) { (TTx.newWid y).1.heap with wids := AMap.set (TTx.newWid y).1.heap.wids w (TTx.newWid y).2 }
      (fun h => absurd rfl h) (fun _ => rfl) (fun _ => rfl) (fun _ => rfl) (fun _ => rfl) (fun _ => rfl) (fun _ _ => rfl)
    exact tsound_nt hw (.words (TTx.newWid y).2) _
      (fun _ => rfl) (fun h => absurd rfl h) (fun _ => rfl) (fun _ => rfl) (fun _ => rfl) (fun _ => rfl) (fun _ _ => rfl)
  | wiSet i v =>
    exact tsound_nt hs (.wi i) _ (fun _ => rfl) (fun _ => rfl) (fun h => absurd rfl h) (fun _ => rfl) (fun _ => rfl)
      (fun _ => rfl) (fun _ _ => rfl)
  | wiErase i =>
    exact tsound_nt hs (.wi i) _ (fun _ => rfl) (fun _ => rfl) (fun h => absurd rfl h) (fun _ => rfl) (fun _ => rfl)
      (fun _ => rfl) (fun _ _ => rfl)
  | dictPutR i m d f =>
    have := tsound_nt hs (.wi i) { y.heap with wordinfo := AMap.set (AMap.set y.heap.wordinfo i (.dict (AMap.set m d f))) i (.dict (AMap.set m d f)) }
      (fun _ => rfl) (fun _ => rfl) (fun h => absurd rfl h) (fun _ => rfl) (fun _ => rfl) (fun _ => rfl) (fun _ _ => rfl)
    refine ⟨this.wids, this.words, this.wordinfo, this.docwords, this.docweight, this.ni, this.tree⟩
  | dictDelR i m d =>
    have := tsound_nt hs (.wi i) { y.heap with wordinfo := AMap.set (AMap.set y.heap.wordinfo i (.dict (AMap.erase m d))) i (.dict (AMap.erase m d)) }
      (fun _ => rfl) (fun _ => rfl) (fun h => absurd rfl h) (fun _ => rfl) (fun _ => rfl) (fun _ => rfl) (fun _ _ => rfl)
    refine ⟨this.wids, this.words, this.wordinfo, this.docwords, this.docweight, this.ni, this.tree⟩
  | dictDelE i m d =>
    have := tsound_nt hs (.wi i) { y.heap with wordinfo := AMap.erase (AMap.set y.heap.wordinfo i (.dict (AMap.erase m d))) i }
      (fun _ => rfl) (fun _ => rfl) (fun h => absurd rfl h) (fun _ => rfl) (fun _ => rfl) (fun _ => rfl) (fun _ _ => rfl)
    refine ⟨this.wids, this.words, this.wordinfo, this.docwords, this.docweight, this.ni, this.tree⟩
  | dwSet d ws =>
    exact tsound_nt hs (.docwords d) _ (fun _ => rfl) (fun _ => rfl) (fun _ => rfl) (fun h => absurd rfl h) (fun _ => rfl)
      (fun _ => rfl) (fun _ _ => rfl)
  | dwErase d =>
    exact tsound_nt hs (.docwords d) _ (fun _ => rfl) (fun _ => rfl) (fun _ => rfl) (fun h => absurd rfl h) (fun _ => rfl)
      (fun _ => rfl) (fun _ _ => rfl)
  | dwtSet d f =>
    show TSound H (y.dwtSet d f)
    unfold TTx.dwtSet
    split
    · exact hs
    · exact tsound_nt hs (.docweight d) _ (fun _ => rfl) (fun _ => rfl) (fun _ => rfl) (fun _ => rfl)
        (fun h => absurd rfl h) (fun _ => rfl) (fun _ _ => rfl)
  | dwtErase d =>
    exact tsound_nt hs (.docweight d) _ (fun _ => rfl) (fun _ => rfl) (fun _ => rfl) (fun _ => rfl)
      (fun h => absurd rfl h) (fun _ => rfl) (fun _ _ => rfl)
  | wcChange δ =>
    exact tsound_nt hs .wordCount _ (fun _ => rfl) (fun _ => rfl) (fun _ => rfl) (fun _ => rfl) (fun _ => rfl)
      (fun _ => rfl) (fun _ _ => rfl)
  | icChange δ =>
    exact tsound_nt hs .indexedCount _ (fun _ => rfl) (fun _ => rfl) (fun _ => rfl) (fun _ => rfl) (fun _ => rfl)
      (fun _ => rfl) (fun _ _ => rfl)
  | tdlChange δ =>
    exact tsound_nt hs .totalDocLen _ (fun _ => rfl) (fun _ => rfl) (fun _ => rfl) (fun _ => rfl) (fun _ => rfl)
      (fun _ => rfl) (fun _ _ => rfl)
  | niRemove d =>
    exact tsound_nt hs (.ni d) _ (fun _ => rfl) (fun _ => rfl) (fun _ => rfl) (fun _ => rfl) (fun _ => rfl)
      (fun h => absurd rfl h) (fun _ _ => rfl)
  | niAdd d =>
    exact tsound_nt hs (.ni d) _ (fun _ => rfl) (fun _ => rfl) (fun _ => rfl) (fun _ => rfl) (fun _ => rfl)
      (fun h => absurd rfl h) (fun _ _ => rfl)
  | treePut o d f =>
    show TSound H (y.treePut o d f)
    unfold TTx.treePut
    split
    · exact hs
    · refine tsound_nt hs (.tree o d) _ (fun _ => rfl) (fun _ => rfl) (fun _ => rfl) (fun _ => rfl) (fun _ => rfl)
        (fun _ => rfl) (fun o' h => get_set_tree_ne _ (fun e => h (by rw [e]; rfl)))
  | treeDel o d =>
    refine tsound_nt hs (.tree o d) _ (fun _ => rfl) (fun _ => rfl) (fun _ => rfl) (fun _ => rfl) (fun _ => rfl)
        (fun _ => rfl) (fun o' h => get_set_tree_ne _ (fun e => h (by rw [e]; rfl)))
  | alloc m =>
    have := tsound_nt hs (.whole (y.me, y.next)) { y.heap with tree := AMap.set y.heap.tree (y.me, y.next) m }
      (fun _ => rfl) (fun _ => rfl) (fun _ => rfl) (fun _ => rfl) (fun _ => rfl)
      (fun _ => rfl) (fun o' h => get_set_tree_ne _ (fun e => h (by rw [e]; rfl)))
    refine ⟨this.wids, this.words, this.wordinfo, this.docwords, this.docweight, this.ni, this.tree⟩

/-- the write log of every history of operations is sound -/
theorem tsound_of_reach {H : THeap W Wt} {D : Int → Prop} {me : Nat} {y : TTx W Wt}
    (h : Reach D (TTx.start H me) y) : TSound H y :=
  Reach.induct (fun y => TSound H y) (tsound_start H me) (fun p _ _ hz _ => tsound_prim (D := D) p hz) h

/-! ### the lexicon: untouched, or the snapshot's first free id is taken -/

/-- the id the first new word of a transaction on snapshot `H` gets -/
def firstNewWid (H : THeap W Wt) : Nat := (TTx.newWid (TTx.start H 0)).2

inductive LexTrack (H : THeap W Wt) (y : TTx W Wt) : Prop where
  | same : y.heap.words = H.words → y.heap.lexCount = H.lexCount → y.heap.wids = H.wids → LexTrack H y
  | grew : (AMap.get y.heap.words (firstNewWid H)).isSome → tdirty y.writes .words = true → LexTrack H y

theorem lextrack_prim {H : THeap W Wt} (p : TPrim W Wt) {y : TTx W Wt} (ht : LexTrack H y) :
    LexTrack H (p.app y) := by
  -- every step but `newWord` leaves `_words`, the `Length` and the registration of `_words` alone
  have keep' : ∀ z : TTx W Wt, z.heap.words = y.heap.words → z.heap.lexCount = y.heap.lexCount →
      z.heap.wids = y.heap.wids →
      (tdirty y.writes .words = true → tdirty z.writes .words = true) → LexTrack H z := by
    intro z e1 e2 e4 e3
    cases ht with
    | same a b c => exact .same (e1.trans a) (e2.trans b) (e4.trans c)
    | grew a b => exact .grew (by rw [e1]; exact a) (e3 b)
  have keep : ∀ z : TTx W Wt, z.heap.words = y.heap.words → z.heap.lexCount = y.heap.lexCount →
      (z.heap.wids = y.heap.wids) →
      (tdirty y.writes .words = true → tdirty z.writes .words = true) → LexTrack H z := keep'
  have mono : ∀ (z : TTx W Wt) (pre : List (TStep W)), z.log = pre ++ y.log →
      tdirty y.writes .words = true → tdirty z.writes .words = true := by
    intro z pre e h
    unfold TTx.writes at h ⊢
    rw [e, List.filter_append, List.map_append]
    unfold tdirty at h ⊢
    rw [List.any_append, h]; simp
  cases p with
  | newWord w =>
    obtain ⟨h1, _, _, h4⟩ := newWid_frame y
    have hd : tdirty (((TTx.newWid y).1.widsSet w (TTx.newWid y).2).wordsSet (TTx.newWid y).2 w).writes .words = true := by
      show tdirty (TTx.nt _ (.words _)).writes .words = true
      rw [writes_nt, tdirty_cons]; simp [TLoc.obj]
    cases ht with
    | same a b _ =>
      refine .grew ?_ hd
      have e : (TTx.newWid y).2 = firstNewWid H := newWid_congr y (TTx.start H 0) a b
      show (AMap.get (AMap.set (TTx.newWid y).1.heap.words (TTx.newWid y).2 w) (firstNewWid H)).isSome
      rw [AMap.get_set, e]; simp
    | grew a b =>
      refine .grew ?_ hd
      show (AMap.get (AMap.set (TTx.newWid y).1.heap.words (TTx.newWid y).2 w) (firstNewWid H)).isSome
      rw [AMap.get_set]
      split
      · rfl
      · rw [h1]; exact a
  | rd l => exact keep _ rfl rfl rfl (mono _ [] rfl)
  | wiSet i v => exact keep _ rfl rfl rfl (mono _ [_] rfl)
  | wiErase i => exact keep _ rfl rfl rfl (mono _ [_] rfl)
  | dictPutR i m d f => exact keep _ rfl rfl rfl (mono _ [_, _] rfl)
  | dictDelR i m d => exact keep _ rfl rfl rfl (mono _ [_, _] rfl)
  | dictDelE i m d => exact keep _ rfl rfl rfl (mono _ [_, _] rfl)
  | dwSet d ws => exact keep _ rfl rfl rfl (mono _ [_] rfl)
  | dwErase d => exact keep _ rfl rfl rfl (mono _ [_] rfl)
  | dwtSet d f =>
    show LexTrack H (y.dwtSet d f)
    unfold TTx.dwtSet
    split
    · exact ht
    · exact keep _ rfl rfl rfl (mono _ [_] rfl)
  | dwtErase d => exact keep _ rfl rfl rfl (mono _ [_] rfl)
  | wcChange δ => exact keep _ rfl rfl rfl (mono _ [_] rfl)
  | icChange δ => exact keep _ rfl rfl rfl (mono _ [_] rfl)
  | tdlChange δ => exact keep _ rfl rfl rfl (mono _ [_] rfl)
  | niRemove d => exact keep _ rfl rfl rfl (mono _ [_] rfl)
  | niAdd d => exact keep _ rfl rfl rfl (mono _ [_] rfl)
  | treePut o d f =>
    show LexTrack H (y.treePut o d f)
    unfold TTx.treePut
    split
    · exact ht
    · exact keep _ rfl rfl rfl (mono _ [_] rfl)
  | treeDel o d => exact keep _ rfl rfl rfl (mono _ [_] rfl)
  | alloc m => exact keep _ rfl rfl rfl (mono _ [_] rfl)

theorem lextrack_of_reach {H : THeap W Wt} {D : Int → Prop} {me : Nat} {y : TTx W Wt}
    (h : Reach D (TTx.start H me) y) : LexTrack H y :=
  Reach.induct (fun y => LexTrack H y) (.same rfl rfl rfl) (fun p _ _ hz _ => lextrack_prim p hz) h

end Hyp.CIdx
