import HypatiaModel.Spec.CqeSpec

/-!
Basic facts for C10: the `Except` monad, `embed`/`unembed` are inverse, `BoolOp.__init__`
flattening commutes with the embedding, inversion lemmas for every case of `walk`.
-/
set_option linter.unusedSimpArgs false
set_option linter.unusedVariables false
namespace Hyp.Cqe
open Hyp.Query (Cmp)

theorem bind_ok {ε α β} (x : Except ε α) (f : α → Except ε β) (b : β) :
    (x >>= f) = .ok b ↔ ∃ a, x = .ok a ∧ f a = .ok b := by
  cases x <;> simp [bind, Except.bind]

@[simp] theorem pure_ok {ε α} (a : α) : (pure a : Except ε α) = .ok a := rfl

@[simp] theorem ok_bind {ε α β} (a : α) (f : α → Except ε β) : ((Except.ok a : Except ε α) >>= f) = f a := rfl

@[simp] theorem error_bind {ε α β} (e : ε) (f : α → Except ε β) :
    ((Except.error e : Except ε α) >>= f) = .error e := rfl

/-! ### `embed` and `unembed` -/

mutual
theorem unembedV_embedV : ∀ v, unembedV (embedV v) = some v
  | .const _ => by simp [embedV, unembedV]
  | .name _ => by simp [embedV, unembedV]
  | .list l => by simp [embedV, unembedV, unembedVs_embedVs l]
  | .tuple l => by simp [embedV, unembedV, unembedVs_embedVs l]
theorem unembedVs_embedVs : ∀ l, unembedVs (embedVs l) = some l
  | [] => by simp [embedVs, unembedVs]
  | v :: vs => by simp [embedVs, unembedVs, unembedV_embedV v, unembedVs_embedVs vs]
end

mutual
theorem unembedV_some : ∀ (w : W) (v : V), unembedV w = some v → w = embedV v
  | .const c, v, h => by simp [unembedV] at h; subst h; simp [embedV]
  | .nameObj n, v, h => by simp [unembedV] at h; subst h; simp [embedV]
  | .list l, v, h => by
    simp only [unembedV, Option.map_eq_some_iff] at h
    obtain ⟨vs, hvs, rfl⟩ := h
    simp [embedV, unembedVs_some l vs hvs]
  | .tuple l, v, h => by
    simp only [unembedV, Option.map_eq_some_iff] at h
    obtain ⟨vs, hvs, rfl⟩ := h
    simp [embedV, unembedVs_some l vs hvs]
  | .astName _, _, h => by simp [unembedV] at h
  | .callFactory _ _, _, h => by simp [unembedV] at h
  | .cmp _ _ _, _, h => by simp [unembedV] at h
  | .range _ _ _ _ _ _, _, h => by simp [unembedV] at h
  | .and _, _, h => by simp [unembedV] at h
  | .or _, _, h => by simp [unembedV] at h
  | .not _, _, h => by simp [unembedV] at h
theorem unembedVs_some : ∀ (ws : List W) (vs : List V), unembedVs ws = some vs → ws = embedVs vs
  | [], vs, h => by simp [unembedVs] at h; subst h; simp [embedVs]
  | w :: ws, vs, h => by
    simp only [unembedVs] at h
    cases hw : unembedV w with
    | none => simp [hw] at h
    | some v =>
      cases hws : unembedVs ws with
      | none => simp [hw, hws] at h
      | some vs' =>
        simp [hw, hws] at h
        subst h
        simp [embedVs, unembedV_some w v hw, unembedVs_some ws vs' hws]
end

mutual
theorem unembed_embed : ∀ q, unembed (embed q) = some q
  | .cmp _ _ v => by simp [embed, unembed, unembedV_embedV v]
  | .range _ _ s e _ _ => by simp [embed, unembed, unembedV_embedV s, unembedV_embedV e]
  | .and l => by simp [embed, unembed, unembedL_embedL l]
  | .or l => by simp [embed, unembed, unembedL_embedL l]
  | .not q => by simp [embed, unembed, unembed_embed q]
theorem unembedL_embedL : ∀ l, unembedL (embedL l) = some l
  | [] => by simp [embedL, unembedL]
  | q :: qs => by simp [embedL, unembedL, unembed_embed q, unembedL_embedL qs]
end

mutual
theorem unembed_some : ∀ (w : W) (q : Q), unembed w = some q → w = embed q
  | .cmp c i v, q, h => by
    simp only [unembed, Option.map_eq_some_iff] at h
    obtain ⟨v', hv, rfl⟩ := h
    simp [embed, unembedV_some v v' hv]
  | .range n i s e sx ex, q, h => by
    simp only [unembed] at h
    cases hs : unembedV s with
    | none => simp [hs] at h
    | some s' =>
      cases he : unembedV e with
      | none => simp [hs, he] at h
      | some e' =>
        simp [hs, he] at h
        subst h
        simp [embed, unembedV_some s s' hs, unembedV_some e e' he]
  | .and l, q, h => by
    simp only [unembed, Option.map_eq_some_iff] at h
    obtain ⟨qs, hqs, rfl⟩ := h
    simp [embed, unembedL_some l qs hqs]
  | .or l, q, h => by
    simp only [unembed, Option.map_eq_some_iff] at h
    obtain ⟨qs, hqs, rfl⟩ := h
    simp [embed, unembedL_some l qs hqs]
  | .not x, q, h => by
    simp only [unembed, Option.map_eq_some_iff] at h
    obtain ⟨q', hq, rfl⟩ := h
    simp [embed, unembed_some x q' hq]
  | .const _, _, h => by simp [unembed] at h
  | .list _, _, h => by simp [unembed] at h
  | .tuple _, _, h => by simp [unembed] at h
  | .nameObj _, _, h => by simp [unembed] at h
  | .astName _, _, h => by simp [unembed] at h
  | .callFactory _ _, _, h => by simp [unembed] at h
theorem unembedL_some : ∀ (ws : List W) (qs : List Q), unembedL ws = some qs → ws = embedL qs
  | [], qs, h => by simp [unembedL] at h; subst h; simp [embedL]
  | w :: ws, qs, h => by
    simp only [unembedL] at h
    cases hw : unembed w with
    | none => simp [hw] at h
    | some q =>
      cases hws : unembedL ws with
      | none => simp [hw, hws] at h
      | some qs' =>
        simp [hw, hws] at h
        subst h
        simp [embedL, unembed_some w q hw, unembedL_some ws qs' hws]
end

theorem unembed_iff (w : W) (q : Q) : unembed w = some q ↔ w = embed q :=
  ⟨unembed_some w q, fun h => h ▸ unembed_embed q⟩

theorem unembedV_iff (w : W) (v : V) : unembedV w = some v ↔ w = embedV v :=
  ⟨unembedV_some w v, fun h => h ▸ unembedV_embedV v⟩

theorem embed_injective {a b : Q} (h : embed a = embed b) : a = b := by
  have := unembed_embed a
  rw [h, unembed_embed] at this
  exact (Option.some.inj this).symm

theorem isQuery_embed (q : Q) : (embed q).isQuery = true := by
  cases q <;> simp [embed, W.isQuery]

theorem all_isQuery_embedL : ∀ l : List Q, (embedL l).all W.isQuery = true
  | [] => by simp [embedL]
  | q :: qs => by simp [embedL, isQuery_embed q, all_isQuery_embedL qs]

theorem embedL_append : ∀ a b : List Q, embedL (a ++ b) = embedL a ++ embedL b
  | [], b => by simp [embedL]
  | q :: qs, b => by simp [embedL, embedL_append qs b]

theorem unembedL_append : ∀ (a b : List W) (qs : List Q), unembedL (a ++ b) = some qs →
    ∃ qa qb, unembedL a = some qa ∧ unembedL b = some qb ∧ qs = qa ++ qb
  | [], b, qs, h => ⟨[], qs, by simp [unembedL], by simpa using h, by simp⟩
  | w :: a, b, qs, h => by
    simp only [List.cons_append, unembedL] at h
    cases hw : unembed w with
    | none => simp [hw] at h
    | some q =>
      cases hr : unembedL (a ++ b) with
      | none => simp [hw, hr] at h
      | some r =>
        simp [hw, hr] at h
        obtain ⟨qa, qb, h1, h2, h3⟩ := unembedL_append a b r hr
        exact ⟨q :: qa, qb, by simp [unembedL, hw, h1], h2, by simp [← h, h3]⟩

/-! ### flattening -/

theorem flatOf_embed (k : BoolK) (q : Q) : flatOf k (embed q) = embedL (Q.flatOf k q) := by
  cases q <;> cases k <;> simp [embed, flatOf, Q.flatOf, embedL]

theorem flatMap_embedL (k : BoolK) : ∀ l : List Q,
    (embedL l).flatMap (flatOf k) = embedL (l.flatMap (Q.flatOf k))
  | [] => by simp [embedL]
  | q :: qs => by
    simp [embedL, List.flatMap_cons, flatOf_embed, embedL_append, flatMap_embedL k qs]

theorem mkBool_embedL (k : BoolK) (l : List Q) : mkBool k (embedL l) = embed (Q.mk k l) := by
  cases k <;> simp [mkBool, Q.mk, embed, flatMap_embedL]

/-- a flattened operand that is a proper tree comes from a proper tree -/
theorem unembedL_flatOf (k : BoolK) (w : W) (l : List Q) (h : unembedL (flatOf k w) = some l) :
    ∃ q, unembed w = some q ∧ Q.flatOf k q = l := by
  cases w with
  | and xs =>
    cases k with
    | and =>
      simp only [flatOf] at h
      exact ⟨.and l, by simp [unembed, h], by simp [Q.flatOf]⟩
    | or =>
      simp only [flatOf, unembedL] at h
      cases hx : unembed (.and xs) with
      | none => simp [hx] at h
      | some q =>
        simp [hx] at h
        subst h
        refine ⟨q, rfl, ?_⟩
        simp only [unembed, Option.map_eq_some_iff] at hx
        obtain ⟨qs, _, rfl⟩ := hx
        simp [Q.flatOf]
  | or xs =>
    cases k with
    | or =>
      simp only [flatOf] at h
      exact ⟨.or l, by simp [unembed, h], by simp [Q.flatOf]⟩
    | and =>
      simp only [flatOf, unembedL] at h
      cases hx : unembed (.or xs) with
      | none => simp [hx] at h
      | some q =>
        simp [hx] at h
        subst h
        refine ⟨q, rfl, ?_⟩
        simp only [unembed, Option.map_eq_some_iff] at hx
        obtain ⟨qs, _, rfl⟩ := hx
        simp [Q.flatOf]
  | cmp c i v =>
    simp only [flatOf, unembedL] at h
    cases hx : unembed (.cmp c i v) with
    | none => simp [hx] at h
    | some q =>
      simp [hx] at h
      subst h
      refine ⟨q, rfl, ?_⟩
      simp only [unembed, Option.map_eq_some_iff] at hx
      obtain ⟨v', _, rfl⟩ := hx
      cases k <;> simp [Q.flatOf]
  | range n i s e sx ex =>
    simp only [flatOf, unembedL] at h
    cases hx : unembed (.range n i s e sx ex) with
    | none => simp [hx] at h
    | some q =>
      simp [hx] at h
      subst h
      refine ⟨q, rfl, ?_⟩
      have := unembed_some _ _ hx
      cases q <;> simp [embed] at this
      cases k <;> simp [Q.flatOf]
  | not x =>
    simp only [flatOf, unembedL] at h
    cases hx : unembed (.not x) with
    | none => simp [hx] at h
    | some q =>
      simp [hx] at h
      subst h
      refine ⟨q, rfl, ?_⟩
      have := unembed_some _ _ hx
      cases q <;> simp [embed] at this
      cases k <;> simp [Q.flatOf]
  | const c => simp [flatOf, unembedL, unembed] at h
  | list l' => simp [flatOf, unembedL, unembed] at h
  | tuple l' => simp [flatOf, unembedL, unembed] at h
  | nameObj n => simp [flatOf, unembedL, unembed] at h
  | astName n => simp [flatOf, unembedL, unembed] at h
  | callFactory a b => simp [flatOf, unembedL, unembed] at h

theorem unembedL_flatMap (k : BoolK) : ∀ (ws : List W) (l : List Q),
    unembedL (ws.flatMap (flatOf k)) = some l →
    ∃ qs, unembedL ws = some qs ∧ l = qs.flatMap (Q.flatOf k)
  | [], l, h => ⟨[], by simp [unembedL], by simpa [unembedL] using h.symm⟩
  | w :: ws, l, h => by
    rw [List.flatMap_cons] at h
    obtain ⟨qa, qb, h1, h2, rfl⟩ := unembedL_append _ _ _ h
    obtain ⟨q, hq, hqa⟩ := unembedL_flatOf k w qa h1
    obtain ⟨qs, hqs, rfl⟩ := unembedL_flatMap k ws qb h2
    exact ⟨q :: qs, by simp [unembedL, hq, hqs], by simp [List.flatMap_cons, hqa]⟩

/-- a proper tree built by `BoolOp.__init__` was built from proper operands -/
theorem unembed_mkBool (k : BoolK) (ws : List W) (q : Q) (h : unembed (mkBool k ws) = some q) :
    ∃ qs, unembedL ws = some qs ∧ q = Q.mk k qs := by
  cases k with
  | and =>
    simp only [mkBool, unembed, Option.map_eq_some_iff] at h
    obtain ⟨l, hl, rfl⟩ := h
    obtain ⟨qs, hqs, rfl⟩ := unembedL_flatMap .and ws l hl
    exact ⟨qs, hqs, by simp [Q.mk]⟩
  | or =>
    simp only [mkBool, unembed, Option.map_eq_some_iff] at h
    obtain ⟨l, hl, rfl⟩ := h
    obtain ⟨qs, hqs, rfl⟩ := unembedL_flatMap .or ws l hl
    exact ⟨qs, hqs, by simp [Q.mk]⟩

/-! ### `wrap` -/

theorem wrap_of_unembedV {w : W} {v : V} (h : unembedV w = some v) : w.wrap = w := by
  cases w <;> simp [unembedV] at h <;> simp [W.wrap]

theorem wrap_embedV (v : V) : (embedV v).wrap = embedV v := by
  cases v <;> simp [embedV, W.wrap]

theorem wrap_eq_const {w : W} {c : Const} (h : w.wrap = .const c) : w = .const c := by
  cases w <;> simp [W.wrap] at h ⊢ <;> exact h

theorem unembedV_wrap_query {w : W} (h : w.isQuery = true) : unembedV w.wrap = none := by
  cases w <;> simp [W.isQuery] at h <;> simp [W.wrap, unembedV]

/-! ### inversion of `walk`, case by case -/

theorem walk_name (cat : List String) (id : String) : walk cat (.name id) = .ok (.astName id) := by
  simp [walk]

theorem walk_constant (cat : List String) (c : Const) : walk cat (.constant c) = .ok (.const c) := by
  simp [walk]

theorem walk_attribute_ok {cat v attr w} (h : walk cat (.attribute v attr) = .ok w) :
    ∃ id, walk cat v = .ok (.astName id) ∧ w = .astName (id ++ "." ++ attr) := by
  simp only [walk, bind_ok] at h
  obtain ⟨c, hc, h⟩ := h
  cases c <;> simp at h
  exact ⟨_, hc, h.symm⟩

theorem walk_list_ok {cat l w} (h : walk cat (.list l) = .ok w) :
    ∃ ws, walkList cat l = .ok ws ∧ w = .list (ws.map W.wrap) := by
  simp only [walk, bind_ok, pure_ok, Except.ok.injEq] at h
  obtain ⟨ws, h1, h2⟩ := h
  exact ⟨ws, h1, h2.symm⟩

theorem walk_tuple_ok {cat l w} (h : walk cat (.tuple l) = .ok w) :
    ∃ ws, walkList cat l = .ok ws ∧ w = .tuple (ws.map W.wrap) := by
  simp only [walk, bind_ok, pure_ok, Except.ok.injEq] at h
  obtain ⟨ws, h1, h2⟩ := h
  exact ⟨ws, h1, h2.symm⟩

theorem walk_unary_ok {cat op x w} (h : walk cat (.unaryOp op x) = .ok w) :
    op ≠ .invert ∧ ∃ wx, walk cat x = .ok wx ∧ applyUn op wx = .ok w := by
  simp only [walk, bind_ok] at h
  obtain ⟨_, h0, wx, h1, h2⟩ := h
  refine ⟨?_, wx, h1, h2⟩
  rintro rfl
  simp [unOpOk] at h0

theorem walk_binop_ok {cat l op r w} (h : walk cat (.binOp l op r) = .ok w) :
    ∃ k wl wr, binOpK op = .ok k ∧ walk cat l = .ok wl ∧ walk cat r = .ok wr ∧
      wl.isQuery = true ∧ wr.isQuery = true ∧ w = mkBool k [wl, wr] := by
  simp only [walk, bind_ok] at h
  obtain ⟨wl, h1, k, h2, wr, h3, h4⟩ := h
  cases hl : wl.isQuery <;> cases hr : wr.isQuery <;> simp [hl, hr] at h4
  exact ⟨k, wl, wr, h2, h1, h3, hl, hr, h4.symm⟩

theorem walk_boolop_ok {cat k vs w} (h : walk cat (.boolOp k vs) = .ok w) :
    ∃ ws, walkList cat vs = .ok ws ∧ ws.all W.isQuery = true ∧ w = mkBool k ws := by
  simp only [walk, bind_ok] at h
  obtain ⟨ws, h1, h2⟩ := h
  cases ha : ws.all W.isQuery <;> simp [ha] at h2
  exact ⟨ws, h1, ha, h2.symm⟩

theorem walk_call_ok {cat f args w} (h : walk cat (.call f args) = .ok w) :
    ∃ wf wa, walk cat f = .ok wf ∧ walkList cat args = .ok wa ∧ processCall wf wa = .ok w := by
  simp only [walk, bind_ok] at h
  obtain ⟨wf, h1, wa, h2, h3⟩ := h
  exact ⟨wf, wa, h1, h2, h3⟩

theorem walk_other (cat : List String) (ty : String) (ch : List PyAst) (w : W) :
    walk cat (.other ty ch) ≠ .ok w := by
  intro h
  simp only [walk, bind_ok] at h
  obtain ⟨_, _, h⟩ := h
  cases h

theorem walk_compare_ok {cat l rest w} (h : walk cat (.compare l rest) = .ok w) :
    ∃ wl fs ws, walk cat l = .ok wl ∧ cmpOps (rest.map Prod.fst) = .ok fs ∧ walkPairs cat rest = .ok ws ∧
      (match fs, ws with
        | [f], [right] => factoryCall cat f wl right
        | [f1, f2], [indexName, stop] => rangeCall cat wl f1 f2 indexName stop
        | _, _ => .error .valueError) = .ok w := by
  simp only [walk, bind_ok] at h
  obtain ⟨wl, h1, fs, h2, ws, h3, h4⟩ := h
  exact ⟨wl, fs, ws, h1, h2, h3, h4⟩

theorem walkList_cons_ok {cat a as ws} (h : walkList cat (a :: as) = .ok ws) :
    ∃ w ws', walk cat a = .ok w ∧ walkList cat as = .ok ws' ∧ ws = w :: ws' := by
  simp only [walkList, bind_ok, pure_ok, Except.ok.injEq] at h
  obtain ⟨w, h1, ws', h2, h3⟩ := h
  exact ⟨w, ws', h1, h2, h3.symm⟩

theorem walkList_nil_ok {cat ws} (h : walkList cat [] = .ok ws) : ws = [] := by
  simp only [walkList, Except.ok.injEq] at h; exact h.symm

/-- results of `processCall` are the any()/all() closures -/
theorem processCall_ok {wf wa w} (h : processCall wf wa = .ok w) :
    ∃ all vals, wa = [vals] ∧ w = .callFactory all vals ∧
      wf = .astName (if all then "all" else "any") := by
  unfold processCall at h
  split at h
  · next id =>
    split at h
    · next hid =>
      split at h
      · next vals =>
        simp at h
        refine ⟨decide (id = "all"), vals, rfl, h.symm, ?_⟩
        rcases hid with rfl | rfl <;> simp
      · cases h
    · cases h
  · cases h

theorem applyUn_not (x : W) : applyUn .not x = .ok (.not x) := rfl

theorem applyUn_usub_ok {x w} (h : applyUn .usub x = .ok w) :
    ∃ c c', x = .const c ∧ c.neg? = some c' ∧ w = .const c' := by
  unfold applyUn at h
  cases x <;> simp at h
  next c =>
    cases hc : c.neg? <;> simp [hc] at h
    exact ⟨c, _, rfl, hc, h.symm⟩

theorem applyUn_uadd_ok {x w} (h : applyUn .uadd x = .ok w) :
    ∃ c c', x = .const c ∧ c.pos? = some c' ∧ w = .const c' := by
  unfold applyUn at h
  cases x <;> simp at h
  next c =>
    cases hc : c.pos? <;> simp [hc] at h
    exact ⟨c, _, rfl, hc, h.symm⟩

theorem getIndex_ok {cat w i} (h : getIndex cat w = .ok i) : w = .astName i ∧ cat.contains i = true := by
  unfold getIndex at h
  split at h
  · next id =>
    split at h
    · next hc => simp at h; subst h; exact ⟨rfl, hc⟩
    · cases h
  · cases h

theorem getIndex_astName {cat : List String} {i : String} (h : cat.contains i = true) :
    getIndex cat (.astName i) = .ok i := by
  have : i ∈ cat := by simpa using h
  simp [getIndex, this]

end Hyp.Cqe
