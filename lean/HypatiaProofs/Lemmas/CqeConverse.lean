import HypatiaProofs.Lemmas.CqeForward

/-!
C10, converse: an AST whose walk returns a query tree over proper values is recognised as a
spelling (`unparse`) that denotes exactly that tree and names only catalog indexes; and the
recogniser is the inverse of `Sx.toAst`.
-/
set_option linter.unusedSimpArgs false
set_option linter.unusedVariables false
namespace Hyp.Cqe
open Hyp.Query (Cmp)

theorem cmpOpW_plain {op : CmpOp} {c : Cmp} (h : plainCmp op = some c) : cmpOpW op = .ok (.cmp c) := by
  cases op <;> simp [plainCmp] at h <;> subst h <;> rfl

theorem unparse_plain {op : CmpOp} {c : Cmp} (h : plainCmp op = some c) (l r : PyAst) :
    unparse (.compare l [(op, r)]) =
      (match undot l, unparseV r with
       | some idx, some v => some (.cmp c idx v)
       | _, _ => none) := by
  cases op <;> simp [plainCmp] at h <;> subst h <;> simp [unparse, plainCmp] <;>
    cases undot l <;> cases unparseV r <;> simp

theorem walkList_single {cat : List String} {l : List PyAst} {x : W} (h : walkList cat l = .ok [x]) :
    ∃ a, l = [a] ∧ walk cat a = .ok x := by
  cases l with
  | nil => simp [walkList] at h
  | cons a as =>
    obtain ⟨w, ws', hw, hws, heq⟩ := walkList_cons_ok h
    simp at heq
    obtain ⟨rfl, rfl⟩ := heq
    cases as with
    | nil => exact ⟨a, rfl, hw⟩
    | cons b bs =>
      obtain ⟨_, _, _, _, h3⟩ := walkList_cons_ok hws
      simp at h3

theorem unparseIn_of_undot {r : PyAst} {d : Dotted} (h : undot r = some d) (neg : Bool) (l : PyAst) :
    unparseIn neg l r = (unparseV l).map (fun v => .cmp (if neg then .notcontains else .contains) d v) := by
  cases r with
  | name id =>
    simp [undot] at h
    subst h
    cases hv : unparseV l <;> simp [unparseIn, undot, hv]
  | «attribute» x attr =>
    cases hv : unparseV l <;> simp [unparseIn, h, hv]
  | boolOp _ _ => simp [undot] at h
  | unaryOp _ _ => simp [undot] at h
  | binOp _ _ _ => simp [undot] at h
  | compare _ _ => simp [undot] at h
  | call _ _ => simp [undot] at h
  | constant _ => simp [undot] at h
  | list _ => simp [undot] at h
  | tuple _ => simp [undot] at h
  | other _ _ => simp [undot] at h

/-- plain comparison `idx <op> value` -/
theorem plain_inv (cat : List String) (c : Cmp) (l r : PyAst) (wl wr w : W) (q : Q)
    (hl : walk cat l = .ok wl) (hr : walk cat r = .ok wr)
    (hm : factoryCall cat (.cmp c) wl wr = .ok w) (hq : unembed w = some q) :
    ∃ idx v, undot l = some idx ∧ unparseV r = some v ∧
      (Sx.cmp c idx v).tree = some q ∧ (Sx.cmp c idx v).inCat cat = true := by
  simp only [factoryCall, bind_ok, pure_ok, Except.ok.injEq] at hm
  obtain ⟨i, hi, rfl⟩ := hm
  obtain ⟨rfl, hcat⟩ := getIndex_ok hi
  have hmem := List.contains_iff_mem.mp hcat
  simp only [unembed, Option.map_eq_some_iff] at hq
  obtain ⟨v, hv, rfl⟩ := hq
  obtain ⟨d, hd, hid⟩ := walk_astName_inv cat l i hl
  obtain ⟨sv, h1, h2⟩ := walk_value_inv cat r wr v hr hv
  exact ⟨d, sv, hd, h1, by simp [Sx.tree, h2, hid], by simp [Sx.inCat, hid, hmem]⟩

/-- `value [not] in idx`, `idx [not] in any(v)`, `idx [not] in all(v)` -/
theorem in_inv (cat : List String) (neg : Bool) (l r : PyAst) (wl wr w : W) (q : Q)
    (hl : walk cat l = .ok wl) (hr : walk cat r = .ok wr)
    (hm : factoryCall cat (.isIn neg) wl wr = .ok w) (hq : unembed w = some q) :
    ∃ s, unparseIn neg l r = some s ∧ s.tree = some q ∧ s.inCat cat = true := by
  unfold factoryCall at hm
  simp only at hm
  by_cases hcall : wr.callable = true
  · -- any()/all()
    simp only [hcall, if_true, bind_ok] at hm
    obtain ⟨i, hi, q', hq', hm⟩ := hm
    obtain ⟨rfl, hcat⟩ := getIndex_ok hi
    have hmem := List.contains_iff_mem.mp hcat
    cases wr <;> simp [W.callable] at hcall
    next all vals =>
    simp only [callWithIndex, Except.ok.injEq] at hq'
    subst hq'
    -- shape of r
    have hres := walk_resultOk hr
    cases r <;> simp [resultOk] at hres
    next f args =>
    obtain ⟨wf, wa, hf, hargs, hpc⟩ := walk_call_ok hr
    obtain ⟨all', vals', rfl, heq, rfl⟩ := processCall_ok hpc
    simp only [W.callFactory.injEq] at heq
    obtain ⟨rfl, rfl⟩ := heq
    obtain ⟨arg, rfl, harg⟩ := walkList_single hargs
    have hfn := walk_any_all_inv hf
    subst hfn
    obtain ⟨d, hd, hid⟩ := walk_astName_inv cat l i hl
    cases neg
    · simp only [Bool.false_eq_true, if_false, pure_ok, Except.ok.injEq] at hm
      subst hm
      simp only [unembed, Option.map_eq_some_iff] at hq
      obtain ⟨v, hv, rfl⟩ := hq
      obtain ⟨sv, h1, h2⟩ := walk_value_inv cat arg vals v harg hv
      cases all
      · exact ⟨.cmp .any d sv, by simp [unparseIn, hd, h1], by simp [Sx.tree, h2, hid],
          by simp [Sx.inCat, hid, hmem]⟩
      · exact ⟨.cmp .all d sv, by simp [unparseIn, hd, h1], by simp [Sx.tree, h2, hid],
          by simp [Sx.inCat, hid, hmem]⟩
    · simp only [if_true, negateCmp, Except.ok.injEq] at hm
      subst hm
      simp only [unembed, Option.map_eq_some_iff] at hq
      obtain ⟨v, hv, rfl⟩ := hq
      obtain ⟨sv, h1, h2⟩ := walk_value_inv cat arg vals v harg hv
      cases all
      · exact ⟨.cmp .notany d sv, by simp [unparseIn, hd, h1], by simp [Sx.tree, h2, hid, Cmp.negate],
          by simp [Sx.inCat, hid, hmem]⟩
      · exact ⟨.cmp .notall d sv, by simp [unparseIn, hd, h1], by simp [Sx.tree, h2, hid, Cmp.negate],
          by simp [Sx.inCat, hid, hmem]⟩
  · -- containment
    simp only [hcall, Bool.false_eq_true, if_false, bind_ok, pure_ok, Except.ok.injEq] at hm
    obtain ⟨i, hi, rfl⟩ := hm
    obtain ⟨rfl, hcat⟩ := getIndex_ok hi
    have hmem := List.contains_iff_mem.mp hcat
    simp only [unembed, Option.map_eq_some_iff] at hq
    obtain ⟨v, hv, rfl⟩ := hq
    obtain ⟨d, hd, hid⟩ := walk_astName_inv cat r i hr
    obtain ⟨sv, h1, h2⟩ := walk_value_inv cat l wl v hl hv
    refine ⟨.cmp (if neg then .notcontains else .contains) d sv, ?_, by simp [Sx.tree, h2, hid],
      by simp [Sx.inCat, hid, hmem]⟩
    simp [unparseIn_of_undot hd, h1]

theorem ltFlag_of_type {o : CmpOp} {f : Factory} (h : cmpOpW o = .ok f) (ht : f.type = .lt ∨ f.type = .le) :
    ltFlag o = some (decide (f.type = .lt)) := by
  cases o <;> simp [cmpOpW] at h <;> subst h <;> simp [Factory.type, ltFlag] at ht ⊢

/-- the `Compare` node: non-recursive (operands are names and values) -/
theorem compare_inv (cat : List String) (l : PyAst) (rest : List (CmpOp × PyAst)) (w : W) (q : Q)
    (h : walk cat (.compare l rest) = .ok w) (hq : unembed w = some q) :
    ∃ s, unparse (.compare l rest) = some s ∧ s.tree = some q ∧ s.inCat cat = true := by
  obtain ⟨wl, fs, ws, hl, hfs, hws, hm⟩ := walk_compare_ok h
  match rest with
  | [] =>
    simp [cmpOps, walkPairs] at hfs hws
    subst hfs hws
    simp at hm
  | [(op, r)] =>
    simp only [List.map_cons, List.map_nil, cmpOps, bind_ok, pure_ok, Except.ok.injEq] at hfs
    obtain ⟨f, hf, _, rfl, rfl⟩ := hfs
    simp only [walkPairs, bind_ok, pure_ok, Except.ok.injEq] at hws
    obtain ⟨wr, hr, _, rfl, rfl⟩ := hws
    simp only at hm
    cases hp : plainCmp op with
    | some c =>
      rw [cmpOpW_plain hp] at hf
      simp only [Except.ok.injEq] at hf
      subst hf
      obtain ⟨idx, v, h1, h2, h3, h4⟩ := plain_inv cat c l r wl wr w q hl hr hm hq
      exact ⟨.cmp c idx v, by rw [unparse_plain hp]; simp [h1, h2], h3, h4⟩
    | none =>
      cases op <;> simp [plainCmp] at hp
      · simp [cmpOpW] at hf
      · simp [cmpOpW] at hf
      · simp only [cmpOpW, Except.ok.injEq] at hf
        subst hf
        obtain ⟨s, h1, h2, h3⟩ := in_inv cat false l r wl wr w q hl hr hm hq
        exact ⟨s, by simpa [unparse] using h1, h2, h3⟩
      · simp only [cmpOpW, Except.ok.injEq] at hf
        subst hf
        obtain ⟨s, h1, h2, h3⟩ := in_inv cat true l r wl wr w q hl hr hm hq
        exact ⟨s, by simpa [unparse] using h1, h2, h3⟩
  | [(o1, i), (o2, e)] =>
    simp only [List.map_cons, List.map_nil, cmpOps, bind_ok, pure_ok, Except.ok.injEq] at hfs
    obtain ⟨f1, hf1, _, ⟨f2, hf2, _, rfl, rfl⟩, rfl⟩ := hfs
    simp only [walkPairs, bind_ok, pure_ok, Except.ok.injEq] at hws
    obtain ⟨wi, hi, _, ⟨we, he, _, rfl, rfl⟩, rfl⟩ := hws
    simp only at hm
    obtain ⟨idx, hidx, ht1, ht2, rfl⟩ := rangeCall_ok hm
    obtain ⟨rfl, hcat⟩ := getIndex_ok hidx
    have hmem := List.contains_iff_mem.mp hcat
    simp only [unembed] at hq
    cases hs : unembedV wl.wrap with
    | none => simp [hs] at hq
    | some vs =>
      cases hev : unembedV we.wrap with
      | none => simp [hs, hev] at hq
      | some ve =>
        simp [hs, hev] at hq
        subst hq
        obtain ⟨d, hd, hid⟩ := walk_astName_inv cat i idx hi
        obtain ⟨ss, a1, a2⟩ := walk_value_inv cat l wl vs hl hs
        obtain ⟨se, b1, b2⟩ := walk_value_inv cat e we ve he hev
        refine ⟨.range d ss se (decide (f1.type = .lt)) (decide (f2.type = .lt)), ?_, ?_, ?_⟩
        · simp [unparse, ltFlag_of_type hf1 ht1, ltFlag_of_type hf2 ht2, a1, hd, b1]
        · simp [Sx.tree, a2, b2, hid]
        · simp [Sx.inCat, hid, hmem]
  | (o1, a1) :: (o2, a2) :: (o3, a3) :: tl =>
    simp only [List.map_cons, cmpOps, bind_ok, pure_ok, Except.ok.injEq] at hfs
    obtain ⟨f1, _, _, ⟨f2, _, _, ⟨f3, _, fs', _, rfl⟩, rfl⟩, rfl⟩ := hfs
    simp at hm

mutual
theorem walk_inv (cat : List String) : ∀ (a : PyAst) (w : W) (q : Q),
    walk cat a = .ok w → unembed w = some q →
    ∃ s, unparse a = some s ∧ s.tree = some q ∧ s.inCat cat = true
  | .compare l rest, w, q, h, hq => compare_inv cat l rest w q h hq
  | .unaryOp op x, w, q, h, hq => by
    obtain ⟨hop, wx, hx, h2⟩ := walk_unary_ok h
    cases op with
    | not =>
      simp [applyUn] at h2
      subst h2
      simp only [unembed, Option.map_eq_some_iff] at hq
      obtain ⟨q', hq', rfl⟩ := hq
      obtain ⟨s, h1, h2, h3⟩ := walk_inv cat x wx q' hx hq'
      exact ⟨.not s, by simp [unparse, h1], by simp [Sx.tree, h2], by simp [Sx.inCat, h3]⟩
    | usub => obtain ⟨c, c', _, _, rfl⟩ := applyUn_usub_ok h2; simp [unembed] at hq
    | uadd => obtain ⟨c, c', _, _, rfl⟩ := applyUn_uadd_ok h2; simp [unembed] at hq
    | invert => exact absurd rfl hop
  | .binOp l op r, w, q, h, hq => by
    obtain ⟨k, wl, wr, hk, hl, hr, _, _, rfl⟩ := walk_binop_ok h
    obtain ⟨qs, hqs, rfl⟩ := unembed_mkBool k _ q hq
    simp only [unembedL] at hqs
    cases h1 : unembed wl with
    | none => simp [h1] at hqs
    | some ql =>
      cases h2 : unembed wr with
      | none => simp [h1, h2] at hqs
      | some qr =>
        simp [h1, h2] at hqs
        subst hqs
        obtain ⟨sl, a1, a2, a3⟩ := walk_inv cat l wl ql hl h1
        obtain ⟨sr, b1, b2, b3⟩ := walk_inv cat r wr qr hr h2
        cases op with
        | bitAnd =>
          simp [binOpK] at hk; subst hk
          exact ⟨.amp .and sl sr, by simp [unparse, a1, b1], by simp [Sx.tree, a2, b2], by simp [Sx.inCat, a3, b3]⟩
        | bitOr =>
          simp [binOpK] at hk; subst hk
          exact ⟨.amp .or sl sr, by simp [unparse, a1, b1], by simp [Sx.tree, a2, b2], by simp [Sx.inCat, a3, b3]⟩
        | other ty => simp [binOpK] at hk
  | .boolOp k vs, w, q, h, hq => by
    obtain ⟨ws, hws, _, rfl⟩ := walk_boolop_ok h
    obtain ⟨qs, hqs, rfl⟩ := unembed_mkBool k ws q hq
    obtain ⟨ss, h1, h2, h3⟩ := walkList_inv cat vs ws qs hws hqs
    exact ⟨.kw k ss, by simp [unparse, h1], by simp [Sx.tree, h2], by simp [Sx.inCat, h3]⟩
  | .name _, w, q, h, hq => by
    have := walk_resultOk h
    cases w <;> simp [resultOk] at this <;> simp [unembed] at hq
  | .attribute _ _, w, q, h, hq => by
    have := walk_resultOk h
    cases w <;> simp [resultOk] at this <;> simp [unembed] at hq
  | .constant _, w, q, h, hq => by
    have := walk_resultOk h
    cases w <;> simp [resultOk] at this <;> simp [unembed] at hq
  | .list _, w, q, h, hq => by
    have := walk_resultOk h
    cases w <;> simp [resultOk] at this <;> simp [unembed] at hq
  | .tuple _, w, q, h, hq => by
    have := walk_resultOk h
    cases w <;> simp [resultOk] at this <;> simp [unembed] at hq
  | .call _ _, w, q, h, hq => by
    have := walk_resultOk h
    cases w <;> simp [resultOk] at this <;> simp [unembed] at hq
  | .other ty ch, w, q, h, hq => absurd h (walk_other cat ty ch w)
theorem walkList_inv (cat : List String) : ∀ (l : List PyAst) (ws : List W) (qs : List Q),
    walkList cat l = .ok ws → unembedL ws = some qs →
    ∃ ss, unparseL l = some ss ∧ Sx.trees ss = some qs ∧ Sx.allInCat cat ss = true
  | [], ws, qs, h, hq => by
    have := walkList_nil_ok h
    subst this
    simp [unembedL] at hq
    subst hq
    exact ⟨[], by simp [unparseL], by simp [Sx.trees], by simp [Sx.allInCat]⟩
  | a :: as, ws, qs, h, hq => by
    obtain ⟨w, ws', hw, hws, rfl⟩ := walkList_cons_ok h
    simp only [unembedL] at hq
    cases h1 : unembed w with
    | none => simp [h1] at hq
    | some q =>
      cases h2 : unembedL ws' with
      | none => simp [h1, h2] at hq
      | some qs' =>
        simp [h1, h2] at hq
        subst hq
        obtain ⟨s, a1, a2, a3⟩ := walk_inv cat a w q hw h1
        obtain ⟨ss, b1, b2, b3⟩ := walkList_inv cat as ws' qs' hws h2
        exact ⟨s :: ss, by simp [unparseL, a1, b1], by simp [Sx.trees, a2, b2], by simp [Sx.allInCat, a3, b3]⟩
end

/-! ### the recogniser is the inverse of `toAst` -/

theorem toAst_of_unparseIn {neg : Bool} {l r : PyAst} {s : Sx} (h : unparseIn neg l r = some s) :
    s.toAst = .compare l [(if neg then .notIn else .inOp, r)] := by
  unfold unparseIn at h
  split at h
  · next f args =>
    split at h
    · next fn arg =>
      split at h
      · next hfn =>
        subst hfn
        cases hd : undot l with
        | none => simp [hd] at h
        | some idx =>
          cases hv : unparseV arg with
          | none => simp [hd, hv] at h
          | some v =>
            simp [hd, hv] at h
            subst h
            cases neg <;>
              simp [Sx.toAst, cmpAst, callAst, toAst_of_undot l idx hd, toAst_of_unparseV arg v hv]
      · split at h
        · next hfn =>
          subst hfn
          cases hd : undot l with
          | none => simp [hd] at h
          | some idx =>
            cases hv : unparseV arg with
            | none => simp [hd, hv] at h
            | some v =>
              simp [hd, hv] at h
              subst h
              cases neg <;>
                simp [Sx.toAst, cmpAst, callAst, toAst_of_undot l idx hd, toAst_of_unparseV arg v hv]
        · cases h
    · cases h
  · cases hd : undot r with
    | none => simp [hd] at h
    | some idx =>
      cases hv : unparseV l with
      | none => simp [hd, hv] at h
      | some v =>
        simp [hd, hv] at h
        subst h
        cases neg <;> simp [Sx.toAst, cmpAst, toAst_of_undot r idx hd, toAst_of_unparseV l v hv]

theorem plainCmp_cmpAst {op : CmpOp} {c : Cmp} (h : plainCmp op = some c) (l r : PyAst) :
    cmpAst c l r = .compare l [(op, r)] := by
  cases op <;> simp [plainCmp] at h <;> subst h <;> rfl

theorem ltOp_of_ltFlag {o : CmpOp} {b : Bool} (h : ltFlag o = some b) : ltOp b = o := by
  cases o <;> simp [ltFlag] at h <;> subst h <;> rfl

theorem toAst_of_unparse_compare (l : PyAst) (rest : List (CmpOp × PyAst)) (s : Sx)
    (h : unparse (.compare l rest) = some s) : s.toAst = .compare l rest := by
  match rest with
  | [] => simp [unparse] at h
  | [(op, r)] =>
    cases hp : plainCmp op with
    | some c =>
      rw [unparse_plain hp] at h
      cases hd : undot l with
      | none => simp [hd] at h
      | some idx =>
        cases hv : unparseV r with
        | none => simp [hd, hv] at h
        | some v =>
          simp [hd, hv] at h
          subst h
          simp [Sx.toAst, toAst_of_undot l idx hd, toAst_of_unparseV r v hv, plainCmp_cmpAst hp]
    | none =>
      cases op <;> simp [plainCmp] at hp
      · simp [unparse, plainCmp] at h
      · simp [unparse, plainCmp] at h
      · simp only [unparse] at h
        simpa using toAst_of_unparseIn h
      · simp only [unparse] at h
        simpa using toAst_of_unparseIn h
  | [(o1, i), (o2, e)] =>
    simp only [unparse] at h
    cases h1 : ltFlag o1 <;> cases h2 : ltFlag o2 <;> cases h3 : unparseV l <;> cases h4 : undot i <;>
      cases h5 : unparseV e <;> simp [h1, h2, h3, h4, h5] at h
    subst h
    simp [Sx.toAst, ltOp_of_ltFlag h1, ltOp_of_ltFlag h2, toAst_of_unparseV l _ h3, toAst_of_undot i _ h4,
      toAst_of_unparseV e _ h5]
  | _ :: _ :: _ :: _ => simp [unparse] at h

mutual
theorem toAst_of_unparse : ∀ (a : PyAst) (s : Sx), unparse a = some s → s.toAst = a
  | .compare l rest, s, h => toAst_of_unparse_compare l rest s h
  | .boolOp k l, s, h => by
    simp only [unparse, Option.map_eq_some_iff] at h
    obtain ⟨ss, hss, rfl⟩ := h
    simp [Sx.toAst, toAsts_of_unparseL l ss hss]
  | .binOp l op r, s, h => by
    cases op with
    | bitAnd =>
      simp only [unparse] at h
      cases h1 : unparse l <;> cases h2 : unparse r <;> simp [h1, h2] at h
      subst h
      simp [Sx.toAst, ampOp, toAst_of_unparse l _ h1, toAst_of_unparse r _ h2]
    | bitOr =>
      simp only [unparse] at h
      cases h1 : unparse l <;> cases h2 : unparse r <;> simp [h1, h2] at h
      subst h
      simp [Sx.toAst, ampOp, toAst_of_unparse l _ h1, toAst_of_unparse r _ h2]
    | other ty => simp [unparse] at h
  | .unaryOp op x, s, h => by
    cases op with
    | not =>
      simp only [unparse, Option.map_eq_some_iff] at h
      obtain ⟨s', hs', rfl⟩ := h
      simp [Sx.toAst, toAst_of_unparse x s' hs']
    | usub => simp [unparse] at h
    | uadd => simp [unparse] at h
    | invert => simp [unparse] at h
  | .name _, _, h => by simp [unparse] at h
  | .attribute _ _, _, h => by simp [unparse] at h
  | .constant _, _, h => by simp [unparse] at h
  | .list _, _, h => by simp [unparse] at h
  | .tuple _, _, h => by simp [unparse] at h
  | .call _ _, _, h => by simp [unparse] at h
  | .other _ _, _, h => by simp [unparse] at h
theorem toAsts_of_unparseL : ∀ (l : List PyAst) (ss : List Sx), unparseL l = some ss → Sx.toAsts ss = l
  | [], ss, h => by simp [unparseL] at h; subst h; simp [Sx.toAsts]
  | a :: as, ss, h => by
    simp only [unparseL] at h
    cases h1 : unparse a with
    | none => simp [h1] at h
    | some s =>
      cases h2 : unparseL as with
      | none => simp [h1, h2] at h
      | some ss' =>
        simp [h1, h2] at h
        subst h
        simp [Sx.toAsts, toAst_of_unparse a s h1, toAsts_of_unparseL as ss' h2]
end

theorem unparse_cmpAst (c : Cmp) (idx : Dotted) (v : SV) :
    unparse (cmpAst c idx.toAst v.toAst) = some (.cmp c idx v) := by
  have hd := undot_toAst idx
  have hv := unparseV_toAst v
  cases c
  case eq => simp [cmpAst, unparse, plainCmp, hd, hv]
  case noteq => simp [cmpAst, unparse, plainCmp, hd, hv]
  case gt => simp [cmpAst, unparse, plainCmp, hd, hv]
  case ge => simp [cmpAst, unparse, plainCmp, hd, hv]
  case lt => simp [cmpAst, unparse, plainCmp, hd, hv]
  case le => simp [cmpAst, unparse, plainCmp, hd, hv]
  case contains => simp [cmpAst, unparse, unparseIn_of_undot hd, hv]
  case notcontains => simp [cmpAst, unparse, unparseIn_of_undot hd, hv]
  case any => simp [cmpAst, unparse, callAst, unparseIn, hd, hv]
  case notany => simp [cmpAst, unparse, callAst, unparseIn, hd, hv]
  case all => simp [cmpAst, unparse, callAst, unparseIn, hd, hv]
  case notall => simp [cmpAst, unparse, callAst, unparseIn, hd, hv]

mutual
theorem unparse_toAst : ∀ s : Sx, unparse s.toAst = some s
  | .cmp c idx v => by simpa [Sx.toAst] using unparse_cmpAst c idx v
  | .range idx s e sx ex => by
    cases sx <;> cases ex <;>
      simp [Sx.toAst, unparse, ltOp, ltFlag, unparseV_toAst, undot_toAst]
  | .kw k l => by simp [Sx.toAst, unparse, unparseL_toAsts l]
  | .amp k l r => by cases k <;> simp [Sx.toAst, ampOp, unparse, unparse_toAst l, unparse_toAst r]
  | .not x => by simp [Sx.toAst, unparse, unparse_toAst x]
theorem unparseL_toAsts : ∀ l : List Sx, unparseL (Sx.toAsts l) = some l
  | [] => by simp [Sx.toAsts, unparseL]
  | x :: xs => by simp [Sx.toAsts, unparseL, unparse_toAst x, unparseL_toAsts xs]
end

end Hyp.Cqe
