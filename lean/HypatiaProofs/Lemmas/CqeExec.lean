import HypatiaProofs.Lemmas.CqeSubst
import HypatiaModel.Spec.CqeExecSpec

/-!
C10 → C04: resolving every leaf of the object a hand-built tree stands for is substituting the names into the
tree; a fully bound mapping substitutes everywhere.
-/
set_option linter.unusedSimpArgs false
set_option linter.unusedVariables false
namespace Hyp.Cqe
open Hyp.Query (Cmp)

mutual
theorem resolveTree_embed (m : List (String × W)) : ∀ q : Q,
    resolveTree (some m) (embed q) =
      (match q.substW (sigmaOf m) with
       | some w => .ok w
       | none => .error .nameError)
  | .cmp c i v => by
    simp only [embed, resolveTree, resolveLeaf, getValue_embedV, Q.substW]
    cases v.subst (sigmaOf m) <;> rfl
  | .range n i s e sx ex => by
    simp only [embed, resolveTree, resolveLeaf, getValue_embedV, Q.substW]
    cases s.subst (sigmaOf m) <;> cases e.subst (sigmaOf m) <;> rfl
  | .and l => by
    simp only [embed, resolveTree, resolveTrees_embed m l, Q.substW]
    cases Q.substWL (sigmaOf m) l <;> rfl
  | .or l => by
    simp only [embed, resolveTree, resolveTrees_embed m l, Q.substW]
    cases Q.substWL (sigmaOf m) l <;> rfl
  | .not q => by
    simp only [embed, resolveTree, resolveTree_embed m q, Q.substW]
    cases Q.substW (sigmaOf m) q <;> rfl
theorem resolveTrees_embed (m : List (String × W)) : ∀ l : List Q,
    resolveTrees (some m) (embedL l) =
      (match Q.substWL (sigmaOf m) l with
       | some ws => .ok ws
       | none => .error .nameError)
  | [] => rfl
  | q :: qs => by
    simp only [embedL, resolveTrees, resolveTree_embed m q, resolveTrees_embed m qs, Q.substWL]
    cases Q.substW (sigmaOf m) q <;> cases Q.substWL (sigmaOf m) qs <;> rfl
end

mutual
theorem substW_none_iff (σ : String → Option W) : ∀ q : Q,
    q.substW σ = none ↔ ∃ n, n ∈ q.names ∧ σ n = none
  | .cmp c i v => by simp [Q.substW, Q.names, subst_none_iff σ v]
  | .range n i s e sx ex => by
    simp only [Q.substW, Q.names, List.mem_append]
    have hs := subst_none_iff σ s
    have he := subst_none_iff σ e
    cases h1 : s.subst σ with
    | none =>
      obtain ⟨x, hx, hσ⟩ := hs.mp h1
      simp only [true_iff]
      exact ⟨x, Or.inl hx, hσ⟩
    | some a =>
      cases h2 : e.subst σ with
      | none =>
        obtain ⟨x, hx, hσ⟩ := he.mp h2
        simp only [true_iff]
        exact ⟨x, Or.inr hx, hσ⟩
      | some b =>
        simp only [reduceCtorEq, false_iff, not_exists, not_and]
        rintro x (hx | hx) hσ
        · have := hs.mpr ⟨x, hx, hσ⟩; simp [h1] at this
        · have := he.mpr ⟨x, hx, hσ⟩; simp [h2] at this
  | .and l => by simp [Q.substW, Q.names, substWL_none_iff σ l]
  | .or l => by simp [Q.substW, Q.names, substWL_none_iff σ l]
  | .not q => by simp [Q.substW, Q.names, substW_none_iff σ q]
theorem substWL_none_iff (σ : String → Option W) : ∀ l : List Q,
    Q.substWL σ l = none ↔ ∃ n, n ∈ Q.namesL l ∧ σ n = none
  | [] => by simp [Q.substWL, Q.namesL]
  | q :: qs => by
    simp only [Q.substWL, Q.namesL, List.mem_append]
    have h1 := substW_none_iff σ q
    have h2 := substWL_none_iff σ qs
    cases e1 : Q.substW σ q with
    | none =>
      obtain ⟨x, hx, hσ⟩ := h1.mp e1
      simp only [true_iff]
      exact ⟨x, Or.inl hx, hσ⟩
    | some w =>
      cases e2 : Q.substWL σ qs with
      | none =>
        obtain ⟨x, hx, hσ⟩ := h2.mp e2
        simp only [true_iff]
        exact ⟨x, Or.inr hx, hσ⟩
      | some ws =>
        simp only [reduceCtorEq, false_iff, not_exists, not_and]
        rintro x (hx | hx) hσ
        · have := h1.mpr ⟨x, hx, hσ⟩; simp [e1] at this
        · have := h2.mpr ⟨x, hx, hσ⟩; simp [e2] at this
end

/-- a mapping that binds every name of the tree substitutes everywhere -/
theorem substW_of_bound (m : List (String × W)) (q : Q) (hb : ∀ n ∈ q.names, (m.lookup n).isSome = true) :
    ∃ w, q.substW (sigmaOf m) = some w := by
  cases h : q.substW (sigmaOf m) with
  | some w => exact ⟨w, rfl⟩
  | none =>
    obtain ⟨n, hn, hσ⟩ := (substW_none_iff _ q).mp h
    have := hb n hn
    unfold sigmaOf at hσ
    rw [hσ] at this
    cases this

end Hyp.Cqe
