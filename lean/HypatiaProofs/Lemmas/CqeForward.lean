import HypatiaProofs.Lemmas.CqeValues

/-!
C10, forward direction: the walk of the AST of a spelling returns the tree the spelling denotes.
-/
set_option linter.unusedSimpArgs false
set_option linter.unusedVariables false
namespace Hyp.Cqe
open Hyp.Query (Cmp)

theorem walk_callAst (cat : List String) (all : Bool) (a : PyAst) (w : W) (h : walk cat a = .ok w) :
    walk cat (callAst (if all then "all" else "any") a) = .ok (.callFactory all w) := by
  cases all <;> simp [callAst, walk, walkList, h, processCall]

theorem walk_cmpAst (cat : List String) (c : Cmp) (idx : Dotted) (sv : SV) (x : V)
    (hv : sv.val = some x) (hc : cat.contains idx.id = true) :
    walk cat (cmpAst c idx.toAst sv.toAst) = .ok (.cmp c idx.id (embedV x)) := by
  obtain ⟨w, hw, hwrap⟩ := walk_sv cat sv x hv
  have hi := getIndex_astName hc
  have hany := walk_callAst cat false sv.toAst w hw
  have hall := walk_callAst cat true sv.toAst w hw
  simp only [Bool.false_eq_true, if_false, if_true] at hany hall
  cases c
  case eq => simp [cmpAst, walk, walk_dotted, cmpOps, cmpOpW, walkPairs, hw, factoryCall, hi, hwrap]
  case noteq => simp [cmpAst, walk, walk_dotted, cmpOps, cmpOpW, walkPairs, hw, factoryCall, hi, hwrap]
  case gt => simp [cmpAst, walk, walk_dotted, cmpOps, cmpOpW, walkPairs, hw, factoryCall, hi, hwrap]
  case ge => simp [cmpAst, walk, walk_dotted, cmpOps, cmpOpW, walkPairs, hw, factoryCall, hi, hwrap]
  case lt => simp [cmpAst, walk, walk_dotted, cmpOps, cmpOpW, walkPairs, hw, factoryCall, hi, hwrap]
  case le => simp [cmpAst, walk, walk_dotted, cmpOps, cmpOpW, walkPairs, hw, factoryCall, hi, hwrap]
  case contains =>
    simp [cmpAst, walk, walk_dotted, cmpOps, cmpOpW, walkPairs, hw, factoryCall, W.callable, hi, hwrap]
  case notcontains =>
    simp [cmpAst, walk, walk_dotted, cmpOps, cmpOpW, walkPairs, hw, factoryCall, W.callable, hi, hwrap]
  case any =>
    simp [cmpAst, walk_dotted, cmpOps, cmpOpW, walkPairs, hany, factoryCall, W.callable, hi,
      callWithIndex, hwrap, walk]
  case notany =>
    simp [cmpAst, walk_dotted, cmpOps, cmpOpW, walkPairs, hany, factoryCall, W.callable, hi,
      callWithIndex, hwrap, walk, negateCmp, Cmp.negate]
  case all =>
    simp [cmpAst, walk_dotted, cmpOps, cmpOpW, walkPairs, hall, factoryCall, W.callable, hi,
      callWithIndex, hwrap, walk]
  case notall =>
    simp [cmpAst, walk_dotted, cmpOps, cmpOpW, walkPairs, hall, factoryCall, W.callable, hi,
      callWithIndex, hwrap, walk, negateCmp, Cmp.negate]

theorem walk_rangeAst (cat : List String) (idx : Dotted) (s e : SV) (xs xe : V) (sx ex : Bool)
    (hs : s.val = some xs) (he : e.val = some xe) (hc : cat.contains idx.id = true) :
    walk cat (.compare s.toAst [(ltOp sx, idx.toAst), (ltOp ex, e.toAst)]) =
      .ok (.range false idx.id (embedV xs) (embedV xe) sx ex) := by
  obtain ⟨ws, hws, hwraps⟩ := walk_sv cat s xs hs
  obtain ⟨we, hwe, hwrape⟩ := walk_sv cat e xe he
  have hi := getIndex_astName hc
  cases sx <;> cases ex <;>
    simp [walk, ltOp, cmpOps, cmpOpW, walkPairs, walk_dotted, hws, hwe, rangeCall, Factory.type, hi,
      hwraps, hwrape]

theorem binOpK_ampOp (k : BoolK) : binOpK (ampOp k) = .ok k := by cases k <;> rfl

mutual
theorem walk_sx (cat : List String) : ∀ (s : Sx) (q : Q), s.tree = some q → s.inCat cat = true →
    walk cat s.toAst = .ok (embed q)
  | .cmp c idx v, q, h, hc => by
    simp only [Sx.tree, Option.map_eq_some_iff] at h
    obtain ⟨x, hx, rfl⟩ := h
    simp only [Sx.inCat] at hc
    simpa [Sx.toAst, embed] using walk_cmpAst cat c idx v x hx hc
  | .range idx s e sx ex, q, h, hc => by
    simp only [Sx.tree] at h
    cases hs : s.val with
    | none => simp [hs] at h
    | some xs =>
      cases he : e.val with
      | none => simp [hs, he] at h
      | some xe =>
        simp [hs, he] at h
        subst h
        simp only [Sx.inCat] at hc
        simpa [Sx.toAst, embed] using walk_rangeAst cat idx s e xs xe sx ex hs he hc
  | .kw k l, q, h, hc => by
    simp only [Sx.tree, Option.map_eq_some_iff] at h
    obtain ⟨qs, hqs, rfl⟩ := h
    simp only [Sx.inCat] at hc
    have := walk_sxs cat l qs hqs hc
    simp only [Sx.toAst, walk, this, ok_bind, all_isQuery_embedL, mkBool_embedL, pure_ok, ↓reduceIte]
  | .amp k l r, q, h, hc => by
    simp only [Sx.tree] at h
    cases hl : l.tree with
    | none => simp [hl] at h
    | some a =>
      cases hr : r.tree with
      | none => simp [hl, hr] at h
      | some b =>
        simp [hl, hr] at h
        subst h
        simp only [Sx.inCat, Bool.and_eq_true] at hc
        have h1 := walk_sx cat l a hl hc.1
        have h2 := walk_sx cat r b hr hc.2
        have := mkBool_embedL k [a, b]
        simp only [embedL] at this
        simp [Sx.toAst, walk, h1, h2, binOpK_ampOp, isQuery_embed, this]
  | .not x, q, h, hc => by
    simp only [Sx.tree, Option.map_eq_some_iff] at h
    obtain ⟨q', hq', rfl⟩ := h
    simp only [Sx.inCat] at hc
    have := walk_sx cat x q' hq' hc
    simp [Sx.toAst, walk, unOpOk, this, applyUn, embed]
theorem walk_sxs (cat : List String) : ∀ (l : List Sx) (qs : List Q), Sx.trees l = some qs →
    Sx.allInCat cat l = true → walkList cat (Sx.toAsts l) = .ok (embedL qs)
  | [], qs, h, _ => by
    simp [Sx.trees] at h
    subst h
    simp [Sx.toAsts, walkList, embedL]
  | x :: xs, qs, h, hc => by
    simp only [Sx.trees] at h
    cases hx : x.tree with
    | none => simp [hx] at h
    | some q =>
      cases hxs : Sx.trees xs with
      | none => simp [hx, hxs] at h
      | some qs' =>
        simp [hx, hxs] at h
        subst h
        simp only [Sx.allInCat, Bool.and_eq_true] at hc
        simp [Sx.toAsts, walkList, walk_sx cat x q hx hc.1, walk_sxs cat xs qs' hxs hc.2, embedL]
end

end Hyp.Cqe
