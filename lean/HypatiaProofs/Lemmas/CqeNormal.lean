import HypatiaProofs.Lemmas.CqeConverse

/-!
C10: every flattened tree over spellable values has a spelling (`canon`); expressions without a
bare value in query position / a query in value position never evaluate to an improper object
(`noBare_proper`: the syntactic region outside known finding D11).
-/
set_option linter.unusedSimpArgs false
set_option linter.unusedVariables false
namespace Hyp.Cqe
open Hyp.Query (Cmp)

/-! ### canonical spelling -/

def canonC (c : Const) : SV :=
  match c with
  | .int i => if 0 ≤ i then .lit (.int i) else .neg (.lit (.int (-i)))
  | .float f => if f.neg then .neg (.lit (.float f.negate)) else .lit (.float f)
  | .complex re im =>
    if re = PyFloat.zero ∧ im.neg = false then .lit (.complex re im)
    else .neg (.lit (.complex re.negate im.negate))
  | c => .lit c

theorem PyFloat.negate_negate (f : PyFloat) : f.negate.negate = f := by
  cases f; simp [PyFloat.negate]

theorem canonC_ok (c : Const) (h : c.spellable = true) :
    (canonC c).val = some (.const c) ∧ (canonC c).litOk = true := by
  cases c with
  | int i =>
    by_cases hi : 0 ≤ i
    · simp [canonC, hi, SV.val, SV.litOk, Const.isLiteral]
    · simp [canonC, hi, SV.val, SV.litOk, Const.isLiteral, Const.neg?]; omega
  | float f =>
    cases hf : f.neg
    · simp [canonC, hf, SV.val, SV.litOk, Const.isLiteral]
    · simp [canonC, hf, SV.val, SV.litOk, Const.isLiteral, Const.neg?, PyFloat.negate_negate]
      simp [PyFloat.negate, hf]
  | complex re im =>
    by_cases hc : re = PyFloat.zero ∧ im.neg = false
    · simp [canonC, hc, SV.val, SV.litOk, Const.isLiteral]
    · simp only [Const.spellable, Bool.or_eq_true, Bool.and_eq_true, decide_eq_true_eq,
        Bool.not_eq_eq_eq_not, Bool.not_true] at h
      rcases h with h | h
      · exact absurd h hc
      · obtain ⟨hre, him⟩ := h
        subst hre
        simp [canonC, hc, SV.val, SV.litOk, Const.isLiteral, Const.neg?, PyFloat.negate_negate]
        simp [PyFloat.negate, PyFloat.zero, him]
  | none => simp [canonC, SV.val, SV.litOk, Const.isLiteral]
  | bool b => simp [canonC, SV.val, SV.litOk, Const.isLiteral]
  | str s => simp [canonC, SV.val, SV.litOk, Const.isLiteral]
  | bytes b => simp [canonC, SV.val, SV.litOk, Const.isLiteral]
  | ellipsis => simp [canonC, SV.val, SV.litOk, Const.isLiteral]

mutual
def canonV : V → SV
  | .const c => canonC c
  | .name n => .name ⟨n, []⟩
  | .list l => .list (canonVs l)
  | .tuple l => .tuple (canonVs l)
def canonVs : List V → List SV
  | [] => []
  | v :: vs => canonV v :: canonVs vs
end

mutual
theorem canonV_ok : ∀ v : V, v.spellable = true → (canonV v).val = some v ∧ (canonV v).litOk = true
  | .const c, h => by simpa [canonV] using canonC_ok c (by simpa [V.spellable] using h)
  | .name n, _ => by simp [canonV, SV.val, SV.litOk, Dotted.id]
  | .list l, h => by
    simp only [V.spellable] at h
    have := canonVs_ok l h
    simp [canonV, SV.val, SV.litOk, this]
  | .tuple l, h => by
    simp only [V.spellable] at h
    have := canonVs_ok l h
    simp [canonV, SV.val, SV.litOk, this]
theorem canonVs_ok : ∀ l : List V, V.spellableL l = true →
    SV.vals (canonVs l) = some l ∧ SV.litOkL (canonVs l) = true
  | [], _ => by simp [canonVs, SV.vals, SV.litOkL]
  | v :: vs, h => by
    simp only [V.spellableL, Bool.and_eq_true] at h
    have h1 := canonV_ok v h.1
    have h2 := canonVs_ok vs h.2
    simp [canonVs, SV.vals, SV.litOkL, h1, h2]
end

mutual
def canon : Q → Sx
  | .cmp c i v => .cmp c ⟨i, []⟩ (canonV v)
  | .range _ i s e sx ex => .range ⟨i, []⟩ (canonV s) (canonV e) sx ex
  | .and l => .kw .and (canonL l)
  | .or l => .kw .or (canonL l)
  | .not q => .not (canon q)
def canonL : List Q → List Sx
  | [] => []
  | q :: qs => canon q :: canonL qs
end

theorem flatMap_flatOf_of_flatL (k : BoolK) : ∀ l : List Q, Q.flatL k l = true → l.flatMap (Q.flatOf k) = l
  | [], _ => by simp
  | q :: qs, h => by
    simp only [Q.flatL, Bool.and_eq_true] at h
    have ih := flatMap_flatOf_of_flatL k qs h.2
    have hq : Q.flatOf k q = [q] := by
      cases k <;> cases q <;> simp [Q.flatOf] <;> simp at h
    simp [List.flatMap_cons, hq, ih]

theorem flatL_flat (k : BoolK) : ∀ l : List Q, Q.flatL k l = true → ∀ q ∈ l, q.flat = true
  | [], _, q, hq => by simp at hq
  | x :: xs, h, q, hq => by
    simp only [Q.flatL, Bool.and_eq_true] at h
    rcases List.mem_cons.mp hq with rfl | hq
    · exact h.1.2
    · exact flatL_flat k xs h.2 q hq

mutual
theorem canon_ok : ∀ q : Q, q.flat = true → q.spellable = true →
    (canon q).tree = some q ∧ (canon q).litOk = true
  | .cmp c i v, _, hs => by
    have := canonV_ok v (by simpa [Q.spellable] using hs)
    simp [canon, Sx.tree, Sx.litOk, this, Dotted.id]
  | .range n i s e sx ex, hf, hs => by
    simp only [Q.spellable, Bool.and_eq_true] at hs
    simp only [Q.flat, Bool.not_eq_eq_eq_not, Bool.not_true] at hf
    subst hf
    have h1 := canonV_ok s hs.1
    have h2 := canonV_ok e hs.2
    simp [canon, Sx.tree, Sx.litOk, h1, h2, Dotted.id]
  | .and l, hf, hs => by
    simp only [Q.flat] at hf
    simp only [Q.spellable] at hs
    have := canonL_ok .and l hf hs
    simp [canon, Sx.tree, Sx.litOk, this, Q.mk, flatMap_flatOf_of_flatL .and l hf]
  | .or l, hf, hs => by
    simp only [Q.flat] at hf
    simp only [Q.spellable] at hs
    have := canonL_ok .or l hf hs
    simp [canon, Sx.tree, Sx.litOk, this, Q.mk, flatMap_flatOf_of_flatL .or l hf]
  | .not q, hf, hs => by
    simp only [Q.flat] at hf
    simp only [Q.spellable] at hs
    have := canon_ok q hf hs
    simp [canon, Sx.tree, Sx.litOk, this]
theorem canonL_ok (k : BoolK) : ∀ l : List Q, Q.flatL k l = true → Q.spellableL l = true →
    Sx.trees (canonL l) = some l ∧ Sx.litOkL (canonL l) = true
  | [], _, _ => by simp [canonL, Sx.trees, Sx.litOkL]
  | q :: qs, hf, hs => by
    simp only [Q.flatL, Bool.and_eq_true] at hf
    simp only [Q.spellableL, Bool.and_eq_true] at hs
    have h1 := canon_ok q hf.1.2 hs.1
    have h2 := canonL_ok k qs hf.2 hs.2
    simp [canonL, Sx.trees, Sx.litOkL, h1, h2]
end

mutual
theorem canon_inCat (cat : List String) : ∀ q : Q, (canon q).inCat cat = q.inCat cat
  | .cmp _ _ _ => by simp [canon, Sx.inCat, Q.inCat, Dotted.id]
  | .range _ _ _ _ _ _ => by simp [canon, Sx.inCat, Q.inCat, Dotted.id]
  | .and l => by simp [canon, Sx.inCat, Q.inCat, canonL_inCat cat l]
  | .or l => by simp [canon, Sx.inCat, Q.inCat, canonL_inCat cat l]
  | .not q => by simp [canon, Sx.inCat, Q.inCat, canon_inCat cat q]
theorem canonL_inCat (cat : List String) : ∀ l : List Q, Sx.allInCat cat (canonL l) = Q.allInCat cat l
  | [] => by simp [canonL, Sx.allInCat, Q.allInCat]
  | q :: qs => by simp [canonL, Sx.allInCat, Q.allInCat, canon_inCat cat q, canonL_inCat cat qs]
end

/-! ### outside D11: no bare value in query position, no query in value position -/

mutual
theorem valueShaped_proper (cat : List String) : ∀ (a : PyAst) (w : W), valueShaped a = true →
    walk cat a = .ok w → ∃ v, unembedV w.wrap = some v
  | .constant c, w, _, h => by
    simp [walk] at h; subst h; exact ⟨.const c, by simp [W.wrap, unembedV]⟩
  | .name n, w, _, h => by
    simp [walk] at h; subst h; exact ⟨.name n, by simp [W.wrap, unembedV]⟩
  | .attribute x attr, w, _, h => by
    obtain ⟨id, _, rfl⟩ := walk_attribute_ok h
    exact ⟨.name (id ++ "." ++ attr), by simp [W.wrap, unembedV]⟩
  | .list l, w, hs, h => by
    obtain ⟨ws, hws, rfl⟩ := walk_list_ok h
    simp only [valueShaped] at hs
    obtain ⟨vs, hvs⟩ := valueShapedL_proper cat l ws hs hws
    exact ⟨.list vs, by simp [W.wrap, unembedV, hvs]⟩
  | .tuple l, w, hs, h => by
    obtain ⟨ws, hws, rfl⟩ := walk_tuple_ok h
    simp only [valueShaped] at hs
    obtain ⟨vs, hvs⟩ := valueShapedL_proper cat l ws hs hws
    exact ⟨.tuple vs, by simp [W.wrap, unembedV, hvs]⟩
  | .unaryOp op x, w, hs, h => by
    obtain ⟨hop, wx, hx, h2⟩ := walk_unary_ok h
    cases op with
    | not => simp [valueShaped] at hs
    | invert => exact absurd rfl hop
    | usub =>
      obtain ⟨c, c', _, _, rfl⟩ := applyUn_usub_ok h2
      exact ⟨.const c', by simp [W.wrap, unembedV]⟩
    | uadd =>
      obtain ⟨c, c', _, _, rfl⟩ := applyUn_uadd_ok h2
      exact ⟨.const c', by simp [W.wrap, unembedV]⟩
  | .other ty ch, w, _, h => absurd h (walk_other cat ty ch w)
  | .boolOp _ _, _, hs, _ => by simp [valueShaped] at hs
  | .binOp _ _ _, _, hs, _ => by simp [valueShaped] at hs
  | .compare _ _, _, hs, _ => by simp [valueShaped] at hs
  | .call _ _, _, hs, _ => by simp [valueShaped] at hs
theorem valueShapedL_proper (cat : List String) : ∀ (l : List PyAst) (ws : List W), valueShapedL l = true →
    walkList cat l = .ok ws → ∃ vs, unembedVs (ws.map W.wrap) = some vs
  | [], ws, _, h => by
    have := walkList_nil_ok h
    subst this
    exact ⟨[], by simp [unembedVs]⟩
  | a :: as, ws, hs, h => by
    obtain ⟨w, ws', hw, hws, rfl⟩ := walkList_cons_ok h
    simp only [valueShapedL, Bool.and_eq_true] at hs
    obtain ⟨v, hv⟩ := valueShaped_proper cat a w hs.1 hw
    obtain ⟨vs, hvs⟩ := valueShapedL_proper cat as ws' hs.2 hws
    exact ⟨v :: vs, by simp [unembedVs, hv, hvs]⟩
end

theorem unembed_cmp_some {c : Cmp} {i : String} {w : W} {v : V} (h : unembedV w = some v) :
    ∃ q, unembed (.cmp c i w) = some q := ⟨.cmp c i v, by simp [unembed, h]⟩

theorem unembed_range_some {n : Bool} {i : String} {s e : W} {sx ex : Bool} {vs ve : V}
    (hs : unembedV s = some vs) (he : unembedV e = some ve) :
    ∃ q, unembed (.range n i s e sx ex) = some q := ⟨.range n i vs ve sx ex, by simp [unembed, hs, he]⟩

theorem valueShaped_not_callable {cat : List String} {a : PyAst} {w : W} (hs : valueShaped a = true)
    (h : walk cat a = .ok w) : w.callable = false := by
  have := walk_resultOk h
  cases w <;> simp [W.callable]
  cases a <;> simp [resultOk] at this
  simp [valueShaped] at hs

theorem compare_proper (cat : List String) (l : PyAst) (rest : List (CmpOp × PyAst)) (w : W)
    (hl0 : valueShaped l = true) (hrest : rest.all pairOk = true)
    (h : walk cat (.compare l rest) = .ok w) : ∃ q, unembed w = some q := by
  obtain ⟨wl, fs, ws, hl, hfs, hws, hm⟩ := walk_compare_ok h
  obtain ⟨vl, hvl⟩ := valueShaped_proper cat l wl hl0 hl
  match rest with
  | [] =>
    simp [cmpOps, walkPairs] at hfs hws
    subst hfs hws
    simp at hm
  | [(op, r)] =>
    simp only [List.map_cons, List.map_nil, cmpOps, bind_ok, pure_ok, Except.ok.injEq] at hfs
    obtain ⟨f, hf, _, rfl, rfl⟩ := hfs
    simp only [walkPairs, bind_ok, pure_ok, Except.ok.injEq] at hws
    obtain ⟨wr, hr, _, rfl, rfl⟩ := hws
    simp only [List.all_cons, List.all_nil, Bool.and_true] at hrest
    simp only at hm
    cases f with
    | cmp c =>
      have hrs : valueShaped r = true := by
        cases op <;> simp [cmpOpW] at hf <;> simpa [pairOk] using hrest
      obtain ⟨vr, hvr⟩ := valueShaped_proper cat r wr hrs hr
      simp only [factoryCall, bind_ok, pure_ok, Except.ok.injEq] at hm
      obtain ⟨i, _, rfl⟩ := hm
      exact unembed_cmp_some hvr
    | isIn neg =>
      have hro : inOperandOk r = true := by
        cases op <;> simp [cmpOpW] at hf <;> simpa [pairOk] using hrest
      unfold factoryCall at hm
      simp only at hm
      by_cases hcall : wr.callable = true
      · simp only [hcall, if_true, bind_ok] at hm
        obtain ⟨i, _, q', hq', hm⟩ := hm
        cases wr <;> simp [W.callable] at hcall
        next all vals =>
        simp only [callWithIndex, Except.ok.injEq] at hq'
        subst hq'
        have hres := walk_resultOk hr
        cases r <;> simp [resultOk] at hres
        next f' args =>
        obtain ⟨wf, wa, _, hargs, hpc⟩ := walk_call_ok hr
        obtain ⟨all', vals', rfl, heq, _⟩ := processCall_ok hpc
        simp only [W.callFactory.injEq] at heq
        obtain ⟨rfl, rfl⟩ := heq
        obtain ⟨arg, rfl, harg⟩ := walkList_single hargs
        simp only [inOperandOk, valueShapedL, Bool.and_true] at hro
        obtain ⟨vv, hvv⟩ := valueShaped_proper cat arg vals hro harg
        cases neg
        · simp only [Bool.false_eq_true, if_false, pure_ok, Except.ok.injEq] at hm
          subst hm
          exact unembed_cmp_some hvv
        · simp only [if_true, negateCmp, Except.ok.injEq] at hm
          subst hm
          exact unembed_cmp_some hvv
      · simp only [hcall, Bool.false_eq_true, if_false, bind_ok, pure_ok, Except.ok.injEq] at hm
        obtain ⟨i, _, rfl⟩ := hm
        exact unembed_cmp_some hvl
  | [(o1, i), (o2, e)] =>
    simp only [List.map_cons, List.map_nil, cmpOps, bind_ok, pure_ok, Except.ok.injEq] at hfs
    obtain ⟨f1, hf1, _, ⟨f2, hf2, _, rfl, rfl⟩, rfl⟩ := hfs
    simp only [walkPairs, bind_ok, pure_ok, Except.ok.injEq] at hws
    obtain ⟨wi, hi, _, ⟨we, he, _, rfl, rfl⟩, rfl⟩ := hws
    simp only at hm
    obtain ⟨idx, _, _, ht2, rfl⟩ := rangeCall_ok hm
    simp only [List.all_cons, List.all_nil, Bool.and_true, Bool.and_eq_true] at hrest
    have hes : valueShaped e = true := by
      have := hrest.2
      cases o2 <;> simp [cmpOpW] at hf2 <;> subst hf2 <;> simp [Factory.type] at ht2 <;>
        simpa [pairOk] using this
    obtain ⟨ve, hve⟩ := valueShaped_proper cat e we hes he
    exact unembed_range_some hvl hve
  | (o1, a1) :: (o2, a2) :: (o3, a3) :: tl =>
    simp only [List.map_cons, cmpOps, bind_ok, pure_ok, Except.ok.injEq] at hfs
    obtain ⟨f1, _, _, ⟨f2, _, _, ⟨f3, _, fs', _, rfl⟩, rfl⟩, rfl⟩ := hfs
    simp at hm

mutual
theorem noBare_proper (cat : List String) : ∀ (a : PyAst) (w : W), noBare a = true →
    walk cat a = .ok w → ∃ q, unembed w = some q
  | .compare l rest, w, hs, h => by
    simp only [noBare, Bool.and_eq_true] at hs
    exact compare_proper cat l rest w hs.1 hs.2 h
  | .boolOp k vs, w, hs, h => by
    obtain ⟨ws, hws, _, rfl⟩ := walk_boolop_ok h
    simp only [noBare] at hs
    obtain ⟨qs, hqs⟩ := noBareL_proper cat vs ws hs hws
    have := unembedL_some ws qs hqs
    subst this
    exact ⟨Q.mk k qs, by rw [mkBool_embedL, unembed_embed]⟩
  | .binOp l op r, w, hs, h => by
    obtain ⟨k, wl, wr, _, hl, hr, _, _, rfl⟩ := walk_binop_ok h
    simp only [noBare, Bool.and_eq_true] at hs
    obtain ⟨ql, hql⟩ := noBare_proper cat l wl hs.1 hl
    obtain ⟨qr, hqr⟩ := noBare_proper cat r wr hs.2 hr
    have e1 := unembed_some wl ql hql
    have e2 := unembed_some wr qr hqr
    subst e1 e2
    have := mkBool_embedL k [ql, qr]
    simp only [embedL] at this
    exact ⟨Q.mk k [ql, qr], by rw [this, unembed_embed]⟩
  | .unaryOp op x, w, hs, h => by
    obtain ⟨hop, wx, hx, h2⟩ := walk_unary_ok h
    cases op with
    | not =>
      simp only [noBare] at hs
      simp [applyUn] at h2
      subst h2
      obtain ⟨q, hq⟩ := noBare_proper cat x wx hs hx
      exact ⟨.not q, by simp [unembed, hq]⟩
    | invert => exact absurd rfl hop
    | usub => simp [noBare] at hs
    | uadd => simp [noBare] at hs
  | .other ty ch, w, _, h => absurd h (walk_other cat ty ch w)
  | .name _, _, hs, _ => by simp [noBare] at hs
  | .attribute _ _, _, hs, _ => by simp [noBare] at hs
  | .constant _, _, hs, _ => by simp [noBare] at hs
  | .list _, _, hs, _ => by simp [noBare] at hs
  | .tuple _, _, hs, _ => by simp [noBare] at hs
  | .call _ _, _, hs, _ => by simp [noBare] at hs
theorem noBareL_proper (cat : List String) : ∀ (l : List PyAst) (ws : List W), noBareL l = true →
    walkList cat l = .ok ws → ∃ qs, unembedL ws = some qs
  | [], ws, _, h => by
    have := walkList_nil_ok h
    subst this
    exact ⟨[], by simp [unembedL]⟩
  | a :: as, ws, hs, h => by
    obtain ⟨w, ws', hw, hws, rfl⟩ := walkList_cons_ok h
    simp only [noBareL, Bool.and_eq_true] at hs
    obtain ⟨q, hq⟩ := noBare_proper cat a w hs.1 hw
    obtain ⟨qs, hqs⟩ := noBareL_proper cat as ws' hs.2 hws
    exact ⟨q :: qs, by simp [unembedL, hq, hqs]⟩
end

/-! ### the AST of a spelling has no bare position -/

theorem valueShaped_of_undot {a : PyAst} {d : Dotted} (h : undot a = some d) : valueShaped a = true := by
  cases a <;> simp [undot] at h <;> simp [valueShaped]

theorem inOperandOk_of_undot {a : PyAst} {d : Dotted} (h : undot a = some d) : inOperandOk a = true := by
  cases a <;> simp [undot] at h <;> simp [inOperandOk, valueShaped]

mutual
theorem valueShaped_svToAst : ∀ v : SV, valueShaped v.toAst = true
  | .lit _ => by simp [SV.toAst, valueShaped]
  | .neg v => by simp [SV.toAst, valueShaped, valueShaped_svToAst v]
  | .pos v => by simp [SV.toAst, valueShaped, valueShaped_svToAst v]
  | .name d => by simpa [SV.toAst] using valueShaped_of_undot (undot_toAst d)
  | .list l => by simp [SV.toAst, valueShaped, valueShapedL_svToAsts l]
  | .tuple l => by simp [SV.toAst, valueShaped, valueShapedL_svToAsts l]
theorem valueShapedL_svToAsts : ∀ l : List SV, valueShapedL (SV.toAsts l) = true
  | [] => by simp [SV.toAsts, valueShapedL]
  | v :: vs => by simp [SV.toAsts, valueShapedL, valueShaped_svToAst v, valueShapedL_svToAsts vs]
end

theorem noBare_cmpAst (c : Cmp) (idx : Dotted) (v : SV) : noBare (cmpAst c idx.toAst v.toAst) = true := by
  have h1 := valueShaped_of_undot (undot_toAst idx)
  have h2 := inOperandOk_of_undot (undot_toAst idx)
  have h3 := valueShaped_svToAst v
  cases c
  case contains => simp [cmpAst, noBare, pairOk, h2, h3]
  case notcontains => simp [cmpAst, noBare, pairOk, h2, h3]
  all_goals simp [cmpAst, noBare, pairOk, callAst, inOperandOk, valueShapedL, h1, h3]

mutual
theorem noBare_sxToAst : ∀ s : Sx, noBare s.toAst = true
  | .cmp c idx v => by simpa [Sx.toAst] using noBare_cmpAst c idx v
  | .range idx s e sx ex => by
    have h1 := valueShaped_of_undot (undot_toAst idx)
    cases sx <;> cases ex <;>
      simp [Sx.toAst, noBare, pairOk, ltOp, h1, valueShaped_svToAst]
  | .kw k l => by simp [Sx.toAst, noBare, noBareL_sxToAsts l]
  | .amp k l r => by simp [Sx.toAst, noBare, noBare_sxToAst l, noBare_sxToAst r]
  | .not x => by simp [Sx.toAst, noBare, noBare_sxToAst x]
theorem noBareL_sxToAsts : ∀ l : List Sx, noBareL (Sx.toAsts l) = true
  | [] => by simp [Sx.toAsts, noBareL]
  | x :: xs => by simp [Sx.toAsts, noBareL, noBare_sxToAst x, noBareL_sxToAsts xs]
end

end Hyp.Cqe
