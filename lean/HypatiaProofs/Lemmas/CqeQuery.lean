import HypatiaModel.Spec.CqeSpec

/-!
C10: the embedding of integer-valued expression trees into the query algebra of C04/C05 commutes
with the `And(..)` / `Or(..)` constructors (`Q.mk` here, `Hyp.Query.mkAnd` / `mkOr` there).
-/
set_option linter.unusedSimpArgs false
set_option linter.unusedVariables false
namespace Hyp.Cqe
open Hyp.Query (Cmp)

theorem toQueryL?_append (ix : String → Option Nat) : ∀ a b : List Q,
    Q.toQueryL? ix (a ++ b) =
      (match Q.toQueryL? ix a, Q.toQueryL? ix b with
       | some x, some y => some (x ++ y)
       | _, _ => none)
  | [], b => by cases h : Q.toQueryL? ix b <;> simp [Q.toQueryL?, h]
  | q :: qs, b => by
    simp only [List.cons_append, Q.toQueryL?, toQueryL?_append ix qs b]
    cases Q.toQuery? ix q <;> cases Q.toQueryL? ix qs <;> cases Q.toQueryL? ix b <;> simp

theorem toQueryL?_flatOf_and (ix : String → Option Nat) (q : Q) :
    Q.toQueryL? ix (Q.flatOf .and q) = (Q.toQuery? ix q).map Hyp.Query.flatAnd := by
  cases q with
  | and l => cases h : Q.toQueryL? ix l <;> simp [Q.flatOf, Q.toQuery?, h, Hyp.Query.flatAnd]
  | or l => cases h : Q.toQueryL? ix l <;> simp [Q.flatOf, Q.toQuery?, Q.toQueryL?, h, Hyp.Query.flatAnd]
  | not x => cases h : Q.toQuery? ix x <;> simp [Q.flatOf, Q.toQuery?, Q.toQueryL?, h, Hyp.Query.flatAnd]
  | cmp c i v =>
    simp only [Q.flatOf, Q.toQueryL?]
    cases h : Q.toQuery? ix (.cmp c i v) with
    | none => simp
    | some x =>
      simp only [Q.toQuery?] at h
      cases h1 : ix i <;> cases h2 : v.toVal? <;> simp [h1, h2] at h
      subst h
      simp [Hyp.Query.flatAnd]
  | range n i s e sx ex =>
    simp only [Q.flatOf, Q.toQueryL?]
    cases h : Q.toQuery? ix (.range n i s e sx ex) with
    | none => simp
    | some x =>
      simp only [Q.toQuery?] at h
      cases h1 : ix i <;> cases h2 : s.toInt? <;> cases h3 : e.toInt? <;> simp [h1, h2, h3] at h
      subst h
      simp [Hyp.Query.flatAnd]

theorem toQueryL?_flatOf_or (ix : String → Option Nat) (q : Q) :
    Q.toQueryL? ix (Q.flatOf .or q) = (Q.toQuery? ix q).map Hyp.Query.flatOr := by
  cases q with
  | or l => cases h : Q.toQueryL? ix l <;> simp [Q.flatOf, Q.toQuery?, h, Hyp.Query.flatOr]
  | and l => cases h : Q.toQueryL? ix l <;> simp [Q.flatOf, Q.toQuery?, Q.toQueryL?, h, Hyp.Query.flatOr]
  | not x => cases h : Q.toQuery? ix x <;> simp [Q.flatOf, Q.toQuery?, Q.toQueryL?, h, Hyp.Query.flatOr]
  | cmp c i v =>
    simp only [Q.flatOf, Q.toQueryL?]
    cases h : Q.toQuery? ix (.cmp c i v) with
    | none => simp
    | some x =>
      simp only [Q.toQuery?] at h
      cases h1 : ix i <;> cases h2 : v.toVal? <;> simp [h1, h2] at h
      subst h
      simp [Hyp.Query.flatOr]
  | range n i s e sx ex =>
    simp only [Q.flatOf, Q.toQueryL?]
    cases h : Q.toQuery? ix (.range n i s e sx ex) with
    | none => simp
    | some x =>
      simp only [Q.toQuery?] at h
      cases h1 : ix i <;> cases h2 : s.toInt? <;> cases h3 : e.toInt? <;> simp [h1, h2, h3] at h
      subst h
      simp [Hyp.Query.flatOr]

theorem toQueryL?_flatMap_and (ix : String → Option Nat) : ∀ qs : List Q,
    Q.toQueryL? ix (qs.flatMap (Q.flatOf .and)) =
      (Q.toQueryL? ix qs).map (fun xs => xs.flatMap Hyp.Query.flatAnd)
  | [] => by simp [Q.toQueryL?]
  | q :: qs => by
    rw [List.flatMap_cons, toQueryL?_append, toQueryL?_flatOf_and, toQueryL?_flatMap_and ix qs]
    simp only [Q.toQueryL?]
    cases Q.toQuery? ix q <;> cases Q.toQueryL? ix qs <;> simp

theorem toQueryL?_flatMap_or (ix : String → Option Nat) : ∀ qs : List Q,
    Q.toQueryL? ix (qs.flatMap (Q.flatOf .or)) =
      (Q.toQueryL? ix qs).map (fun xs => xs.flatMap Hyp.Query.flatOr)
  | [] => by simp [Q.toQueryL?]
  | q :: qs => by
    rw [List.flatMap_cons, toQueryL?_append, toQueryL?_flatOf_or, toQueryL?_flatMap_or ix qs]
    simp only [Q.toQueryL?]
    cases Q.toQuery? ix q <;> cases Q.toQueryL? ix qs <;> simp

end Hyp.Cqe
