import HypatiaProofs.Lemmas.CqeBasic

/-!
C10: name substitution (`Comparator._get_value`, `_Range._get_start/_get_end`) against `V.subst`;
the four `__eq__` methods against `structEq`.
-/
set_option linter.unusedSimpArgs false
set_option linter.unusedVariables false
namespace Hyp.Cqe
open Hyp.Query (Cmp)

/-- the mapping a `names` dictionary stands for -/
def sigmaOf (m : List (String × W)) : String → Option W := fun n => m.lookup n

mutual
theorem getValue_embedV (m : List (String × W)) : ∀ v : V,
    getValue (some m) (embedV v) =
      (match V.subst (sigmaOf m) v with
       | some w => .ok w
       | none => .error .nameError)
  | .const c => by simp [embedV, getValue, V.subst]
  | .name n => by
    simp only [embedV, getValue, lookupName, V.subst, sigmaOf]
    cases m.lookup n <;> rfl
  | .list l => by
    simp only [embedV, getValue, getValueList_embedVs m l, V.subst]
    cases V.substs (sigmaOf m) l <;> rfl
  | .tuple l => by
    simp only [embedV, getValue, getValueList_embedVs m l, V.subst]
    cases V.substs (sigmaOf m) l <;> rfl
theorem getValueList_embedVs (m : List (String × W)) : ∀ l : List V,
    getValueList (some m) (embedVs l) =
      (match V.substs (sigmaOf m) l with
       | some ws => .ok ws
       | none => .error .nameError)
  | [] => by simp [embedVs, getValueList, V.substs]
  | v :: vs => by
    simp only [embedVs, getValueList, getValue_embedV m v, getValueList_embedVs m vs, V.substs]
    cases V.subst (sigmaOf m) v <;> cases V.substs (sigmaOf m) vs <;> rfl
end

mutual
theorem subst_none_iff (σ : String → Option W) : ∀ v : V,
    V.subst σ v = none ↔ ∃ n, n ∈ V.names v ∧ σ n = none
  | .const c => by simp [V.subst, V.names]
  | .name n => by simp [V.subst, V.names]
  | .list l => by simp [V.subst, V.names, substs_none_iff σ l]
  | .tuple l => by simp [V.subst, V.names, substs_none_iff σ l]
theorem substs_none_iff (σ : String → Option W) : ∀ l : List V,
    V.substs σ l = none ↔ ∃ n, n ∈ V.namesL l ∧ σ n = none
  | [] => by simp [V.substs, V.namesL]
  | v :: vs => by
    have h1 := subst_none_iff σ v
    have h2 := substs_none_iff σ vs
    simp only [V.substs, V.namesL, List.mem_append]
    cases hv : V.subst σ v with
    | none =>
      simp only [true_iff]
      obtain ⟨n, hn, hσ⟩ := h1.mp hv
      exact ⟨n, Or.inl hn, hσ⟩
    | some w =>
      cases hvs : V.substs σ vs with
      | none =>
        simp only [true_iff]
        obtain ⟨n, hn, hσ⟩ := h2.mp hvs
        exact ⟨n, Or.inr hn, hσ⟩
      | some ws =>
        simp only [reduceCtorEq, false_iff]
        rintro ⟨n, hn | hn, hσ⟩
        · have := h1.mpr ⟨n, hn, hσ⟩; simp [hv] at this
        · have := h2.mpr ⟨n, hn, hσ⟩; simp [hvs] at this
end

mutual
/-- a value without names is handed over unchanged, whatever `names` is -/
theorem getValue_no_names (names : Names) : ∀ v : V, V.names v = [] → getValue names (embedV v) = .ok (embedV v)
  | .const c, _ => by simp [embedV, getValue]
  | .name n, h => by simp [V.names] at h
  | .list l, h => by
    simp only [V.names] at h
    simp [embedV, getValue, getValueList_no_names names l h]
  | .tuple l, h => by
    simp only [V.names] at h
    simp [embedV, getValue, getValueList_no_names names l h]
theorem getValueList_no_names (names : Names) : ∀ l : List V, V.namesL l = [] →
    getValueList names (embedVs l) = .ok (embedVs l)
  | [], _ => by simp [embedVs, getValueList]
  | v :: vs, h => by
    simp only [V.namesL, List.append_eq_nil_iff] at h
    simp [embedVs, getValueList, getValue_no_names names v h.1, getValueList_no_names names vs h.2]
end

mutual
/-- `names=None`: the first name met raises TypeError (`name not in None`) -/
theorem getValue_none : ∀ v : V, V.names v ≠ [] → getValue none (embedV v) = .error .typeError
  | .const c, h => by simp [V.names] at h
  | .name n, _ => by simp [embedV, getValue, lookupName]
  | .list l, h => by
    simp only [V.names] at h
    simp [embedV, getValue, getValueList_none l h]
  | .tuple l, h => by
    simp only [V.names] at h
    simp [embedV, getValue, getValueList_none l h]
theorem getValueList_none : ∀ l : List V, V.namesL l ≠ [] → getValueList none (embedVs l) = .error .typeError
  | [], h => by simp [V.namesL] at h
  | v :: vs, h => by
    simp only [V.namesL] at h
    by_cases hv : V.names v = []
    · have hvs : V.namesL vs ≠ [] := by simpa [hv] using h
      simp [embedVs, getValueList, getValue_no_names none v hv, getValueList_none vs hvs]
    · simp [embedVs, getValueList, getValue_none v hv]
end

/-! ### `__eq__` -/

theorem PyFloat.eq_refl (a : PyFloat) : a.eq a = true := by
  unfold PyFloat.eq
  by_cases hz : a.isZero = true
  · simp [hz]
  · by_cases hi : a.inf = true
    · simp [hz, hi]
    · simp [hz, hi]

theorem Const.pyEq_refl (c : Const) : c.pyEq c = true := by
  cases c <;> simp [Const.pyEq, Const.num?, PyFloat.eq_refl]

mutual
theorem weq_embedV : ∀ a b : V, weq (embedV a) (embedV b) = valEq a b
  | .const a, .const b => by simp [embedV, weq, valEq]
  | .name a, .name b => by simp [embedV, weq, valEq]
  | .list a, .list b => by simp [embedV, weq, valEq, weqList_embedVs a b]
  | .tuple a, .tuple b => by simp [embedV, weq, valEq, weqList_embedVs a b]
  | .const _, .name _ => by simp [embedV, weq, valEq]
  | .const _, .list _ => by simp [embedV, weq, valEq]
  | .const _, .tuple _ => by simp [embedV, weq, valEq]
  | .name _, .const _ => by simp [embedV, weq, valEq]
  | .name _, .list _ => by simp [embedV, weq, valEq]
  | .name _, .tuple _ => by simp [embedV, weq, valEq]
  | .list _, .const _ => by simp [embedV, weq, valEq]
  | .list _, .name _ => by simp [embedV, weq, valEq]
  | .list _, .tuple _ => by simp [embedV, weq, valEq]
  | .tuple _, .const _ => by simp [embedV, weq, valEq]
  | .tuple _, .name _ => by simp [embedV, weq, valEq]
  | .tuple _, .list _ => by simp [embedV, weq, valEq]
theorem weqList_embedVs : ∀ a b : List V, weqList (embedVs a) (embedVs b) = valEqL a b
  | [], [] => by simp [embedVs, weqList, valEqL]
  | [], _ :: _ => by simp [embedVs, weqList, valEqL]
  | _ :: _, [] => by simp [embedVs, weqList, valEqL]
  | x :: xs, y :: ys => by simp [embedVs, weqList, valEqL, weq_embedV x y, weqList_embedVs xs ys]
end

mutual
theorem weq_embed : ∀ a b : Q, weq (embed a) (embed b) = structEq a b
  | .cmp c i v, .cmp c' i' v' => by simp [embed, weq, structEq, weq_embedV]
  | .range n i s e sx ex, .range n' i' s' e' sx' ex' => by simp [embed, weq, structEq, weq_embedV]
  | .and a, .and b => by simp [embed, weq, structEq, weqList_embedL a b]
  | .or a, .or b => by simp [embed, weq, structEq, weqList_embedL a b]
  | .not _, .not _ => by simp [embed, weq, structEq]
  | .cmp _ _ _, .range _ _ _ _ _ _ => by simp [embed, weq, structEq]
  | .cmp _ _ _, .and _ => by simp [embed, weq, structEq]
  | .cmp _ _ _, .or _ => by simp [embed, weq, structEq]
  | .cmp _ _ _, .not _ => by simp [embed, weq, structEq]
  | .range _ _ _ _ _ _, .cmp _ _ _ => by simp [embed, weq, structEq]
  | .range _ _ _ _ _ _, .and _ => by simp [embed, weq, structEq]
  | .range _ _ _ _ _ _, .or _ => by simp [embed, weq, structEq]
  | .range _ _ _ _ _ _, .not _ => by simp [embed, weq, structEq]
  | .and _, .cmp _ _ _ => by simp [embed, weq, structEq]
  | .and _, .range _ _ _ _ _ _ => by simp [embed, weq, structEq]
  | .and _, .or _ => by simp [embed, weq, structEq]
  | .and _, .not _ => by simp [embed, weq, structEq]
  | .or _, .cmp _ _ _ => by simp [embed, weq, structEq]
  | .or _, .range _ _ _ _ _ _ => by simp [embed, weq, structEq]
  | .or _, .and _ => by simp [embed, weq, structEq]
  | .or _, .not _ => by simp [embed, weq, structEq]
  | .not _, .cmp _ _ _ => by simp [embed, weq, structEq]
  | .not _, .range _ _ _ _ _ _ => by simp [embed, weq, structEq]
  | .not _, .and _ => by simp [embed, weq, structEq]
  | .not _, .or _ => by simp [embed, weq, structEq]
theorem weqList_embedL : ∀ a b : List Q, weqList (embedL a) (embedL b) = structEqL a b
  | [], [] => by simp [embedL, weqList, structEqL]
  | [], _ :: _ => by simp [embedL, weqList, structEqL]
  | _ :: _, [] => by simp [embedL, weqList, structEqL]
  | x :: xs, y :: ys => by simp [embedL, weqList, structEqL, weq_embed x y, weqList_embedL xs ys]
end

mutual
theorem valEq_refl : ∀ v : V, valEq v v = true
  | .const c => by simp [valEq, Const.pyEq_refl]
  | .name n => by simp [valEq]
  | .list l => by simp [valEq, valEqL_refl l]
  | .tuple l => by simp [valEq, valEqL_refl l]
theorem valEqL_refl : ∀ l : List V, valEqL l l = true
  | [] => by simp [valEqL]
  | v :: vs => by simp [valEqL, valEq_refl v, valEqL_refl vs]
end

mutual
theorem structEq_refl : ∀ q : Q, q.notFree = true → structEq q q = true
  | .cmp c i v, _ => by simp [structEq, valEq_refl]
  | .range n i s e sx ex, _ => by simp [structEq, valEq_refl]
  | .and l, h => by simp only [Q.notFree] at h; simp [structEq, structEqL_refl l h]
  | .or l, h => by simp only [Q.notFree] at h; simp [structEq, structEqL_refl l h]
  | .not q, h => by simp [Q.notFree] at h
theorem structEqL_refl : ∀ l : List Q, Q.notFreeL l = true → structEqL l l = true
  | [], _ => by simp [structEqL]
  | q :: qs, h => by
    simp only [Q.notFreeL, Bool.and_eq_true] at h
    simp [structEqL, structEq_refl q h.1, structEqL_refl qs h.2]
end

mutual
theorem notFree_of_structEq : ∀ a b : Q, structEq a b = true → a.notFree = true ∧ b.notFree = true
  | .cmp _ _ _, .cmp _ _ _, _ => by simp [Q.notFree]
  | .range _ _ _ _ _ _, .range _ _ _ _ _ _, _ => by simp [Q.notFree]
  | .and a, .and b, h => by simp only [structEq] at h; simpa [Q.notFree] using notFreeL_of_structEqL a b h
  | .or a, .or b, h => by simp only [structEq] at h; simpa [Q.notFree] using notFreeL_of_structEqL a b h
  | .not _, .not _, h => by simp [structEq] at h
  | .cmp _ _ _, .range _ _ _ _ _ _, h => by simp [structEq] at h
  | .cmp _ _ _, .and _, h => by simp [structEq] at h
  | .cmp _ _ _, .or _, h => by simp [structEq] at h
  | .cmp _ _ _, .not _, h => by simp [structEq] at h
  | .range _ _ _ _ _ _, .cmp _ _ _, h => by simp [structEq] at h
  | .range _ _ _ _ _ _, .and _, h => by simp [structEq] at h
  | .range _ _ _ _ _ _, .or _, h => by simp [structEq] at h
  | .range _ _ _ _ _ _, .not _, h => by simp [structEq] at h
  | .and _, .cmp _ _ _, h => by simp [structEq] at h
  | .and _, .range _ _ _ _ _ _, h => by simp [structEq] at h
  | .and _, .or _, h => by simp [structEq] at h
  | .and _, .not _, h => by simp [structEq] at h
  | .or _, .cmp _ _ _, h => by simp [structEq] at h
  | .or _, .range _ _ _ _ _ _, h => by simp [structEq] at h
  | .or _, .and _, h => by simp [structEq] at h
  | .or _, .not _, h => by simp [structEq] at h
  | .not _, .cmp _ _ _, h => by simp [structEq] at h
  | .not _, .range _ _ _ _ _ _, h => by simp [structEq] at h
  | .not _, .and _, h => by simp [structEq] at h
  | .not _, .or _, h => by simp [structEq] at h
theorem notFreeL_of_structEqL : ∀ a b : List Q, structEqL a b = true →
    Q.notFreeL a = true ∧ Q.notFreeL b = true
  | [], [], _ => by simp [Q.notFreeL]
  | [], _ :: _, h => by simp [structEqL] at h
  | _ :: _, [], h => by simp [structEqL] at h
  | x :: xs, y :: ys, h => by
    simp only [structEqL, Bool.and_eq_true] at h
    have h1 := notFree_of_structEq x y h.1
    have h2 := notFreeL_of_structEqL xs ys h.2
    simp [Q.notFreeL, h1, h2]
end

end Hyp.Cqe
