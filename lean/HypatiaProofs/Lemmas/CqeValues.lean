import HypatiaProofs.Lemmas.CqeBasic

/-!
C10: which kind of object each kind of AST node can evaluate to (`walk_resultOk`), dotted names,
value expressions (both directions).
-/
set_option linter.unusedSimpArgs false
set_option linter.unusedVariables false
namespace Hyp.Cqe
open Hyp.Query (Cmp)

/-! ### the class of the result is determined by the node type -/

theorem factoryCall_ok {cat f l r w} (h : factoryCall cat f l r = .ok w) : ∃ c i v, w = .cmp c i v := by
  unfold factoryCall at h
  cases f with
  | cmp c =>
    simp only [bind_ok, pure_ok, Except.ok.injEq] at h
    obtain ⟨i, _, h⟩ := h
    exact ⟨_, _, _, h.symm⟩
  | isIn neg =>
    simp only at h
    split at h
    · simp only [bind_ok] at h
      obtain ⟨i, _, q, hq, h⟩ := h
      unfold callWithIndex at hq
      split at hq
      · simp at hq
        subst hq
        cases neg
        · simp at h; exact ⟨_, _, _, h.symm⟩
        · simp [negateCmp] at h; exact ⟨_, _, _, h.symm⟩
      · cases hq
    · simp only [bind_ok, pure_ok, Except.ok.injEq] at h
      obtain ⟨i, _, h⟩ := h
      exact ⟨_, _, _, h.symm⟩

theorem rangeCall_ok {cat s f1 f2 i e w} (h : rangeCall cat s f1 f2 i e = .ok w) :
    ∃ idx, getIndex cat i = .ok idx ∧
      (f1.type = .lt ∨ f1.type = .le) ∧ (f2.type = .lt ∨ f2.type = .le) ∧
      w = .range false idx s.wrap e.wrap (decide (f1.type = .lt)) (decide (f2.type = .lt)) := by
  unfold rangeCall at h
  simp only at h
  split at h
  · next hc =>
    simp only [bind_ok, pure_ok, Except.ok.injEq] at h
    obtain ⟨idx, hi, h⟩ := h
    exact ⟨idx, hi, hc.1, hc.2, h.symm⟩
  · cases h

/-- which class of object a node of each type evaluates to, when it evaluates -/
def resultOk : PyAst → W → Bool
  | .name _, .astName _ => true
  | .attribute _ _, .astName _ => true
  | .constant _, .const _ => true
  | .list _, .list _ => true
  | .tuple _, .tuple _ => true
  | .unaryOp .not _, .not _ => true
  | .unaryOp .usub _, .const _ => true
  | .unaryOp .uadd _, .const _ => true
  | .binOp _ _ _, .and _ => true
  | .binOp _ _ _, .or _ => true
  | .boolOp _ _, .and _ => true
  | .boolOp _ _, .or _ => true
  | .compare _ _, .cmp _ _ _ => true
  | .compare _ _, .range _ _ _ _ _ _ => true
  | .call _ _, .callFactory _ _ => true
  | _, _ => false

theorem walk_resultOk {cat a w} (h : walk cat a = .ok w) : resultOk a w = true := by
  cases a with
  | name id => simp [walk] at h; subst h; simp [resultOk]
  | «attribute» v attr =>
    obtain ⟨id, _, rfl⟩ := walk_attribute_ok h
    simp [resultOk]
  | constant c => simp [walk] at h; subst h; simp [resultOk]
  | list l => obtain ⟨ws, _, rfl⟩ := walk_list_ok h; simp [resultOk]
  | tuple l => obtain ⟨ws, _, rfl⟩ := walk_tuple_ok h; simp [resultOk]
  | unaryOp op x =>
    obtain ⟨hop, wx, _, h2⟩ := walk_unary_ok h
    cases op with
    | not => simp [applyUn] at h2; subst h2; simp [resultOk]
    | usub => obtain ⟨c, c', _, _, rfl⟩ := applyUn_usub_ok h2; simp [resultOk]
    | uadd => obtain ⟨c, c', _, _, rfl⟩ := applyUn_uadd_ok h2; simp [resultOk]
    | invert => exact absurd rfl hop
  | binOp l op r =>
    obtain ⟨k, wl, wr, _, _, _, _, _, rfl⟩ := walk_binop_ok h
    cases k <;> simp [mkBool, resultOk]
  | boolOp k vs =>
    obtain ⟨ws, _, _, rfl⟩ := walk_boolop_ok h
    cases k <;> simp [mkBool, resultOk]
  | compare l rest =>
    obtain ⟨wl, fs, ws, _, _, _, h4⟩ := walk_compare_ok h
    split at h4
    · obtain ⟨c, i, v, rfl⟩ := factoryCall_ok h4; simp [resultOk]
    · obtain ⟨idx, _, _, _, rfl⟩ := rangeCall_ok h4; simp [resultOk]
    · cases h4
  | call f args =>
    obtain ⟨wf, wa, _, _, h3⟩ := walk_call_ok h
    obtain ⟨all, vals, _, rfl, _⟩ := processCall_ok h3
    simp [resultOk]
  | other ty ch => exact absurd h (walk_other cat ty ch w)

/-! ### dotted names -/

theorem walk_foldl_attribute (cat : List String) : ∀ (t : List String) (a : PyAst) (s : String),
    walk cat a = .ok (.astName s) →
    walk cat (t.foldl PyAst.attribute a) = .ok (.astName (t.foldl (fun acc x => acc ++ "." ++ x) s))
  | [], a, s, h => by simpa using h
  | x :: t, a, s, h => by
    simp only [List.foldl_cons]
    apply walk_foldl_attribute cat t
    simp [walk, h]

theorem walk_dotted (cat : List String) (d : Dotted) : walk cat d.toAst = .ok (.astName d.id) :=
  walk_foldl_attribute cat d.tail (.name d.head) d.head (walk_name cat d.head)

theorem undot_foldl : ∀ (t : List String) (a : PyAst),
    undot (t.foldl PyAst.attribute a) = (undot a).map (fun d => ⟨d.head, d.tail ++ t⟩)
  | [], a => by cases h : undot a <;> simp [h]
  | x :: t, a => by
    simp only [List.foldl_cons]
    rw [undot_foldl t]
    simp only [undot]
    cases h : undot a <;> simp [h]

theorem undot_toAst (d : Dotted) : undot d.toAst = some d := by
  unfold Dotted.toAst
  rw [undot_foldl]
  simp [undot]

/-- `undot` accepts only the AST of the dotted name it returns -/
theorem toAst_of_undot : ∀ (a : PyAst) (d : Dotted), undot a = some d → d.toAst = a
  | .name id, d, h => by simp [undot] at h; subst h; simp [Dotted.toAst]
  | .attribute v attr, d, h => by
    simp only [undot, Option.map_eq_some_iff] at h
    obtain ⟨d', hd', rfl⟩ := h
    have := toAst_of_undot v d' hd'
    simp [Dotted.toAst, List.foldl_append] at this ⊢
    exact this
  | .boolOp _ _, _, h => by simp [undot] at h
  | .unaryOp _ _, _, h => by simp [undot] at h
  | .binOp _ _ _, _, h => by simp [undot] at h
  | .compare _ _, _, h => by simp [undot] at h
  | .call _ _, _, h => by simp [undot] at h
  | .constant _, _, h => by simp [undot] at h
  | .list _, _, h => by simp [undot] at h
  | .tuple _, _, h => by simp [undot] at h
  | .other _ _, _, h => by simp [undot] at h

/-- inversion: an `ast.Name` result comes from a dotted name -/
theorem walk_astName_inv (cat : List String) : ∀ (a : PyAst) (id : String),
    walk cat a = .ok (.astName id) → ∃ d, undot a = some d ∧ d.id = id
  | .name n, id, h => by
    simp [walk] at h
    exact ⟨⟨n, []⟩, by simp [undot], by simp [Dotted.id, h]⟩
  | .attribute v attr, id, h => by
    obtain ⟨id', hv, heq⟩ := walk_attribute_ok h
    obtain ⟨d', hd', hid'⟩ := walk_astName_inv cat v id' hv
    refine ⟨⟨d'.head, d'.tail ++ [attr]⟩, by simp [undot, hd'], ?_⟩
    simp only [W.astName.injEq] at heq
    simp [Dotted.id, List.foldl_append] at hid' ⊢
    rw [hid', heq]
  | .boolOp _ _, _, h => by have := walk_resultOk h; simp [resultOk] at this
  | .unaryOp op _, _, h => by have := walk_resultOk h; cases op <;> simp [resultOk] at this
  | .binOp _ _ _, _, h => by have := walk_resultOk h; simp [resultOk] at this
  | .compare _ _, _, h => by have := walk_resultOk h; simp [resultOk] at this
  | .call _ _, _, h => by have := walk_resultOk h; simp [resultOk] at this
  | .constant _, _, h => by have := walk_resultOk h; simp [resultOk] at this
  | .list _, _, h => by have := walk_resultOk h; simp [resultOk] at this
  | .tuple _, _, h => by have := walk_resultOk h; simp [resultOk] at this
  | .other _ _, _, h => by have := walk_resultOk h; simp [resultOk] at this

/-- a dotted name with at least one attribute contains a dot, so it is neither `any` nor `all` -/
theorem dotted_id_any {d : Dotted} (h : d.id = "any" ∨ d.id = "all") : d.tail = [] := by
  cases hd : d.tail.reverse with
  | nil => simpa using hd
  | cons x t =>
    exfalso
    have ht : d.tail = t.reverse ++ [x] := by
      have := congrArg List.reverse hd
      simpa using this
    have hid : d.id = (t.reverse.foldl (fun acc x => acc ++ "." ++ x) d.head) ++ "." ++ x := by
      simp [Dotted.id, ht, List.foldl_append]
    have hmem : '.' ∈ d.id.toList := by
      rw [hid]
      simp [String.toList_append]
    rcases h with h | h <;> rw [h] at hmem <;> simp at hmem

/-- a function name `any`/`all` is a plain `Name` node -/
theorem walk_any_all_inv {cat : List String} {f : PyAst} {all : Bool}
    (h : walk cat f = .ok (.astName (if all then "all" else "any"))) :
    f = .name (if all then "all" else "any") := by
  obtain ⟨d, hd, hid⟩ := walk_astName_inv cat f _ h
  have ht := dotted_id_any (d := d) (by cases all <;> simp [hid])
  have := toAst_of_undot f d hd
  rw [← this]
  simp [Dotted.toAst, Dotted.id, ht] at hid ⊢
  exact hid

/-! ### value expressions: the spelling evaluates to the value it denotes -/

mutual
theorem walk_sv (cat : List String) : ∀ (v : SV) (x : V), v.val = some x →
    ∃ w, walk cat v.toAst = .ok w ∧ w.wrap = embedV x
  | .lit c, x, h => by
    simp [SV.val] at h
    subst h
    exact ⟨.const c, by simp [SV.toAst, walk], by simp [W.wrap, embedV]⟩
  | .neg v, x, h => by
    simp only [SV.val] at h
    cases hv : v.val with
    | none => simp [hv] at h
    | some y =>
      cases y with
      | const c =>
        simp only [hv, Option.map_eq_some_iff] at h
        obtain ⟨c', hc', rfl⟩ := h
        obtain ⟨w, hw, hwrap⟩ := walk_sv cat v (.const c) hv
        have : w = .const c := wrap_eq_const (by simpa [embedV] using hwrap)
        subst this
        exact ⟨.const c', by simp [SV.toAst, walk, unOpOk, hw, applyUn, hc'], by simp [W.wrap, embedV]⟩
      | name _ => simp [hv] at h
      | list _ => simp [hv] at h
      | tuple _ => simp [hv] at h
  | .pos v, x, h => by
    simp only [SV.val] at h
    cases hv : v.val with
    | none => simp [hv] at h
    | some y =>
      cases y with
      | const c =>
        simp only [hv, Option.map_eq_some_iff] at h
        obtain ⟨c', hc', rfl⟩ := h
        obtain ⟨w, hw, hwrap⟩ := walk_sv cat v (.const c) hv
        have : w = .const c := wrap_eq_const (by simpa [embedV] using hwrap)
        subst this
        exact ⟨.const c', by simp [SV.toAst, walk, unOpOk, hw, applyUn, hc'], by simp [W.wrap, embedV]⟩
      | name _ => simp [hv] at h
      | list _ => simp [hv] at h
      | tuple _ => simp [hv] at h
  | .name d, x, h => by
    simp [SV.val] at h
    subst h
    exact ⟨.astName d.id, by simp [SV.toAst, walk_dotted], by simp [W.wrap, embedV]⟩
  | .list l, x, h => by
    simp only [SV.val, Option.map_eq_some_iff] at h
    obtain ⟨xs, hxs, rfl⟩ := h
    obtain ⟨ws, hws, hmap⟩ := walk_svs cat l xs hxs
    exact ⟨.list (ws.map W.wrap), by simp [SV.toAst, walk, hws], by simp [W.wrap, embedV, hmap]⟩
  | .tuple l, x, h => by
    simp only [SV.val, Option.map_eq_some_iff] at h
    obtain ⟨xs, hxs, rfl⟩ := h
    obtain ⟨ws, hws, hmap⟩ := walk_svs cat l xs hxs
    exact ⟨.tuple (ws.map W.wrap), by simp [SV.toAst, walk, hws], by simp [W.wrap, embedV, hmap]⟩
theorem walk_svs (cat : List String) : ∀ (l : List SV) (xs : List V), SV.vals l = some xs →
    ∃ ws, walkList cat (SV.toAsts l) = .ok ws ∧ ws.map W.wrap = embedVs xs
  | [], xs, h => by
    simp [SV.vals] at h
    subst h
    exact ⟨[], by simp [SV.toAsts, walkList], by simp [embedVs]⟩
  | v :: vs, xs, h => by
    simp only [SV.vals] at h
    cases hv : v.val with
    | none => simp [hv] at h
    | some y =>
      cases hvs : SV.vals vs with
      | none => simp [hv, hvs] at h
      | some ys =>
        simp [hv, hvs] at h
        subst h
        obtain ⟨w, hw, hwrap⟩ := walk_sv cat v y hv
        obtain ⟨ws, hws, hmap⟩ := walk_svs cat vs ys hvs
        exact ⟨w :: ws, by simp [SV.toAsts, walkList, hw, hws], by simp [embedVs, hwrap, hmap]⟩
end

/-! ### value expressions, converse: a proper value comes from a value spelling -/

theorem unparseV_of_undot {a : PyAst} {d : Dotted} (h : undot a = some d) : unparseV a = some (.name d) := by
  cases a <;> simp [undot] at h
  · next id => subst h; simp [unparseV]
  · next v attr => simp [unparseV, undot, h]

mutual
theorem walk_value_inv (cat : List String) : ∀ (a : PyAst) (w : W) (v : V),
    walk cat a = .ok w → unembedV w.wrap = some v → ∃ sv, unparseV a = some sv ∧ sv.val = some v
  | .name n, w, v, h, hv => by
    simp [walk] at h
    subst h
    simp [W.wrap, unembedV] at hv
    subst hv
    exact ⟨.name ⟨n, []⟩, by simp [unparseV], by simp [SV.val, Dotted.id]⟩
  | .attribute x attr, w, v, h, hv => by
    obtain ⟨id', _, rfl⟩ := walk_attribute_ok h
    obtain ⟨d, hd, hid⟩ := walk_astName_inv cat _ _ h
    simp [W.wrap, unembedV] at hv
    subst hv
    exact ⟨.name d, unparseV_of_undot hd, by simp [SV.val, hid]⟩
  | .constant c, w, v, h, hv => by
    simp [walk] at h
    subst h
    simp [W.wrap, unembedV] at hv
    subst hv
    exact ⟨.lit c, by simp [unparseV], by simp [SV.val]⟩
  | .list l, w, v, h, hv => by
    obtain ⟨ws, hws, rfl⟩ := walk_list_ok h
    simp only [W.wrap, unembedV, Option.map_eq_some_iff] at hv
    obtain ⟨vs, hvs, rfl⟩ := hv
    obtain ⟨svs, h1, h2⟩ := walk_values_inv cat l ws vs hws hvs
    exact ⟨.list svs, by simp [unparseV, h1], by simp [SV.val, h2]⟩
  | .tuple l, w, v, h, hv => by
    obtain ⟨ws, hws, rfl⟩ := walk_tuple_ok h
    simp only [W.wrap, unembedV, Option.map_eq_some_iff] at hv
    obtain ⟨vs, hvs, rfl⟩ := hv
    obtain ⟨svs, h1, h2⟩ := walk_values_inv cat l ws vs hws hvs
    exact ⟨.tuple svs, by simp [unparseV, h1], by simp [SV.val, h2]⟩
  | .unaryOp op x, w, v, h, hv => by
    obtain ⟨hop, wx, hx, h2⟩ := walk_unary_ok h
    cases op with
    | not => simp [applyUn] at h2; subst h2; simp [W.wrap, unembedV] at hv
    | invert => exact absurd rfl hop
    | usub =>
      obtain ⟨c, c', rfl, hc, rfl⟩ := applyUn_usub_ok h2
      simp [W.wrap, unembedV] at hv
      subst hv
      obtain ⟨sv, h1, h2⟩ := walk_value_inv cat x (.const c) (.const c) hx (by simp [W.wrap, unembedV])
      exact ⟨.neg sv, by simp [unparseV, h1], by simp [SV.val, h2, hc]⟩
    | uadd =>
      obtain ⟨c, c', rfl, hc, rfl⟩ := applyUn_uadd_ok h2
      simp [W.wrap, unembedV] at hv
      subst hv
      obtain ⟨sv, h1, h2⟩ := walk_value_inv cat x (.const c) (.const c) hx (by simp [W.wrap, unembedV])
      exact ⟨.pos sv, by simp [unparseV, h1], by simp [SV.val, h2, hc]⟩
  | .binOp _ _ _, w, v, h, hv => by
    have := walk_resultOk h
    cases w <;> simp [resultOk] at this <;> simp [W.wrap, unembedV] at hv
  | .boolOp _ _, w, v, h, hv => by
    have := walk_resultOk h
    cases w <;> simp [resultOk] at this <;> simp [W.wrap, unembedV] at hv
  | .compare _ _, w, v, h, hv => by
    have := walk_resultOk h
    cases w <;> simp [resultOk] at this <;> simp [W.wrap, unembedV] at hv
  | .call _ _, w, v, h, hv => by
    have := walk_resultOk h
    cases w <;> simp [resultOk] at this <;> simp [W.wrap, unembedV] at hv
  | .other ty ch, w, v, h, hv => absurd h (walk_other cat ty ch w)
theorem walk_values_inv (cat : List String) : ∀ (l : List PyAst) (ws : List W) (vs : List V),
    walkList cat l = .ok ws → unembedVs (ws.map W.wrap) = some vs →
    ∃ svs, unparseVs l = some svs ∧ SV.vals svs = some vs
  | [], ws, vs, h, hv => by
    have := walkList_nil_ok h
    subst this
    simp [unembedVs] at hv
    subst hv
    exact ⟨[], by simp [unparseVs], by simp [SV.vals]⟩
  | a :: as, ws, vs, h, hv => by
    obtain ⟨w, ws', hw, hws, rfl⟩ := walkList_cons_ok h
    simp only [List.map_cons, unembedVs] at hv
    cases h1 : unembedV w.wrap with
    | none => simp [h1] at hv
    | some v =>
      cases h2 : unembedVs (ws'.map W.wrap) with
      | none => simp [h1, h2] at hv
      | some vs' =>
        simp [h1, h2] at hv
        subst hv
        obtain ⟨sv, e1, e2⟩ := walk_value_inv cat a w v hw h1
        obtain ⟨svs, e3, e4⟩ := walk_values_inv cat as ws' vs' hws h2
        exact ⟨sv :: svs, by simp [unparseVs, e1, e3], by simp [SV.vals, e2, e4]⟩
end

/-! ### the recogniser returns a spelling of the AST it was given -/

mutual
theorem toAst_of_unparseV : ∀ (a : PyAst) (sv : SV), unparseV a = some sv → sv.toAst = a
  | .constant c, sv, h => by simp [unparseV] at h; subst h; simp [SV.toAst]
  | .name id, sv, h => by simp [unparseV] at h; subst h; simp [SV.toAst, Dotted.toAst]
  | .attribute v attr, sv, h => by
    simp only [unparseV, Option.map_eq_some_iff] at h
    obtain ⟨d, hd, rfl⟩ := h
    simp [SV.toAst, toAst_of_undot _ d hd]
  | .list l, sv, h => by
    simp only [unparseV, Option.map_eq_some_iff] at h
    obtain ⟨svs, hs, rfl⟩ := h
    simp [SV.toAst, toAsts_of_unparseVs l svs hs]
  | .tuple l, sv, h => by
    simp only [unparseV, Option.map_eq_some_iff] at h
    obtain ⟨svs, hs, rfl⟩ := h
    simp [SV.toAst, toAsts_of_unparseVs l svs hs]
  | .unaryOp op x, sv, h => by
    cases op with
    | usub =>
      simp only [unparseV, Option.map_eq_some_iff] at h
      obtain ⟨s, hs, rfl⟩ := h
      simp [SV.toAst, toAst_of_unparseV x s hs]
    | uadd =>
      simp only [unparseV, Option.map_eq_some_iff] at h
      obtain ⟨s, hs, rfl⟩ := h
      simp [SV.toAst, toAst_of_unparseV x s hs]
    | not => simp [unparseV] at h
    | invert => simp [unparseV] at h
  | .binOp _ _ _, _, h => by simp [unparseV] at h
  | .boolOp _ _, _, h => by simp [unparseV] at h
  | .compare _ _, _, h => by simp [unparseV] at h
  | .call _ _, _, h => by simp [unparseV] at h
  | .other _ _, _, h => by simp [unparseV] at h
theorem toAsts_of_unparseVs : ∀ (l : List PyAst) (svs : List SV), unparseVs l = some svs → SV.toAsts svs = l
  | [], svs, h => by simp [unparseVs] at h; subst h; simp [SV.toAsts]
  | a :: as, svs, h => by
    simp only [unparseVs] at h
    cases h1 : unparseV a with
    | none => simp [h1] at h
    | some sv =>
      cases h2 : unparseVs as with
      | none => simp [h1, h2] at h
      | some svs' =>
        simp [h1, h2] at h
        subst h
        simp [SV.toAsts, toAst_of_unparseV a sv h1, toAsts_of_unparseVs as svs' h2]
end

mutual
theorem unparseV_toAst : ∀ sv : SV, unparseV sv.toAst = some sv
  | .lit c => by simp [SV.toAst, unparseV]
  | .neg v => by simp [SV.toAst, unparseV, unparseV_toAst v]
  | .pos v => by simp [SV.toAst, unparseV, unparseV_toAst v]
  | .name d => by simp [SV.toAst, unparseV_of_undot (undot_toAst d)]
  | .list l => by simp [SV.toAst, unparseV, unparseVs_toAsts l]
  | .tuple l => by simp [SV.toAst, unparseV, unparseVs_toAsts l]
theorem unparseVs_toAsts : ∀ l : List SV, unparseVs (SV.toAsts l) = some l
  | [] => by simp [SV.toAsts, unparseVs]
  | v :: vs => by simp [SV.toAsts, unparseVs, unparseV_toAst v, unparseVs_toAsts vs]
end

end Hyp.Cqe
