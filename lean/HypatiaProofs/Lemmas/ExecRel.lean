import HypatiaModel.ParseTree

/-!
# `executeQuery` over two related indexes

`exec` is parametric in the index.  If the primitives of two indexes are pointwise related by `Rel` (the three
searches) and the set operations preserve `Rel`, then executing any tree gives related results: the same
`QueryError`, `None` on both sides, or related result sets.
-/
namespace Hyp.QP

variable {R1 R2 : Type}

/-- both `None`, or related values -/
def OptRel (Rel : R1 → R2 → Prop) : Option R1 → Option R2 → Prop
  | none, none => True
  | some a, some b => Rel a b
  | _, _ => False

inductive RelL (Rel : R1 → R2 → Prop) : List R1 → List R2 → Prop where
  | nil : RelL Rel [] []
  | cons {a b l1 l2} : Rel a b → RelL Rel l1 l2 → RelL Rel (a :: l1) (b :: l2)

theorem RelL.append {Rel : R1 → R2 → Prop} {a1 b1 : List R1} {a2 b2 : List R2}
    (h1 : RelL Rel a1 a2) (h2 : RelL Rel b1 b2) : RelL Rel (a1 ++ b1) (a2 ++ b2) := by
  induction h1 with
  | nil => exact h2
  | cons h _ ih => exact .cons h ih

theorem RelL.isEmpty {Rel : R1 → R2 → Prop} {l1 : List R1} {l2 : List R2} (h : RelL Rel l1 l2) :
    l1.isEmpty = l2.isEmpty := by cases h <;> rfl

theorem RelL.ofOpt {Rel : R1 → R2 → Prop} {o1 : Option R1} {o2 : Option R2} :
    OptRel Rel o1 o2 →
    RelL Rel (match o1 with | some x => [x] | none => []) (match o2 with | some x => [x] | none => []) := by
  intro h
  cases o1 <;> cases o2 <;> simp [OptRel] at h ⊢
  · exact .nil
  · exact .cons h .nil

/-- the primitives of the two indexes correspond -/
structure IndexRel (Rel : R1 → R2 → Prop) (i1 : Index R1) (i2 : Index R2) : Prop where
  search : ∀ w, OptRel Rel (i1.search w) (i2.search w)
  searchPhrase : ∀ ws, Rel (i1.searchPhrase ws) (i2.searchPhrase ws)
  searchGlob : ∀ p, Rel (i1.searchGlob p) (i2.searchGlob p)
  inter : ∀ L1 L2, RelL Rel L1 L2 → Rel (i1.inter L1) (i2.inter L2)
  union : ∀ L1 L2, RelL Rel L1 L2 → Rel (i1.union L1) (i2.union L2)
  diff : ∀ a1 a2 b1 b2, Rel a1 a2 → Rel b1 b2 → Rel (i1.diff a1 b1) (i2.diff a2 b2)

/-- same exception, or related results -/
def ExecRel {α β : Type} (P : α → β → Prop) : Except ExecErr α → Except ExecErr β → Prop
  | .error e, .error e' => e = e'
  | .ok a, .ok b => P a b
  | _, _ => False

variable {Rel : R1 → R2 → Prop} {i1 : Index R1} {i2 : Index R2}

/-- unfolding of the loop of `AndNode.executeQuery` at an operand that is not a `NotNode` -/
theorem execAnd_cons_of_not_not {R : Type} (ix : Index R) (t : Tree) (rest : List Tree) (hn : t.isNot = false) :
    execAnd ix (t :: rest) =
      (match exec ix t with
       | .error e => .error e
       | .ok r =>
         match execAnd ix rest with
         | .error e => .error e
         | .ok (L, nots) => .ok ((match r with | some x => [x] | none => []) ++ L, nots)) := by
  cases t
  case notN u => simp [Tree.isNot] at hn
  all_goals (simp only [execAnd]; try rfl)

theorem execAnd_pos (t : Tree) (rest : List Tree) (hn : t.isNot = false)
    (ht : ExecRel (OptRel Rel) (exec i1 t) (exec i2 t))
    (hrest : ExecRel (fun a b => RelL Rel a.1 b.1 ∧ RelL Rel a.2 b.2) (execAnd i1 rest) (execAnd i2 rest)) :
    ExecRel (fun a b => RelL Rel a.1 b.1 ∧ RelL Rel a.2 b.2) (execAnd i1 (t :: rest)) (execAnd i2 (t :: rest)) := by
  rw [execAnd_cons_of_not_not i1 t rest hn, execAnd_cons_of_not_not i2 t rest hn]
  cases e1 : exec i1 t with
  | error e =>
    cases e2 : exec i2 t with
    | error e' => rw [e1, e2] at ht; exact ht
    | ok b => rw [e1, e2] at ht; exact ht.elim
  | ok a =>
    cases e2 : exec i2 t with
    | error e' => rw [e1, e2] at ht; exact ht.elim
    | ok b =>
      rw [e1, e2] at ht
      simp only
      cases f1 : execAnd i1 rest with
      | error e =>
        cases f2 : execAnd i2 rest with
        | error e' => rw [f1, f2] at hrest; exact hrest
        | ok y => rw [f1, f2] at hrest; exact hrest.elim
      | ok x =>
        cases f2 : execAnd i2 rest with
        | error e' => rw [f1, f2] at hrest; exact hrest.elim
        | ok y =>
          rw [f1, f2] at hrest
          exact ⟨(RelL.ofOpt ht).append hrest.1, hrest.2⟩

mutual
theorem exec_rel (h : IndexRel Rel i1 i2) : ∀ t : Tree, ExecRel (OptRel Rel) (exec i1 t) (exec i2 t)
  | .atom w => by simp only [exec, ExecRel]; exact h.search w
  | .phrase ws => by simp only [exec, ExecRel, OptRel]; exact h.searchPhrase ws
  | .glob p => by simp only [exec, ExecRel, OptRel]; exact h.searchGlob p
  | .notN _ => by simp [exec, ExecRel]
  | .andN ts => by
    have := execAnd_rel h ts
    simp only [exec]
    cases e1 : execAnd i1 ts with
    | error e =>
      cases e2 : execAnd i2 ts with
      | error e' => rw [e1, e2] at this; exact this
      | ok b => rw [e1, e2] at this; exact this.elim
    | ok a =>
      cases e2 : execAnd i2 ts with
      | error e' => rw [e1, e2] at this; exact this.elim
      | ok b =>
        rw [e1, e2] at this
        obtain ⟨hL, hN⟩ := this
        simp only [ExecRel, OptRel]
        rw [hN.isEmpty]
        split
        · exact h.inter _ _ hL
        · exact h.diff _ _ _ _ (h.inter _ _ hL) (h.union _ _ hN)
  | .orN ts => by
    have := execOr_rel h ts
    simp only [exec]
    cases e1 : execOr i1 ts with
    | error e =>
      cases e2 : execOr i2 ts with
      | error e' => rw [e1, e2] at this; exact this
      | ok b => rw [e1, e2] at this; exact this.elim
    | ok a =>
      cases e2 : execOr i2 ts with
      | error e' => rw [e1, e2] at this; exact this.elim
      | ok b =>
        rw [e1, e2] at this
        simp only [ExecRel, OptRel]
        exact h.union _ _ this
theorem execAnd_rel (h : IndexRel Rel i1 i2) : ∀ ts : List Tree,
    ExecRel (fun a b => RelL Rel a.1 b.1 ∧ RelL Rel a.2 b.2) (execAnd i1 ts) (execAnd i2 ts)
  | [] => by simp only [execAnd, ExecRel]; exact ⟨.nil, .nil⟩
  | t :: rest => by
    have hrest := execAnd_rel h rest
    cases t with
    | notN u =>
      have hu := exec_rel h u
      simp only [execAnd]
      cases e1 : exec i1 u with
      | error e =>
        cases e2 : exec i2 u with
        | error e' => rw [e1, e2] at hu; exact hu
        | ok b => rw [e1, e2] at hu; exact hu.elim
      | ok a =>
        cases e2 : exec i2 u with
        | error e' => rw [e1, e2] at hu; exact hu.elim
        | ok b =>
          rw [e1, e2] at hu
          simp only
          cases f1 : execAnd i1 rest with
          | error e =>
            cases f2 : execAnd i2 rest with
            | error e' => rw [f1, f2] at hrest; exact hrest
            | ok y => rw [f1, f2] at hrest; exact hrest.elim
          | ok x =>
            cases f2 : execAnd i2 rest with
            | error e' => rw [f1, f2] at hrest; exact hrest.elim
            | ok y =>
              rw [f1, f2] at hrest
              exact ⟨hrest.1, (RelL.ofOpt hu).append hrest.2⟩
    | atom w => exact execAnd_pos (.atom w) rest (by simp [Tree.isNot]) (exec_rel h (.atom w)) hrest
    | phrase ws => exact execAnd_pos (.phrase ws) rest (by simp [Tree.isNot]) (exec_rel h (.phrase ws)) hrest
    | glob p => exact execAnd_pos (.glob p) rest (by simp [Tree.isNot]) (exec_rel h (.glob p)) hrest
    | andN l => exact execAnd_pos (.andN l) rest (by simp [Tree.isNot]) (exec_rel h (.andN l)) hrest
    | orN l => exact execAnd_pos (.orN l) rest (by simp [Tree.isNot]) (exec_rel h (.orN l)) hrest
theorem execOr_rel (h : IndexRel Rel i1 i2) : ∀ ts : List Tree,
    ExecRel (RelL Rel) (execOr i1 ts) (execOr i2 ts)
  | [] => by simp only [execOr, ExecRel]; exact .nil
  | t :: rest => by
    have ht := exec_rel h t
    have hrest := execOr_rel h rest
    simp only [execOr]
    cases e1 : exec i1 t with
    | error e =>
      cases e2 : exec i2 t with
      | error e' => rw [e1, e2] at ht; exact ht
      | ok b => rw [e1, e2] at ht; exact ht.elim
    | ok a =>
      cases e2 : exec i2 t with
      | error e' => rw [e1, e2] at ht; exact ht.elim
      | ok b =>
        rw [e1, e2] at ht
        simp only
        cases f1 : execOr i1 rest with
        | error e =>
          cases f2 : execOr i2 rest with
          | error e' => rw [f1, f2] at hrest; exact hrest
          | ok y => rw [f1, f2] at hrest; exact hrest.elim
        | ok x =>
          cases f2 : execOr i2 rest with
          | error e' => rw [f1, f2] at hrest; exact hrest.elim
          | ok y =>
            rw [f1, f2] at hrest
            exact (RelL.ofOpt ht).append hrest
end

end Hyp.QP
