import HypatiaModel.Spec.FacetSpec
import HypatiaProofs.Lemmas.KeywordQuery

set_option linter.unusedSectionVars false
set_option linter.unusedSimpArgs false
set_option linter.unusedVariables false
namespace Hyp.Facet
open Hyp Hyp.Keyword Hyp.Keyword.Spec Hyp.Facet.Spec

/-! ## prefix expansion -/

theorem mem_prefixes (p : Facet) : ∀ f : Facet, f ∈ prefixes p ↔ isPrefix f p = true := by
  induction p with
  | nil =>
    intro f
    cases f <;> simp [prefixes, isPrefix, List.isPrefixOf]
  | cons x xs ih =>
    intro f
    cases f with
    | nil => simp [prefixes, isPrefix]
    | cons a as =>
      simp only [prefixes, List.mem_cons, List.mem_map, isPrefix, List.isEmpty_cons, Bool.not_false,
        Bool.true_and, List.isPrefixOf, Bool.and_eq_true, beq_iff_eq]
      constructor
      · rintro (h | ⟨g, hg, h⟩)
        · injection h with h1 h2; subst h1; subst h2; simp [List.isPrefixOf]
        · injection h with h1 h2; subst h1; subst h2
          have := (ih g).mp hg
          simp only [isPrefix, Bool.and_eq_true] at this
          exact ⟨rfl, this.2⟩
      · rintro ⟨h1, h2⟩
        subst h1
        cases as with
        | nil => exact Or.inl rfl
        | cons b bs =>
          right
          refine ⟨b :: bs, (ih (b :: bs)).mpr ?_, rfl⟩
          simp [isPrefix, h2]

theorem mem_listed (F : List Facet) (paths : List Facet) (f : Facet) :
    f ∈ listed F paths ↔ f ∈ F ∧ ∃ p ∈ paths, isPrefix f p = true := by
  unfold listed; rw [List.mem_filter]; simp

theorem mem_effectiveOmits (om : List Facet) (f : Facet) :
    f ∈ effectiveOmits om ↔ omitted om f = true := by
  unfold effectiveOmits omitted
  have inner : ∀ (l : List Facet) (acc : List Facet), f ∈ l.foldl LSet.insert acc ↔ f ∈ acc ∨ f ∈ l := by
    intro l
    induction l with
    | nil => intro acc; simp
    | cons a l ih =>
      intro acc
      simp only [List.foldl_cons, ih, LSet.mem_insert, List.mem_cons]
      constructor
      · rintro ((h | h) | h)
        · exact Or.inr (Or.inl h)
        · exact Or.inl h
        · exact Or.inr (Or.inr h)
      · rintro (h | h | h)
        · exact Or.inl (Or.inr h)
        · exact Or.inl (Or.inl h)
        · exact Or.inr h
  have outer : ∀ (acc : List Facet),
      f ∈ om.foldl (fun acc o => (prefixes o).foldl LSet.insert acc) acc ↔ f ∈ acc ∨ ∃ o ∈ om, f ∈ prefixes o := by
    induction om with
    | nil => intro acc; simp
    | cons o om ih =>
      intro acc
      simp only [List.foldl_cons, ih, inner, List.mem_cons, exists_eq_or_imp]
      constructor
      · rintro ((h | h) | h)
        · exact Or.inl h
        · exact Or.inr (Or.inl h)
        · exact Or.inr (Or.inr h)
      · rintro (h | h | h)
        · exact Or.inl (Or.inl h)
        · exact Or.inl (Or.inr h)
        · exact Or.inr h
  rw [outer]
  simp only [List.not_mem_nil, false_or, List.any_eq_true, mem_prefixes]

/-! ## the table docid ↦ listed facets -/

theorem get_kwTable (F : List Facet) (t : Spec.Table) (d : Int) :
    AMap.get (kwTable F t) d = (AMap.get t d).map (fun v => v.map (listed F)) := by
  induction t with
  | nil => rfl
  | cons p m ih =>
    obtain ⟨a, b⟩ := p
    show AMap.get ((a, b.map (listed F)) :: kwTable F m) d = _
    rw [AMap.get_cons, AMap.get_cons, ih]
    by_cases e : a = d <;> simp [e]

theorem kwOf_kwTable (F : List Facet) (t : Spec.Table) (d : Int) :
    kwOf (kwTable F t) d = listed F (pathsOf t d) := by
  unfold kwOf pathsOf
  rw [get_kwTable]
  cases hg : AMap.get t d with
  | none => simp [listed]
  | some v => cases v <;> simp [listed]

theorem withdrawn_kwTable (F : List Facet) (t : Spec.Table) (d : Int) :
    AMap.get (kwTable F t) d = some none ↔ AMap.get t d = some none := by
  rw [get_kwTable]
  cases hg : AMap.get t d with
  | none => simp
  | some v => cases v <;> simp

/-! ## one insertion, on the erased state -/

def paddOne (s : Keyword.Plain.State Facet) (d : Int) (fac : Facet) : Keyword.Plain.State Facet :=
  { s with fwd := AMap.set s.fwd fac (LSet.insert ((AMap.get s.fwd fac).getD []) d),
           rev := AMap.set s.rev d (LSet.insert ((AMap.get s.rev d).getD []) fac) }

theorem erase_addOne (s : Keyword.State Facet) (d : Int) (fac : Facet) :
    erase (addOne s d fac) = paddOne (erase s) d fac := by
  unfold addOne paddOne erase
  (try dsimp only)
  rw [eraseFwd_set, get_eraseFwd]
  cases AMap.get s.fwd fac <;> rfl

theorem insert_ne_nil {α : Type} [DecidableEq α] (l : List α) (x : α) : LSet.insert l x ≠ [] := by
  unfold LSet.insert; split
  · next hm => intro e; rw [e] at hm; cases hm
  · simp

theorem paddOne_core {p : Keyword.Plain.State Facet} {t0 : Keyword.Spec.Table Facet} {d : Int}
    {A : List Facet} (h : InvCore p (AMap.set t0 d (some A))) (c : Facet) :
    InvCore (paddOne p d c) (AMap.set t0 d (some (c :: A))) := by
  have hA : ∀ k, k ∈ kws p.rev d ↔ k ∈ A := by
    intro k; rw [h.rev_mem, kwOf_set]; simp
  have hndr : (kws p.rev d).Nodup := by
    unfold kws
    cases hg : AMap.get p.rev d with
    | none => simp
    | some l => simpa using h.rev_nd d l hg
  unfold paddOne
  refine ⟨?_, ?_, ?_, ?_, ?_, ?_, AMap.WF_set h.wf_rev _ _, h.nd_ni⟩
  · intro d' k; (try dsimp only); rw [kws_set, kwOf_set]
    by_cases e : d = d'
    · subst e
      simp only [if_true, Option.getD_some, List.mem_cons]
      show k ∈ LSet.insert (kws p.rev d) c ↔ _
      rw [LSet.mem_insert, hA]
    · simp only [e, if_false]
      have := h.rev_mem d' k
      rw [kwOf_set] at this; simpa [e] using this
  · intro d' l'; (try dsimp only); rw [AMap.get_set]
    by_cases e : d = d'
    · simp only [e, if_true, Option.some.injEq]; intro e2; rw [← e2]; exact insert_ne_nil _ _
    · simp only [e, if_false]; exact h.rev_ne d' l'
  · intro d' l'; (try dsimp only); rw [AMap.get_set]
    by_cases e : d = d'
    · subst e
      simp only [if_true, Option.some.injEq]; intro e2; rw [← e2]
      exact LSet.nodup_insert hndr c
    · simp only [e, if_false]; exact h.rev_nd d' l'
  · intro d'; (try dsimp only)
    rw [h.ni_eq, AMap.get_set, AMap.get_set]
    by_cases e : d = d' <;> simp [e]
  · intro k x; (try dsimp only); rw [Plain.posting_set, kws_set]
    by_cases e1 : c = k
    · subst e1
      simp only [if_true]
      show x ∈ LSet.insert (Plain.posting p.fwd c) d ↔ _
      rw [LSet.mem_insert]
      by_cases e2 : d = x
      · subst e2
        simp only [if_true, true_or, true_iff]
        show c ∈ LSet.insert (kws p.rev d) c
        rw [LSet.mem_insert]; exact Or.inl rfl
      · simp only [e2, if_false]
        rw [h.fwd_eq]
        constructor
        · rintro (hh | hh)
          · exact absurd hh.symm e2
          · exact hh
        · exact Or.inr
    · simp only [e1, if_false]
      by_cases e2 : d = x
      · subst e2
        simp only [if_true]
        show _ ↔ k ∈ LSet.insert (kws p.rev d) c
        rw [LSet.mem_insert, h.fwd_eq]
        constructor
        · exact Or.inr
        · rintro (hh | hh)
          · exact absurd hh.symm e1
          · exact hh
      · simp only [e2, if_false]; exact h.fwd_eq k x
  · (try dsimp only)
    apply h.fwd_ok.set
    · exact insert_ne_nil _ _
    · exact LSet.nodup_insert (Plain.posting_nodup h.fwd_ok c) d

theorem paddOne_length {p : Keyword.Plain.State Facet} (hwf : AMap.WF p.rev) (d : Int) (c : Facet) :
    (paddOne p d c).rev.length = p.rev.length + (if AMap.get p.rev d = none then 1 else 0) := by
  unfold paddOne
  (try dsimp only)
  cases hg : AMap.get p.rev d with
  | none => rw [length_set_of_none _ hg]; simp
  | some l => rw [length_set_of_some hwf _ hg]; simp

/-! ## the candidate loops -/

/-- loop invariant of `index_doc`'s nested loops: `A` is the set of facets recorded so far -/
structure LoopInv (p : Keyword.Plain.State Facet) (t0 : Keyword.Spec.Table Facet) (d : Int)
    (A : List Facet) (changed : Bool) : Prop where
  core : InvCore p (AMap.set t0 d (some A))
  flag : changed = true ↔ A ≠ []
  num : p.numDocs + (if A = [] then 0 else 1) = p.rev.length

theorem addCands_inv (F : List Facet) (t0 : Keyword.Spec.Table Facet) (d : Int) (cands : List Facet) :
    ∀ (acc : Keyword.State Facet × Bool) (A : List Facet), LoopInv (erase acc.1) t0 d A acc.2 →
      ∃ A', LoopInv (erase (cands.foldl (addCandidate F d) acc).1) t0 d A'
              (cands.foldl (addCandidate F d) acc).2 ∧
            ∀ f, f ∈ A' ↔ f ∈ A ∨ (f ∈ F ∧ f ∈ cands) := by
  induction cands with
  | nil => intro acc A h; exact ⟨A, h, by simp⟩
  | cons c cs ih =>
    intro acc A h
    simp only [List.foldl_cons]
    by_cases hc : c ∈ F
    · have hstep : LoopInv (erase (addCandidate F d acc c).1) t0 d (c :: A) (addCandidate F d acc c).2 := by
        simp only [addCandidate, hc, if_true]
        rw [erase_addOne]
        refine ⟨paddOne_core h.core c, by simp, ?_⟩
        rw [paddOne_length h.core.wf_rev]
        have hn : AMap.get (erase acc.1).rev d = none ↔ A = [] := by
          rw [h.core.rev_none_iff, kwOf_set]; simp
        have := h.num
        show (erase acc.1).numDocs + _ = _
        by_cases hA : A = []
        · simp only [hA, if_true] at this
          simp [hn.mpr hA]; omega
        · simp only [hA, if_false] at this
          have : ¬ AMap.get (erase acc.1).rev d = none := fun e => hA (hn.mp e)
          simp [this]; omega
      obtain ⟨A', h1, h2⟩ := ih _ _ hstep
      refine ⟨A', h1, ?_⟩
      intro f
      rw [h2, List.mem_cons, List.mem_cons]
      constructor
      · rintro ((hh | hh) | hh)
        · subst hh; exact Or.inr ⟨hc, Or.inl rfl⟩
        · exact Or.inl hh
        · exact Or.inr ⟨hh.1, Or.inr hh.2⟩
      · rintro (hh | ⟨h3, h4 | h4⟩)
        · exact Or.inl (Or.inr hh)
        · exact Or.inl (Or.inl h4)
        · exact Or.inr ⟨h3, h4⟩
    · have hsame : addCandidate F d acc c = acc := by simp [addCandidate, hc]
      rw [hsame]
      obtain ⟨A', h1, h2⟩ := ih acc A h
      refine ⟨A', h1, ?_⟩
      intro f
      rw [h2, List.mem_cons]
      constructor
      · rintro (hh | hh)
        · exact Or.inl hh
        · exact Or.inr ⟨hh.1, Or.inr hh.2⟩
      · rintro (hh | ⟨h3, h4 | h4⟩)
        · exact Or.inl hh
        · subst h4; exact absurd h3 hc
        · exact Or.inr ⟨h3, h4⟩

theorem addPaths_eq_foldl (F : List Facet) (d : Int) (paths : List Facet) :
    ∀ acc, addPaths F d acc paths = (paths.flatMap prefixes).foldl (addCandidate F d) acc := by
  induction paths with
  | nil => intro acc; rfl
  | cons p ps ih =>
    intro acc
    unfold addPaths at ih ⊢
    simp only [List.foldl_cons, List.flatMap_cons, List.foldl_append]
    rw [ih]; rfl

/-! ## `index_doc` and the other operations preserve the invariant -/

theorem kwOf_congr {t t' : Keyword.Spec.Table Facet} {d : Int} (h : AMap.get t d = AMap.get t' d) :
    kwOf t d = kwOf t' d := by unfold kwOf; rw [h]

theorem tequiv_of_get {t t' : Keyword.Spec.Table Facet} (h : ∀ d, AMap.get t d = AMap.get t' d) :
    TEquiv t t' :=
  ⟨fun d => by rw [h d], fun d k => by rw [kwOf_congr (h d)]⟩

theorem get_kwTable_set (F : List Facet) (T : Spec.Table) (d : Int) (v : Option (List Facet)) (d' : Int) :
    AMap.get (kwTable F (AMap.set T d v)) d' = AMap.get (AMap.set (kwTable F T) d (v.map (listed F))) d' := by
  rw [get_kwTable, AMap.get_set, AMap.get_set, get_kwTable]
  by_cases e : d = d' <;> simp [e]

theorem get_kwTable_erase (F : List Facet) (T : Spec.Table) (d d' : Int) :
    AMap.get (kwTable F (AMap.erase T d)) d' = AMap.get (AMap.erase (kwTable F T) d) d' := by
  rw [get_kwTable, AMap.get_erase, AMap.get_erase, get_kwTable]
  by_cases e : d = d' <;> simp [e]

theorem invCore_setNum {p : Keyword.Plain.State Facet} {t : Keyword.Spec.Table Facet} (h : InvCore p t)
    (n : Int) : InvCore { p with numDocs := n } t :=
  ⟨h.rev_mem, h.rev_ne, h.rev_nd, h.ni_eq, h.fwd_eq, h.fwd_ok, h.wf_rev, h.nd_ni⟩

/-- the loops of `index_doc` plus the final `if changed: self._num_docs.change(1)`, started in
a state that does not know `d` -/
theorem addPaths_tail (F : List Facet) (d : Int) (k2 : Keyword.State Facet)
    (t0 : Keyword.Spec.Table Facet) (h2 : Inv (erase k2) t0) (hd : AMap.get t0 d = none)
    (paths : List Facet) :
    ∃ A', Inv (erase (if (addPaths F d (k2, false) paths).2 then
                { (addPaths F d (k2, false) paths).1 with
                  numDocs := (addPaths F d (k2, false) paths).1.numDocs + 1 }
              else (addPaths F d (k2, false) paths).1)) (AMap.set t0 d (some A')) ∧
          ∀ f, f ∈ A' ↔ f ∈ F ∧ ∃ p ∈ paths, isPrefix f p = true := by
  have hl0 : LoopInv (erase (k2, false).1) t0 d [] (k2, false).2 := by
    refine ⟨?_, by simp, ?_⟩
    · apply h2.toInvCore.congr
      constructor
      · intro d'; rw [AMap.get_set]
        by_cases e : d = d'
        · subst e; simp [hd]
        · simp [e]
      · intro d' k; rw [kwOf_set]
        by_cases e : d = d'
        · subst e; simp [kwOf, hd]
        · simp [e]
    · simp only [if_true]; have := h2.num; show (erase k2).numDocs + 0 = _; omega
  obtain ⟨A', hl, hA⟩ := addCands_inv F t0 d (paths.flatMap prefixes) (k2, false) [] hl0
  rw [← addPaths_eq_foldl] at hl
  refine ⟨A', ?_, ?_⟩
  · cases hch : (addPaths F d (k2, false) paths).2 with
    | true =>
      have hne : A' ≠ [] := hl.flag.mp hch
      simp only [if_true]
      refine ⟨invCore_setNum hl.core _, ?_⟩
      have := hl.num
      simp only [hne, if_false] at this
      exact this
    | false =>
      have he : A' = [] := by
        cases hA' : A' with
        | nil => rfl
        | cons a l => have := hl.flag.mpr (by simp [hA']); rw [hch] at this; cases this
      simp only [Bool.false_eq_true, if_false]
      refine ⟨hl.core, ?_⟩
      have := hl.num
      simp only [he, if_true] at this
      show (erase (addPaths F d (k2, false) paths).1).numDocs = _
      omega
  · intro f
    rw [hA]
    simp only [List.not_mem_nil, false_or, List.mem_flatMap, mem_prefixes]

/-- the facet index's invariant: the configured set is fixed and the inherited keyword state
represents the table docid ↦ listed facets -/
def FInv (F : List Facet) (s : State) (T : Spec.Table) : Prop :=
  s.facets = F ∧ Inv (erase s.ks) (kwTable F T)

theorem indexDoc_finv {F : List Facet} {s : State} {T : Spec.Table} (h : FInv F s T) (d : Int)
    (v : Option (List Facet)) : FInv F (indexDoc s d v) (AMap.set T d v) := by
  obtain ⟨hF, hi⟩ := h
  unfold indexDoc
  cases v with
  | none =>
    refine ⟨hF, ?_⟩
    (try dsimp only)
    have e : erase { Keyword.unindexDoc s.ks d with
          notIndexed := LSet.insert (Keyword.unindexDoc s.ks d).notIndexed d } =
        { Keyword.Plain.unindexDoc (erase s.ks) d with
          notIndexed := LSet.insert (Keyword.Plain.unindexDoc (erase s.ks) d).notIndexed d } := by
      rw [← erase_unindexDoc]; rfl
    rw [e]
    have h1 := unindexDoc_inv hi d
    have h2 := markNotIndexed_inv h1 d (by rw [AMap.get_erase]; simp)
    apply h2.congr
    apply tequiv_of_get
    intro d'
    rw [get_kwTable_set, AMap.get_set, AMap.get_set, AMap.get_erase]
    by_cases e : d = d' <;> simp [e]
  | some paths =>
    (try dsimp only)
    refine ⟨hF, ?_⟩
    (try dsimp only)
    -- after `_not_indexed.remove(docid)`
    have h1 : Inv (erase { s.ks with notIndexed := LSet.remove s.ks.notIndexed d })
        (unmark (kwTable F T) d) := unmark_inv hi d
    have hnw := unmark_not_withdrawn (kwTable F T) d
    -- after `if old is not None: self.unindex_doc(docid)`
    have h2 : Inv (erase (match AMap.get s.ks.rev d with
          | some _ => Keyword.unindexDoc { s.ks with notIndexed := LSet.remove s.ks.notIndexed d } d
          | none => { s.ks with notIndexed := LSet.remove s.ks.notIndexed d }))
        (AMap.erase (unmark (kwTable F T) d) d) := by
      cases hr : AMap.get s.ks.rev d with
      | some l =>
        (try dsimp only)
        rw [erase_unindexDoc]
        exact unindexDoc_inv h1 d
      | none =>
        (try dsimp only)
        have hk : kwOf (unmark (kwTable F T) d) d = [] := (h1.rev_none_iff d).mp hr
        apply h1.congr
        constructor
        · intro d'; rw [AMap.get_erase]
          by_cases e : d = d'
          · subst e; simp [hnw]
          · simp [e]
        · intro d' k; rw [kwOf_erase]
          by_cases e : d = d'
          · subst e; simp [hk]
          · simp [e]
    obtain ⟨A', hinv, hA⟩ := addPaths_tail s.facets d _ _ h2 (by rw [AMap.get_erase]; simp) paths
    -- the table reached
    have te : TEquiv (AMap.set (AMap.erase (unmark (kwTable F T) d) d) d (some A'))
        (kwTable F (AMap.set T d (some paths))) := by
      constructor
      · intro d'
        rw [get_kwTable_set, AMap.get_set, AMap.get_set, AMap.get_erase]
        by_cases e : d = d'
        · simp [e]
        · simp only [e, if_false]; rw [unmark_get_ne _ e]
      · intro d' k
        rw [kwOf_congr (get_kwTable_set F T d (some paths) d'), kwOf_set, kwOf_set, kwOf_erase, unmark_kwOf]
        by_cases e : d = d'
        · simp only [e, if_true, Option.getD_some, Option.map_some]
          rw [hA, mem_listed, hF]
        · simp [e]
    exact hinv.congr te

theorem step_finv {F : List Facet} {s : State} {T : Spec.Table} (h : FInv F s T) (op : Op) :
    FInv F (step s op) (Spec.stepT T op) := by
  cases op with
  | index d v => exact indexDoc_finv h d v
  | unindex d =>
    refine ⟨h.1, ?_⟩
    show Inv (erase (Keyword.unindexDoc s.ks d)) _
    rw [erase_unindexDoc]
    exact (unindexDoc_inv h.2 d).congr (tequiv_of_get (fun d' => (get_kwTable_erase F T d d').symm))
  | reset => exact ⟨h.1, inv_init⟩
  | optimize =>
    refine ⟨h.1, ?_⟩
    show Inv (erase (Keyword.optimize s.ks)) _
    rw [erase_optimize]; exact h.2
  | setThr n => exact ⟨h.1, h.2⟩

/-- **Refinement** for the facet index, for every configured facet list and every history -/
theorem run_finv (F0 : List Facet) (hist : List Op) :
    FInv (dedup F0) (run F0 hist) (Spec.table hist) := by
  unfold run Spec.table
  suffices ∀ (s : State) (T : Spec.Table), FInv (dedup F0) s T →
      FInv (dedup F0) (hist.foldl step s) (hist.foldl Spec.stepT T) from
    this _ _ ⟨rfl, inv_init⟩
  induction hist with
  | nil => intro s T h; exact h
  | cons op ops ih =>
    intro s T h
    simp only [List.foldl_cons]
    exact ih _ _ (step_finv h op)

end Hyp.Facet
