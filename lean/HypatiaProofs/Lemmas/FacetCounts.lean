import HypatiaProofs.Lemmas.Facet

set_option linter.unusedSectionVars false
set_option linter.unusedSimpArgs false
set_option linter.unusedVariables false
namespace Hyp.Facet
open Hyp Hyp.Keyword Hyp.Keyword.Spec Hyp.Facet.Spec

/-- the counts dictionary represents the function `n`: absent exactly where `n` is zero -/
def CountsOK (c : AMap Facet Nat) (n : Facet → Nat) : Prop :=
  ∀ f, AMap.get c f = if n f = 0 then none else some (n f)

theorem CountsOK.congr {c : AMap Facet Nat} {n n' : Facet → Nat} (h : CountsOK c n)
    (e : ∀ f, n f = n' f) : CountsOK c n' := by
  intro f; rw [h f, e f]

theorem bump_ok {c : AMap Facet Nat} {n : Facet → Nat} (h : CountsOK c n) (a : Facet) :
    CountsOK (bump c a) (fun f => n f + if a = f then 1 else 0) := by
  intro f
  unfold bump
  rw [AMap.get_set]
  by_cases e : a = f
  · subst e
    have := h a
    by_cases hz : n a = 0
    · simp [hz] at this; simp [this, hz]
    · simp [hz] at this; simp [this]
  · simp only [e, if_false, Nat.add_zero]; exact h f

theorem foldl_bump_ok (appr : List Facet) (hnd : appr.Nodup) : ∀ (c : AMap Facet Nat) (n : Facet → Nat),
    CountsOK c n → CountsOK (appr.foldl bump c) (fun f => n f + if f ∈ appr then 1 else 0) := by
  induction appr with
  | nil => intro c n h; simpa using h
  | cons a l ih =>
    intro c n h
    rw [List.nodup_cons] at hnd
    simp only [List.foldl_cons]
    apply (ih hnd.2 _ _ (bump_ok h a)).congr
    intro f
    by_cases e : a = f
    · subst e; simp [hnd.1]
    · have : ¬ f = a := fun e' => e e'.symm
      simp [e, this]

/-- the facets counted for one docid: `include ∩ rev[d]`, nothing for an id without facets -/
def apprOf (rev : AMap Int (List Facet)) (incl : List Facet) (d : Int) : List Facet :=
  match AMap.get rev d with
  | none => []
  | some avail => LSet.inter incl avail

def hits (rev : AMap Int (List Facet)) (incl : List Facet) (ds : List Int) (f : Facet) : Nat :=
  (ds.filter (fun d => decide (f ∈ apprOf rev incl d))).length

theorem hits_cons (rev : AMap Int (List Facet)) (incl : List Facet) (d : Int) (ds : List Int) (f : Facet) :
    hits rev incl (d :: ds) f = (if f ∈ apprOf rev incl d then 1 else 0) + hits rev incl ds f := by
  unfold hits
  by_cases h : f ∈ apprOf rev incl d <;> simp [List.filter, h] <;> omega

/-- every memo entry is the intersection it stands for (for every facet set with that key) -/
def CacheOK (incl : List Facet) (cache : Cache) : Prop :=
  ∀ key val, AMap.get cache key = some val →
    val.Nodup ∧ ∀ avail, cacheKey avail = key → ∀ f, f ∈ val ↔ f ∈ LSet.inter incl avail

theorem cacheKey_mem {a b : List Facet} (h : cacheKey a = cacheKey b) (f : Facet) : f ∈ a ↔ f ∈ b := by
  unfold cacheKey at h
  rw [← Sort.mem_isort lexLe a, h, Sort.mem_isort]

theorem countsLoop_ok (rev : AMap Int (List Facet)) (incl : List Facet) (hincl : incl.Nodup)
    (ds : List Int) : ∀ (c : AMap Facet Nat) (cache : Cache) (n : Facet → Nat),
    CountsOK c n → CacheOK incl cache →
    CountsOK (countsLoop rev incl ds (c, cache)).1 (fun f => n f + hits rev incl ds f) := by
  induction ds with
  | nil => intro c cache n h _; simpa [countsLoop, hits] using h
  | cons d ds ih =>
    intro c cache n h hc
    rw [countsLoop]
    cases hr : AMap.get rev d with
    | none =>
      simp only []
      apply (ih c cache n h hc).congr
      intro f; rw [hits_cons]; simp [apprOf, hr]
    | some avail =>
      simp only []
      have happ : apprOf rev incl d = LSet.inter incl avail := by simp [apprOf, hr]
      cases hck : AMap.get cache (cacheKey avail) with
      | some val =>
        simp only []
        obtain ⟨vnd, vmem⟩ := hc _ _ hck
        apply (ih _ cache _ (foldl_bump_ok val vnd c n h) hc).congr
        intro f
        rw [hits_cons, happ]
        have := vmem avail rfl f
        by_cases hv : f ∈ val
        · simp [hv, this.mp hv]; omega
        · have : f ∉ LSet.inter incl avail := fun hh => hv (this.mpr hh)
          simp [hv, this]
      | none =>
        simp only []
        have vnd : (LSet.inter incl avail).Nodup := LSet.nodup_inter hincl avail
        have hc' : CacheOK incl (AMap.set cache (cacheKey avail) (LSet.inter incl avail)) := by
          intro key val hg
          rw [AMap.get_set] at hg
          by_cases e : cacheKey avail = key
          · simp only [e, if_true, Option.some.injEq] at hg
            subst hg
            refine ⟨vnd, ?_⟩
            intro avail' hk f
            have hm := cacheKey_mem (hk.trans e.symm)
            rw [LSet.mem_inter, LSet.mem_inter, hm]
          · simp only [e, if_false] at hg
            exact hc key val hg
        apply (ih _ _ _ (foldl_bump_ok _ vnd c n h) hc').congr
        intro f
        rw [hits_cons, happ]
        by_cases hv : f ∈ LSet.inter incl avail <;> simp [hv] <;> omega

theorem counts_get (s : State) (hF : s.facets.Nodup) (ds : List Int) (om : List Facet) (f : Facet) :
    AMap.get (counts s ds om) f =
      if hits s.ks.rev (LSet.diff s.facets (effectiveOmits om)) ds f = 0 then none
      else some (hits s.ks.rev (LSet.diff s.facets (effectiveOmits om)) ds f) := by
  unfold counts
  have h0 : CountsOK ([] : AMap Facet Nat) (fun _ => 0) := by intro f; simp
  have hc0 : CacheOK (LSet.diff s.facets (effectiveOmits om)) ([] : Cache) := by
    intro key val hg; simp at hg
  have := countsLoop_ok s.ks.rev _ (LSet.nodup_diff hF _) ds [] [] _ h0 hc0 f
  simpa using this

/-- under the invariant, the number of hits is the specification's count -/
theorem hits_eq {F : List Facet} {s : State} {T : Spec.Table} (h : FInv F s T) (ds : List Int)
    (om : List Facet) (f : Facet) :
    hits s.ks.rev (LSet.diff s.facets (effectiveOmits om)) ds f =
      if omitted om f = true then 0 else countOf F T ds f := by
  obtain ⟨hF, hi⟩ := h
  have hmem : ∀ d, f ∈ apprOf s.ks.rev (LSet.diff s.facets (effectiveOmits om)) d ↔
      omitted om f = false ∧ f ∈ listed F (pathsOf T d) := by
    intro d
    have hk : f ∈ kws (erase s.ks).rev d ↔ f ∈ listed F (pathsOf T d) := by
      rw [hi.rev_mem, kwOf_kwTable]
    have hrev : (erase s.ks).rev = s.ks.rev := rfl
    rw [hrev] at hk
    unfold apprOf
    cases hg : AMap.get s.ks.rev d with
    | none =>
      simp only [List.not_mem_nil, false_iff, not_and]
      intro _ hl
      have := hk.mpr hl
      simp [kws, hg] at this
    | some avail =>
      simp only []
      have hk' : f ∈ avail ↔ f ∈ listed F (pathsOf T d) := by
        rw [← hk]; simp [kws, hg]
      rw [LSet.mem_inter, LSet.mem_diff, mem_effectiveOmits, hk', hF]
      constructor
      · rintro ⟨⟨_, h2⟩, h3⟩; exact ⟨by simpa using h2, h3⟩
      · rintro ⟨h1, h2⟩
        exact ⟨⟨((mem_listed F _ f).mp h2).1, by simp [h1]⟩, h2⟩
  unfold hits countOf
  by_cases ho : omitted om f = true
  · simp only [ho, if_true]
    rw [List.length_eq_zero_iff, List.filter_eq_nil_iff]
    intro d _
    simp only [decide_eq_true_eq]
    intro hc
    have := ((hmem d).mp hc).1
    rw [ho] at this; cases this
  · simp only [ho, if_false]
    congr 1
    apply List.filter_congr
    intro d _
    have := hmem d
    simp only [Bool.not_eq_true] at ho
    simp only [ho, true_and] at this
    simp only [decide_eq_decide]
    exact this

theorem facet_run_viewOK (F0 : List Facet) (h : List Op) :
    ViewOK (run F0 h).ks.view (kwTable (dedup F0) (table h)) := by
  rw [← view_erase]; exact viewOK_of_inv (run_finv F0 h).2.toInvCore

/-! the specification's count list, read as a dictionary -/

theorem get_filterMap_counts (n : Facet → Nat) : ∀ (l : List Facet), l.Nodup → ∀ f,
    AMap.get (l.filterMap (fun f => if n f = 0 then none else some (f, n f))) f =
      if f ∈ l ∧ n f ≠ 0 then some (n f) else none := by
  intro l
  induction l with
  | nil => intro _ f; simp
  | cons a l ih =>
    intro hnd f
    rw [List.nodup_cons] at hnd
    rw [List.filterMap_cons]
    by_cases hz : n a = 0
    · simp only [hz, if_true]
      rw [ih hnd.2 f]
      by_cases e : f = a
      · subst e; simp [hz]
      · simp [e]
    · simp only [hz, if_false]
      rw [AMap.get_cons]
      by_cases e : a = f
      · subst e; simp [hz]
      · have e' : ¬ f = a := fun x => e x.symm
        simp only [e, if_false]
        rw [ih hnd.2 f]; simp [e']

theorem countOf_pos_mem {F : List Facet} {T : Spec.Table} {ds : List Int} {f : Facet}
    (h : countOf F T ds f ≠ 0) : f ∈ F := by
  unfold countOf at h
  have : (ds.filter (fun d => decide (f ∈ listed F (pathsOf T d)))) ≠ [] := by
    intro e; rw [e] at h; exact h rfl
  obtain ⟨d, hd⟩ := List.exists_mem_of_ne_nil _ this
  have := (List.mem_filter.mp hd).2
  simp only [decide_eq_true_eq] at this
  exact ((mem_listed F _ f).mp this).1

theorem get_spec_counts (F : List Facet) (hF : F.Nodup) (T : Spec.Table) (ds : List Int)
    (om : List Facet) (f : Facet) :
    AMap.get (Spec.counts F T ds om) f =
      if omitted om f = true ∨ countOf F T ds f = 0 then none else some (countOf F T ds f) := by
  unfold Spec.counts
  (try dsimp only)
  rw [get_filterMap_counts (fun f => countOf F T ds f) _ (hF.filter _) f]
  by_cases ho : omitted om f = true
  · simp [ho]
  · by_cases hz : countOf F T ds f = 0
    · simp [hz]
    · have := countOf_pos_mem hz
      simp [ho, hz, this]

end Hyp.Facet
