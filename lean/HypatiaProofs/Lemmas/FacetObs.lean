import HypatiaProofs.Lemmas.FacetCounts
import HypatiaProofs.Lemmas.KeywordObs

/-!
Enumeration / statistics of the facet index as functions of the facet table (C06).  The facet
index is a keyword index over the table docid ↦ listed facets (`kwTable`, invariant `FInv` of
C13), so everything is the keyword result (`Lemmas/KeywordObs.lean`) read in facet vocabulary.
-/
set_option linter.unusedSectionVars false
set_option linter.unusedSimpArgs false
namespace Hyp.Facet
open Hyp Hyp.Keyword Hyp.Keyword.Spec Hyp.Facet.Spec

/-- Everything the enumeration / statistics API of a facet index configured with `F` reports,
as a function of the facet table `T` (docid ↦ paths last supplied / withdrawn). -/
structure ObsSpec (F : List Facet) (s : State) (T : Spec.Table) : Prop where
  indexed_mem : ∀ d, d ∈ indexed s ↔ listed F (pathsOf T d) ≠ []
  not_indexed_mem : ∀ d, d ∈ notIndexed s ↔ AMap.get T d = some none
  docids_mem : ∀ d, d ∈ docids s ↔ AMap.get T d = some none ∨ listed F (pathsOf T d) ≠ []
  disjoint : ∀ d, ¬ (d ∈ indexed s ∧ d ∈ notIndexed s)
  docids_union : ∀ d, d ∈ docids s ↔ d ∈ indexed s ∨ d ∈ notIndexed s
  indexed_count : indexedCount s = (indexed s).length ∧ (indexed s).Nodup
  not_indexed_count : notIndexedCount s = (notIndexed s).length ∧ (notIndexed s).Nodup
  docids_count : docidsCount s = (docids s).length ∧ (docids s).Nodup
  /-- the inherited `_num_docs` counter (no public reader) is the number of indexed documents -/
  num_docs : Keyword.numDocsCounter s.ks = (indexed s).length
  word_count : wordCount s = (uniqueValues s).length ∧ (uniqueValues s).Nodup
  /-- unique_values: exactly the configured facets some document is currently listed under -/
  unique_values_mem : ∀ f, f ∈ uniqueValues s ↔ ∃ d, f ∈ listed F (pathsOf T d)
  document_repr_default : ∀ d, documentRepr s d = none ↔ d ∉ indexed s
  document_repr_value : ∀ d l, documentRepr s d = some l →
    l.Nodup ∧ ∀ f, f ∈ l ↔ f ∈ listed F (pathsOf T d)

theorem obsSpec_of_kw {F : List Facet} {s : State} {T : Spec.Table}
    (o : Keyword.ObsSpec s.ks (kwTable F T)) : ObsSpec F s T where
  indexed_mem := by intro d; have := o.indexed_mem d; rwa [kwOf_kwTable] at this
  not_indexed_mem := by intro d; have := o.not_indexed_mem d; rwa [withdrawn_kwTable] at this
  docids_mem := by
    intro d; have := o.docids_mem d
    unfold Known at this
    rwa [withdrawn_kwTable, kwOf_kwTable] at this
  disjoint := o.disjoint
  docids_union := o.docids_union
  indexed_count := o.indexed_count
  not_indexed_count := o.not_indexed_count
  docids_count := o.docids_count
  num_docs := o.num_docs
  word_count := o.word_count
  unique_values_mem := by
    intro f; have := o.unique_values_mem f
    simp only [kwOf_kwTable] at this
    exact this
  document_repr_default := o.document_repr_default
  document_repr_value := by
    intro d l hl; have := o.document_repr_value d l hl
    simp only [kwOf_kwTable] at this
    exact this

theorem obsSpec_of_finv {F : List Facet} {s : State} {T : Spec.Table} (h : FInv F s T) : ObsSpec F s T :=
  obsSpec_of_kw (Keyword.obsSpec_of_inv h.2)

/-- two facet-index states are observationally equal through the enumeration / statistics API -/
abbrev ObsEq (s s' : State) : Prop := Keyword.ObsEq s.ks s'.ks

/-- the facet tables give every document the same listing under `F` and withdraw the same ids -/
def SameListing (F : List Facet) (T T' : Spec.Table) : Prop :=
  (∀ d, AMap.get T d = some none ↔ AMap.get T' d = some none) ∧
    (∀ d f, f ∈ listed F (pathsOf T d) ↔ f ∈ listed F (pathsOf T' d))

theorem tequiv_of_sameListing {F : List Facet} {T T' : Spec.Table} (h : SameListing F T T') :
    TEquiv (kwTable F T) (kwTable F T') := by
  refine ⟨fun d => ?_, fun d f => ?_⟩
  · rw [withdrawn_kwTable, withdrawn_kwTable]; exact h.1 d
  · rw [kwOf_kwTable, kwOf_kwTable]; exact h.2 d f

theorem sameListing_of_get {F : List Facet} {T T' : Spec.Table}
    (h : ∀ d, AMap.get T d = AMap.get T' d) : SameListing F T T' :=
  ⟨fun d => by rw [h d], fun d f => by unfold pathsOf; rw [h d]⟩

theorem obsEq_of_finv {F : List Facet} {s s' : State} {T T' : Spec.Table} (h : FInv F s T) (h' : FInv F s' T')
    (e : SameListing F T T') : ObsEq s s' :=
  Keyword.obsEq_of_inv h.2 h'.2 (tequiv_of_sameListing e)

/-! ## the table of a history is a well-formed map; a fresh index sees the same table -/

theorem table_wf (h : List Op) : AMap.WF (table h) := by
  unfold Facet.Spec.table
  suffices ∀ t : Spec.Table, AMap.WF t → AMap.WF (h.foldl Spec.stepT t) from this _ AMap.WF_nil
  induction h with
  | nil => intro t ht; exact ht
  | cons op ops ih =>
    intro t ht
    simp only [List.foldl_cons]
    apply ih
    cases op with
    | index d v => exact AMap.WF_set ht d v
    | unindex d => exact AMap.WF_erase ht d
    | reset => exact AMap.WF_nil
    | optimize => exact ht
    | setThr n => exact ht

theorem get_foldl_freshOps (t acc : Spec.Table) (d : Int) (hwf : AMap.WF t)
    (hdis : ∀ k, k ∈ AMap.keys t → AMap.get acc k = none) :
    AMap.get ((freshOps t).foldl Spec.stepT acc) d =
      match AMap.get t d with
      | some x => some x
      | none => AMap.get acc d := by
  induction t generalizing acc with
  | nil => simp [freshOps]
  | cons p ps ih =>
    obtain ⟨k, x⟩ := p
    unfold AMap.WF AMap.keys at hwf
    simp only [List.map_cons, List.nodup_cons] at hwf
    simp only [freshOps, List.map_cons, List.foldl_cons, Spec.stepT]
    have := ih (AMap.set acc k x) hwf.2 (by
      intro k' hk'
      rw [AMap.get_set]
      have : k ≠ k' := by intro e; subst e; exact hwf.1 hk'
      simp only [this, if_false]
      exact hdis k' (by simp [AMap.keys]; exact Or.inr (by simpa [AMap.keys] using hk')))
    unfold freshOps at this
    rw [this, AMap.get_cons]
    by_cases e : k = d
    · subst e
      have : AMap.get ps k = none := (AMap.not_mem_keys_iff ps k).mp hwf.1
      simp [this, AMap.get_set]
    · simp only [e, if_false]
      cases AMap.get ps d with
      | some y => rfl
      | none => simp [AMap.get_set, e]

theorem table_freshOps (t : Spec.Table) (hwf : AMap.WF t) (d : Int) :
    AMap.get (table (freshOps t)) d = AMap.get t d := by
  unfold Facet.Spec.table
  rw [get_foldl_freshOps t [] d hwf (by simp)]
  cases AMap.get t d <;> simp

theorem get_set_erase (t : Spec.Table) (d : Int) (x : Option (List Facet)) (d' : Int) :
    AMap.get (AMap.set (AMap.erase t d) d x) d' = AMap.get (AMap.set t d x) d' := by
  rw [AMap.get_set, AMap.get_set, AMap.get_erase]; split <;> simp_all

end Hyp.Facet
