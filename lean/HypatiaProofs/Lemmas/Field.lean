import HypatiaModel.Field
import HypatiaModel.Spec.FieldSpec

set_option linter.unusedSectionVars false
set_option linter.unusedSimpArgs false
namespace Hyp.Field
open Hyp Hyp.Field.Spec

variable {V : Type} [DecidableEq V] [LT V] [DecidableLT V] [LE V] [DecidableLE V]

/-- The refinement invariant: the four attributes of the index represent the table. -/
structure Inv (s : State V) (t : Table V) : Prop where
  rev_eq : ∀ d, AMap.get s.rev d = valueOf t d
  ni_eq : ∀ d, d ∈ s.notIndexed ↔ AMap.get t d = some none
  fwd_eq : ∀ v d, d ∈ (AMap.get s.fwd v).getD [] ↔ AMap.get s.rev d = some v
  fwd_ne : ∀ v set, AMap.get s.fwd v = some set → set ≠ []
  wf_rev : AMap.WF s.rev
  wf_fwd : AMap.WF s.fwd
  wf_t : AMap.WF t
  nd_ni : s.notIndexed.Nodup
  nd_post : ∀ v set, AMap.get s.fwd v = some set → set.Nodup
  num : s.numDocs = s.rev.length

theorem inv_init : Inv (init : State V) ([] : Table V) := by
  constructor <;> simp [init, valueOf, AMap.WF, AMap.keys]

theorem valueOf_erase (t : Table V) (d d' : Int) :
    valueOf (AMap.erase t d) d' = if d = d' then none else valueOf t d' := by
  unfold valueOf; rw [AMap.get_erase]; split <;> simp

theorem valueOf_set (t : Table V) (d : Int) (x : Option V) (d' : Int) :
    valueOf (AMap.set t d x) d' = if d = d' then x else valueOf t d' := by
  unfold valueOf; rw [AMap.get_set]; split <;> simp

theorem remove_eq_nil_iff {l : List Int} {d : Int} : LSet.remove l d = [] ↔ ∀ x ∈ l, x = d := by
  unfold LSet.remove
  rw [List.filter_eq_nil_iff]
  simp

/-- `unindex_doc` refines erasing the document from the table. -/
theorem unindexDoc_inv {s : State V} {t : Table V} (h : Inv s t) (d : Int) :
    Inv (unindexDoc s d) (AMap.erase t d) := by
  unfold unindexDoc
  cases hr : AMap.get s.rev d with
  | none =>
    have hv : valueOf t d = none := by rw [← h.rev_eq, hr]
    constructor
    · intro d'; (try dsimp only); rw [valueOf_erase, h.rev_eq]
      by_cases e : d = d'
      · subst e; simp [hv]
      · simp [e]
    · intro d'; (try dsimp only); rw [LSet.mem_remove, AMap.get_erase, h.ni_eq]
      by_cases e : d = d'
      · subst e; simp
      · simp [e]; intro _; exact fun e' => e e'.symm
    · exact h.fwd_eq
    · exact h.fwd_ne
    · exact h.wf_rev
    · exact h.wf_fwd
    · exact AMap.WF_erase h.wf_t d
    · exact LSet.nodup_remove h.nd_ni d
    · exact h.nd_post
    · exact h.num
  | some v =>
    have hmem : d ∈ (AMap.get s.fwd v).getD [] := (h.fwd_eq v d).mpr hr
    cases hf : AMap.get s.fwd v with
    | none => simp [hf] at hmem
    | some set =>
      simp only [hf, Option.getD_some] at hmem
      simp only [hf, hmem, if_true]
      have hnd := h.nd_post v set hf
      constructor
      · intro d'; (try dsimp only); rw [AMap.get_erase, valueOf_erase, h.rev_eq]
      · intro d'; (try dsimp only); rw [LSet.mem_remove, AMap.get_erase, h.ni_eq]
        by_cases e : d = d'
        · subst e; simp
        · simp [e]; intro _; exact fun e' => e e'.symm
      · intro v' d'
        (try dsimp only)
        rw [AMap.get_erase]
        by_cases hempty : LSet.remove set d = []
        · simp only [hempty, if_true]
          rw [AMap.get_erase]
          by_cases ev : v = v'
          · subst ev
            simp only [if_true, Option.getD_none, List.not_mem_nil, false_iff]
            by_cases e : d = d'
            · simp [e]
            · simp only [e, if_false]
              intro hc
              have := (h.fwd_eq v d').mpr hc
              simp only [hf, Option.getD_some] at this
              exact e ((remove_eq_nil_iff.mp hempty) d' this).symm
          · simp only [ev, if_false]
            by_cases e : d = d'
            · subst e
              simp only [if_true]
              rw [h.fwd_eq, hr]; simp [ev]
            · simp only [e, if_false]; exact h.fwd_eq v' d'
        · simp only [hempty, if_false]
          rw [AMap.get_set]
          by_cases ev : v = v'
          · subst ev
            simp only [if_true, Option.getD_some, LSet.mem_remove]
            by_cases e : d = d'
            · subst e; simp
            · simp only [e, if_false]
              have := h.fwd_eq v d'
              simp only [hf, Option.getD_some] at this
              rw [← this]
              constructor
              · exact fun x => x.2
              · exact fun x => ⟨fun e' => e e'.symm, x⟩
          · simp only [ev, if_false]
            by_cases e : d = d'
            · subst e
              simp only [if_true]
              rw [h.fwd_eq, hr]; simp [ev]
            · simp only [e, if_false]; exact h.fwd_eq v' d'
      · intro v' set'
        (try dsimp only)
        by_cases hempty : LSet.remove set d = []
        · simp only [hempty, if_true]
          rw [AMap.get_erase]
          by_cases ev : v = v'
          · simp [ev]
          · simp only [ev, if_false]; exact h.fwd_ne v' set'
        · simp only [hempty, if_false]
          rw [AMap.get_set]
          by_cases ev : v = v'
          · simp only [ev, if_true, Option.some.injEq]
            intro e; rw [← e]; exact hempty
          · simp only [ev, if_false]; exact h.fwd_ne v' set'
      · exact AMap.WF_erase h.wf_rev d
      · (try dsimp only)
        by_cases hempty : LSet.remove set d = []
        · simp only [hempty, if_true]; exact AMap.WF_erase h.wf_fwd v
        · simp only [hempty, if_false]; exact AMap.WF_set h.wf_fwd v _
      · exact AMap.WF_erase h.wf_t d
      · exact LSet.nodup_remove h.nd_ni d
      · intro v' set'
        (try dsimp only)
        by_cases hempty : LSet.remove set d = []
        · simp only [hempty, if_true]
          rw [AMap.get_erase]
          by_cases ev : v = v'
          · simp [ev]
          · simp only [ev, if_false]; exact h.nd_post v' set'
        · simp only [hempty, if_false]
          rw [AMap.get_set]
          by_cases ev : v = v'
          · simp only [ev, if_true, Option.some.injEq]
            intro e; rw [← e]; exact LSet.nodup_remove hnd d
          · simp only [ev, if_false]; exact h.nd_post v' set'
      · (try dsimp only)
        have := AMap.length_erase_of_get h.wf_rev hr
        rw [h.num]; omega

/-- `Inv` only looks at the table through `get`. -/
theorem Inv.congr {s : State V} {t t' : Table V} (h : Inv s t) (hwf : AMap.WF t')
    (hg : ∀ d, AMap.get t' d = AMap.get t d) : Inv s t' := by
  refine { h with wf_t := hwf, rev_eq := ?_, ni_eq := ?_ }
  · intro d; rw [h.rev_eq]; unfold valueOf; rw [hg]
  · intro d; rw [h.ni_eq, hg]

/-- the tail of `index_doc` on a document that is currently unknown -/
theorem insertDoc_inv {s : State V} {t : Table V} (h : Inv s t) (d : Int) (v : V)
    (hnone : AMap.get t d = none) : Inv (insertDoc s d v) (AMap.set t d (some v)) := by
  have hrev : AMap.get s.rev d = none := by rw [h.rev_eq]; simp [valueOf, hnone]
  have hnotin : d ∉ (AMap.get s.fwd v).getD [] := by
    intro hc; have := (h.fwd_eq v d).mp hc; rw [hrev] at this; cases this
  unfold insertDoc
  constructor
  · intro d'; (try dsimp only); rw [AMap.get_set, valueOf_set, h.rev_eq]
  · intro d'; (try dsimp only); rw [AMap.get_set, h.ni_eq]
    by_cases e : d = d'
    · subst e; simp [hnone]
    · simp [e]
  · intro v' d'
    (try dsimp only)
    rw [AMap.get_set, AMap.get_set]
    by_cases ev : v = v'
    · subst ev
      simp only [if_true, Option.getD_some, LSet.mem_insert]
      by_cases e : d = d'
      · subst e; simp
      · simp only [e, if_false]
        rw [← h.fwd_eq]
        constructor
        · rintro (h' | h')
          · exact absurd h'.symm e
          · exact h'
        · exact Or.inr
    · simp only [ev, if_false]
      by_cases e : d = d'
      · subst e
        simp only [if_true, Option.some.injEq, ev, iff_false]
        intro hc; have := (h.fwd_eq v' d).mp hc; rw [hrev] at this; cases this
      · simp only [e, if_false]; exact h.fwd_eq v' d'
  · intro v' set'
    (try dsimp only)
    rw [AMap.get_set]
    by_cases ev : v = v'
    · simp only [ev, if_true, Option.some.injEq]
      intro e; rw [← e]
      unfold LSet.insert; split <;> simp_all
    · simp only [ev, if_false]; exact h.fwd_ne v' set'
  · exact AMap.WF_set h.wf_rev d v
  · exact AMap.WF_set h.wf_fwd v _
  · exact AMap.WF_set h.wf_t d _
  · exact h.nd_ni
  · intro v' set'
    (try dsimp only)
    rw [AMap.get_set]
    by_cases ev : v = v'
    · simp only [ev, if_true, Option.some.injEq]
      intro e; rw [← e]
      apply LSet.nodup_insert
      subst ev
      cases hf : AMap.get s.fwd v with
      | none => exact List.nodup_nil
      | some st => exact h.nd_post v st hf
    · simp only [ev, if_false]; exact h.nd_post v' set'
  · (try dsimp only)
    have : AMap.erase s.rev d = s.rev := AMap.erase_of_get_none hrev
    unfold AMap.set; rw [this, h.num]; simp

/-- marking an unknown document as "seen, no value" -/
theorem markNotIndexed_inv {s : State V} {t : Table V} (h : Inv s t) (d : Int)
    (hnone : AMap.get t d = none) :
    Inv { s with notIndexed := LSet.insert s.notIndexed d } (AMap.set t d none) := by
  refine { h with wf_t := AMap.WF_set h.wf_t d _, rev_eq := ?_, ni_eq := ?_, nd_ni := ?_ }
  · intro d'; (try dsimp only); rw [valueOf_set, h.rev_eq]
    by_cases e : d = d'
    · subst e; simp [valueOf, hnone]
    · simp [e]
  · intro d'; (try dsimp only); rw [LSet.mem_insert, AMap.get_set, h.ni_eq]
    by_cases e : d = d'
    · subst e; simp
    · simp [e]; exact fun e' => absurd e'.symm e
  · exact LSet.nodup_insert h.nd_ni d

/-- dropping a document from the not-indexed set refines erasing a valueless document -/
theorem dropNotIndexed_inv {s : State V} {t : Table V} (h : Inv s t) (d : Int)
    (hv : valueOf t d = none) :
    Inv { s with notIndexed := LSet.remove s.notIndexed d } (AMap.erase t d) := by
  refine { h with wf_t := AMap.WF_erase h.wf_t d, rev_eq := ?_, ni_eq := ?_, nd_ni := ?_ }
  · intro d'; (try dsimp only); rw [valueOf_erase, h.rev_eq]
    by_cases e : d = d'
    · subst e; simp [hv]
    · simp [e]
  · intro d'; (try dsimp only); rw [LSet.mem_remove, AMap.get_erase, h.ni_eq]
    by_cases e : d = d'
    · subst e; simp
    · simp [e]; intro _; exact fun e' => e e'.symm
  · exact LSet.nodup_remove h.nd_ni d

theorem get_set_erase (t : Table V) (d : Int) (x : Option V) (d' : Int) :
    AMap.get (AMap.set (AMap.erase t d) d x) d' = AMap.get (AMap.set t d x) d' := by
  rw [AMap.get_set, AMap.get_set, AMap.get_erase]; split <;> simp_all

/-- `index_doc` / `reindex_doc` refine `t[d] := value`. -/
theorem indexDoc_inv {s : State V} {t : Table V} (h : Inv s t) (d : Int) (val : Option V) :
    Inv (indexDoc s d val) (AMap.set t d val) := by
  unfold indexDoc
  cases val with
  | none =>
    (try dsimp only)
    by_cases hin : d ∈ s.notIndexed
    · simp only [hin, if_true]
      have ht := (h.ni_eq d).mp hin
      apply h.congr (AMap.WF_set h.wf_t d _)
      intro d'; rw [AMap.get_set]; split
      · next e => subst e; exact ht.symm
      · rfl
    · simp only [hin, if_false]
      have h1 := unindexDoc_inv h d
      have h2 := markNotIndexed_inv h1 d (by rw [AMap.get_erase]; simp)
      exact h2.congr (AMap.WF_set h.wf_t d _) (fun d' => (get_set_erase t d none d').symm)
  | some v =>
    (try dsimp only)
    -- after `_not_indexed.remove(docid)`: the state represents the table without a valueless d
    have key : ∃ t1 : Table V, Inv { s with notIndexed := LSet.remove s.notIndexed d } t1 ∧
        (∀ d', AMap.get (AMap.set t1 d (some v)) d' = AMap.get (AMap.set t d (some v)) d') ∧
        valueOf t1 d = valueOf t d ∧ (valueOf t d = none → AMap.get t1 d = none) := by
      by_cases hin : d ∈ s.notIndexed
      · have ht := (h.ni_eq d).mp hin
        refine ⟨AMap.erase t d, dropNotIndexed_inv h d (by simp [valueOf, ht]), ?_, ?_, ?_⟩
        · intro d'; exact get_set_erase t d _ d'
        · rw [valueOf_erase]; simp [valueOf, ht]
        · intro _; rw [AMap.get_erase]; simp
      · refine ⟨t, ?_, fun _ => rfl, rfl, ?_⟩
        · rw [LSet.remove_of_not_mem hin]; exact h
        · intro hv
          cases hg : AMap.get t d with
          | none => rfl
          | some x =>
            cases x with
            | none => exact absurd ((h.ni_eq d).mpr hg) hin
            | some w => simp [valueOf, hg] at hv
    obtain ⟨t1, h1, hg, hval, hnone⟩ := key
    have hwf := AMap.WF_set h.wf_t d (some v)
    cases hr : AMap.get s.rev d with
    | none =>
      simp only [hr]
      have : valueOf t d = none := by rw [← h.rev_eq, hr]
      exact (insertDoc_inv h1 d v (hnone this)).congr hwf (fun d' => (hg d').symm)
    | some w =>
      simp only [hr]
      by_cases hmem : d ∈ (AMap.get s.fwd v).getD []
      · simp only [hmem, if_true]
        have hwv : AMap.get s.rev d = some v := (h.fwd_eq v d).mp hmem
        have hv1 : valueOf t1 d = some v := by rw [hval, ← h.rev_eq, hwv]
        apply h1.congr hwf
        intro d'
        rw [← hg, AMap.get_set]
        split
        · next e =>
          subst e
          unfold valueOf at hv1
          cases hg1 : AMap.get t1 d with
          | none => simp [hg1] at hv1
          | some x => simp [hg1] at hv1; rw [hv1]
        · rfl
      · simp only [hmem, if_false]
        have h2 := unindexDoc_inv h1 d
        have h3 := insertDoc_inv h2 d v (by rw [AMap.get_erase]; simp)
        apply h3.congr hwf
        intro d'; rw [get_set_erase, hg]

/-- **Refinement**: after any history the index represents the history's document table. -/
theorem run_inv (hist : List (Op V)) : Inv (run hist) (table hist) := by
  unfold run table
  suffices ∀ (s : State V) (t : Table V), Inv s t →
      Inv (hist.foldl step s) (hist.foldl stepT t) from this _ _ inv_init
  induction hist with
  | nil => intro s t h; exact h
  | cons op ops ih =>
    intro s t h
    simp only [List.foldl_cons]
    apply ih
    cases op with
    | index d v => exact indexDoc_inv h d v
    | unindex d => exact unindexDoc_inv h d
    | reset => exact inv_init

end Hyp.Field
