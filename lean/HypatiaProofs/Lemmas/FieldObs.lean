import HypatiaProofs.Lemmas.FieldQuery

set_option linter.unusedSectionVars false
set_option linter.unusedSimpArgs false
namespace Hyp.Field
open Hyp Hyp.Field.Spec

variable {V : Type} [DecidableEq V] [LT V] [DecidableLT V] [LE V] [DecidableLE V]

theorem length_eq_of_nodup_of_mem_iff {α : Type} [DecidableEq α] {a b : List α} (ha : a.Nodup) (hb : b.Nodup)
    (h : ∀ x, x ∈ a ↔ x ∈ b) : a.length = b.length :=
  ((List.perm_ext_iff_of_nodup ha hb).mpr h).length_eq

theorem nodup_docids {s : State V} {t : Table V} (h : Inv s t) : (docids s).Nodup := by
  have hi : (indexed s).Nodup := h.wf_rev
  unfold docids
  split
  · exact hi
  · split
    · exact h.nd_ni
    · exact LSet.nodup_union h.nd_ni _

theorem mem_uniqueValues {s : State V} {t : Table V} (h : Inv s t) (v : V) :
    v ∈ uniqueValues s ↔ ∃ d, valueOf t d = some v := by
  unfold uniqueValues
  rw [AMap.mem_keys_iff]
  constructor
  · intro hs
    cases hg : AMap.get s.fwd v with
    | none => simp [hg] at hs
    | some st =>
      have hne := h.fwd_ne v st hg
      cases st with
      | nil => exact absurd rfl hne
      | cons d ds =>
        have : d ∈ (AMap.get s.fwd v).getD [] := by simp [hg]
        have := (h.fwd_eq v d).mp this
        exact ⟨d, by rw [← h.rev_eq]; exact this⟩
  · rintro ⟨d, hd⟩
    have hr : AMap.get s.rev d = some v := by rw [h.rev_eq]; exact hd
    have := (h.fwd_eq v d).mpr hr
    cases hg : AMap.get s.fwd v with
    | none => simp [hg] at this
    | some st => rfl

/-- Everything the enumeration / statistics API reports, as a function of the document table. -/
structure ObsSpec (s : State V) (t : Table V) : Prop where
  indexed_mem : ∀ d, d ∈ indexed s ↔ (valueOf t d).isSome = true
  not_indexed_mem : ∀ d, d ∈ s.notIndexed ↔ AMap.get t d = some none
  docids_mem : ∀ d, d ∈ docids s ↔ (AMap.get t d).isSome = true
  disjoint : ∀ d, ¬ (d ∈ indexed s ∧ d ∈ s.notIndexed)
  docids_union : ∀ d, d ∈ docids s ↔ d ∈ indexed s ∨ d ∈ s.notIndexed
  indexed_count : indexedCount s = (indexed s).length ∧ (indexed s).Nodup
  not_indexed_count : notIndexedCount s = s.notIndexed.length ∧ s.notIndexed.Nodup
  docids_count : (docids s).Nodup
  word_count : wordCount s = (uniqueValues s).length ∧ (uniqueValues s).Nodup
  unique_values_mem : ∀ v, v ∈ uniqueValues s ↔ ∃ d, valueOf t d = some v
  document_repr : ∀ d, documentRepr s d = valueOf t d

theorem obsSpec_of_inv {s : State V} {t : Table V} (h : Inv s t) : ObsSpec s t where
  indexed_mem := mem_indexed h
  not_indexed_mem := h.ni_eq
  docids_mem := by intro d; rw [mem_docids h]; unfold known; rw [AMap.mem_keys_iff]
  disjoint := by
    rintro d ⟨h1, h2⟩
    have a := (mem_indexed h d).mp h1
    have b := (h.ni_eq d).mp h2
    simp [valueOf, b] at a
  docids_union := by
    intro d
    rw [mem_docids h, mem_indexed h, h.ni_eq]
    unfold known valueOf
    rw [AMap.mem_keys_iff]
    cases hg : AMap.get t d with
    | none => simp
    | some x => cases x <;> simp
  indexed_count := ⟨by unfold indexedCount indexed; rw [h.num, AMap.length_keys], h.wf_rev⟩
  not_indexed_count := ⟨rfl, h.nd_ni⟩
  docids_count := nodup_docids h
  word_count := ⟨by unfold wordCount uniqueValues; rw [AMap.length_keys], h.wf_fwd⟩
  unique_values_mem := mem_uniqueValues h
  document_repr := by intro d; unfold documentRepr; exact h.rev_eq d

/-- two index states are observationally equal through the enumeration/statistics API -/
structure ObsEq (s s' : State V) : Prop where
  indexed_eq : ∀ d, d ∈ indexed s ↔ d ∈ indexed s'
  not_indexed_eq : ∀ d, d ∈ s.notIndexed ↔ d ∈ s'.notIndexed
  docids_eq : ∀ d, d ∈ docids s ↔ d ∈ docids s'
  indexed_count_eq : indexedCount s = indexedCount s'
  not_indexed_count_eq : notIndexedCount s = notIndexedCount s'
  docids_count_eq : (docids s).length = (docids s').length
  word_count_eq : wordCount s = wordCount s'
  unique_values_eq : ∀ v, v ∈ uniqueValues s ↔ v ∈ uniqueValues s'
  document_repr_eq : ∀ d, documentRepr s d = documentRepr s' d

theorem valueOf_congr {t t' : Table V} (hg : ∀ d, AMap.get t d = AMap.get t' d) (d : Int) :
    valueOf t d = valueOf t' d := by unfold valueOf; rw [hg]

/-- states that represent (get-)equal tables are observationally equal -/
theorem obsEq_of_inv {s s' : State V} {t t' : Table V} (h : Inv s t) (h' : Inv s' t')
    (hg : ∀ d, AMap.get t d = AMap.get t' d) : ObsEq s s' := by
  have o := obsSpec_of_inv h
  have o' := obsSpec_of_inv h'
  have hi : ∀ d, d ∈ indexed s ↔ d ∈ indexed s' := by
    intro d; rw [o.indexed_mem, o'.indexed_mem, valueOf_congr hg]
  have hn : ∀ d, d ∈ s.notIndexed ↔ d ∈ s'.notIndexed := by
    intro d; rw [o.not_indexed_mem, o'.not_indexed_mem, hg]
  have hd : ∀ d, d ∈ docids s ↔ d ∈ docids s' := by
    intro d; rw [o.docids_mem, o'.docids_mem, hg]
  have hu : ∀ v, v ∈ uniqueValues s ↔ v ∈ uniqueValues s' := by
    intro v; rw [o.unique_values_mem, o'.unique_values_mem]
    constructor <;> rintro ⟨d, hd'⟩
    · exact ⟨d, by rw [← valueOf_congr hg]; exact hd'⟩
    · exact ⟨d, by rw [valueOf_congr hg]; exact hd'⟩
  refine ⟨hi, hn, hd, ?_, ?_, ?_, ?_, hu, ?_⟩
  · rw [o.indexed_count.1, o'.indexed_count.1]
    exact congrArg _ (length_eq_of_nodup_of_mem_iff o.indexed_count.2 o'.indexed_count.2 hi)
  · rw [o.not_indexed_count.1, o'.not_indexed_count.1]
    exact length_eq_of_nodup_of_mem_iff o.not_indexed_count.2 o'.not_indexed_count.2 hn
  · exact length_eq_of_nodup_of_mem_iff o.docids_count o'.docids_count hd
  · rw [o.word_count.1, o'.word_count.1]
    exact length_eq_of_nodup_of_mem_iff o.word_count.2 o'.word_count.2 hu
  · intro d; rw [o.document_repr, o'.document_repr, valueOf_congr hg]

/-- a fresh index built by indexing the current docid ↦ value mapping once -/
def freshOps (t : Table V) : List (Op V) := t.map (fun p => Op.index p.1 p.2)

theorem get_foldl_freshOps (t acc : Table V) (d : Int) (hwf : AMap.WF t)
    (hdis : ∀ k, k ∈ AMap.keys t → AMap.get acc k = none) :
    AMap.get ((freshOps t).foldl stepT acc) d =
      match AMap.get t d with
      | some x => some x
      | none => AMap.get acc d := by
  induction t generalizing acc with
  | nil => simp [freshOps]
  | cons p ps ih =>
    obtain ⟨k, x⟩ := p
    unfold AMap.WF AMap.keys at hwf
    simp only [List.map_cons, List.nodup_cons] at hwf
    simp only [freshOps, List.map_cons, List.foldl_cons, stepT]
    have := ih (AMap.set acc k x) hwf.2 (by
      intro k' hk'
      rw [AMap.get_set]
      have : k ≠ k' := by intro e; subst e; exact hwf.1 hk'
      simp only [this, if_false]
      exact hdis k' (by simp [AMap.keys]; exact Or.inr (by simpa [AMap.keys] using hk')))
    unfold freshOps at this
    rw [this, AMap.get_cons]
    by_cases e : k = d
    · subst e
      have : AMap.get ps k = none := (AMap.not_mem_keys_iff ps k).mp hwf.1
      simp [this, AMap.get_set]
    · simp only [e, if_false]
      cases AMap.get ps d with
      | some y => rfl
      | none => simp [AMap.get_set, e]

theorem table_freshOps (t : Table V) (hwf : AMap.WF t) (d : Int) :
    AMap.get (table (freshOps t)) d = AMap.get t d := by
  unfold table
  rw [get_foldl_freshOps t [] d hwf (by simp)]
  cases AMap.get t d <;> simp

end Hyp.Field
