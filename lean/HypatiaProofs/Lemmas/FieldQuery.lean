import HypatiaProofs.Lemmas.Field
import HypatiaModel.Prim.Order

set_option linter.unusedSectionVars false
set_option linter.unusedSimpArgs false
namespace Hyp.Field
open Hyp Hyp.Field.Spec

variable {V : Type} [DecidableEq V] [LT V] [DecidableLT V] [LE V] [DecidableLE V]

theorem mem_foldl_union (sets : List (List Int)) (acc : List Int) (d : Int) :
    d ∈ sets.foldl LSet.union acc ↔ d ∈ acc ∨ ∃ s ∈ sets, d ∈ s := by
  induction sets generalizing acc with
  | nil => simp
  | cons x xs ih =>
    simp only [List.foldl_cons, ih, LSet.mem_union, List.mem_cons]
    constructor
    · rintro ((h | h) | ⟨s, hs, hd⟩)
      · exact Or.inl h
      · exact Or.inr ⟨x, Or.inl rfl, h⟩
      · exact Or.inr ⟨s, Or.inr hs, hd⟩
    · rintro (h | ⟨s, hs | hs, hd⟩)
      · exact Or.inl (Or.inl h)
      · subst hs; exact Or.inl (Or.inr hd)
      · exact Or.inr ⟨s, hs, hd⟩

theorem mem_multiunion (sets : List (List Int)) (d : Int) :
    d ∈ multiunion sets ↔ ∃ s ∈ sets, d ∈ s := by
  unfold multiunion; rw [mem_foldl_union]; simp

theorem nodup_foldl_union (sets : List (List Int)) (acc : List Int) (h : acc.Nodup) :
    (sets.foldl LSet.union acc).Nodup := by
  induction sets generalizing acc with
  | nil => simpa
  | cons x xs ih => exact ih _ (LSet.nodup_union h x)

theorem nodup_multiunion (sets : List (List Int)) : (multiunion sets).Nodup :=
  nodup_foldl_union sets [] List.nodup_nil

/-- membership in the spec's comprehension -/
theorem mem_sat (t : Table V) (p : V → Bool) (d : Int) :
    d ∈ sat t p ↔ ∃ v, valueOf t d = some v ∧ p v = true := by
  unfold sat known
  rw [List.mem_filter]
  constructor
  · rintro ⟨_, h⟩
    cases hv : valueOf t d with
    | none => simp [hv] at h
    | some v => simp [hv] at h; exact ⟨v, rfl, h⟩
  · rintro ⟨v, hv, hp⟩
    refine ⟨?_, by simp [hv, hp]⟩
    rw [AMap.mem_keys_iff]
    unfold valueOf at hv
    cases hg : AMap.get t d with
    | none => simp [hg] at hv
    | some x => simp

theorem mem_valuesInRange {s : State V} {t : Table V} (h : Inv s t)
    (lo hi : Option V) (exlo exhi : Bool) (d : Int) :
    (∃ st ∈ valuesInRange s lo hi exlo exhi, d ∈ st) ↔
      ∃ v, valueOf t d = some v ∧ (inLo lo exlo v && inHi hi exhi v) = true := by
  unfold valuesInRange
  constructor
  · rintro ⟨st, hst, hd⟩
    obtain ⟨⟨k, st'⟩, hp, rfl⟩ := List.mem_map.mp hst
    obtain ⟨hmem, hrange⟩ := List.mem_filter.mp hp
    have hg := AMap.get_of_mem h.wf_fwd hmem
    have : d ∈ (AMap.get s.fwd k).getD [] := by simpa [hg] using hd
    have hr := (h.fwd_eq k d).mp this
    exact ⟨k, by rw [← h.rev_eq, hr], hrange⟩
  · rintro ⟨v, hv, hrange⟩
    have hr : AMap.get s.rev d = some v := by rw [h.rev_eq, hv]
    have hd := (h.fwd_eq v d).mpr hr
    cases hg : AMap.get s.fwd v with
    | none => simp [hg] at hd
    | some st =>
      simp only [hg, Option.getD_some] at hd
      exact ⟨st, List.mem_map.mpr ⟨(v, st), List.mem_filter.mpr ⟨AMap.mem_of_get hg, hrange⟩, rfl⟩, hd⟩

theorem mem_applyInRange {s : State V} {t : Table V} (h : Inv s t)
    (lo hi : Option V) (exlo exhi : Bool) (d : Int) :
    d ∈ applyInRange s lo hi exlo exhi ↔ d ∈ inRange t lo hi exlo exhi := by
  unfold applyInRange inRange
  rw [mem_multiunion, mem_sat, mem_valuesInRange h]

theorem point_range (o : OrdLaws V) (q k : V) :
    (inLo (some q) false k && inHi (some q) false k) = true ↔ k = q := by
  simp only [inLo, inHi, Bool.false_eq_true, if_false, Bool.and_eq_true, decide_eq_true_eq]
  constructor
  · rintro ⟨h1, h2⟩; exact o.le_antisymm k q h2 h1
  · rintro rfl; exact ⟨o.le_refl _, o.le_refl _⟩

theorem mem_searchOr {s : State V} {t : Table V} (h : Inv s t) (o : OrdLaws V)
    (qs : List V) (d : Int) :
    d ∈ searchOr s qs ↔ d ∈ any t qs := by
  have one : ∀ q, d ∈ multiunion (valuesInRange s (some q) (some q) false false) ↔
      valueOf t d = some q := by
    intro q
    rw [mem_multiunion, mem_valuesInRange h]
    constructor
    · rintro ⟨v, hv, hr⟩; rw [(point_range o q v).mp hr] at hv; exact hv
    · intro hv; exact ⟨q, hv, (point_range o q q).mpr rfl⟩
  have general : d ∈ multiunion (qs.map fun q => multiunion (valuesInRange s (some q) (some q) false false))
      ↔ d ∈ any t qs := by
    unfold any
    rw [mem_multiunion, mem_sat]
    constructor
    · rintro ⟨st, hst, hd⟩
      obtain ⟨q, hq, rfl⟩ := List.mem_map.mp hst
      exact ⟨q, (one q).mp hd, by simpa using hq⟩
    · rintro ⟨v, hv, hp⟩
      have hq : v ∈ qs := by simpa using hp
      exact ⟨_, List.mem_map.mpr ⟨v, hq, rfl⟩, (one v).mpr hv⟩
  unfold searchOr
  match qs, general with
  | [], g => simpa using g
  | [q], g =>
    rw [← g, mem_multiunion]; simp
  | q1 :: q2 :: rest, g => simpa using g

theorem mem_indexed {s : State V} {t : Table V} (h : Inv s t) (d : Int) :
    d ∈ indexed s ↔ (valueOf t d).isSome := by
  unfold indexed; rw [AMap.mem_keys_iff, h.rev_eq]

theorem mem_docids {s : State V} {t : Table V} (h : Inv s t) (d : Int) :
    d ∈ docids s ↔ d ∈ known t := by
  have hk : d ∈ known t ↔ d ∈ s.notIndexed ∨ d ∈ indexed s := by
    unfold known
    rw [AMap.mem_keys_iff, mem_indexed h, h.ni_eq]
    unfold valueOf
    cases hg : AMap.get t d with
    | none => simp
    | some x => cases x <;> simp
  rw [hk]
  unfold docids
  split
  · next h0 =>
    have : s.notIndexed = [] := List.eq_nil_of_length_eq_zero h0
    simp [this]
  · split
    · next _ h1 =>
      have : indexed s = [] := List.eq_nil_of_length_eq_zero h1
      simp [this]
    · rw [LSet.mem_union]

theorem mem_negate {s : State V} {t : Table V} (h : Inv s t) (pos : List Int) (d : Int) :
    d ∈ negate s pos ↔ d ∈ neg t pos := by
  unfold negate neg
  rw [List.mem_filter]
  split
  · next h0 =>
    have : pos = [] := List.eq_nil_of_length_eq_zero h0
    simp [this, mem_docids h]
  · rw [LSet.mem_diff, mem_docids h]; simp

theorem mem_neg_congr (t : Table V) (a b : List Int) (hab : ∀ d, d ∈ a ↔ d ∈ b) (d : Int) :
    d ∈ neg t a ↔ d ∈ neg t b := by
  unfold neg; simp [List.mem_filter, hab]

end Hyp.Field
