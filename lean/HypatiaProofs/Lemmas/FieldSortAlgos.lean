import HypatiaProofs.Lemmas.FieldSortLoops
import HypatiaProofs.Lemmas.Field
import HypatiaModel.Spec.SortSpec

/-!
Canonical form of each algorithm of `FieldIndex.sort` on a state that represents a document table
(`Inv s t`): the generator yields the first `limit` elements of a list `srt` that is a permutation of
the sortable requested ids and ordered by value (`Canon`).  For `_timsort`, `srt` is the stable sort.
-/
set_option linter.unusedSectionVars false
set_option linter.unusedSimpArgs false
set_option linter.unusedVariables false
namespace Hyp.Field
open Hyp Hyp.Sort Hyp.Field.Spec

variable {V : Type} [DecidableEq V] [LT V] [DecidableLT V] [LE V] [DecidableLE V]

/-- what every algorithm computes -/
def Canon (t : Table V) (docids : List Int) (rev : Bool) (limit : Option Nat) (raiseU : Bool)
    (g : Gen) : Prop :=
  ∃ srt : List Int, srt.Perm (sortables t docids) ∧ srt.Pairwise (keyLe t rev) ∧
    g.ids = takeL limit srt ∧ g.raised.isSome = shouldRaise t docids limit raiseU

theorem sortable_eq {s : State V} {t : Table V} (h : Inv s t) (d : Int) :
    sortable t d = (AMap.get s.rev d).isSome := by
  unfold sortable; rw [h.rev_eq]

theorem sortables_eq {s : State V} {t : Table V} (h : Inv s t) (docids : List Int) :
    sortables t docids = docids.filter (fun d => (AMap.get s.rev d).isSome) := by
  unfold sortables
  exact List.filter_congr (fun d _ => sortable_eq h d)

theorem missing_eq {s : State V} {t : Table V} (h : Inv s t) (docids : List Int) :
    missing t docids = docids.filter (fun d => (AMap.get s.rev d).isNone) := by
  unfold missing
  exact List.filter_congr (fun d _ => by rw [sortable_eq h d]; simp)

theorem stableSort_eq (t : Table V) (rev : Bool) (docids : List Int) :
    stableSort t rev docids = isort (keyLeB t rev) (sortables t docids) := by
  unfold stableSort
  exact isort_decorate (valueOf t) (optLe rev) _

theorem sortedByKey_eq {α β : Type} (lt : β → β → Bool) (f : α → β) (xs : List α) :
    sortedByKey lt f xs = isort (fun a b => !lt (f b) (f a)) xs := by
  unfold sortedByKey sortedPy
  exact isort_decorate f (fun u v => !lt v u) xs

theorem sortedByKeyRev_eq {α β : Type} (lt : β → β → Bool) (f : α → β) (xs : List α) :
    sortedByKeyRev lt f xs = isort (fun a b => !lt (f a) (f b)) xs := by
  unfold sortedByKeyRev sortedPyRev
  exact isort_decorate f (fun u v => !lt u v) xs

theorem filled_shouldRaise (t : Table V) (docids : List Int) (limit : Option Nat) (raiseU : Bool) :
    (!filled limit (sortables t docids).length && raiseU && !(missing t docids).isEmpty) =
      shouldRaise t docids limit raiseU := by
  unfold shouldRaise filled
  cases limit with
  | none => cases raiseU <;> simp
  | some L =>
    by_cases h : L ≤ (sortables t docids).length
    · have : ¬ (sortables t docids).length < L := by omega
      cases raiseU <;> simp [h, this]
    · have : (sortables t docids).length < L := by omega
      cases raiseU <;> simp [h, this]

/-! ## forward scan -/

theorem mem_fwdFlat {s : State V} {t : Table V} (h : Inv s t) (d : Int) :
    d ∈ fwdFlat s ↔ (AMap.get s.rev d).isSome = true := by
  unfold fwdFlat sortedPy
  rw [List.mem_flatMap]
  constructor
  · rintro ⟨⟨v, set⟩, hp, hd⟩
    have hp' := (mem_isort _ _ _).mp hp
    have hd' : d ∈ set := (mem_isort _ _ _).mp hd
    have hg := AMap.get_of_mem h.wf_fwd hp'
    have := (h.fwd_eq v d).mp (by rw [hg]; exact hd')
    rw [this]; rfl
  · intro hs
    cases hr : AMap.get s.rev d with
    | none => rw [hr] at hs; cases hs
    | some v =>
      have hm := (h.fwd_eq v d).mpr hr
      cases hf : AMap.get s.fwd v with
      | none => rw [hf] at hm; cases hm
      | some set =>
        rw [hf] at hm
        exact ⟨(v, set), (mem_isort _ _ _).mpr (AMap.mem_of_get hf), (mem_isort _ _ _).mpr hm⟩

theorem fwd_entry_value {s : State V} {t : Table V} (h : Inv s t) {p : V × List Int} (hp : p ∈ s.fwd)
    {d : Int} (hd : d ∈ p.2) : AMap.get s.rev d = some p.1 := by
  obtain ⟨v, set⟩ := p
  have hg := AMap.get_of_mem h.wf_fwd hp
  exact (h.fwd_eq v d).mp (by rw [hg]; exact hd)

theorem fwd_keys_distinct {s : State V} {t : Table V} (h : Inv s t) :
    s.fwd.Pairwise (fun a b => a.1 ≠ b.1) := by
  have := h.wf_fwd
  unfold AMap.WF AMap.keys at this
  exact List.pairwise_map.mp this

theorem nodup_fwdFlat {s : State V} {t : Table V} (h : Inv s t) : (fwdFlat s).Nodup := by
  unfold fwdFlat sortedPy
  rw [List.nodup_iff_pairwise_ne, List.pairwise_flatMap]
  constructor
  · intro p hp
    have hp' := (mem_isort _ _ _).mp hp
    obtain ⟨v, set⟩ := p
    have hnd := h.nd_post v set (AMap.get_of_mem h.wf_fwd hp')
    exact List.nodup_iff_pairwise_ne.mp ((isort_perm _ set).nodup_iff.mpr hnd)
  · have hk : (isort (fun (x y : V × List Int) => !decide (y.1 < x.1)) s.fwd).Pairwise
        (fun a b => a.1 ≠ b.1) :=
      ((isort_perm _ s.fwd).pairwise_iff (fun {x y} (hxy : x.1 ≠ y.1) => Ne.symm hxy)).mpr
        (fwd_keys_distinct h)
    refine List.Pairwise.imp_of_mem ?_ hk
    intro a b ha hb hab x hx y hy hxy
    subst hxy
    have ha' := (mem_isort _ _ _).mp ha
    have hb' := (mem_isort _ _ _).mp hb
    have e1 := fwd_entry_value h ha' ((mem_isort _ _ _).mp hx)
    have e2 := fwd_entry_value h hb' ((mem_isort _ _ _).mp hy)
    rw [e1] at e2
    exact hab (Option.some.inj e2)

theorem sorted_fwdFlat (o : OrdLaws V) {s : State V} {t : Table V} (h : Inv s t) :
    (fwdFlat s).Pairwise (keyLe t false) := by
  unfold fwdFlat sortedPy
  rw [List.pairwise_flatMap]
  constructor
  · intro p hp
    have hp' := (mem_isort _ _ _).mp hp
    refine List.Pairwise.imp_of_mem ?_ (List.pairwise_of_forall (l := isort _ p.2) (R := fun _ _ => True) (fun _ _ => trivial))
    intro a b ha hb _ va vb hva hvb
    have e1 := fwd_entry_value h hp' ((mem_isort _ _ _).mp ha)
    have e2 := fwd_entry_value h hp' ((mem_isort _ _ _).mp hb)
    rw [← h.rev_eq, e1] at hva
    rw [← h.rev_eq, e2] at hvb
    have : va = vb := by rw [← Option.some.inj hva, ← Option.some.inj hvb]
    subst this
    simp only [Bool.false_eq_true, if_false]
    exact o.le_refl _
  · have hs := isort_sorted ((strictLin_val o).weak.pullback (fun p : V × List Int => p.1)).tp s.fwd
    refine List.Pairwise.imp_of_mem ?_ hs
    intro a b ha hb hab x hx y hy va vb hva hvb
    have ha' := (mem_isort _ _ _).mp ha
    have hb' := (mem_isort _ _ _).mp hb
    have e1 := fwd_entry_value h ha' ((mem_isort _ _ _).mp hx)
    have e2 := fwd_entry_value h hb' ((mem_isort _ _ _).mp hy)
    rw [← h.rev_eq, e1] at hva
    rw [← h.rev_eq, e2] at hvb
    have e1' := Option.some.inj hva
    have e2' := Option.some.inj hvb
    simp only [Bool.false_eq_true, if_false]
    rw [← e1', ← e2']
    simp only [Bool.not_eq_eq_eq_not, Bool.not_true, decide_eq_false_iff_not] at hab
    exact (o.not_lt _ _).mp hab

theorem scanForward_canon (o : OrdLaws V) {s : State V} {t : Table V} (h : Inv s t)
    (docids : List Int) (hnd : docids.Nodup) (limit : Option Nat) (hlim : limit ≠ some 0)
    (raiseU : Bool) : Canon t docids false limit raiseU (scanForward s docids limit raiseU) := by
  let srt := (fwdFlat s).filter (fun x => decide (x ∈ docids))
  have hrem : docids.filter (fun x => !decide (x ∈ fwdFlat s)) = missing t docids := by
    rw [missing_eq h]
    apply List.filter_congr
    intro d _
    by_cases hd : d ∈ fwdFlat s
    · have := (mem_fwdFlat h d).mp hd
      cases hg : AMap.get s.rev d <;> simp_all
    · have : ¬ (AMap.get s.rev d).isSome = true := fun e => hd ((mem_fwdFlat h d).mpr e)
      cases hg : AMap.get s.rev d <;> simp_all
  have hperm : srt.Perm (sortables t docids) := by
    rw [List.perm_ext_iff_of_nodup ((nodup_fwdFlat h).filter _)
      (by unfold sortables; exact hnd.filter _)]
    intro d
    rw [sortables_eq h]
    simp only [srt, List.mem_filter, decide_eq_true_eq, mem_fwdFlat h]
    exact And.comm
  have hlen : srt.length = (sortables t docids).length := hperm.length_eq
  refine ⟨srt, hperm, (sorted_fwdFlat o h).sublist List.filter_sublist, ?_, ?_⟩
  · unfold scanForward
    cases limit with
    | none => rw [scanLoop_none _ (nodup_fwdFlat h)]; rfl
    | some L =>
      have hL : L ≠ 0 := fun e => hlim (by rw [e])
      exact (scanLoop_some hL _ (nodup_fwdFlat h) docids 0 (by omega)).1
  · rw [← filled_shouldRaise, ← hlen]
    unfold scanForward
    cases limit with
    | none =>
      rw [scanLoop_none _ (nodup_fwdFlat h)]
      simp only [hrem, filled, Bool.not_false, Bool.true_and]
      cases raiseU <;> cases (missing t docids).isEmpty <;> simp
    | some L =>
      have hL : L ≠ 0 := fun e => hlim (by rw [e])
      obtain ⟨_, i2, i3⟩ := scanLoop_some hL _ (nodup_fwdFlat h) docids 0 (by omega)
      simp only [filled, Nat.sub_zero] at i2 ⊢
      cases hret : (scanLoop (some L) (fwdFlat s) docids 0).2.2 with
      | true =>
        rw [hret] at i2
        have hle : L ≤ srt.length := of_decide_eq_true i2.symm
        simp [hle]
      | false =>
        rw [hret] at i2
        rw [i3 hret, hrem, ← i2]
        cases raiseU <;> cases (missing t docids).isEmpty <;> simp

/-! ## timsort -/

/-- the comparison `sorted(docids, key=get, reverse=…)` performs, as "may stay in front" -/
def timLe (s : State V) (reverse : Bool) (a b : Int) : Bool :=
  if reverse then !ltAsc (AMap.get s.rev a) (AMap.get s.rev b)
  else !ltAsc (AMap.get s.rev b) (AMap.get s.rev a)

theorem timLe_tp (o : OrdLaws V) (s : State V) (reverse : Bool) : TotalPreorder (timLe s reverse) := by
  have hw := (strictLin_ltAsc (V := V) o).weak.pullback (fun d : Int => AMap.get s.rev d)
  cases reverse with
  | false => exact hw.tp
  | true => exact hw.tpRev

theorem timLe_eq_keyLeB (o : OrdLaws V) {s : State V} {t : Table V} (h : Inv s t) (reverse : Bool)
    (a b : Int) (ha : sortable t a = true) (hb : sortable t b = true) :
    timLe s reverse a b = keyLeB t reverse a b := by
  unfold timLe keyLeB optLe
  rw [← h.rev_eq, ← h.rev_eq]
  rw [sortable_eq h] at ha hb
  cases hga : AMap.get s.rev a with
  | none => rw [hga] at ha; cases ha
  | some va =>
    cases hgb : AMap.get s.rev b with
    | none => rw [hgb] at hb; cases hb
    | some vb =>
      cases reverse with
      | false =>
        simp only [ltAsc, Bool.false_eq_true, if_false]
        by_cases hle : va ≤ vb
        · have : ¬ vb < va := (o.not_lt _ _).mpr hle
          simp [hle, this]
        · have : vb < va := (o.not_le _ _).mp hle
          simp [hle, this]
      | true =>
        simp only [ltAsc, if_true]
        by_cases hle : vb ≤ va
        · have : ¬ va < vb := (o.not_lt _ _).mpr hle
          simp [hle, this]
        · have : va < vb := (o.not_le _ _).mp hle
          simp [hle, this]

theorem timLe_keyLe (o : OrdLaws V) {s : State V} {t : Table V} (h : Inv s t) (reverse : Bool)
    (a b : Int) (hab : timLe s reverse a b = true) : keyLe t reverse a b := by
  intro va vb hva hvb
  unfold timLe at hab
  rw [← h.rev_eq] at hva hvb
  rw [hva, hvb] at hab
  cases reverse with
  | false =>
    simp only [Bool.false_eq_true, if_false, ltAsc, Bool.not_eq_eq_eq_not, Bool.not_true,
      decide_eq_false_iff_not] at hab ⊢
    exact (o.not_lt _ _).mp hab
  | true =>
    simp only [if_true, ltAsc, Bool.not_eq_eq_eq_not, Bool.not_true, decide_eq_false_iff_not] at hab ⊢
    exact (o.not_lt _ _).mp hab

/-- the sorted list `_timsort` walks, without the ids it skips, is the specification's stable sort -/
theorem timsort_sorted_eq (o : OrdLaws V) {s : State V} {t : Table V} (h : Inv s t)
    (docids : List Int) (reverse : Bool) :
    (isort (timLe s reverse) docids).filter (fun d => sortable t d) = stableSort t reverse docids := by
  rw [filter_isort (timLe_tp o s reverse), stableSort_eq]
  apply isort_congr
  intro a ha b hb
  exact timLe_eq_keyLeB o h reverse a b (List.mem_filter.mp ha).2 (List.mem_filter.mp hb).2

theorem timsort_ids (o : OrdLaws V) {s : State V} {t : Table V} (h : Inv s t)
    (docids : List Int) (limit : Option Nat) (hlim : limit ≠ some 0) (reverse raiseU : Bool) :
    (timsort s docids limit reverse raiseU).ids = takeL limit (stableSort t reverse docids) ∧
    (timsort s docids limit reverse raiseU).raised.isSome = shouldRaise t docids limit raiseU := by
  have hsorted : (if reverse then sortedByKeyRev ltAsc (fun d => AMap.get s.rev d) docids
      else sortedByKey ltAsc (fun d => AMap.get s.rev d) docids)
      = isort (timLe s reverse) docids := by
    cases reverse
    · simp only [Bool.false_eq_true, if_false, sortedByKey_eq]; rfl
    · simp only [if_true, sortedByKeyRev_eq]; rfl
  have hfilter : (isort (timLe s reverse) docids).filter
      (fun d => !decide (d ∈ docids.filter (fun d => (AMap.get s.rev d).isNone)))
      = stableSort t reverse docids := by
    rw [← timsort_sorted_eq o h]
    apply List.filter_congr
    intro d hd
    have hd' : d ∈ docids := (mem_isort _ _ _).mp hd
    rw [sortable_eq h]
    cases hg : AMap.get s.rev d <;> simp [hd', hg]
  have hlen : (stableSort t reverse docids).length = (sortables t docids).length := by
    rw [stableSort_eq]; exact length_isort _ _
  unfold timsort
  simp only [hsorted]
  constructor
  · rw [timLoop_eq limit hlim, hfilter]
  · rw [timReturned_eq limit hlim, hfilter, hlen, ← missing_eq h, ← filled_shouldRaise]
    cases filled limit (sortables t docids).length <;> cases raiseU <;>
      cases (missing t docids).isEmpty <;> simp

theorem stableSort_perm (t : Table V) (reverse : Bool) (docids : List Int) :
    (stableSort t reverse docids).Perm (sortables t docids) := by
  rw [stableSort_eq]; exact isort_perm _ _

theorem stableSort_sorted (o : OrdLaws V) {s : State V} {t : Table V} (h : Inv s t)
    (docids : List Int) (reverse : Bool) : (stableSort t reverse docids).Pairwise (keyLe t reverse) := by
  rw [← timsort_sorted_eq o h]
  have := isort_sorted (timLe_tp o s reverse) docids
  exact (this.imp (fun {a b} hab => timLe_keyLe o h reverse a b hab)).sublist List.filter_sublist

theorem timsort_canon (o : OrdLaws V) {s : State V} {t : Table V} (h : Inv s t)
    (docids : List Int) (limit : Option Nat) (hlim : limit ≠ some 0) (reverse raiseU : Bool) :
    Canon t docids reverse limit raiseU (timsort s docids limit reverse raiseU) :=
  ⟨stableSort t reverse docids, stableSort_perm t reverse docids, stableSort_sorted o h docids reverse,
    (timsort_ids o h docids limit hlim reverse raiseU).1, (timsort_ids o h docids limit hlim reverse raiseU).2⟩

end Hyp.Field
