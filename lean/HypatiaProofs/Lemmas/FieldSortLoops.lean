import HypatiaProofs.Lemmas.SortLists

/-!
The counting loops of `scan_forward` and `_timsort` ("yield, `n += 1`, stop when `limit and
n >= limit`") deliver the first `limit` elements of the filtered sequence; `takeL` is that cut.
-/
set_option linter.unusedSectionVars false
set_option linter.unusedSimpArgs false
set_option linter.unusedVariables false
namespace Hyp.Field
open Hyp Hyp.Sort

/-- all of `l`, or its first `limit` elements -/
def takeL (limit : Option Nat) (l : List Int) : List Int :=
  match limit with
  | none => l
  | some L => l.take L

/-- did the cut leave through `return`, i.e. was the limit filled? -/
def filled (limit : Option Nat) (n : Nat) : Bool :=
  match limit with
  | none => false
  | some L => decide (L ≤ n)

theorem limitReached_none (n : Nat) : limitReached none n = false := rfl

theorem limitReached_some {L : Nat} (hL : L ≠ 0) (n : Nat) :
    limitReached (some L) n = decide (n ≥ L) := by
  cases L with
  | zero => exact absurd rfl hL
  | succ k => rfl

/-! ### `_timsort` -/

theorem timLoop_none (missing l : List Int) (n : Nat) :
    timLoop none missing l n = l.filter (fun d => !decide (d ∈ missing)) := by
  induction l generalizing n with
  | nil => rfl
  | cons d rest ih =>
    unfold timLoop
    by_cases h : d ∈ missing
    · simp [h, ih]
    · simp [h, limitReached_none, ih]

theorem timReturned_none (missing l : List Int) (n : Nat) : timReturned none missing l n = false := by
  induction l generalizing n with
  | nil => rfl
  | cons d rest ih =>
    unfold timReturned
    by_cases h : d ∈ missing
    · simp [h, ih]
    · simp [h, limitReached_none, ih]

theorem timLoop_some {L : Nat} (hL : L ≠ 0) (missing l : List Int) (n : Nat) (hn : n < L) :
    timLoop (some L) missing l n = (l.filter (fun d => !decide (d ∈ missing))).take (L - n) := by
  induction l generalizing n with
  | nil => simp [timLoop]
  | cons d rest ih =>
    unfold timLoop
    by_cases h : d ∈ missing
    · simp [h, ih n hn]
    · simp only [h, if_false, limitReached_some hL]
      by_cases h2 : n + 1 ≥ L
      · have e : L - n = 1 := by omega
        simp [h2, h, e]
      · have e : L - n = (L - (n + 1)) + 1 := by omega
        simp only [h2, decide_false, Bool.false_eq_true, if_false]
        rw [ih (n + 1) (by omega), e]
        simp [h]

theorem timReturned_some {L : Nat} (hL : L ≠ 0) (missing l : List Int) (n : Nat) (hn : n < L) :
    timReturned (some L) missing l n =
      decide (L - n ≤ (l.filter (fun d => !decide (d ∈ missing))).length) := by
  induction l generalizing n with
  | nil =>
    simp [timReturned]; omega
  | cons d rest ih =>
    unfold timReturned
    by_cases h : d ∈ missing
    · simp [h, ih n hn]
    · simp only [h, if_false, limitReached_some hL]
      by_cases h2 : n + 1 ≥ L
      · simp [h2, h]; omega
      · simp only [h2, decide_false, Bool.false_eq_true, if_false]
        rw [ih (n + 1) (by omega)]
        simp [h]
        omega

theorem timLoop_eq (limit : Option Nat) (hlim : limit ≠ some 0) (missing l : List Int) :
    timLoop limit missing l 0 = takeL limit (l.filter (fun d => !decide (d ∈ missing))) := by
  cases limit with
  | none => exact timLoop_none missing l 0
  | some L =>
    have hL : L ≠ 0 := fun e => hlim (by rw [e])
    rw [timLoop_some hL missing l 0 (by omega)]; rfl

theorem timReturned_eq (limit : Option Nat) (hlim : limit ≠ some 0) (missing l : List Int) :
    timReturned limit missing l 0 =
      filled limit (l.filter (fun d => !decide (d ∈ missing))).length := by
  cases limit with
  | none => exact timReturned_none missing l 0
  | some L =>
    have hL : L ≠ 0 := fun e => hlim (by rw [e])
    rw [timReturned_some hL missing l 0 (by omega)]; rfl

/-! ### `scan_forward` -/

theorem filter_const_true (l : List Int) : l.filter (fun _ => true) = l :=
  List.filter_eq_self.mpr (fun _ _ => rfl)

theorem filter_mem_remove (rest rem : List Int) (d : Int) (hd : d ∉ rest) :
    rest.filter (fun x => decide (x ∈ LSet.remove rem d)) = rest.filter (fun x => decide (x ∈ rem)) := by
  apply List.filter_congr
  intro x hx
  have : x ≠ d := fun e => hd (e ▸ hx)
  simp [LSet.mem_remove, this]

theorem scanLoop_none (flat : List Int) (hnd : flat.Nodup) (rem : List Int) (n : Nat) :
    scanLoop none flat rem n =
      (flat.filter (fun x => decide (x ∈ rem)), rem.filter (fun x => !decide (x ∈ flat)), false) := by
  induction flat generalizing rem n with
  | nil => simp [scanLoop, filter_const_true]
  | cons d rest ih =>
    have hnd' := List.nodup_cons.mp hnd
    unfold scanLoop
    by_cases h : d ∈ rem
    · simp only [h, if_true, limitReached_none, Bool.false_eq_true, if_false]
      rw [ih hnd'.2, filter_mem_remove rest rem d hnd'.1]
      simp only [List.filter_cons, h, decide_true, if_true, Prod.mk.injEq, true_and, and_true]
      unfold LSet.remove
      rw [List.filter_filter]
      apply List.filter_congr
      intro x hx
      by_cases e : x = d <;> simp [e]
    · simp only [h, if_false]
      rw [ih hnd'.2]
      simp only [List.filter_cons, h, decide_false, Bool.false_eq_true, if_false, Prod.mk.injEq, true_and,
        and_true]
      apply List.filter_congr
      intro x hx
      have : x ≠ d := fun e => h (e ▸ hx)
      simp [this]

theorem scanLoop_some {L : Nat} (hL : L ≠ 0) (flat : List Int) (hnd : flat.Nodup) (rem : List Int)
    (n : Nat) (hn : n < L) :
    (scanLoop (some L) flat rem n).1 = (flat.filter (fun x => decide (x ∈ rem))).take (L - n) ∧
    (scanLoop (some L) flat rem n).2.2 = decide (L - n ≤ (flat.filter (fun x => decide (x ∈ rem))).length) ∧
    ((scanLoop (some L) flat rem n).2.2 = false →
      (scanLoop (some L) flat rem n).2.1 = rem.filter (fun x => !decide (x ∈ flat))) := by
  induction flat generalizing rem n with
  | nil =>
    refine ⟨by simp [scanLoop], ?_, by simp [scanLoop, filter_const_true]⟩
    have : ¬ L - n ≤ 0 := by omega
    simp [scanLoop, this]
  | cons d rest ih =>
    have hnd' := List.nodup_cons.mp hnd
    unfold scanLoop
    by_cases h : d ∈ rem
    · simp only [h, if_true, limitReached_some hL]
      by_cases h2 : n + 1 ≥ L
      · have e : L - n = 1 := by omega
        simp [h2, h, e]
      · have e : L - n = (L - (n + 1)) + 1 := by omega
        simp only [h2, decide_false, Bool.false_eq_true, if_false]
        obtain ⟨i1, i2, i3⟩ := ih hnd'.2 (LSet.remove rem d) (n + 1) (by omega)
        rw [filter_mem_remove rest rem d hnd'.1] at i1 i2
        refine ⟨?_, ?_, ?_⟩
        · rw [i1, e]; simp [h]
        · rw [i2]; simp [h]; omega
        · intro hf
          rw [i3 hf]
          unfold LSet.remove
          rw [List.filter_filter]
          apply List.filter_congr
          intro x hx
          by_cases e : x = d <;> simp [e]
    · simp only [h, if_false]
      obtain ⟨i1, i2, i3⟩ := ih hnd'.2 rem n hn
      refine ⟨?_, ?_, ?_⟩
      · rw [i1]; simp [h]
      · rw [i2]; simp [h]
      · intro hf
        rw [i3 hf]
        apply List.filter_congr
        intro x hx
        have : x ≠ d := fun e => h (e ▸ hx)
        simp [this]

end Hyp.Field
