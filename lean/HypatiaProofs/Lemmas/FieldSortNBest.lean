import HypatiaProofs.Lemmas.FieldSortAlgos

/-!
The two n-best variants: the hand-rolled `insort`/`pop` loop equals "first `limit` of the sorted
tuples" (as does `heapq.nlargest` by definition), the sentinel tuples sit at the end of that list, so
emitting the ids with a value gives the first `limit` sortable ids in tuple order.
-/
set_option linter.unusedSectionVars false
set_option linter.unusedSimpArgs false
set_option linter.unusedVariables false
namespace Hyp.Field
open Hyp Hyp.Sort Hyp.Field.Spec

variable {V : Type} [DecidableEq V] [LT V] [DecidableLT V] [LE V] [DecidableLE V]

theorem nbestEmit_nil (raiseU : Bool) : nbestEmit ([] : List (Option V × Int)) raiseU = { ids := [] } := by
  simp [nbestEmit]

theorem pairLe_leAsc_fun (o : OrdLaws V) :
    (fun (x y : Option V × Int) => !pairLt ltAsc y x) = pairLe leAsc := by
  funext x y; exact (pairLe_leAsc_eq o x y).symm

theorem pairLe_tp (o : OrdLaws V) : TotalPreorder (pairLe (leAsc (V := V))) := by
  rw [← pairLe_leAsc_fun o]
  exact (strictLin_pairLt (strictLin_ltAsc o)).weak.tp

theorem pairLe_anti (o : OrdLaws V) (a b : Option V × Int)
    (h1 : pairLe leAsc a b = true) (h2 : pairLe leAsc b a = true) : a = b := by
  rw [pairLe_leAsc_eq o] at h1 h2
  exact (strictLin_pairLt (strictLin_ltAsc o)).antisymm a b h1 h2

/-- `nbest_ascending` = emit the first `limit` of the sorted `(value-or-ASC, docid)` tuples -/
theorem nbestAscending_eq (o : OrdLaws V) (s : State V) (docids : List Int) (L : Nat) (raiseU : Bool) :
    nbestAscending s docids L raiseU =
      nbestEmit ((isort (pairLe leAsc) (nsort s docids)).take L) raiseU := by
  unfold nbestAscending
  simp only [sortedPy, pairLe_leAsc_fun o]
  have tp := pairLe_tp (V := V) o
  cases hres : (isort (pairLe leAsc) ((nsort s docids).take L)).isEmpty with
  | true =>
    simp only [if_true]
    have h0 : (isort (pairLe leAsc) ((nsort s docids).take L)).length = 0 := by
      rw [List.isEmpty_iff] at hres; rw [hres]; rfl
    rw [length_isort, List.length_take] at h0
    have : (isort (pairLe leAsc) (nsort s docids)).take L = [] := by
      apply List.length_eq_zero_iff.mp
      rw [List.length_take, length_isort]; exact h0
    rw [this, nbestEmit_nil]
  | false =>
    simp only [Bool.false_eq_true, if_false]
    congr 1
    obtain ⟨dr', a1, a2, a3, a4⟩ :=
      nbestLoop_inv (lt := pairLt ltAsc) tp (fun x y => pairLe_leAsc_eq o y x ▸ by simp)
        ((nsort s docids).drop L) (isort (pairLe leAsc) ((nsort s docids).take L)) []
        (isort_sorted tp _) (by simp)
    refine nsmallest_eq_take tp (pairLe_anti o) a1 (a2.trans ?_) a3 ?_
    · simp only [List.append_nil]
      have := List.Perm.append_right ((nsort s docids).drop L) (isort_perm (pairLe leAsc) ((nsort s docids).take L))
      rw [List.take_append_drop] at this
      exact this
    · rw [a4, length_isort, List.length_take]

/-- comparison of `(value, docid)` tuples under which the sentinel tuples come last and tuples
with values are ordered by value (`rev`: descending) -/
structure TupleOrder (rev : Bool) (le : Option V × Int → Option V × Int → Bool) : Prop where
  tp : TotalPreorder le
  sep : ∀ x y, x.1.isSome = true → y.1.isSome = false → le y x = false
  key : ∀ x y va vb, le x y = true → x.1 = some va → y.1 = some vb → if rev then vb ≤ va else va ≤ vb

theorem tupleOrder_asc (o : OrdLaws V) : TupleOrder false (pairLe (leAsc (V := V))) where
  tp := pairLe_tp o
  sep := by
    rintro ⟨x1, x2⟩ ⟨y1, y2⟩ hx hy
    cases x1 <;> cases y1 <;> simp_all [pairLe, leAsc]
  key := by
    rintro ⟨x1, x2⟩ ⟨y1, y2⟩ va vb h e1 e2
    simp only at e1 e2; subst e1; subst e2
    simp only [Bool.false_eq_true, if_false]
    unfold pairLe at h
    by_cases e : va = vb
    · subst e; exact o.le_refl _
    · simpa [e, leAsc] using h

theorem tupleOrder_desc (o : OrdLaws V) :
    TupleOrder true (fun (x y : Option V × Int) => !pairLt ltDesc x y) where
  tp := (strictLin_pairLt (strictLin_ltDesc o)).weak.tpRev
  sep := by
    rintro ⟨x1, x2⟩ ⟨y1, y2⟩ hx hy
    cases x1 <;> cases y1 <;> simp_all [pairLt, ltDesc]
  key := by
    rintro ⟨x1, x2⟩ ⟨y1, y2⟩ va vb h e1 e2
    simp only at e1 e2; subst e1; subst e2
    simp only [if_true]
    unfold pairLt at h
    by_cases e : va = vb
    · subst e; exact o.le_refl _
    · simp only [Option.some.injEq, e, if_false, ltDesc, Bool.not_eq_eq_eq_not, Bool.not_true,
        decide_eq_false_iff_not] at h
      exact (o.not_lt _ _).mp h

theorem nsort_filter_some (s : State V) (docids : List Int) :
    ((nsort s docids).filter (fun x => x.1.isSome)).map Prod.snd =
      docids.filter (fun d => (AMap.get s.rev d).isSome) := by
  induction docids with
  | nil => rfl
  | cons d ds ih =>
    simp only [nsort, List.map_cons, List.filter_cons] at ih ⊢
    cases AMap.get s.rev d <;> simp [ih]

theorem nsort_filter_none (s : State V) (docids : List Int) :
    ((nsort s docids).filter (fun x => !x.1.isSome)).map Prod.snd =
      docids.filter (fun d => (AMap.get s.rev d).isNone) := by
  induction docids with
  | nil => rfl
  | cons d ds ih =>
    simp only [nsort, List.map_cons, List.filter_cons, Option.not_isSome] at ih ⊢
    cases AMap.get s.rev d <;> simp [ih]

theorem mem_nsort {s : State V} {docids : List Int} {x : Option V × Int} (hx : x ∈ nsort s docids) :
    x.1 = AMap.get s.rev x.2 := by
  unfold nsort at hx
  obtain ⟨d, _, rfl⟩ := List.mem_map.mp hx
  rfl

/-- both n-best variants: emitting the first `L` sorted tuples is canonical -/
theorem nbestEmit_canon {rev : Bool} {le : Option V × Int → Option V × Int → Bool}
    (to : TupleOrder rev le) {s : State V} {t : Table V} (h : Inv s t) (docids : List Int) (L : Nat)
    (raiseU : Bool) :
    Canon t docids rev (some L) raiseU (nbestEmit ((isort le (nsort s docids)).take L) raiseU) := by
  let l := isort le (nsort s docids)
  let p : Option V × Int → Bool := fun x => x.1.isSome
  have hl : l.Perm (nsort s docids) := isort_perm _ _
  have hsorted : Sorted le l := isort_sorted to.tp _
  have hsplit : l = l.filter p ++ l.filter (fun x => !p x) :=
    sorted_split p (fun x y hx hy => to.sep x y hx hy) l hsorted
  have hP : ∀ x ∈ l.filter p, p x = true := fun x hx => (List.mem_filter.mp hx).2
  have hQ : ∀ x ∈ l.filter (fun x => !p x), p x = false := fun x hx => by
    simpa using (List.mem_filter.mp hx).2
  let srt := (l.filter p).map Prod.snd
  have hsrt_perm : srt.Perm (sortables t docids) := by
    rw [sortables_eq h, ← nsort_filter_some]
    exact (hl.filter p).map _
  have hmiss_perm : ((l.filter (fun x => !p x)).map Prod.snd).Perm (missing t docids) := by
    rw [missing_eq h, ← nsort_filter_none]
    exact (hl.filter _).map _
  have hids : (nbestEmit (l.take L) raiseU).ids = srt.take L := by
    unfold nbestEmit
    simp only [filterMap_ite (fun x : Option V × Int => x.1.isSome) Prod.snd]
    have := take_split_map (l.filter p) (l.filter (fun x => !p x)) p Prod.snd L hP hQ
    rw [← hsplit] at this
    exact this
  have hraised : (nbestEmit (l.take L) raiseU).raised.isSome = shouldRaise t docids (some L) raiseU := by
    unfold nbestEmit
    simp only [filterMap_ite (fun x : Option V × Int => x.1.isNone) Prod.snd]
    have hfe : (l.take L).filter (fun x => x.1.isNone) = (l.take L).filter (fun x => !p x) :=
      List.filter_congr (fun x _ => by simp [p])
    have := take_split_tail (l.filter p) (l.filter (fun x => !p x)) p L hP hQ
    rw [← hsplit] at this
    have hlenP : (l.filter p).length = (sortables t docids).length := by
      rw [← hsrt_perm.length_eq]; simp [srt]
    have hQe : (l.filter (fun x => !p x)).isEmpty = (missing t docids).isEmpty := by
      have hlen := hmiss_perm.length_eq
      rw [List.length_map] at hlen
      apply Bool.eq_iff_iff.mpr
      rw [List.isEmpty_iff_length_eq_zero, List.isEmpty_iff_length_eq_zero, hlen]
    rw [hfe]
    have hmapE : ∀ m : List (Option V × Int), (m.map Prod.snd).isEmpty = m.isEmpty := by
      intro m; cases m <;> rfl
    rw [hmapE, this, hlenP, hQe]
    unfold shouldRaise
    by_cases hle : L ≤ (sortables t docids).length
    · have : ¬ (sortables t docids).length < L := by omega
      cases raiseU <;> cases (missing t docids).isEmpty <;> simp [hle, this]
    · have : (sortables t docids).length < L := by omega
      cases raiseU <;> cases (missing t docids).isEmpty <;> simp [hle, this]
  refine ⟨srt, hsrt_perm, ?_, hids, hraised⟩
  -- ordered by value
  have hP' : (l.filter p).Pairwise (fun x y => x ∈ l ∧ y ∈ l ∧ le x y = true) :=
    (List.Pairwise.and_mem.mp hsorted).sublist List.filter_sublist
  refine List.pairwise_map.mpr (List.Pairwise.imp_of_mem ?_ hP')
  intro x y hx hy ⟨hxl, hyl, hxy⟩ va vb hva hvb
  have ex := mem_nsort (hl.mem_iff.mp hxl)
  have ey := mem_nsort (hl.mem_iff.mp hyl)
  rw [← h.rev_eq, ← ex] at hva
  rw [← h.rev_eq, ← ey] at hvb
  exact to.key x y va vb hxy hva hvb

theorem nbestAscending_canon (o : OrdLaws V) {s : State V} {t : Table V} (h : Inv s t)
    (docids : List Int) (L : Nat) (raiseU : Bool) :
    Canon t docids false (some L) raiseU (nbestAscending s docids L raiseU) := by
  rw [nbestAscending_eq o]
  exact nbestEmit_canon (tupleOrder_asc o) h docids L raiseU

theorem nbestDescending_canon (o : OrdLaws V) {s : State V} {t : Table V} (h : Inv s t)
    (docids : List Int) (L : Nat) (raiseU : Bool) :
    Canon t docids true (some L) raiseU (nbestDescending s docids L raiseU) := by
  unfold nbestDescending sortedPyRev
  exact nbestEmit_canon (tupleOrder_desc o) h docids L raiseU

end Hyp.Field
