import HypatiaProofs.Lemmas.FieldSortNBest

/-!
From the canonical form (`Canon`) to the clauses of the property (`SortOK`, `shouldRaise`), and the
case analysis of the entry point `FieldIndex.sort`.
-/
set_option linter.unusedSectionVars false
set_option linter.unusedSimpArgs false
set_option linter.unusedVariables false
namespace Hyp.Field
open Hyp Hyp.Sort Hyp.Field.Spec

variable {V : Type} [DecidableEq V] [LT V] [DecidableLT V] [LE V] [DecidableLE V]

/-- flags under which an algorithm can be run at all -/
def admissible (a : Algo) (reverse : Bool) (limit : Option Nat) : Prop :=
  (a = .fwscan → reverse = false) ∧ (a = .nbest → limit ≠ none)

theorem sortWith_isSome_iff (s : State V) (a : Algo) (docids : List Int) (reverse : Bool)
    (limit : Option Nat) (raiseU : Bool) :
    (sortWith s a docids reverse limit raiseU).isSome = true ↔ admissible a reverse limit := by
  unfold admissible
  cases a <;> cases reverse <;> cases limit <;> simp [sortWith]

theorem sortWith_canon (o : OrdLaws V) {s : State V} {t : Table V} (h : Inv s t) (a : Algo)
    (docids : List Int) (hnd : docids.Nodup) (reverse : Bool) (limit : Option Nat)
    (hlim : limit ≠ some 0) (raiseU : Bool) (g : Gen)
    (hg : sortWith s a docids reverse limit raiseU = some g) :
    Canon t docids reverse limit raiseU g := by
  cases a with
  | fwscan =>
    cases reverse with
    | true => simp [sortWith] at hg
    | false =>
      simp only [sortWith, Option.some.injEq] at hg
      subst hg
      exact scanForward_canon o h docids hnd limit hlim raiseU
  | nbest =>
    cases limit with
    | none => simp [sortWith] at hg
    | some L =>
      cases reverse with
      | false =>
        simp only [sortWith, Option.some.injEq] at hg
        subst hg
        exact nbestAscending_canon o h docids L raiseU
      | true =>
        simp only [sortWith, Option.some.injEq] at hg
        subst hg
        exact nbestDescending_canon o h docids L raiseU
  | timsort =>
    simp only [sortWith, Option.some.injEq] at hg
    subst hg
    exact timsort_canon o h docids limit hlim reverse raiseU

/-! ## canonical form ⇒ the property's clauses -/

theorem takeL_sublist (limit : Option Nat) (l : List Int) : (takeL limit l).Sublist l := by
  cases limit with
  | none => exact List.Sublist.refl _
  | some L => exact List.take_sublist L l

theorem length_takeL (limit : Option Nat) (l : List Int) : (takeL limit l).length = cut limit l.length := by
  cases limit with
  | none => rfl
  | some L => simp [takeL, cut, List.length_take]

theorem canon_sortOK {t : Table V} {docids : List Int} (hnd : docids.Nodup) {rev : Bool}
    {limit : Option Nat} {raiseU : Bool} {g : Gen} (c : Canon t docids rev limit raiseU g) :
    SortOK t docids rev limit g.ids := by
  obtain ⟨srt, hperm, hsorted, hids, _⟩ := c
  have hsnd : srt.Nodup := hperm.nodup_iff.mpr (by unfold sortables; exact hnd.filter _)
  rw [hids]
  refine ⟨hsnd.sublist (takeL_sublist limit srt), ?_, hsorted.sublist (takeL_sublist limit srt), ?_, ?_⟩
  · intro d hd
    have := hperm.mem_iff.mp ((takeL_sublist limit srt).subset hd)
    unfold sortables at this
    exact List.mem_filter.mp this
  · rw [length_takeL, hperm.length_eq]
  · intro d hd hs hnot e he
    have hdsrt : d ∈ srt := hperm.mem_iff.mpr (by unfold sortables; exact List.mem_filter.mpr ⟨hd, hs⟩)
    cases limit with
    | none => exact absurd hdsrt hnot
    | some L =>
      simp only [takeL] at hnot he
      have hsplit := List.take_append_drop L srt
      have hdrop : d ∈ srt.drop L := by
        rw [← hsplit] at hdsrt
        rcases List.mem_append.mp hdsrt with h1 | h1
        · exact absurd h1 hnot
        · exact h1
      rw [← hsplit] at hsorted
      exact (List.pairwise_append.mp hsorted).2.2 e he d hdrop

theorem canon_raised {t : Table V} {docids : List Int} {rev : Bool}
    {limit : Option Nat} {raiseU : Bool} {g : Gen} (c : Canon t docids rev limit raiseU g) :
    g.raised.isSome = shouldRaise t docids limit raiseU := c.choose_spec.2.2.2

/-- when Unsortable is raised, every sortable id has been yielded before -/
theorem canon_complete {t : Table V} {docids : List Int} {rev : Bool}
    {limit : Option Nat} {raiseU : Bool} {g : Gen} (c : Canon t docids rev limit raiseU g)
    (hr : g.raised.isSome = true) : ∀ d ∈ docids, sortable t d = true → d ∈ g.ids := by
  obtain ⟨srt, hperm, _, hids, hraise⟩ := c
  intro d hd hs
  have hdsrt : d ∈ srt := hperm.mem_iff.mpr (by unfold sortables; exact List.mem_filter.mpr ⟨hd, hs⟩)
  rw [hids]
  rw [hr] at hraise
  cases limit with
  | none => exact hdsrt
  | some L =>
    unfold shouldRaise at hraise
    have : (sortables t docids).length < L := by
      have := hraise.symm
      simp only [Bool.and_eq_true, decide_eq_true_eq] at this
      exact this.2
    simp only [takeL]
    rw [List.take_of_length_le (by rw [hperm.length_eq]; omega)]
    exact hdsrt

/-- two answers to the same request show the same sequence of values and agree on raising -/
theorem canon_agree (o : OrdLaws V) {t : Table V} {docids : List Int} {rev : Bool}
    {limit : Option Nat} {raiseU : Bool} {g1 g2 : Gen} (c1 : Canon t docids rev limit raiseU g1)
    (c2 : Canon t docids rev limit raiseU g2) :
    g1.ids.map (valueOf t) = g2.ids.map (valueOf t) ∧ g1.raised.isSome = g2.raised.isSome := by
  refine ⟨?_, by rw [canon_raised c1, canon_raised c2]⟩
  obtain ⟨s1, p1, o1, i1, _⟩ := c1
  obtain ⟨s2, p2, o2, i2, _⟩ := c2
  have hsorted : ∀ srt : List Int, srt.Pairwise (keyLe t rev) →
      Sorted (optLe rev) (srt.map (valueOf t)) := by
    intro srt hs
    refine List.pairwise_map.mpr (hs.imp ?_)
    intro a b hab
    cases ha : valueOf t a with
    | none => simp [optLe]
    | some va =>
      cases hb : valueOf t b with
      | none => simp [optLe]
      | some vb =>
        have := hab va vb ha hb
        cases rev <;> simpa [optLe] using this
  have hkeys : s1.map (valueOf t) = s2.map (valueOf t) := by
    refine eq_of_perm_sorted' ?_ ((p1.trans p2.symm).map _) (hsorted s1 o1) (hsorted s2 o2)
    intro a b ha hb hab hba
    obtain ⟨da, hda, rfl⟩ := List.mem_map.mp ha
    obtain ⟨db, hdb, rfl⟩ := List.mem_map.mp hb
    have sa : sortable t da = true := by
      have := p1.mem_iff.mp hda; unfold sortables at this; exact (List.mem_filter.mp this).2
    have sb : sortable t db = true := by
      have := p1.mem_iff.mp hdb; unfold sortables at this; exact (List.mem_filter.mp this).2
    unfold sortable at sa sb
    cases ea : valueOf t da with
    | none => rw [ea] at sa; cases sa
    | some va =>
      cases eb : valueOf t db with
      | none => rw [eb] at sb; cases sb
      | some vb =>
        rw [ea, eb] at hab hba
        cases rev with
        | false =>
          simp only [optLe, Bool.false_eq_true, if_false, decide_eq_true_eq] at hab hba
          rw [o.le_antisymm _ _ hab hba]
        | true =>
          simp only [optLe, if_true, decide_eq_true_eq] at hab hba
          rw [o.le_antisymm _ _ hba hab]
  rw [i1, i2]
  cases limit with
  | none => exact hkeys
  | some L => simp only [takeL, List.map_take, hkeys]

/-! ## the entry point -/

theorem toNat_limit_ne_zero (limit : Option Int) (hb : badLimit limit = false) :
    limit.map Int.toNat ≠ some 0 := by
  cases limit with
  | none => simp
  | some l =>
    simp only [badLimit, limitInvalid, decide_eq_false_iff_not] at hb
    simp only [Option.map_some, ne_eq, Option.some.injEq]
    omega

theorem chooseForward_adm (lim : Option Nat) (rlen n : Nat) :
    admissible (chooseForward lim rlen n) false lim := by
  unfold chooseForward admissible
  split
  · simp
  · split
    · next hc =>
      refine ⟨by simp, fun _ e => ?_⟩
      subst e
      simp [limitOf] at hc
    · simp

theorem chooseReverse_adm (lim : Option Nat) (rlen : Nat) :
    admissible (chooseReverse lim rlen) true lim := by
  unfold chooseReverse admissible
  cases hl : limitOf lim with
  | none => simp
  | some l =>
    simp only
    split
    · refine ⟨by simp, fun _ e => ?_⟩
      subst e
      simp [limitOf] at hl
    · simp

/-- flag combinations the dispatcher rejects, on the normalised sort type -/
def rejectsN (rev : Bool) (lim : Option Nat) (st : Option SortType) : Bool :=
  match st with
  | none => false
  | some .fwscan => rev
  | some .nbest => lim.isNone
  | some .timsort => false
  | some _ => true

theorem rejects_eq (rev : Bool) (limit : Option Int) (st : Option SortType) :
    rejects rev limit st = rejectsN rev (limit.map Int.toNat) (normType st) := by
  cases st with
  | none => rfl
  | some ty => cases ty <;> cases limit <;> rfl

/-- every way through `sort_forward` / `sort_reverse` -/
theorem sortDispatch_cases (s : State V) (docids : List Int) (reverse : Bool) (lim : Option Nat)
    (n : Nat) (st : Option SortType) (raiseU : Bool) :
    (rejectsN reverse lim st = true ∧ sortDispatch s docids reverse lim n st raiseU = .valueError) ∨
    (rejectsN reverse lim st = false ∧
      ∃ a g, sortWith s a docids reverse lim raiseU = some g ∧
        sortDispatch s docids reverse lim n st raiseU = .gen g ∧ (st = some .timsort → a = .timsort)) := by
  have key : ∀ a, admissible a reverse lim →
      ∃ g, sortWith s a docids reverse lim raiseU = some g := by
    intro a ha
    have := (sortWith_isSome_iff s a docids reverse lim raiseU).mpr ha
    exact Option.isSome_iff_exists.mp this
  cases st with
  | none =>
    right
    refine ⟨rfl, ?_⟩
    cases reverse with
    | true =>
      obtain ⟨g, hg⟩ := key _ (chooseReverse_adm lim docids.length)
      exact ⟨_, g, hg, by simp [sortDispatch, hg], by simp⟩
    | false =>
      obtain ⟨g, hg⟩ := key _ (chooseForward_adm lim docids.length n)
      exact ⟨_, g, hg, by simp [sortDispatch, hg], by simp⟩
  | some ty =>
    cases ty with
    | fwscan =>
      cases reverse with
      | true => left; exact ⟨rfl, by simp [sortDispatch, sortWith]⟩
      | false =>
        right
        obtain ⟨g, hg⟩ := key .fwscan ⟨fun _ => rfl, (fun e => by cases e)⟩
        exact ⟨rfl, _, g, hg, by simp [sortDispatch, hg], by simp⟩
    | nbest =>
      cases lim with
      | none => left; exact ⟨rfl, by cases reverse <;> simp [sortDispatch, sortWith]⟩
      | some L =>
        right
        obtain ⟨g, hg⟩ := key .nbest ⟨(fun e => by cases e), (fun _ => by simp)⟩
        exact ⟨rfl, _, g, hg, by simp [sortDispatch, hg], by simp⟩
    | timsort =>
      right
      obtain ⟨g, hg⟩ := key .timsort ⟨(fun e => by cases e), (fun e => by cases e)⟩
      exact ⟨rfl, _, g, hg, by simp [sortDispatch, hg], by simp⟩
    | stable => left; exact ⟨rfl, by simp [sortDispatch]⟩
    | optimal => left; exact ⟨rfl, by simp [sortDispatch]⟩
    | other => left; exact ⟨rfl, by simp [sortDispatch]⟩

theorem normType_timsort_of_stable (st : Option SortType) (h : stableRequired st = true) :
    normType st = some .timsort := by
  cases st with
  | none => simp [stableRequired] at h
  | some ty => cases ty <;> simp [stableRequired] at h <;> rfl

/-- every way through `FieldIndex.sort` -/
theorem sort_cases (s : State V) (docids : List Int) (reverse : Bool) (limit : Option Int)
    (st : Option SortType) (raiseU : Bool) :
    (badLimit limit = true ∧ sort s docids reverse limit st raiseU = .valueError) ∨
    (badLimit limit = false ∧ docids = [] ∧ sort s docids reverse limit st raiseU = .emptyList) ∨
    (badLimit limit = false ∧ docids ≠ [] ∧ s.numDocs = 0 ∧
      sort s docids reverse limit st raiseU = if raiseU then .unsortableAtCall docids else .emptyList) ∨
    (badLimit limit = false ∧ docids ≠ [] ∧ s.numDocs ≠ 0 ∧ rejects reverse limit st = true ∧
      sort s docids reverse limit st raiseU = .valueError) ∨
    (badLimit limit = false ∧ docids ≠ [] ∧ s.numDocs ≠ 0 ∧ rejects reverse limit st = false ∧
      ∃ a g, sortWith s a docids reverse (limit.map Int.toNat) raiseU = some g ∧
        sort s docids reverse limit st raiseU = .gen g ∧
        (stableRequired st = true → a = .timsort)) := by
  by_cases hb : limitInvalid limit = true
  · left; exact ⟨hb, by simp [sort, hb]⟩
  · have hb' : limitInvalid limit = false := by simpa using hb
    right
    by_cases hd : docids = []
    · left; exact ⟨hb', hd, by simp [sort, hb', hd]⟩
    · have hie : docids.isEmpty = false := by cases docids <;> simp_all
      right
      by_cases hn : s.numDocs = 0
      · left; exact ⟨hb', hd, hn, by simp [sort, hb', hie, hn]⟩
      · have hs : sort s docids reverse limit st raiseU =
            sortDispatch s docids reverse (limit.map Int.toNat) s.numDocs.toNat (normType st) raiseU := by
          simp [sort, hb', hie, hn]
        right
        rw [hs, rejects_eq]
        rcases sortDispatch_cases s docids reverse (limit.map Int.toNat) s.numDocs.toNat (normType st) raiseU
          with ⟨h1, h2⟩ | ⟨h1, a, g, h2, h3, h4⟩
        · left; exact ⟨hb', hd, hn, h1, h2⟩
        · right; exact ⟨hb', hd, hn, h1, a, g, h2, h3, fun hs => h4 (normType_timsort_of_stable st hs)⟩

theorem rev_nil_of_numDocs_zero {s : State V} {t : Table V} (h : Inv s t) (hn : s.numDocs = 0) :
    s.rev = [] := by
  have := h.num
  rw [hn] at this
  exact List.length_eq_zero_iff.mp (by omega)

theorem nonEmptyIndex_iff {t : Table V} (hwf : AMap.WF t) :
    nonEmptyIndex t = true ↔ ∃ d v, valueOf t d = some v := by
  unfold nonEmptyIndex
  rw [List.any_eq_true]
  constructor
  · rintro ⟨⟨d, x⟩, hp, hx⟩
    cases x with
    | none => cases hx
    | some v => exact ⟨d, v, by unfold valueOf; rw [AMap.get_of_mem hwf hp]; rfl⟩
  · rintro ⟨d, v, hv⟩
    unfold valueOf at hv
    cases hg : AMap.get t d with
    | none => rw [hg] at hv; cases hv
    | some x =>
      rw [hg] at hv
      simp only [Option.bind_some, id] at hv
      exact ⟨(d, x), AMap.mem_of_get hg, by rw [hv]; rfl⟩

theorem numDocs_zero_iff {s : State V} {t : Table V} (h : Inv s t) :
    s.numDocs = 0 ↔ ∀ d, valueOf t d = none := by
  constructor
  · intro hn d
    rw [← h.rev_eq, rev_nil_of_numDocs_zero h hn]; rfl
  · intro hall
    have : s.rev = [] := by
      cases hr : s.rev with
      | nil => rfl
      | cons p rest =>
        have := hall p.1
        rw [← h.rev_eq, hr, AMap.get_cons] at this
        simp at this
    rw [h.num, this]; rfl

/-- whatever `FieldIndex.sort` lets the caller observe (other than ValueError) is canonical -/
theorem sort_observe_canon (o : OrdLaws V) {s : State V} {t : Table V} (h : Inv s t)
    (docids : List Int) (hnd : docids.Nodup) (reverse : Bool) (limit : Option Int)
    (st : Option SortType) (raiseU : Bool) (g : Gen)
    (hg : (sort s docids reverse limit st raiseU).observe = some g) :
    Canon t docids reverse (limit.map Int.toNat) raiseU g := by
  rcases sort_cases s docids reverse limit st raiseU with
    ⟨_, e⟩ | ⟨_, hd, e⟩ | ⟨hb, hd, hn, e⟩ | ⟨_, _, _, _, e⟩ | ⟨hb, _, _, _, a, g', hw, e, _⟩
  · rw [e] at hg; cases hg
  · rw [e] at hg
    simp only [SortRes.observe, Option.some.injEq] at hg
    subst hg; subst hd
    refine ⟨[], by simp [sortables], List.Pairwise.nil, ?_, ?_⟩
    · cases limit <;> simp [takeL]
    · simp [shouldRaise, missing]
  · have hrev := rev_nil_of_numDocs_zero h hn
    have hs : sortables t docids = [] := by
      rw [sortables_eq h, hrev]; simp
    have hm : missing t docids = docids := by
      rw [missing_eq h, hrev]; simp
    have hlim := toNat_limit_ne_zero limit hb
    rw [e] at hg
    cases raiseU with
    | true =>
      simp only [if_true, SortRes.observe, Option.some.injEq] at hg
      subst hg
      refine ⟨[], by simp [hs], List.Pairwise.nil, ?_, ?_⟩
      · cases limit <;> simp [takeL]
      · have hie : docids.isEmpty = false := by cases docids <;> simp_all
        unfold shouldRaise
        rw [hm, hs, hie]
        cases hl : limit.map Int.toNat with
        | none => simp
        | some L =>
          have : L ≠ 0 := fun e0 => hlim (by rw [hl, e0])
          have : 0 < L := by omega
          simp [this]
    | false =>
      simp only [Bool.false_eq_true, if_false, SortRes.observe, Option.some.injEq] at hg
      subst hg
      refine ⟨[], by simp [hs], List.Pairwise.nil, ?_, ?_⟩
      · cases limit <;> simp [takeL]
      · simp [shouldRaise]
  · rw [e] at hg; cases hg
  · rw [e] at hg
    simp only [SortRes.observe, Option.some.injEq] at hg
    subst hg
    exact sortWith_canon o h a docids hnd reverse _ (toNat_limit_ne_zero limit hb) raiseU _ hw

/-- STABLE / timsort requested: the answer is the stable sort, cut at the limit -/
theorem sort_observe_stable (o : OrdLaws V) {s : State V} {t : Table V} (h : Inv s t)
    (docids : List Int) (reverse : Bool) (limit : Option Int)
    (st : Option SortType) (hst : stableRequired st = true) (raiseU : Bool) (g : Gen)
    (hg : (sort s docids reverse limit st raiseU).observe = some g) :
    g.ids = takeL (limit.map Int.toNat) (stableSort t reverse docids) := by
  rcases sort_cases s docids reverse limit st raiseU with
    ⟨_, e⟩ | ⟨_, hd, e⟩ | ⟨hb, hd, hn, e⟩ | ⟨_, _, _, _, e⟩ | ⟨hb, _, _, _, a, g', hw, e, ha⟩
  · rw [e] at hg; cases hg
  · rw [e] at hg
    simp only [SortRes.observe, Option.some.injEq] at hg
    subst hg; subst hd
    cases limit <;> simp [takeL, stableSort, sortables, isort]
  · have hrev := rev_nil_of_numDocs_zero h hn
    have hs : sortables t docids = [] := by
      rw [sortables_eq h, hrev]; simp
    have : g.ids = [] := by
      rw [e] at hg
      cases raiseU <;> simp [SortRes.observe] at hg <;> subst hg <;> rfl
    rw [this]
    cases limit <;> simp [takeL, stableSort, hs, isort]
  · rw [e] at hg; cases hg
  · rw [e] at hg
    simp only [SortRes.observe, Option.some.injEq] at hg
    subst hg
    have := ha hst
    subst this
    simp only [sortWith, Option.some.injEq] at hw
    subst hw
    exact (timsort_ids o h docids _ (toNat_limit_ne_zero limit hb) reverse raiseU).1

end Hyp.Field
