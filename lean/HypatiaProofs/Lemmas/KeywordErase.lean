import HypatiaModel.KeywordPlain

/-!
Erasing representation tags (and the threshold) commutes with every operation of the keyword
index, and every query sees the same `View` before and after erasure.
-/
set_option linter.unusedSectionVars false
set_option linter.unusedSimpArgs false
namespace Hyp.Keyword
open Hyp

variable {K : Type} [DecidableEq K]

theorem get_eraseFwd (fwd : Fwd K) (k : K) :
    AMap.get (eraseFwd fwd) k = (AMap.get fwd k).map (·.2) := by
  induction fwd with
  | nil => rfl
  | cons p m ih =>
    obtain ⟨a, b⟩ := p
    show AMap.get ((a, b.2) :: eraseFwd m) k = _
    rw [AMap.get_cons, AMap.get_cons, ih]
    by_cases e : a = k <;> simp [e]

theorem eraseFwd_erase (fwd : Fwd K) (k : K) :
    eraseFwd (AMap.erase fwd k) = AMap.erase (eraseFwd fwd) k := by
  induction fwd with
  | nil => rfl
  | cons p m ih =>
    obtain ⟨a, b⟩ := p
    unfold eraseFwd AMap.erase at ih ⊢
    by_cases e : a = k <;> simp [List.filter, e, ih]

theorem eraseFwd_set (fwd : Fwd K) (k : K) (tg : Tag) (st : List Int) :
    eraseFwd (AMap.set fwd k (tg, st)) = AMap.set (eraseFwd fwd) k st := by
  unfold AMap.set
  show (k, st) :: eraseFwd (AMap.erase fwd k) = _
  rw [eraseFwd_erase]

theorem posting_eraseFwd (fwd : Fwd K) (k : K) : Plain.posting (eraseFwd fwd) k = posting fwd k := by
  unfold Plain.posting posting
  rw [get_eraseFwd]
  cases AMap.get fwd k <;> rfl

/-- the removal loop: same forward map after erasure, same `KeyError` flag -/
theorem erase_unpostAll (d : Int) (ws : List K) : ∀ fwd : Fwd K,
    Plain.unpostAll (eraseFwd fwd) d ws = (eraseFwd (unpostAll fwd d ws).1, (unpostAll fwd d ws).2) := by
  induction ws with
  | nil => intro fwd; rfl
  | cons w ws ih =>
    intro fwd
    unfold Plain.unpostAll unpostAll
    rw [get_eraseFwd]
    cases hg : AMap.get fwd w with
    | none => rfl
    | some p =>
      obtain ⟨tg, st⟩ := p
      simp only [Option.map_some]
      by_cases hd : d ∈ st
      · simp only [hd, if_true]
        by_cases he : LSet.remove st d = []
        · simp only [he, if_true]
          rw [← eraseFwd_erase]; exact ih _
        · simp only [he, if_false]
          rw [← eraseFwd_set fwd w tg]; exact ih _
      · simp only [hd, if_false]

theorem erase_insertForward (thr : Nat) (d : Int) (ws : List K) : ∀ fwd : Fwd K,
    eraseFwd (insertForward thr fwd d ws) = Plain.insertForward (eraseFwd fwd) d ws := by
  induction ws with
  | nil => intro fwd; rfl
  | cons w ws ih =>
    intro fwd
    simp only [insertForward, Plain.insertForward]
    rw [ih, eraseFwd_set, get_eraseFwd]
    cases AMap.get fwd w <;> rfl

theorem erase_unindexDoc (s : State K) (d : Int) :
    erase (unindexDoc s d) = Plain.unindexDoc (erase s) d := by
  unfold unindexDoc Plain.unindexDoc
  show erase _ = match AMap.get s.rev d with | none => _ | some kws => _
  cases hr : AMap.get s.rev d with
  | none => rfl
  | some kws =>
    have e := erase_unpostAll d kws s.fwd
    have e1 : (Plain.unpostAll (erase s).fwd d kws).1 = eraseFwd (unpostAll s.fwd d kws).1 := by
      show (Plain.unpostAll (eraseFwd s.fwd) d kws).1 = _; rw [e]
    have e2 : (Plain.unpostAll (erase s).fwd d kws).2 = (unpostAll s.fwd d kws).2 := by
      show (Plain.unpostAll (eraseFwd s.fwd) d kws).2 = _; rw [e]
    simp only [e1, e2]
    cases hb : (unpostAll s.fwd d kws).2 <;> simp [erase]

theorem erase_indexDoc (s : State K) (d : Int) (v : Option (List K)) :
    erase (indexDoc s d v) = Plain.indexDoc (erase s) d v := by
  unfold indexDoc Plain.indexDoc
  cases v with
  | none =>
    (try dsimp only)
    show erase _ = if d ∈ s.notIndexed then _ else _
    by_cases hin : d ∈ s.notIndexed
    · simp only [hin, if_true]
    · simp only [hin, if_false]
      rw [← erase_unindexDoc]; rfl
  | some seq =>
    (try dsimp only)
    have hs1 : erase { s with notIndexed := LSet.remove s.notIndexed d } =
        { erase s with notIndexed := LSet.remove (erase s).notIndexed d } := rfl
    by_cases hs : seq = []
    · simp only [hs, if_true]
      show erase _ = match AMap.get s.rev d with | some (_ :: _) => _ | _ => _
      cases hr : AMap.get s.rev d with
      | none => rfl
      | some oldk =>
        cases oldk with
        | nil => rfl
        | cons a rest =>
          simp only []
          rw [erase_unindexDoc]; rfl
    · simp only [hs, if_false]
      show erase _ = match AMap.get s.rev d with | none => _ | some oldk => _
      cases hr : AMap.get s.rev d with
      | none =>
        simp only [erase]
        rw [erase_insertForward]
      | some oldk =>
        simp only []
        by_cases hsame : LSet.diff (dedup seq) oldk = [] ∧ LSet.diff oldk (dedup seq) = []
        · simp only [hsame, and_self, if_true]; rfl
        · simp only [hsame, if_false]
          have e := erase_unpostAll d (LSet.diff oldk (dedup seq)) s.fwd
          have e1 : (Plain.unpostAll (erase s).fwd d (LSet.diff oldk (dedup seq))).1 =
              eraseFwd (unpostAll s.fwd d (LSet.diff oldk (dedup seq))).1 := by
            show (Plain.unpostAll (eraseFwd s.fwd) d _).1 = _; rw [e]
          have e2 : (Plain.unpostAll (erase s).fwd d (LSet.diff oldk (dedup seq))).2 =
              (unpostAll s.fwd d (LSet.diff oldk (dedup seq))).2 := by
            show (Plain.unpostAll (eraseFwd s.fwd) d _).2 = _; rw [e]
          simp only [e1, e2]
          cases hb : (unpostAll s.fwd d (LSet.diff oldk (dedup seq))).2
          · simp [erase]
          · simp [erase, erase_insertForward]

theorem erase_optimize (s : State K) : erase (optimize s) = erase s := by
  unfold optimize erase eraseFwd
  simp [List.map_map, Function.comp_def]

/-- **erasure commutes with every operation** (for every state, reachable or not) -/
theorem erase_step (s : State K) (op : Op K) : erase (step s op) = Plain.step (erase s) op := by
  cases op with
  | index d v => exact erase_indexDoc s d v
  | indexStr d => rfl
  | unindex d => exact erase_unindexDoc s d
  | reset => rfl
  | optimize => exact erase_optimize s
  | setThr n => rfl

theorem erase_foldl (h : List (Op K)) : ∀ s : State K,
    erase (h.foldl step s) = h.foldl Plain.step (erase s) := by
  induction h with
  | nil => intro s; rfl
  | cons op ops ih => intro s; simp only [List.foldl_cons]; rw [ih, erase_step]

theorem erase_run (h : List (Op K)) : erase (run h) = Plain.run h := erase_foldl h init

/-- a query sees the same thing on a state and on its erasure -/
theorem view_erase (s : State K) : (erase s).view = s.view := by
  unfold Plain.State.view State.view
  congr 1
  funext k
  exact posting_eraseFwd s.fwd k

/-- representation-only operations do nothing on the erased index -/
theorem plain_step_repr (s : Plain.State K) (op : Op K) (h : op.isRepr = true) : Plain.step s op = s := by
  cases op <;> simp [Op.isRepr] at h <;> rfl

theorem plain_foldl_filter (h : List (Op K)) : ∀ s : Plain.State K,
    h.foldl Plain.step s = (h.filter (fun op => !op.isRepr)).foldl Plain.step s := by
  induction h with
  | nil => intro s; rfl
  | cons op ops ih =>
    intro s
    simp only [List.foldl_cons, List.filter_cons]
    cases hr : op.isRepr with
    | true => simp only [Bool.not_true, Bool.false_eq_true, if_false]; rw [plain_step_repr s op hr]; exact ih s
    | false => simp only [Bool.not_false, if_true, List.foldl_cons]; exact ih _

end Hyp.Keyword
