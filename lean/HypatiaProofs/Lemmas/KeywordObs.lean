import HypatiaModel.IndexObs
import HypatiaProofs.Lemmas.KeywordQuery

/-!
Enumeration / statistics of the keyword index as functions of the document table (C06):
`ObsSpec` (what every observer reports, stated over the table), `ObsEq` (two states cannot be
told apart through the enumeration / statistics API), and the fresh-index construction.
Everything follows from the refinement invariant `Inv (erase s) t` of C02.
-/
set_option linter.unusedSectionVars false
set_option linter.unusedSimpArgs false
namespace Hyp.Keyword
open Hyp Hyp.Keyword.Spec

variable {K : Type} [DecidableEq K]

theorem keys_eraseFwd (fwd : Fwd K) : AMap.keys (eraseFwd fwd) = AMap.keys fwd := by
  unfold eraseFwd AMap.keys
  simp [List.map_map, Function.comp_def]

theorem length_of_mem_iff {α : Type} [DecidableEq α] {a b : List α} (ha : a.Nodup) (hb : b.Nodup)
    (h : ∀ x, x ∈ a ↔ x ∈ b) : a.length = b.length :=
  ((List.perm_ext_iff_of_nodup ha hb).mpr h).length_eq

/-- the generic form of `Facet.tequiv_of_get` -/
theorem tequiv_of_get_eq {t t' : Table K} (h : ∀ d, AMap.get t d = AMap.get t' d) : TEquiv t t' :=
  ⟨fun d => by rw [h d], fun d k => by unfold kwOf; rw [h d]⟩

theorem TEquiv.symm {t t' : Table K} (e : TEquiv t t') : TEquiv t' t :=
  ⟨fun d => (e.1 d).symm, fun d k => (e.2 d k).symm⟩

theorem TEquiv.kwOf_nil {t t' : Table K} (e : TEquiv t t') (d : Int) : kwOf t d = [] ↔ kwOf t' d = [] := by
  simp only [List.eq_nil_iff_forall_not_mem, e.2 d]

theorem TEquiv.known {t t' : Table K} (e : TEquiv t t') (d : Int) : Known t d ↔ Known t' d := by
  unfold Known; rw [e.1 d, ne_eq, ne_eq, e.kwOf_nil d]

/-- two `document_repr` answers show the same keyword set (`repr` of an `OOSet` lists the members
in key order, so equal sets print identically; the default is returned by both or by neither) -/
def SameRepr : Option (List K) → Option (List K) → Prop
  | none, none => True
  | some a, some b => a.Perm b
  | _, _ => False

section inv
variable {s : State K} {t : Table K}

theorem indexed_mem_of_inv (h : Inv (erase s) t) (d : Int) : d ∈ indexed s ↔ kwOf t d ≠ [] :=
  (viewOK_of_inv h.toInvCore).indexed d

theorem docids_mem_of_inv (h : Inv (erase s) t) (d : Int) : d ∈ docids s ↔ Known t d := by
  have hv : ViewOK s.view t := by rw [← view_erase]; exact viewOK_of_inv h.toInvCore
  rw [mem_docids hv, known_iff]

theorem nodup_docids_of_inv (h : Inv (erase s) t) : (docids s).Nodup := by
  have hi : (indexed s).Nodup := h.wf_rev
  have hn : s.notIndexed.Nodup := h.nd_ni
  show (View.docids s.view).Nodup
  unfold View.docids
  split
  · exact hi
  · split
    · exact hn
    · exact LSet.nodup_union hn _

theorem mem_uniqueValues_of_inv (h : Inv (erase s) t) (k : K) :
    k ∈ uniqueValues s ↔ ∃ d, k ∈ kwOf t d := by
  unfold uniqueValues
  rw [← keys_eraseFwd, AMap.mem_keys_iff]
  constructor
  · intro hs
    cases hg : AMap.get (eraseFwd s.fwd) k with
    | none => simp [hg] at hs
    | some st =>
      have hne := h.fwd_ok.ne k st hg
      cases st with
      | nil => exact absurd rfl hne
      | cons d ds =>
        have hp : d ∈ Plain.posting (erase s).fwd k := by
          show d ∈ (AMap.get (eraseFwd s.fwd) k).getD []
          simp [hg]
        exact ⟨d, (h.rev_mem d k).mp ((h.fwd_eq k d).mp hp)⟩
  · rintro ⟨d, hd⟩
    have hp : d ∈ Plain.posting (erase s).fwd k := (h.fwd_eq k d).mpr ((h.rev_mem d k).mpr hd)
    cases hg : AMap.get (eraseFwd s.fwd) k with
    | none =>
      have : d ∈ (AMap.get (eraseFwd s.fwd) k).getD [] := hp
      simp [hg] at this
    | some st => rfl

end inv

/-- Everything the enumeration / statistics API reports, as a function of the document table. -/
structure ObsSpec (s : State K) (t : Table K) : Prop where
  indexed_mem : ∀ d, d ∈ indexed s ↔ kwOf t d ≠ []
  not_indexed_mem : ∀ d, d ∈ s.notIndexed ↔ AMap.get t d = some none
  docids_mem : ∀ d, d ∈ docids s ↔ Known t d
  disjoint : ∀ d, ¬ (d ∈ indexed s ∧ d ∈ s.notIndexed)
  docids_union : ∀ d, d ∈ docids s ↔ d ∈ indexed s ∨ d ∈ s.notIndexed
  indexed_count : indexedCount s = (indexed s).length ∧ (indexed s).Nodup
  not_indexed_count : notIndexedCount s = s.notIndexed.length ∧ s.notIndexed.Nodup
  docids_count : docidsCount s = (docids s).length ∧ (docids s).Nodup
  /-- the `_num_docs` counter (no public reader) is the number of indexed documents -/
  num_docs : numDocsCounter s = (indexed s).length
  word_count : wordCount s = (uniqueValues s).length ∧ (uniqueValues s).Nodup
  unique_values_mem : ∀ k, k ∈ uniqueValues s ↔ ∃ d, k ∈ kwOf t d
  /-- `document_repr` returns the default exactly for ids that are not indexed -/
  document_repr_default : ∀ d, documentRepr s d = none ↔ d ∉ indexed s
  /-- otherwise it shows exactly the document's current keyword set, each keyword once -/
  document_repr_value : ∀ d l, documentRepr s d = some l → l.Nodup ∧ ∀ k, k ∈ l ↔ k ∈ kwOf t d

theorem obsSpec_of_inv {s : State K} {t : Table K} (h : Inv (erase s) t) : ObsSpec s t where
  indexed_mem := indexed_mem_of_inv h
  not_indexed_mem := h.ni_eq
  docids_mem := docids_mem_of_inv h
  disjoint := by
    rintro d ⟨h1, h2⟩
    have a := (indexed_mem_of_inv h d).mp h1
    have b : AMap.get t d = some none := (h.ni_eq d).mp h2
    exact a (by simp [kwOf, b])
  docids_union := by
    intro d
    rw [docids_mem_of_inv h, indexed_mem_of_inv h]
    have : d ∈ s.notIndexed ↔ AMap.get t d = some none := h.ni_eq d
    rw [this]
    unfold Known
    exact Or.comm
  indexed_count := ⟨by unfold indexedCount indexed; rw [AMap.length_keys], h.wf_rev⟩
  not_indexed_count := ⟨rfl, h.nd_ni⟩
  docids_count := ⟨rfl, nodup_docids_of_inv h⟩
  num_docs := by
    have : s.numDocs = s.rev.length := h.num
    unfold numDocsCounter indexed
    rw [this, AMap.length_keys]
  word_count := ⟨by unfold wordCount uniqueValues; rw [AMap.length_keys],
    by unfold uniqueValues; rw [← keys_eraseFwd]; exact h.fwd_ok.wf⟩
  unique_values_mem := mem_uniqueValues_of_inv h
  document_repr_default := by
    intro d
    rw [indexed_mem_of_inv h, ne_eq, Classical.not_not]
    exact h.toInvCore.rev_none_iff d
  document_repr_value := by
    intro d l hl
    have hg : AMap.get (erase s).rev d = some l := hl
    refine ⟨h.rev_nd d l hg, fun k => ?_⟩
    have := h.rev_mem d k
    rw [InvCore.kws_of_get hg] at this
    exact this

/-- two index states are observationally equal through the enumeration / statistics API -/
structure ObsEq (s s' : State K) : Prop where
  indexed_eq : ∀ d, d ∈ indexed s ↔ d ∈ indexed s'
  not_indexed_eq : ∀ d, d ∈ s.notIndexed ↔ d ∈ s'.notIndexed
  docids_eq : ∀ d, d ∈ docids s ↔ d ∈ docids s'
  indexed_count_eq : indexedCount s = indexedCount s'
  not_indexed_count_eq : notIndexedCount s = notIndexedCount s'
  docids_count_eq : docidsCount s = docidsCount s'
  num_docs_eq : numDocsCounter s = numDocsCounter s'
  word_count_eq : wordCount s = wordCount s'
  unique_values_eq : ∀ k, k ∈ uniqueValues s ↔ k ∈ uniqueValues s'
  document_repr_eq : ∀ d, SameRepr (documentRepr s d) (documentRepr s' d)

/-- states that represent equivalent tables (same withdrawn ids, same keyword sets) are
observationally equal -/
theorem obsEq_of_inv {s s' : State K} {t t' : Table K} (h : Inv (erase s) t) (h' : Inv (erase s') t')
    (e : TEquiv t t') : ObsEq s s' := by
  have o := obsSpec_of_inv h
  have o' := obsSpec_of_inv h'
  have hi : ∀ d, d ∈ indexed s ↔ d ∈ indexed s' := by
    intro d; rw [o.indexed_mem, o'.indexed_mem, ne_eq, ne_eq, e.kwOf_nil d]
  have hn : ∀ d, d ∈ s.notIndexed ↔ d ∈ s'.notIndexed := by
    intro d; rw [o.not_indexed_mem, o'.not_indexed_mem, e.1 d]
  have hd : ∀ d, d ∈ docids s ↔ d ∈ docids s' := by
    intro d; rw [o.docids_mem, o'.docids_mem, e.known d]
  have hu : ∀ k, k ∈ uniqueValues s ↔ k ∈ uniqueValues s' := by
    intro k; rw [o.unique_values_mem, o'.unique_values_mem]
    constructor <;> rintro ⟨d, hd'⟩
    · exact ⟨d, (e.2 d k).mp hd'⟩
    · exact ⟨d, (e.2 d k).mpr hd'⟩
  have hil : (indexed s).length = (indexed s').length :=
    length_of_mem_iff o.indexed_count.2 o'.indexed_count.2 hi
  refine ⟨hi, hn, hd, ?_, ?_, ?_, ?_, ?_, hu, ?_⟩
  · rw [o.indexed_count.1, o'.indexed_count.1]; exact hil
  · rw [o.not_indexed_count.1, o'.not_indexed_count.1]
    exact length_of_mem_iff o.not_indexed_count.2 o'.not_indexed_count.2 hn
  · rw [o.docids_count.1, o'.docids_count.1]
    exact length_of_mem_iff o.docids_count.2 o'.docids_count.2 hd
  · rw [o.num_docs, o'.num_docs, hil]
  · rw [o.word_count.1, o'.word_count.1]
    exact length_of_mem_iff o.word_count.2 o'.word_count.2 hu
  · intro d
    cases ha : documentRepr s d with
    | none =>
      have : documentRepr s' d = none := by
        rw [o'.document_repr_default, ← hi d, ← o.document_repr_default]; exact ha
      rw [this]; trivial
    | some l =>
      cases hb : documentRepr s' d with
      | none =>
        have : documentRepr s d = none := by
          rw [o.document_repr_default, hi d, ← o'.document_repr_default]; exact hb
        rw [ha] at this; cases this
      | some l' =>
        have a := o.document_repr_value d l ha
        have b := o'.document_repr_value d l' hb
        show l.Perm l'
        exact (List.perm_ext_iff_of_nodup a.1 b.1).mpr (fun k => by rw [a.2 k, b.2 k, e.2 d k])

/-! ## the table of a history is a well-formed map; a fresh index sees the same table -/

theorem table_wf (h : List (Op K)) : AMap.WF (table h) := by
  unfold table
  suffices ∀ t : Table K, AMap.WF t → AMap.WF (h.foldl stepT t) from this _ AMap.WF_nil
  induction h with
  | nil => intro t ht; exact ht
  | cons op ops ih =>
    intro t ht
    simp only [List.foldl_cons]
    apply ih
    cases op with
    | index d v => exact AMap.WF_set ht d v
    | indexStr d =>
      show AMap.WF (if AMap.get t d = some none then AMap.erase t d else t)
      split
      · exact AMap.WF_erase ht d
      · exact ht
    | unindex d => exact AMap.WF_erase ht d
    | reset => exact AMap.WF_nil
    | optimize => exact ht
    | setThr n => exact ht

theorem get_foldl_freshOps (t acc : Table K) (d : Int) (hwf : AMap.WF t)
    (hdis : ∀ k, k ∈ AMap.keys t → AMap.get acc k = none) :
    AMap.get ((freshOps t).foldl stepT acc) d =
      match AMap.get t d with
      | some x => some x
      | none => AMap.get acc d := by
  induction t generalizing acc with
  | nil => simp [freshOps]
  | cons p ps ih =>
    obtain ⟨k, x⟩ := p
    unfold AMap.WF AMap.keys at hwf
    simp only [List.map_cons, List.nodup_cons] at hwf
    simp only [freshOps, List.map_cons, List.foldl_cons, stepT]
    have := ih (AMap.set acc k x) hwf.2 (by
      intro k' hk'
      rw [AMap.get_set]
      have : k ≠ k' := by intro e; subst e; exact hwf.1 hk'
      simp only [this, if_false]
      exact hdis k' (by simp [AMap.keys]; exact Or.inr (by simpa [AMap.keys] using hk')))
    unfold freshOps at this
    rw [this, AMap.get_cons]
    by_cases e : k = d
    · subst e
      have : AMap.get ps k = none := (AMap.not_mem_keys_iff ps k).mp hwf.1
      simp [this, AMap.get_set]
    · simp only [e, if_false]
      cases AMap.get ps d with
      | some y => rfl
      | none => simp [AMap.get_set, e]

theorem table_freshOps (t : Table K) (hwf : AMap.WF t) (d : Int) :
    AMap.get (table (freshOps t)) d = AMap.get t d := by
  unfold table
  rw [get_foldl_freshOps t [] d hwf (by simp)]
  cases AMap.get t d <;> simp

theorem table_setThr_cons (n : Nat) (h : List (Op K)) : table (Op.setThr n :: h) = table h := rfl

theorem get_set_erase (t : Table K) (d : Int) (x : Option (List K)) (d' : Int) :
    AMap.get (AMap.set (AMap.erase t d) d x) d' = AMap.get (AMap.set t d x) d' := by
  rw [AMap.get_set, AMap.get_set, AMap.get_erase]; split <;> simp_all

end Hyp.Keyword
