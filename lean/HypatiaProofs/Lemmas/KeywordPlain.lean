import HypatiaModel.KeywordPlain
import HypatiaModel.Spec.KeywordSpec

set_option linter.unusedSectionVars false
set_option linter.unusedSimpArgs false
set_option linter.unusedVariables false
namespace Hyp.Keyword
open Hyp Hyp.Keyword.Spec

variable {K : Type} [DecidableEq K]

/-! ## small facts -/

theorem mem_dedup (l : List K) (x : K) : x ∈ dedup l ↔ x ∈ l := by
  induction l with
  | nil => simp [dedup]
  | cons a l ih => simp only [dedup, LSet.mem_insert, ih, List.mem_cons]

theorem nodup_dedup (l : List K) : (dedup l).Nodup := by
  induction l with
  | nil => simp [dedup]
  | cons a l ih => exact LSet.nodup_insert ih a

theorem dedup_eq_nil {l : List K} : dedup l = [] ↔ l = [] := by
  constructor
  · intro h
    cases l with
    | nil => rfl
    | cons a l =>
      have : a ∈ dedup (a :: l) := (mem_dedup _ _).mpr (by simp)
      rw [h] at this; cases this
  · rintro rfl; rfl

/-- the keyword set the reverse map holds for a document (`[]` when absent) -/
def kws (rev : AMap Int (List K)) (d : Int) : List K := (AMap.get rev d).getD []

theorem kws_erase (rev : AMap Int (List K)) (d d' : Int) :
    kws (AMap.erase rev d) d' = if d = d' then [] else kws rev d' := by
  unfold kws; rw [AMap.get_erase]; split <;> simp

theorem kws_set (rev : AMap Int (List K)) (d : Int) (l : List K) (d' : Int) :
    kws (AMap.set rev d l) d' = if d = d' then l else kws rev d' := by
  unfold kws; rw [AMap.get_set]; split <;> simp

theorem kwOf_erase (t : Table K) (d d' : Int) :
    kwOf (AMap.erase t d) d' = if d = d' then [] else kwOf t d' := by
  unfold kwOf; rw [AMap.get_erase]
  by_cases e : d = d' <;> simp [e]

theorem kwOf_set (t : Table K) (d : Int) (v : Option (List K)) (d' : Int) :
    kwOf (AMap.set t d v) d' = if d = d' then v.getD [] else kwOf t d' := by
  unfold kwOf; rw [AMap.get_set]
  by_cases e : d = d'
  · simp only [e, if_true]; cases v <;> simp
  · simp only [e, if_false]

namespace Plain

theorem posting_set (fwd : Fwd K) (w : K) (st : List Int) (k : K) :
    posting (AMap.set fwd w st) k = if w = k then st else posting fwd k := by
  unfold posting; rw [AMap.get_set]; split <;> simp

theorem posting_erase (fwd : Fwd K) (w k : K) :
    posting (AMap.erase fwd w) k = if w = k then [] else posting fwd k := by
  unfold posting; rw [AMap.get_erase]; split <;> simp

/-- well-formedness of the forward map alone -/
structure FwdOK (fwd : Fwd K) : Prop where
  wf : AMap.WF fwd
  ne : ∀ k st, AMap.get fwd k = some st → st ≠ []
  nd : ∀ k st, AMap.get fwd k = some st → st.Nodup

theorem fwdOK_nil : FwdOK ([] : Fwd K) := ⟨AMap.WF_nil, by simp, by simp⟩

theorem FwdOK.set {fwd : Fwd K} (h : FwdOK fwd) (w : K) (st : List Int) (hne : st ≠ [])
    (hnd : st.Nodup) : FwdOK (AMap.set fwd w st) := by
  refine ⟨AMap.WF_set h.wf w st, ?_, ?_⟩
  · intro k st' hg
    rw [AMap.get_set] at hg
    by_cases e : w = k
    · simp only [e, if_true, Option.some.injEq] at hg; rw [← hg]; exact hne
    · simp only [e, if_false] at hg; exact h.ne k st' hg
  · intro k st' hg
    rw [AMap.get_set] at hg
    by_cases e : w = k
    · simp only [e, if_true, Option.some.injEq] at hg; rw [← hg]; exact hnd
    · simp only [e, if_false] at hg; exact h.nd k st' hg

theorem FwdOK.erase {fwd : Fwd K} (h : FwdOK fwd) (w : K) : FwdOK (AMap.erase fwd w) := by
  refine ⟨AMap.WF_erase h.wf w, ?_, ?_⟩
  · intro k st' hg
    rw [AMap.get_erase] at hg
    by_cases e : w = k
    · simp [e] at hg
    · simp only [e, if_false] at hg; exact h.ne k st' hg
  · intro k st' hg
    rw [AMap.get_erase] at hg
    by_cases e : w = k
    · simp [e] at hg
    · simp only [e, if_false] at hg; exact h.nd k st' hg

theorem posting_nodup {fwd : Fwd K} (h : FwdOK fwd) (k : K) : (posting fwd k).Nodup := by
  unfold posting
  cases hg : AMap.get fwd k with
  | none => simp
  | some st => simpa using h.nd k st hg

/-- one pass of the removal loop: `idx[w].remove(d); if not idx[w]: del idx[w]` -/
def unpost1 (fwd : Fwd K) (d : Int) (w : K) (set : List Int) : Fwd K :=
  if LSet.remove set d = [] then AMap.erase fwd w else AMap.set fwd w (LSet.remove set d)

theorem mem_posting_unpost1 {fwd : Fwd K} {d : Int} {w : K} {set : List Int}
    (hg : AMap.get fwd w = some set) (k : K) (x : Int) :
    x ∈ posting (unpost1 fwd d w set) k ↔ x ∈ posting fwd k ∧ ¬ (k = w ∧ x = d) := by
  have hp : posting fwd w = set := by simp [posting, hg]
  unfold unpost1
  by_cases hempty : LSet.remove set d = []
  · simp only [hempty, if_true, posting_erase]
    by_cases e : w = k
    · subst e
      simp only [if_true, List.not_mem_nil, false_iff, hp, true_and, not_and, Classical.not_not]
      intro hx
      have : ∀ y ∈ set, y = d := by
        intro y hy
        have := (List.filter_eq_nil_iff.mp hempty) y hy
        simpa using this
      exact this x hx
    · simp only [e, if_false]
      constructor
      · intro h; exact ⟨h, fun c => e c.1.symm⟩
      · exact fun h => h.1
  · simp only [hempty, if_false, posting_set]
    by_cases e : w = k
    · subst e
      simp only [if_true, LSet.mem_remove, hp, true_and]
      constructor
      · rintro ⟨h1, h2⟩; exact ⟨h2, h1⟩
      · rintro ⟨h1, h2⟩; exact ⟨h2, h1⟩
    · simp only [e, if_false]
      constructor
      · intro h; exact ⟨h, fun c => e c.1.symm⟩
      · exact fun h => h.1

theorem fwdOK_unpost1 {fwd : Fwd K} (h : FwdOK fwd) {d : Int} {w : K} {set : List Int}
    (hg : AMap.get fwd w = some set) : FwdOK (unpost1 fwd d w set) := by
  unfold unpost1
  by_cases hempty : LSet.remove set d = []
  · simp only [hempty, if_true]; exact h.erase w
  · simp only [hempty, if_false]
    exact h.set w _ hempty (LSet.nodup_remove (h.nd w set hg) d)

theorem unpostAll_cons {fwd : Fwd K} {d : Int} {w : K} {ws : List K} {set : List Int}
    (hg : AMap.get fwd w = some set) (hd : d ∈ set) :
    unpostAll fwd d (w :: ws) = unpostAll (unpost1 fwd d w set) d ws := by
  simp only [unpostAll, hg, hd, if_true, unpost1]

/-- Effect of the removal loop when every listed word's posting contains the docid (which the
invariant guarantees): no `KeyError`, and exactly `d` disappears from exactly those postings. -/
theorem unpostAll_spec (d : Int) (ws : List K) : ∀ (fwd : Fwd K), FwdOK fwd → ws.Nodup →
    (∀ w ∈ ws, d ∈ posting fwd w) →
    (unpostAll fwd d ws).2 = true ∧ FwdOK (unpostAll fwd d ws).1 ∧
      ∀ k x, x ∈ posting (unpostAll fwd d ws).1 k ↔ x ∈ posting fwd k ∧ ¬ (k ∈ ws ∧ x = d) := by
  induction ws with
  | nil => intro fwd h _ _; simp [unpostAll, h]
  | cons w ws ih =>
    intro fwd h hnd hin
    have hw : d ∈ posting fwd w := hin w (by simp)
    cases hg : AMap.get fwd w with
    | none => simp [posting, hg] at hw
    | some set =>
      have hd : d ∈ set := by simpa [posting, hg] using hw
      rw [unpostAll_cons hg hd]
      rw [List.nodup_cons] at hnd
      have h1 := fwdOK_unpost1 (d := d) h hg
      have hin' : ∀ w' ∈ ws, d ∈ posting (unpost1 fwd d w set) w' := by
        intro w' hw'
        rw [mem_posting_unpost1 hg]
        refine ⟨hin w' (List.mem_cons_of_mem _ hw'), ?_⟩
        rintro ⟨e, _⟩; subst e; exact hnd.1 hw'
      obtain ⟨a, b, c⟩ := ih _ h1 hnd.2 hin'
      refine ⟨a, b, ?_⟩
      intro k x
      rw [c, mem_posting_unpost1 hg, List.mem_cons]
      constructor
      · rintro ⟨⟨h1, h2⟩, h3⟩
        refine ⟨h1, ?_⟩
        rintro ⟨h4 | h4, h5⟩
        · exact h2 ⟨h4, h5⟩
        · exact h3 ⟨h4, h5⟩
      · rintro ⟨h1, h2⟩
        exact ⟨⟨h1, fun c => h2 ⟨Or.inl c.1, c.2⟩⟩, fun c => h2 ⟨Or.inr c.1, c.2⟩⟩

/-- Effect of `_insert_forward`. -/
theorem insertForward_spec (d : Int) (ws : List K) : ∀ (fwd : Fwd K), FwdOK fwd →
    FwdOK (insertForward fwd d ws) ∧
      ∀ k x, x ∈ posting (insertForward fwd d ws) k ↔ x ∈ posting fwd k ∨ (k ∈ ws ∧ x = d) := by
  induction ws with
  | nil => intro fwd h; simp [insertForward, h]
  | cons w ws ih =>
    intro fwd h
    simp only [insertForward]
    have hnd0 : ((AMap.get fwd w).getD []).Nodup := posting_nodup h w
    have h1 : FwdOK (AMap.set fwd w (LSet.insert ((AMap.get fwd w).getD []) d)) := by
      apply h.set
      · unfold LSet.insert; split
        · next hm => intro e; rw [e] at hm; cases hm
        · simp
      · exact LSet.nodup_insert hnd0 d
    obtain ⟨a, b⟩ := ih _ h1
    refine ⟨a, ?_⟩
    intro k x
    rw [b, posting_set, List.mem_cons]
    by_cases e : w = k
    · subst e
      simp only [if_true, LSet.mem_insert]
      show (x = d ∨ x ∈ posting fwd w) ∨ _ ↔ _
      constructor
      · rintro ((h | h) | h)
        · exact Or.inr ⟨Or.inl trivial, h⟩
        · exact Or.inl h
        · exact Or.inr ⟨Or.inr h.1, h.2⟩
      · rintro (h | ⟨h | h, h2⟩)
        · exact Or.inl (Or.inr h)
        · exact Or.inl (Or.inl h2)
        · exact Or.inr ⟨h, h2⟩
    · simp only [e, if_false]
      constructor
      · rintro (h | h)
        · exact Or.inl h
        · exact Or.inr ⟨Or.inr h.1, h.2⟩
      · rintro (h | ⟨h | h, h2⟩)
        · exact Or.inl h
        · exact absurd h.symm e
        · exact Or.inr ⟨h, h2⟩

end Plain

/-! ## the refinement invariant (on the representation-erased state) -/

/-- everything except the document counter -/
structure InvCore (s : Plain.State K) (t : Table K) : Prop where
  rev_mem : ∀ d k, k ∈ kws s.rev d ↔ k ∈ kwOf t d
  rev_ne : ∀ d l, AMap.get s.rev d = some l → l ≠ []
  rev_nd : ∀ d l, AMap.get s.rev d = some l → l.Nodup
  ni_eq : ∀ d, d ∈ s.notIndexed ↔ AMap.get t d = some none
  fwd_eq : ∀ k d, d ∈ Plain.posting s.fwd k ↔ k ∈ kws s.rev d
  fwd_ok : Plain.FwdOK s.fwd
  wf_rev : AMap.WF s.rev
  nd_ni : s.notIndexed.Nodup

/-- The refinement invariant: the attributes of the index represent the table. -/
structure Inv (s : Plain.State K) (t : Table K) : Prop extends InvCore s t where
  num : s.numDocs = s.rev.length

theorem inv_init : Inv (Plain.init : Plain.State K) ([] : Table K) := by
  refine ⟨⟨?_, ?_, ?_, ?_, ?_, Plain.fwdOK_nil, AMap.WF_nil, ?_⟩, ?_⟩ <;>
    simp [Plain.init, kws, kwOf, Plain.posting]

/-- the table enters the invariant only through "withdrawn" and the keyword membership -/
def TEquiv (t t' : Table K) : Prop :=
  (∀ d, AMap.get t d = some none ↔ AMap.get t' d = some none) ∧ (∀ d k, k ∈ kwOf t d ↔ k ∈ kwOf t' d)

theorem InvCore.congr {s : Plain.State K} {t t' : Table K} (h : InvCore s t) (e : TEquiv t t') :
    InvCore s t' :=
  { h with rev_mem := fun d k => (h.rev_mem d k).trans (e.2 d k),
           ni_eq := fun d => (h.ni_eq d).trans (e.1 d) }

theorem Inv.congr {s : Plain.State K} {t t' : Table K} (h : Inv s t) (e : TEquiv t t') : Inv s t' :=
  ⟨h.toInvCore.congr e, h.num⟩

theorem InvCore.rev_none_iff {s : Plain.State K} {t : Table K} (h : InvCore s t) (d : Int) :
    AMap.get s.rev d = none ↔ kwOf t d = [] := by
  constructor
  · intro hg
    apply List.eq_nil_iff_forall_not_mem.mpr
    intro k hk
    have := (h.rev_mem d k).mpr hk
    simp [kws, hg] at this
  · intro hk
    cases hg : AMap.get s.rev d with
    | none => rfl
    | some l =>
      exfalso
      have hne := h.rev_ne d l hg
      cases l with
      | nil => exact hne rfl
      | cons a l =>
        have : a ∈ kwOf t d := (h.rev_mem d a).mp (by simp [kws, hg])
        rw [hk] at this; cases this

theorem InvCore.kws_of_get {s : Plain.State K} {d : Int} {l : List K}
    (hg : AMap.get s.rev d = some l) : kws s.rev d = l := by simp [kws, hg]

/-- a withdrawn document has no reverse entry -/
theorem InvCore.rev_none_of_withdrawn {s : Plain.State K} {t : Table K} (h : InvCore s t) {d : Int}
    (hw : AMap.get t d = some none) : AMap.get s.rev d = none := by
  rw [h.rev_none_iff]; simp [kwOf, hw]

/-- `unindex_doc` refines forgetting the document. -/
theorem unindexDoc_inv {s : Plain.State K} {t : Table K} (h : Inv s t) (d : Int) :
    Inv (Plain.unindexDoc s d) (AMap.erase t d) := by
  unfold Plain.unindexDoc
  cases hr : AMap.get s.rev d with
  | none =>
    have hk : kwOf t d = [] := (h.rev_none_iff d).mp hr
    refine ⟨⟨?_, h.rev_ne, h.rev_nd, ?_, h.fwd_eq, h.fwd_ok, h.wf_rev, LSet.nodup_remove h.nd_ni d⟩, h.num⟩
    · intro d' k; (try dsimp only); rw [kwOf_erase, h.rev_mem]
      by_cases e : d = d'
      · subst e; simp [hk]
      · simp [e]
    · intro d'; (try dsimp only); rw [LSet.mem_remove, AMap.get_erase, h.ni_eq]
      by_cases e : d = d'
      · subst e; simp
      · simp [e]; intro _; exact fun e' => e e'.symm
  | some l =>
    (try dsimp only)
    have hl : kws s.rev d = l := InvCore.kws_of_get hr
    have hin : ∀ w ∈ l, d ∈ Plain.posting s.fwd w := by
      intro w hw; rw [h.fwd_eq, hl]; exact hw
    obtain ⟨a, b, c⟩ := Plain.unpostAll_spec d l s.fwd h.fwd_ok (h.rev_nd d l hr) hin
    simp only [a, if_true]
    refine ⟨⟨?_, ?_, ?_, ?_, ?_, b, AMap.WF_erase h.wf_rev d, LSet.nodup_remove h.nd_ni d⟩, ?_⟩
    · intro d' k; (try dsimp only); rw [kws_erase, kwOf_erase]
      by_cases e : d = d'
      · simp [e]
      · simp only [e, if_false]; exact h.rev_mem d' k
    · intro d' l'; (try dsimp only); rw [AMap.get_erase]
      by_cases e : d = d'
      · simp [e]
      · simp only [e, if_false]; exact h.rev_ne d' l'
    · intro d' l'; (try dsimp only); rw [AMap.get_erase]
      by_cases e : d = d'
      · simp [e]
      · simp only [e, if_false]; exact h.rev_nd d' l'
    · intro d'; (try dsimp only); rw [LSet.mem_remove, AMap.get_erase, h.ni_eq]
      by_cases e : d = d'
      · subst e; simp
      · simp [e]; intro _; exact fun e' => e e'.symm
    · intro k x; (try dsimp only); rw [c, kws_erase, h.fwd_eq]
      by_cases e : d = x
      · subst e; simp [hl]
      · simp only [e, if_false]
        constructor
        · exact fun hh => hh.1
        · exact fun hh => ⟨hh, fun cc => e cc.2.symm⟩
    · (try dsimp only)
      have := AMap.length_erase_of_get h.wf_rev hr
      rw [h.num]; omega

/-- marking an unknown document as withdrawn -/
theorem markNotIndexed_inv {s : Plain.State K} {t : Table K} (h : Inv s t) (d : Int)
    (hnone : AMap.get t d = none) :
    Inv { s with notIndexed := LSet.insert s.notIndexed d } (AMap.set t d none) := by
  refine ⟨⟨?_, h.rev_ne, h.rev_nd, ?_, h.fwd_eq, h.fwd_ok, h.wf_rev, LSet.nodup_insert h.nd_ni d⟩, h.num⟩
  · intro d' k; (try dsimp only); rw [kwOf_set, h.rev_mem]
    by_cases e : d = d'
    · subst e; simp [kwOf, hnone]
    · simp [e]
  · intro d'; (try dsimp only); rw [LSet.mem_insert, AMap.get_set, h.ni_eq]
    by_cases e : d = d'
    · subst e; simp
    · simp [e]; exact fun e' => absurd e'.symm e

/-- `_not_indexed.remove(docid)` at the start of `index_doc`: the state then represents the
table without a "withdrawn" mark on `d`. -/
def unmark (t : Table K) (d : Int) : Table K := if AMap.get t d = some none then AMap.erase t d else t

theorem unmark_inv {s : Plain.State K} {t : Table K} (h : Inv s t) (d : Int) :
    Inv { s with notIndexed := LSet.remove s.notIndexed d } (unmark t d) := by
  unfold unmark
  by_cases hw : AMap.get t d = some none
  · simp only [hw, if_true]
    refine ⟨⟨?_, h.rev_ne, h.rev_nd, ?_, h.fwd_eq, h.fwd_ok, h.wf_rev, LSet.nodup_remove h.nd_ni d⟩, h.num⟩
    · intro d' k; (try dsimp only); rw [kwOf_erase, h.rev_mem]
      by_cases e : d = d'
      · subst e; simp [kwOf, hw]
      · simp [e]
    · intro d'; (try dsimp only); rw [LSet.mem_remove, AMap.get_erase, h.ni_eq]
      by_cases e : d = d'
      · subst e; simp
      · simp [e]; intro _; exact fun e' => e e'.symm
  · simp only [hw, if_false]
    have : d ∉ s.notIndexed := fun hc => hw ((h.ni_eq d).mp hc)
    rw [LSet.remove_of_not_mem this]; exact h

theorem unmark_not_withdrawn (t : Table K) (d : Int) : AMap.get (unmark t d) d ≠ some none := by
  unfold unmark
  by_cases hw : AMap.get t d = some none
  · simp [hw, AMap.get_erase]
  · simp [hw]

theorem unmark_get_ne (t : Table K) {d d' : Int} (e : d ≠ d') :
    AMap.get (unmark t d) d' = AMap.get t d' := by
  unfold unmark
  by_cases hw : AMap.get t d = some none
  · simp [hw, AMap.get_erase, e]
  · simp [hw]

theorem unmark_kwOf (t : Table K) (d d' : Int) : kwOf (unmark t d) d' = kwOf t d' := by
  unfold unmark
  by_cases hw : AMap.get t d = some none
  · simp only [hw, if_true, kwOf_erase]
    by_cases e : d = d'
    · subst e; simp [kwOf, hw]
    · simp [e]
  · simp [hw]

/-- after `unmark`, assigning `some l` to `d` gives the same table (up to `TEquiv`) as on `t` -/
theorem tequiv_set_unmark (t : Table K) (d : Int) (l : List K) :
    TEquiv (AMap.set (unmark t d) d (some l)) (AMap.set t d (some l)) := by
  constructor
  · intro d'; rw [AMap.get_set, AMap.get_set]
    by_cases e : d = d'
    · simp [e]
    · simp only [e, if_false]; rw [unmark_get_ne t e]
  · intro d' k; rw [kwOf_set, kwOf_set, unmark_kwOf]

theorem length_set_of_none {V : Type} {m : AMap Int V} {d : Int} (v : V)
    (h : AMap.get m d = none) : (AMap.set m d v).length = m.length + 1 := by
  unfold AMap.set; rw [AMap.erase_of_get_none h]; simp

theorem length_set_of_some {V : Type} {m : AMap Int V} (wf : AMap.WF m) {d : Int} {x : V} (v : V)
    (h : AMap.get m d = some x) : (AMap.set m d v).length = m.length := by
  unfold AMap.set
  have := AMap.length_erase_of_get wf h
  simp only [List.length_cons]; omega

/-- first indexing of a document with a non-empty keyword set -/
theorem insertNew_inv {s : Plain.State K} {t : Table K} (h : Inv s t) (d : Int) (new : List K)
    (hne : new ≠ []) (hnd : new.Nodup) (hnw : AMap.get t d ≠ some none)
    (hr : AMap.get s.rev d = none) (l : List K) (hl : ∀ k, k ∈ new ↔ k ∈ l) :
    Inv { s with fwd := Plain.insertForward s.fwd d new, rev := AMap.set s.rev d new,
                 numDocs := s.numDocs + 1 } (AMap.set t d (some l)) := by
  obtain ⟨a, b⟩ := Plain.insertForward_spec d new s.fwd h.fwd_ok
  have hk : kws s.rev d = [] := by simp [kws, hr]
  refine ⟨⟨?_, ?_, ?_, ?_, ?_, a, AMap.WF_set h.wf_rev d new, h.nd_ni⟩, ?_⟩
  · intro d' k; (try dsimp only); rw [kws_set, kwOf_set]
    by_cases e : d = d'
    · simp only [e, if_true, Option.getD_some]; exact hl k
    · simp only [e, if_false]; exact h.rev_mem d' k
  · intro d' l'; (try dsimp only); rw [AMap.get_set]
    by_cases e : d = d'
    · simp only [e, if_true, Option.some.injEq]; intro e2; rw [← e2]; exact hne
    · simp only [e, if_false]; exact h.rev_ne d' l'
  · intro d' l'; (try dsimp only); rw [AMap.get_set]
    by_cases e : d = d'
    · simp only [e, if_true, Option.some.injEq]; intro e2; rw [← e2]; exact hnd
    · simp only [e, if_false]; exact h.rev_nd d' l'
  · intro d'; (try dsimp only); rw [AMap.get_set, h.ni_eq]
    by_cases e : d = d'
    · subst e; simp [hnw]
    · simp [e]
  · intro k x; (try dsimp only); rw [b, kws_set, h.fwd_eq]
    by_cases e : d = x
    · subst e; simp [hk]
    · simp only [e, if_false]
      constructor
      · rintro (hh | hh)
        · exact hh
        · exact absurd hh.2.symm e
      · exact Or.inl
  · (try dsimp only); rw [length_set_of_none new hr, h.num]; simp

/-- the `kw_added` / `kw_removed` path of `index_doc` -/
theorem replace_inv {s : Plain.State K} {t : Table K} (h : Inv s t) (d : Int) (new : List K)
    (hne : new ≠ []) (hnd : new.Nodup) (hnw : AMap.get t d ≠ some none) (oldk : List K)
    (hr : AMap.get s.rev d = some oldk) (l : List K) (hl : ∀ k, k ∈ new ↔ k ∈ l) :
    (Plain.unpostAll s.fwd d (LSet.diff oldk new)).2 = true ∧
    Inv { s with fwd := Plain.insertForward (Plain.unpostAll s.fwd d (LSet.diff oldk new)).1 d
                          (LSet.diff new oldk),
                 rev := AMap.set s.rev d new } (AMap.set t d (some l)) := by
  have hk : kws s.rev d = oldk := InvCore.kws_of_get hr
  have hin : ∀ w ∈ LSet.diff oldk new, d ∈ Plain.posting s.fwd w := by
    intro w hw; rw [h.fwd_eq, hk]; exact ((LSet.mem_diff _ _ _).mp hw).1
  obtain ⟨a, b, c⟩ := Plain.unpostAll_spec d (LSet.diff oldk new) s.fwd h.fwd_ok
    (LSet.nodup_diff (h.rev_nd d oldk hr) new) hin
  obtain ⟨a2, b2⟩ := Plain.insertForward_spec d (LSet.diff new oldk) _ b
  refine ⟨a, ⟨?_, ?_, ?_, ?_, ?_, a2, AMap.WF_set h.wf_rev d new, h.nd_ni⟩, ?_⟩
  · intro d' k; (try dsimp only); rw [kws_set, kwOf_set]
    by_cases e : d = d'
    · simp only [e, if_true, Option.getD_some]; exact hl k
    · simp only [e, if_false]; exact h.rev_mem d' k
  · intro d' l'; (try dsimp only); rw [AMap.get_set]
    by_cases e : d = d'
    · simp only [e, if_true, Option.some.injEq]; intro e2; rw [← e2]; exact hne
    · simp only [e, if_false]; exact h.rev_ne d' l'
  · intro d' l'; (try dsimp only); rw [AMap.get_set]
    by_cases e : d = d'
    · simp only [e, if_true, Option.some.injEq]; intro e2; rw [← e2]; exact hnd
    · simp only [e, if_false]; exact h.rev_nd d' l'
  · intro d'; (try dsimp only); rw [AMap.get_set, h.ni_eq]
    by_cases e : d = d'
    · subst e; simp [hnw]
    · simp [e]
  · intro k x; (try dsimp only); rw [b2, c, kws_set, h.fwd_eq, LSet.mem_diff, LSet.mem_diff]
    by_cases e : d = x
    · subst e
      simp only [hk, if_true, and_true]
      by_cases h1 : k ∈ oldk <;> by_cases h2 : k ∈ new <;> simp [h1, h2]
    · simp only [e, if_false]
      constructor
      · rintro (hh | hh)
        · exact hh.1
        · exact absurd hh.2.symm e
      · exact fun hh => Or.inl ⟨hh, fun cc => e cc.2.symm⟩
  · (try dsimp only); rw [length_set_of_some h.wf_rev new hr, h.num]

/-- `index_doc` / `reindex_doc` refine `t[d] := value`. -/
theorem indexDoc_inv {s : Plain.State K} {t : Table K} (h : Inv s t) (d : Int) (v : Option (List K)) :
    Inv (Plain.indexDoc s d v) (AMap.set t d v) := by
  unfold Plain.indexDoc
  cases v with
  | none =>
    (try dsimp only)
    by_cases hin : d ∈ s.notIndexed
    · simp only [hin, if_true]
      have ht := (h.ni_eq d).mp hin
      apply h.congr
      constructor
      · intro d'; rw [AMap.get_set]
        by_cases e : d = d'
        · subst e; simp [ht]
        · simp [e]
      · intro d' k; rw [kwOf_set]
        by_cases e : d = d'
        · subst e; simp [kwOf, ht]
        · simp [e]
    · simp only [hin, if_false]
      have h1 := unindexDoc_inv h d
      have h2 := markNotIndexed_inv h1 d (by rw [AMap.get_erase]; simp)
      apply h2.congr
      constructor
      · intro d'; rw [AMap.get_set, AMap.get_set, AMap.get_erase]
        by_cases e : d = d' <;> simp [e]
      · intro d' k; rw [kwOf_set, kwOf_set, kwOf_erase]
        by_cases e : d = d' <;> simp [e]
  | some seq =>
    (try dsimp only)
    have h1 := unmark_inv h d
    have hnw := unmark_not_withdrawn t d
    by_cases hs : seq = []
    · subst hs
      simp only [if_true]
      -- the table `t[d] := []` is equivalent to forgetting `d`
      have te : TEquiv (AMap.erase (unmark t d) d) (AMap.set t d (some [])) := by
        constructor
        · intro d'; rw [AMap.get_set, AMap.get_erase]
          by_cases e : d = d'
          · simp [e]
          · simp only [e, if_false]; rw [unmark_get_ne t e]
        · intro d' k; rw [kwOf_set, kwOf_erase, unmark_kwOf]
          by_cases e : d = d' <;> simp [e]
      cases hr : AMap.get s.rev d with
      | none =>
        simp only [hr]
        have hk : kwOf (unmark t d) d = [] := (h1.rev_none_iff d).mp hr
        apply h1.congr
        constructor
        · intro d'; rw [← te.1, AMap.get_erase]
          by_cases e : d = d'
          · subst e; simp [hnw]
          · simp [e]
        · intro d' k; rw [← te.2, kwOf_erase]
          by_cases e : d = d'
          · subst e; simp [hk]
          · simp [e]
      | some oldk =>
        cases oldk with
        | nil => exact absurd rfl (h.rev_ne d [] hr)
        | cons a rest =>
          simp only [hr]
          exact (unindexDoc_inv h1 d).congr te
    · simp only [hs, if_false]
      have hne : dedup seq ≠ [] := fun e => hs (dedup_eq_nil.mp e)
      have hnd := nodup_dedup seq
      have hl : ∀ k, k ∈ dedup seq ↔ k ∈ seq := mem_dedup seq
      cases hr : AMap.get s.rev d with
      | none =>
        simp only [hr, insertReverse, hne, if_false]
        exact (insertNew_inv h1 d (dedup seq) hne hnd hnw hr seq hl).congr (tequiv_set_unmark t d seq)
      | some oldk =>
        simp only [hr]
        by_cases hsame : LSet.diff (dedup seq) oldk = [] ∧ LSet.diff oldk (dedup seq) = []
        · simp only [hsame, and_self, if_true]
          have hk : kws s.rev d = oldk := InvCore.kws_of_get hr
          have hiff : ∀ k, k ∈ oldk ↔ k ∈ seq := by
            intro k
            have e1 := List.eq_nil_iff_forall_not_mem.mp hsame.1 k
            have e2 := List.eq_nil_iff_forall_not_mem.mp hsame.2 k
            rw [LSet.mem_diff] at e1 e2
            rw [← hl]
            constructor
            · intro hh; exact Classical.byContradiction fun c => e2 ⟨hh, c⟩
            · intro hh; exact Classical.byContradiction fun c => e1 ⟨hh, c⟩
          apply h1.congr
          constructor
          · intro d'; rw [AMap.get_set]
            by_cases e : d = d'
            · subst e; simp [hnw]
            · simp only [e, if_false]; rw [unmark_get_ne t e]
          · intro d' k; rw [kwOf_set, unmark_kwOf]
            by_cases e : d = d'
            · subst e
              simp only [if_true, Option.getD_some]
              rw [← hiff, ← hk, h.rev_mem]
            · simp [e]
        · simp only [hsame, if_false]
          obtain ⟨ok, hinv⟩ := replace_inv h1 d (dedup seq) hne hnd hnw oldk hr seq hl
          simp only [ok, if_true, insertReverse, hne, if_false]
          exact hinv.congr (tequiv_set_unmark t d seq)

/-- a rejected `str` value: only the "withdrawn" mark is cleared -/
theorem indexStr_inv {s : Plain.State K} {t : Table K} (h : Inv s t) (d : Int) :
    Inv (Plain.indexStr s d) (if AMap.get t d = some none then AMap.erase t d else t) :=
  unmark_inv h d

/-- **Refinement**: after any history the (erased) index represents the history's table. -/
theorem plain_run_inv (hist : List (Op K)) : Inv (Plain.run hist) (table hist) := by
  unfold Plain.run table
  suffices ∀ (s : Plain.State K) (t : Table K), Inv s t →
      Inv (hist.foldl Plain.step s) (hist.foldl stepT t) from this _ _ inv_init
  induction hist with
  | nil => intro s t h; exact h
  | cons op ops ih =>
    intro s t h
    simp only [List.foldl_cons]
    apply ih
    cases op with
    | index d v => exact indexDoc_inv h d v
    | indexStr d => exact indexStr_inv h d
    | unindex d => exact unindexDoc_inv h d
    | reset => exact inv_init
    | optimize => exact h
    | setThr n => exact h

end Hyp.Keyword
