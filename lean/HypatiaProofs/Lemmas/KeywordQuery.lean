import HypatiaProofs.Lemmas.KeywordPlain
import HypatiaProofs.Lemmas.KeywordErase

set_option linter.unusedSectionVars false
set_option linter.unusedSimpArgs false
namespace Hyp.Keyword
open Hyp Hyp.Keyword.Spec

variable {K : Type} [DecidableEq K]

/-! ## set algebra of the search loops -/

theorem mem_foldl_union (sets : List (List Int)) (acc : List Int) (d : Int) :
    d ∈ sets.foldl LSet.union acc ↔ d ∈ acc ∨ ∃ s ∈ sets, d ∈ s := by
  induction sets generalizing acc with
  | nil => simp
  | cons x xs ih =>
    simp only [List.foldl_cons, ih, LSet.mem_union, List.mem_cons]
    constructor
    · rintro ((h | h) | ⟨s, hs, hd⟩)
      · exact Or.inl h
      · exact Or.inr ⟨x, Or.inl rfl, h⟩
      · exact Or.inr ⟨s, Or.inr hs, hd⟩
    · rintro (h | ⟨s, hs | hs, hd⟩)
      · exact Or.inl (Or.inl h)
      · subst hs; exact Or.inl (Or.inr hd)
      · exact Or.inr ⟨s, hs, hd⟩

theorem mem_multiunion (sets : List (List Int)) (d : Int) :
    d ∈ multiunion sets ↔ ∃ s ∈ sets, d ∈ s := by
  unfold multiunion; rw [mem_foldl_union]; simp

/-- the intersection loop with a running result -/
theorem mem_interLoop_some (d : Int) (sets : List (List Int)) : ∀ acc : List Int,
    d ∈ (interLoop (some acc) sets).getD [] ↔ d ∈ acc ∧ ∀ s ∈ sets, d ∈ s := by
  induction sets with
  | nil => intro acc; simp [interLoop]
  | cons x xs ih =>
    intro acc
    simp only [interLoop]
    by_cases he : LSet.inter acc x = []
    · simp only [he, if_true, Option.getD_some, List.not_mem_nil, false_iff]
      rintro ⟨h1, h2⟩
      have : d ∈ LSet.inter acc x := (LSet.mem_inter _ _ _).mpr ⟨h1, h2 x (by simp)⟩
      rw [he] at this; cases this
    · simp only [he, if_false]
      rw [ih, LSet.mem_inter]
      simp only [List.mem_cons, forall_eq_or_imp]
      constructor
      · rintro ⟨⟨h1, h2⟩, h3⟩; exact ⟨h1, h2, h3⟩
      · rintro ⟨h1, h2, h3⟩; exact ⟨⟨h1, h2⟩, h3⟩

theorem mem_interLoop_none (d : Int) (sets : List (List Int)) :
    d ∈ (interLoop none sets).getD [] ↔ sets ≠ [] ∧ ∀ s ∈ sets, d ∈ s := by
  cases sets with
  | nil => simp [interLoop]
  | cons x xs =>
    simp only [interLoop]
    by_cases he : x = []
    · simp only [he, if_true, Option.getD_some, List.not_mem_nil, false_iff]
      rintro ⟨_, h2⟩
      exact absurd (h2 [] (by simp)) (by simp)
    · simp only [he, if_false]
      rw [mem_interLoop_some]
      simp

/-! ## what a query sees, related to the table -/

/-- a view represents a table -/
structure ViewOK (v : View K) (t : Table K) : Prop where
  post : ∀ k d, d ∈ v.post k ↔ k ∈ kwOf t d
  indexed : ∀ d, d ∈ v.indexed ↔ kwOf t d ≠ []
  notIndexed : ∀ d, d ∈ v.notIndexed ↔ AMap.get t d = some none

theorem viewOK_of_inv {s : Plain.State K} {t : Table K} (h : InvCore s t) : ViewOK s.view t := by
  refine ⟨?_, ?_, h.ni_eq⟩
  · intro k d
    show d ∈ Plain.posting s.fwd k ↔ _
    rw [h.fwd_eq, h.rev_mem]
  · intro d
    show d ∈ AMap.keys s.rev ↔ _
    rw [AMap.mem_keys_iff]
    constructor
    · intro hs hk
      rw [(h.rev_none_iff d).mpr hk] at hs; cases hs
    · intro hne
      cases hg : AMap.get s.rev d with
      | none => exact absurd ((h.rev_none_iff d).mp hg) hne
      | some _ => rfl

theorem isKnown_iff (t : Table K) (d : Int) :
    isKnown t d = true ↔ AMap.get t d = some none ∨ kwOf t d ≠ [] := by
  unfold isKnown withdrawn
  cases kwOf t d <;> simp

theorem mem_known (t : Table K) (d : Int) : d ∈ known t ↔ isKnown t d = true := by
  unfold known
  rw [List.mem_filter, AMap.mem_keys_iff]
  constructor
  · exact fun h => h.2
  · intro h
    refine ⟨?_, h⟩
    rcases (isKnown_iff t d).mp h with h1 | h1
    · simp [h1]
    · unfold kwOf at h1
      cases hg : AMap.get t d with
      | none => simp [hg] at h1
      | some x => simp

theorem known_iff (t : Table K) (d : Int) : d ∈ known t ↔ Known t d := by
  unfold Known; rw [mem_known, isKnown_iff]

theorem known_of_kw {t : Table K} {d : Int} {k : K} (h : k ∈ kwOf t d) : d ∈ known t := by
  rw [mem_known, isKnown_iff]
  right; intro e; rw [e] at h; cases h

namespace View

theorem mem_searchOr {v : View K} {t : Table K} (h : ViewOK v t) (q : List K) (d : Int) :
    d ∈ v.searchOr q ↔ ∃ k ∈ q, k ∈ kwOf t d := by
  unfold searchOr
  rw [mem_multiunion]
  constructor
  · rintro ⟨s, hs, hd⟩
    obtain ⟨k, hk, rfl⟩ := List.mem_map.mp hs
    exact ⟨k, hk, (h.post k d).mp hd⟩
  · rintro ⟨k, hk, hd⟩
    exact ⟨v.post k, List.mem_map.mpr ⟨k, hk, rfl⟩, (h.post k d).mpr hd⟩

theorem mem_searchAnd {v : View K} {t : Table K} (h : ViewOK v t) (q : List K) (d : Int) :
    d ∈ v.searchAnd q ↔ q ≠ [] ∧ ∀ k ∈ q, k ∈ kwOf t d := by
  unfold searchAnd
  (try dsimp only)
  have key := mem_interLoop_none d
    (Sort.isort (fun a b => decide (a.length ≤ b.length)) (q.map v.post))
  rw [key]
  have hne : Sort.isort (fun a b => decide (a.length ≤ b.length)) (q.map v.post) ≠ [] ↔ q ≠ [] := by
    rw [← List.length_pos_iff, ← List.length_pos_iff, Sort.length_isort, List.length_map]
  rw [hne]
  simp only [Sort.mem_isort, List.mem_map]
  constructor
  · rintro ⟨h1, h2⟩
    exact ⟨h1, fun k hk => (h.post k d).mp (h2 _ ⟨k, hk, rfl⟩)⟩
  · rintro ⟨h1, h2⟩
    refine ⟨h1, ?_⟩
    rintro s ⟨k, hk, rfl⟩
    exact (h.post k d).mpr (h2 k hk)

theorem mem_docids {v : View K} {t : Table K} (h : ViewOK v t) (d : Int) :
    d ∈ v.docids ↔ d ∈ known t := by
  have hk : d ∈ known t ↔ d ∈ v.notIndexed ∨ d ∈ v.indexed := by
    rw [mem_known, isKnown_iff, h.notIndexed, h.indexed]
  rw [hk]
  unfold docids
  split
  · next h0 =>
    have : v.notIndexed = [] := List.eq_nil_of_length_eq_zero h0
    simp [this]
  · split
    · next _ h1 =>
      have : v.indexed = [] := List.eq_nil_of_length_eq_zero h1
      simp [this]
    · rw [LSet.mem_union]

theorem mem_negate {v : View K} {t : Table K} (h : ViewOK v t) (pos : List Int) (d : Int) :
    d ∈ v.negate pos ↔ d ∈ known t ∧ d ∉ pos := by
  unfold negate
  split
  · next h0 =>
    have : pos = [] := List.eq_nil_of_length_eq_zero h0
    simp [this, mem_docids h]
  · rw [LSet.mem_diff, mem_docids h]

end View

/-! ## the specification's comprehensions -/

theorem mem_spec_eq (t : Table K) (k : K) (d : Int) : d ∈ Spec.eq t k ↔ k ∈ kwOf t d := by
  unfold Spec.eq
  rw [List.mem_filter]
  simp only [decide_eq_true_eq]
  exact ⟨fun h => h.2, fun h => ⟨known_of_kw h, h⟩⟩

theorem mem_spec_any (t : Table K) (ks : List K) (d : Int) :
    d ∈ Spec.any t ks ↔ ∃ k ∈ ks, k ∈ kwOf t d := by
  unfold Spec.any
  rw [List.mem_filter]
  simp only [List.any_eq_true, decide_eq_true_eq]
  constructor
  · exact fun h => h.2
  · rintro ⟨k, hk, hd⟩; exact ⟨known_of_kw hd, k, hk, hd⟩

theorem mem_spec_all (t : Table K) (ks : List K) (d : Int) :
    d ∈ Spec.all t ks ↔ ks ≠ [] ∧ ∀ k ∈ ks, k ∈ kwOf t d := by
  unfold Spec.all
  by_cases he : ks = []
  · simp [he]
  · simp only [he, if_false, List.mem_filter, List.all_eq_true, decide_eq_true_eq, ne_eq,
      not_false_eq_true, true_and]
    constructor
    · exact fun h => h.2
    · intro h
      refine ⟨?_, h⟩
      cases ks with
      | nil => exact absurd rfl he
      | cons a rest => exact known_of_kw (h a (by simp))

theorem mem_spec_neg (t : Table K) (pos : List Int) (d : Int) :
    d ∈ Spec.neg t pos ↔ d ∈ known t ∧ d ∉ pos := by
  unfold Spec.neg; rw [List.mem_filter]; simp

/-! ## the index entry points on any state whose view represents a table -/

section entry
variable {s : State K} {t : Table K}

theorem mem_applyEq (h : ViewOK s.view t) (k : K) (d : Int) : d ∈ applyEq s k ↔ k ∈ kwOf t d := by
  unfold applyEq View.applyEq
  rw [View.mem_searchAnd h]; simp

theorem mem_applyAny (h : ViewOK s.view t) (ks : List K) (d : Int) :
    d ∈ applyAny s ks ↔ ∃ k ∈ ks, k ∈ kwOf t d := View.mem_searchOr h ks d

theorem mem_applyAll (h : ViewOK s.view t) (ks : List K) (d : Int) :
    d ∈ applyAll s ks ↔ ks ≠ [] ∧ ∀ k ∈ ks, k ∈ kwOf t d := View.mem_searchAnd h ks d

theorem mem_docids (h : ViewOK s.view t) (d : Int) : d ∈ docids s ↔ d ∈ known t :=
  View.mem_docids h d

theorem mem_applyNotEq (h : ViewOK s.view t) (k : K) (d : Int) :
    d ∈ applyNotEq s k ↔ d ∈ known t ∧ k ∉ kwOf t d := by
  unfold applyNotEq View.applyNotEq
  rw [View.mem_negate h, ← mem_applyEq h]; rfl

theorem mem_applyNotAny (h : ViewOK s.view t) (ks : List K) (d : Int) :
    d ∈ applyNotAny s ks ↔ d ∈ known t ∧ ¬ ∃ k ∈ ks, k ∈ kwOf t d := by
  unfold applyNotAny View.applyNotAny
  rw [View.mem_negate h, ← mem_applyAny h]; rfl

theorem mem_applyNotAll (h : ViewOK s.view t) (ks : List K) (d : Int) :
    d ∈ applyNotAll s ks ↔ d ∈ known t ∧ ¬ (ks ≠ [] ∧ ∀ k ∈ ks, k ∈ kwOf t d) := by
  unfold applyNotAll View.applyNotAll
  rw [View.mem_negate h, ← mem_applyAll h]; rfl

/-- every index entry point computes the specification's meaning of the query -/
theorem applyIndex_sem (h : ViewOK s.view t) (q : QObj K) (d : Int) :
    d ∈ QObj.applyIndex s q ↔ d ∈ Spec.sem t q := by
  cases q with
  | eq k => simp only [QObj.applyIndex, Spec.sem, mem_applyEq h, mem_spec_eq]
  | noteq k => simp only [QObj.applyIndex, Spec.sem, mem_applyNotEq h, mem_spec_neg, mem_spec_eq]
  | any ks => simp only [QObj.applyIndex, Spec.sem, mem_applyAny h, mem_spec_any]
  | notany ks => simp only [QObj.applyIndex, Spec.sem, mem_applyNotAny h, mem_spec_neg, mem_spec_any]
  | all ks => simp only [QObj.applyIndex, Spec.sem, mem_applyAll h, mem_spec_all]
  | notall ks => simp only [QObj.applyIndex, Spec.sem, mem_applyNotAll h, mem_spec_neg, mem_spec_all]

end entry

/-! ## transfer to the tagged model -/

theorem run_inv (h : List (Op K)) : Inv (erase (run h)) (table h) := by
  rw [erase_run]; exact plain_run_inv h

theorem run_viewOK (h : List (Op K)) : ViewOK (run h).view (table h) := by
  rw [← view_erase]; exact viewOK_of_inv (run_inv h).toInvCore

end Hyp.Keyword
