import HypatiaModel.Spec.CatalogSpec
import HypatiaProofs.Lemmas.FieldQuery
import HypatiaProofs.Lemmas.KeywordQuery

/-!
Lemmas for C12: the legacy argument forms of `FieldIndex.apply` / `KeywordIndex.apply` mean what
the specification says, on every index state that represents a document table.
-/
set_option linter.unusedSectionVars false
set_option linter.unusedSimpArgs false
namespace Hyp.Legacy
open Hyp Hyp.Catalog.Spec

/-! ## field index -/

/-- a document's value satisfies the element -/
def Sat (t : Field.Spec.Table Int) (d : Int) (e : Elem Int) : Prop :=
  ∃ v, Field.Spec.valueOf t d = some v ∧ elemSat e v = true

theorem mem_elemSet {s : Field.State Int} {t : Field.Spec.Table Int} (h : Field.Inv s t)
    (e : Elem Int) (d : Int) : d ∈ elemSet s e ↔ Sat t d e := by
  unfold Sat
  cases e with
  | val c =>
    unfold elemSet
    rw [Field.mem_multiunion, Field.mem_valuesInRange h]
    constructor
    · rintro ⟨v, hv, hr⟩
      exact ⟨v, hv, by simpa [elemSat] using (Field.point_range intOrdLaws c v).mp hr⟩
    · rintro ⟨v, hv, hr⟩
      have : v = c := by simpa [elemSat] using hr
      exact ⟨v, hv, (Field.point_range intOrdLaws c v).mpr this⟩
  | range lo hi =>
    unfold elemSet
    rw [Field.mem_multiunion, Field.mem_valuesInRange h]
    rfl

theorem nodup_elemSet (s : Field.State Int) (e : Elem Int) : (elemSet s e).Nodup := by
  cases e <;> exact Field.nodup_multiunion _

theorem mem_interFold (sets : List IdSet) (d : Int) : ∀ acc : Option IdSet,
    d ∈ (sets.foldl interStep acc).getD [] ↔
      (match acc with | none => sets ≠ [] | some r => d ∈ r) ∧ ∀ s ∈ sets, d ∈ s := by
  induction sets with
  | nil => intro acc; cases acc <;> simp
  | cons x xs ih =>
    intro acc
    simp only [List.foldl_cons]
    rw [ih]
    cases acc with
    | none => simp [interStep]
    | some r =>
      simp only [interStep, LSet.mem_inter, List.mem_cons, forall_eq_or_imp]
      constructor
      · rintro ⟨⟨a, b⟩, c⟩; exact ⟨b, a, c⟩
      · rintro ⟨a, b, c⟩; exact ⟨⟨b, a⟩, c⟩

theorem mem_interAll (sets : List IdSet) (d : Int) :
    d ∈ (interAll sets).getD [] ↔ sets ≠ [] ∧ ∀ s ∈ sets, d ∈ s := by
  unfold interAll
  rw [mem_interFold]
  have hne : Sort.isort (fun a b : IdSet => decide (a.length ≤ b.length)) sets ≠ [] ↔ sets ≠ [] := by
    rw [← List.length_pos_iff, ← List.length_pos_iff, Sort.length_isort]
  simp only [hne, Sort.mem_isort]

theorem nodup_interFold (sets : List IdSet) (hn : ∀ s ∈ sets, s.Nodup) : ∀ acc : Option IdSet,
    (∀ r, acc = some r → r.Nodup) → ((sets.foldl interStep acc).getD []).Nodup := by
  induction sets with
  | nil => intro acc h; cases acc with
    | none => simp
    | some r => exact h r rfl
  | cons x xs ih =>
    intro acc h
    simp only [List.foldl_cons]
    apply ih (fun s hs => hn s (List.mem_cons_of_mem _ hs))
    intro r hr
    simp only [interStep, Option.some.injEq] at hr
    subst hr
    cases acc with
    | none => exact hn x (by simp)
    | some r => exact LSet.nodup_inter (hn x (by simp)) r

theorem nodup_fieldSearch (s : Field.State Int) (es : List (Elem Int)) (op : Oper) :
    (fieldSearch s es op).Nodup := by
  unfold fieldSearch
  (try dsimp only)
  split
  · next x hx =>
    cases es with
    | nil => simp at hx
    | cons e rest =>
      simp only [List.map_cons, List.cons.injEq] at hx
      rw [← hx.1]; exact nodup_elemSet s e
  · split
    · unfold interAll
      apply nodup_interFold
      · intro x hx
        rw [Sort.mem_isort] at hx
        obtain ⟨e, _, rfl⟩ := List.mem_map.mp hx
        exact nodup_elemSet s e
      · intro r hr; cases hr
    · exact Field.nodup_multiunion _

/-- `search(queries, operator)`: all members under `and`, some member otherwise -/
theorem mem_fieldSearch {s : Field.State Int} {t : Field.Spec.Table Int} (h : Field.Inv s t)
    (es : List (Elem Int)) (op : Oper) (d : Int) :
    d ∈ fieldSearch s es op ↔
      if op = .and then es ≠ [] ∧ ∀ e ∈ es, Sat t d e else ∃ e ∈ es, Sat t d e := by
  unfold fieldSearch
  (try dsimp only)
  split
  · next x hx =>
    -- exactly one member: the operator does not matter
    cases es with
    | nil => simp at hx
    | cons e rest =>
      cases rest with
      | cons e2 r2 => simp at hx
      | nil =>
        simp only [List.map_cons, List.map_nil, List.cons.injEq, and_true] at hx
        subst hx
        rw [mem_elemSet h]
        split <;> simp
  · next hne1 =>
    split
    · next hop =>
      rw [mem_interAll]
      simp only [ne_eq, List.map_eq_nil_iff, List.mem_map, forall_exists_index, and_imp,
        forall_apply_eq_imp_iff₂]
      constructor
      · rintro ⟨h1, h2⟩; exact ⟨h1, fun e he => (mem_elemSet h e d).mp (h2 e he)⟩
      · rintro ⟨h1, h2⟩; exact ⟨h1, fun e he => (mem_elemSet h e d).mpr (h2 e he)⟩
    · next hop =>
      rw [Field.mem_multiunion]
      simp only [List.mem_map]
      constructor
      · rintro ⟨st, ⟨e, he, rfl⟩, hd⟩; exact ⟨e, he, (mem_elemSet h e d).mp hd⟩
      · rintro ⟨e, he, hd⟩; exact ⟨_, ⟨e, he, rfl⟩, (mem_elemSet h e d).mpr hd⟩

theorem mem_sat_iff (t : Field.Spec.Table Int) (p : Int → Bool) (d : Int) :
    d ∈ Field.Spec.sat t p ↔ ∃ v, Field.Spec.valueOf t d = some v ∧ p v = true := Field.mem_sat t p d

/-- **`FieldIndex.apply`** computes the specification's answer for every legacy argument -/
theorem fieldApply_spec {s : Field.State Int} {t : Field.Spec.Table Int} (h : Field.Inv s t)
    (q : LQ Int) : SameAnswer (fieldApply s q) (fieldAnswer t q) := by
  have any_iff : ∀ (es : List (Elem Int)) (d : Int),
      (∃ e ∈ es, Sat t d e) ↔ ∃ v, Field.Spec.valueOf t d = some v ∧ es.any (elemSat · v) = true := by
    intro es d
    simp only [Sat, List.any_eq_true]
    constructor
    · rintro ⟨e, he, v, hv, hs⟩; exact ⟨v, hv, e, he, hs⟩
    · rintro ⟨v, hv, e, he, hs⟩; exact ⟨e, he, v, hv, hs⟩
  have all_iff : ∀ (es : List (Elem Int)) (d : Int),
      (es ≠ [] ∧ ∀ e ∈ es, Sat t d e) ↔
        ∃ v, Field.Spec.valueOf t d = some v ∧ (!es.isEmpty && es.all (elemSat · v)) = true := by
    intro es d
    simp only [Sat, Bool.and_eq_true, Bool.not_eq_true', List.isEmpty_eq_false_iff, List.all_eq_true]
    constructor
    · rintro ⟨hne, hall⟩
      cases es with
      | nil => exact absurd rfl hne
      | cons e rest =>
        obtain ⟨v, hv, _⟩ := hall e (by simp)
        refine ⟨v, hv, by simp, ?_⟩
        intro e' he'
        obtain ⟨v', hv', hs'⟩ := hall e' he'
        rw [hv] at hv'; cases hv'; exact hs'
    · rintro ⟨v, hv, hne, hall⟩
      exact ⟨hne, fun e he => ⟨v, hv, hall e he⟩⟩
  have orCase : ∀ (es : List (Elem Int)) (op : Oper), op ≠ .and →
      SameAnswer (.ok (fieldSearch s es op)) (.ok (Field.Spec.sat t (fun v => es.any (elemSat · v)))) := by
    intro es op hop d
    rw [mem_fieldSearch h, mem_sat_iff, ← any_iff]
    simp [hop]
  have andCase : ∀ (es : List (Elem Int)),
      SameAnswer (.ok (fieldSearch s es .and))
        (.ok (Field.Spec.sat t (fun v => !es.isEmpty && es.all (elemSat · v)))) := by
    intro es d
    rw [mem_fieldSearch h, mem_sat_iff, ← all_iff]
    simp
  cases q with
  | plain sh =>
    cases sh with
    | bare e =>
      have := orCase [e] .or (by decide)
      simpa [fieldApply, fieldAnswer, fieldPred, SameAnswer, Except.map] using this
    | pair a b =>
      have := orCase [.range (some a) (some b)] .or (by decide)
      simpa [fieldApply, fieldAnswer, fieldPred, SameAnswer, Except.map, elemSat, Field.inLo, Field.inHi] using this
    | seq es =>
      have := orCase es .or (by decide)
      simpa [fieldApply, fieldAnswer, fieldPred, SameAnswer, Except.map] using this
  | dict op q =>
    cases q with
    | none => cases op <;> simp [fieldApply, fieldAnswer, fieldPred, SameAnswer, Except.map]
    | some sh =>
      have hm : fieldApply s (.dict op (some sh)) = .ok (fieldSearch s (members sh) (op.getD .or)) := by
        cases sh <;> rfl
      rw [hm]
      cases op with
      | none =>
        have := orCase (members sh) .or (by decide)
        simpa [fieldAnswer, fieldPred, SameAnswer, Except.map] using this
      | some o =>
        cases o with
        | and =>
          have := andCase (members sh)
          simpa [fieldAnswer, fieldPred, SameAnswer, Except.map] using this
        | or =>
          have := orCase (members sh) .or (by decide)
          simpa [fieldAnswer, fieldPred, SameAnswer, Except.map] using this
        | other =>
          have := orCase (members sh) .other (by decide)
          simpa [fieldAnswer, fieldPred, SameAnswer, Except.map] using this

theorem nodup_fieldApply (s : Field.State Int) (q : LQ Int) (r : IdSet)
    (h : fieldApply s q = .ok r) : r.Nodup := by
  cases q with
  | plain sh =>
    cases sh <;> (simp only [fieldApply, Except.ok.injEq] at h; subst h; exact nodup_fieldSearch _ _ _)
  | dict op q =>
    cases q with
    | none => simp [fieldApply] at h
    | some sh =>
      cases sh <;> (simp only [fieldApply, Except.ok.injEq] at h; subst h; exact nodup_fieldSearch _ _ _)

/-! ## keyword / facet index -/
section keyword
variable {K : Type} [DecidableEq K]
open Hyp.Keyword

theorem kwSearch_spec {v : View K} {t : Keyword.Spec.Table K} (h : ViewOK v t) (ws : List K) (op : Oper) :
    SameAnswer (kwSearch v ws op)
      (match op with
        | .or => .ok (Keyword.Spec.any t ws)
        | .and => .ok (Keyword.Spec.all t ws)
        | .other => .error .typeError) := by
  cases op with
  | or => intro d; rw [View.mem_searchOr h, mem_spec_any]
  | and => intro d; rw [View.mem_searchAnd h, mem_spec_all]
  | other => rfl

/-- **`KeywordIndex.apply`** (inherited by `FacetIndex`) computes the specification's answer -/
theorem kwApply_spec {v : View K} {t : Keyword.Spec.Table K} (h : ViewOK v t) (q : LQ K) :
    SameAnswer (kwApply v q) (kwAnswer t q) := by
  have shape : ∀ (sh : Shape K) (op : Oper),
      SameAnswer (kwApply.kwShape v sh op) (kwAnswer.go t sh op) := by
    intro sh op
    cases sh with
    | bare e =>
      cases e with
      | val k =>
        have := kwSearch_spec h [k] op
        cases op <;> simpa [kwApply.kwShape, kwAnswer.go, members, words] using this
      | range lo hi => simp [kwApply.kwShape, kwAnswer.go, SameAnswer]
    | pair a b =>
      have := kwSearch_spec h [a, b] op
      cases op <;> simpa [kwApply.kwShape, kwAnswer.go, members, words] using this
    | seq es =>
      cases hw : words es with
      | none => simp [kwApply.kwShape, kwAnswer.go, members, hw, SameAnswer]
      | some ws =>
        have := kwSearch_spec h ws op
        cases op <;> simpa [kwApply.kwShape, kwAnswer.go, members, hw] using this
  cases q with
  | plain sh => exact shape sh .and
  | dict op q =>
    cases q with
    | none => simp [kwApply, kwAnswer, SameAnswer]
    | some sh => exact shape sh (op.getD .and)

end keyword

end Hyp.Legacy
