import HypatiaProofs.Lemmas.LexiconInv
/-!
`globToWordIds`: the regex translation means `GlobMatch`, and the prefix scan over the sorted word
list visits exactly the words that start with the literal prefix.
-/
set_option linter.unusedSimpArgs false
set_option linter.unusedSectionVars false
namespace Hyp.Lex
open Hyp.QP (Str)
open Spec

/-! ### code-point order -/

theorem leStr_refl (a : Str) : leStr a a = true := by
  induction a with
  | nil => rfl
  | cons x xs ih => simp [leStr, ih]

theorem leStr_total (a b : Str) : leStr a b = true ∨ leStr b a = true := by
  induction a generalizing b with
  | nil => left; rfl
  | cons x xs ih =>
    cases b with
    | nil => right; rfl
    | cons y ys =>
      simp only [leStr, Bool.or_eq_true, decide_eq_true_eq, Bool.and_eq_true, beq_iff_eq]
      rcases Nat.lt_trichotomy x y with h | h | h
      · left; left; exact h
      · subst h
        rcases ih ys with h' | h'
        · left; right; exact ⟨rfl, h'⟩
        · right; right; exact ⟨rfl, h'⟩
      · right; left; exact h

theorem leStr_trans (a b c : Str) (h1 : leStr a b = true) (h2 : leStr b c = true) :
    leStr a c = true := by
  induction a generalizing b c with
  | nil => rfl
  | cons x xs ih =>
    cases b with
    | nil => simp [leStr] at h1
    | cons y ys =>
      cases c with
      | nil => simp [leStr] at h2
      | cons z zs =>
        simp only [leStr, Bool.or_eq_true, decide_eq_true_eq, Bool.and_eq_true, beq_iff_eq] at *
        rcases h1 with h1 | ⟨e1, h1⟩
        · rcases h2 with h2 | ⟨e2, h2⟩
          · left; omega
          · left; omega
        · rcases h2 with h2 | ⟨e2, h2⟩
          · left; omega
          · right; exact ⟨by omega, ih ys zs h1 h2⟩

theorem leStr_tp : Sort.TotalPreorder leStr := ⟨leStr_total, leStr_trans⟩

theorem leStr_of_prefix (p k : Str) (h : p.isPrefixOf k = true) : leStr p k = true := by
  induction p generalizing k with
  | nil => rfl
  | cons x xs ih =>
    cases k with
    | nil => simp at h
    | cons y ys =>
      simp only [List.isPrefixOf, Bool.and_eq_true, beq_iff_eq] at h
      simp only [leStr, Bool.or_eq_true, decide_eq_true_eq, Bool.and_eq_true, beq_iff_eq]
      right; exact ⟨h.1, ih ys h.2⟩

/-- the words that start with `p` are convex in the order above `p` -/
theorem prefix_convex (p x y : Str) (h1 : leStr p x = true) (h2 : leStr x y = true)
    (h3 : p.isPrefixOf y = true) : p.isPrefixOf x = true := by
  induction p generalizing x y with
  | nil => rfl
  | cons a as ih =>
    cases y with
    | nil => simp at h3
    | cons b bs =>
      cases x with
      | nil => simp [leStr] at h1
      | cons c cs =>
        simp only [List.isPrefixOf, Bool.and_eq_true, beq_iff_eq] at h3 ⊢
        simp only [leStr, Bool.or_eq_true, decide_eq_true_eq, Bool.and_eq_true, beq_iff_eq] at h1 h2
        obtain ⟨e, h3⟩ := h3
        subst e
        rcases h1 with h1 | ⟨e1, h1⟩
        · rcases h2 with h2 | ⟨e2, h2⟩ <;> omega
        · subst e1
          rcases h2 with h2 | ⟨_, h2⟩
          · omega
          · exact ⟨rfl, ih cs bs h1 h2 h3⟩

/-! ### the range scan -/

theorem mem_dropWhile_of_not {α : Type} (p : α → Bool) (l : List α) (x : α) (hx : x ∈ l)
    (hp : p x = false) : x ∈ l.dropWhile p := by
  induction l with
  | nil => simp at hx
  | cons a l ih =>
    rw [List.dropWhile_cons]
    split
    · next ha =>
      rcases List.mem_cons.mp hx with e | e
      · subst e; rw [hp] at ha; cases ha
      · exact ih e
    · exact hx

theorem dropWhile_ge (pre : Str) (l : List Str) (hs : l.Pairwise (fun a b => leStr a b = true)) :
    ∀ x ∈ l.dropWhile (fun k => !leStr pre k), leStr pre x = true := by
  induction l with
  | nil => simp
  | cons a l ih =>
    rw [List.pairwise_cons] at hs
    rw [List.dropWhile_cons]
    split
    · exact ih hs.2
    · next ha =>
      simp only [Bool.not_eq_true', Bool.not_eq_false] at ha
      have ha' : leStr pre a = true := by
        cases h : leStr pre a with
        | true => rfl
        | false => simp [h] at ha
      intro x hx
      rcases List.mem_cons.mp hx with e | e
      · subst e; exact ha'
      · exact leStr_trans _ _ _ ha' (hs.1 x e)

theorem mem_takeWhile_prefix (pre : Str) (l : List Str)
    (hs : l.Pairwise (fun a b => leStr a b = true)) (hge : ∀ x ∈ l, leStr pre x = true) (x : Str) :
    x ∈ l.takeWhile (fun k => pre.isPrefixOf k) ↔ x ∈ l ∧ pre.isPrefixOf x = true := by
  induction l with
  | nil => simp
  | cons a l ih =>
    rw [List.pairwise_cons] at hs
    have ih' := ih hs.2 (fun y hy => hge y (List.mem_cons_of_mem _ hy))
    rw [List.takeWhile_cons]
    split
    · next ha =>
      simp only [List.mem_cons, ih']
      constructor
      · rintro (e | ⟨h1, h2⟩)
        · subst e; exact ⟨Or.inl rfl, ha⟩
        · exact ⟨Or.inr h1, h2⟩
      · rintro ⟨e | e, h2⟩
        · exact Or.inl e
        · exact Or.inr ⟨e, h2⟩
    · next ha =>
      simp only [List.not_mem_nil, false_iff, not_and, List.mem_cons]
      rintro (e | e) hp
      · subst e; exact ha hp
      · exact ha (prefix_convex pre a x (hge a (by simp)) (hs.1 x e) hp)

/-- the `for key in self._wids.keys(prefix)` loop visits exactly the keys with the prefix -/
theorem mem_scan (pre : Str) (ks : List Str) (x : Str) :
    x ∈ ((Sort.isort leStr ks).dropWhile (fun k => !leStr pre k)).takeWhile (fun k => pre.isPrefixOf k)
      ↔ x ∈ ks ∧ pre.isPrefixOf x = true := by
  have hs := Sort.isort_sorted leStr_tp ks
  have hs' : ((Sort.isort leStr ks).dropWhile (fun k => !leStr pre k)).Pairwise
      (fun a b => leStr a b = true) := hs.sublist (List.dropWhile_sublist _)
  rw [mem_takeWhile_prefix pre _ hs' (dropWhile_ge pre _ hs)]
  constructor
  · rintro ⟨h1, h2⟩
    exact ⟨(Sort.mem_isort leStr ks x).mp ((List.dropWhile_sublist _).subset h1), h2⟩
  · rintro ⟨h1, h2⟩
    refine ⟨mem_dropWhile_of_not _ _ x ((Sort.mem_isort leStr ks x).mpr h1) ?_, h2⟩
    simp [leStr_of_prefix pre x h2]

/-! ### the regex means `GlobMatch` -/

theorem anySuffix_iff (f : Str → Bool) (s : Str) :
    anySuffix f s = true ↔ ∃ a b, s = a ++ b ∧ f b = true := by
  induction s with
  | nil =>
    simp only [anySuffix]
    constructor
    · intro h; exact ⟨[], [], rfl, h⟩
    · rintro ⟨a, b, e, h⟩
      have : b = [] := by
        have := congrArg List.length e; simp at this
        exact List.eq_nil_of_length_eq_zero (by omega)
      subst this; exact h
  | cons c cs ih =>
    simp only [anySuffix, Bool.or_eq_true, ih]
    constructor
    · rintro (h | ⟨a, b, e, h⟩)
      · exact ⟨[], c :: cs, rfl, h⟩
      · exact ⟨c :: a, b, by simp [e], h⟩
    · rintro ⟨a, b, e, h⟩
      cases a with
      | nil => left; simp at e; subst e; exact h
      | cons x a =>
        right
        simp at e
        exact ⟨a, b, e.2, h⟩

theorem globMatch_cons_inv {c : Nat} {p s : Str} (h : GlobMatch (c :: p) s) :
    (c = STAR ∧ ∃ a b, s = a ++ b ∧ GlobMatch p b) ∨
    (c = QM ∧ ∃ x s', s = x :: s' ∧ GlobMatch p s') ∨
    (isGlobChar c = false ∧ ∃ s', s = c :: s' ∧ GlobMatch p s') := by
  cases h with
  | star a h' => exact Or.inl ⟨rfl, a, _, rfl, h'⟩
  | one x h' => exact Or.inr (Or.inl ⟨rfl, x, _, rfl, h'⟩)
  | lit hg h' => exact Or.inr (Or.inr ⟨hg, _, rfl, h'⟩)

theorem globMatchB_iff (p s : Str) : globMatchB p s = true ↔ GlobMatch p s := by
  induction p generalizing s with
  | nil =>
    simp only [globMatchB, List.isEmpty_iff]
    constructor
    · rintro rfl; exact .nil
    · intro h; cases h; rfl
  | cons c p ih =>
    unfold globMatchB
    by_cases hc : c = STAR
    · subst hc
      simp only [beq_self_eq_true, if_true, anySuffix_iff]
      constructor
      · rintro ⟨a, b, rfl, h⟩; exact .star a ((ih b).mp h)
      · intro h
        rcases globMatch_cons_inv h with ⟨_, a, b, e, h'⟩ | ⟨e, _⟩ | ⟨hg, _⟩
        · exact ⟨a, b, e, (ih _).mpr h'⟩
        · simp [STAR, QM] at e
        · simp [isGlobChar] at hg
    · have hc' : (c == STAR) = false := by simp [hc]
      simp only [hc', Bool.false_eq_true, if_false]
      cases s with
      | nil =>
        simp only [Bool.false_eq_true, false_iff]
        intro h
        rcases globMatch_cons_inv h with ⟨e, _⟩ | ⟨_, x, s', e, _⟩ | ⟨_, s', e, _⟩
        · exact hc e
        · cases e
        · cases e
      | cons x s =>
        simp only [Bool.and_eq_true, Bool.or_eq_true, beq_iff_eq, ih]
        constructor
        · rintro ⟨h1 | h1, h2⟩
          · subst h1; exact .one x h2
          · subst h1
            by_cases hq : x = QM
            · subst hq; exact .one _ h2
            · exact .lit (by simp [isGlobChar, hc, hq]) h2
        · intro h
          rcases globMatch_cons_inv h with ⟨e, _⟩ | ⟨e1, x', s', e, h'⟩ | ⟨_, s', e, h'⟩
          · exact absurd e hc
          · cases e; exact ⟨Or.inl e1, h'⟩
          · cases e; exact ⟨Or.inr rfl, h'⟩

theorem translate_cons (c : Nat) (p : Str) :
    translate (c :: p) =
      (if c == STAR then Pat.anyRun else if c == QM then Pat.anyOne else Pat.lit c) :: translate p := rfl

theorem matchPat_translate (p s : Str) : matchPat (translate p) s = globMatchB p s := by
  induction p generalizing s with
  | nil => simp [translate, matchPat, globMatchB]
  | cons c p ih =>
    have ih' : matchPat (translate p) = globMatchB p := funext ih
    rw [translate_cons]
    unfold globMatchB
    by_cases hc : c = STAR
    · subst hc
      simp only [beq_self_eq_true, if_true, matchPat]
      rw [ih']
    · have hc' : (c == STAR) = false := by simp [hc]
      by_cases hq : c = QM
      · subst hq
        simp only [hc', Bool.false_eq_true, if_false, beq_self_eq_true, if_true, matchPat,
          Bool.true_or, Bool.true_and]
        cases s with
        | nil => rfl
        | cons x s => simp only [ih]
      · have hq' : (c == QM) = false := by simp [hq]
        simp only [hc', hq', Bool.false_eq_true, if_false, matchPat, Bool.false_or]
        cases s with
        | nil => rfl
        | cons x s => simp only [ih]

theorem matchPat_lits (pre : Str) (q : List Pat) (s : Str) :
    matchPat (pre.map Pat.lit ++ q) s = true ↔ ∃ t, s = pre ++ t ∧ matchPat q t = true := by
  induction pre generalizing s with
  | nil => simp
  | cons c pre ih =>
    simp only [List.map_cons, List.cons_append, matchPat]
    cases s with
    | nil => simp
    | cons x s =>
      simp only [Bool.and_eq_true, beq_iff_eq, ih]
      constructor
      · rintro ⟨rfl, t, rfl, h⟩; exact ⟨t, rfl, h⟩
      · rintro ⟨t, e, h⟩
        simp at e
        exact ⟨e.1, t, e.2, h⟩

theorem globMatch_lits (pre rest s : Str) (hpre : ∀ c ∈ pre, isGlobChar c = false) :
    GlobMatch (pre ++ rest) s ↔ ∃ t, s = pre ++ t ∧ GlobMatch rest t := by
  induction pre generalizing s with
  | nil => simp
  | cons c pre ih =>
    have hc := hpre c (by simp)
    have ih' := fun s => ih s (fun d hd => hpre d (List.mem_cons_of_mem _ hd))
    constructor
    · intro h
      simp only [List.cons_append] at h
      cases h with
      | star a h' => simp [isGlobChar, STAR] at hc
      | one x h' => simp [isGlobChar, QM] at hc
      | lit _ h' =>
        obtain ⟨t, e, ht⟩ := (ih' _).mp h'
        exact ⟨t, by simp [e], ht⟩
    · rintro ⟨t, rfl, ht⟩
      exact .lit hc ((ih' _).mpr ⟨t, rfl, ht⟩)

theorem takeWhile_not_glob (pattern : Str) :
    ∀ c ∈ pattern.takeWhile (fun c => !isGlobChar c), isGlobChar c = false := by
  induction pattern with
  | nil => simp
  | cons a l ih =>
    intro c hc
    rw [List.takeWhile_cons] at hc
    split at hc
    · next ha =>
      rcases List.mem_cons.mp hc with e | e
      · subst e; simpa using ha
      · exact ih c e
    · simp at hc

/-- a pattern without glob characters matches exactly itself -/
theorem globMatch_plain (p s : Str) (hp : ∀ c ∈ p, isGlobChar c = false) :
    GlobMatch p s ↔ s = p := by
  have := globMatch_lits p [] s hp
  simp only [List.append_nil] at this
  rw [this]
  constructor
  · rintro ⟨t, e, h⟩; cases h; simpa using e
  · rintro rfl; exact ⟨[], by simp, .nil⟩

/-- the compiled regex accepts a key iff the pattern, read as a glob, matches it -/
theorem regex_iff_globMatch (pattern k : Str) :
    matchPat ((pattern.takeWhile (fun c => !isGlobChar c)).map Pat.lit ++
        translate (pattern.dropWhile (fun c => !isGlobChar c))) k = true ↔ GlobMatch pattern k := by
  rw [matchPat_lits]
  conv => rhs; rw [← List.takeWhile_append_dropWhile (p := fun c => !isGlobChar c) (l := pattern)]
  rw [globMatch_lits _ _ _ (takeWhile_not_glob pattern)]
  simp only [matchPat_translate, globMatchB_iff]

/-- a match starts with the literal prefix -/
theorem globMatch_prefix (pattern k : Str) (h : GlobMatch pattern k) :
    (pattern.takeWhile (fun c => !isGlobChar c)).isPrefixOf k = true := by
  rw [← List.takeWhile_append_dropWhile (p := fun c => !isGlobChar c) (l := pattern)] at h
  obtain ⟨t, e, _⟩ := (globMatch_lits _ _ _ (takeWhile_not_glob pattern)).mp h
  rw [List.isPrefixOf_iff_prefix]
  exact ⟨t, e.symm⟩

/-! ### `globToWordIds` -/

theorem getWid_of_get {s : State} {w : Str} {i : Nat} (h : AMap.get s.wids w = some i) :
    getWid s w = i := by simp [getWid, h]

theorem inv_pos {s : State} (hi : Inv s) {w : Str} {i : Nat} (h : AMap.get s.wids w = some i) :
    1 ≤ i ∧ i ≤ s.count := by
  have h2 := (hi.inverse w i).mp h
  have := (hi.range i).mp (by simp [h2])
  exact this

theorem globToWordIds_spec {s : State} (hi : Inv s) (pattern : Str)
    (hstart : ∀ c, pattern.head? = some c → isGlobChar c = false) :
    ∃ ids, globToWordIds s pattern = .ok ids ∧
      ∀ i, i ∈ ids ↔ ∃ w, AMap.get s.wids w = some i ∧ GlobMatch pattern w := by
  unfold globToWordIds
  by_cases hrest : (pattern.dropWhile (fun c => !isGlobChar c)).isEmpty = true
  · -- no glob character: plain lookup
    simp only [hrest, if_true]
    have hpat : pattern.takeWhile (fun c => !isGlobChar c) = pattern := by
      have := List.takeWhile_append_dropWhile (p := fun c => !isGlobChar c) (l := pattern)
      rw [List.isEmpty_iff] at hrest
      rw [hrest] at this; simpa using this
    have hplain : ∀ c ∈ pattern, isGlobChar c = false := by
      rw [← hpat]; exact takeWhile_not_glob pattern
    rw [hpat]
    cases hg : AMap.get s.wids pattern with
    | none =>
      refine ⟨[], by simp [getWid, hg], ?_⟩
      intro i
      simp only [List.not_mem_nil, false_iff]
      rintro ⟨w, h1, h2⟩
      rw [(globMatch_plain pattern w hplain).mp h2, hg] at h1; cases h1
    | some j =>
      have hj := (inv_pos hi hg).1
      have hne : (j != 0) = true := by simp; omega
      refine ⟨[j], by simp [getWid, hg, hne], ?_⟩
      intro i
      simp only [List.mem_singleton]
      constructor
      · rintro rfl; exact ⟨pattern, hg, (globMatch_plain pattern pattern hplain).mpr rfl⟩
      · rintro ⟨w, h1, h2⟩
        rw [(globMatch_plain pattern w hplain).mp h2, hg] at h1; cases h1; rfl
  · simp only [hrest, Bool.false_eq_true, if_false]
    have hpre : (pattern.takeWhile (fun c => !isGlobChar c)).isEmpty = false := by
      cases pattern with
      | nil => simp at hrest
      | cons c p =>
        have := hstart c rfl
        simp [List.takeWhile_cons, this]
    simp only [hpre, Bool.false_eq_true, if_false]
    refine ⟨_, rfl, ?_⟩
    intro i
    simp only [List.mem_map, List.mem_filter, mem_scan, regex_iff_globMatch]
    constructor
    · rintro ⟨k, ⟨⟨hk, _⟩, hm⟩, rfl⟩
      have := (AMap.mem_keys_iff s.wids k).mp hk
      cases hg : AMap.get s.wids k with
      | none => rw [hg] at this; cases this
      | some j => exact ⟨k, by simp [getWid, hg], hm⟩
    · rintro ⟨w, hg, hm⟩
      refine ⟨w, ⟨⟨?_, globMatch_prefix pattern w hm⟩, hm⟩, getWid_of_get hg⟩
      exact (AMap.mem_keys_iff s.wids w).mpr (by simp [hg])

theorem globToWordIds_error (s : State) (pattern : Str) (c : Nat) (hc : pattern.head? = some c)
    (hg : isGlobChar c = true) : globToWordIds s pattern = .error .queryError := by
  cases pattern with
  | nil => simp at hc
  | cons x p =>
    simp at hc; subst hc
    unfold globToWordIds
    simp [List.takeWhile_cons, List.dropWhile_cons, hg]

/-- the specification channel of the driver computes the same id list -/
theorem globToWordIds_eq_spec {s : State} (hi : Inv s) (pattern : Str)
    (hstart : ∀ c, pattern.head? = some c → isGlobChar c = false) :
    ∀ ids, globToWordIds s pattern = .ok ids → ∀ i, i ∈ ids ↔ i ∈ Spec.globIds s pattern := by
  intro ids h i
  obtain ⟨ids', h', hm⟩ := globToWordIds_spec hi pattern hstart
  rw [h'] at h; cases h
  rw [hm]
  simp only [Spec.globIds, List.mem_map, List.mem_filter, Sort.mem_isort, globMatchB_iff]
  constructor
  · rintro ⟨w, hg, hmw⟩
    exact ⟨w, ⟨(AMap.mem_keys_iff s.wids w).mpr (by simp [hg]), hmw⟩, getWid_of_get hg⟩
  · rintro ⟨w, ⟨hk, hmw⟩, rfl⟩
    have := (AMap.mem_keys_iff s.wids w).mp hk
    cases hg : AMap.get s.wids w with
    | none => rw [hg] at this; cases this
    | some j => exact ⟨w, by simp [getWid, hg], hmw⟩

end Hyp.Lex
