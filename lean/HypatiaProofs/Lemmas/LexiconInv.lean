import HypatiaModel.Spec.LexiconSpec
/-!
Invariant of the lexicon state and its preservation by `_getWordIdCreate` / `sourceToWordIds`.
-/
set_option linter.unusedSimpArgs false
set_option linter.unusedSectionVars false
namespace Hyp.Lex
open Hyp.QP (Str)

/-! ### the skip loop -/

theorem skipTaken_of_not_mem (taken : List Nat) (n c : Nat) (h : c ∉ taken) :
    skipTaken taken (n + 1) c = c := by
  simp [skipTaken, h]

theorem skipTaken_ge (taken : List Nat) (n c : Nat) : c ≤ skipTaken taken n c := by
  induction n generalizing c with
  | zero => simp [skipTaken]
  | succ n ih =>
    unfold skipTaken
    split
    · have := ih (c + 1); omega
    · exact Nat.le_refl _

private theorem count_ge_succ (taken : List Nat) (c : Nat) (h : c ∈ taken) :
    (taken.filter (fun x => decide (c + 1 ≤ x))).length + 1 ≤ (taken.filter (fun x => decide (c ≤ x))).length := by
  induction taken with
  | nil => simp at h
  | cons a l ih =>
    simp only [List.filter_cons]
    by_cases e : a = c
    · subst e
      have : ∀ l : List Nat, (l.filter (fun x => decide (a + 1 ≤ x))).length ≤ (l.filter (fun x => decide (a ≤ x))).length := by
        intro l
        induction l with
        | nil => simp
        | cons b l ih2 =>
          simp only [List.filter_cons]
          by_cases h1 : a + 1 ≤ b
          · have h2 : a ≤ b := by omega
            simp [h1, h2]; exact ih2
          · by_cases h2 : a ≤ b
            · simp [h1, h2]; omega
            · simp [h1, h2]; exact ih2
      have := this l
      have h1 : ¬ a + 1 ≤ a := by omega
      simp [h1]; omega
    · have hm : c ∈ l := by
        rcases List.mem_cons.mp h with h' | h'
        · exact absurd h'.symm e
        · exact h'
      have := ih hm
      by_cases h1 : c + 1 ≤ a
      · have h2 : c ≤ a := by omega
        simp [h1, h2]; omega
      · have h2 : ¬ c ≤ a := by omega
        simp [h1, h2]; omega

/-- the loop always stops on a free id: its probe bound is never the reason for stopping -/
theorem skipTaken_free' (taken : List Nat) (n c : Nat)
    (h : (taken.filter (fun x => decide (c ≤ x))).length < n) : skipTaken taken n c ∉ taken := by
  induction n generalizing c with
  | zero => omega
  | succ n ih =>
    unfold skipTaken
    by_cases hc : c ∈ taken
    · simp only [List.contains_eq_mem, hc, decide_true, if_true]
      apply ih
      have := count_ge_succ taken c hc
      omega
    · simp [hc]

theorem skipTaken_free (taken : List Nat) (c : Nat) :
    skipTaken taken (taken.length + 1) c ∉ taken := by
  apply skipTaken_free'
  have := List.length_filter_le (fun x => decide (c ≤ x)) taken
  omega

/-! ### the invariant -/

structure Inv (s : State) : Prop where
  wfW : AMap.WF s.wids
  wfI : AMap.WF s.words
  /-- the two maps are mutually inverse -/
  inverse : ∀ w i, AMap.get s.wids w = some i ↔ AMap.get s.words i = some w
  /-- the ids in use are exactly 1 … word_count -/
  range : ∀ i, (AMap.get s.words i).isSome ↔ 1 ≤ i ∧ i ≤ s.count
  lenW : s.wids.length = s.count
  lenI : s.words.length = s.count

theorem inv_init : Inv {} := by
  refine ⟨AMap.WF_nil, AMap.WF_nil, ?_, ?_, rfl, rfl⟩
  · intro w i; simp
  · intro i; simp; omega

theorem newWid_eq {s : State} (h : Inv s) : newWid s = s.count + 1 := by
  unfold newWid
  apply skipTaken_of_not_mem
  rw [AMap.not_mem_keys_iff]
  have := h.range (s.count + 1)
  cases hg : AMap.get s.words (s.count + 1) with
  | none => rfl
  | some x => rw [hg] at this; simp at this; omega

theorem length_set_of_none {K V : Type} [DecidableEq K] {m : AMap K V} {k : K} {v : V}
    (h : AMap.get m k = none) : (AMap.set m k v).length = m.length + 1 := by
  unfold AMap.set
  rw [AMap.erase_of_get_none h]; rfl

theorem getWordIdCreate_known {s : State} {w : Str} {i : Nat} (h : AMap.get s.wids w = some i) :
    getWordIdCreate s w = (s, i) := by
  simp [getWordIdCreate, h]

theorem getWordIdCreate_new {s : State} (hi : Inv s) {w : Str} (h : AMap.get s.wids w = none) :
    getWordIdCreate s w =
      ({ wids := AMap.set s.wids w (s.count + 1), words := AMap.set s.words (s.count + 1) w,
         count := s.count + 1 }, s.count + 1) := by
  simp [getWordIdCreate, h, newWid_eq hi]

theorem inv_getWordIdCreate {s : State} (hi : Inv s) (w : Str) : Inv (getWordIdCreate s w).1 := by
  cases hg : AMap.get s.wids w with
  | some i => rw [getWordIdCreate_known hg]; exact hi
  | none =>
    rw [getWordIdCreate_new hi hg]
    have hfree : AMap.get s.words (s.count + 1) = none := by
      have := hi.range (s.count + 1)
      cases hw : AMap.get s.words (s.count + 1) with
      | none => rfl
      | some x => rw [hw] at this; simp at this; omega
    refine ⟨AMap.WF_set hi.wfW _ _, AMap.WF_set hi.wfI _ _, ?_, ?_, ?_, ?_⟩
    · intro w' i'
      simp only [AMap.get_set]
      by_cases e1 : w = w'
      · subst e1
        by_cases e2 : s.count + 1 = i'
        · simp [e2]
        · simp only [e2, if_false, if_true]
          constructor
          · intro h; cases h; exact absurd rfl e2
          · intro h
            have := (hi.inverse w i').mpr h
            rw [hg] at this; cases this
      · by_cases e2 : s.count + 1 = i'
        · subst e2
          simp only [e1, if_false, if_true]
          constructor
          · intro h
            have := (hi.inverse w' _).mp h
            rw [hfree] at this; cases this
          · intro h; cases h; exact absurd rfl e1
        · simp only [e1, e2, if_false]
          exact hi.inverse w' i'
    · intro i
      simp only [AMap.get_set]
      by_cases e : s.count + 1 = i
      · subst e; simp
      · simp only [e, if_false]
        rw [hi.range i]
        constructor
        · intro ⟨a, b⟩; exact ⟨a, by omega⟩
        · intro ⟨a, b⟩; exact ⟨a, by omega⟩
    · show (AMap.set s.wids w (s.count + 1)).length = s.count + 1
      rw [length_set_of_none hg, hi.lenW]
    · show (AMap.set s.words (s.count + 1) w).length = s.count + 1
      rw [length_set_of_none hfree, hi.lenI]

/-- `_getWordIdCreate` never changes the id of a word that has one -/
theorem getWordIdCreate_keeps {s : State} (hi : Inv s) (w : Str) {w' : Str} {i : Nat}
    (h : AMap.get s.wids w' = some i) : AMap.get (getWordIdCreate s w).1.wids w' = some i := by
  cases hg : AMap.get s.wids w with
  | some j => rw [getWordIdCreate_known hg]; exact h
  | none =>
    rw [getWordIdCreate_new hi hg]
    show AMap.get (AMap.set s.wids w (s.count + 1)) w' = some i
    rw [AMap.get_set]
    have : w ≠ w' := by intro e; subst e; rw [hg] at h; cases h
    simp [this, h]

/-- … and returns the id the word has afterwards; a word not known before gets an id larger than
every id in use -/
theorem getWordIdCreate_result {s : State} (hi : Inv s) (w : Str) :
    AMap.get (getWordIdCreate s w).1.wids w = some (getWordIdCreate s w).2 ∧
    (AMap.get s.wids w = none → (getWordIdCreate s w).2 = s.count + 1) := by
  cases hg : AMap.get s.wids w with
  | some j => rw [getWordIdCreate_known hg]; exact ⟨hg, fun h => by cases h⟩
  | none =>
    rw [getWordIdCreate_new hi hg]
    refine ⟨?_, fun _ => rfl⟩
    show AMap.get (AMap.set s.wids w (s.count + 1)) w = _
    rw [AMap.get_set]; simp

theorem getWordIdCreate_count_mono (s : State) (hi : Inv s) (w : Str) :
    s.count ≤ (getWordIdCreate s w).1.count := by
  cases hg : AMap.get s.wids w with
  | some j => rw [getWordIdCreate_known hg]; exact Nat.le_refl _
  | none => rw [getWordIdCreate_new hi hg]; exact Nat.le_succ _

/-- which words are known after `_getWordIdCreate` -/
theorem getWordIdCreate_known_iff {s : State} (hi : Inv s) (w w' : Str) :
    (AMap.get (getWordIdCreate s w).1.wids w').isSome ↔ w' = w ∨ (AMap.get s.wids w').isSome := by
  cases hg : AMap.get s.wids w with
  | some j =>
    rw [getWordIdCreate_known hg]
    constructor
    · exact Or.inr
    · rintro (e | e)
      · subst e; simp [hg]
      · exact e
  | none =>
    rw [getWordIdCreate_new hi hg]
    show (AMap.get (AMap.set s.wids w (s.count + 1)) w').isSome ↔ _
    rw [AMap.get_set]
    by_cases e : w = w'
    · subst e; simp
    · simp only [e, if_false]
      constructor
      · exact Or.inr
      · rintro (e' | e')
        · exact absurd e'.symm e
        · exact e'

/-! ### `createAll` -/

theorem inv_createAll {s : State} (hi : Inv s) (ws : List Str) : Inv (createAll s ws).1 := by
  induction ws generalizing s with
  | nil => exact hi
  | cons w ws ih =>
    simp only [createAll]
    exact ih (inv_getWordIdCreate hi w)

theorem createAll_keeps {s : State} (hi : Inv s) (ws : List Str) {w' : Str} {i : Nat}
    (h : AMap.get s.wids w' = some i) : AMap.get (createAll s ws).1.wids w' = some i := by
  induction ws generalizing s with
  | nil => exact h
  | cons w ws ih =>
    simp only [createAll]
    exact ih (inv_getWordIdCreate hi w) (getWordIdCreate_keeps hi w h)

theorem createAll_count_mono {s : State} (hi : Inv s) (ws : List Str) :
    s.count ≤ (createAll s ws).1.count := by
  induction ws generalizing s with
  | nil => exact Nat.le_refl _
  | cons w ws ih =>
    simp only [createAll]
    exact Nat.le_trans (getWordIdCreate_count_mono s hi w) (ih (inv_getWordIdCreate hi w))

/-- the ids returned are the ids the words have in the resulting state -/
theorem createAll_result {s : State} (hi : Inv s) (ws : List Str) :
    (createAll s ws).2 = ws.map (getWid (createAll s ws).1) ∧
    ∀ w ∈ ws, (AMap.get (createAll s ws).1.wids w).isSome := by
  induction ws generalizing s with
  | nil => simp [createAll]
  | cons w ws ih =>
    simp only [createAll]
    have hi1 := inv_getWordIdCreate hi w
    obtain ⟨h1, h2⟩ := ih hi1
    have hw := (getWordIdCreate_result hi w).1
    have hk := createAll_keeps hi1 ws hw
    refine ⟨?_, ?_⟩
    · simp only [List.map_cons]
      rw [← h1]
      simp [getWid, hk]
    · intro w' hw'
      rcases List.mem_cons.mp hw' with e | e
      · subst e; simp [hk]
      · exact h2 w' e

theorem createAll_known_iff {s : State} (hi : Inv s) (ws : List Str) (w' : Str) :
    (AMap.get (createAll s ws).1.wids w').isSome ↔ w' ∈ ws ∨ (AMap.get s.wids w').isSome := by
  induction ws generalizing s with
  | nil => simp [createAll]
  | cons w ws ih =>
    simp only [createAll]
    rw [ih (inv_getWordIdCreate hi w), getWordIdCreate_known_iff hi]
    simp only [List.mem_cons]
    constructor
    · rintro (h | h | h)
      · exact Or.inl (Or.inr h)
      · exact Or.inl (Or.inl h)
      · exact Or.inr h
    · rintro ((h | h) | h)
      · exact Or.inr (Or.inl h)
      · exact Or.inl h
      · exact Or.inr (Or.inr h)

/-- a word that was not known before the call gets an id above every id that was in use -/
theorem createAll_fresh {s : State} (hi : Inv s) (ws : List Str) {w : Str} {i : Nat}
    (hn : AMap.get s.wids w = none) (h : AMap.get (createAll s ws).1.wids w = some i) :
    s.count < i := by
  induction ws generalizing s with
  | nil => simp only [createAll] at h; rw [hn] at h; cases h
  | cons x ws ih =>
    simp only [createAll] at h
    have hi1 := inv_getWordIdCreate hi x
    cases hx : AMap.get (getWordIdCreate s x).1.wids w with
    | none =>
      have := ih hi1 hx h
      have := getWordIdCreate_count_mono s hi x
      omega
    | some j =>
      have hk := createAll_keeps hi1 ws hx
      rw [hk] at h; cases h
      -- w = x and x was new
      have hkn := (getWordIdCreate_known_iff hi x w).mp (by simp [hx])
      rcases hkn with e | e
      · subst e
        have := (getWordIdCreate_result hi w)
        rw [hx] at this
        have h2 := this.2 hn
        have h1 := this.1
        cases h1
        omega
      · rw [hn] at e; cases e

/-! ### histories -/

theorem inv_step (cfg : Cfg) {s : State} (hi : Inv s) (c : Call) : Inv (step cfg s c) := by
  cases c with
  | source t => exact inv_createAll hi _
  | term _ => exact hi
  | glob _ => exact hi
  | parse _ => exact hi

theorem foldl_step_inv (cfg : Cfg) (calls : List Call) {s : State} (hi : Inv s) :
    Inv (calls.foldl (step cfg) s) := by
  induction calls generalizing s with
  | nil => exact hi
  | cons c cs ih => exact ih (inv_step cfg hi c)

theorem inv_run (cfg : Cfg) (calls : List Call) : Inv (run cfg calls) :=
  foldl_step_inv cfg calls inv_init

theorem step_keeps (cfg : Cfg) {s : State} (hi : Inv s) (c : Call) {w : Str} {i : Nat}
    (h : AMap.get s.wids w = some i) : AMap.get (step cfg s c).wids w = some i := by
  cases c with
  | source t => exact createAll_keeps hi _ h
  | term _ => exact h
  | glob _ => exact h
  | parse _ => exact h

theorem foldl_step_keeps (cfg : Cfg) (calls : List Call) {s : State} (hi : Inv s) {w : Str} {i : Nat}
    (h : AMap.get s.wids w = some i) : AMap.get (calls.foldl (step cfg) s).wids w = some i := by
  induction calls generalizing s with
  | nil => exact h
  | cons c cs ih => exact ih (inv_step cfg hi c) (step_keeps cfg hi c h)

theorem run_append (cfg : Cfg) (a b : List Call) :
    run cfg (a ++ b) = b.foldl (step cfg) (run cfg a) := by
  simp [run, List.foldl_append]

/-- the known words are exactly the words source text has produced -/
theorem known_iff_seen (cfg : Cfg) (calls : List Call) (w : Str) :
    (AMap.get (run cfg calls).wids w).isSome ↔ w ∈ Spec.seen cfg calls := by
  have gen : ∀ (calls : List Call) (s : State) (acc : List Str), Inv s →
      (∀ w, (AMap.get s.wids w).isSome ↔ w ∈ acc) →
      ∀ w, (AMap.get (calls.foldl (step cfg) s).wids w).isSome ↔
        w ∈ (Spec.sources calls).foldl
          (fun acc t => LSet.union acc (runPipeline cfg.tables cfg.pipeline t)) acc := by
    intro calls
    induction calls with
    | nil => intro s acc _ h w; simpa [Spec.sources] using h w
    | cons c cs ih =>
      intro s acc hi h w
      cases c with
      | source t =>
        simp only [List.foldl_cons, Spec.sources]
        apply ih _ _ (inv_step cfg hi _)
        intro w'
        show (AMap.get (createAll s _).1.wids w').isSome ↔ _
        rw [createAll_known_iff hi, LSet.mem_union, h w']
        exact Or.comm
      | term _ => simpa [Spec.sources, step] using ih s acc hi h w
      | glob _ => simpa [Spec.sources, step] using ih s acc hi h w
      | parse _ => simpa [Spec.sources, step] using ih s acc hi h w
  exact gen calls {} [] inv_init (by intro w; simp) w

theorem seen_nodup (cfg : Cfg) (calls : List Call) : (Spec.seen cfg calls).Nodup := by
  unfold Spec.seen
  have : ∀ (l : List (List Str)) (acc : List Str), acc.Nodup →
      (l.foldl (fun acc t => LSet.union acc (runPipeline cfg.tables cfg.pipeline t)) acc).Nodup := by
    intro l
    induction l with
    | nil => intro acc h; exact h
    | cons t l ih => intro acc h; exact ih _ (LSet.nodup_union h _)
  exact this _ [] List.nodup_nil

end Hyp.Lex
