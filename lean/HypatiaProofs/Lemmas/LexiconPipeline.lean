import HypatiaModel.Spec.LexiconSpec
/-!
The pipeline elements: what the two splitter regexes compute, markup stripping, and that glob
tokenisation agrees with plain tokenisation on text without glob characters.
-/
set_option linter.unusedSimpArgs false
set_option linter.unusedSectionVars false
namespace Hyp.Lex
open Hyp.QP (Str)

/-! ### list helpers -/

theorem mem_takeWhile_imp {α : Type} {p : α → Bool} {l : List α} {x : α}
    (h : x ∈ l.takeWhile p) : p x = true := by
  induction l with
  | nil => simp at h
  | cons a l ih =>
    rw [List.takeWhile_cons] at h
    split at h
    · next ha =>
      rcases List.mem_cons.mp h with e | e
      · exact e ▸ ha
      · exact ih e
    · simp at h

theorem takeWhile_eq_self {α : Type} (p : α → Bool) (l : List α) (h : ∀ x ∈ l, p x = true) :
    l.takeWhile p = l := by
  induction l with
  | nil => rfl
  | cons a l ih =>
    rw [List.takeWhile_cons, h a (by simp)]
    simp only [if_true]
    rw [ih (fun x hx => h x (List.mem_cons_of_mem _ hx))]

theorem dropWhile_eq_nil {α : Type} (p : α → Bool) (l : List α) (h : ∀ x ∈ l, p x = true) :
    l.dropWhile p = [] := by
  induction l with
  | nil => rfl
  | cons a l ih =>
    rw [List.dropWhile_cons, h a (by simp)]
    simp only [if_true]
    exact ih (fun x hx => h x (List.mem_cons_of_mem _ hx))

theorem takeWhile_congr' {α : Type} (p q : α → Bool) (l : List α) (h : ∀ x ∈ l, p x = q x) :
    l.takeWhile p = l.takeWhile q := by
  induction l with
  | nil => rfl
  | cons a l ih =>
    simp only [List.takeWhile_cons, h a (by simp), ih (fun x hx => h x (List.mem_cons_of_mem _ hx))]

theorem dropWhile_congr' {α : Type} (p q : α → Bool) (l : List α) (h : ∀ x ∈ l, p x = q x) :
    l.dropWhile p = l.dropWhile q := by
  induction l with
  | nil => rfl
  | cons a l ih =>
    simp only [List.dropWhile_cons, h a (by simp), ih (fun x hx => h x (List.mem_cons_of_mem _ hx))]

theorem flatMap_congr' {α β : Type} (f g : α → List β) (l : List α) (h : ∀ x ∈ l, f x = g x) :
    l.flatMap f = l.flatMap g := by
  induction l with
  | nil => rfl
  | cons a l ih =>
    simp only [List.flatMap_cons, h a (by simp), ih (fun x hx => h x (List.mem_cons_of_mem _ hx))]

/-! ### the scanner for `S C*` -/

theorem tokensAux_none_cons (st ct : Nat → Bool) (c : Nat) (cs : Str) :
    tokensAux st ct (c :: cs) none =
      if st c then tokensAux st ct cs (some [c]) else tokensAux st ct cs none := rfl

theorem tokensAux_some (st ct : Nat → Bool) (s w : Str) :
    tokensAux st ct s (some w) =
      (w.reverse ++ s.takeWhile ct) :: tokensAux st ct (s.dropWhile ct) none := by
  induction s generalizing w with
  | nil => simp [tokensAux]
  | cons c cs ih =>
    by_cases h : ct c = true
    · simp only [tokensAux, h, if_true, List.takeWhile_cons, List.dropWhile_cons]
      rw [ih]; simp
    · simp only [tokensAux, h, Bool.false_eq_true, if_false, List.takeWhile_cons, List.dropWhile_cons,
        List.append_nil]

/-- the characteristic equation of `findall` for `S C*`: a token starts at the first `S`
character and takes the longest run of `C` characters after it -/
theorem tokens_cons (st ct : Nat → Bool) (c : Nat) (cs : Str) :
    tokens st ct (c :: cs) =
      if st c then (c :: cs.takeWhile ct) :: tokens st ct (cs.dropWhile ct) else tokens st ct cs := by
  unfold tokens
  rw [tokensAux_none_cons]
  split
  · rw [tokensAux_some]; simp
  · rfl

@[simp] theorem tokens_nil (st ct : Nat → Bool) : tokens st ct [] = [] := rfl

theorem dropWhile_length_le {α : Type} (p : α → Bool) (l : List α) :
    (l.dropWhile p).length ≤ l.length := (List.dropWhile_sublist p).length_le

/-- induction principle following `tokens_cons` -/
theorem tokens_induct (st ct : Nat → Bool) (P : Str → Prop) (hnil : P [])
    (hstart : ∀ c cs, st c = true → P (cs.dropWhile ct) → P (c :: cs))
    (hskip : ∀ c cs, st c = false → P cs → P (c :: cs)) : ∀ s, P s := by
  intro s
  induction hn : s.length using Nat.strongRecOn generalizing s with
  | _ n ih =>
    cases s with
    | nil => exact hnil
    | cons c cs =>
      cases hc : st c with
      | true =>
        apply hstart c cs hc
        apply ih (cs.dropWhile ct).length _ _ rfl
        have := dropWhile_length_le ct cs
        simp at hn; omega
      | false =>
        apply hskip c cs hc
        apply ih cs.length _ _ rfl
        simp at hn; omega

/-- every token is `S C*` -/
theorem tokens_shape (st ct : Nat → Bool) (s : Str) :
    ∀ w ∈ tokens st ct s, ∃ c r, w = c :: r ∧ st c = true ∧ ∀ d ∈ r, ct d = true := by
  induction s using tokens_induct st ct with
  | hnil => simp
  | hstart c cs hc ih =>
    rw [tokens_cons]; simp only [hc, if_true, List.mem_cons]
    rintro w (e | e)
    · refine ⟨c, _, e, hc, ?_⟩
      intro d hd
      exact mem_takeWhile_imp hd
    · exact ih w e
  | hskip c cs hc ih =>
    rw [tokens_cons]; simpa [hc] using ih

theorem takeWhile_append_of_neg {α : Type} (p : α → Bool) (a : List α) (c : α) (b : List α)
    (hc : p c = false) : (a ++ c :: b).takeWhile p = a.takeWhile p := by
  induction a with
  | nil => simp [List.takeWhile_cons, hc]
  | cons x a ih => simp only [List.cons_append, List.takeWhile_cons, ih]

theorem dropWhile_append_of_neg {α : Type} (p : α → Bool) (a : List α) (c : α) (b : List α)
    (hc : p c = false) : (a ++ c :: b).dropWhile p = a.dropWhile p ++ c :: b := by
  induction a with
  | nil => simp [List.dropWhile_cons, hc]
  | cons x a ih =>
    simp only [List.cons_append, List.dropWhile_cons]
    split
    · exact ih
    · rfl

/-- a character outside `C` (hence outside `S ⊆ C`) separates: the two sides are tokenised
independently -/
theorem tokens_sep (st ct : Nat → Bool) (hsub : ∀ c, st c = true → ct c = true) (a : Str) (c : Nat)
    (b : Str) (hc : ct c = false) :
    tokens st ct (a ++ c :: b) = tokens st ct a ++ tokens st ct b := by
  have hsc : st c = false := by
    cases h : st c with
    | false => rfl
    | true => rw [hsub c h] at hc; cases hc
  induction a using tokens_induct st ct with
  | hnil => simp [tokens_cons, hsc]
  | hstart x xs hx ih =>
    simp only [List.cons_append, tokens_cons, hx, if_true]
    rw [takeWhile_append_of_neg ct xs c b hc, dropWhile_append_of_neg ct xs c b hc, ih]
  | hskip x xs hx ih =>
    simp only [List.cons_append, tokens_cons, hx, Bool.false_eq_true, if_false]
    exact ih

/-- a non-empty string that is `S C*` is one token -/
theorem tokens_single (st ct : Nat → Bool) (c : Nat) (r : Str) (hc : st c = true)
    (hr : ∀ d ∈ r, ct d = true) : tokens st ct (c :: r) = [c :: r] := by
  rw [tokens_cons]
  have h1 : r.takeWhile ct = r := takeWhile_eq_self ct r hr
  have h2 : r.dropWhile ct = [] := dropWhile_eq_nil ct r hr
  simp [hc, h1, h2]

/-- two continuation classes that agree on the characters of `s` give the same tokens -/
theorem tokens_congr (st ct ct' : Nat → Bool) (s : Str) (h : ∀ c ∈ s, ct c = ct' c) :
    tokens st ct s = tokens st ct' s := by
  induction s using tokens_induct st ct with
  | hnil => rfl
  | hstart c cs hc ih =>
    have hcs : ∀ d ∈ cs, ct d = ct' d := fun d hd => h d (List.mem_cons_of_mem _ hd)
    have e1 : cs.takeWhile ct = cs.takeWhile ct' := takeWhile_congr' ct ct' cs hcs
    have e2 : cs.dropWhile ct = cs.dropWhile ct' := dropWhile_congr' ct ct' cs hcs
    rw [tokens_cons, tokens_cons]
    simp only [hc, if_true]
    rw [e1, ← e2]
    congr 1
    apply ih
    intro d hd
    exact hcs d ((List.dropWhile_sublist _).subset hd)
  | hskip c cs hc ih =>
    rw [tokens_cons, tokens_cons]
    simp only [hc, Bool.false_eq_true, if_false]
    exact ih (fun d hd => h d (List.mem_cons_of_mem _ hd))

/-- tokens are cut out of the string: they contain only characters of the string -/
theorem tokens_chars (st ct : Nat → Bool) (s : Str) :
    ∀ w ∈ tokens st ct s, ∀ d ∈ w, d ∈ s := by
  induction s using tokens_induct st ct with
  | hnil => simp
  | hstart c cs hc ih =>
    rw [tokens_cons]; simp only [hc, if_true, List.mem_cons]
    rintro w (e | e) d hd
    · subst e
      rcases List.mem_cons.mp hd with e' | e'
      · exact Or.inl e'
      · exact Or.inr ((List.takeWhile_sublist _).subset e')
    · exact Or.inr ((List.dropWhile_sublist _).subset (ih w e d hd))
  | hskip c cs hc ih =>
    rw [tokens_cons]; simp only [hc, Bool.false_eq_true, if_false]
    intro w hw d hd
    exact List.mem_cons_of_mem _ (ih w hw d hd)

/-- for `\w+`: nothing but non-word characters is dropped, nothing is reordered -/
theorem tokens_conserve (p : Nat → Bool) (s : Str) : (tokens p p s).flatten = s.filter p := by
  induction s using tokens_induct p p with
  | hnil => rfl
  | hstart c cs hc ih =>
    rw [tokens_cons]
    simp only [hc, if_true, List.flatten_cons, ih, List.filter_cons, List.cons_append]
    congr 1
    conv => rhs; rw [← List.takeWhile_append_dropWhile (p := p) (l := cs)]
    rw [List.filter_append]
    congr 1
    exact (List.filter_eq_self.mpr (fun a ha => mem_takeWhile_imp ha)).symm
  | hskip c cs hc ih =>
    rw [tokens_cons]
    simp only [hc, Bool.false_eq_true, if_false, List.filter_cons]
    exact ih

/-! ### markup -/

theorem stripAux_skip (x b : Str) : stripAux (x ++ b) x.length = stripAux b 0 := by
  induction x with
  | nil => rfl
  | cons c x ih => simp only [List.cons_append, List.length_cons, stripAux]; exact ih

/-- a complete tag or entity at the head becomes one space -/
theorem stripMarkup_markup (c : Nat) (x b : Str) (h : markupLen c (x ++ b) = some (x.length + 1)) :
    stripMarkup (c :: x ++ b) = SPACE :: stripMarkup b := by
  simp only [stripMarkup, List.cons_append, stripAux, h, Nat.add_sub_cancel]
  rw [stripAux_skip]

/-- a character that does not begin markup is kept -/
theorem stripMarkup_plain (c : Nat) (s : Str) (h : markupLen c s = none) :
    stripMarkup (c :: s) = c :: stripMarkup s := by
  simp [stripMarkup, stripAux, h]

theorem tagTail_tag (body b : Str) (hb : ∀ d ∈ body, d ≠ LT ∧ d ≠ GT) :
    tagTail (body ++ GT :: b) = some (body.length + 1) := by
  induction body with
  | nil => simp [tagTail]
  | cons d body ih =>
    obtain ⟨h1, h2⟩ := hb d (by simp)
    have h1' : (d == GT) = false := by simp [h2]
    have h2' : (d == LT) = false := by simp [h1]
    simp only [List.cons_append, tagTail, h1', h2', Bool.false_eq_true, if_false,
      ih (fun e he => hb e (List.mem_cons_of_mem _ he)), Option.map_some, List.length_cons]

/-- `<…>` without inner angle brackets is replaced by a space -/
theorem stripMarkup_tag (body b : Str) (hb : ∀ d ∈ body, d ≠ LT ∧ d ≠ GT) :
    stripMarkup (LT :: body ++ GT :: b) = SPACE :: stripMarkup b := by
  have := stripMarkup_markup LT (body ++ [GT]) b (by
    simp only [markupLen, beq_self_eq_true, if_true, List.append_assoc, List.singleton_append,
      tagTail_tag body b hb, Option.map_some, List.length_append, List.length_singleton])
  simpa using this

theorem entTail_ent (name b : Str) (hn : ∀ d ∈ name, isAsciiLetter d = true) :
    entTail (name ++ SEMI :: b) = some (name.length + 1) := by
  induction name with
  | nil => simp [entTail]
  | cons d name ih =>
    have h1 := hn d (by simp)
    have h2 : (d == SEMI) = false := by
      cases h : d == SEMI with
      | false => rfl
      | true =>
        have : d = SEMI := by simpa using h
        subst this; simp [isAsciiLetter, SEMI] at h1
    simp only [List.cons_append, entTail, h2, Bool.false_eq_true, if_false, h1, if_true,
      ih (fun e he => hn e (List.mem_cons_of_mem _ he)), Option.map_some, List.length_cons]

/-- `&name;` with a non-empty ASCII-letter name is replaced by a space -/
theorem stripMarkup_entity (d : Nat) (name b : Str) (hd : isAsciiLetter d = true)
    (hn : ∀ e ∈ name, isAsciiLetter e = true) :
    stripMarkup (AMP :: d :: name ++ SEMI :: b) = SPACE :: stripMarkup b := by
  have := stripMarkup_markup AMP (d :: name ++ [SEMI]) b (by
    have h0 : (AMP == LT) = false := by decide
    simp only [markupLen, h0, Bool.false_eq_true, if_false, beq_self_eq_true, if_true,
      List.cons_append, List.append_assoc, List.singleton_append, List.nil_append, hd,
      entTail_ent name b hn, Option.map_some, List.length_cons, List.length_append,
      List.length_singleton, List.length_nil])
  simpa using this

/-- text without `<` and `&` is unchanged -/
theorem stripMarkup_id (s : Str) (h : ∀ d ∈ s, d ≠ LT ∧ d ≠ AMP) : stripMarkup s = s := by
  induction s with
  | nil => rfl
  | cons c s ih =>
    obtain ⟨h1, h2⟩ := h c (by simp)
    rw [stripMarkup_plain c s (by simp [markupLen, h1, h2]),
      ih (fun d hd => h d (List.mem_cons_of_mem _ hd))]

theorem stripAux_chars (s : Str) (k : Nat) : ∀ d ∈ stripAux s k, d ∈ s ∨ d = SPACE := by
  induction s generalizing k with
  | nil => simp [stripAux]
  | cons c s ih =>
    cases k with
    | succ k =>
      simp only [stripAux]
      intro d hd
      rcases ih k d hd with h | h
      · exact Or.inl (List.mem_cons_of_mem _ h)
      · exact Or.inr h
    | zero =>
      simp only [stripAux]
      split
      · intro d hd
        rcases List.mem_cons.mp hd with e | e
        · exact Or.inr e
        · rcases ih _ d e with h | h
          · exact Or.inl (List.mem_cons_of_mem _ h)
          · exact Or.inr h
      · intro d hd
        rcases List.mem_cons.mp hd with e | e
        · exact Or.inl (e ▸ List.mem_cons_self)
        · rcases ih _ d e with h | h
          · exact Or.inl (List.mem_cons_of_mem _ h)
          · exact Or.inr h

/-! ### elements and pipelines distribute over list concatenation -/

theorem process_append (t : Tables) (e : Elem) (a b : List Str) :
    process t e (a ++ b) = process t e a ++ process t e b := by
  cases e <;> simp [process]

theorem processGlob_append (t : Tables) (e : Elem) (a b : List Str) :
    processGlob t e (a ++ b) = processGlob t e a ++ processGlob t e b := by
  cases e <;> simp [processGlob, process]

theorem runPipeline_append (t : Tables) (p : List Elem) (a b : List Str) :
    runPipeline t p (a ++ b) = runPipeline t p a ++ runPipeline t p b := by
  unfold runPipeline
  induction p generalizing a b with
  | nil => rfl
  | cons e p ih => simp only [List.foldl_cons, process_append, ih]

theorem runPipeline_nil (t : Tables) (p : List Elem) : runPipeline t p [] = [] := by
  unfold runPipeline
  induction p with
  | nil => rfl
  | cons e p ih =>
    simp only [List.foldl_cons]
    have : process t e [] = [] := by cases e <;> simp [process]
    rw [this]; exact ih

theorem runPipeline_cons (t : Tables) (p : List Elem) (a : Str) (l : List Str) :
    runPipeline t p (a :: l) = runPipeline t p [a] ++ runPipeline t p l := by
  have := runPipeline_append t p [a] l
  simpa using this

/-! ### glob tokenisation agrees with plain tokenisation on glob-free text -/

def GlobFree (s : Str) : Prop := ∀ c ∈ s, isGlobChar c = false

/-- `str.lower()` does not create glob characters -/
def LowerKeepsPlain (t : Tables) : Prop :=
  ∀ c, isGlobChar c = false → ∀ d ∈ t.lower c, isGlobChar d = false

theorem splitGlobs_eq_splitWords (t : Tables) (s : Str) (h : GlobFree s) :
    splitGlobs t s = splitWords t s := by
  unfold splitGlobs splitWords
  apply tokens_congr
  intro c hc
  simp [h c hc]

theorem lowerStr_globFree (t : Tables) (hl : LowerKeepsPlain t) (s : Str) (h : GlobFree s) :
    GlobFree (lowerStr t s) := by
  intro d hd
  simp only [lowerStr, List.mem_flatMap] at hd
  obtain ⟨c, hc, hd⟩ := hd
  exact hl c (h c hc) d hd

theorem stripMarkup_globFree (s : Str) (h : GlobFree s) : GlobFree (stripMarkup s) := by
  intro d hd
  rcases stripAux_chars s 0 d hd with h' | h'
  · exact h d h'
  · subst h'; decide

theorem process_globFree (t : Tables) (hl : LowerKeepsPlain t) (e : Elem) (l : List Str)
    (h : ∀ s ∈ l, GlobFree s) : ∀ s ∈ process t e l, GlobFree s := by
  cases e with
  | splitter =>
    intro w hw
    simp only [process, List.mem_flatMap] at hw
    obtain ⟨s, hs, hw⟩ := hw
    intro d hd
    exact h s hs d (tokens_chars _ _ s w hw d hd)
  | caseNorm =>
    intro w hw
    simp only [process, List.mem_map] at hw
    obtain ⟨s, hs, rfl⟩ := hw
    exact lowerStr_globFree t hl s (h s hs)
  | stop d =>
    intro w hw
    simp only [process, List.mem_filter] at hw
    exact h w hw.1
  | stopSingle d =>
    intro w hw
    simp only [process, List.mem_filter] at hw
    exact h w hw.1
  | html =>
    intro w hw
    simp only [process, List.mem_flatMap] at hw
    obtain ⟨s, hs, hw⟩ := hw
    intro d hd
    exact stripMarkup_globFree _ (lowerStr_globFree t hl s (h s hs)) d (tokens_chars _ _ _ w hw d hd)

theorem processGlob_eq_process (t : Tables) (hl : LowerKeepsPlain t) (e : Elem) (l : List Str)
    (h : ∀ s ∈ l, GlobFree s) : processGlob t e l = process t e l := by
  cases e with
  | splitter =>
    simp only [processGlob, process]
    apply flatMap_congr'
    intro s hs
    exact splitGlobs_eq_splitWords t s (h s hs)
  | html =>
    simp only [processGlob, process]
    apply flatMap_congr'
    intro s hs
    exact splitGlobs_eq_splitWords t _ (stripMarkup_globFree _ (lowerStr_globFree t hl s (h s hs)))
  | caseNorm => rfl
  | stop d => rfl
  | stopSingle d => rfl

theorem runPipelineGlob_eq (t : Tables) (hl : LowerKeepsPlain t) (p : List Elem) (l : List Str)
    (h : ∀ s ∈ l, GlobFree s) : runPipelineGlob t p l = runPipeline t p l := by
  unfold runPipelineGlob runPipeline
  induction p generalizing l with
  | nil => rfl
  | cons e p ih =>
    simp only [List.foldl_cons]
    rw [processGlob_eq_process t hl e l h]
    exact ih _ (process_globFree t hl e l h)

end Hyp.Lex
