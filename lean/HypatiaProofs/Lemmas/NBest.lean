import HypatiaModel.NBest
import HypatiaModel.Spec.NBestSpec
import HypatiaModel.Prim.Order
import HypatiaProofs.Lemmas.SortAppend

/-!
# NBest: the collector holds the first N of the stable descending sort

Invariant: the list is ascending, not longer than the capacity, capacity ≥ 1.  Under it one
`add` turns `getbest` into `take N (insertAfter p getbest)`.  Scores are any type with the
linear-order laws `OrdLaws` (core Lean only).
-/
set_option linter.unusedSectionVars false
namespace Hyp.NBest
open Hyp.Sort Hyp.NBestSpec
variable {ι σ : Type} [LT σ] [DecidableLT σ] [LE σ] [DecidableLE σ]

theorem descLe_tp (o : OrdLaws σ) : TotalPreorder (descLe : ι × σ → ι × σ → Bool) where
  total a b := by
    simp only [descLe, decide_eq_true_eq]
    exact o.le_total b.2 a.2
  trans a b c h1 h2 := by
    simp only [descLe, decide_eq_true_eq] at *
    exact o.le_trans _ _ _ h2 h1

/-- ascending by score -/
def Asc (l : List (ι × σ)) : Prop := l.Pairwise (fun a b => a.2 ≤ b.2)

structure Inv (s : State ι σ) : Prop where
  asc : Asc s.l
  len : s.l.length ≤ s.cap
  cap : 1 ≤ s.cap

theorem mem_insertAsc (p : ι × σ) (l : List (ι × σ)) (y : ι × σ) :
    y ∈ insertAsc p l ↔ y = p ∨ y ∈ l := by
  induction l with
  | nil => simp [insertAsc]
  | cons e es ih =>
    unfold insertAsc
    split
    · simp only [List.mem_cons, ih]
      constructor
      · rintro (h | h | h)
        · exact Or.inr (Or.inl h)
        · exact Or.inl h
        · exact Or.inr (Or.inr h)
      · rintro (h | h | h)
        · exact Or.inr (Or.inl h)
        · exact Or.inl h
        · exact Or.inr (Or.inr h)
    · simp

theorem asc_insertAsc (o : OrdLaws σ) (p : ι × σ) (l : List (ι × σ)) (h : Asc l) :
    Asc (insertAsc p l) := by
  induction l with
  | nil => simp [insertAsc, Asc]
  | cons e es ih =>
    unfold Asc at h ih ⊢
    rw [List.pairwise_cons] at h
    unfold insertAsc
    split
    · next hlt =>
      rw [List.pairwise_cons]
      refine ⟨?_, ih h.2⟩
      intro y hy
      rcases (mem_insertAsc p es y).mp hy with rfl | hy'
      · exact ((o.lt_iff _ _).mp hlt).1
      · exact h.1 y hy'
    · next hnlt =>
      have hpe : p.2 ≤ e.2 := (o.not_lt _ _).mp hnlt
      rw [List.pairwise_cons]
      refine ⟨?_, List.pairwise_cons.mpr h⟩
      intro y hy
      rcases List.mem_cons.mp hy with rfl | hy'
      · exact hpe
      · exact o.le_trans _ _ _ hpe (h.1 y hy')

/-- the list stays ascending (so `bisect_left` is used on a sorted list), bounded by the capacity -/
theorem inv_add (o : OrdLaws σ) (s : State ι σ) (p : ι × σ) (h : Inv s) : Inv (add s p) := by
  unfold add
  cases hs : skips s p with
  | true => simpa using h
  | false =>
    have hl := length_insertAsc p s.l
    have ha := asc_insertAsc o p s.l h.asc
    by_cases h2 : s.l.length = s.cap
    · simp only [Bool.false_eq_true, if_false, h2, if_true]
      refine ⟨?_, ?_, h.cap⟩
      · exact List.Pairwise.sublist (List.tail_sublist _) ha
      · simp [hl, h2]
    · simp only [Bool.false_eq_true, if_false, h2]
      refine ⟨ha, ?_, h.cap⟩
      have := h.len
      simp only [hl]; omega

theorem inv_addMany (o : OrdLaws σ) (s : State ι σ) (ps : List (ι × σ)) (h : Inv s) :
    Inv (addMany s ps) := by
  unfold addMany
  induction ps generalizing s with
  | nil => exact h
  | cons p ps ih => exact ih _ (inv_add o s p h)

theorem inv_step (o : OrdLaws σ) (s : State ι σ) (op : Op ι σ) (h : Inv s) : Inv (step s op) := by
  cases op with
  | addMany ps => exact inv_addMany o s ps h
  | pop =>
    unfold step popSmallest
    cases hl : s.l with
    | nil => simpa using h
    | cons e es =>
      simp only
      have ha := h.asc
      have hn := h.len
      rw [hl] at ha hn
      refine ⟨?_, ?_, h.cap⟩
      · exact (List.pairwise_cons.mp ha).2
      · simp at hn ⊢; omega

theorem inv_run (o : OrdLaws σ) (s : State ι σ) (ops : List (Op ι σ)) (h : Inv s) : Inv (run s ops) := by
  unfold run
  induction ops generalizing s with
  | nil => exact h
  | cons op ops ih => exact ih _ (inv_step o s op h)

theorem inv_new (N : Int) (s : State ι σ) (h : new N = .ok s) : Inv s ∧ s.l = [] ∧ (s.cap : Int) = N := by
  unfold new at h
  split at h
  · cases h
  · injection h with h; subst h
    refine ⟨⟨by simp [Asc], by simp, ?_⟩, rfl, ?_⟩ <;> simp <;> omega

/-- reversing the ascending insertion = inserting behind everything at least as good -/
theorem reverse_insertAsc (o : OrdLaws σ) (p : ι × σ) (l : List (ι × σ)) (h : Asc l) :
    (insertAsc p l).reverse = insertAfter descLe p l.reverse := by
  induction l with
  | nil => rfl
  | cons e es ih =>
    unfold Asc at h ih
    rw [List.pairwise_cons] at h
    unfold insertAsc
    split
    · next hlt =>
      have hne : descLe e p = false := by
        simp only [descLe, decide_eq_false_iff_not]
        exact (o.not_le _ _).mpr hlt
      rw [List.reverse_cons, ih h.2, List.reverse_cons, insertAfter_append_singleton _ _ _ _ hne]
    · next hnlt =>
      have hpe : p.2 ≤ e.2 := (o.not_lt _ _).mp hnlt
      have hall : ∀ y ∈ (e :: es).reverse, descLe y p = true := by
        intro y hy
        simp only [descLe, decide_eq_true_eq]
        rcases List.mem_cons.mp (List.mem_reverse.mp hy) with rfl | hy'
        · exact hpe
        · exact o.le_trans _ _ _ hpe (h.1 y hy')
      rw [insertAfter_of_all_le _ _ _ hall]
      simp

/-- one `add` in terms of what is held -/
theorem getBest_add (o : OrdLaws σ) (s : State ι σ) (p : ι × σ) (h : Inv s) :
    getBest (add s p) = (insertAfter descLe p (getBest s)).take s.cap := by
  unfold getBest add
  cases hs : skips s p with
  | true =>
    simp only [if_true]
    unfold skips at hs
    cases hl : s.l with
    | nil => rw [hl] at hs; cases hs
    | cons e es =>
      rw [hl] at hs
      simp only [Bool.and_eq_true, decide_eq_true_eq] at hs
      have hn := h.len
      have ha := h.asc
      rw [hl] at hn ha
      have hlen : (e :: es).reverse.length = s.cap := by
        rw [List.length_reverse]; omega
      have hall : ∀ y ∈ (e :: es).reverse, descLe y p = true := by
        intro y hy
        simp only [descLe, decide_eq_true_eq]
        rcases List.mem_cons.mp (List.mem_reverse.mp hy) with rfl | hy'
        · exact hs.2
        · exact o.le_trans _ _ _ hs.2 ((List.pairwise_cons.mp ha).1 y hy')
      rw [insertAfter_of_all_le _ _ _ hall, List.take_left' hlen]
  | false =>
    have hl := length_insertAsc p s.l
    have hr := reverse_insertAsc o p s.l h.asc
    by_cases h2 : s.l.length = s.cap
    · simp only [Bool.false_eq_true, if_false, h2, if_true]
      rw [← List.dropLast_reverse, hr, List.dropLast_eq_take, length_insertAfter, List.length_reverse, h2]
      simp
    · simp only [Bool.false_eq_true, if_false, h2]
      rw [hr, List.take_of_length_le]
      have := h.len
      rw [length_insertAfter, List.length_reverse]; omega

theorem getBest_sorted (s : State ι σ) (h : Inv s) :
    (getBest s).Pairwise (fun a b => descLe a b = true) := by
  unfold getBest
  rw [List.pairwise_reverse]
  have := h.asc
  unfold Asc at this
  simpa [descLe] using this

/-- `addmany` from any state: the first `N` of the stable descending sort of held ++ new -/
theorem getBest_addMany (o : OrdLaws σ) (s : State ι σ) (ps : List (ι × σ)) (h : Inv s) :
    getBest (addMany s ps) = best s.cap (getBest s ++ ps) ∧ (addMany s ps).cap = s.cap := by
  have key : ∀ (ps : List (ι × σ)) (s : State ι σ), Inv s →
      getBest (addMany s ps)
        = ps.foldl (fun acc p => (insertAfter descLe p acc).take s.cap) (getBest s)
      ∧ (addMany s ps).cap = s.cap := by
    intro ps
    induction ps with
    | nil => intro s _; exact ⟨rfl, rfl⟩
    | cons p ps ih =>
      intro s hs
      have hcap : (add s p).cap = s.cap := by
        unfold add; split
        · rfl
        · split <;> rfl
      have := ih (add s p) (inv_add o s p hs)
      unfold addMany at this ⊢
      simp only [List.foldl_cons]
      rw [this.1, this.2, hcap, getBest_add o s p hs]
      exact ⟨rfl, rfl⟩
  refine ⟨?_, (key ps s h).2⟩
  rw [(key ps s h).1]
  have hlen : (getBest s).take s.cap = getBest s := by
    apply List.take_of_length_le
    unfold getBest; rw [List.length_reverse]; exact h.len
  rw [← hlen, foldl_take_insertAfter, hlen]
  unfold best sortDesc
  rw [isort_append (descLe_tp o), isort_of_sorted _ _ (getBest_sorted s h)]

theorem cap_step (s : State ι σ) (op : Op ι σ) : (step s op).cap = s.cap := by
  cases op with
  | addMany ps =>
    unfold step addMany
    induction ps generalizing s with
    | nil => rfl
    | cons p ps ih =>
      simp only [List.foldl_cons]
      rw [ih]
      unfold add; split
      · rfl
      · split <;> rfl
  | pop =>
    unfold step popSmallest
    cases s.l <;> rfl

theorem cap_run (s : State ι σ) (ops : List (Op ι σ)) : (run s ops).cap = s.cap := by
  unfold run
  induction ops generalizing s with
  | nil => rfl
  | cons op ops ih => simp only [List.foldl_cons]; rw [ih, cap_step]

theorem getBest_step (o : OrdLaws σ) (s : State ι σ) (op : Op ι σ) (h : Inv s) :
    getBest (step s op) = NBestSpec.step s.cap (getBest s) op := by
  cases op with
  | addMany ps => exact (getBest_addMany o s ps h).1
  | pop =>
    unfold step popSmallest NBestSpec.step getBest
    cases hl : s.l with
    | nil => simp [hl]
    | cons e es => simp

theorem getBest_run (o : OrdLaws σ) (s : State ι σ) (ops : List (Op ι σ)) (h : Inv s) :
    getBest (run s ops) = NBestSpec.run s.cap (getBest s) ops := by
  unfold run NBestSpec.run
  induction ops generalizing s with
  | nil => rfl
  | cons op ops ih =>
    simp only [List.foldl_cons]
    rw [ih _ (inv_step o s op h), cap_step, getBest_step o s op h]

end Hyp.NBest
