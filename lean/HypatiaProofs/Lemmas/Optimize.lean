import HypatiaProofs.Lemmas.QueryCompl

set_option linter.unusedSectionVars false
set_option linter.unusedSimpArgs false
set_option linter.unusedVariables false
namespace Hyp.Query
open Hyp

/-! ### the optimiser needs no budget either -/

theorem optFuel_eq : ∀ (n m : Nat) (q : Q), size q < n → size q < m → optFuel n q = optFuel m q := by
  intro n
  induction n with
  | zero => intro m q h; omega
  | succ n ih =>
    intro m q hn hm
    cases m with
    | zero => omega
    | succ m =>
      cases q with
      | cmp c i v => rfl
      | range neg i lo hi el eh => rfl
      | not q =>
        simp only [optFuel]
        simp only [size] at hn hm
        have := size_negate_le q
        exact ih m (negate q) (by omega) (by omega)
      | and qs =>
        simp only [optFuel]
        simp only [size] at hn hm
        have : qs.map (optFuel n) = qs.map (optFuel m) := by
          apply List.map_congr_left
          intro x hx
          have := size_le_sizeList hx
          exact ih m x (by omega) (by omega)
        rw [this]
      | or qs =>
        simp only [optFuel]
        simp only [size] at hn hm
        have : qs.map (optFuel n) = qs.map (optFuel m) := by
          apply List.map_congr_left
          intro x hx
          have := size_le_sizeList hx
          exact ih m x (by omega) (by omega)
        rw [this]

theorem optimize_not (q : Q) : optimize (.not q) = optimize (negate q) := by
  have h := size_negate_le q
  show optFuel (size (.not q) + 1) (.not q) = optFuel (size (negate q) + 1) (negate q)
  simp only [size, optFuel]
  exact optFuel_eq (1 + size q) (size (negate q) + 1) (negate q) (by omega) (by omega)

/-! ### range pairing is sound: `InRange(lo, hi) = G(lo) ∩ L(hi)` on a field index -/

def lowerCmp (strict : Bool) : Cmp := if strict then .gt else .ge
def upperCmp (strict : Bool) : Cmp := if strict then .lt else .le

theorem val_field_cmp {cat : Catalog} {i : Nat} {t : Field.Spec.Table Int}
    (hi : cat[i]? = some (.field t)) (c : Cmp) (x : Int) (hc : c ≠ .notall) :
    val cat (.cmp c i (.one x)) = leafSet (.field t) c (.one x) := val_cmp_eq hi c (.one x) hc

theorem inrange_pairing {cat : Catalog} {i : Nat} {t : Field.Spec.Table Int}
    (hi : cat[i]? = some (.field t)) (lo hi' : Int) (exlo exhi : Bool) (d : Int) :
    d ∈ val cat (.range false i lo hi' exlo exhi) ↔
      d ∈ val cat (.cmp (lowerCmp exlo) i (.one lo)) ∧ d ∈ val cat (.cmp (upperCmp exhi) i (.one hi')) := by
  rw [val_range_mem hi, val_field_cmp hi _ _ (by cases exlo <;> simp [lowerCmp]),
    val_field_cmp hi _ _ (by cases exhi <;> simp [upperCmp])]
  cases exlo <;> cases exhi <;>
    simp [lowerCmp, upperCmp, leafSet, leafIndex, Cmp.positive, leafPos, Field.Spec.inRange,
      Field.Spec.gt, Field.Spec.ge, Field.Spec.lt, Field.Spec.le, Field.mem_sat, Field.inLo, Field.inHi] <;>
    constructor <;>
    (first
      | (rintro ⟨v, hv, h1, h2⟩; exact ⟨⟨v, hv, h1⟩, ⟨v, hv, h2⟩⟩)
      | (rintro ⟨⟨v, hv, h1⟩, ⟨w, hw, h2⟩⟩; rw [hv] at hw; cases hw; exact ⟨v, hv, h1, h2⟩))

/-- `NotInRange(a, b)` as produced by `Or._optimize` from `Lt/Le a` and `Gt/Ge b`: equal to the
union of the two bounds **on documents that have a value**; a value-less document is in the
`NotInRange` answer but in neither bound (finding D5). -/
theorem notinrange_pairing {cat : Catalog} {i : Nat} {t : Field.Spec.Table Int}
    (hi : cat[i]? = some (.field t)) (hval : HasValues (.field t))
    (a b : Int) (strictLt strictGt : Bool) (d : Int) :
    d ∈ val cat (.range true i a b (!strictLt) (!strictGt)) ↔
      d ∈ val cat (.cmp (upperCmp strictLt) i (.one a)) ∨ d ∈ val cat (.cmp (lowerCmp strictGt) i (.one b)) := by
  rw [val_range_mem hi, val_field_cmp hi _ _ (by cases strictLt <;> simp [upperCmp]),
    val_field_cmp hi _ _ (by cases strictGt <;> simp [lowerCmp])]
  simp only [if_true]
  constructor
  · rintro ⟨hk, hn⟩
    have hv := hval d hk
    cases hw : Field.Spec.valueOf t d with
    | none => simp [hw] at hv
    | some w =>
      have hn' : ¬ (Field.inLo (some a) (!strictLt) w && Field.inHi (some b) (!strictGt) w) = true := by
        intro hc; apply hn
        unfold Field.Spec.inRange; rw [Field.mem_sat]; exact ⟨w, hw, hc⟩
      cases strictLt <;> cases strictGt <;>
        simp [Field.inLo, Field.inHi] at hn' <;>
        simp [upperCmp, lowerCmp, leafSet, leafIndex, Cmp.positive, leafPos, Field.Spec.gt, Field.Spec.ge,
          Field.Spec.lt, Field.Spec.le, Field.mem_sat, hw] <;> omega
  · intro h
    have key : ∃ w, Field.Spec.valueOf t d = some w ∧
        ¬ (Field.inLo (some a) (!strictLt) w && Field.inHi (some b) (!strictGt) w) = true := by
      cases strictLt <;> cases strictGt <;>
        simp [upperCmp, lowerCmp, leafSet, leafIndex, Cmp.positive, leafPos, Field.Spec.gt, Field.Spec.ge,
          Field.Spec.lt, Field.Spec.le, Field.mem_sat] at h <;>
        rcases h with ⟨w, hw, hlt⟩ | ⟨w, hw, hlt⟩ <;>
        exact ⟨w, hw, by simp [Field.inLo, Field.inHi]; omega⟩
    obtain ⟨w, hw, hn⟩ := key
    refine ⟨field_valueOf_known hw, ?_⟩
    unfold Field.Spec.inRange; rw [Field.mem_sat]
    rintro ⟨w', hw', hc⟩
    rw [hw] at hw'; cases hw'; exact hn hc

end Hyp.Query

namespace Hyp.Query

/-- what `_optimize_eq` / `_optimize_not_eq` recognise -/
theorem foldSame_spec (c : Cmp) : ∀ (qs : List Q) (i : Nat) (xs : List Int),
    foldSame c qs = some (i, xs) → xs ≠ [] ∧ qs = xs.map (fun x => .cmp c i (.one x))
  | [], i, xs, h => by simp [foldSame] at h
  | .cmp c' j (.one x) :: rest, i, xs, h => by
    unfold foldSame at h
    by_cases hc : c' = c
    · subst hc
      simp only [if_true] at h
      cases rest with
      | nil => simp at h; obtain ⟨rfl, rfl⟩ := h; simp
      | cons r rs =>
        simp only at h
        cases hf : foldSame c' (r :: rs) with
        | none => simp [hf] at h
        | some p =>
          obtain ⟨k, ys⟩ := p
          simp only [hf] at h
          by_cases hjk : j = k
          · subst hjk
            simp only [if_true, Option.some.injEq, Prod.mk.injEq] at h
            obtain ⟨rfl, rfl⟩ := h
            obtain ⟨_, h2⟩ := foldSame_spec c' (r :: rs) j ys hf
            exact ⟨by simp, by simp [h2]⟩
          · simp [hjk] at h
    · simp [hc] at h
  | .cmp _ _ (.many _) :: _, _, _, h => by simp [foldSame] at h
  | .range _ _ _ _ _ _ :: _, _, _, h => by simp [foldSame] at h
  | .and _ :: _, _, _, h => by simp [foldSame] at h
  | .or _ :: _, _, _, h => by simp [foldSame] at h
  | .not _ :: _, _, _, h => by simp [foldSame] at h

/-- `Or(Eq(i,x₁), …, Eq(i,xₙ))` → `Any(i,[x₁…xₙ])` on field and keyword indexes -/
theorem fold_or_eq_any {cat : Catalog} {i : Nat} {ix : IndexT} (hi : cat[i]? = some ix)
    (hk : ∀ t, ix ≠ .text t) (xs : List Int) (hne : xs ≠ []) (d : Int) :
    d ∈ val cat (.or (xs.map fun x => .cmp .eq i (.one x))) ↔ d ∈ val cat (.cmp .any i (.many xs)) := by
  have hsup : supports ix .eq = true ∧ supports ix .any = true := by
    cases ix with
    | field t => exact ⟨rfl, rfl⟩
    | keyword t => exact ⟨rfl, rfl⟩
    | text t => exact absurd rfl (hk t)
  have hw : wellTyped cat (.or (xs.map fun x => .cmp .eq i (.one x))) = true := by
    rw [wellTyped, wellTyped_or]
    refine ⟨by simpa using hne, ?_⟩
    intro q hq
    obtain ⟨x, _, rfl⟩ := List.mem_map.mp hq
    simp [wellTypedW, hi, hsup.1, valOk]
  rw [val_or hw, val_cmp_eq hi .any _ (by simp)]
  constructor
  · rintro ⟨q, hq, hd⟩
    obtain ⟨x, hx, rfl⟩ := List.mem_map.mp hq
    rw [val_cmp_eq hi .eq _ (by simp)] at hd
    cases ix with
    | field t =>
      simp [leafSet, leafIndex, Cmp.positive, leafPos, valList, Field.Spec.eq, Field.Spec.any,
        Field.mem_sat] at hd ⊢
      rw [hd]; exact ⟨x, rfl, decide_eq_true hx⟩
    | keyword t =>
      simp [leafSet, leafIndex, Cmp.positive, leafPos, valList, mem_kwSat] at hd ⊢
      obtain ⟨h1, ks, h2, h3⟩ := hd
      exact ⟨h1, ks, h2, x, hx, h3⟩
    | text t => exact absurd rfl (hk t)
  · intro hd
    cases ix with
    | field t =>
      simp [leafSet, leafIndex, Cmp.positive, leafPos, valList, Field.Spec.any, Field.mem_sat] at hd
      obtain ⟨v, hv, hx⟩ := hd
      refine ⟨_, List.mem_map.mpr ⟨v, of_decide_eq_true hx, rfl⟩, ?_⟩
      rw [val_cmp_eq hi .eq _ (by simp)]
      simp [leafSet, leafIndex, Cmp.positive, leafPos, Field.Spec.eq, Field.mem_sat, hv]
    | keyword t =>
      simp [leafSet, leafIndex, Cmp.positive, leafPos, valList, mem_kwSat] at hd
      obtain ⟨h1, ks, h2, x, hx, h3⟩ := hd
      refine ⟨_, List.mem_map.mpr ⟨x, hx, rfl⟩, ?_⟩
      rw [val_cmp_eq hi .eq _ (by simp)]
      simp [leafSet, leafIndex, Cmp.positive, leafPos, mem_kwSat]
      exact ⟨h1, ks, h2, h3⟩
    | text t => exact absurd rfl (hk t)

/-- `And(Eq(i,x₁), …)` → `All(i,[x₁…])` on a keyword index (a field index has no `All`: finding D3) -/
theorem fold_and_eq_all {cat : Catalog} {i : Nat} {t : AMap Int (Option (List Int))}
    (hi : cat[i]? = some (.keyword t)) (xs : List Int) (hne : xs ≠ []) (d : Int) :
    d ∈ val cat (.and (xs.map fun x => .cmp .eq i (.one x))) ↔ d ∈ val cat (.cmp .all i (.many xs)) := by
  have hw : wellTyped cat (.and (xs.map fun x => .cmp .eq i (.one x))) = true := by
    rw [wellTyped, wellTyped_and]
    refine ⟨by simpa using hne, ?_⟩
    intro q hq
    obtain ⟨x, _, rfl⟩ := List.mem_map.mp hq
    simp [wellTypedW, hi, supports, valOk]
  rw [val_and hw, val_cmp_eq hi .all _ (by simp)]
  have hemp : xs.isEmpty = false := by cases xs <;> simp_all
  constructor
  · intro h
    simp only [leafSet, leafIndex, Cmp.positive, leafPos, valList, hemp, Bool.false_eq_true, if_false, mem_kwSat]
    cases xs with
    | nil => exact absurd rfl hne
    | cons x0 rest =>
      have h0 := h _ (List.mem_map.mpr ⟨x0, by simp, rfl⟩)
      rw [val_cmp_eq hi .eq _ (by simp)] at h0
      simp [leafSet, leafIndex, Cmp.positive, leafPos, mem_kwSat] at h0
      obtain ⟨hk, ks, hks, _⟩ := h0
      refine ⟨hk, ks, hks, ?_⟩
      simp only [List.all_eq_true, decide_eq_true_eq]
      intro x hx
      have hx' := h _ (List.mem_map.mpr ⟨x, hx, rfl⟩)
      rw [val_cmp_eq hi .eq _ (by simp)] at hx'
      simp [leafSet, leafIndex, Cmp.positive, leafPos, mem_kwSat] at hx'
      obtain ⟨_, ks', hks', hm⟩ := hx'
      rw [hks] at hks'; cases hks'; exact hm
  · intro hd q hq
    obtain ⟨x, hx, rfl⟩ := List.mem_map.mp hq
    rw [val_cmp_eq hi .eq _ (by simp)]
    simp only [leafSet, leafIndex, Cmp.positive, leafPos, valList, hemp, Bool.false_eq_true, if_false,
      mem_kwSat] at hd ⊢
    obtain ⟨hk, ks, hks, hall⟩ := hd
    simp only [List.all_eq_true, decide_eq_true_eq] at hall
    exact ⟨hk, ks, hks, by simpa using hall x hx⟩

end Hyp.Query
