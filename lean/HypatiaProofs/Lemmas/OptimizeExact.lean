import HypatiaProofs.Lemmas.OptimizeSound

/-!
# The three excluded regions are exact

Not only do they contain a counterexample each: at the root of a tree, *every* instance of the hazard
changes the outcome (D3: always an `AttributeError`; D5: every value-less document of the index is gained;
D2: the optimised answer is, on the documents the index knows, the complement of the right one).
-/
set_option linter.unusedSectionVars false
set_option linter.unusedSimpArgs false
set_option linter.unusedVariables false
namespace Hyp.Query
open Hyp

theorem folded_unsupported_raises (cat : Catalog) (c : Cmp) (i : Nat) (xs : List Int)
    (hc : c = .any ∨ c = .all ∨ c = .notany ∨ c = .notall)
    (ix : IndexT) (hi : cat[i]? = some ix) (hs : supports ix c = false) :
    applyQ cat (.cmp c i (.many xs)) = .error .attributeError := by
  rw [applyQ_cmp]
  unfold applyCmp
  rw [getIndex_of_get hi]
  rcases hc with rfl | rfl | rfl | rfl <;> cases ix <;> simp [supports] at hs <;> rfl

theorem optimize_or_lt_gt (i : Nat) (a b : Int) (s1 s2 : Bool) :
    optimize (.or [.cmp (upperCmp s1) i (.one a), .cmp (lowerCmp s2) i (.one b)]) =
      .range true i a b (!s1) (!s2) := by
  cases s1 <;> cases s2 <;>
    simp [optimize, optFuel, size, sizeList, foldSame, upperCmp, lowerCmp, pairLoop, orStep, upperOf, lowerOf,
      AMap.get, AMap.set, AMap.erase, List.zipIdx]

theorem valueless_gained {cat : Catalog} {i : Nat} {t : Field.Spec.Table Int}
    (hi : cat[i]? = some (.field t)) (d : Int) (hk : d ∈ Field.Spec.known t)
    (hv : Field.Spec.valueOf t d = none) (a b : Int) (s1 s2 : Bool) :
    d ∈ val cat (optimize (.or [.cmp (upperCmp s1) i (.one a), .cmp (lowerCmp s2) i (.one b)])) ∧
      d ∉ val cat (.or [.cmp (upperCmp s1) i (.one a), .cmp (lowerCmp s2) i (.one b)]) := by
  have hw : wellTyped cat (.or [.cmp (upperCmp s1) i (.one a), .cmp (lowerCmp s2) i (.one b)]) = true := by
    cases s1 <;> cases s2 <;> simp [wellTyped, wellTypedW, wellTypedListW, hi, supports, valOk, upperCmp, lowerCmp]
  constructor
  · rw [optimize_or_lt_gt, val_range_mem hi]
    simp only [if_true]
    refine ⟨hk, ?_⟩
    unfold Field.Spec.inRange
    rw [Field.mem_sat]
    rintro ⟨w, hw', _⟩
    rw [hv] at hw'; cases hw'
  · rw [val_or hw]
    rintro ⟨q, hq, hd⟩
    simp only [List.mem_cons, List.mem_nil_iff, or_false] at hq
    rcases hq with rfl | rfl
    · rw [val_field_cmp hi _ _ (by cases s1 <;> simp [upperCmp])] at hd
      cases s1 <;>
        simp [upperCmp, leafSet, leafIndex, Cmp.positive, leafPos, Field.Spec.lt, Field.Spec.le,
          Field.mem_sat, hv] at hd
    · rw [val_field_cmp hi _ _ (by cases s2 <;> simp [lowerCmp])] at hd
      cases s2 <;>
        simp [lowerCmp, leafSet, leafIndex, Cmp.positive, leafPos, Field.Spec.gt, Field.Spec.ge,
          Field.mem_sat, hv] at hd

theorem val_notall_eq_all (cat : Catalog) (i : Nat) (v : Val) :
    val cat (.cmp .notall i v) = val cat (.cmp .all i v) := rfl

theorem foldSame_eq_of_noteq {qs : List Q} {i : Nat} {xs : List Int}
    (h : foldSame .noteq qs = some (i, xs)) : foldSame .eq qs = none := by
  obtain ⟨hne, rfl⟩ := foldSame_spec .noteq qs i xs h
  cases xs with
  | nil => exact absurd rfl hne
  | cons x rest => simp [foldSame]

theorem optimize_or_noteq {qs : List Q} {i : Nat} {xs : List Int}
    (h : foldSame .noteq qs = some (i, xs)) : optimize (.or qs) = .cmp .notall i (.many xs) := by
  simp only [optimize, optFuel, foldSame_eq_of_noteq h, h]

/-- on a keyword index the folded `NotAll` answers, on every known document, the opposite of the tree -/
theorem notall_fold_flips {cat : Catalog} {i : Nat} {t : AMap Int (Option (List Int))}
    (hi : cat[i]? = some (.keyword t)) {qs : List Q} {xs : List Int}
    (h : foldSame .noteq qs = some (i, xs)) (d : Int) (hk : d ∈ kwKnown t) :
    d ∈ val cat (optimize (.or qs)) ↔ d ∉ val cat (.or qs) := by
  obtain ⟨hne, rfl⟩ := foldSame_spec .noteq qs i xs h
  have hw : wellTyped cat (.or (xs.map fun x => .cmp .noteq i (.one x))) = true := by
    rw [wellTyped, wellTyped_or]
    refine ⟨by simpa using hne, ?_⟩
    intro q hq
    obtain ⟨x, _, rfl⟩ := List.mem_map.mp hq
    simp [wellTypedW, hi, supports, valOk]
  have hwa : wellTyped cat (.and (xs.map fun x => .cmp .eq i (.one x))) = true := by
    rw [wellTyped, wellTyped_and]
    refine ⟨by simpa using hne, ?_⟩
    intro q hq
    obtain ⟨x, _, rfl⟩ := List.mem_map.mp hq
    simp [wellTypedW, hi, supports, valOk]
  rw [optimize_or_noteq h, val_notall_eq_all, ← fold_and_eq_all hi xs hne d, val_and hwa, val_or hw]
  have hneg : ∀ x, d ∈ val cat (.cmp .noteq i (.one x)) ↔ d ∉ val cat (.cmp .eq i (.one x)) := by
    intro x
    rw [val_cmp_eq hi .noteq _ (by simp), val_cmp_eq hi .eq _ (by simp),
      leafSet_neg (ix := .keyword t) (p := .eq) (r := kwSat t (fun ks => decide (x ∈ ks))) rfl rfl rfl]
    exact ⟨fun hh => hh.2, fun hh => ⟨hk, hh⟩⟩
  constructor
  · rintro hall ⟨q, hq, hd⟩
    obtain ⟨x, hx, rfl⟩ := List.mem_map.mp hq
    exact (hneg x).mp hd (hall _ (List.mem_map.mpr ⟨x, hx, rfl⟩))
  · intro hno q hq
    obtain ⟨x, hx, rfl⟩ := List.mem_map.mp hq
    apply Classical.byContradiction
    intro hd
    exact hno ⟨_, List.mem_map.mpr ⟨x, hx, rfl⟩, (hneg x).mpr hd⟩

end Hyp.Query
