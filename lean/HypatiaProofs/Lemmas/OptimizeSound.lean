import HypatiaProofs.Lemmas.PairLoop

/-!
# `_optimize` preserves the answer of every well-typed tree outside D2/D3/D5

Induction on the optimiser's budget (which bounds the tree size), using the loop theorem
`pairLoop_forall`, the folding lemmas and the flattening-constructor lemmas.
-/
set_option linter.unusedSectionVars false
set_option linter.unusedSimpArgs false
set_option linter.unusedVariables false
namespace Hyp.Query
open Hyp

/-! ### small facts about bounds -/

theorem lowerOf_spec {q : Q} {idx : Nat} {a : Int} {s : Bool} (h : lowerOf q = some (idx, a, s)) :
    q = .cmp (lowerCmp s) idx (.one a) := by
  unfold lowerOf at h
  split at h <;> simp at h <;> obtain ⟨rfl, rfl, rfl⟩ := h <;> rfl

theorem upperOf_spec {q : Q} {idx : Nat} {a : Int} {s : Bool} (h : upperOf q = some (idx, a, s)) :
    q = .cmp (upperCmp s) idx (.one a) := by
  unfold upperOf at h
  split at h <;> simp at h <;> obtain ⟨rfl, rfl, rfl⟩ := h <;> rfl

theorem wellTyped_lower_field {cat : Catalog} {idx : Nat} {a : Int} {s : Bool}
    (h : wellTyped cat (.cmp (lowerCmp s) idx (.one a)) = true) : ∃ t, cat[idx]? = some (.field t) := by
  simp only [wellTyped, wellTypedW] at h
  cases hc : cat[idx]? with
  | none => simp [hc] at h
  | some ix =>
    cases ix with
    | field t => exact ⟨t, rfl⟩
    | keyword t => cases s <;> simp [hc, supports, lowerCmp] at h
    | text t => cases s <;> simp [hc, supports, lowerCmp] at h

theorem wellTyped_upper_field {cat : Catalog} {idx : Nat} {a : Int} {s : Bool}
    (h : wellTyped cat (.cmp (upperCmp s) idx (.one a)) = true) : ∃ t, cat[idx]? = some (.field t) := by
  simp only [wellTyped, wellTypedW] at h
  cases hc : cat[idx]? with
  | none => simp [hc] at h
  | some ix =>
    cases ix with
    | field t => exact ⟨t, rfl⟩
    | keyword t => cases s <;> simp [hc, supports, upperCmp] at h
    | text t => cases s <;> simp [hc, supports, upperCmp] at h

theorem wellTyped_range_field {cat : Catalog} {idx : Nat} {t : Field.Spec.Table Int}
    (hc : cat[idx]? = some (.field t)) (neg : Bool) (lo hi : Int) (el eh : Bool) :
    wellTyped cat (.range neg idx lo hi el eh) = true := by
  simp [wellTyped, wellTypedW, hc]

theorem hasValuesB_iff (ix : IndexT) : hasValuesB ix = true ↔ HasValues ix := by
  cases ix <;> simp [hasValuesB, HasValues, List.all_eq_true]

/-! ### single-child collapse and re-construction through the flattening constructor -/

/-- `if len(queries) == 1: return queries[0]` else `self.__class__(*queries)` -/
def collapse (mk : List Q → Q) : List Q → Q
  | [q] => q
  | l => mk l

theorem collapse_and {cat : Catalog} (L : List Q) (hne : L ≠ [])
    (hall : ∀ q ∈ L, wellTyped cat q = true) :
    wellTyped cat (collapse mkAnd L) = true ∧
      ∀ d, d ∈ val cat (collapse mkAnd L) ↔ ∀ q ∈ L, d ∈ val cat q := by
  cases L with
  | nil => exact absurd rfl hne
  | cons a t =>
    cases t with
    | nil => exact ⟨hall a (by simp), fun d => by simp [collapse]⟩
    | cons b t' =>
      exact ⟨wellTyped_mkAnd supports cat _ hne hall, fun d => val_mkAnd hne hall d⟩

theorem collapse_or {cat : Catalog} (L : List Q) (hne : L ≠ [])
    (hall : ∀ q ∈ L, wellTyped cat q = true) :
    wellTyped cat (collapse mkOr L) = true ∧
      ∀ d, d ∈ val cat (collapse mkOr L) ↔ ∃ q ∈ L, d ∈ val cat q := by
  cases L with
  | nil => exact absurd rfl hne
  | cons a t =>
    cases t with
    | nil => exact ⟨hall a (by simp), fun d => by simp [collapse]⟩
    | cons b t' =>
      exact ⟨wellTyped_mkOr supports cat _ hne hall, fun d => val_mkOr hne hall d⟩

/-! ### negative comparators are `known \ positive` -/

theorem leafSet_neg {ix : IndexT} {n p : Cmp} {v : Val} (hn : n.positive = some p)
    (hp : p.positive = none) {r : IdSet} (hr : leafPos ix p v = .ok r) (d : Int) :
    d ∈ leafSet ix n v ↔ d ∈ known ix ∧ d ∉ leafSet ix p v := by
  have e1 : leafSet ix n v = negOf ix r := by simp [leafSet, leafIndex, hn, hr, Except.map]
  have e2 : leafSet ix p v = r := by simp [leafSet, leafIndex, hp, hr]
  rw [e1, e2, mem_negOf]

/-- `And(NotEq(i,x₁), …, NotEq(i,xₙ))` → `NotAny(i,[x₁…xₙ])` on field and keyword/facet indexes
(value-less documents are in both answers) -/
theorem fold_and_noteq_notany {cat : Catalog} {i : Nat} {ix : IndexT} (hi : cat[i]? = some ix)
    (hk : ∀ t, ix ≠ .text t) (xs : List Int) (hne : xs ≠ []) (d : Int) :
    d ∈ val cat (.and (xs.map fun x => .cmp .noteq i (.one x))) ↔ d ∈ val cat (.cmp .notany i (.many xs)) := by
  have hsup : supports ix .noteq = true ∧ supports ix .eq = true := by
    cases ix with
    | field t => exact ⟨rfl, rfl⟩
    | keyword t => exact ⟨rfl, rfl⟩
    | text t => exact absurd rfl (hk t)
  have hw : wellTyped cat (.and (xs.map fun x => .cmp .noteq i (.one x))) = true := by
    rw [wellTyped, wellTyped_and]
    refine ⟨by simpa using hne, ?_⟩
    intro q hq
    obtain ⟨x, _, rfl⟩ := List.mem_map.mp hq
    simp [wellTypedW, hi, hsup.1, valOk]
  have hwo : wellTyped cat (.or (xs.map fun x => .cmp .eq i (.one x))) = true := by
    rw [wellTyped, wellTyped_or]
    refine ⟨by simpa using hne, ?_⟩
    intro q hq
    obtain ⟨x, _, rfl⟩ := List.mem_map.mp hq
    simp [wellTypedW, hi, hsup.2, valOk]
  have hany : d ∈ leafSet ix .any (.many xs) ↔ ∃ x ∈ xs, d ∈ leafSet ix .eq (.one x) := by
    rw [← val_cmp_eq hi .any _ (by simp), ← fold_or_eq_any hi hk xs hne d, val_or hwo]
    constructor
    · rintro ⟨q, hq, hd⟩
      obtain ⟨x, hx, rfl⟩ := List.mem_map.mp hq
      exact ⟨x, hx, by rwa [val_cmp_eq hi .eq _ (by simp)] at hd⟩
    · rintro ⟨x, hx, hd⟩
      exact ⟨_, List.mem_map.mpr ⟨x, hx, rfl⟩, by rwa [val_cmp_eq hi .eq _ (by simp)]⟩
  have hposeq : ∀ x, ∃ r, leafPos ix .eq (.one x) = .ok r := by
    intro x
    cases ix with
    | field t => exact ⟨_, rfl⟩
    | keyword t => exact ⟨_, rfl⟩
    | text t => exact absurd rfl (hk t)
  have hposany : ∃ r, leafPos ix .any (.many xs) = .ok r := by
    cases ix with
    | field t => exact ⟨_, rfl⟩
    | keyword t => exact ⟨_, rfl⟩
    | text t => exact absurd rfl (hk t)
  obtain ⟨ra, hra⟩ := hposany
  rw [val_and hw, val_cmp_eq hi .notany _ (by simp), leafSet_neg (p := .any) rfl rfl hra, hany]
  constructor
  · intro h
    cases xs with
    | nil => exact absurd rfl hne
    | cons x0 rest =>
      have h0 := h _ (List.mem_map.mpr ⟨x0, by simp, rfl⟩)
      obtain ⟨r0, hr0⟩ := hposeq x0
      rw [val_cmp_eq hi .noteq _ (by simp), leafSet_neg (p := .eq) rfl rfl hr0] at h0
      refine ⟨h0.1, ?_⟩
      rintro ⟨x, hx, hd⟩
      have hx' := h _ (List.mem_map.mpr ⟨x, hx, rfl⟩)
      obtain ⟨r, hr⟩ := hposeq x
      rw [val_cmp_eq hi .noteq _ (by simp), leafSet_neg (p := .eq) rfl rfl hr] at hx'
      exact hx'.2 hd
  · rintro ⟨hkn, hn⟩ q hq
    obtain ⟨x, hx, rfl⟩ := List.mem_map.mp hq
    obtain ⟨r, hr⟩ := hposeq x
    rw [val_cmp_eq hi .noteq _ (by simp), leafSet_neg (p := .eq) rfl rfl hr]
    exact ⟨hkn, fun hd => hn ⟨x, hx, hd⟩⟩

/-! ### the two boolean cases of the induction -/

/-- what the induction hypothesis says about one operand -/
def OptOK (cat : Catalog) (n : Nat) (q : Q) : Prop :=
  wellTyped cat (optFuel n q) = true ∧ ∀ d, d ∈ val cat (optFuel n q) ↔ d ∈ val cat q

theorem foldHazard_nil {cat : Catalog} {i : Nat} {c : Cmp} (h : foldHazard cat i c = []) :
    ∃ ix, cat[i]? = some ix ∧ supports ix c = true ∧ c ≠ .notall := by
  unfold foldHazard at h
  cases hc : cat[i]? with
  | none => simp [hc] at h
  | some ix =>
    simp only [hc] at h
    by_cases hs : supports ix c = true
    · by_cases hn : c = .notall
      · subst hn; simp [hs] at h
      · exact ⟨ix, rfl, hs, hn⟩
    · simp [hs] at h

theorem opt_and_case (cat : Catalog) (n : Nat) (qs : List Q)
    (ih : ∀ q ∈ qs, hazFuel cat n q = [] → OptOK cat n q)
    (hw : wellTyped cat (.and qs) = true) (hz : hazFuel cat (n + 1) (.and qs) = []) :
    OptOK cat (n + 1) (.and qs) := by
  obtain ⟨hne, hall⟩ := (wellTyped_and supports cat qs).mp hw
  unfold OptOK
  simp only [optFuel]
  simp only [hazFuel] at hz
  cases he : foldSame .eq qs with
  | some p =>
    obtain ⟨i, xs⟩ := p
    simp only [he] at hz ⊢
    obtain ⟨hxs, rfl⟩ := foldSame_spec .eq qs i xs he
    obtain ⟨ix, hc, hs, _⟩ := foldHazard_nil hz
    cases ix with
    | keyword t =>
      exact ⟨by simp [wellTyped, wellTypedW, hc, supports, valOk], fun d => (fold_and_eq_all hc xs hxs d).symm⟩
    | field t => simp [supports] at hs
    | text t => simp [supports] at hs
  | none =>
    simp only [he] at hz ⊢
    cases hn : foldSame .noteq qs with
    | some p =>
      obtain ⟨i, xs⟩ := p
      simp only [hn] at hz ⊢
      obtain ⟨hxs, rfl⟩ := foldSame_spec .noteq qs i xs hn
      obtain ⟨ix, hc, hs, _⟩ := foldHazard_nil hz
      have hk : ∀ t, ix ≠ .text t := by
        intro t e; subst e; simp [supports] at hs
      exact ⟨by simp [wellTyped, wellTypedW, hc, hs, valOk],
        fun d => (fold_and_noteq_notany hc hk xs hxs d).symm⟩
    | none =>
      simp only [hn] at hz ⊢
      have hz' : ∀ q ∈ qs, hazFuel cat n q = [] := by
        intro q hq
        have := List.flatMap_eq_nil_iff.mp hz
        exact this q hq
      have hall' : ∀ q ∈ qs.map (optFuel n), wellTyped cat q = true := by
        intro q hq
        obtain ⟨p, hp, rfl⟩ := List.mem_map.mp hq
        exact (ih p hp (hz' p hp)).1
      have hne' : qs.map (optFuel n) ≠ [] := by simpa using hne
      rw [andStep_eq]
      have hfield : ∀ qa ∈ qs.map (optFuel n), ∀ idx a sa, lowerOf qa = some (idx, a, sa) →
          ∃ t, cat[idx]? = some (.field t) := by
        intro qa hqa idx a sa hl
        have := hall' qa hqa
        rw [lowerOf_spec hl] at this
        exact wellTyped_lower_field this
      have hLwt : ∀ q ∈ pairLoop (genStep lowerOf upperOf mkInRange) (qs.map (optFuel n)),
          wellTyped cat q = true := by
        apply (pairLoop_forall (P := fun q => wellTyped cat q = true) lower_upper_disj ?_).mpr hall'
        intro qa hqa qb hqb idx a sa b sb hl hu
        obtain ⟨t, ht⟩ := hfield qa hqa idx a sa hl
        simp only [mkInRange, wellTyped_range_field ht, hall' qa hqa, hall' qb hqb, and_self]
      have hLne := pairLoop_ne_nil lowerOf upperOf mkInRange lower_upper_disj _ hne'
      obtain ⟨c1, c2⟩ := collapse_and _ hLne hLwt
      show wellTyped cat (collapse mkAnd _) = true ∧ ∀ d, d ∈ val cat (collapse mkAnd _) ↔ _
      refine ⟨c1, fun d => ?_⟩
      rw [c2 d, val_and hw]
      rw [pairLoop_forall (P := fun q => d ∈ val cat q) lower_upper_disj ?_]
      · constructor
        · intro h q hq
          exact ((ih q hq (hz' q hq)).2 d).mp (h _ (List.mem_map.mpr ⟨q, hq, rfl⟩))
        · intro h q hq
          obtain ⟨p, hp, rfl⟩ := List.mem_map.mp hq
          exact ((ih p hp (hz' p hp)).2 d).mpr (h p hp)
      · intro qa hqa qb hqb idx a sa b sb hl hu
        obtain ⟨t, ht⟩ := hfield qa hqa idx a sa hl
        rw [lowerOf_spec hl, upperOf_spec hu]
        exact inrange_pairing ht a b sa sb d

theorem orPairHazard_nil {cat : Catalog} {qs : List Q} (h : orPairHazard cat qs = [])
    {qa qb : Q} (hqa : qa ∈ qs) (hqb : qb ∈ qs) {idx : Nat} {a b : Int} {sa sb : Bool}
    (hu : upperOf qa = some (idx, a, sa)) (hl : lowerOf qb = some (idx, b, sb))
    {t : Field.Spec.Table Int} (ht : cat[idx]? = some (.field t)) : HasValues (.field t) := by
  unfold orPairHazard at h
  split at h
  · next hall =>
    rw [List.all_eq_true] at hall
    have := hall qa hqa
    simp only [hu, ht] at this
    have hany : qs.any (isLowerOn idx) = true := by
      rw [List.any_eq_true]
      exact ⟨qb, hqb, by simp [isLowerOn, hl]⟩
    simp only [hany, Bool.not_true, Bool.false_or] at this
    exact (hasValuesB_iff _).mp this
  · cases h

theorem opt_or_case (cat : Catalog) (n : Nat) (qs : List Q)
    (ih : ∀ q ∈ qs, hazFuel cat n q = [] → OptOK cat n q)
    (hw : wellTyped cat (.or qs) = true) (hz : hazFuel cat (n + 1) (.or qs) = []) :
    OptOK cat (n + 1) (.or qs) := by
  obtain ⟨hne, hall⟩ := (wellTyped_or supports cat qs).mp hw
  unfold OptOK
  simp only [optFuel]
  simp only [hazFuel] at hz
  cases he : foldSame .eq qs with
  | some p =>
    obtain ⟨i, xs⟩ := p
    simp only [he] at hz ⊢
    obtain ⟨hxs, rfl⟩ := foldSame_spec .eq qs i xs he
    obtain ⟨ix, hc, hs, _⟩ := foldHazard_nil hz
    have hk : ∀ t, ix ≠ .text t := by
      intro t e; subst e; simp [supports] at hs
    exact ⟨by simp [wellTyped, wellTypedW, hc, hs, valOk], fun d => (fold_or_eq_any hc hk xs hxs d).symm⟩
  | none =>
    simp only [he] at hz ⊢
    cases hn : foldSame .noteq qs with
    | some p =>
      obtain ⟨i, xs⟩ := p
      simp only [hn] at hz
      obtain ⟨ix, hc, hs, hna⟩ := foldHazard_nil hz
      exact absurd rfl hna
    | none =>
      simp only [hn] at hz ⊢
      obtain ⟨hz1, hz2⟩ := List.append_eq_nil_iff.mp hz
      have hz' : ∀ q ∈ qs, hazFuel cat n q = [] := by
        intro q hq
        exact List.flatMap_eq_nil_iff.mp hz1 q hq
      have hall' : ∀ q ∈ qs.map (optFuel n), wellTyped cat q = true := by
        intro q hq
        obtain ⟨p, hp, rfl⟩ := List.mem_map.mp hq
        exact (ih p hp (hz' p hp)).1
      have hne' : qs.map (optFuel n) ≠ [] := by simpa using hne
      rw [orStep_eq]
      have hdisj : ∀ q x y, upperOf q = some x → lowerOf q = some y → False :=
        fun q x y h1 h2 => lower_upper_disj q y x h2 h1
      have hfield : ∀ qa ∈ qs.map (optFuel n), ∀ idx a sa, upperOf qa = some (idx, a, sa) →
          ∃ t, cat[idx]? = some (.field t) := by
        intro qa hqa idx a sa hl
        have := hall' qa hqa
        rw [upperOf_spec hl] at this
        exact wellTyped_upper_field this
      have hLwt : ∀ q ∈ pairLoop (genStep upperOf lowerOf mkNotInRange) (qs.map (optFuel n)),
          wellTyped cat q = true := by
        apply (pairLoop_forall (P := fun q => wellTyped cat q = true) hdisj ?_).mpr hall'
        intro qa hqa qb hqb idx a sa b sb hl hu
        obtain ⟨t, ht⟩ := hfield qa hqa idx a sa hl
        simp only [mkNotInRange, wellTyped_range_field ht, hall' qa hqa, hall' qb hqb, and_self]
      have hLne := pairLoop_ne_nil upperOf lowerOf mkNotInRange hdisj _ hne'
      obtain ⟨c1, c2⟩ := collapse_or _ hLne hLwt
      show wellTyped cat (collapse mkOr _) = true ∧ ∀ d, d ∈ val cat (collapse mkOr _) ↔ _
      refine ⟨c1, fun d => ?_⟩
      rw [c2 d, val_or hw]
      have key := pairLoop_forall (mk := mkNotInRange) (P := fun q => d ∉ val cat q)
        (qs := qs.map (optFuel n)) hdisj (by
          intro qa hqa qb hqb idx a sa b sb hu hl
          obtain ⟨t, ht⟩ := hfield qa hqa idx a sa hu
          have hv := orPairHazard_nil hz2 hqa hqb hu hl ht
          rw [upperOf_spec hu, lowerOf_spec hl]
          have := notinrange_pairing ht hv a b sa sb d
          simp only [mkNotInRange]
          rw [this]
          exact not_or)
      constructor
      · rintro ⟨q, hq, hd⟩
        apply Classical.byContradiction
        intro hcon
        have : ∀ q ∈ qs.map (optFuel n), d ∉ val cat q := by
          intro q' hq' hd'
          obtain ⟨p, hp, rfl⟩ := List.mem_map.mp hq'
          exact hcon ⟨p, hp, ((ih p hp (hz' p hp)).2 d).mp hd'⟩
        exact key.mpr this q hq hd
      · rintro ⟨p, hp, hd⟩
        apply Classical.byContradiction
        intro hcon
        have : ∀ q ∈ pairLoop (genStep upperOf lowerOf mkNotInRange) (qs.map (optFuel n)), d ∉ val cat q :=
          fun q hq hd' => hcon ⟨q, hq, hd'⟩
        exact key.mp this _ (List.mem_map.mpr ⟨p, hp, rfl⟩) (((ih p hp (hz' p hp)).2 d).mpr hd)

/-! ### the induction -/

theorem optFuel_sound (cat : Catalog) : ∀ (n : Nat) (q : Q), size q < n → wellTyped cat q = true →
    hazFuel cat n q = [] → OptOK cat n q := by
  intro n
  induction n with
  | zero => intro q h; omega
  | succ n ih =>
    intro q hs hw hz
    cases q with
    | cmp c i v => exact ⟨hw, fun d => Iff.rfl⟩
    | range neg i lo hi el eh => exact ⟨hw, fun d => Iff.rfl⟩
    | not q =>
      unfold OptOK
      simp only [optFuel]
      simp only [hazFuel] at hz
      simp only [size] at hs
      have hl := size_negate_le q
      have hwn : wellTyped cat (negate q) = true :=
        wellTyped_negate supports supports_negate cat _ q (Nat.le_refl _)
          (by simpa [wellTyped, wellTypedW] using hw)
      obtain ⟨h1, h2⟩ := ih (negate q) (by omega) hwn hz
      exact ⟨h1, fun d => by rw [h2 d, val_not]⟩
    | and qs =>
      obtain ⟨_, hall⟩ := (wellTyped_and supports cat qs).mp hw
      simp only [size] at hs
      exact opt_and_case cat n qs
        (fun q hq hzq => ih q (by have := size_le_sizeList hq; omega) (hall q hq) hzq) hw hz
    | or qs =>
      obtain ⟨_, hall⟩ := (wellTyped_or supports cat qs).mp hw
      simp only [size] at hs
      exact opt_or_case cat n qs
        (fun q hq hzq => ih q (by have := size_le_sizeList hq; omega) (hall q hq) hzq) hw hz

/-- **Whole-tree theorem**: outside the three recorded findings, optimisation preserves well-typedness
(hence success) and the answer set of every well-typed tree, over every catalog. -/
theorem optimize_sound (cat : Catalog) (q : Q) (hw : wellTyped cat q = true) (hsafe : OptSafe cat q = true) :
    wellTyped cat (optimize q) = true ∧ ∀ d, d ∈ val cat (optimize q) ↔ d ∈ val cat q := by
  have hz : hazFuel cat (size q + 1) q = [] := by
    unfold OptSafe hazards at hsafe
    exact List.isEmpty_iff.mp hsafe
  exact optFuel_sound cat (size q + 1) q (by omega) hw hz

end Hyp.Query
