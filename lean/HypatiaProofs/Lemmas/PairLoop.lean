import HypatiaProofs.Lemmas.Optimize

/-!
# The lowers/uppers pairing loop of `And._optimize` / `Or._optimize`

Both loops are instances of one loop `genStep kA kB mk` (`kA` = the comparator kind kept in
`lowers`, `kB` = the kind kept in `uppers`, `mk` = the range node built from a matched pair).
`pairLoop_forall` is the loop theorem: for every predicate `P` that `mk` turns into the conjunction of
its two sources, "all surviving operands satisfy `P`" is the same before and after the loop.
Instances: `P q := d ∈ val cat q` (And), `P q := d ∉ val cat q` (Or, by De Morgan),
`P q := wellTyped cat q`, `P q := False` (the loop never empties a list).
-/
set_option linter.unusedSectionVars false
set_option linter.unusedSimpArgs false
set_option linter.unusedVariables false
namespace Hyp.Query
open Hyp

abbrev Kind := Q → Option (Nat × Int × Bool)
abbrev MkRange := Nat → Int → Bool → Int → Bool → Q

def genStep (kA kB : Kind) (mk : MkRange) (st : Pair) (iq : Q × Nat) : Pair :=
  match kA iq.1 with
  | some (idx, a, sa) =>
    match AMap.get st.uppers idx with
    | some (iu, b, sb) =>
      { st with queries := (st.queries.set iq.2 (some (mk idx a sa b sb))).set iu none,
                uppers := AMap.erase st.uppers idx }
    | none => { st with lowers := AMap.set st.lowers idx (iq.2, a, sa) }
  | none =>
    match kB iq.1 with
    | some (idx, b, sb) =>
      match AMap.get st.lowers idx with
      | some (il, a, sa) =>
        { st with queries := (st.queries.set il (some (mk idx a sa b sb))).set iq.2 none,
                  lowers := AMap.erase st.lowers idx }
      | none => { st with uppers := AMap.set st.uppers idx (iq.2, b, sb) }
    | none => st

def mkInRange : MkRange := fun idx lo exlo hi exhi => .range false idx lo hi exlo exhi
def mkNotInRange : MkRange := fun idx a sLt b sGt => .range true idx a b (!sLt) (!sGt)

theorem andStep_eq : andStep = genStep lowerOf upperOf mkInRange := by
  funext st iq
  obtain ⟨q, i⟩ := iq
  unfold andStep genStep mkInRange
  rfl

theorem orStep_eq : orStep = genStep upperOf lowerOf mkNotInRange := by
  funext st iq
  obtain ⟨q, i⟩ := iq
  unfold orStep genStep mkNotInRange
  rfl

theorem lower_upper_disj (q : Q) (x y : Nat × Int × Bool) : lowerOf q = some x → upperOf q = some y → False := by
  intro h1 h2
  unfold lowerOf at h1
  unfold upperOf at h2
  split at h1 <;> simp_all

/-- the loop invariant after the first `k` operands have been visited -/
structure LoopInv (kA kB : Kind) (P : Q → Prop) (qs : List Q) (k : Nat) (st : Pair) : Prop where
  /-- operands not yet visited are untouched -/
  suffix : ∀ j : Nat, k ≤ j → st.queries[j]? = (qs[j]?).map some
  /-- "every live operand satisfies `P`" is what it was at the start -/
  sem : (∀ (j : Nat) (q : Q), st.queries[j]? = some (some q) → P q) ↔ (∀ q ∈ qs, P q)
  /-- every `lowers` entry points at a live, unpaired bound of that index -/
  low : ∀ idx il a sa, AMap.get st.lowers idx = some (il, a, sa) →
      il < k ∧ ∃ qa, st.queries[il]? = some (some qa) ∧ qa ∈ qs ∧ kA qa = some (idx, a, sa)
  /-- every `uppers` entry points at a live, unpaired bound of that index -/
  up : ∀ idx iu b sb, AMap.get st.uppers idx = some (iu, b, sb) →
      iu < k ∧ ∃ qb, st.queries[iu]? = some (some qb) ∧ qb ∈ qs ∧ kB qb = some (idx, b, sb)

section
variable {kA kB : Kind} {mk : MkRange} {P : Q → Prop} {qs : List Q}

theorem loopInv_init : LoopInv kA kB P qs 0 { queries := qs.map some } := by
  refine ⟨?_, ?_, ?_, ?_⟩
  · intro j _; simp
  · constructor
    · intro h q hq
      obtain ⟨j, hj⟩ := List.mem_iff_getElem?.mp hq
      exact h j q (by simp [hj])
    · intro h j q hj
      simp only [List.getElem?_map] at hj
      cases hq : qs[j]? with
      | none => simp [hq] at hj
      | some q' =>
        simp [hq] at hj; subst hj
        exact h q' (List.mem_iff_getElem?.mpr ⟨j, hq⟩)
  · intro idx il a sa h; simp at h
  · intro idx iu b sb h; simp at h


theorem pairUpd_other (L : List (Option Q)) (p r j : Nat) (n : Q) (hp : j ≠ p) (hr : j ≠ r) :
    ((L.set p (some n)).set r none)[j]? = L[j]? := by
  rw [List.getElem?_set_ne (Ne.symm hr), List.getElem?_set_ne (Ne.symm hp)]

theorem pairUpd_new (L : List (Option Q)) (p r : Nat) (n : Q) (hpr : p ≠ r) (hp : p < L.length) :
    ((L.set p (some n)).set r none)[p]? = some (some n) := by
  rw [List.getElem?_set_ne (Ne.symm hpr), List.getElem?_set_self hp]

theorem pairUpd_dead (L : List (Option Q)) (p r : Nat) (n : Q) (hr : r < L.length) :
    ((L.set p (some n)).set r none)[r]? = some none := by
  rw [List.getElem?_set_self (by simpa using hr)]

theorem lt_length_of_getElem? {α : Type} {L : List α} {j : Nat} {x : α} (h : L[j]? = some x) : j < L.length := by
  by_cases hj : j < L.length
  · exact hj
  · rw [List.getElem?_eq_none (by omega)] at h; cases h

/-- replacing two live operands by a node equivalent (under `P`) to their conjunction -/
theorem sem_pairUpd (L : List (Option Q)) (p r : Nat) (hpr : p ≠ r) (x y n : Q)
    (hp : L[p]? = some (some x)) (hr : L[r]? = some (some y)) (hn : P n ↔ P x ∧ P y) :
    (∀ (j : Nat) (q : Q), ((L.set p (some n)).set r none)[j]? = some (some q) → P q) ↔
      (∀ (j : Nat) (q : Q), L[j]? = some (some q) → P q) := by
  have hpl := lt_length_of_getElem? hp
  have hrl := lt_length_of_getElem? hr
  constructor
  · intro h
    have hPn : P n := h p n (pairUpd_new L p r n hpr hpl)
    obtain ⟨hx, hy⟩ := hn.mp hPn
    intro j q hj
    by_cases e1 : j = p
    · subst e1; rw [hp] at hj; cases hj; exact hx
    · by_cases e2 : j = r
      · subst e2; rw [hr] at hj; cases hj; exact hy
      · exact h j q (by rw [pairUpd_other L p r j n e1 e2]; exact hj)
  · intro h j q hj
    by_cases e2 : j = r
    · subst e2; rw [pairUpd_dead L p j n hrl] at hj; cases hj
    · by_cases e1 : j = p
      · subst e1
        rw [pairUpd_new L j r n hpr hpl] at hj; cases hj
        exact hn.mpr ⟨h j x hp, h r y hr⟩
      · rw [pairUpd_other L p r j n e1 e2] at hj; exact h j q hj


/-- one iteration preserves the invariant -/
theorem genStep_inv (hdisj : ∀ q x y, kA q = some x → kB q = some y → False)
    (hmk : ∀ qa ∈ qs, ∀ qb ∈ qs, ∀ idx a sa b sb, kA qa = some (idx, a, sa) → kB qb = some (idx, b, sb) →
      (P (mk idx a sa b sb) ↔ P qa ∧ P qb))
    (k : Nat) (q : Q) (hq : qs[k]? = some q) (st : Pair) (h : LoopInv kA kB P qs k st) :
    LoopInv kA kB P qs (k + 1) (genStep kA kB mk st (q, k)) := by
  have hqm : q ∈ qs := List.mem_iff_getElem?.mpr ⟨k, hq⟩
  have hcur : st.queries[k]? = some (some q) := by rw [h.suffix k (Nat.le_refl _), hq]; rfl
  unfold genStep
  cases hA : kA q with
  | some x =>
    obtain ⟨idx, a, sa⟩ := x
    simp only [hA]
    cases hU : AMap.get st.uppers idx with
    | some e =>
      obtain ⟨iu, b, sb⟩ := e
      simp only [hU]
      obtain ⟨hiu, qb, hqb, hqbm, hkb⟩ := h.up idx iu b sb hU
      have hne : k ≠ iu := by omega
      refine ⟨?_, ?_, ?_, ?_⟩
      · intro j hj
        show ((st.queries.set k _).set iu none)[j]? = _
        rw [pairUpd_other _ _ _ _ _ (by omega) (by omega)]
        exact h.suffix j (by omega)
      · show (∀ (j : Nat) (q' : Q), ((st.queries.set k _).set iu none)[j]? = some (some q') → P q') ↔ _
        rw [sem_pairUpd st.queries k iu hne q qb _ hcur hqb (hmk q hqm qb hqbm idx a sa b sb hA hkb)]
        exact h.sem
      · intro idx' il a' sa' hg
        obtain ⟨hil, qa, hqa, hqam, hka⟩ := h.low idx' il a' sa' hg
        refine ⟨by omega, qa, ?_, hqam, hka⟩
        show ((st.queries.set k _).set iu none)[il]? = _
        rw [pairUpd_other _ _ _ _ _ (by omega) ?_]
        · exact hqa
        · intro e; subst e
          rw [hqb] at hqa; cases hqa
          exact hdisj _ _ _ hka hkb
      · intro idx' iu' b' sb' hg
        show _ ∧ ∃ qb', ((st.queries.set k _).set iu none)[iu']? = _ ∧ _
        change AMap.get (AMap.erase st.uppers idx) idx' = _ at hg
        rw [AMap.get_erase] at hg
        by_cases e : idx = idx'
        · simp [e] at hg
        · simp only [e, if_false] at hg
          obtain ⟨hiu', qb', hqb', hqbm', hkb'⟩ := h.up idx' iu' b' sb' hg
          refine ⟨by omega, qb', ?_, hqbm', hkb'⟩
          rw [pairUpd_other _ _ _ _ _ (by omega) ?_]
          · exact hqb'
          · intro e'; subst e'
            rw [hqb] at hqb'; cases hqb'
            rw [hkb] at hkb'; cases hkb'; exact e rfl
    | none =>
      simp only [hU]
      refine ⟨fun j hj => h.suffix j (by omega), h.sem, ?_, ?_⟩
      · intro idx' il a' sa' hg
        change AMap.get (AMap.set st.lowers idx (k, a, sa)) idx' = _ at hg
        rw [AMap.get_set] at hg
        by_cases e : idx = idx'
        · simp only [e, if_true, Option.some.injEq, Prod.mk.injEq] at hg
          obtain ⟨rfl, rfl, rfl⟩ := hg
          subst e
          exact ⟨by omega, q, hcur, hqm, hA⟩
        · simp only [e, if_false] at hg
          obtain ⟨hil, r⟩ := h.low idx' il a' sa' hg
          exact ⟨by omega, r⟩
      · intro idx' iu' b' sb' hg
        obtain ⟨hiu', r⟩ := h.up idx' iu' b' sb' hg
        exact ⟨by omega, r⟩
  | none =>
    simp only [hA]
    cases hB : kB q with
    | some x =>
      obtain ⟨idx, b, sb⟩ := x
      simp only [hB]
      cases hL : AMap.get st.lowers idx with
      | some e =>
        obtain ⟨il, a, sa⟩ := e
        simp only [hL]
        obtain ⟨hil, qa, hqa, hqam, hka⟩ := h.low idx il a sa hL
        have hne : il ≠ k := by omega
        refine ⟨?_, ?_, ?_, ?_⟩
        · intro j hj
          show ((st.queries.set il _).set k none)[j]? = _
          rw [pairUpd_other _ _ _ _ _ (by omega) (by omega)]
          exact h.suffix j (by omega)
        · show (∀ (j : Nat) (q' : Q), ((st.queries.set il _).set k none)[j]? = some (some q') → P q') ↔ _
          rw [sem_pairUpd st.queries il k hne qa q _ hqa hcur (hmk qa hqam q hqm idx a sa b sb hka hB)]
          exact h.sem
        · intro idx' il' a' sa' hg
          show _ ∧ ∃ qa', ((st.queries.set il _).set k none)[il']? = _ ∧ _
          change AMap.get (AMap.erase st.lowers idx) idx' = _ at hg
          rw [AMap.get_erase] at hg
          by_cases e : idx = idx'
          · simp [e] at hg
          · simp only [e, if_false] at hg
            obtain ⟨hil', qa', hqa', hqam', hka'⟩ := h.low idx' il' a' sa' hg
            refine ⟨by omega, qa', ?_, hqam', hka'⟩
            rw [pairUpd_other _ _ _ _ _ ?_ (by omega)]
            · exact hqa'
            · intro e'; subst e'
              rw [hqa] at hqa'; cases hqa'
              rw [hka] at hka'; cases hka'; exact e rfl
        · intro idx' iu b' sb' hg
          obtain ⟨hiu, qb, hqb, hqbm, hkb⟩ := h.up idx' iu b' sb' hg
          refine ⟨by omega, qb, ?_, hqbm, hkb⟩
          show ((st.queries.set il _).set k none)[iu]? = _
          rw [pairUpd_other _ _ _ _ _ ?_ (by omega)]
          · exact hqb
          · intro e; subst e
            rw [hqa] at hqb; cases hqb
            exact hdisj _ _ _ hka hkb
      | none =>
        simp only [hL]
        refine ⟨fun j hj => h.suffix j (by omega), h.sem, ?_, ?_⟩
        · intro idx' il a' sa' hg
          obtain ⟨hil, r⟩ := h.low idx' il a' sa' hg
          exact ⟨by omega, r⟩
        · intro idx' iu' b' sb' hg
          change AMap.get (AMap.set st.uppers idx (k, b, sb)) idx' = _ at hg
          rw [AMap.get_set] at hg
          by_cases e : idx = idx'
          · simp only [e, if_true, Option.some.injEq, Prod.mk.injEq] at hg
            obtain ⟨rfl, rfl, rfl⟩ := hg
            subst e
            exact ⟨by omega, q, hcur, hqm, hB⟩
          · simp only [e, if_false] at hg
            obtain ⟨hiu', r⟩ := h.up idx' iu' b' sb' hg
            exact ⟨by omega, r⟩
    | none =>
      simp only [hB]
      refine ⟨fun j hj => h.suffix j (by omega), h.sem, ?_, ?_⟩
      · intro idx' il a' sa' hg
        obtain ⟨hil, r⟩ := h.low idx' il a' sa' hg
        exact ⟨by omega, r⟩
      · intro idx' iu' b' sb' hg
        obtain ⟨hiu', r⟩ := h.up idx' iu' b' sb' hg
        exact ⟨by omega, r⟩


theorem foldl_genStep_inv (hdisj : ∀ q x y, kA q = some x → kB q = some y → False)
    (hmk : ∀ qa ∈ qs, ∀ qb ∈ qs, ∀ idx a sa b sb, kA qa = some (idx, a, sa) → kB qb = some (idx, b, sb) →
      (P (mk idx a sa b sb) ↔ P qa ∧ P qb)) :
    ∀ (rest : List Q) (k : Nat) (st : Pair), (∀ j : Nat, j < rest.length → rest[j]? = qs[k + j]?) →
      LoopInv kA kB P qs k st →
      LoopInv kA kB P qs (k + rest.length) ((rest.zipIdx k).foldl (genStep kA kB mk) st) := by
  intro rest
  induction rest with
  | nil => intro k st _ h; simpa using h
  | cons x xs ih =>
    intro k st hr h
    simp only [List.zipIdx_cons, List.foldl_cons, List.length_cons]
    have hx : qs[k]? = some x := by
      have := hr 0 (by simp); simpa using this.symm
    have h1 := genStep_inv (mk := mk) hdisj hmk k x hx st h
    have := ih (k + 1) _ (fun j hj => by
      have := hr (j + 1) (by simp; omega)
      simp only [List.getElem?_cons_succ] at this
      rw [this]; congr 1; omega) h1
    have e : k + (xs.length + 1) = k + 1 + xs.length := by omega
    rw [e]; exact this

/-- **Loop theorem.**  If the node built from a matched pair is, under `P`, the conjunction of the pair,
then "every operand satisfies `P`" holds after the loop exactly when it held before. -/
theorem pairLoop_forall (hdisj : ∀ q x y, kA q = some x → kB q = some y → False)
    (hmk : ∀ qa ∈ qs, ∀ qb ∈ qs, ∀ idx a sa b sb, kA qa = some (idx, a, sa) → kB qb = some (idx, b, sb) →
      (P (mk idx a sa b sb) ↔ P qa ∧ P qb)) :
    (∀ q ∈ pairLoop (genStep kA kB mk) qs, P q) ↔ (∀ q ∈ qs, P q) := by
  have h := foldl_genStep_inv (mk := mk) hdisj hmk qs 0 { queries := qs.map some }
    (fun j _ => by simp) loopInv_init
  unfold pairLoop
  simp only
  rw [← h.sem]
  constructor
  · intro hall j q hj
    apply hall
    rw [List.mem_filterMap]
    exact ⟨some q, List.mem_iff_getElem?.mpr ⟨j, hj⟩, rfl⟩
  · intro hall q hq
    rw [List.mem_filterMap] at hq
    obtain ⟨o, ho, hoq⟩ := hq
    simp only [id] at hoq; subst hoq
    obtain ⟨j, hj⟩ := List.mem_iff_getElem?.mp ho
    exact hall j q hj

end

/-- the pairing loops never empty an operand list -/
theorem pairLoop_ne_nil (kA kB : Kind) (mk : MkRange)
    (hdisj : ∀ q x y, kA q = some x → kB q = some y → False) (qs : List Q) (hne : qs ≠ []) :
    pairLoop (genStep kA kB mk) qs ≠ [] := by
  intro he
  have h := pairLoop_forall (kA := kA) (kB := kB) (mk := mk) (P := fun _ => False) (qs := qs) hdisj
    (fun _ _ _ _ _ _ _ _ _ _ _ => by simp)
  rw [he] at h
  cases qs with
  | nil => exact hne rfl
  | cons x xs => exact h.mp (by simp) x (by simp)

end Hyp.Query
