import HypatiaModel.Persist

set_option linter.unusedSectionVars false
set_option linter.unusedSimpArgs false
set_option linter.unusedVariables false
namespace Hyp.Persist

theorem stored_append (disk : Store) (ls : List (List (Nat × Val))) (l : List (Nat × Val)) (c : Nat) :
    stored disk (ls ++ [l]) c = match l.lookup c with | some v => v | none => stored disk ls c := by
  unfold stored; rw [List.foldl_append]; rfl

theorem stored_nil (disk : Store) (c : Nat) : stored disk [] c = disk c := rfl

theorem foldl_layers_of_not_mem (ls : List (List (Nat × Val))) (c : Nat) (acc : Val)
    (h : c ∉ layerCells ls) :
    ls.foldl (fun acc layer => match layer.lookup c with | some v => v | none => acc) acc = acc := by
  induction ls generalizing acc with
  | nil => rfl
  | cons l ls ih =>
    have h1 : c ∉ layerCells ls := by
      intro hc; apply h; simp only [layerCells, List.flatMap_cons, List.mem_append]; exact Or.inr hc
    have h2 : c ∉ l.map (·.1) := by
      intro hc; apply h; simp only [layerCells, List.flatMap_cons, List.mem_append]; exact Or.inl hc
    have : l.lookup c = none := by
      rw [List.lookup_eq_none_iff]
      intro p hp
      have : c ≠ p.1 := by
        intro e; apply h2; exact List.mem_map.mpr ⟨p, hp, e.symm⟩
      simpa using this
    simp only [List.foldl_cons, this]
    exact ih acc h1

theorem stored_of_not_mem (disk : Store) (ls : List (List (Nat × Val))) (c : Nat)
    (h : c ∉ layerCells ls) : stored disk ls c = disk c :=
  foldl_layers_of_not_mem ls c (disk c) h

theorem lookup_snapshot (dirty : List Nat) (cur : Store) (c : Nat) :
    (dirty.map (fun c => (c, cur c))).lookup c = if c ∈ dirty then some (cur c) else none := by
  induction dirty with
  | nil => simp
  | cons d ds ih =>
    simp only [List.map_cons, List.lookup_cons, List.mem_cons]
    by_cases h : c = d
    · subst h; simp
    · have : (c == d) = false := by simpa using h
      simp only [this, ih, h, false_or]

/-! ### effect of a block -/

theorem act_disk (s : Low) (a : Action) : (s.act a).disk = s.disk := rfl
theorem act_layers (s : Low) (a : Action) : (s.act a).layers = s.layers := rfl

theorem block_disk (s : Low) (b : Block) : (s.block b).disk = s.disk := by
  induction b generalizing s with
  | nil => rfl
  | cons a as ih => simp only [Low.block, List.foldl_cons] at ih ⊢; rw [ih]; rfl

theorem block_layers (s : Low) (b : Block) : (s.block b).layers = s.layers := by
  induction b generalizing s with
  | nil => rfl
  | cons a as ih => simp only [Low.block, List.foldl_cons] at ih ⊢; rw [ih]; rfl

theorem block_cur (s : Low) (b : Block) : (s.block b).cur = absBlock s.cur b := by
  induction b generalizing s with
  | nil => rfl
  | cons a as ih =>
    simp only [Low.block, absBlock, List.foldl_cons] at ih ⊢
    rw [ih]; rfl

theorem act_dirty_mono (s : Low) (a : Action) (c : Nat) (h : c ∈ s.dirty) : c ∈ (s.act a).dirty := by
  simp only [Low.act]; split
  · exact List.mem_cons_of_mem _ h
  · exact h

theorem block_dirty_mono (s : Low) (b : Block) (c : Nat) (h : c ∈ s.dirty) : c ∈ (s.block b).dirty := by
  induction b generalizing s with
  | nil => exact h
  | cons a as ih =>
    simp only [Low.block, List.foldl_cons] at ih ⊢
    exact ih _ (act_dirty_mono s a c h)

theorem act_notified (s : Low) (a : Action) (h : a.notify = true) : a.cell ∈ (s.act a).dirty := by
  simp only [Low.act, h, Bool.true_and]
  by_cases hc : a.cell ∈ s.dirty
  · simp [hc]
  · simp [hc]

theorem block_notified (s : Low) (b : Block) (a : Action) (ha : a ∈ b) (h : a.notify = true) :
    a.cell ∈ (s.block b).dirty := by
  induction b generalizing s with
  | nil => simp at ha
  | cons x xs ih =>
    simp only [Low.block, List.foldl_cons] at ih ⊢
    rcases List.mem_cons.mp ha with rfl | ha'
    · exact block_dirty_mono _ xs _ (act_notified s a h)
    · exact ih _ ha'

theorem absBlock_untouched (σ : Store) (b : Block) (c : Nat) (h : ∀ a ∈ b, a.cell ≠ c) :
    absBlock σ b c = σ c := by
  induction b generalizing σ with
  | nil => rfl
  | cons a as ih =>
    simp only [absBlock, List.foldl_cons] at ih ⊢
    rw [ih _ (fun x hx => h x (List.mem_cons_of_mem _ hx))]
    have := h a (by simp)
    simp [upd, Ne.symm this]

/-- a disciplined block re-establishes "unregistered cells are in sync with the store" -/
theorem block_sync (s : Low) (b : Block) (hb : Disciplined b)
    (hs : ∀ c, c ∉ s.dirty → s.cur c = stored s.disk s.layers c) :
    ∀ c, c ∉ (s.block b).dirty → (s.block b).cur c = stored (s.block b).disk (s.block b).layers c := by
  intro c hc
  rw [block_disk, block_layers, block_cur]
  have hunt : ∀ a ∈ b, a.cell ≠ c := by
    intro a ha e
    obtain ⟨a', ha', hcell, hn⟩ := hb a ha
    apply hc
    rw [← e, ← hcell]
    exact block_notified s b a' ha' hn
  rw [absBlock_untouched _ _ _ hunt]
  exact hs c (fun h => hc (block_dirty_mono s b c h))

theorem absRun_append (σ : Store) (a b : List Block) : absRun σ (a ++ b) = absRun (absRun σ a) b := by
  simp [absRun, List.foldl_append]

theorem absRun_snoc (σ : Store) (a : List Block) (b : Block) :
    absRun σ (a ++ [b]) = absBlock (absRun σ a) b := by
  simp [absRun, List.foldl_append]

/-- the refinement relation between the cell store and the transaction log -/
structure Ref (σ0 : Store) (s : Low) (l : BLog) : Prop where
  sync : ∀ c, c ∉ s.dirty → s.cur c = stored s.disk s.layers c
  disk : ∀ c, s.disk c = absRun σ0 l.committed c
  nlayers : s.layers.length = l.saves.length
  layer : ∀ j (h : j < l.saves.length), ∀ c,
    stored s.disk (s.layers.take (j + 1)) c = absRun σ0 (l.committed ++ l.saves[j]) c
  mem : l.poisoned = false → ∀ c, s.cur c = absRun σ0 (l.committed ++ l.pending) c

theorem ref_init (σ0 : Store) : Ref σ0 { disk := σ0, cur := σ0 } {} := by
  constructor <;> simp [stored, absRun]

theorem contains_iff (l : List Nat) (c : Nat) : l.contains c = true ↔ c ∈ l := by simp

theorem ref_step (σ0 : Store) (s : Low) (l : BLog) (h : Ref σ0 s l) (cmd : LCmd) (hv : l.valid cmd) :
    Ref σ0 (s.step cmd) (l.step cmd) := by
  cases cmd with
  | op b =>
    obtain ⟨hd, hp⟩ := hv
    simp only [Low.step, BLog.step]
    refine ⟨block_sync s b hd h.sync, ?_, ?_, ?_, ?_⟩
    · intro c; rw [block_disk]; exact h.disk c
    · rw [block_layers]; exact h.nlayers
    · intro j hj c; rw [block_disk, block_layers]; exact h.layer j hj c
    · intro _ c
      rw [block_cur, ← List.append_assoc, absRun_snoc]
      have : s.cur = absRun σ0 (l.committed ++ l.pending) := funext (h.mem hp)
      rw [this]
  | failop b =>
    simp only [Low.step, BLog.step]
    refine ⟨block_sync s b hv h.sync, ?_, ?_, ?_, ?_⟩
    · intro c; rw [block_disk]; exact h.disk c
    · rw [block_layers]; exact h.nlayers
    · intro j hj c; rw [block_disk, block_layers]; exact h.layer j hj c
    · intro hp; simp at hp
  | commit =>
    simp only [Low.step, BLog.step, Low.commit]
    have hcur : ∀ c, (if s.dirty.contains c = true then s.cur c else stored s.disk s.layers c) = s.cur c := by
      intro c
      by_cases hc : c ∈ s.dirty
      · simp [hc]
      · simp [hc, h.sync c hc]
    refine ⟨?_, ?_, rfl, ?_, ?_⟩
    · intro c _; simp only [stored_nil]; exact (hcur c).symm
    · intro c; simp only []; rw [hcur c]; exact h.mem hv c
    · intro j hj; simp at hj
    · intro _ c; simp only [List.append_nil]; exact h.mem hv c
  | abort =>
    simp only [Low.step, BLog.step, Low.abort]
    have hcur : ∀ c, (if (s.dirty ++ layerCells s.layers).contains c = true then s.disk c else s.cur c)
        = s.disk c := by
      intro c
      by_cases hc : c ∈ s.dirty ++ layerCells s.layers
      · simp [hc]
      · have h1 : c ∉ s.dirty := fun x => hc (List.mem_append.mpr (Or.inl x))
        have h2 : c ∉ layerCells s.layers := fun x => hc (List.mem_append.mpr (Or.inr x))
        have : (s.dirty ++ layerCells s.layers).contains c = false := by simpa using hc
        simp only [this, Bool.false_eq_true, if_false]
        rw [h.sync c h1, stored_of_not_mem _ _ _ h2]
    refine ⟨?_, h.disk, rfl, ?_, ?_⟩
    · intro c _; simp only [stored_nil]; exact hcur c
    · intro j hj; simp at hj
    · intro _ c; simp only [List.append_nil]; rw [hcur c]; exact h.disk c
  | savepoint =>
    simp only [Low.step, BLog.step, Low.savepoint]
    have hnew : ∀ c, stored s.disk (s.layers ++ [s.dirty.map (fun c => (c, s.cur c))]) c = s.cur c := by
      intro c
      rw [stored_append, lookup_snapshot]
      by_cases hc : c ∈ s.dirty
      · simp [hc]
      · simp [hc, h.sync c hc]
    refine ⟨?_, h.disk, ?_, ?_, ?_⟩
    · intro c _; exact (hnew c).symm
    · simp [h.nlayers]
    · intro j hj c
      simp only [List.length_append, List.length_singleton] at hj
      by_cases hlt : j < l.saves.length
      · have e1 : (s.layers ++ [s.dirty.map (fun c => (c, s.cur c))]).take (j + 1) = s.layers.take (j + 1) := by
          apply List.take_append_of_le_length; rw [h.nlayers]; omega
        rw [e1, List.getElem_append_left hlt]
        exact h.layer j hlt c
      · have hj' : j = l.saves.length := by omega
        subst hj'
        have e1 : (s.layers ++ [s.dirty.map (fun c => (c, s.cur c))]).take (l.saves.length + 1)
            = s.layers ++ [s.dirty.map (fun c => (c, s.cur c))] := by
          apply List.take_of_length_le; simp [h.nlayers]
        rw [e1, hnew c]
        simp only [List.getElem_append_right (Nat.le_refl _), Nat.sub_self, List.getElem_cons_zero]
        exact h.mem hv c
    · intro hp c; exact h.mem hp c
  | rollback j =>
    have hj : j < l.saves.length := hv
    simp only [Low.step, BLog.step, Low.rollback]
    have hget : l.saves[j]? = some l.saves[j] := List.getElem?_eq_getElem hj
    simp only [hget]
    have hcur : ∀ c, (if (s.dirty ++ layerCells s.layers).contains c = true
        then stored s.disk (s.layers.take (j + 1)) c else s.cur c) = stored s.disk (s.layers.take (j + 1)) c := by
      intro c
      by_cases hc : c ∈ s.dirty ++ layerCells s.layers
      · simp [hc]
      · have h1 : c ∉ s.dirty := fun x => hc (List.mem_append.mpr (Or.inl x))
        have h2 : c ∉ layerCells s.layers := fun x => hc (List.mem_append.mpr (Or.inr x))
        have h3 : c ∉ layerCells (s.layers.take (j + 1)) := by
          intro hx; apply h2
          simp only [layerCells, List.mem_flatMap] at hx ⊢
          obtain ⟨lay, hl, hm⟩ := hx
          exact ⟨lay, List.mem_of_mem_take hl, hm⟩
        have : (s.dirty ++ layerCells s.layers).contains c = false := by simpa using hc
        simp only [this, Bool.false_eq_true, if_false]
        rw [h.sync c h1, stored_of_not_mem _ _ _ h2, stored_of_not_mem _ _ _ h3]
    refine ⟨?_, h.disk, ?_, ?_, ?_⟩
    · intro c _; exact hcur c
    · simp [h.nlayers] <;> omega
    · intro i hi c
      simp only [List.length_take] at hi
      have hi' : i < l.saves.length := by omega
      have hij : i ≤ j := by omega
      have e1 : (s.layers.take (j + 1)).take (i + 1) = s.layers.take (i + 1) := by
        rw [List.take_take]; congr 1; omega
      rw [e1, List.getElem_take]
      exact h.layer i hi' c
    · intro _ c
      show (if (s.dirty ++ layerCells s.layers).contains c = true
        then stored s.disk (s.layers.take (j + 1)) c else s.cur c) = _
      rw [hcur c]
      exact h.layer j hj c
  | evict =>
    simp only [Low.step, BLog.step, Low.evict]
    have hcur : ∀ c, (if s.dirty.contains c = true then s.cur c else stored s.disk s.layers c) = s.cur c := by
      intro c
      by_cases hc : c ∈ s.dirty
      · simp [hc]
      · simp [hc, h.sync c hc]
    refine ⟨?_, h.disk, h.nlayers, h.layer, ?_⟩
    · intro c hc
      show (if s.dirty.contains c = true then s.cur c else stored s.disk s.layers c) = _
      rw [hcur c]; exact h.sync c hc
    · intro hp c
      show (if s.dirty.contains c = true then s.cur c else stored s.disk s.layers c) = _
      rw [hcur c]; exact h.mem hp c
  | reopen =>
    simp only [Low.step, BLog.step, Low.reopen]
    refine ⟨?_, h.disk, rfl, ?_, ?_⟩
    · intro c _; rfl
    · intro j hj; simp at hj
    · intro _ c; simp only [List.append_nil]; exact h.disk c

end Hyp.Persist
