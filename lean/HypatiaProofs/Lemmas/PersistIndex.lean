import HypatiaModel.PersistIndex
import HypatiaProofs.Lemmas.ConcurrencyTextSound
import HypatiaProofs.Lemmas.Persist

/-!
The blocks derived from the object-level index operations are disciplined.
-/
set_option linter.unusedSectionVars false
set_option linter.unusedSimpArgs false
set_option linter.unusedVariables false
namespace Hyp.Persist
open Hyp Hyp.CIdx

/-! ### from steps to blocks -/

/-- every object a step list touches is also notified in it -/
def DiscSteps {σ : Type} (l : List (OStep σ)) : Prop :=
  ∀ s ∈ l, ∃ s' ∈ l, s'.obj = s.obj ∧ s'.notify = true

theorem mem_blockAux {σ : Type} (cell : σ → Nat) (eff : Nat → Val → Val) :
    ∀ (l : List (OStep σ)) (i : Nat) (a : Action), a ∈ blockAux cell eff i l →
      ∃ s ∈ l, a.cell = cell s.obj ∧ a.notify = s.notify
  | [], _, a, h => by simp [blockAux] at h
  | s :: rest, i, a, h => by
    simp only [blockAux, List.mem_cons] at h
    rcases h with rfl | h
    · exact ⟨s, by simp, rfl, rfl⟩
    · obtain ⟨s', hs', e1, e2⟩ := mem_blockAux cell eff rest (i + 1) a h
      exact ⟨s', List.mem_cons_of_mem _ hs', e1, e2⟩

theorem blockAux_of_mem {σ : Type} (cell : σ → Nat) (eff : Nat → Val → Val) :
    ∀ (l : List (OStep σ)) (i : Nat) (s : OStep σ), s ∈ l →
      ∃ a ∈ blockAux cell eff i l, a.cell = cell s.obj ∧ a.notify = s.notify
  | [], _, s, h => by simp at h
  | s0 :: rest, i, s, h => by
    rcases List.mem_cons.mp h with rfl | h
    · exact ⟨{ cell := cell s.obj, f := eff i, notify := s.notify }, by simp [blockAux], rfl, rfl⟩
    · obtain ⟨a, ha, e1, e2⟩ := blockAux_of_mem cell eff rest (i + 1) s h
      exact ⟨a, by simp only [blockAux, List.mem_cons]; exact Or.inr ha, e1, e2⟩

/-- discipline of the steps gives discipline of the block, for every numbering of the objects and
every effect on the cell values -/
theorem disciplined_blockOf {σ : Type} (cell : σ → Nat) (eff : Nat → Val → Val) {l : List (OStep σ)}
    (h : DiscSteps l) : Disciplined (blockOf cell eff l) := by
  intro a ha
  obtain ⟨s, hs, e1, e2⟩ := mem_blockAux cell eff l 0 a ha
  obtain ⟨s', hs', e3, e4⟩ := h s hs
  obtain ⟨a', ha', e5, e6⟩ := blockAux_of_mem cell eff l 0 s' hs'
  exact ⟨a', ha', by rw [e5, e3, e1], by rw [e6, e4]⟩

/-- the converse, for an injective numbering: an undisciplined step list gives an undisciplined block -/
theorem not_disciplined_blockOf {σ : Type} (cell : σ → Nat) (hinj : ∀ a b, cell a = cell b → a = b)
    (eff : Nat → Val → Val) {l : List (OStep σ)} (h : ¬ DiscSteps l) : ¬ Disciplined (blockOf cell eff l) := by
  intro hd
  apply h
  intro s hs
  obtain ⟨a, ha, e1, e2⟩ := blockAux_of_mem cell eff l 0 s hs
  obtain ⟨a', ha', e3, e4⟩ := hd a ha
  obtain ⟨s', hs', e5, e6⟩ := mem_blockAux cell eff l 0 a' ha'
  exact ⟨s', hs', hinj _ _ (by rw [← e5, e3, e1]), by rw [← e6, e4]⟩

theorem discSteps_all_notify {σ α : Type} (f : α → σ) (l : List α) :
    DiscSteps (l.map fun a => (⟨f a, true⟩ : OStep σ)) := by
  intro s hs
  obtain ⟨a, ha, rfl⟩ := List.mem_map.mp hs
  exact ⟨_, hs, rfl, rfl⟩

theorem gained_append {α : Type} (blk old : List α) : gained old (blk ++ old) = blk.reverse := by
  unfold gained
  simp

/-! ### text index: the log gained along valid primitive steps is disciplined -/

variable {W Wt : Type} [DecidableEq W] [DecidableEq Wt]

/-- every object a log segment touches is also notified in it -/
def DiscLog (l : List (TStep W)) : Prop :=
  ∀ s ∈ l, ∃ s' ∈ l, s'.loc.obj = s.loc.obj ∧ s'.notify = true

theorem discLog_nil : DiscLog ([] : List (TStep W)) := fun _ h => by simp at h

theorem discLog_append {a b : List (TStep W)} (ha : DiscLog a) (hb : DiscLog b) : DiscLog (a ++ b) := by
  intro s hs
  rcases List.mem_append.mp hs with h | h
  · obtain ⟨s', h1, h2⟩ := ha s h; exact ⟨s', List.mem_append.mpr (Or.inl h1), h2⟩
  · obtain ⟨s', h1, h2⟩ := hb s h; exact ⟨s', List.mem_append.mpr (Or.inr h1), h2⟩

theorem discLog_all_notify {l : List (TStep W)} (h : ∀ s ∈ l, s.notify = true) : DiscLog l :=
  fun s hs => ⟨s, hs, rfl, h s hs⟩

/-- the log of `y` extends the log of `x` by a disciplined segment -/
def LogExt (x y : TTx W Wt) : Prop := ∃ blk, y.log = blk ++ x.log ∧ DiscLog blk

theorem logExt_refl (x : TTx W Wt) : LogExt x x := ⟨[], rfl, discLog_nil⟩

theorem logExt_add {x y z : TTx W Wt} (h : LogExt x y) (add : List (TStep W)) (e : z.log = add ++ y.log)
    (hd : DiscLog add) : LogExt x z := by
  obtain ⟨blk, e1, d1⟩ := h
  exact ⟨add ++ blk, by rw [e, e1, List.append_assoc], discLog_append hd d1⟩

theorem skipLoop_log : ∀ (n : Nat) (y : TTx W Wt),
    ∃ add, (TTx.skipLoop y n).log = add ++ y.log ∧ ∀ s ∈ add, s.notify = true
  | 0, y => ⟨[], rfl, fun _ h => by simp at h⟩
  | n + 1, y => by
    unfold TTx.skipLoop
    simp only
    split
    · obtain ⟨add, e, h⟩ := skipLoop_log n (((y.rd .lexCount).rd (.words y.heap.lexCount.toNat)).lexChange 1)
      refine ⟨add ++ [⟨.lexCount, true⟩], ?_, ?_⟩
      · rw [e]; simp [TTx.lexChange, TTx.nt, TTx.rd]
      · intro s hs
        rcases List.mem_append.mp hs with h' | h'
        · exact h s h'
        · simp at h'; rw [h']
    · exact ⟨[], rfl, fun _ h => by simp at h⟩

theorem newWid_log (y : TTx W Wt) :
    ∃ add, (TTx.newWid y).1.log = add ++ y.log ∧ ∀ s ∈ add, s.notify = true := by
  unfold TTx.newWid
  simp only
  obtain ⟨add, e, h⟩ := skipLoop_log ((y.lexChange 1).heap.words.length + 1) (y.lexChange 1)
  refine ⟨add ++ [⟨.lexCount, true⟩], ?_, ?_⟩
  · show (TTx.skipLoop (y.lexChange 1) _).log = _
    rw [e]; simp [TTx.lexChange, TTx.nt]
  · intro s hs
    rcases List.mem_append.mp hs with h' | h'
    · exact h s h'
    · simp at h'; rw [h']

theorem logExt_prim {x y : TTx W Wt} (p : TPrim W Wt) (h : LogExt x y) : LogExt x (p.app y) := by
  have one : ∀ (z : TTx W Wt) (l : TLoc W), z.log = ⟨l, true⟩ :: y.log → LogExt x z := by
    intro z l e
    exact logExt_add h [⟨l, true⟩] e (discLog_all_notify (by simp))
  have pair : ∀ (z : TTx W Wt) (l : TLoc W), z.log = ⟨l, true⟩ :: ⟨l, false⟩ :: y.log → LogExt x z := by
    intro z l e
    refine logExt_add h [⟨l, true⟩, ⟨l, false⟩] e ?_
    intro s hs
    simp at hs
    rcases hs with rfl | rfl
    · exact ⟨⟨l, true⟩, by simp, rfl, rfl⟩
    · exact ⟨⟨l, true⟩, by simp, rfl, rfl⟩
  cases p with
  | rd l => exact logExt_add h [] rfl discLog_nil
  | newWord w =>
    obtain ⟨add, e, hn⟩ := newWid_log y
    refine logExt_add h (⟨.words (TTx.newWid y).2, true⟩ :: ⟨.wids w, true⟩ :: add) ?_ (discLog_all_notify ?_)
    · show (TTx.nt _ _).log = _
      simp [TTx.wordsSet, TTx.widsSet, TTx.nt, e]
    · intro s hs
      simp at hs
      rcases hs with rfl | rfl | hs
      · rfl
      · rfl
      · exact hn s hs
  | wiSet i v => exact one _ (.wi i) rfl
  | wiErase i => exact one _ (.wi i) rfl
  | dictPutR i m d f => exact pair _ (.wi i) rfl
  | dictDelR i m d => exact pair _ (.wi i) rfl
  | dictDelE i m d => exact pair _ (.wi i) rfl
  | dwSet d ws => exact one _ (.docwords d) rfl
  | dwErase d => exact one _ (.docwords d) rfl
  | dwtSet d f =>
    show LogExt x (y.dwtSet d f)
    unfold TTx.dwtSet
    split
    · exact h
    · exact one _ (.docweight d) rfl
  | dwtErase d => exact one _ (.docweight d) rfl
  | wcChange δ => exact one _ .wordCount rfl
  | icChange δ => exact one _ .indexedCount rfl
  | tdlChange δ => exact one _ .totalDocLen rfl
  | niRemove d => exact one _ (.ni d) rfl
  | niAdd d => exact one _ (.ni d) rfl
  | treePut o d f =>
    show LogExt x (y.treePut o d f)
    unfold TTx.treePut
    split
    · exact h
    · exact one _ (.tree o d) rfl
  | treeDel o d => exact one _ (.tree o d) rfl
  | alloc m => exact one _ (.whole (y.me, y.next)) rfl

theorem logExt_of_reach {D : Int → Prop} {x y : TTx W Wt} (h : Reach D x y) : LogExt x y :=
  Reach.induct (fun y => LogExt x y) (logExt_refl x) (fun p _ _ hz _ => logExt_prim p hz) h

/-- the steps gained along valid primitive steps are disciplined -/
theorem discSteps_of_reach {D : Int → Prop} {x y : TTx W Wt} (h : Reach D x y) :
    DiscSteps ((gained x.log y.log).map fun s => (⟨s.loc.obj, s.notify⟩ : OStep TObj)) := by
  obtain ⟨blk, e, hd⟩ := logExt_of_reach h
  rw [e, gained_append]
  intro s hs
  obtain ⟨t, ht, rfl⟩ := List.mem_map.mp hs
  obtain ⟨t', ht', e1, e2⟩ := hd t (List.mem_reverse.mp ht)
  exact ⟨⟨t'.loc.obj, t'.notify⟩, List.mem_map.mpr ⟨t', List.mem_reverse.mpr ht', rfl⟩, e1, e2⟩

end Hyp.Persist
