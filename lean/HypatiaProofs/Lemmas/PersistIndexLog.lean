import HypatiaModel.PersistIndex
import HypatiaProofs.Lemmas.PersistIndex

/-!
The write logs of the object-level field / keyword / facet operations only grow: what an operation
appends to the log is exactly what `fieldSteps` / `keywordSteps` / `facetSteps` cut out.
-/
set_option linter.unusedSectionVars false
namespace Hyp.Persist
open Hyp Hyp.CIdx

section F
variable {V : Type} [DecidableEq V]

/-- the write log of `y` extends the write log of `x` -/
def FExt (x y : FTx V) : Prop := ∃ blk, y.writes = blk ++ x.writes
theorem fext_refl (x : FTx V) : FExt x x := ⟨[], rfl⟩
theorem fext_trans {x y z : FTx V} (h1 : FExt x y) (h2 : FExt y z) : FExt x z := by
  obtain ⟨b1, e1⟩ := h1; obtain ⟨b2, e2⟩ := h2
  exact ⟨b2 ++ b1, by rw [e2, e1, List.append_assoc]⟩
theorem fext_one {x z : FTx V} (l : Loc V) (e : z.writes = l :: x.writes) : FExt x z := ⟨[l], e⟩
theorem fext_same {x z : FTx V} (e : z.writes = x.writes) : FExt x z := ⟨[], e⟩

theorem fext_unindexDoc (x : FTx V) (d : Int) : FExt x (x.unindexDoc d) := by
  unfold FTx.unindexDoc
  simp only
  have h1 : FExt x (if d ∈ (x.rd (.ni d)).heap.ni then (x.rd (.ni d)).niRemove d else x.rd (.ni d)) := by
    split
    · exact fext_one _ rfl
    · exact fext_same rfl
  generalize (if d ∈ (x.rd (.ni d)).heap.ni then (x.rd (.ni d)).niRemove d else x.rd (.ni d)) = x1 at h1 ⊢
  refine fext_trans h1 ?_
  cases AMap.get (x1.rd (.rev d)).heap.rev d with
  | none => exact fext_same rfl
  | some v =>
    simp only
    cases AMap.get (((x1.rd (.rev d)).revErase d).rd (.fwd v)).heap.fwd v with
    | none => exact ⟨[_, _], rfl⟩
    | some o =>
      simp only
      split
      · split
        · exact ⟨[_, _, _, _], rfl⟩
        · exact ⟨[_, _, _], rfl⟩
      · exact ⟨[_, _], rfl⟩

theorem fext_insertDoc (x : FTx V) (d : Int) (v : V) : FExt x (x.insertDoc d v) := by
  unfold FTx.insertDoc
  simp only
  cases AMap.get (x.rd (.fwd v)).heap.fwd v with
  | some o =>
    simp only
    split
    · exact ⟨[_, _], rfl⟩
    · exact ⟨[_, _, _], rfl⟩
  | none =>
    simp only
    split
    · exact ⟨[_, _, _], rfl⟩
    · exact ⟨[_, _, _, _], rfl⟩

theorem fext_indexDoc (x : FTx V) (d : Int) (v : Option V) : FExt x (x.indexDoc d v) := by
  unfold FTx.indexDoc
  cases v with
  | none =>
    simp only
    split
    · exact fext_same rfl
    · exact fext_trans (fext_unindexDoc (x.rd (.ni d)) d |> fun h => fext_trans (fext_same rfl) h) (fext_one _ rfl)
  | some v =>
    simp only
    have h1 : FExt x (if d ∈ (x.rd (.ni d)).heap.ni then (x.rd (.ni d)).niRemove d else x.rd (.ni d)) := by
      split
      · exact fext_one _ rfl
      · exact fext_same rfl
    generalize (if d ∈ (x.rd (.ni d)).heap.ni then (x.rd (.ni d)).niRemove d else x.rd (.ni d)) = x1 at h1 ⊢
    refine fext_trans h1 ?_
    cases AMap.get (x1.rd (.rev d)).heap.rev d with
    | none => exact fext_trans (fext_same rfl) (fext_insertDoc _ d v)
    | some _ =>
      simp only
      cases AMap.get ((x1.rd (.rev d)).rd (.fwd v)).heap.fwd v with
      | none =>
        simp only [Bool.false_eq_true, if_false]
        have h2 : FExt x1 ((x1.rd (.rev d)).rd (.fwd v)) := fext_same rfl
        exact fext_trans (fext_trans h2 (fext_unindexDoc _ d)) (fext_insertDoc _ d v)
      | some o =>
        simp only
        split
        · exact fext_same rfl
        · have h2 : FExt x1 (((x1.rd (.rev d)).rd (.fwd v)).rd (.post o d)) := fext_same rfl
          exact fext_trans (fext_trans h2 (fext_unindexDoc _ d)) (fext_insertDoc _ d v)

theorem fext_step (x : FTx V) (op : TOp V) : FExt x (x.step op) := by
  cases op with
  | index d v => exact fext_indexDoc x d v
  | unindex d => exact fext_unindexDoc x d
end F

section K
variable {K : Type} [DecidableEq K]

def KExt (x y : KTx K) : Prop := ∃ blk, y.writes = blk ++ x.writes
theorem kext_refl (x : KTx K) : KExt x x := ⟨[], rfl⟩
theorem kext_trans {x y z : KTx K} (h1 : KExt x y) (h2 : KExt y z) : KExt x z := by
  obtain ⟨b1, e1⟩ := h1; obtain ⟨b2, e2⟩ := h2
  exact ⟨b2 ++ b1, by rw [e2, e1, List.append_assoc]⟩
theorem kext_same {x z : KTx K} (e : z.writes = x.writes) : KExt x z := ⟨[], e⟩

theorem kext_unpostOne (x : KTx K) (d : Int) (w : K) (o : Oid) : KExt x (x.unpostOne d w o) := by
  unfold KTx.unpostOne
  simp only
  split
  · exact ⟨[_, _], rfl⟩
  · exact ⟨[_], rfl⟩

theorem kext_unpostAll (d : Int) : ∀ (ws : List K) (x : KTx K), KExt x (x.unpostAll d ws).1
  | [], x => kext_refl x
  | w :: ws, x => by
    unfold KTx.unpostAll
    simp only
    cases AMap.get (x.rd (.fwd w)).heap.fwd w with
    | none => exact kext_same rfl
    | some o =>
      simp only
      split
      · have h2 : KExt x ((x.rd (.fwd w)).rd (.post o d)) := kext_same rfl
        exact kext_trans (kext_trans h2 (kext_unpostOne _ d w o)) (kext_unpostAll d ws _)
      · exact kext_same rfl

theorem kext_niPrelude (x : KTx K) (d : Int) :
    KExt x (if d ∈ (x.rd (.ni d)).heap.ni then (x.rd (.ni d)).niRemove d else x.rd (.ni d)) := by
  split
  · exact ⟨[_], rfl⟩
  · exact kext_same rfl

theorem kext_unindexDoc (x : KTx K) (d : Int) : KExt x (x.unindexDoc d) := by
  unfold KTx.unindexDoc
  simp only
  have h1 := kext_niPrelude x d
  generalize (if d ∈ (x.rd (.ni d)).heap.ni then (x.rd (.ni d)).niRemove d else x.rd (.ni d)) = x1 at h1 ⊢
  refine kext_trans h1 ?_
  cases AMap.get (x1.rd (.rev d)).heap.rev d with
  | none => exact kext_same rfl
  | some kws =>
    simp only
    have h2 : KExt x1 (x1.rd (.rev d)) := kext_same rfl
    have h3 := kext_unpostAll d kws (x1.rd (.rev d))
    split
    · exact kext_trans (kext_trans h2 h3) ⟨[_, _], rfl⟩
    · exact kext_trans h2 h3

theorem kext_postingFor (x : KTx K) (w : K) : KExt x (x.postingFor w).1 := by
  unfold KTx.postingFor
  cases AMap.get x.heap.fwd w with
  | some o => exact kext_refl x
  | none => exact ⟨[_], rfl⟩

theorem kext_promote (c : KCfg) (x : KTx K) (w : K) (o : Oid) (p : Keyword.Tag × List Int) (s' : List Int) :
    KExt x (KTx.promote c x w o p s') := by
  unfold KTx.promote
  split
  · simp only
    split
    · exact ⟨[_, _], rfl⟩
    · exact ⟨[_], rfl⟩
  · exact kext_refl x

theorem kext_insertOne (c : KCfg) (x : KTx K) (d : Int) (w : K) : KExt x (KTx.insertOne c x d w) := by
  unfold KTx.insertOne
  simp only
  have h1 : KExt x (KTx.postingFor (x.rd (.fwd w)) w).1 :=
    kext_trans (kext_same rfl) (kext_postingFor (x.rd (.fwd w)) w)
  generalize KTx.postingFor (x.rd (.fwd w)) w = r at h1 ⊢
  refine kext_trans h1 ?_
  have h2 : KExt r.1 (if d ∈ (r.1.obj r.2).2 then r.1.rd (.post r.2 d)
      else (r.1.rd (.post r.2 d)).postPut r.2 d ((r.1.obj r.2).1, LSet.insert (r.1.obj r.2).2 d)) := by
    split
    · exact kext_same rfl
    · exact ⟨[_], rfl⟩
  generalize (if d ∈ (r.1.obj r.2).2 then r.1.rd (.post r.2 d)
      else (r.1.rd (.post r.2 d)).postPut r.2 d ((r.1.obj r.2).1, LSet.insert (r.1.obj r.2).2 d)) = x2 at h2 ⊢
  exact kext_trans h2 (kext_trans (kext_same rfl) (kext_promote c (x2.rd (.whole r.2)) w r.2 _ _))

theorem kext_insertForward (c : KCfg) (d : Int) : ∀ (ws : List K) (x : KTx K), KExt x (KTx.insertForward c x d ws)
  | [], x => kext_refl x
  | w :: ws, x => by
    unfold KTx.insertForward
    exact kext_trans (kext_insertOne c x d w) (kext_insertForward c d ws _)

theorem kext_insertReverse (x : KTx K) (d : Int) (ws : List K) : KExt x (x.insertReverse d ws) := by
  unfold KTx.insertReverse
  split
  · exact kext_refl x
  · exact ⟨[_], rfl⟩

theorem kext_indexDoc (c : KCfg) (x : KTx K) (d : Int) (v : Option (List K)) : KExt x (KTx.indexDoc c x d v) := by
  unfold KTx.indexDoc
  cases v with
  | none =>
    simp only
    split
    · exact kext_same rfl
    · have h2 : KExt x (x.rd (.ni d)) := kext_same rfl
      exact kext_trans (kext_trans h2 (kext_unindexDoc _ d)) ⟨[_], rfl⟩
  | some seq =>
    simp only
    have h1 := kext_niPrelude x d
    generalize (if d ∈ (x.rd (.ni d)).heap.ni then (x.rd (.ni d)).niRemove d else x.rd (.ni d)) = x1 at h1 ⊢
    refine kext_trans h1 ?_
    have h2 : KExt x1 (x1.rd (.rev d)) := kext_same rfl
    refine kext_trans h2 ?_
    split
    · split
      · exact kext_unindexDoc _ d
      · exact kext_refl _
    · split
      · exact kext_trans (kext_trans (kext_insertForward c d _ _) (kext_insertReverse _ d _)) ⟨[_], rfl⟩
      · split
        · exact kext_refl _
        · have h3 := kext_unpostAll d (LSet.diff ‹List K› (Keyword.dedup seq)) (x1.rd (.rev d))
          split
          · exact kext_trans h3 (kext_trans (kext_insertForward c d _ _) (kext_insertReverse _ d _))
          · exact h3

theorem kext_step (c : KCfg) (x : KTx K) (op : TOp (List K)) : KExt x (KTx.step c x op) := by
  cases op with
  | index d v => exact kext_indexDoc c x d v
  | unindex d => exact kext_unindexDoc x d

theorem kext_facetAddOne (x : KTx K) (d : Int) (fac : K) : KExt x (x.facetAddOne d fac) := by
  unfold KTx.facetAddOne
  simp only
  have h1 : KExt x (KTx.postingFor (x.rd (.fwd fac)) fac).1 :=
    kext_trans (kext_same rfl) (kext_postingFor (x.rd (.fwd fac)) fac)
  generalize KTx.postingFor (x.rd (.fwd fac)) fac = r at h1 ⊢
  refine kext_trans h1 ?_
  split
  · exact ⟨[_], rfl⟩
  · exact ⟨[_, _], rfl⟩

theorem kext_foldl_facet (d : Int) : ∀ (l : List K) (x : KTx K), KExt x (l.foldl (fun x fac => x.facetAddOne d fac) x)
  | [], x => kext_refl x
  | f :: l, x => kext_trans (kext_facetAddOne x d f) (kext_foldl_facet d l _)

theorem kext_facetIndexDoc (facets : List K) (x : KTx K) (d : Int) (v : Option (List K)) :
    KExt x (KTx.facetIndexDoc facets x d v) := by
  unfold KTx.facetIndexDoc
  cases v with
  | none => exact kext_trans (kext_unindexDoc x d) ⟨[_], rfl⟩
  | some cands =>
    simp only
    have h1 := kext_niPrelude x d
    generalize (if d ∈ (x.rd (.ni d)).heap.ni then (x.rd (.ni d)).niRemove d else x.rd (.ni d)) = x1 at h1 ⊢
    refine kext_trans h1 ?_
    cases AMap.get (x1.rd (.rev d)).heap.rev d with
    | none =>
      simp only
      have h2 : KExt x1 (x1.rd (.rev d)) := kext_same rfl
      have h3 := kext_foldl_facet d (cands.filter (· ∈ facets)) (x1.rd (.rev d))
      split
      · exact kext_trans h2 h3
      · exact kext_trans (kext_trans h2 h3) ⟨[_], rfl⟩
    | some _ =>
      simp only
      have h2 : KExt x1 ((x1.rd (.rev d)).unindexDoc d) := kext_trans (kext_same rfl) (kext_unindexDoc _ d)
      have h3 := kext_foldl_facet d (cands.filter (· ∈ facets)) ((x1.rd (.rev d)).unindexDoc d)
      split
      · exact kext_trans h2 h3
      · exact kext_trans (kext_trans h2 h3) ⟨[_], rfl⟩

theorem kext_facetStep (facets : List K) (x : KTx K) (op : TOp (List K)) : KExt x (KTx.facetStep facets x op) := by
  cases op with
  | index d v => exact kext_facetIndexDoc facets x d v
  | unindex d => exact kext_unindexDoc x d

end K
end Hyp.Persist
