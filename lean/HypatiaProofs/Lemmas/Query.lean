import HypatiaModel.Query

set_option linter.unusedSectionVars false
set_option linter.unusedSimpArgs false
namespace Hyp.Query
open Hyp

/-- equality of id sets -/
def SetEq (a b : IdSet) : Prop := ∀ d, d ∈ a ↔ d ∈ b
infix:50 " ≈ˢ " => SetEq

theorem SetEq.refl (a : IdSet) : a ≈ˢ a := fun _ => Iff.rfl
theorem SetEq.symm {a b : IdSet} (h : a ≈ˢ b) : b ≈ˢ a := fun d => (h d).symm
theorem SetEq.trans {a b c : IdSet} (h : a ≈ˢ b) (h' : b ≈ˢ c) : a ≈ˢ c := fun d => (h d).trans (h' d)

theorem mem_intersect (l r : IdSet) (d : Int) : d ∈ intersect l r ↔ d ∈ l ∧ d ∈ r := by
  unfold intersect
  split
  · next h =>
    simp only [Bool.or_eq_true, decide_eq_true_eq] at h
    rcases h with h | h
    · have : l = [] := List.eq_nil_of_length_eq_zero h
      simp [this]
    · have : r = [] := List.eq_nil_of_length_eq_zero h
      simp [this]
  · exact LSet.mem_inter l r d

theorem mem_union (l r : IdSet) (d : Int) : d ∈ union l r ↔ d ∈ l ∨ d ∈ r := by
  unfold union
  split
  · next h =>
    simp only [ne_eq, Bool.and_eq_true, decide_eq_true_eq, decide_not, Bool.not_eq_eq_eq_not,
      Bool.not_true, decide_eq_false_iff_not] at h
    have : r = [] := List.eq_nil_of_length_eq_zero h.2
    simp [this]
  · split
    · next _ h =>
      simp only [ne_eq, Bool.and_eq_true, decide_eq_true_eq, decide_not, Bool.not_eq_eq_eq_not,
        Bool.not_true, decide_eq_false_iff_not] at h
      have : l = [] := List.eq_nil_of_length_eq_zero h.2
      simp [this]
    · exact LSet.mem_union l r d

/-! ### sizes -/

theorem sizeList_append (a b : List Q) : sizeList (a ++ b) = sizeList a + sizeList b := by
  induction a with
  | nil => simp [sizeList]
  | cons x xs ih => simp [sizeList, ih]; omega

theorem sizeList_flatten_or (qs : List Q) :
    sizeList (qs.flatMap flatOr) ≤ sizeList qs := by
  induction qs with
  | nil => simp [sizeList]
  | cons x xs ih =>
    simp only [List.flatMap_cons, sizeList_append, sizeList]
    have : sizeList (flatOr x) ≤ size x := by
      cases x <;> simp [flatOr, sizeList, size]
    omega

theorem sizeList_flatten_and (qs : List Q) :
    sizeList (qs.flatMap flatAnd) ≤ sizeList qs := by
  induction qs with
  | nil => simp [sizeList]
  | cons x xs ih =>
    simp only [List.flatMap_cons, sizeList_append, sizeList]
    have : sizeList (flatAnd x) ≤ size x := by
      cases x <;> simp [flatAnd, sizeList, size]
    omega

theorem size_mkOr (qs : List Q) : size (mkOr qs) ≤ 1 + sizeList qs := by
  unfold mkOr; simp only [size]; have := sizeList_flatten_or qs; omega

theorem size_mkAnd (qs : List Q) : size (mkAnd qs) ≤ 1 + sizeList qs := by
  unfold mkAnd; simp only [size]; have := sizeList_flatten_and qs; omega

mutual
theorem size_negate_le : ∀ q : Q, size (negate q) ≤ size q
  | .cmp _ _ _ => by simp [negate, size]
  | .range _ _ _ _ _ _ => by simp [negate, size]
  | .and qs => by
    simp only [negate, size]
    have := size_mkOr (negateList qs)
    have := sizeList_negate_le qs
    omega
  | .or qs => by
    simp only [negate, size]
    have := size_mkAnd (negateList qs)
    have := sizeList_negate_le qs
    omega
  | .not q => by simp only [negate, size]; omega
theorem sizeList_negate_le : ∀ qs : List Q, sizeList (negateList qs) ≤ sizeList qs
  | [] => by simp [negateList, sizeList]
  | q :: qs => by
    simp only [negateList, sizeList]
    have := size_negate_le q
    have := sizeList_negate_le qs
    omega
end

theorem size_pos (q : Q) : 0 < size q := by cases q <;> simp [size] <;> omega

theorem size_le_sizeList {q : Q} {qs : List Q} (h : q ∈ qs) : size q ≤ sizeList qs := by
  induction qs with
  | nil => simp at h
  | cons x xs ih =>
    simp only [sizeList]
    rcases List.mem_cons.mp h with rfl | h'
    · omega
    · have := ih h'; omega

end Hyp.Query

namespace Hyp.Query

/-! ### fuel is never exhausted: the budget `size q + 1` always suffices -/

theorem foldlM_congr {α β : Type} (f g : β → α → Except Err β) (l : List α)
    (h : ∀ acc, ∀ x ∈ l, f acc x = g acc x) (a : β) : l.foldlM f a = l.foldlM g a := by
  induction l generalizing a with
  | nil => rfl
  | cons x xs ih =>
    simp only [List.foldlM_cons]
    rw [h a x (by simp)]
    cases g a x with
    | error e => rfl
    | ok b => exact ih (fun acc y hy => h acc y (List.mem_cons_of_mem _ hy)) b

/-- generic in the leaf oracle -/
theorem applyFuelL_eq (L : Leaves) : ∀ (n m : Nat) (q : Q), size q < n → size q < m →
    applyFuelL L n q = applyFuelL L m q := by
  intro n
  induction n with
  | zero => intro m q h; omega
  | succ n ih =>
    intro m q hn hm
    cases m with
    | zero => omega
    | succ m =>
      cases q with
      | cmp c i v => rfl
      | range neg i lo hi el eh => rfl
      | not q =>
        simp only [applyFuelL]
        simp only [size] at hn hm
        have := size_negate_le q
        exact ih m (negate q) (by omega) (by omega)
      | and qs =>
        cases qs with
        | nil => rfl
        | cons q0 rest =>
          simp only [applyFuelL]
          simp only [size, sizeList] at hn hm
          rw [ih m q0 (by omega) (by omega)]
          cases applyFuelL L m q0 with
          | error e => rfl
          | ok r0 =>
            simp only [bind, Except.bind]
            apply foldlM_congr
            intro acc x hx
            have := size_le_sizeList hx
            rw [ih m x (by omega) (by omega)]
      | or qs =>
        cases qs with
        | nil => rfl
        | cons q0 rest =>
          simp only [applyFuelL]
          simp only [size, sizeList] at hn hm
          rw [ih m q0 (by omega) (by omega)]
          cases applyFuelL L m q0 with
          | error e => rfl
          | ok r0 =>
            simp only [bind, Except.bind]
            apply foldlM_congr
            intro acc x hx
            have := size_le_sizeList hx
            rw [ih m x (by omega) (by omega)]

theorem applyFuelL_applyQL (L : Leaves) (n : Nat) (q : Q) (h : size q < n) :
    applyFuelL L n q = applyQL L q :=
  applyFuelL_eq L n (size q + 1) q h (by omega)

/-- the loop body of `And._apply` -/
def andBodyL (L : Leaves) (result : IdSet) (q : Q) : Except Err IdSet :=
  if result.length = 0 then pure [] else do
    let right ← applyQL L q
    pure (intersect result right)

/-- the loop body of `Or._apply` -/
def orBodyL (L : Leaves) (result : IdSet) (q : Q) : Except Err IdSet := do
  let right ← applyQL L q
  pure (union result right)

/-- unfolding equations of `_apply` in terms of `applyQL` itself -/
theorem applyQL_not (L : Leaves) (q : Q) : applyQL L (.not q) = applyQL L (negate q) := by
  have h := size_negate_le q
  show applyFuelL L (size (.not q) + 1) (.not q) = applyFuelL L (size (negate q) + 1) (negate q)
  simp only [size, applyFuelL]
  exact applyFuelL_eq L (1 + size q) (size (negate q) + 1) (negate q) (by omega) (by omega)

theorem applyQL_and (L : Leaves) (q0 : Q) (rest : List Q) :
    applyQL L (.and (q0 :: rest)) = (applyQL L q0 >>= fun r0 => rest.foldlM (andBodyL L) r0) := by
  show applyFuelL L (size (.and (q0 :: rest)) + 1) (.and (q0 :: rest)) = _
  simp only [applyFuelL, size, sizeList]
  rw [applyFuelL_applyQL L _ q0 (by omega)]
  cases applyQL L q0 with
  | error e => rfl
  | ok r0 =>
    simp only [bind, Except.bind]
    apply foldlM_congr
    intro acc x hx
    have := size_le_sizeList hx
    unfold andBodyL
    rw [applyFuelL_applyQL L _ x (by omega)]
    rfl

theorem applyQL_or (L : Leaves) (q0 : Q) (rest : List Q) :
    applyQL L (.or (q0 :: rest)) = (applyQL L q0 >>= fun r0 => rest.foldlM (orBodyL L) r0) := by
  show applyFuelL L (size (.or (q0 :: rest)) + 1) (.or (q0 :: rest)) = _
  simp only [applyFuelL, size, sizeList]
  rw [applyFuelL_applyQL L _ q0 (by omega)]
  cases applyQL L q0 with
  | error e => rfl
  | ok r0 =>
    simp only [bind, Except.bind]
    apply foldlM_congr
    intro acc x hx
    have := size_le_sizeList hx
    unfold orBodyL
    rw [applyFuelL_applyQL L _ x (by omega)]
    rfl

theorem applyQL_and_nil (L : Leaves) : applyQL L (.and []) = .error .indexError := rfl
theorem applyQL_or_nil (L : Leaves) : applyQL L (.or []) = .error .indexError := rfl
theorem applyQL_cmp (L : Leaves) (c : Cmp) (i : Nat) (v : Val) : applyQL L (.cmp c i v) = L.cmp c i v := rfl
theorem applyQL_range (L : Leaves) (neg : Bool) (i : Nat) (lo hi : Int) (el eh : Bool) :
    applyQL L (.range neg i lo hi el eh) = L.range neg i lo hi el eh := rfl

/-! the instance with specification-level leaves (`applyQ cat = applyQL (specLeaves cat)`) -/

theorem applyQ_eq_applyQL (cat : Catalog) (q : Q) : applyQ cat q = applyQL (specLeaves cat) q := rfl

theorem applyFuel_eq (cat : Catalog) : ∀ (n m : Nat) (q : Q), size q < n → size q < m →
    applyFuel cat n q = applyFuel cat m q := applyFuelL_eq (specLeaves cat)

theorem applyFuel_applyQ (cat : Catalog) (n : Nat) (q : Q) (h : size q < n) :
    applyFuel cat n q = applyQ cat q :=
  applyFuel_eq cat n (size q + 1) q h (by omega)

/-- the loop body of `And._apply` -/
def andBody (cat : Catalog) (result : IdSet) (q : Q) : Except Err IdSet :=
  if result.length = 0 then pure [] else do
    let right ← applyQ cat q
    pure (intersect result right)

/-- the loop body of `Or._apply` -/
def orBody (cat : Catalog) (result : IdSet) (q : Q) : Except Err IdSet := do
  let right ← applyQ cat q
  pure (union result right)

theorem applyQ_not (cat : Catalog) (q : Q) : applyQ cat (.not q) = applyQ cat (negate q) :=
  applyQL_not (specLeaves cat) q

theorem applyQ_and (cat : Catalog) (q0 : Q) (rest : List Q) :
    applyQ cat (.and (q0 :: rest)) = (applyQ cat q0 >>= fun r0 => rest.foldlM (andBody cat) r0) :=
  applyQL_and (specLeaves cat) q0 rest

theorem applyQ_or (cat : Catalog) (q0 : Q) (rest : List Q) :
    applyQ cat (.or (q0 :: rest)) = (applyQ cat q0 >>= fun r0 => rest.foldlM (orBody cat) r0) :=
  applyQL_or (specLeaves cat) q0 rest

theorem applyQ_cmp (cat : Catalog) (c : Cmp) (i : Nat) (v : Val) :
    applyQ cat (.cmp c i v) = applyCmp cat c i v := rfl

theorem applyQ_range (cat : Catalog) (neg : Bool) (i : Nat) (lo hi : Int) (el eh : Bool) :
    applyQ cat (.range neg i lo hi el eh) = applyRange cat neg i lo hi el eh := rfl

end Hyp.Query

namespace Hyp.Query

theorem and_loop (cat : Catalog) (R : Q → IdSet) (rest : List Q)
    (hR : ∀ q ∈ rest, applyQ cat q = .ok (R q)) (r0 : IdSet) :
    ∃ r, rest.foldlM (andBody cat) r0 = .ok r ∧ ∀ d, d ∈ r ↔ d ∈ r0 ∧ ∀ q ∈ rest, d ∈ R q := by
  induction rest generalizing r0 with
  | nil => exact ⟨r0, rfl, by simp⟩
  | cons x xs ih =>
    have ih' := ih (fun q hq => hR q (List.mem_cons_of_mem _ hq))
    simp only [List.foldlM_cons]
    unfold andBody
    by_cases h0 : r0.length = 0
    · simp only [h0, if_true]
      obtain ⟨r, hr, hm⟩ := ih' []
      refine ⟨r, hr, ?_⟩
      have : r0 = [] := List.eq_nil_of_length_eq_zero h0
      intro d; rw [hm]; simp [this]
    · simp only [h0, if_false, hR x (by simp)]
      obtain ⟨r, hr, hm⟩ := ih' (intersect r0 (R x))
      refine ⟨r, hr, ?_⟩
      intro d; rw [hm, mem_intersect]
      constructor
      · rintro ⟨⟨a, b⟩, c⟩
        exact ⟨a, fun q hq => by
          rcases List.mem_cons.mp hq with rfl | hq'
          · exact b
          · exact c q hq'⟩
      · rintro ⟨a, b⟩
        exact ⟨⟨a, b x (by simp)⟩, fun q hq => b q (List.mem_cons_of_mem _ hq)⟩

theorem or_loop (cat : Catalog) (R : Q → IdSet) (rest : List Q)
    (hR : ∀ q ∈ rest, applyQ cat q = .ok (R q)) (r0 : IdSet) :
    ∃ r, rest.foldlM (orBody cat) r0 = .ok r ∧ ∀ d, d ∈ r ↔ d ∈ r0 ∨ ∃ q ∈ rest, d ∈ R q := by
  induction rest generalizing r0 with
  | nil => exact ⟨r0, rfl, by simp⟩
  | cons x xs ih =>
    have ih' := ih (fun q hq => hR q (List.mem_cons_of_mem _ hq))
    simp only [List.foldlM_cons]
    unfold orBody
    simp only [hR x (by simp)]
    obtain ⟨r, hr, hm⟩ := ih' (union r0 (R x))
    refine ⟨r, hr, ?_⟩
    intro d; rw [hm, mem_union]
    constructor
    · rintro ((a | a) | ⟨q, hq, a⟩)
      · exact Or.inl a
      · exact Or.inr ⟨x, by simp, a⟩
      · exact Or.inr ⟨q, List.mem_cons_of_mem _ hq, a⟩
    · rintro (a | ⟨q, hq, a⟩)
      · exact Or.inl (Or.inl a)
      · rcases List.mem_cons.mp hq with rfl | hq'
        · exact Or.inl (Or.inr a)
        · exact Or.inr ⟨q, hq', a⟩

/-- **And = intersection** of the operands' answers (any arity ≥ 1, empty operands anywhere) -/
theorem apply_and (cat : Catalog) (qs : List Q) (hne : qs ≠ []) (R : Q → IdSet)
    (hR : ∀ q ∈ qs, applyQ cat q = .ok (R q)) :
    ∃ r, applyQ cat (.and qs) = .ok r ∧ ∀ d, d ∈ r ↔ ∀ q ∈ qs, d ∈ R q := by
  cases qs with
  | nil => exact absurd rfl hne
  | cons q0 rest =>
    rw [applyQ_and, hR q0 (by simp)]
    obtain ⟨r, hr, hm⟩ := and_loop cat R rest (fun q hq => hR q (List.mem_cons_of_mem _ hq)) (R q0)
    refine ⟨r, hr, ?_⟩
    intro d; rw [hm]
    constructor
    · rintro ⟨a, b⟩ q hq
      rcases List.mem_cons.mp hq with rfl | hq'
      · exact a
      · exact b q hq'
    · intro h; exact ⟨h q0 (by simp), fun q hq => h q (List.mem_cons_of_mem _ hq)⟩

/-- **Or = union** of the operands' answers -/
theorem apply_or (cat : Catalog) (qs : List Q) (hne : qs ≠ []) (R : Q → IdSet)
    (hR : ∀ q ∈ qs, applyQ cat q = .ok (R q)) :
    ∃ r, applyQ cat (.or qs) = .ok r ∧ ∀ d, d ∈ r ↔ ∃ q ∈ qs, d ∈ R q := by
  cases qs with
  | nil => exact absurd rfl hne
  | cons q0 rest =>
    rw [applyQ_or, hR q0 (by simp)]
    obtain ⟨r, hr, hm⟩ := or_loop cat R rest (fun q hq => hR q (List.mem_cons_of_mem _ hq)) (R q0)
    refine ⟨r, hr, ?_⟩
    intro d; rw [hm]
    constructor
    · rintro (a | ⟨q, hq, a⟩)
      · exact ⟨q0, by simp, a⟩
      · exact ⟨q, List.mem_cons_of_mem _ hq, a⟩
    · rintro ⟨q, hq, a⟩
      rcases List.mem_cons.mp hq with rfl | hq'
      · exact Or.inl a
      · exact Or.inr ⟨q, hq', a⟩

end Hyp.Query
