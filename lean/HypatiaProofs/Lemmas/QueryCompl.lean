import HypatiaProofs.Lemmas.QueryTyped
import HypatiaProofs.Lemmas.FieldQuery

set_option linter.unusedSectionVars false
set_option linter.unusedSimpArgs false
set_option linter.unusedVariables false
namespace Hyp.Query
open Hyp

/-- every document of the catalog has a value in every index -/
def HasValues : IndexT → Prop
  | .field t => ∀ d ∈ Field.Spec.known t, (Field.Spec.valueOf t d).isSome = true
  | .keyword t => ∀ d ∈ kwKnown t, ((AMap.get t d).bind id).isSome = true
  | .text t => ∀ d ∈ kwKnown t, ((AMap.get t d).bind id).isSome = true

/-- the hypothesis of the complement clause: "every document supplies a value to every index" -/
structure Total (cat : Catalog) : Prop where
  known_eq : ∀ ix ∈ cat, ∀ d, d ∈ known ix ↔ d ∈ docs cat
  values : ∀ ix ∈ cat, HasValues ix

theorem supportsStrict_negate (ix : IndexT) (c : Cmp) :
    supportsStrict ix c.negate = supportsStrict ix c := by
  cases ix <;> cases c <;> rfl

theorem strict_supports (ix : IndexT) (c : Cmp) (h : supportsStrict ix c = true) :
    supports ix c = true := by
  unfold supportsStrict at h; simp at h; exact h.1.1

mutual
theorem wellTypedW_mono (s1 s2 : IndexT → Cmp → Bool) (hs : ∀ ix c, s1 ix c = true → s2 ix c = true)
    (cat : Catalog) : ∀ q : Q, wellTypedW s1 cat q = true → wellTypedW s2 cat q = true
  | .cmp c i v => by
    simp only [wellTypedW]
    cases cat[i]? with
    | none => simp
    | some ix => simp only [Bool.and_eq_true]; exact fun h => ⟨hs ix c h.1, h.2⟩
  | .range _ _ _ _ _ _ => by simp only [wellTypedW]; exact id
  | .and qs => by
    simp only [wellTypedW, Bool.and_eq_true]
    exact fun h => ⟨h.1, wellTypedListW_mono s1 s2 hs cat qs h.2⟩
  | .or qs => by
    simp only [wellTypedW, Bool.and_eq_true]
    exact fun h => ⟨h.1, wellTypedListW_mono s1 s2 hs cat qs h.2⟩
  | .not q => by simp only [wellTypedW]; exact wellTypedW_mono s1 s2 hs cat q
theorem wellTypedListW_mono (s1 s2 : IndexT → Cmp → Bool) (hs : ∀ ix c, s1 ix c = true → s2 ix c = true)
    (cat : Catalog) : ∀ qs : List Q, wellTypedListW s1 cat qs = true → wellTypedListW s2 cat qs = true
  | [] => by simp [wellTypedListW]
  | q :: qs => by
    simp only [wellTypedListW, Bool.and_eq_true]
    exact fun h => ⟨wellTypedW_mono s1 s2 hs cat q h.1, wellTypedListW_mono s1 s2 hs cat qs h.2⟩
end

theorem strict_wellTyped {cat : Catalog} {q : Q} (h : wellTypedStrict cat q = true) :
    wellTyped cat q = true :=
  wellTypedW_mono supportsStrict supports strict_supports cat q h

theorem mem_of_getElem? {cat : Catalog} {i : Nat} {ix : IndexT} (h : cat[i]? = some ix) : ix ∈ cat :=
  List.mem_of_getElem? h

theorem field_valueOf_known {t : Field.Spec.Table Int} {d : Int} {v : Int}
    (h : Field.Spec.valueOf t d = some v) : d ∈ Field.Spec.known t := by
  unfold Field.Spec.known
  rw [AMap.mem_keys_iff]
  unfold Field.Spec.valueOf at h
  cases hg : AMap.get t d with
  | none => simp [hg] at h
  | some x => rfl

theorem mem_kwSat (t : AMap Int (Option (List Int))) (p : List Int → Bool) (d : Int) :
    d ∈ kwSat t p ↔ d ∈ kwKnown t ∧ ∃ ks, (AMap.get t d).bind id = some ks ∧ p ks = true := by
  unfold kwSat
  rw [List.mem_filter]
  constructor
  · rintro ⟨hk, h⟩
    refine ⟨hk, ?_⟩
    cases hv : (AMap.get t d).bind id with
    | none => simp [hv] at h
    | some ks => simp [hv] at h; exact ⟨ks, rfl, h⟩
  · rintro ⟨hk, ks, hv, hp⟩
    exact ⟨hk, by simp [hv, hp]⟩

theorem mem_negOf (ix : IndexT) (pos : IdSet) (d : Int) :
    d ∈ negOf ix pos ↔ d ∈ known ix ∧ d ∉ pos := by
  unfold negOf; simp [List.mem_filter]

end Hyp.Query

namespace Hyp.Query

def leafSet (ix : IndexT) (c : Cmp) (v : Val) : IdSet :=
  match leafIndex ix c v with
  | .ok r => r
  | .error _ => []

theorem val_cmp_eq {cat : Catalog} {i : Nat} {ix : IndexT} (hi : cat[i]? = some ix)
    (c : Cmp) (v : Val) (hc : c ≠ .notall) : val cat (.cmp c i v) = leafSet ix c v := by
  unfold val leafSet
  rw [applyQ_cmp]
  unfold applyCmp
  rw [getIndex_of_get hi]
  cases c <;> first | exact absurd rfl hc | rfl

theorem leafPos_subset_known (ix : IndexT) (c : Cmp) (v : Val) (r : IdSet)
    (h : leafPos ix c v = .ok r) (d : Int) (hd : d ∈ r) : d ∈ known ix := by
  cases ix <;> cases c <;> cases v <;> simp [leafPos] at h <;> subst h <;>
    first
    | (simp only [known, Field.Spec.eq, Field.Spec.gt, Field.Spec.ge, Field.Spec.lt, Field.Spec.le,
        Field.Spec.any, Field.Spec.sat, List.mem_filter] at hd ⊢; exact hd.1)
    | (simp only [known]; split at hd <;> first | (simp at hd) | exact ((mem_kwSat _ _ _).mp hd).1)
    | (simp only [known]; exact ((mem_kwSat _ _ _).mp hd).1)

/-- complement law at a single index: a strict comparator and its negation partition the
documents of the index (ordering comparators need every document to have a value) -/
theorem leaf_compl (ix : IndexT) (hval : HasValues ix) (c : Cmp) (v : Val)
    (hs : supportsStrict ix c = true) (hv : valOk c v = true) (d : Int) :
    d ∈ leafSet ix c.negate v ↔ d ∈ known ix ∧ d ∉ leafSet ix c v := by
  -- negative comparators are `known \ positive` by construction
  have negcase : ∀ (p n : Cmp) (r : IdSet), n.positive = some p → p.positive = none →
      leafPos ix p v = .ok r →
      (d ∈ leafSet ix n v ↔ d ∈ known ix ∧ d ∉ leafSet ix p v) ∧
      (d ∈ leafSet ix p v ↔ d ∈ known ix ∧ d ∉ leafSet ix n v) := by
    intro p n r hn hp hr
    have e1 : leafSet ix n v = negOf ix r := by simp [leafSet, leafIndex, hn, hr, Except.map]
    have e2 : leafSet ix p v = r := by simp [leafSet, leafIndex, hp, hr]
    rw [e1, e2, mem_negOf]
    refine ⟨Iff.rfl, ?_⟩
    constructor
    · intro hd; exact ⟨leafPos_subset_known ix p v r hr d hd, fun h => h.2 hd⟩
    · rintro ⟨hk, hn'⟩
      exact Classical.byContradiction fun hd => hn' ⟨hk, hd⟩
  cases ix with
  | field t =>
    cases c <;> cases v <;> simp [supportsStrict, supports, valOk] at hs hv
    all_goals first
      | exact (negcase .eq .noteq _ rfl rfl rfl).1
      | exact (negcase .eq .noteq _ rfl rfl rfl).2
      | exact (negcase .any .notany _ rfl rfl rfl).1
      | exact (negcase .any .notany _ rfl rfl rfl).2
      | skip
    all_goals
      simp only [Cmp.negate, leafSet, leafIndex, Cmp.positive, leafPos, known, Field.Spec.gt,
        Field.Spec.ge, Field.Spec.lt, Field.Spec.le, Field.mem_sat, decide_eq_true_eq]
      constructor
      · rintro ⟨w, hw, hle⟩
        refine ⟨field_valueOf_known hw, ?_⟩
        rintro ⟨w', hw', hlt⟩
        rw [hw] at hw'; cases hw'; omega
      · rintro ⟨hk, hn⟩
        have := hval d hk
        cases hw : Field.Spec.valueOf t d with
        | none => simp [hw] at this
        | some w =>
          refine ⟨w, rfl, ?_⟩
          apply Classical.byContradiction
          intro hlt
          exact hn ⟨w, hw, by omega⟩
  | keyword t =>
    cases c <;> cases v <;> simp [supportsStrict, supports, valOk] at hs hv
    all_goals first
      | exact (negcase .eq .noteq _ rfl rfl rfl).1
      | exact (negcase .eq .noteq _ rfl rfl rfl).2
      | exact (negcase .any .notany _ rfl rfl rfl).1
      | exact (negcase .any .notany _ rfl rfl rfl).2
  | text t =>
    cases c <;> cases v <;> simp [supportsStrict, supports, valOk] at hs hv
    all_goals first
      | exact (negcase .eq .noteq _ rfl rfl rfl).1
      | exact (negcase .eq .noteq _ rfl rfl rfl).2
      | exact (negcase .contains .notcontains _ rfl rfl rfl).1
      | exact (negcase .contains .notcontains _ rfl rfl rfl).2

end Hyp.Query

namespace Hyp.Query

theorem leafIndex_subset_known (ix : IndexT) (c : Cmp) (v : Val) (d : Int)
    (hd : d ∈ leafSet ix c v) : d ∈ known ix := by
  unfold leafSet leafIndex at hd
  cases hp : c.positive with
  | some p =>
    simp only [hp] at hd
    cases hr : leafPos ix p v with
    | error e => simp [hr, Except.map] at hd
    | ok r => simp only [hr, Except.map] at hd; exact ((mem_negOf ix r d).mp hd).1
  | none =>
    simp only [hp] at hd
    cases hr : leafPos ix c v with
    | error e => simp [hr] at hd
    | ok r => simp only [hr] at hd; exact leafPos_subset_known ix c v r hr d hd

theorem val_range_mem {cat : Catalog} {i : Nat} {t : Field.Spec.Table Int}
    (hi : cat[i]? = some (.field t)) (neg : Bool) (lo hi' : Int) (el eh : Bool) (d : Int) :
    d ∈ val cat (.range neg i lo hi' el eh) ↔
      if neg then d ∈ known (.field t) ∧ d ∉ Field.Spec.inRange t (some lo) (some hi') el eh
      else d ∈ Field.Spec.inRange t (some lo) (some hi') el eh := by
  unfold val
  rw [applyQ_range]
  unfold applyRange
  rw [getIndex_of_get hi]
  cases neg <;> simp [rangePos, bind, Except.bind, pure, Except.pure, mem_negOf]

theorem inRange_subset_known (t : Field.Spec.Table Int) (lo hi : Option Int) (el eh : Bool) (d : Int)
    (h : d ∈ Field.Spec.inRange t lo hi el eh) : d ∈ Field.Spec.known t := by
  unfold Field.Spec.inRange Field.Spec.sat at h
  exact (List.mem_filter.mp h).1

/-- answers of well-typed queries over a Total catalog only contain catalog documents -/
theorem val_subset_docs {cat : Catalog} (ht : Total cat) : ∀ (n : Nat) (q : Q), size q ≤ n →
    wellTypedStrict cat q = true → ∀ d, d ∈ val cat q → d ∈ docs cat := by
  intro n
  induction n with
  | zero => intro q h; have := size_pos q; omega
  | succ n ih =>
    intro q hs hw d hd
    cases q with
    | cmp c i v =>
      simp only [wellTypedStrict, wellTypedW] at hw
      cases hc : cat[i]? with
      | none => simp [hc] at hw
      | some ix =>
        simp only [hc, Bool.and_eq_true] at hw
        have hne : c ≠ .notall := by
          intro e; subst e; simp [supportsStrict] at hw
        rw [val_cmp_eq hc c v hne] at hd
        exact (ht.known_eq ix (mem_of_getElem? hc) d).mp (leafIndex_subset_known ix c v d hd)
    | range neg i lo hi el eh =>
      simp only [wellTypedStrict, wellTypedW] at hw
      cases hc : cat[i]? with
      | none => simp [hc] at hw
      | some ix =>
        cases ix with
        | field t =>
          rw [val_range_mem hc] at hd
          apply (ht.known_eq _ (mem_of_getElem? hc) d).mp
          cases neg
          · simp only [Bool.false_eq_true, if_false] at hd; exact inRange_subset_known t _ _ _ _ d hd
          · simp only [if_true] at hd; exact hd.1
        | keyword t => simp [hc] at hw
        | text t => simp [hc] at hw
    | not q =>
      rw [val_not] at hd
      simp only [size] at hs
      have := size_negate_le q
      refine ih (negate q) (by omega) ?_ d hd
      exact wellTyped_negate supportsStrict supportsStrict_negate cat _ q (Nat.le_refl _)
        (by simpa [wellTypedStrict, wellTypedW] using hw)
    | and qs =>
      obtain ⟨hne, hall⟩ := (wellTyped_and supportsStrict cat qs).mp hw
      have hd' := (val_and (strict_wellTyped hw) d).mp hd
      cases qs with
      | nil => exact absurd rfl hne
      | cons q0 rest =>
        simp only [size, sizeList] at hs
        exact ih q0 (by omega) (hall q0 (by simp)) d (hd' q0 (by simp))
    | or qs =>
      obtain ⟨hne, hall⟩ := (wellTyped_or supportsStrict cat qs).mp hw
      obtain ⟨q, hq, hdq⟩ := (val_or (strict_wellTyped hw) d).mp hd
      simp only [size] at hs
      have := size_le_sizeList hq
      exact ih q (by omega) (hall q hq) d hdq

/-- **Complement**: over a Total catalog, `negate` (hence `Not`) of a well-typed `All`-free query
returns exactly the catalog's documents the query does not return – at any depth. -/
theorem val_negate {cat : Catalog} (ht : Total cat) : ∀ (n : Nat) (q : Q), size q ≤ n →
    wellTypedStrict cat q = true → ∀ d, d ∈ val cat (negate q) ↔ d ∈ docs cat ∧ d ∉ val cat q := by
  intro n
  induction n with
  | zero => intro q h; have := size_pos q; omega
  | succ n ih =>
    intro q hs hw d
    cases q with
    | cmp c i v =>
      simp only [wellTypedStrict, wellTypedW] at hw
      cases hc : cat[i]? with
      | none => simp [hc] at hw
      | some ix =>
        simp only [hc, Bool.and_eq_true] at hw
        have hne : c ≠ .notall := by intro e; subst e; simp [supportsStrict] at hw
        have hne' : c.negate ≠ .notall := by
          intro e; cases c <;> simp [Cmp.negate] at e; simp [supportsStrict] at hw
        simp only [negate]
        rw [val_cmp_eq hc c.negate v hne', val_cmp_eq hc c v hne,
          leaf_compl ix (ht.values ix (mem_of_getElem? hc)) c v hw.1 hw.2 d,
          ht.known_eq ix (mem_of_getElem? hc) d]
    | range neg i lo hi el eh =>
      simp only [wellTypedStrict, wellTypedW] at hw
      cases hc : cat[i]? with
      | none => simp [hc] at hw
      | some ix =>
        cases ix with
        | field t =>
          simp only [negate]
          rw [val_range_mem hc, val_range_mem hc, ← ht.known_eq _ (mem_of_getElem? hc) d]
          cases neg
          · simp
          · simp only [Bool.not_true, Bool.false_eq_true, if_false, if_true]
            constructor
            · intro h; exact ⟨inRange_subset_known t _ _ _ _ d h, fun h' => h'.2 h⟩
            · rintro ⟨hk, hn⟩
              exact Classical.byContradiction fun h => hn ⟨hk, h⟩
        | keyword t => simp [hc] at hw
        | text t => simp [hc] at hw
    | not q =>
      simp only [negate]
      rw [val_not]
      simp only [size] at hs
      have hwq : wellTypedStrict cat q = true := by simpa [wellTypedStrict, wellTypedW] using hw
      rw [ih q (by omega) hwq d]
      constructor
      · intro h; exact ⟨val_subset_docs ht _ q (Nat.le_refl _) hwq d h, fun h' => h'.2 h⟩
      · rintro ⟨hk, hn⟩
        exact Classical.byContradiction fun h => hn ⟨hk, h⟩
    | and qs =>
      obtain ⟨hne, hall⟩ := (wellTyped_and supportsStrict cat qs).mp hw
      simp only [size] at hs
      simp only [negate]
      have hne' : negateList qs ≠ [] := by rw [negateList_eq_map]; simpa using hne
      have hall' : ∀ x ∈ negateList qs, wellTyped cat x = true := by
        intro x hx
        obtain ⟨p, hp, rfl⟩ := mem_negateList.mp hx
        exact strict_wellTyped (wellTyped_negate supportsStrict supportsStrict_negate cat _ p
          (Nat.le_refl _) (hall p hp))
      rw [val_mkOr hne' hall', val_and (strict_wellTyped hw)]
      constructor
      · rintro ⟨x, hx, hd⟩
        obtain ⟨p, hp, rfl⟩ := mem_negateList.mp hx
        have := size_le_sizeList hp
        have := (ih p (by omega) (hall p hp) d).mp hd
        exact ⟨this.1, fun h => this.2 (h p hp)⟩
      · rintro ⟨hk, hn⟩
        have : ∃ p ∈ qs, d ∉ val cat p := by
          apply Classical.byContradiction
          intro hc
          apply hn
          intro p hp
          exact Classical.byContradiction fun h => hc ⟨p, hp, h⟩
        obtain ⟨p, hp, hnp⟩ := this
        have := size_le_sizeList hp
        exact ⟨negate p, mem_negateList.mpr ⟨p, hp, rfl⟩, (ih p (by omega) (hall p hp) d).mpr ⟨hk, hnp⟩⟩
    | or qs =>
      obtain ⟨hne, hall⟩ := (wellTyped_or supportsStrict cat qs).mp hw
      simp only [size] at hs
      simp only [negate]
      have hne' : negateList qs ≠ [] := by rw [negateList_eq_map]; simpa using hne
      have hall' : ∀ x ∈ negateList qs, wellTyped cat x = true := by
        intro x hx
        obtain ⟨p, hp, rfl⟩ := mem_negateList.mp hx
        exact strict_wellTyped (wellTyped_negate supportsStrict supportsStrict_negate cat _ p
          (Nat.le_refl _) (hall p hp))
      rw [val_mkAnd hne' hall', val_or (strict_wellTyped hw)]
      constructor
      · intro h
        cases qs with
        | nil => exact absurd rfl hne
        | cons q0 rest =>
          have h0 := h (negate q0) (mem_negateList.mpr ⟨q0, by simp, rfl⟩)
          simp only [sizeList] at hs
          have hk := ((ih q0 (by omega) (hall q0 (by simp)) d).mp h0).1
          refine ⟨hk, ?_⟩
          rintro ⟨p, hp, hd⟩
          have := size_le_sizeList hp
          simp only [sizeList] at this
          have := (ih p (by omega) (hall p hp) d).mp (h (negate p) (mem_negateList.mpr ⟨p, hp, rfl⟩))
          exact this.2 hd
      · rintro ⟨hk, hn⟩ x hx
        obtain ⟨p, hp, rfl⟩ := mem_negateList.mp hx
        have := size_le_sizeList hp
        exact (ih p (by omega) (hall p hp) d).mpr ⟨hk, fun h => hn ⟨p, hp, h⟩⟩

end Hyp.Query
