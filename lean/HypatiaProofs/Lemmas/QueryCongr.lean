import HypatiaProofs.Lemmas.Query

/-!
# `_apply` is a congruence in the leaf answers

The short-cuts of `Query.intersect` / `Query.union` and the early exit of `And._apply` test emptiness
only, so two leaf oracles that agree up to member-wise equality of the id sets (and raise the same
errors) give member-wise equal answers (and the same errors) on every tree.
-/
set_option linter.unusedSectionVars false
set_option linter.unusedSimpArgs false
set_option linter.unusedVariables false
namespace Hyp.Query
open Hyp

/-- same outcome: both succeed with the same members, or both raise the same error -/
def ResEq : Except Err IdSet → Except Err IdSet → Prop
  | .ok a, .ok b => a ≈ˢ b
  | .error e, .error e' => e = e'
  | _, _ => False

theorem ResEq.refl (r : Except Err IdSet) : ResEq r r := by
  cases r with
  | ok a => exact SetEq.refl a
  | error e => rfl

theorem ResEq.symm {r s : Except Err IdSet} (h : ResEq r s) : ResEq s r := by
  cases r <;> cases s <;> simp_all [ResEq]
  exact SetEq.symm h

theorem ResEq.trans {r s t : Except Err IdSet} (h : ResEq r s) (h' : ResEq s t) : ResEq r t := by
  cases r <;> cases s <;> cases t <;> simp_all [ResEq]
  exact SetEq.trans h h'

theorem ResEq.ok_iff {r s : Except Err IdSet} (h : ResEq r s) :
    (∀ a, r = .ok a → ∃ b, s = .ok b ∧ a ≈ˢ b) ∧ (∀ e, r = .error e ↔ s = .error e) := by
  cases r <;> cases s <;> simp_all [ResEq]

structure LeavesEq (L1 L2 : Leaves) : Prop where
  cmp : ∀ c i v, ResEq (L1.cmp c i v) (L2.cmp c i v)
  range : ∀ neg i lo hi el eh, ResEq (L1.range neg i lo hi el eh) (L2.range neg i lo hi el eh)

theorem SetEq.length_zero {a b : IdSet} (h : a ≈ˢ b) : a.length = 0 ↔ b.length = 0 := by
  constructor
  · intro ha
    have : a = [] := List.eq_nil_of_length_eq_zero ha
    subst this
    cases b with
    | nil => rfl
    | cons x xs => exact absurd ((h x).mpr (by simp)) (by simp)
  · intro hb
    have : b = [] := List.eq_nil_of_length_eq_zero hb
    subst this
    cases a with
    | nil => rfl
    | cons x xs => exact absurd ((h x).mp (by simp)) (by simp)

theorem foldlM_resEq {f1 f2 : IdSet → Q → Except Err IdSet} (l : List Q)
    (h : ∀ a1 a2, a1 ≈ˢ a2 → ∀ x ∈ l, ResEq (f1 a1 x) (f2 a2 x)) :
    ∀ a1 a2, a1 ≈ˢ a2 → ResEq (l.foldlM f1 a1) (l.foldlM f2 a2) := by
  induction l with
  | nil => intro a1 a2 ha; exact ha
  | cons x xs ih =>
    intro a1 a2 ha
    simp only [List.foldlM_cons]
    have hx := h a1 a2 ha x (by simp)
    cases e1 : f1 a1 x with
    | error e =>
      cases e2 : f2 a2 x with
      | error e' => rw [e1, e2] at hx; exact hx
      | ok b => rw [e1, e2] at hx; exact hx.elim
    | ok a =>
      cases e2 : f2 a2 x with
      | error e' => rw [e1, e2] at hx; exact hx.elim
      | ok b =>
        rw [e1, e2] at hx
        exact ih (fun a1 a2 ha y hy => h a1 a2 ha y (List.mem_cons_of_mem _ hy)) a b hx

theorem applyFuelL_congr {L1 L2 : Leaves} (h : LeavesEq L1 L2) :
    ∀ (n : Nat) (q : Q), ResEq (applyFuelL L1 n q) (applyFuelL L2 n q) := by
  intro n
  induction n with
  | zero => intro q; exact rfl
  | succ n ih =>
    intro q
    cases q with
    | cmp c i v => exact h.cmp c i v
    | range neg i lo hi el eh => exact h.range neg i lo hi el eh
    | not q => exact ih (negate q)
    | and qs =>
      cases qs with
      | nil => exact rfl
      | cons q0 rest =>
        simp only [applyFuelL]
        have h0 := ih q0
        cases e1 : applyFuelL L1 n q0 with
        | error e =>
          cases e2 : applyFuelL L2 n q0 with
          | error e' => rw [e1, e2] at h0; exact h0
          | ok b => rw [e1, e2] at h0; exact h0.elim
        | ok a =>
          cases e2 : applyFuelL L2 n q0 with
          | error e' => rw [e1, e2] at h0; exact h0.elim
          | ok b =>
            rw [e1, e2] at h0
            simp only [bind, Except.bind]
            apply foldlM_resEq rest _ a b h0
            intro a1 a2 ha x _
            by_cases hz : a1.length = 0
            · have hz2 := (SetEq.length_zero ha).mp hz
              simp only [hz, hz2, if_true]
              exact SetEq.refl []
            · have hz2 : ¬ a2.length = 0 := fun e => hz ((SetEq.length_zero ha).mpr e)
              simp only [hz, hz2, if_false]
              have hx := ih x
              cases f1 : applyFuelL L1 n x with
              | error e =>
                cases f2 : applyFuelL L2 n x with
                | error e' => rw [f1, f2] at hx; exact hx
                | ok b => rw [f1, f2] at hx; exact hx.elim
              | ok r1 =>
                cases f2 : applyFuelL L2 n x with
                | error e' => rw [f1, f2] at hx; exact hx.elim
                | ok r2 =>
                  rw [f1, f2] at hx
                  show intersect a1 r1 ≈ˢ intersect a2 r2
                  intro d
                  rw [mem_intersect, mem_intersect, ha d, hx d]
    | or qs =>
      cases qs with
      | nil => exact rfl
      | cons q0 rest =>
        simp only [applyFuelL]
        have h0 := ih q0
        cases e1 : applyFuelL L1 n q0 with
        | error e =>
          cases e2 : applyFuelL L2 n q0 with
          | error e' => rw [e1, e2] at h0; exact h0
          | ok b => rw [e1, e2] at h0; exact h0.elim
        | ok a =>
          cases e2 : applyFuelL L2 n q0 with
          | error e' => rw [e1, e2] at h0; exact h0.elim
          | ok b =>
            rw [e1, e2] at h0
            simp only [bind, Except.bind]
            apply foldlM_resEq rest _ a b h0
            intro a1 a2 ha x _
            have hx := ih x
            cases f1 : applyFuelL L1 n x with
            | error e =>
              cases f2 : applyFuelL L2 n x with
              | error e' => rw [f1, f2] at hx; exact hx
              | ok b => rw [f1, f2] at hx; exact hx.elim
            | ok r1 =>
              cases f2 : applyFuelL L2 n x with
              | error e' => rw [f1, f2] at hx; exact hx.elim
              | ok r2 =>
                rw [f1, f2] at hx
                show union a1 r1 ≈ˢ union a2 r2
                intro d
                rw [mem_union, mem_union, ha d, hx d]

/-- **Congruence**: member-wise equal leaf answers give member-wise equal answers on every tree -/
theorem applyQL_congr {L1 L2 : Leaves} (h : LeavesEq L1 L2) (q : Q) :
    ResEq (applyQL L1 q) (applyQL L2 q) := applyFuelL_congr h (size q + 1) q

end Hyp.Query
