import HypatiaProofs.Lemmas.QueryCongr
import HypatiaProofs.Lemmas.QueryCompl
import HypatiaProofs.Lemmas.FieldQuery
import HypatiaProofs.Lemmas.KeywordQuery
import HypatiaProofs.Lemmas.FacetCounts
import HypatiaProofs.Lemmas.TextExec
import HypatiaProofs.Lemmas.TextStep
import HypatiaProofs.Lemmas.QueryLeaves
import HypatiaModel.QueryModel

/-!
# Leaves of a query answered by the index models = leaves answered by the specification

For every history of a field index (C01), of a keyword index (C02), of a facet index (C13) and of a text
index (C03, under its hypotheses `histOK`) the model's `applyX` functions return the members the
specification-level leaf of `Query.lean` returns, and raise the same errors; with `applyQL_congr` (and
`applyQL_ext` for the text leaves, which must name a query string of the dictionary) this lifts to every
query tree (`applyQM_refines`).
-/
set_option linter.unusedSectionVars false
set_option linter.unusedSimpArgs false
set_option linter.unusedVariables false
namespace Hyp.Query
open Hyp

/-! ### the keyword table as a query-level table -/

theorem get_map_pair {β : Type} (l : List Int) (f : Int → β) (d : Int) :
    AMap.get (l.map (fun x => (x, f x))) d = if d ∈ l then some (f d) else none := by
  induction l with
  | nil => simp
  | cons a t ih =>
    simp only [List.map_cons, AMap.get_cons, List.mem_cons]
    by_cases e : a = d
    · subst e; simp
    · have e' : ¬ d = a := fun h => e h.symm
      simp only [e, if_false, ih, e', false_or]

theorem kwKnown_kwTable (T : Keyword.Spec.Table Int) : kwKnown (kwTable T) = Keyword.Spec.known T := by
  simp [kwKnown, kwTable, AMap.keys, List.map_map, Function.comp_def]

theorem kwOf_of_bind {T : Keyword.Spec.Table Int} {d : Int} {ks : List Int}
    (h : (AMap.get T d).bind id = some ks) : Keyword.Spec.kwOf T d = ks := by
  unfold Keyword.Spec.kwOf
  cases hg : AMap.get T d with
  | none => simp [hg] at h
  | some o =>
    cases o with
    | none => simp [hg] at h
    | some l => simp [hg] at h; simp [h]

theorem kwOf_of_bind_none {T : Keyword.Spec.Table Int} {d : Int}
    (h : (AMap.get T d).bind id = none) : Keyword.Spec.kwOf T d = [] := by
  unfold Keyword.Spec.kwOf
  cases hg : AMap.get T d with
  | none => rfl
  | some o =>
    cases o with
    | none => rfl
    | some l => simp [hg] at h

theorem mem_kwSat_kwTable (T : Keyword.Spec.Table Int) (p : List Int → Bool) (d : Int) :
    d ∈ kwSat (kwTable T) p ↔
      d ∈ Keyword.Spec.known T ∧ ∃ ks, (AMap.get T d).bind id = some ks ∧ p ks = true := by
  rw [mem_kwSat, kwKnown_kwTable]
  constructor
  · rintro ⟨hk, ks, hb, hp⟩
    refine ⟨hk, ks, ?_, hp⟩
    unfold kwTable at hb
    rw [get_map_pair] at hb
    simpa [hk] using hb
  · rintro ⟨hk, ks, hb, hp⟩
    refine ⟨hk, ks, ?_, hp⟩
    unfold kwTable
    rw [get_map_pair]
    simpa [hk] using hb

/-- a membership-style predicate on the keyword list, read off the specification table -/
theorem mem_kwSat_kwTable_kwOf (T : Keyword.Spec.Table Int) (p : List Int → Bool) (hp : p [] = false)
    (d : Int) : d ∈ kwSat (kwTable T) p ↔ d ∈ Keyword.Spec.known T ∧ p (Keyword.Spec.kwOf T d) = true := by
  rw [mem_kwSat_kwTable]
  constructor
  · rintro ⟨hk, ks, hb, hpk⟩
    exact ⟨hk, by rw [kwOf_of_bind hb]; exact hpk⟩
  · rintro ⟨hk, hpk⟩
    cases hb : (AMap.get T d).bind id with
    | none => rw [kwOf_of_bind_none hb, hp] at hpk; cases hpk
    | some ks => exact ⟨hk, ks, rfl, by rw [← kwOf_of_bind hb]; exact hpk⟩

/-! ### positive leaves -/

theorem resEq_ok {a b : IdSet} (h : ∀ d, d ∈ a ↔ d ∈ b) : ResEq (.ok a) (.ok b) := h

theorem field_leafPos_refines (h : List (Field.Op Int)) (c : Cmp) (v : Val) :
    ResEq (leafPosM (.field (Field.run h)) c v) (leafPos (.field (Field.Spec.table h)) c v) := by
  have hi := Field.run_inv h
  have hrange : ∀ (lo hi' : Option Int) (el eh : Bool) (p : Int → Bool),
      (∀ w, (Field.inLo lo el w && Field.inHi hi' eh w) = p w) → ∀ d,
      d ∈ Field.applyInRange (Field.run h) lo hi' el eh ↔ d ∈ Field.Spec.sat (Field.Spec.table h) p := by
    intro lo hi' el eh p hp d
    rw [Field.mem_applyInRange hi]
    unfold Field.Spec.inRange
    rw [Field.mem_sat, Field.mem_sat]
    simp only [hp]
  cases c <;> cases v <;> first
    | exact rfl
    | skip
  · -- eq
    apply resEq_ok; intro d
    show d ∈ Field.searchOr _ [_] ↔ d ∈ Field.Spec.eq _ _
    rw [Field.mem_searchOr hi intOrdLaws]
    unfold Field.Spec.any Field.Spec.eq
    rw [Field.mem_sat, Field.mem_sat]
    simp
  · exact resEq_ok (hrange _ _ _ _ _ (by intro w; simp [Field.inLo, Field.inHi]))
  · exact resEq_ok (hrange _ _ _ _ _ (by intro w; simp [Field.inLo, Field.inHi]))
  · exact resEq_ok (hrange _ _ _ _ _ (by intro w; simp [Field.inLo, Field.inHi]))
  · exact resEq_ok (hrange _ _ _ _ _ (by intro w; simp [Field.inLo, Field.inHi]))
  · exact resEq_ok (Field.mem_searchOr hi intOrdLaws _)
  · exact resEq_ok (Field.mem_searchOr hi intOrdLaws _)

theorem keyword_leafPos_refines (h : List (Keyword.Op Int)) (c : Cmp) (v : Val) :
    ResEq (leafPosM (.keyword (Keyword.run h)) c v)
      (leafPos (.keyword (kwTable (Keyword.Spec.table h))) c v) := by
  have hv := Keyword.run_viewOK h
  cases c <;> first
    | (cases v <;> exact rfl)
    | skip
  · -- eq
    cases v with
    | many xs => exact rfl
    | one x =>
      apply resEq_ok; intro d
      show d ∈ Keyword.applyEq _ x ↔ d ∈ kwSat _ _
      rw [Keyword.mem_applyEq hv, mem_kwSat_kwTable_kwOf _ _ (by simp)]
      simp only [decide_eq_true_eq]
      exact ⟨fun hk => ⟨Keyword.known_of_kw hk, hk⟩, fun hk => hk.2⟩
  · -- any
    apply resEq_ok; intro d
    show d ∈ Keyword.applyAny _ (valList v) ↔ d ∈ kwSat _ _
    rw [Keyword.mem_applyAny hv, mem_kwSat_kwTable_kwOf _ _ (by simp)]
    simp only [List.any_eq_true, decide_eq_true_eq]
    constructor
    · rintro ⟨k, hk, hd⟩; exact ⟨Keyword.known_of_kw hd, k, hk, hd⟩
    · exact fun hk => hk.2
  · -- all
    apply resEq_ok; intro d
    show d ∈ Keyword.applyAll _ (valList v) ↔
      d ∈ (if (valList v).isEmpty then [] else kwSat _ _)
    rw [Keyword.mem_applyAll hv]
    by_cases he : valList v = []
    · simp [he]
    · have he' : (valList v).isEmpty = false := by cases hvl : valList v <;> simp_all
      simp only [he', Bool.false_eq_true, if_false]
      rw [mem_kwSat_kwTable_kwOf _ _ (by cases hvl : valList v <;> simp_all)]
      simp only [List.all_eq_true, decide_eq_true_eq]
      constructor
      · rintro ⟨_, hall⟩
        cases hvl : valList v with
        | nil => exact absurd hvl he
        | cons a rest =>
          rw [hvl] at hall
          exact ⟨Keyword.known_of_kw (hall a (by simp)), hall⟩
      · exact fun hk => ⟨he, hk.2⟩

/-! ### facet: the dictionary of names, rows of numbers -/

section rows
variable {K : Type} [DecidableEq K]

theorem mem_numsOf (names ks : List K) (x : Int) :
    x ∈ numsOf names ks ↔ 0 ≤ x ∧ ∃ k, names[x.toNat]? = some k ∧ k ∈ ks := by
  unfold numsOf
  simp only [List.mem_map, List.mem_filter, List.mem_range]
  constructor
  · rintro ⟨i, ⟨hi, hk⟩, rfl⟩
    refine ⟨Int.natCast_nonneg i, ?_⟩
    simp only [Int.ofNat_eq_natCast, Int.toNat_natCast]
    cases hn : names[i]? with
    | none => simp [hn] at hk
    | some k => simp [hn] at hk; exact ⟨k, rfl, hk⟩
  · rintro ⟨h0, k, hk, hks⟩
    refine ⟨x.toNat, ⟨?_, by simp [hk, hks]⟩, by simp [Int.toNat_of_nonneg h0]⟩
    exact (List.getElem?_eq_some_iff.mp hk).1

/-- a dictionary entry occurs in `ks` exactly when its number is in the row (the default names nothing) -/
theorem nth_mem_iff (names ks : List K) (dflt : K) (hd : dflt ∉ ks) (x : Int) :
    nth names dflt x ∈ ks ↔ x ∈ numsOf names ks := by
  rw [mem_numsOf]
  unfold nth
  by_cases h0 : x < 0
  · simp only [h0, if_true]
    constructor
    · intro h; exact absurd h hd
    · rintro ⟨h, _⟩; omega
  · simp only [h0, if_false]
    have h0' : 0 ≤ x := by omega
    cases hn : names[x.toNat]? with
    | none => simp [hd]
    | some k => simp [h0']

theorem numsOf_nil (names : List K) : numsOf names ([] : List K) = [] := by
  unfold numsOf
  rw [List.map_eq_nil_iff, List.filter_eq_nil_iff]
  intro i _
  cases names[i]? <;> simp

/-- a keyword-style specification table with its rows translated by `f` -/
def rowTable (f : List K → List Int) (T : Keyword.Spec.Table K) : AMap Int (Option (List Int)) :=
  (Keyword.Spec.known T).map (fun d => (d, ((AMap.get T d).bind id).map f))

theorem kwKnown_rowTable (f : List K → List Int) (T : Keyword.Spec.Table K) :
    kwKnown (rowTable f T) = Keyword.Spec.known T := by
  simp [kwKnown, rowTable, AMap.keys, List.map_map, Function.comp_def]

theorem kwOf_of_bind' {T : Keyword.Spec.Table K} {d : Int} {ks : List K}
    (h : (AMap.get T d).bind id = some ks) : Keyword.Spec.kwOf T d = ks := by
  unfold Keyword.Spec.kwOf
  cases hg : AMap.get T d with
  | none => simp [hg] at h
  | some o =>
    cases o with
    | none => simp [hg] at h
    | some l => simp [hg] at h; simp [h]

theorem kwOf_of_bind_none' {T : Keyword.Spec.Table K} {d : Int}
    (h : (AMap.get T d).bind id = none) : Keyword.Spec.kwOf T d = [] := by
  unfold Keyword.Spec.kwOf
  cases hg : AMap.get T d with
  | none => rfl
  | some o =>
    cases o with
    | none => rfl
    | some l => simp [hg] at h

theorem mem_kwSat_rowTable (f : List K → List Int) (T : Keyword.Spec.Table K) (p : List Int → Bool)
    (hp : p (f []) = false) (d : Int) :
    d ∈ kwSat (rowTable f T) p ↔ d ∈ Keyword.Spec.known T ∧ p (f (Keyword.Spec.kwOf T d)) = true := by
  rw [mem_kwSat, kwKnown_rowTable]
  unfold rowTable
  rw [get_map_pair]
  constructor
  · rintro ⟨hk, ks, hb, hpk⟩
    refine ⟨hk, ?_⟩
    simp only [hk, if_true, Option.bind_some, id] at hb
    cases hb' : (AMap.get T d).bind id with
    | none => simp [hb'] at hb
    | some l =>
      simp [hb'] at hb
      rw [kwOf_of_bind' hb', hb]; exact hpk
  · rintro ⟨hk, hpk⟩
    refine ⟨hk, ?_⟩
    simp only [hk, if_true, Option.bind_some, id]
    cases hb' : (AMap.get T d).bind id with
    | none => rw [kwOf_of_bind_none' hb', hp] at hpk; cases hpk
    | some l => exact ⟨f l, rfl, by rw [← kwOf_of_bind' hb']; exact hpk⟩

end rows

theorem facetTable_eq (names : List Facet.Facet) (T : Keyword.Spec.Table Facet.Facet) :
    facetTable names T = rowTable (numsOf names) T := rfl

theorem nil_not_listed (F : List Facet.Facet) (t : Facet.Spec.Table) (d : Int) :
    ([] : Facet.Facet) ∉ Keyword.Spec.kwOf (Facet.Spec.kwTable F t) d := by
  rw [Facet.kwOf_kwTable, Facet.mem_listed]
  rintro ⟨_, p, _, hp⟩
  simp [Facet.Spec.isPrefix] at hp

theorem facet_leafPos_refines (names F0 : List Facet.Facet) (h : List Facet.Op) (c : Cmp) (v : Val) :
    ResEq (leafPosM (.facet names (Facet.run F0 h)) c v)
      (leafPos (.keyword (facetTable names (Facet.Spec.kwTable (Keyword.dedup F0) (Facet.Spec.table h)))) c v) := by
  have hv := Facet.facet_run_viewOK F0 h
  have hnil := nil_not_listed (Keyword.dedup F0) (Facet.Spec.table h)
  rw [facetTable_eq]
  cases c <;> first
    | (cases v <;> exact rfl)
    | skip
  · -- eq
    cases v with
    | many xs => exact rfl
    | one x =>
      apply resEq_ok; intro d
      show d ∈ Keyword.applyEq _ (nth names [] x) ↔ d ∈ kwSat _ _
      rw [Keyword.mem_applyEq hv, mem_kwSat_rowTable _ _ _ (by simp [numsOf_nil])]
      simp only [decide_eq_true_eq]
      rw [nth_mem_iff _ _ _ (hnil d)]
      constructor
      · intro hk
        refine ⟨?_, hk⟩
        obtain ⟨_, k, _, hkk⟩ := (mem_numsOf _ _ _).mp hk
        exact Keyword.known_of_kw hkk
      · exact fun hk => hk.2
  · -- any
    apply resEq_ok; intro d
    show d ∈ Keyword.applyAny _ ((valList v).map (nth names [])) ↔ d ∈ kwSat _ _
    rw [Keyword.mem_applyAny hv, mem_kwSat_rowTable _ _ _ (by simp [numsOf_nil])]
    simp only [List.any_eq_true, decide_eq_true_eq, List.mem_map]
    constructor
    · rintro ⟨k, ⟨x, hx, rfl⟩, hd⟩
      exact ⟨Keyword.known_of_kw hd, x, hx, (nth_mem_iff _ _ _ (hnil d) x).mp hd⟩
    · rintro ⟨_, x, hx, hd⟩
      exact ⟨_, ⟨x, hx, rfl⟩, (nth_mem_iff _ _ _ (hnil d) x).mpr hd⟩
  · -- all
    apply resEq_ok; intro d
    show d ∈ Keyword.applyAll _ ((valList v).map (nth names [])) ↔
      d ∈ (if (valList v).isEmpty then [] else kwSat _ _)
    rw [Keyword.mem_applyAll hv]
    by_cases he : valList v = []
    · simp [he]
    · have he' : (valList v).isEmpty = false := by cases hvl : valList v <;> simp_all
      simp only [he', Bool.false_eq_true, if_false]
      rw [mem_kwSat_rowTable _ _ _ (by cases hvl : valList v <;> simp_all [numsOf_nil])]
      simp only [List.all_eq_true, decide_eq_true_eq, List.mem_map, ne_eq, List.map_eq_nil_iff]
      constructor
      · rintro ⟨_, hall⟩
        have hall' : ∀ x ∈ valList v, x ∈ numsOf names
            (Keyword.Spec.kwOf (Facet.Spec.kwTable (Keyword.dedup F0) (Facet.Spec.table h)) d) :=
          fun x hx => (nth_mem_iff _ _ _ (hnil d) x).mp (hall _ ⟨x, hx, rfl⟩)
        cases hvl : valList v with
        | nil => exact absurd hvl he
        | cons a rest =>
          rw [hvl] at hall'
          obtain ⟨_, k, _, hkk⟩ := (mem_numsOf _ _ _).mp (hall' a (by simp))
          exact ⟨Keyword.known_of_kw hkk, hall'⟩
      · rintro ⟨_, hall⟩
        refine ⟨he, ?_⟩
        rintro k ⟨x, hx, rfl⟩
        exact (nth_mem_iff _ _ _ (hnil d) x).mpr (hall x hx)

/-! ### text: the dictionary of query strings, rows of satisfied queries (C03) -/

theorem mem_satNums (cfg : Lex.Cfg) (sp : Nat → Bool) (qs : List QP.Str) (toks : List QP.Str) (x : Int) :
    x ∈ satNums cfg sp qs toks ↔ 0 ≤ x ∧ ∃ q t ig, qs[x.toNat]? = some q ∧
      QP.parseQuery (Text.lexOf cfg) sp q = .ok (t, ig) ∧ Text.Spec.sat t toks = true := by
  unfold satNums
  simp only [List.mem_map, List.mem_filter, List.mem_range]
  constructor
  · rintro ⟨i, ⟨hi, hk⟩, rfl⟩
    refine ⟨Int.natCast_nonneg i, ?_⟩
    simp only [Int.ofNat_eq_natCast, Int.toNat_natCast]
    cases hn : qs[i]? with
    | none => simp [hn] at hk
    | some q =>
      simp only [hn] at hk
      cases hp : QP.parseQuery (Text.lexOf cfg) sp q with
      | error e => simp [hp] at hk
      | ok r => obtain ⟨t, ig⟩ := r; simp only [hp] at hk; exact ⟨q, t, ig, rfl, hp, hk⟩
  · rintro ⟨h0, q, t, ig, hk, hp, hs⟩
    refine ⟨x.toNat, ⟨(List.getElem?_eq_some_iff.mp hk).1, by simp [hk, hp, hs]⟩,
      by simp [Int.toNat_of_nonneg h0]⟩

theorem kwKnown_textTable (cfg : Lex.Cfg) (sp : Nat → Bool) (qs : List QP.Str) (T : Text.Spec.Table) :
    kwKnown (textTable cfg sp qs T) = AMap.keys T := by
  simp [kwKnown, textTable, AMap.keys, List.map_map, Function.comp_def]

theorem queryOK_spec {cfg : Lex.Cfg} {sp : Nat → Bool} {q : QP.Str} (h : queryOK cfg sp q = true) :
    ∃ t ig, QP.parseQuery (Text.lexOf cfg) sp q = .ok (t, ig) ∧ Text.Spec.admissible cfg t = true := by
  unfold queryOK at h
  cases hp : QP.parseQuery (Text.lexOf cfg) sp q with
  | error e => simp [hp] at h
  | ok r => obtain ⟨t, ig⟩ := r; simp only [hp] at h; exact ⟨t, ig, rfl, h⟩

theorem histOK_text {cfg : Lex.Cfg} {okapi : Bool} {sp : Nat → Bool} {qs : List QP.Str} {h : List Text.Op}
    (hok : histOK (.text cfg okapi sp qs h) = true) :
    Text.Small (Text.run cfg okapi h).base.lex ∧ ∀ q ∈ qs, queryOK cfg sp q = true := by
  simp only [histOK, Bool.and_eq_true, decide_eq_true_eq, List.all_eq_true] at hok
  exact ⟨hok.1, hok.2⟩

/-- `Contains x` / `Eq x` for a listed query string: C03's `apply_spec` against the row table -/
theorem textPos_refines (cfg : Lex.Cfg) (okapi : Bool) (sp : Nat → Bool) (qs : List QP.Str) (h : List Text.Op)
    (hok : histOK (.text cfg okapi sp qs h) = true) (x : Int) (h0 : 0 ≤ x) (hx : x.toNat < qs.length) :
    ResEq (textPos cfg sp qs (Text.run cfg okapi h) x)
      (.ok (kwSat (textTable cfg sp qs (Text.Spec.table cfg h)) (fun ks => decide (x ∈ ks)))) := by
  obtain ⟨hs, hq⟩ := histOK_text hok
  have hi := Text.inv_run cfg okapi h hs
  have hnth : nth qs [] x = qs[x.toNat] := by
    unfold nth; simp [Int.not_lt.mpr h0, List.getElem?_eq_getElem hx]
  have hget : qs[x.toNat]? = some qs[x.toNat] := List.getElem?_eq_getElem hx
  obtain ⟨t, ig, hp, hadm⟩ := queryOK_spec (hq _ (List.getElem_mem hx))
  obtain ⟨r, h1, h2⟩ := Text.apply_spec cfg sp hi hs _ t ig hp hadm
  unfold textPos Text.applyContains
  rw [hnth, h1]
  apply resEq_ok; intro d
  rw [h2 d, mem_kwSat, kwKnown_textTable]
  unfold textTable
  rw [get_map_pair, Text.satDoc_iff]
  constructor
  · rintro ⟨toks, ht, hsat⟩
    have hk : d ∈ AMap.keys (Text.Spec.table cfg h) := by
      rw [AMap.mem_keys_iff]
      unfold Text.Spec.tokensOf at ht
      cases hg : AMap.get (Text.Spec.table cfg h) d with
      | none => rw [hg] at ht; cases ht
      | some v => rfl
    refine ⟨hk, satNums cfg sp qs toks, by simp [hk, ht], ?_⟩
    simp only [decide_eq_true_eq]
    exact (mem_satNums cfg sp qs toks x).mpr ⟨h0, _, t, ig, hget, hp, hsat⟩
  · rintro ⟨hk, ks, hb, hxk⟩
    simp only [hk, if_true, Option.bind_some, id] at hb
    cases ht : Text.Spec.tokensOf (Text.Spec.table cfg h) d with
    | none => simp [ht] at hb
    | some toks =>
      simp [ht] at hb
      subst hb
      simp only [decide_eq_true_eq] at hxk
      obtain ⟨_, q', t', ig', hq', hp', hsat⟩ := (mem_satNums cfg sp qs toks x).mp hxk
      rw [hget] at hq'
      cases hq'
      rw [hp] at hp'
      cases hp'
      exact ⟨toks, rfl, hsat⟩

theorem text_leafPos_refines (cfg : Lex.Cfg) (okapi : Bool) (sp : Nat → Bool) (qs : List QP.Str)
    (h : List Text.Op) (hok : histOK (.text cfg okapi sp qs h) = true) (c : Cmp) (v : Val)
    (hl : listedAt (.text cfg okapi sp qs h) c v = true) :
    ResEq (leafPosM (.text cfg sp qs (Text.run cfg okapi h)) c v)
      (leafPos (.text (textTable cfg sp qs (Text.Spec.table cfg h))) c v) := by
  cases c <;> cases v <;> first
    | exact rfl
    | skip
  · next x =>
    simp [listedAt, textCmp] at hl
    exact textPos_refines cfg okapi sp qs h hok x hl.1 hl.2
  · next x =>
    simp [listedAt, textCmp] at hl
    exact textPos_refines cfg okapi sp qs h hok x hl.1 hl.2

/-! ### all four kinds -/

theorem leafPos_refines (h : IndexH) (hok : histOK h = true) (c : Cmp) (v : Val)
    (hl : listedAt h c v = true) :
    ResEq (leafPosM (modelIndex h) c v) (leafPos (specIndex h) c v) := by
  cases h with
  | field h => exact field_leafPos_refines h c v
  | keyword h => exact keyword_leafPos_refines h c v
  | facet names F0 h => exact facet_leafPos_refines names F0 h c v
  | text cfg okapi sp qs h => exact text_leafPos_refines cfg okapi sp qs h hok c v hl

/-! ### `_negate` -/

theorem negM_refines (h : IndexH) (hok : histOK h = true) (a b : IdSet) (hab : a ≈ˢ b) :
    negM (modelIndex h) a ≈ˢ negOf (specIndex h) b := by
  intro d
  rw [mem_negOf]
  cases h with
  | field h =>
    show d ∈ Field.negate _ a ↔ d ∈ known (.field (Field.Spec.table h)) ∧ d ∉ b
    rw [Field.mem_negate (Field.run_inv h)]
    unfold Field.Spec.neg
    simp [List.mem_filter, known, hab d]
  | keyword h =>
    show d ∈ (Keyword.run h).view.negate a ↔ d ∈ known (.keyword (kwTable (Keyword.Spec.table h))) ∧ d ∉ b
    rw [Keyword.View.mem_negate (Keyword.run_viewOK h)]
    simp only [known, kwKnown_kwTable, hab d]
  | facet names F0 h =>
    show d ∈ (Facet.run F0 h).ks.view.negate a ↔ d ∈ known (.keyword (facetTable names _)) ∧ d ∉ b
    rw [Keyword.View.mem_negate (Facet.facet_run_viewOK F0 h), facetTable_eq]
    simp only [known, kwKnown_rowTable, hab d]
  | text cfg okapi sp qs h =>
    obtain ⟨hs, _⟩ := histOK_text hok
    have hi := Text.inv_run cfg okapi h hs
    show d ∈ (if a.isEmpty then Text.docids _ else LSet.diff (Text.docids _) a) ↔
      d ∈ known (.text (textTable cfg sp qs (Text.Spec.table cfg h))) ∧ d ∉ b
    simp only [known, kwKnown_textTable, Text.mem_keys_table hi, ← hab d]
    by_cases he : a.isEmpty = true
    · rw [List.isEmpty_iff] at he
      simp [he]
    · simp only [he, Bool.false_eq_true, if_false]
      rw [LSet.mem_diff]

theorem positive_textCmp {c p : Cmp} (h : c.positive = some p) : textCmp p = textCmp c := by
  cases c <;> simp [Cmp.positive] at h <;> subst h <;> rfl

theorem leafIndex_refines (h : IndexH) (hok : histOK h = true) (c : Cmp) (v : Val)
    (hl : listedAt h c v = true) :
    ResEq (leafIndexM (modelIndex h) c v) (leafIndex (specIndex h) c v) := by
  unfold leafIndexM leafIndex
  cases hp : c.positive with
  | none => exact leafPos_refines h hok c v hl
  | some p =>
    simp only
    have := leafPos_refines h hok p v (by rw [listedAt_congr h (positive_textCmp hp)]; exact hl)
    cases e1 : leafPosM (modelIndex h) p v with
    | error e =>
      cases e2 : leafPos (specIndex h) p v with
      | error e' => rw [e1, e2] at this; exact this
      | ok b => rw [e1, e2] at this; exact this.elim
    | ok a =>
      cases e2 : leafPos (specIndex h) p v with
      | error e' => rw [e1, e2] at this; exact this.elim
      | ok b =>
        rw [e1, e2] at this
        exact negM_refines h hok a b this

/-! ### ranges -/

theorem rangePos_refines (h : IndexH) (lo hi : Int) (el eh : Bool) :
    ResEq (rangePosM (modelIndex h) lo hi el eh) (rangePos (specIndex h) lo hi el eh) := by
  cases h with
  | field h =>
    apply resEq_ok; intro d
    exact Field.mem_applyInRange (Field.run_inv h) _ _ _ _ d
  | keyword h => exact rfl
  | facet names F0 h => exact rfl
  | text cfg okapi sp qs h => exact rfl

/-! ### catalogs -/

/-- C03's hypotheses hold of every text index of the catalog -/
def HistsOK (hs : List IndexH) : Prop := ∀ h ∈ hs, histOK h = true

theorem applyCmp_refines (hs : List IndexH) (hok : HistsOK hs) (c : Cmp) (i : Nat) (v : Val)
    (hl : listedLeaf hs c i v = true) :
    ResEq (applyCmpM (modelCatalog hs) c i v) (applyCmp (specCatalog hs) c i v) := by
  unfold applyCmpM applyCmp getIndexM getIndex modelCatalog specCatalog
  simp only [List.getElem?_map]
  unfold listedLeaf at hl
  cases hi : hs[i]? with
  | none => exact rfl
  | some h =>
    simp only [hi] at hl
    have hokh := hok h (List.mem_of_getElem? hi)
    simp only [Option.map_some, bind, Except.bind]
    cases c
    case notall => exact leafIndex_refines h hokh _ v (listedAt_of_not_text h rfl v)
    all_goals exact leafIndex_refines h hokh _ v hl

theorem applyRange_refines (hs : List IndexH) (hok : HistsOK hs) (neg : Bool) (i : Nat) (lo hi : Int)
    (el eh : Bool) :
    ResEq (applyRangeM (modelCatalog hs) neg i lo hi el eh) (applyRange (specCatalog hs) neg i lo hi el eh) := by
  unfold applyRangeM applyRange getIndexM getIndex modelCatalog specCatalog
  simp only [List.getElem?_map]
  cases hidx : hs[i]? with
  | none => exact rfl
  | some h =>
    have hokh := hok h (List.mem_of_getElem? hidx)
    simp only [Option.map_some, bind, Except.bind]
    have := rangePos_refines h lo hi el eh
    cases e1 : rangePosM (modelIndex h) lo hi el eh with
    | error e =>
      cases e2 : rangePos (specIndex h) lo hi el eh with
      | error e' => rw [e1, e2] at this; exact this
      | ok b => rw [e1, e2] at this; exact this.elim
    | ok a =>
      cases e2 : rangePos (specIndex h) lo hi el eh with
      | error e' => rw [e1, e2] at this; exact this.elim
      | ok b =>
        rw [e1, e2] at this
        cases neg
        · exact this
        · exact negM_refines h hokh a b this

/-- the model leaves, answered by the specification where a text leaf names no query string (never
consulted on a tree with `leavesListed`) -/
def patchedLeaves (hs : List IndexH) : Leaves :=
  { cmp := fun c i v =>
      if listedLeaf hs c i v then applyCmpM (modelCatalog hs) c i v else applyCmp (specCatalog hs) c i v
    range := applyRangeM (modelCatalog hs) }

theorem leaves_refine (hs : List IndexH) (hok : HistsOK hs) :
    LeavesEq (patchedLeaves hs) (specLeaves (specCatalog hs)) := by
  refine ⟨fun c i v => ?_, applyRange_refines hs hok⟩
  show ResEq (if listedLeaf hs c i v then _ else _) _
  by_cases hl : listedLeaf hs c i v = true
  · simp only [hl, if_true]; exact applyCmp_refines hs hok c i v hl
  · simp only [hl, Bool.false_eq_true, if_false]; exact ResEq.refl _

/-- **End to end**: for all histories of all indexes, every tree whose text leaves name listed query strings
has the same outcome over the index models as over the specification tables -/
theorem applyQM_refines (hs : List IndexH) (hok : HistsOK hs) (q : Q) (hq : leavesListed hs q = true) :
    ResEq (applyQM (modelCatalog hs) q) (applyQ (specCatalog hs) q) := by
  have e : applyQM (modelCatalog hs) q = applyQL (patchedLeaves hs) q := by
    refine applyQL_ext (p := listedLeaf hs) (L := modelLeaves (modelCatalog hs)) (L' := patchedLeaves hs)
      (listedLeaf_optClosed hs).neg ?_ (fun _ _ _ _ _ _ => rfl) q hq
    intro c i v hl
    show _ = (if listedLeaf hs c i v then _ else _)
    simp only [hl, if_true]; rfl
  rw [e]
  exact applyQL_congr (leaves_refine hs hok) q

/-- catalogs without a text index need no hypothesis -/
def noText : IndexH → Bool
  | .text _ _ _ _ _ => false
  | _ => true

theorem histsOK_of_noText (hs : List IndexH) (h : hs.all noText = true) : HistsOK hs := by
  intro x hx
  have := List.all_eq_true.mp h x hx
  cases x <;> simp_all [noText, histOK]

theorem listedLeaf_of_noText (hs : List IndexH) (h : hs.all noText = true) (c : Cmp) (i : Nat) (v : Val) :
    listedLeaf hs c i v = true := by
  unfold listedLeaf
  cases hi : hs[i]? with
  | none => rfl
  | some x =>
    have := List.all_eq_true.mp h x (List.mem_of_getElem? hi)
    cases x <;> simp_all [noText, listedAt]

mutual
theorem leavesAll_of_forall {p : Cmp → Nat → Val → Bool} (hp : ∀ c i v, p c i v = true) :
    ∀ q : Q, leavesAll p q = true
  | .cmp c i v => hp c i v
  | .range _ _ _ _ _ _ => rfl
  | .and qs => by simp only [leavesAll]; exact leavesAllList_of_forall hp qs
  | .or qs => by simp only [leavesAll]; exact leavesAllList_of_forall hp qs
  | .not q => by simp only [leavesAll]; exact leavesAll_of_forall hp q
theorem leavesAllList_of_forall {p : Cmp → Nat → Val → Bool} (hp : ∀ c i v, p c i v = true) :
    ∀ qs : List Q, leavesAllList p qs = true
  | [] => rfl
  | q :: qs => by
    simp only [leavesAllList, leavesAll_of_forall hp q, leavesAllList_of_forall hp qs, Bool.and_self]
end

theorem leavesListed_of_noText (hs : List IndexH) (h : hs.all noText = true) (q : Q) :
    leavesListed hs q = true := leavesAll_of_forall (listedLeaf_of_noText hs h) q

end Hyp.Query
