import HypatiaProofs.Lemmas.QueryCongr
import HypatiaProofs.Lemmas.QueryCompl
import HypatiaProofs.Lemmas.FieldQuery
import HypatiaProofs.Lemmas.KeywordQuery
import HypatiaModel.QueryModel

/-!
# Leaves of a query answered by the index models = leaves answered by the specification

For every history of a field index (C01) and of a keyword index (C02) the model's `applyX` functions
return the members the specification-level leaf of `Query.lean` returns, and raise the same errors;
with `applyQL_congr` this lifts to every query tree (`applyQM_refines`).
-/
set_option linter.unusedSectionVars false
set_option linter.unusedSimpArgs false
set_option linter.unusedVariables false
namespace Hyp.Query
open Hyp

/-! ### the keyword table as a query-level table -/

theorem get_map_pair {β : Type} (l : List Int) (f : Int → β) (d : Int) :
    AMap.get (l.map (fun x => (x, f x))) d = if d ∈ l then some (f d) else none := by
  induction l with
  | nil => simp
  | cons a t ih =>
    simp only [List.map_cons, AMap.get_cons, List.mem_cons]
    by_cases e : a = d
    · subst e; simp
    · have e' : ¬ d = a := fun h => e h.symm
      simp only [e, if_false, ih, e', false_or]

theorem kwKnown_kwTable (T : Keyword.Spec.Table Int) : kwKnown (kwTable T) = Keyword.Spec.known T := by
  simp [kwKnown, kwTable, AMap.keys, List.map_map, Function.comp_def]

theorem kwOf_of_bind {T : Keyword.Spec.Table Int} {d : Int} {ks : List Int}
    (h : (AMap.get T d).bind id = some ks) : Keyword.Spec.kwOf T d = ks := by
  unfold Keyword.Spec.kwOf
  cases hg : AMap.get T d with
  | none => simp [hg] at h
  | some o =>
    cases o with
    | none => simp [hg] at h
    | some l => simp [hg] at h; simp [h]

theorem kwOf_of_bind_none {T : Keyword.Spec.Table Int} {d : Int}
    (h : (AMap.get T d).bind id = none) : Keyword.Spec.kwOf T d = [] := by
  unfold Keyword.Spec.kwOf
  cases hg : AMap.get T d with
  | none => rfl
  | some o =>
    cases o with
    | none => rfl
    | some l => simp [hg] at h

theorem mem_kwSat_kwTable (T : Keyword.Spec.Table Int) (p : List Int → Bool) (d : Int) :
    d ∈ kwSat (kwTable T) p ↔
      d ∈ Keyword.Spec.known T ∧ ∃ ks, (AMap.get T d).bind id = some ks ∧ p ks = true := by
  rw [mem_kwSat, kwKnown_kwTable]
  constructor
  · rintro ⟨hk, ks, hb, hp⟩
    refine ⟨hk, ks, ?_, hp⟩
    unfold kwTable at hb
    rw [get_map_pair] at hb
    simpa [hk] using hb
  · rintro ⟨hk, ks, hb, hp⟩
    refine ⟨hk, ks, ?_, hp⟩
    unfold kwTable
    rw [get_map_pair]
    simpa [hk] using hb

/-- a membership-style predicate on the keyword list, read off the specification table -/
theorem mem_kwSat_kwTable_kwOf (T : Keyword.Spec.Table Int) (p : List Int → Bool) (hp : p [] = false)
    (d : Int) : d ∈ kwSat (kwTable T) p ↔ d ∈ Keyword.Spec.known T ∧ p (Keyword.Spec.kwOf T d) = true := by
  rw [mem_kwSat_kwTable]
  constructor
  · rintro ⟨hk, ks, hb, hpk⟩
    exact ⟨hk, by rw [kwOf_of_bind hb]; exact hpk⟩
  · rintro ⟨hk, hpk⟩
    cases hb : (AMap.get T d).bind id with
    | none => rw [kwOf_of_bind_none hb, hp] at hpk; cases hpk
    | some ks => exact ⟨hk, ks, rfl, by rw [← kwOf_of_bind hb]; exact hpk⟩

/-! ### positive leaves -/

theorem resEq_ok {a b : IdSet} (h : ∀ d, d ∈ a ↔ d ∈ b) : ResEq (.ok a) (.ok b) := h

theorem field_leafPos_refines (h : List (Field.Op Int)) (c : Cmp) (v : Val) :
    ResEq (leafPosM (.field (Field.run h)) c v) (leafPos (.field (Field.Spec.table h)) c v) := by
  have hi := Field.run_inv h
  have hrange : ∀ (lo hi' : Option Int) (el eh : Bool) (p : Int → Bool),
      (∀ w, (Field.inLo lo el w && Field.inHi hi' eh w) = p w) → ∀ d,
      d ∈ Field.applyInRange (Field.run h) lo hi' el eh ↔ d ∈ Field.Spec.sat (Field.Spec.table h) p := by
    intro lo hi' el eh p hp d
    rw [Field.mem_applyInRange hi]
    unfold Field.Spec.inRange
    rw [Field.mem_sat, Field.mem_sat]
    simp only [hp]
  cases c <;> cases v <;> first
    | exact rfl
    | skip
  · -- eq
    apply resEq_ok; intro d
    show d ∈ Field.searchOr _ [_] ↔ d ∈ Field.Spec.eq _ _
    rw [Field.mem_searchOr hi intOrdLaws]
    unfold Field.Spec.any Field.Spec.eq
    rw [Field.mem_sat, Field.mem_sat]
    simp
  · exact resEq_ok (hrange _ _ _ _ _ (by intro w; simp [Field.inLo, Field.inHi]))
  · exact resEq_ok (hrange _ _ _ _ _ (by intro w; simp [Field.inLo, Field.inHi]))
  · exact resEq_ok (hrange _ _ _ _ _ (by intro w; simp [Field.inLo, Field.inHi]))
  · exact resEq_ok (hrange _ _ _ _ _ (by intro w; simp [Field.inLo, Field.inHi]))
  · exact resEq_ok (Field.mem_searchOr hi intOrdLaws _)
  · exact resEq_ok (Field.mem_searchOr hi intOrdLaws _)

theorem keyword_leafPos_refines (h : List (Keyword.Op Int)) (c : Cmp) (v : Val) :
    ResEq (leafPosM (.keyword (Keyword.run h)) c v)
      (leafPos (.keyword (kwTable (Keyword.Spec.table h))) c v) := by
  have hv := Keyword.run_viewOK h
  cases c <;> first
    | (cases v <;> exact rfl)
    | skip
  · -- eq
    cases v with
    | many xs => exact rfl
    | one x =>
      apply resEq_ok; intro d
      show d ∈ Keyword.applyEq _ x ↔ d ∈ kwSat _ _
      rw [Keyword.mem_applyEq hv, mem_kwSat_kwTable_kwOf _ _ (by simp)]
      simp only [decide_eq_true_eq]
      exact ⟨fun hk => ⟨Keyword.known_of_kw hk, hk⟩, fun hk => hk.2⟩
  · -- any
    apply resEq_ok; intro d
    show d ∈ Keyword.applyAny _ (valList v) ↔ d ∈ kwSat _ _
    rw [Keyword.mem_applyAny hv, mem_kwSat_kwTable_kwOf _ _ (by simp)]
    simp only [List.any_eq_true, decide_eq_true_eq]
    constructor
    · rintro ⟨k, hk, hd⟩; exact ⟨Keyword.known_of_kw hd, k, hk, hd⟩
    · exact fun hk => hk.2
  · -- all
    apply resEq_ok; intro d
    show d ∈ Keyword.applyAll _ (valList v) ↔
      d ∈ (if (valList v).isEmpty then [] else kwSat _ _)
    rw [Keyword.mem_applyAll hv]
    by_cases he : valList v = []
    · simp [he]
    · have he' : (valList v).isEmpty = false := by cases hvl : valList v <;> simp_all
      simp only [he', Bool.false_eq_true, if_false]
      rw [mem_kwSat_kwTable_kwOf _ _ (by cases hvl : valList v <;> simp_all)]
      simp only [List.all_eq_true, decide_eq_true_eq]
      constructor
      · rintro ⟨_, hall⟩
        cases hvl : valList v with
        | nil => exact absurd hvl he
        | cons a rest =>
          rw [hvl] at hall
          exact ⟨Keyword.known_of_kw (hall a (by simp)), hall⟩
      · exact fun hk => ⟨he, hk.2⟩

theorem leafPos_refines (h : IndexH) (c : Cmp) (v : Val) :
    ResEq (leafPosM (modelIndex h) c v) (leafPos (specIndex h) c v) := by
  cases h with
  | field h => exact field_leafPos_refines h c v
  | keyword h => exact keyword_leafPos_refines h c v
  | text t => exact ResEq.refl _

/-! ### `_negate` -/

theorem negM_refines (h : IndexH) (a b : IdSet) (hab : a ≈ˢ b) :
    negM (modelIndex h) a ≈ˢ negOf (specIndex h) b := by
  intro d
  rw [mem_negOf]
  cases h with
  | field h =>
    show d ∈ Field.negate _ a ↔ d ∈ known (.field (Field.Spec.table h)) ∧ d ∉ b
    rw [Field.mem_negate (Field.run_inv h)]
    unfold Field.Spec.neg
    simp [List.mem_filter, known, hab d]
  | keyword h =>
    show d ∈ (Keyword.run h).view.negate a ↔ d ∈ known (.keyword (kwTable (Keyword.Spec.table h))) ∧ d ∉ b
    rw [Keyword.View.mem_negate (Keyword.run_viewOK h)]
    simp only [known, kwKnown_kwTable, hab d]
  | text t =>
    show d ∈ negOf (.text t) a ↔ d ∈ known (.text t) ∧ d ∉ b
    rw [mem_negOf, hab d]

theorem leafIndex_refines (h : IndexH) (c : Cmp) (v : Val) :
    ResEq (leafIndexM (modelIndex h) c v) (leafIndex (specIndex h) c v) := by
  unfold leafIndexM leafIndex
  cases hp : c.positive with
  | none => exact leafPos_refines h c v
  | some p =>
    simp only
    have := leafPos_refines h p v
    cases e1 : leafPosM (modelIndex h) p v with
    | error e =>
      cases e2 : leafPos (specIndex h) p v with
      | error e' => rw [e1, e2] at this; exact this
      | ok b => rw [e1, e2] at this; exact this.elim
    | ok a =>
      cases e2 : leafPos (specIndex h) p v with
      | error e' => rw [e1, e2] at this; exact this.elim
      | ok b =>
        rw [e1, e2] at this
        exact negM_refines h a b this

/-! ### ranges -/

theorem rangePos_refines (h : IndexH) (lo hi : Int) (el eh : Bool) :
    ResEq (rangePosM (modelIndex h) lo hi el eh) (rangePos (specIndex h) lo hi el eh) := by
  cases h with
  | field h =>
    apply resEq_ok; intro d
    exact Field.mem_applyInRange (Field.run_inv h) _ _ _ _ d
  | keyword h => exact rfl
  | text t => exact rfl

/-! ### catalogs -/

theorem applyCmp_refines (hs : List IndexH) (c : Cmp) (i : Nat) (v : Val) :
    ResEq (applyCmpM (modelCatalog hs) c i v) (applyCmp (specCatalog hs) c i v) := by
  unfold applyCmpM applyCmp getIndexM getIndex modelCatalog specCatalog
  simp only [List.getElem?_map]
  cases hs[i]? with
  | none => exact rfl
  | some h =>
    simp only [Option.map_some, bind, Except.bind]
    cases c <;> exact leafIndex_refines h _ v

theorem applyRange_refines (hs : List IndexH) (neg : Bool) (i : Nat) (lo hi : Int) (el eh : Bool) :
    ResEq (applyRangeM (modelCatalog hs) neg i lo hi el eh) (applyRange (specCatalog hs) neg i lo hi el eh) := by
  unfold applyRangeM applyRange getIndexM getIndex modelCatalog specCatalog
  simp only [List.getElem?_map]
  cases hs[i]? with
  | none => exact rfl
  | some h =>
    simp only [Option.map_some, bind, Except.bind]
    have := rangePos_refines h lo hi el eh
    cases e1 : rangePosM (modelIndex h) lo hi el eh with
    | error e =>
      cases e2 : rangePos (specIndex h) lo hi el eh with
      | error e' => rw [e1, e2] at this; exact this
      | ok b => rw [e1, e2] at this; exact this.elim
    | ok a =>
      cases e2 : rangePos (specIndex h) lo hi el eh with
      | error e' => rw [e1, e2] at this; exact this.elim
      | ok b =>
        rw [e1, e2] at this
        cases neg
        · exact this
        · exact negM_refines h a b this

theorem leaves_refine (hs : List IndexH) :
    LeavesEq (modelLeaves (modelCatalog hs)) (specLeaves (specCatalog hs)) :=
  ⟨applyCmp_refines hs, applyRange_refines hs⟩

/-- **End to end**: for all histories of all indexes, every tree has the same outcome over the index
models as over the specification tables -/
theorem applyQM_refines (hs : List IndexH) (q : Q) :
    ResEq (applyQM (modelCatalog hs) q) (applyQ (specCatalog hs) q) :=
  applyQL_congr (leaves_refine hs) q

end Hyp.Query
