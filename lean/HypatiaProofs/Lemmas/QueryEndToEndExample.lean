import HypatiaProofs.Lemmas.QueryEndToEnd
import HypatiaProofs.Lemmas.TextStable

/-!
# A concrete catalog of all four index kinds inside the hypotheses of `c04_end_to_end`

The tokenizer and the recursive-descent parser of the text query language are defined by well-founded
recursion, which `decide` does not unfold; the three query strings of the example are therefore scanned with
the unfolding lemmas below and parsed through the grammar (`parseTokens_complete`, C14).
-/
set_option linter.unusedSimpArgs false
namespace Hyp.QP

theorem scan_nil (sp : Nat → Bool) : scan sp [] = [] := by rw [scan]

theorem scan_atom {sp : Nat → Bool} {c : Nat} {cs tok rest : Str} (hp : (c == LP || c == RP) = false)
    (h : atomAt sp c cs = some (tok, rest)) : scan sp (c :: cs) = tok :: scan sp rest := by
  rw [scan]
  simp only [hp, Bool.false_eq_true, if_false]
  split
  · next tok' rest' h' => rw [h] at h'; cases h'; rfl
  · next h' => rw [h] at h'; cases h'

theorem scan_skip {sp : Nat → Bool} {c : Nat} {cs : Str} (hp : (c == LP || c == RP) = false)
    (h : atomAt sp c cs = none) : scan sp (c :: cs) = scan sp cs := by
  rw [scan]
  simp only [hp, Bool.false_eq_true, if_false]
  split
  · next tok' rest' h' => rw [h] at h'; cases h'
  · rfl

end Hyp.QP

namespace Hyp.Query
open Hyp Hyp.QP.Spec

/-- word characters a b c d A (A lower-cases to a); stop word `d` -/
def exCfg : Lex.Cfg :=
  { tables := Text.tablesOfLists [97, 98, 99, 100, 65] [(65, [97])],
    pipeline := [.splitter, .caseNorm, .stop [[100]]] }
def exSp : Nat → Bool := fun c => c == 32

/-- the query strings `b`, `a b`, `b AND NOT c` -/
def exQs : List QP.Str := [[98], [97, 32, 98], [98, 32, 65, 78, 68, 32, 78, 79, 84, 32, 99]]

/-- a field, a keyword, a facet (facets `1`, `1:2`, `3`; names `1`, `1:2`, `3`, `9` – the last not configured)
and a text index (documents 1 = "a b d" after re-indexing, 2 = "b a c", 3 without text) -/
def exHs : List IndexH :=
  [.field [.index 1 (some 5), .index 2 (some 7), .index 3 none, .index 1 (some 8)],
   .keyword [.index 1 (some [1, 2]), .index 2 (some [2]), .index 3 (some [])],
   .facet [[1], [1, 2], [3], [9]] [[1], [1, 2], [3], [1]]
     [.index 1 (some [[1, 2, 7]]), .index 2 (some [[1], [3, 9]]), .index 3 none, .optimize],
   .text exCfg true exSp exQs
     [.index 1 (some [[97, 32, 98]]), .index 2 (some [[98, 32, 97, 32, 99]]), .index 3 none,
      .index 1 (some [[65, 32, 98, 32, 100]])]]

theorem ex_tok0 : QP.tokenize exSp [98] = [.atom [98]] := by
  unfold QP.tokenize
  rw [QP.scan_atom (tok := [98]) (rest := []) (by decide) (by decide), QP.scan_nil]
  decide

theorem ex_tok1 : QP.tokenize exSp [97, 32, 98] = [.atom [97], .atom [98]] := by
  unfold QP.tokenize
  rw [QP.scan_atom (tok := [97]) (rest := [32, 98]) (by decide) (by decide),
    QP.scan_skip (by decide) (by decide),
    QP.scan_atom (tok := [98]) (rest := []) (by decide) (by decide), QP.scan_nil]
  decide

theorem ex_tok2 : QP.tokenize exSp [98, 32, 65, 78, 68, 32, 78, 79, 84, 32, 99] =
    [.atom [98], .and, .not, .atom [99]] := by
  unfold QP.tokenize
  rw [QP.scan_atom (tok := [98]) (rest := [32, 65, 78, 68, 32, 78, 79, 84, 32, 99]) (by decide) (by decide),
    QP.scan_skip (by decide) (by decide),
    QP.scan_atom (tok := [65, 78, 68]) (rest := [32, 78, 79, 84, 32, 99]) (by decide) (by decide),
    QP.scan_skip (by decide) (by decide),
    QP.scan_atom (tok := [78, 79, 84]) (rest := [32, 99]) (by decide) (by decide),
    QP.scan_skip (by decide) (by decide),
    QP.scan_atom (tok := [99]) (rest := []) (by decide) (by decide), QP.scan_nil]
  decide

theorem ex_parse0 : QP.parseQuery (Text.lexOf exCfg) exSp [98] = .ok (.atom [98], []) := by
  unfold QP.parseQuery
  rw [ex_tok0]
  apply QP.parseTokens_complete
  have t0 := Derives.atoms (lx := Text.lexOf exCfg) [[98]] (by simp) (by decide)
  have a := Derives.andE (lx := Text.lexOf exCfg) [] t0 (by simp)
  have o := Derives.orE (lx := Text.lexOf exCfg) [] a (by simp)
  exact o

theorem ex_parse1 : QP.parseQuery (Text.lexOf exCfg) exSp [97, 32, 98] =
    .ok (.andN [.atom [97], .atom [98]], []) := by
  unfold QP.parseQuery
  rw [ex_tok1]
  apply QP.parseTokens_complete
  have t0 := Derives.atoms (lx := Text.lexOf exCfg) [[97], [98]] (by simp) (by decide)
  have a := Derives.andE (lx := Text.lexOf exCfg) [] t0 (by simp)
  have o := Derives.orE (lx := Text.lexOf exCfg) [] a (by simp)
  exact o

theorem ex_parse2 : QP.parseQuery (Text.lexOf exCfg) exSp [98, 32, 65, 78, 68, 32, 78, 79, 84, 32, 99] =
    .ok (.andN [.atom [98], .notN (.atom [99])], []) := by
  unfold QP.parseQuery
  rw [ex_tok2]
  apply QP.parseTokens_complete
  have t0 := Derives.atoms (lx := Text.lexOf exCfg) [[98]] (by simp) (by decide)
  have t1 := Derives.atoms (lx := Text.lexOf exCfg) [[99]] (by simp) (by decide)
  have a := Derives.andE (lx := Text.lexOf exCfg) [(.andNot, ⟨_, _, _⟩)] t0
    (by intro it hit; simp only [List.mem_singleton] at hit; subst hit; exact t1)
  have o := Derives.orE (lx := Text.lexOf exCfg) [] a (by simp)
  exact o

/-- the example catalog satisfies C03's hypotheses -/
theorem exHs_ok : HistsOK exHs := by
  intro h hh
  simp only [exHs, List.mem_cons, List.mem_nil_iff, or_false] at hh
  rcases hh with rfl | rfl | rfl | rfl
  · rfl
  · rfl
  · rfl
  · simp only [histOK, exQs, List.all_cons, List.all_nil, queryOK, ex_parse0, ex_parse1, ex_parse2,
      Bool.and_true, Bool.and_eq_true, decide_eq_true_eq]
    refine ⟨by decide, by decide, by decide, by decide⟩

end Hyp.Query
