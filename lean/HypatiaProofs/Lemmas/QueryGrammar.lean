import HypatiaProofs.Lemmas.QueryTree
/-!
Lemmas about the grammar relation `Derives` itself (no parser involved): every derived
tree is well formed, the ignored list is the list of stop-word-only ATOM tokens, a Term
starts with `(` or an ATOM.
-/
set_option linter.unusedSimpArgs false
set_option linter.unusedVariables false
namespace Hyp.QP
open Spec

theorem leaf_wf {lx : Lex} {ws : List Str} {t : Tree} (h : leaf lx ws = some t) : WF lx t := by
  match ws, h with
  | [w], h =>
    simp only [leaf, Option.some.injEq] at h
    by_cases hg : lx.isGlob w = true
    · simp only [hg, if_true] at h; subst h; exact .glob hg
    · simp only [hg] at h
      subst h
      exact .atom (by simpa using hg)
  | w1 :: w2 :: ws, h =>
    simp only [leaf, Option.some.injEq] at h
    subst h
    exact .phrase (by simp)

/-- a node of an ATOM is a well-formed leaf or the negation of one -/
theorem atomNode_shape {lx : Lex} {s : Str} {t : Tree} (h : atomNode lx s = some t) :
    (WF lx t ∧ positive t = true) ∨ (∃ u, t = .notN u ∧ WF lx u ∧ positive t = false) := by
  unfold atomNode at h
  cases hl : leaf lx (lx.parseTerms s) with
  | none => simp [hl] at h
  | some u =>
    have hu := leaf_wf hl
    simp only [hl, Option.map_some, Option.some.injEq] at h
    by_cases hh : s.head? = some HYPHEN
    · simp only [hh, if_true] at h
      subst h
      exact .inr ⟨u, rfl, hu, rfl⟩
    · simp only [hh, if_false] at h
      subst h
      exact .inl ⟨hu, by simp [positive, wf_positive hu]⟩

theorem split_nodes {lx : Lex} (l : List Tree)
    (h : ∀ n ∈ l, (WF lx n ∧ positive n = true) ∨ (∃ u, n = .notN u ∧ WF lx u ∧ positive n = false)) :
    (∀ n ∈ l.filter positive, WF lx n) ∧
    ∃ negs : List Tree, l.filter (fun t => !positive t) = negs.map .notN ∧ ∀ u ∈ negs, WF lx u := by
  induction l with
  | nil => exact ⟨by simp, [], by simp, by simp⟩
  | cons a l ih =>
    obtain ⟨ih1, negs, ih2, ih3⟩ := ih (fun n hn => h n (List.mem_cons_of_mem _ hn))
    rcases h a List.mem_cons_self with ⟨hw, hp⟩ | ⟨u, rfl, hw, hp⟩
    · refine ⟨?_, negs, ?_, ih3⟩
      · intro n hn
        simp only [List.filter_cons, hp, if_true, List.mem_cons] at hn
        rcases hn with rfl | hn
        · exact hw
        · exact ih1 n hn
      · simp [List.filter_cons, hp, ih2]
    · refine ⟨?_, u :: negs, ?_, ?_⟩
      · intro n hn
        simp only [List.filter_cons, hp] at hn
        exact ih1 n (by simpa using hn)
      · simp [List.filter_cons, hp, ih2]
      · intro v hv
        rcases List.mem_cons.mp hv with rfl | hv
        · exact hw
        · exact ih3 v hv

theorem conj_wf {lx : Lex} {P N : List Tree} {t : Tree} (hne : P ≠ [])
    (hP : ∀ x ∈ P, WF lx x) (hN : ∀ x ∈ N, WF lx x)
    (h : conj (P ++ N.map .notN) = some t) : WF lx t := by
  match P, N, hne, hP, hN, h with
  | [x], [], _, hP, _, h =>
    simp only [List.map_nil, List.append_nil, conj, Option.some.injEq] at h
    subst h
    exact hP x (by simp)
  | [x], n :: N, _, hP, hN, h =>
    simp only [List.map_cons, List.cons_append, List.nil_append, conj, Option.some.injEq] at h
    subst h
    exact WF.andN [x] (n :: N) (by simp) (by simp only [List.length_cons, List.length_nil]; omega) hP hN
  | x :: y :: P, N, _, hP, hN, h =>
    simp only [List.cons_append, conj, Option.some.injEq] at h
    subst h
    exact WF.andN (x :: y :: P) N (by simp) (by simp only [List.length_cons]; omega) hP hN

theorem disj_wf {lx : Lex} {L : List Tree} {t : Tree} (hL : ∀ x ∈ L, WF lx x)
    (h : disj L = some t) : WF lx t := by
  match L, hL, h with
  | [x], hL, h =>
    simp only [disj, Option.some.injEq] at h
    subst h
    exact hL x (by simp)
  | x :: y :: L, hL, h =>
    simp only [disj, Option.some.injEq] at h
    subst h
    exact WF.orN _ (by simp) hL

theorem negVal_map (items : List (AndOp × Seg)) :
    items.filterMap negVal =
      (items.filterMap (fun it => if it.1.neg then it.2.val else none)).map .notN := by
  induction items with
  | nil => rfl
  | cons it items ih =>
    obtain ⟨op, sg⟩ := it
    cases hn : op.neg <;> cases hv : sg.val <;>
      simp [List.filterMap_cons, negVal, hn, hv, ih]

/-- every tree the grammar derives is well formed -/
theorem derives_wf {lx : Lex} {s : Sym} {ts : List Tok} {v : Option Tree} {ig : List Str}
    (h : Derives lx s ts v ig) : ∀ t, v = some t → WF lx t := by
  induction h with
  | paren _ ih => exact ih
  | atoms terms hne hpos =>
    intro t ht
    have hshape : ∀ n ∈ terms.filterMap (atomNode lx),
        (WF lx n ∧ positive n = true) ∨ (∃ u, n = .notN u ∧ WF lx u ∧ positive n = false) := by
      intro n hn
      obtain ⟨s, _, hs⟩ := List.mem_filterMap.mp hn
      exact atomNode_shape hs
    obtain ⟨h1, negs, h2, h3⟩ := split_nodes _ hshape
    rw [h2] at ht
    rcases hpos with h0 | ⟨p, hp, hpp⟩
    · rw [h0] at ht h2
      have : negs = [] := by
        cases negs with
        | nil => rfl
        | cons a b => simp at h2
      subst this
      simp [conj] at ht
    · refine conj_wf ?_ h1 h3 ht
      intro he
      have : p ∈ List.filter positive (List.filterMap (atomNode lx) terms) :=
        List.mem_filter.mpr ⟨hp, hpp⟩
      rw [he] at this
      simp at this
  | andE items h0 hitems ih0 ihs =>
    intro t ht
    split at ht
    · cases ht
    · rename_i hne
      rw [negVal_map] at ht
      refine conj_wf hne ?_ ?_ ht
      · intro x hx
        rcases List.mem_append.mp hx with hx | hx
        · rename_i v0 _ _
          cases v0 with
          | none => simp [optL] at hx
          | some y =>
            simp only [optL, List.mem_singleton] at hx
            subst hx
            exact ih0 _ rfl
        · obtain ⟨it, hit, hv⟩ := List.mem_filterMap.mp hx
          unfold posVal at hv
          split at hv
          · cases hv
          · exact ihs it hit x hv
      · intro x hx
        obtain ⟨it, hit, hv⟩ := List.mem_filterMap.mp hx
        split at hv
        · exact ihs it hit x hv
        · cases hv
  | orE items h0 hitems ih0 ihs =>
    intro t ht
    refine disj_wf ?_ ht
    intro x hx
    rcases List.mem_append.mp hx with hx | hx
    · rename_i v0 _ _
      cases v0 with
      | none => simp [optL] at hx
      | some y =>
        simp only [optL, List.mem_singleton] at hx
        subst hx
        exact ih0 _ rfl
    · obtain ⟨it, hit, hv⟩ := List.mem_filterMap.mp hx
      exact ihs it hit x hv

/-! ### the ignored list -/

theorem atomsOf_append (a b : List Tok) : atomsOf (a ++ b) = atomsOf a ++ atomsOf b := by
  induction a with
  | nil => rfl
  | cons t a ih => cases t <;> simp [atomsOf, ih]

theorem atomsOf_map_atom (terms : List Str) : atomsOf (terms.map .atom) = terms := by
  induction terms with
  | nil => rfl
  | cons t a ih => simp [atomsOf, ih]

/-- the terms reported as ignored are exactly the ATOM tokens whose words are all stop words,
in input order -/
theorem derives_ignored {lx : Lex} {s : Sym} {ts : List Tok} {v : Option Tree} {ig : List Str}
    (h : Derives lx s ts v ig) : ig = (atomsOf ts).filter (fun s => lx.parseTerms s = []) := by
  induction h with
  | paren _ ih =>
    rw [ih]
    simp [atomsOf, atomsOf_append]
  | atoms terms hne hpos => rw [atomsOf_map_atom]
  | andE items h0 hitems ih0 ihs =>
    rw [atomsOf_append, List.filter_append, ← ih0]
    congr 1
    clear ih0 h0
    induction items with
    | nil => rfl
    | cons it items ih =>
      have h1 := ihs it List.mem_cons_self
      have h2 := ih (fun it hit => hitems it (List.mem_cons_of_mem _ hit))
        (fun it hit => ihs it (List.mem_cons_of_mem _ hit))
      simp only [List.flatMap_cons, atomsOf_append, List.filter_append]
      rw [← h2, ← h1]
      obtain ⟨op, sg⟩ := it
      cases op <;> simp [AndOp.toks, atomsOf]
  | orE items h0 hitems ih0 ihs =>
    rw [atomsOf_append, List.filter_append, ← ih0]
    congr 1
    clear ih0 h0
    induction items with
    | nil => rfl
    | cons it items ih =>
      have h1 := ihs it List.mem_cons_self
      have h2 := ih (fun it hit => hitems it (List.mem_cons_of_mem _ hit))
        (fun it hit => ihs it (List.mem_cons_of_mem _ hit))
      simp only [List.flatMap_cons, atomsOf_append, List.filter_append]
      rw [← h2]
      simp [atomsOf, ← h1]

/-- a Term starts with `(` or with an ATOM -/
theorem derives_term_head {lx : Lex} {ts : List Tok} {v : Option Tree} {ig : List Str}
    (h : Derives lx .term ts v ig) :
    ∃ t r, ts = t :: r ∧ (t = .lp ∨ ∃ a, t = .atom a) := by
  cases h with
  | paren _ => exact ⟨_, _, rfl, .inl rfl⟩
  | atoms terms hne hpos =>
    cases terms with
    | nil => exact absurd rfl hne
    | cons a terms => exact ⟨_, _, rfl, .inr ⟨a, rfl⟩⟩

end Hyp.QP
