import HypatiaProofs.Lemmas.QueryCongr
import HypatiaProofs.Lemmas.OptimizeSound
import HypatiaModel.QueryModel

/-!
# Predicates on the comparator leaves of a tree

`leavesAll p q`: every comparator leaf `(c, i, v)` of `q` satisfies `p`.  For a predicate that is closed
under `Comparator.negate` it is preserved by `negate`, by the flattening constructors and – when it also
holds of all bounds and all folded list-valued comparators – by `_optimize`; and `_apply` depends on the
leaf oracle only at the leaves of the tree (`applyFuelL_ext`).
-/
set_option linter.unusedSectionVars false
set_option linter.unusedSimpArgs false
set_option linter.unusedVariables false
namespace Hyp.Query
open Hyp

variable {p : Cmp → Nat → Val → Bool}

theorem leavesAllList_iff (p : Cmp → Nat → Val → Bool) (qs : List Q) :
    leavesAllList p qs = true ↔ ∀ q ∈ qs, leavesAll p q = true := by
  induction qs with
  | nil => simp [leavesAllList]
  | cons x xs ih => simp [leavesAllList, ih]

theorem leavesAll_and (p : Cmp → Nat → Val → Bool) (qs : List Q) :
    leavesAll p (.and qs) = true ↔ ∀ q ∈ qs, leavesAll p q = true := by
  simp only [leavesAll]; exact leavesAllList_iff p qs

theorem leavesAll_or (p : Cmp → Nat → Val → Bool) (qs : List Q) :
    leavesAll p (.or qs) = true ↔ ∀ q ∈ qs, leavesAll p q = true := by
  simp only [leavesAll]; exact leavesAllList_iff p qs

theorem leavesAll_flatOr (p : Cmp → Nat → Val → Bool) (q : Q) :
    (∀ x ∈ flatOr q, leavesAll p x = true) ↔ leavesAll p q = true := by
  cases q <;> simp [flatOr, leavesAll_or]

theorem leavesAll_flatAnd (p : Cmp → Nat → Val → Bool) (q : Q) :
    (∀ x ∈ flatAnd q, leavesAll p x = true) ↔ leavesAll p q = true := by
  cases q <;> simp [flatAnd, leavesAll_and]

theorem leavesAll_mkOr (p : Cmp → Nat → Val → Bool) (qs : List Q) :
    leavesAll p (mkOr qs) = true ↔ ∀ q ∈ qs, leavesAll p q = true := by
  unfold mkOr
  rw [leavesAll_or]
  simp only [List.mem_flatMap]
  constructor
  · intro h q hq
    exact (leavesAll_flatOr p q).mp (fun x hx => h x ⟨q, hq, hx⟩)
  · rintro h x ⟨q, hq, hx⟩
    exact (leavesAll_flatOr p q).mpr (h q hq) x hx

theorem leavesAll_mkAnd (p : Cmp → Nat → Val → Bool) (qs : List Q) :
    leavesAll p (mkAnd qs) = true ↔ ∀ q ∈ qs, leavesAll p q = true := by
  unfold mkAnd
  rw [leavesAll_and]
  simp only [List.mem_flatMap]
  constructor
  · intro h q hq
    exact (leavesAll_flatAnd p q).mp (fun x hx => h x ⟨q, hq, hx⟩)
  · rintro h x ⟨q, hq, hx⟩
    exact (leavesAll_flatAnd p q).mpr (h q hq) x hx

/-- closed under `Comparator.negate` -/
def NegClosed (p : Cmp → Nat → Val → Bool) : Prop := ∀ c i v, p c i v = true → p c.negate i v = true

mutual
theorem leavesAll_negate (hp : NegClosed p) : ∀ q : Q, leavesAll p q = true → leavesAll p (negate q) = true
  | .cmp c i v => by simp only [negate, leavesAll]; exact hp c i v
  | .range _ _ _ _ _ _ => by simp [negate, leavesAll]
  | .and qs => by
    intro h
    simp only [negate]
    rw [leavesAll_mkOr]
    exact leavesAll_negateList hp qs ((leavesAll_and p qs).mp h)
  | .or qs => by
    intro h
    simp only [negate]
    rw [leavesAll_mkAnd]
    exact leavesAll_negateList hp qs ((leavesAll_or p qs).mp h)
  | .not q => by simp only [negate, leavesAll]; exact id
theorem leavesAll_negateList (hp : NegClosed p) : ∀ qs : List Q, (∀ q ∈ qs, leavesAll p q = true) →
    ∀ x ∈ negateList qs, leavesAll p x = true
  | [] => by simp [negateList]
  | q :: qs => by
    intro h x hx
    simp only [negateList, List.mem_cons] at hx
    rcases hx with rfl | hx
    · exact leavesAll_negate hp q (h q (by simp))
    · exact leavesAll_negateList hp qs (fun y hy => h y (List.mem_cons_of_mem _ hy)) x hx
end

/-! ### `_apply` looks at the leaf oracle only at the leaves of the tree -/

theorem applyFuelL_ext {L L' : Leaves} (hp : NegClosed p)
    (hc : ∀ c i v, p c i v = true → L.cmp c i v = L'.cmp c i v)
    (hr : ∀ neg i lo hi el eh, L.range neg i lo hi el eh = L'.range neg i lo hi el eh) :
    ∀ (n : Nat) (q : Q), leavesAll p q = true → applyFuelL L n q = applyFuelL L' n q := by
  intro n
  induction n with
  | zero => intro q _; rfl
  | succ n ih =>
    intro q hq
    cases q with
    | cmp c i v => exact hc c i v hq
    | range neg i lo hi el eh => exact hr neg i lo hi el eh
    | not q => exact ih (negate q) (leavesAll_negate hp q hq)
    | and qs =>
      cases qs with
      | nil => rfl
      | cons q0 rest =>
        have hall := (leavesAll_and p _).mp hq
        simp only [applyFuelL]
        rw [ih q0 (hall q0 (by simp))]
        cases applyFuelL L' n q0 with
        | error e => rfl
        | ok r0 =>
          simp only [bind, Except.bind]
          apply foldlM_congr
          intro acc x hx
          rw [ih x (hall x (List.mem_cons_of_mem _ hx))]
    | or qs =>
      cases qs with
      | nil => rfl
      | cons q0 rest =>
        have hall := (leavesAll_or p _).mp hq
        simp only [applyFuelL]
        rw [ih q0 (hall q0 (by simp))]
        cases applyFuelL L' n q0 with
        | error e => rfl
        | ok r0 =>
          simp only [bind, Except.bind]
          apply foldlM_congr
          intro acc x hx
          rw [ih x (hall x (List.mem_cons_of_mem _ hx))]

theorem applyQL_ext {L L' : Leaves} (hp : NegClosed p)
    (hc : ∀ c i v, p c i v = true → L.cmp c i v = L'.cmp c i v)
    (hr : ∀ neg i lo hi el eh, L.range neg i lo hi el eh = L'.range neg i lo hi el eh)
    (q : Q) (hq : leavesAll p q = true) : applyQL L q = applyQL L' q :=
  applyFuelL_ext hp hc hr _ q hq

/-! ### `_optimize` -/

/-- what `_optimize` needs of a leaf predicate: closed under negation, true of the `Gt/Ge/Lt/Le` bounds the
pairing loops consume and of the list-valued comparators the folds produce -/
structure OptClosed (p : Cmp → Nat → Val → Bool) : Prop where
  neg : NegClosed p
  bound : ∀ s i v, p (lowerCmp s) i v = true ∧ p (upperCmp s) i v = true
  many : ∀ c i xs, p c i (.many xs) = true

theorem leavesAll_collapse_and (L : List Q) (h : ∀ q ∈ L, leavesAll p q = true) :
    leavesAll p (collapse mkAnd L) = true := by
  unfold collapse
  split
  · exact h _ (by simp)
  · exact (leavesAll_mkAnd p L).mpr h

theorem leavesAll_collapse_or (L : List Q) (h : ∀ q ∈ L, leavesAll p q = true) :
    leavesAll p (collapse mkOr L) = true := by
  unfold collapse
  split
  · exact h _ (by simp)
  · exact (leavesAll_mkOr p L).mpr h

theorem leavesAll_optFuel (hp : OptClosed p) : ∀ (n : Nat) (q : Q), leavesAll p q = true →
    leavesAll p (optFuel n q) = true := by
  intro n
  induction n with
  | zero => intro q h; exact h
  | succ n ih =>
    intro q hq
    cases q with
    | cmp c i v => exact hq
    | range neg i lo hi el eh => exact hq
    | not q => exact ih (negate q) (leavesAll_negate hp.neg q hq)
    | and qs =>
      have hall := (leavesAll_and p _).mp hq
      simp only [optFuel]
      cases he : foldSame .eq qs with
      | some r => obtain ⟨i, xs⟩ := r; exact hp.many _ _ _
      | none =>
        cases hn : foldSame .noteq qs with
        | some r => obtain ⟨i, xs⟩ := r; exact hp.many _ _ _
        | none =>
          simp only
          have hall' : ∀ q ∈ qs.map (optFuel n), leavesAll p q = true := by
            intro q hq'
            obtain ⟨x, hx, rfl⟩ := List.mem_map.mp hq'
            exact ih x (hall x hx)
          rw [andStep_eq]
          have hL : ∀ q ∈ pairLoop (genStep lowerOf upperOf mkInRange) (qs.map (optFuel n)),
              leavesAll p q = true := by
            apply (pairLoop_forall (P := fun q => leavesAll p q = true) lower_upper_disj ?_).mpr hall'
            intro qa hqa qb hqb idx a sa b sb hl hu
            rw [lowerOf_spec hl, upperOf_spec hu]
            simp only [mkInRange, leavesAll, (hp.bound _ _ _).1, (hp.bound _ _ _).2, and_self]
          exact leavesAll_collapse_and _ hL
    | or qs =>
      have hall := (leavesAll_or p _).mp hq
      simp only [optFuel]
      cases he : foldSame .eq qs with
      | some r => obtain ⟨i, xs⟩ := r; exact hp.many _ _ _
      | none =>
        cases hn : foldSame .noteq qs with
        | some r => obtain ⟨i, xs⟩ := r; exact hp.many _ _ _
        | none =>
          simp only
          have hall' : ∀ q ∈ qs.map (optFuel n), leavesAll p q = true := by
            intro q hq'
            obtain ⟨x, hx, rfl⟩ := List.mem_map.mp hq'
            exact ih x (hall x hx)
          rw [orStep_eq]
          have hL : ∀ q ∈ pairLoop (genStep upperOf lowerOf mkNotInRange) (qs.map (optFuel n)),
              leavesAll p q = true := by
            apply (pairLoop_forall (P := fun q => leavesAll p q = true)
              (fun q x y hu hl => lower_upper_disj q y x hl hu) ?_).mpr hall'
            intro qa hqa qb hqb idx a sa b sb hu hl
            rw [lowerOf_spec hl, upperOf_spec hu]
            simp only [mkNotInRange, leavesAll, (hp.bound _ _ _).1, (hp.bound _ _ _).2, and_self]
          exact leavesAll_collapse_or _ hL

theorem leavesAll_optimize (hp : OptClosed p) (q : Q) (hq : leavesAll p q = true) :
    leavesAll p (optimize q) = true := leavesAll_optFuel hp _ q hq

/-! ### the instance used by the composition with C03 -/

theorem textCmp_negate (c : Cmp) : textCmp c.negate = textCmp c := by cases c <;> rfl

theorem listedAt_of_not_text (h : IndexH) {c : Cmp} (hc : textCmp c = false) (v : Val) :
    listedAt h c v = true := by
  unfold listedAt
  split <;> simp [hc]

theorem listedAt_congr (h : IndexH) {c c' : Cmp} (hc : textCmp c = textCmp c') (v : Val) :
    listedAt h c v = listedAt h c' v := by
  unfold listedAt
  split <;> simp [hc]

theorem listedLeaf_optClosed (hs : List IndexH) : OptClosed (listedLeaf hs) where
  neg := by
    intro c i v h
    unfold listedLeaf at h ⊢
    split
    · next hh heq => rw [heq] at h; rw [listedAt_congr hh (textCmp_negate c)]; exact h
    · rfl
  bound := by
    intro s i v
    unfold listedLeaf
    cases s <;> (constructor <;> (split <;> first | rfl | exact listedAt_of_not_text _ rfl _))
  many := by
    intro c i xs
    unfold listedLeaf listedAt
    split
    · split <;> simp_all
    · rfl

theorem leavesListed_optimize (hs : List IndexH) (q : Q) (h : leavesListed hs q = true) :
    leavesListed hs (optimize q) = true := leavesAll_optimize (listedLeaf_optClosed hs) q h

theorem leavesListed_negate (hs : List IndexH) (q : Q) (h : leavesListed hs q = true) :
    leavesListed hs (negate q) = true := leavesAll_negate (listedLeaf_optClosed hs).neg q h

end Hyp.Query
