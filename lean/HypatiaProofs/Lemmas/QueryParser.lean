import HypatiaProofs.Lemmas.QueryGrammar
/-!
The recursive-descent model against the grammar: helper equalities between the model's and
the specification's semantic actions, soundness (strong induction on the number of tokens)
and completeness (induction on derivations).
-/
set_option linter.unusedSimpArgs false
set_option linter.unusedVariables false
namespace Hyp.QP
open Spec

/-! ### semantic actions: model = specification -/

theorem optList_eq (t : Option Tree) : optList t = optL t := by cases t <;> rfl

theorem mkOr_eq (L : List Tree) : mkOr L = disj L := by
  match L with
  | [] => rfl
  | [x] => rfl
  | x :: y :: l => rfl

theorem mkAnd_eq (L nots : List Tree) :
    mkAnd L nots = if L = [] then none else conj (L ++ nots) := by
  match L, nots with
  | [], _ => rfl
  | [x], [] => rfl
  | [x], n :: ns => rfl
  | x :: y :: l, _ => rfl

theorem startsWithHyphen_iff (s : Str) : startsWithHyphen s = true ↔ s.head? = some HYPHEN := by
  cases s with
  | nil => simp [startsWithHyphen]
  | cons c cs => simp [startsWithHyphen]

theorem parseAtom_eq (lx : Lex) (s : Str) : parseAtom lx s = atomNode lx s := by
  unfold parseAtom atomNode
  by_cases hh : s.head? = some HYPHEN
  · have := (startsWithHyphen_iff s).mpr hh
    match hp : lx.parseTerms s with
    | [] => simp [leaf]
    | [w] => simp [leaf, this, hh]
    | w1 :: w2 :: ws => simp [leaf, this, hh]
  · have : startsWithHyphen s = false := by
      cases h : startsWithHyphen s with
      | false => rfl
      | true => exact absurd ((startsWithHyphen_iff s).mp h) hh
    match hp : lx.parseTerms s with
    | [] => simp [leaf]
    | [w] => simp [leaf, this, hh]
    | w1 :: w2 :: ws => simp [leaf, this, hh]

theorem filter_notpos (N : List Tree) :
    N.filter (fun n => n.isNot) = N.filter (fun t => !positive t) := by
  congr 1; funext t; simp [positive]

theorem filter_pos (N : List Tree) :
    N.filter (fun n => !n.isNot) = N.filter positive := rfl

theorem filter_pos_nil {N : List Tree} (h : N.filter positive = []) :
    N.filter (fun t => !positive t) = N := by
  induction N with
  | nil => rfl
  | cons a N ih =>
    simp only [List.filter_cons] at h ⊢
    cases hp : positive a with
    | true => simp [hp] at h
    | false =>
      simp only [hp] at h
      simp [ih (by simpa using h)]

/-- `_parseTerm`'s ATOM branch computes the specification's value and raises exactly when
there are nodes but no positive one -/
theorem combineAtoms_ok_iff (nodes : List (Option Tree)) (v : Option Tree) :
    combineAtoms nodes = .ok v ↔
      ((nodes.filterMap id = [] ∨ ∃ t ∈ nodes.filterMap id, positive t = true) ∧
        v = conj ((nodes.filterMap id).filter positive ++
                  (nodes.filterMap id).filter (fun t => !positive t))) := by
  unfold combineAtoms
  simp only [filter_notpos, filter_pos]
  generalize nodes.filterMap id = N
  cases hP : N.filter positive with
  | nil =>
    rw [filter_pos_nil hP]
    cases N with
    | nil => simp [conj]; exact eq_comm
    | cons a N =>
      have ha : positive a = false := by
        cases h : positive a with
        | false => rfl
        | true => simp [List.filter_cons, h] at hP
      have ha' : a.isNot = true := by simpa [positive] using ha
      simp only [List.nil_append, ha', if_true]
      constructor
      · intro h; cases h
      · rintro ⟨h | ⟨t, ht, htp⟩, _⟩
        · cases h
        · have : t ∈ (a :: N).filter positive := List.mem_filter.mpr ⟨ht, htp⟩
          rw [hP] at this
          simp at this
  | cons x P =>
    have hx : x ∈ N.filter positive := by rw [hP]; exact List.mem_cons_self
    have hxp : positive x = true := (List.mem_filter.mp hx).2
    have hxn : x.isNot = false := by simpa [positive] using hxp
    have hex : (N = [] ∨ ∃ t ∈ N, positive t = true) := .inr ⟨x, (List.mem_filter.mp hx).1, hxp⟩
    simp only [List.cons_append, hxn]
    cases hrest : P ++ N.filter (fun t => !positive t) with
    | nil =>
      simp [conj, hex]
      exact eq_comm
    | cons y ys =>
      simp [conj, hex]
      exact eq_comm

theorem ignoredOf_eq (lx : Lex) (terms : List Str) :
    ignoredOf lx terms = terms.filter (fun s => lx.parseTerms s = []) := by
  unfold ignoredOf
  congr 1; funext s
  cases lx.parseTerms s <;> simp

/-! ### the run of ATOM tokens -/

theorem atoms_spec (ts : List Tok) :
    ts = (atoms ts).1.map .atom ++ (atoms ts).2.val ∧ ∀ a r', (atoms ts).2.val ≠ .atom a :: r' := by
  induction ts with
  | nil => simp [atoms]
  | cons t ts ih =>
    cases t with
    | atom s =>
      simp only [atoms]
      refine ⟨?_, ih.2⟩
      simp only [List.map_cons, List.cons_append]
      congr 1
      exact ih.1
    | and => simp [atoms]
    | or => simp [atoms]
    | not => simp [atoms]
    | lp => simp [atoms]
    | rp => simp [atoms]

theorem atoms_append (terms : List Str) (rest : List Tok) (hrest : ∀ a r', rest ≠ .atom a :: r') :
    (atoms (terms.map .atom ++ rest)).1 = terms ∧ (atoms (terms.map .atom ++ rest)).2.val = rest := by
  induction terms with
  | nil =>
    change (atoms rest).1 = [] ∧ (atoms rest).2.val = rest
    cases rest with
    | nil => simp [atoms]
    | cons t r =>
      cases t with
      | atom s => exact absurd rfl (hrest s r)
      | and => simp [atoms]
      | or => simp [atoms]
      | not => simp [atoms]
      | lp => simp [atoms]
      | rp => simp [atoms]
  | cons s terms ih =>
    change (atoms (.atom s :: (terms.map .atom ++ rest))).1 = s :: terms ∧
      (atoms (.atom s :: (terms.map .atom ++ rest))).2.val = rest
    simp only [atoms]
    exact ⟨by rw [ih.1], ih.2⟩

/-! ### soundness: what the parser returns is derivable -/

def SoundTerm (lx : Lex) (ts : List Tok) : Prop :=
  ∀ v ig r h, parseTerm lx ts = .ok (v, ig, ⟨r, h⟩) →
    ∃ pre, ts = pre ++ r ∧ Derives lx .term pre v ig

def SoundAnd (lx : Lex) (ts : List Tok) : Prop :=
  ∀ v ig r h, parseAnd lx ts = .ok (v, ig, ⟨r, h⟩) →
    ∃ pre, ts = pre ++ r ∧ Derives lx .andE pre v ig

def SoundOr (lx : Lex) (ts : List Tok) : Prop :=
  ∀ v ig r h, parseOr lx ts = .ok (v, ig, ⟨r, h⟩) →
    ∃ pre, ts = pre ++ r ∧ Derives lx .orE pre v ig

def SoundAndTail (lx : Lex) (ts : List Tok) : Prop :=
  ∀ L nots ig r h, andTail lx ts = .ok ((L, nots), ig, ⟨r, h⟩) →
    ∃ items : List (AndOp × Seg),
      ts = items.flatMap (fun it => it.1.toks ++ it.2.toks) ++ r ∧
      (∀ it ∈ items, Derives lx .term it.2.toks it.2.val it.2.ig) ∧
      L = items.filterMap posVal ∧ nots = items.filterMap negVal ∧
      ig = items.flatMap (fun it => it.2.ig)

def SoundOrTail (lx : Lex) (ts : List Tok) : Prop :=
  ∀ more ig r h, orTail lx ts = .ok (more, ig, ⟨r, h⟩) →
    ∃ items : List Seg,
      ts = items.flatMap (fun it => Tok.or :: it.toks) ++ r ∧
      (∀ it ∈ items, Derives lx .andE it.toks it.val it.ig) ∧
      more = items.filterMap (fun it => it.val) ∧
      ig = items.flatMap (fun it => it.ig)

/-- adding one item in front of the items of an and-tail -/
theorem andTail_cons {lx : Lex} (op : AndOp) {rest pre r1 r : List Tok} {t : Option Tree}
    {ig1 : List Str} {items : List (AndOp × Seg)}
    (hpre : rest = pre ++ r1) (hd : Derives lx .term pre t ig1)
    (hts : r1 = items.flatMap (fun it => it.1.toks ++ it.2.toks) ++ r)
    (hall : ∀ it ∈ items, Derives lx .term it.2.toks it.2.val it.2.ig) :
    op.toks ++ rest = ((op, (⟨pre, t, ig1⟩ : Seg)) :: items).flatMap (fun it => it.1.toks ++ it.2.toks) ++ r ∧
    (∀ it ∈ (op, (⟨pre, t, ig1⟩ : Seg)) :: items, Derives lx .term it.2.toks it.2.val it.2.ig) := by
  refine ⟨?_, ?_⟩
  · simp only [List.flatMap_cons, List.append_assoc]
    rw [hpre, hts]
  · intro it hit
    rcases List.mem_cons.mp hit with rfl | hit
    · exact hd
    · exact hall it hit

theorem sound_andTail_step (lx : Lex) (ts : List Tok)
    (ihT : ∀ ts' : List Tok, ts'.length < ts.length → SoundTerm lx ts')
    (ihA : ∀ ts' : List Tok, ts'.length < ts.length → SoundAndTail lx ts') :
    SoundAndTail lx ts := by
  intro L nots ig r h heq
  rw [andTail.eq_def] at heq
  split at heq
  · -- AND NOT Term
    rename_i rest
    cases hpt : parseTerm lx rest with
    | error e => simp [hpt] at heq
    | ok res =>
      obtain ⟨t, ig1, ⟨r1, h1⟩⟩ := res
      simp only [hpt] at heq
      cases hat : andTail lx r1 with
      | error e => simp [hat] at heq
      | ok res2 =>
        obtain ⟨⟨L2, nots2⟩, ig2, ⟨r2, h2⟩⟩ := res2
        simp only [hat, Except.ok.injEq, Prod.mk.injEq, Subtype.mk.injEq] at heq
        obtain ⟨⟨rfl, rfl⟩, rfl, rfl⟩ := heq
        obtain ⟨pre, hpre, hd⟩ := ihT rest (by simp only [List.length_cons]; omega) _ _ _ _ hpt
        obtain ⟨items, hts, hall, hL, hN, hig⟩ :=
          ihA r1 (by simp only [List.length_cons]; omega) _ _ _ _ _ hat
        have := andTail_cons (lx := lx) .andNot hpre hd hts hall
        refine ⟨_, this.1, this.2, ?_, ?_, ?_⟩
        · simp [List.filterMap_cons, posVal, AndOp.neg, hL]
        · cases t <;> simp [List.filterMap_cons, negVal, AndOp.neg, hN, optList]
        · simp [List.flatMap_cons, hig]
  · -- AND Term
    rename_i rest hnn
    cases hpt : parseTerm lx rest with
    | error e => simp [hpt] at heq
    | ok res =>
      obtain ⟨t, ig1, ⟨r1, h1⟩⟩ := res
      simp only [hpt] at heq
      cases hat : andTail lx r1 with
      | error e => simp [hat] at heq
      | ok res2 =>
        obtain ⟨⟨L2, nots2⟩, ig2, ⟨r2, h2⟩⟩ := res2
        simp only [hat] at heq
        obtain ⟨pre, hpre, hd⟩ := ihT rest (by simp only [List.length_cons]; omega) _ _ _ _ hpt
        obtain ⟨items, hts, hall, hL, hN, hig⟩ :=
          ihA r1 (by simp only [List.length_cons]; omega) _ _ _ _ _ hat
        have := andTail_cons (lx := lx) .and hpre hd hts hall
        cases t with
        | none =>
          simp only [Except.ok.injEq, Prod.mk.injEq, Subtype.mk.injEq] at heq
          obtain ⟨⟨rfl, rfl⟩, rfl, rfl⟩ := heq
          refine ⟨_, this.1, this.2, ?_, ?_, ?_⟩
          · simp [List.filterMap_cons, posVal, AndOp.neg, hL]
          · simp [List.filterMap_cons, negVal, AndOp.neg, hN]
          · simp [List.flatMap_cons, hig]
        | some x =>
          have hx : x.isNot = false := wf_positive (derives_wf hd x rfl)
          simp only [hx, Bool.false_eq_true, if_false, Except.ok.injEq, Prod.mk.injEq,
            Subtype.mk.injEq] at heq
          obtain ⟨⟨rfl, rfl⟩, rfl, rfl⟩ := heq
          refine ⟨_, this.1, this.2, ?_, ?_, ?_⟩
          · simp [List.filterMap_cons, posVal, AndOp.neg, hL]
          · simp [List.filterMap_cons, negVal, AndOp.neg, hN]
          · simp [List.flatMap_cons, hig]
  · -- NOT Term
    rename_i rest
    cases hpt : parseTerm lx rest with
    | error e => simp [hpt] at heq
    | ok res =>
      obtain ⟨t, ig1, ⟨r1, h1⟩⟩ := res
      simp only [hpt] at heq
      cases hat : andTail lx r1 with
      | error e => simp [hat] at heq
      | ok res2 =>
        obtain ⟨⟨L2, nots2⟩, ig2, ⟨r2, h2⟩⟩ := res2
        simp only [hat, Except.ok.injEq, Prod.mk.injEq, Subtype.mk.injEq] at heq
        obtain ⟨⟨rfl, rfl⟩, rfl, rfl⟩ := heq
        obtain ⟨pre, hpre, hd⟩ := ihT rest (by simp only [List.length_cons]; omega) _ _ _ _ hpt
        obtain ⟨items, hts, hall, hL, hN, hig⟩ :=
          ihA r1 (by simp only [List.length_cons]; omega) _ _ _ _ _ hat
        have := andTail_cons (lx := lx) .not hpre hd hts hall
        refine ⟨_, this.1, this.2, ?_, ?_, ?_⟩
        · simp [List.filterMap_cons, posVal, AndOp.neg, hL]
        · cases t <;> simp [List.filterMap_cons, negVal, AndOp.neg, hN, optList]
        · simp [List.flatMap_cons, hig]
  · -- no operator: the loop ends
    simp only [Except.ok.injEq, Prod.mk.injEq, Subtype.mk.injEq] at heq
    obtain ⟨⟨rfl, rfl⟩, rfl, rfl⟩ := heq
    exact ⟨[], by simp, by simp, rfl, rfl, rfl⟩

theorem sound_orTail_step (lx : Lex) (ts : List Tok)
    (ihA : ∀ ts' : List Tok, ts'.length < ts.length → SoundAnd lx ts')
    (ihO : ∀ ts' : List Tok, ts'.length < ts.length → SoundOrTail lx ts') :
    SoundOrTail lx ts := by
  intro more ig r h heq
  rw [orTail.eq_def] at heq
  split at heq
  · rename_i rest
    cases hpa : parseAnd lx rest with
    | error e => simp [hpa] at heq
    | ok res =>
      obtain ⟨t, ig1, ⟨r1, h1⟩⟩ := res
      simp only [hpa] at heq
      cases hot : orTail lx r1 with
      | error e => simp [hot] at heq
      | ok res2 =>
        obtain ⟨more2, ig2, ⟨r2, h2⟩⟩ := res2
        simp only [hot, Except.ok.injEq, Prod.mk.injEq, Subtype.mk.injEq] at heq
        obtain ⟨rfl, rfl, rfl⟩ := heq
        obtain ⟨pre, hpre, hd⟩ := ihA rest (by simp only [List.length_cons]; omega) _ _ _ _ hpa
        obtain ⟨items, hts, hall, hM, hig⟩ :=
          ihO r1 (by simp only [List.length_cons]; omega) _ _ _ _ hot
        refine ⟨(⟨pre, t, ig1⟩ : Seg) :: items, ?_, ?_, ?_, ?_⟩
        · simp only [List.flatMap_cons, List.cons_append, List.append_assoc]
          rw [hpre, hts]
        · intro it hit
          rcases List.mem_cons.mp hit with rfl | hit
          · exact hd
          · exact hall it hit
        · cases t <;> simp [List.filterMap_cons, optList, hM]
        · simp [List.flatMap_cons, hig]
  · simp only [Except.ok.injEq, Prod.mk.injEq, Subtype.mk.injEq] at heq
    obtain ⟨rfl, rfl, rfl⟩ := heq
    exact ⟨[], by simp, by simp, rfl, rfl⟩

theorem sound_term_step (lx : Lex) (ts : List Tok)
    (ihO : ∀ ts' : List Tok, ts'.length < ts.length → SoundOr lx ts') :
    SoundTerm lx ts := by
  intro v ig r h heq
  rw [parseTerm.eq_def] at heq
  split at heq
  · -- '(' OrExpr ')'
    rename_i rest
    cases hpo : parseOr lx rest with
    | error e => simp [hpo] at heq
    | ok res =>
      obtain ⟨t, ig1, ⟨r1, h1⟩⟩ := res
      simp only [hpo] at heq
      obtain ⟨pre, hpre, hd⟩ := ihO rest (by simp only [List.length_cons]; omega) _ _ _ _ hpo
      split at heq
      · rename_i r2 h2 _ _
        simp only [Except.ok.injEq, Prod.mk.injEq, Subtype.mk.injEq] at heq
        obtain ⟨rfl, rfl, rfl⟩ := heq
        refine ⟨.lp :: pre ++ [.rp], ?_, .paren hd⟩
        simp only [List.cons_append, List.append_assoc, List.nil_append]
        rw [hpre]
      · cases heq
  · -- ATOM+
    rename_i s rest
    have hsp := atoms_spec (.atom s :: rest)
    cases hat : atoms (.atom s :: rest) with
    | mk terms rr =>
      obtain ⟨r', h'⟩ := rr
      simp only [hat] at heq hsp
      cases hc : combineAtoms (terms.map (parseAtom lx)) with
      | error e => simp [hc] at heq
      | ok t =>
        simp only [hc, Except.ok.injEq, Prod.mk.injEq, Subtype.mk.injEq] at heq
        obtain ⟨rfl, rfl, rfl⟩ := heq
        have hiff := (combineAtoms_ok_iff _ _).mp hc
        have hmap : (terms.map (parseAtom lx)).filterMap id = terms.filterMap (atomNode lx) := by
          rw [List.filterMap_map]
          congr 1; funext s; simp [parseAtom_eq]
        rw [hmap] at hiff
        have hne : terms ≠ [] := by
          intro he
          subst he
          have := hsp.2 s rest
          simp at hsp
          exact this hsp.1.symm
        refine ⟨terms.map .atom, hsp.1, ?_⟩
        rw [hiff.2, ignoredOf_eq]
        exact .atoms terms hne hiff.1
  · cases heq

theorem sound_and_step (lx : Lex) (ts : List Tok) (hT : SoundTerm lx ts)
    (hA : ∀ ts' : List Tok, ts'.length ≤ ts.length → SoundAndTail lx ts') :
    SoundAnd lx ts := by
  intro v ig r h heq
  rw [parseAnd.eq_def] at heq
  cases hpt : parseTerm lx ts with
  | error e => simp [hpt] at heq
  | ok res =>
    obtain ⟨t, ig1, ⟨r1, h1⟩⟩ := res
    simp only [hpt] at heq
    cases hat : andTail lx r1 with
    | error e => simp [hat] at heq
    | ok res2 =>
      obtain ⟨⟨L, nots⟩, ig2, ⟨r2, h2⟩⟩ := res2
      simp only [hat, Except.ok.injEq, Prod.mk.injEq, Subtype.mk.injEq] at heq
      obtain ⟨rfl, rfl, rfl⟩ := heq
      obtain ⟨pre, hpre, hd⟩ := hT _ _ _ _ hpt
      obtain ⟨items, hts, hall, hL, hN, hig⟩ := hA r1 h1 _ _ _ _ _ hat
      refine ⟨pre ++ items.flatMap (fun it => it.1.toks ++ it.2.toks), ?_, ?_⟩
      · rw [List.append_assoc, ← hts, ← hpre]
      · rw [mkAnd_eq, optList_eq, hL, hN, hig]
        exact .andE items hd hall

theorem sound_or_step (lx : Lex) (ts : List Tok) (hA : SoundAnd lx ts)
    (hO : ∀ ts' : List Tok, ts'.length ≤ ts.length → SoundOrTail lx ts') :
    SoundOr lx ts := by
  intro v ig r h heq
  rw [parseOr.eq_def] at heq
  cases hpa : parseAnd lx ts with
  | error e => simp [hpa] at heq
  | ok res =>
    obtain ⟨t, ig1, ⟨r1, h1⟩⟩ := res
    simp only [hpa] at heq
    cases hot : orTail lx r1 with
    | error e => simp [hot] at heq
    | ok res2 =>
      obtain ⟨more, ig2, ⟨r2, h2⟩⟩ := res2
      simp only [hot, Except.ok.injEq, Prod.mk.injEq, Subtype.mk.injEq] at heq
      obtain ⟨rfl, rfl, rfl⟩ := heq
      obtain ⟨pre, hpre, hd⟩ := hA _ _ _ _ hpa
      obtain ⟨items, hts, hall, hM, hig⟩ := hO r1 h1 _ _ _ _ hot
      refine ⟨pre ++ items.flatMap (fun it => Tok.or :: it.toks), ?_, ?_⟩
      · rw [List.append_assoc, ← hts, ← hpre]
      · rw [mkOr_eq, optList_eq, hM, hig]
        exact .orE items hd hall

structure SoundAll (lx : Lex) (ts : List Tok) : Prop where
  andTail : SoundAndTail lx ts
  orTail : SoundOrTail lx ts
  term : SoundTerm lx ts
  andE : SoundAnd lx ts
  orE : SoundOr lx ts

theorem sound_level (lx : Lex) (n : Nat) (ih : ∀ ts : List Tok, ts.length < n → SoundAll lx ts) :
    ∀ ts : List Tok, ts.length ≤ n → SoundAll lx ts := by
  have hAT : ∀ ts : List Tok, ts.length ≤ n → SoundAndTail lx ts := fun ts hts =>
    sound_andTail_step lx ts (fun ts' h' => (ih ts' (by omega)).term)
      (fun ts' h' => (ih ts' (by omega)).andTail)
  have hT : ∀ ts : List Tok, ts.length ≤ n → SoundTerm lx ts := fun ts hts =>
    sound_term_step lx ts (fun ts' h' => (ih ts' (by omega)).orE)
  have hA : ∀ ts : List Tok, ts.length ≤ n → SoundAnd lx ts := fun ts hts =>
    sound_and_step lx ts (hT ts hts) (fun ts' h' => hAT ts' (by omega))
  have hOT : ∀ ts : List Tok, ts.length ≤ n → SoundOrTail lx ts := fun ts hts =>
    sound_orTail_step lx ts (fun ts' h' => (ih ts' (by omega)).andE)
      (fun ts' h' => (ih ts' (by omega)).orTail)
  intro ts hts
  exact ⟨hAT ts hts, hOT ts hts, hT ts hts, hA ts hts,
    sound_or_step lx ts (hA ts hts) (fun ts' h' => hOT ts' (by omega))⟩

theorem sound_all (lx : Lex) : ∀ (n : Nat) (ts : List Tok), ts.length < n → SoundAll lx ts := by
  intro n
  induction n with
  | zero => intro ts h; omega
  | succ n ih => intro ts h; exact sound_level lx n ih ts (by omega)

theorem parseOr_sound (lx : Lex) (ts : List Tok) : SoundOr lx ts :=
  (sound_all lx (ts.length + 1) ts (by omega)).orE

/-- `parseTokens` only returns what the grammar derives -/
theorem parseTokens_sound {lx : Lex} {ts : List Tok} {t : Tree} {ig : List Str}
    (h : parseTokens lx ts = .ok (t, ig)) : Query lx ts t ig := by
  unfold parseTokens at h
  cases hpo : parseOr lx ts with
  | error e => simp [hpo] at h
  | ok res =>
    obtain ⟨v, ig1, ⟨r, hr⟩⟩ := res
    simp only [hpo] at h
    cases r with
    | cons a b => simp at h
    | nil =>
      cases v with
      | none => simp at h
      | some x =>
        simp only [Except.ok.injEq, Prod.mk.injEq] at h
        obtain ⟨rfl, rfl⟩ := h
        obtain ⟨pre, hpre, hd⟩ := parseOr_sound lx ts _ _ _ _ hpo
        simp only [List.append_nil] at hpre
        subst hpre
        exact hd

/-! ### completeness: what the grammar derives is what the parser returns -/

/-- forget the length proof carried by a sub-parser's result -/
def strip {α : Type} {ts : List Tok} (r : Res α ts) : Except PErr (α × List Str × List Tok) :=
  match r with
  | .error e => .error e
  | .ok (a, ig, ⟨r, _⟩) => .ok (a, ig, r)

theorem strip_ok {α : Type} {ts : List Tok} {r : Res α ts} {a : α} {ig : List Str} {rest : List Tok}
    (h : strip r = .ok (a, ig, rest)) : ∃ hl, r = .ok (a, ig, ⟨rest, hl⟩) := by
  unfold strip at h
  match r, h with
  | .ok (a', ig', ⟨r', h'⟩), h =>
    simp only [Except.ok.injEq, Prod.mk.injEq] at h
    obtain ⟨rfl, rfl, rfl⟩ := h
    exact ⟨h', rfl⟩

/-- what may follow a phrase of each kind (anything that cannot continue it) -/
def Follow : Sym → List Tok → Prop
  | .term, rest => ∀ a r, rest ≠ .atom a :: r
  | .andE, rest => (∀ a r, rest ≠ .atom a :: r) ∧ (∀ r, rest ≠ .and :: r) ∧ (∀ r, rest ≠ .not :: r)
  | .orE, rest => (∀ a r, rest ≠ .atom a :: r) ∧ (∀ r, rest ≠ .and :: r) ∧ (∀ r, rest ≠ .not :: r) ∧
      (∀ r, rest ≠ .or :: r)

def runSym (lx : Lex) : (s : Sym) → (ts : List Tok) → Res (Option Tree) ts
  | .term => parseTerm lx
  | .andE => parseAnd lx
  | .orE => parseOr lx

def Complete (lx : Lex) (s : Sym) (ts : List Tok) (v : Option Tree) (ig : List Str) : Prop :=
  ∀ rest, Follow s rest → strip (runSym lx s (ts ++ rest)) = .ok (v, ig, rest)

theorem andTail_stop (lx : Lex) (rest : List Tok) (h1 : ∀ r, rest ≠ .and :: r)
    (h2 : ∀ r, rest ≠ .not :: r) :
    strip (andTail lx rest) = .ok (([], []), [], rest) := by
  rw [andTail.eq_def]
  split
  · exact absurd rfl (h1 _)
  · exact absurd rfl (h1 _)
  · exact absurd rfl (h2 _)
  · rfl

theorem orTail_stop (lx : Lex) (rest : List Tok) (h1 : ∀ r, rest ≠ .or :: r) :
    strip (orTail lx rest) = .ok ([], [], rest) := by
  rw [orTail.eq_def]
  split
  · exact absurd rfl (h1 _)
  · rfl

theorem follow_term_items (items : List (AndOp × Seg)) (rest : List Tok) (h : Follow .andE rest) :
    Follow .term (items.flatMap (fun it => it.1.toks ++ it.2.toks) ++ rest) := by
  cases items with
  | nil => intro a r; simpa using h.1 a r
  | cons it items =>
    obtain ⟨op, sg⟩ := it
    intro a r
    cases op <;> simp [AndOp.toks]

theorem follow_and_items (items : List Seg) (rest : List Tok) (h : Follow .orE rest) :
    Follow .andE (items.flatMap (fun it => Tok.or :: it.toks) ++ rest) := by
  cases items with
  | nil => exact ⟨by simpa using h.1, by simpa using h.2.1, by simpa using h.2.2.1⟩
  | cons it items => exact ⟨by intro a r; simp, by intro r; simp, by intro r; simp⟩

/-- what one `AND Term` iteration does to (L, Nots) -/
def andStep (t : Option Tree) (L nots : List Tree) : List Tree × List Tree :=
  match t with
  | none => (L, nots)
  | some x => if x.isNot then (L, x :: nots) else (x :: L, nots)

theorem andTail_and_strip (lx : Lex) (Y : List Tok) (hnn : ∀ r, Y ≠ .not :: r)
    {t : Option Tree} {ig1 : List Str} {r1 : List Tok} {h1 : r1.length ≤ Y.length}
    (hpt : parseTerm lx Y = .ok (t, ig1, ⟨r1, h1⟩))
    {L nots : List Tree} {ig2 : List Str} {r2 : List Tok} {h2 : r2.length ≤ r1.length}
    (hat : andTail lx r1 = .ok ((L, nots), ig2, ⟨r2, h2⟩)) :
    strip (andTail lx (.and :: Y)) =
      .ok (andStep t L nots, ig1 ++ ig2, r2) := by
  cases Y with
  | nil =>
    rw [andTail.eq_def]
    simp only [hpt, hat]
    cases t with
    | none => simp [strip, andStep]
    | some x => cases hx : x.isNot <;> simp [strip, andStep, hx]
  | cons y ys =>
    cases y with
    | not => exact absurd rfl (hnn ys)
    | and =>
      rw [andTail.eq_def]
      simp only [hpt, hat]
      cases t with
      | none => simp [strip, andStep]
      | some x => cases hx : x.isNot <;> simp [strip, andStep, hx]
    | or =>
      rw [andTail.eq_def]
      simp only [hpt, hat]
      cases t with
      | none => simp [strip, andStep]
      | some x => cases hx : x.isNot <;> simp [strip, andStep, hx]
    | lp =>
      rw [andTail.eq_def]
      simp only [hpt, hat]
      cases t with
      | none => simp [strip, andStep]
      | some x => cases hx : x.isNot <;> simp [strip, andStep, hx]
    | rp =>
      rw [andTail.eq_def]
      simp only [hpt, hat]
      cases t with
      | none => simp [strip, andStep]
      | some x => cases hx : x.isNot <;> simp [strip, andStep, hx]
    | atom a =>
      rw [andTail.eq_def]
      simp only [hpt, hat]
      cases t with
      | none => simp [strip, andStep]
      | some x => cases hx : x.isNot <;> simp [strip, andStep, hx]

theorem andTail_items (lx : Lex) (items : List (AndOp × Seg)) (rest : List Tok)
    (hD : ∀ it ∈ items, Derives lx .term it.2.toks it.2.val it.2.ig)
    (hC : ∀ it ∈ items, Complete lx .term it.2.toks it.2.val it.2.ig)
    (hrest : Follow .andE rest) :
    strip (andTail lx (items.flatMap (fun it => it.1.toks ++ it.2.toks) ++ rest)) =
      .ok ((items.filterMap posVal, items.filterMap negVal), items.flatMap (fun it => it.2.ig),
        rest) := by
  induction items with
  | nil =>
    simp only [List.flatMap_nil, List.nil_append, List.filterMap_nil]
    exact andTail_stop lx rest hrest.2.1 hrest.2.2
  | cons it items ih =>
    obtain ⟨op, sg⟩ := it
    obtain ⟨h', ih⟩ := strip_ok (ih (fun it hit => hD it (List.mem_cons_of_mem _ hit))
      (fun it hit => hC it (List.mem_cons_of_mem _ hit)))
    have hd := hD _ List.mem_cons_self
    obtain ⟨h1, hpt⟩ := strip_ok (hC _ List.mem_cons_self _ (follow_term_items items rest hrest))
    simp only [runSym] at hpt
    have hpos : ∀ x, sg.val = some x → x.isNot = false :=
      fun x hx => wf_positive (derives_wf hd x hx)
    cases op with
    | andNot =>
      have e : List.flatMap (fun it : AndOp × Seg => it.1.toks ++ it.2.toks) ((AndOp.andNot, sg) :: items) ++ rest
          = Tok.and :: Tok.not :: (sg.toks ++ (items.flatMap (fun it => it.1.toks ++ it.2.toks) ++ rest)) := by
        simp [AndOp.toks]
      rw [e, andTail.eq_def]
      simp only [hpt, ih]
      cases hv : sg.val <;>
        simp [strip, List.filterMap_cons, posVal, negVal, AndOp.neg, hv, optList]
    | not =>
      have e : List.flatMap (fun it : AndOp × Seg => it.1.toks ++ it.2.toks) ((AndOp.not, sg) :: items) ++ rest
          = Tok.not :: (sg.toks ++ (items.flatMap (fun it => it.1.toks ++ it.2.toks) ++ rest)) := by
        simp [AndOp.toks]
      rw [e, andTail.eq_def]
      simp only [hpt, ih]
      cases hv : sg.val <;>
        simp [strip, List.filterMap_cons, posVal, negVal, AndOp.neg, hv, optList]
    | and =>
      have e : List.flatMap (fun it : AndOp × Seg => it.1.toks ++ it.2.toks) ((Spec.AndOp.and, sg) :: items) ++ rest
          = Tok.and :: (sg.toks ++ (items.flatMap (fun it => it.1.toks ++ it.2.toks) ++ rest)) := by
        simp [AndOp.toks]
      obtain ⟨t, r, htr, ht⟩ := derives_term_head hd
      have hnn : ∀ rest_1, sg.toks ++ (items.flatMap (fun it => it.1.toks ++ it.2.toks) ++ rest) ≠
          Tok.not :: rest_1 := by
        intro r1 he
        simp only at htr
        rw [htr] at he
        rcases ht with rfl | ⟨a, rfl⟩ <;> simp at he
      rw [e]
      rw [andTail_and_strip lx _ hnn hpt ih]
      cases hv : sg.val with
      | none => simp [andStep, List.filterMap_cons, posVal, negVal, AndOp.neg, hv]
      | some x => simp [andStep, List.filterMap_cons, posVal, negVal, AndOp.neg, hv, hpos x hv]

theorem orTail_items (lx : Lex) (items : List Seg) (rest : List Tok)
    (hC : ∀ it ∈ items, Complete lx .andE it.toks it.val it.ig)
    (hrest : Follow .orE rest) :
    strip (orTail lx (items.flatMap (fun it => Tok.or :: it.toks) ++ rest)) =
      .ok (items.filterMap (fun it => it.val), items.flatMap (fun it => it.ig), rest) := by
  induction items with
  | nil =>
    simp only [List.flatMap_nil, List.nil_append, List.filterMap_nil]
    exact orTail_stop lx rest hrest.2.2.2
  | cons sg items ih =>
    obtain ⟨h', ih⟩ := strip_ok (ih (fun it hit => hC it (List.mem_cons_of_mem _ hit)))
    obtain ⟨h1, hpa⟩ := strip_ok (hC _ List.mem_cons_self _ (follow_and_items items rest hrest))
    simp only [runSym] at hpa
    have e : List.flatMap (fun it : Seg => Tok.or :: it.toks) (sg :: items) ++ rest
        = Tok.or :: (sg.toks ++ (items.flatMap (fun it => Tok.or :: it.toks) ++ rest)) := by simp
    rw [e, orTail.eq_def]
    simp only [hpa, ih]
    cases hv : sg.val <;> simp [strip, List.filterMap_cons, hv, optList]

theorem derives_complete {lx : Lex} {s : Sym} {ts : List Tok} {v : Option Tree} {ig : List Str}
    (h : Derives lx s ts v ig) : Complete lx s ts v ig := by
  induction h with
  | @paren ts v ig hd ih =>
    intro rest hrest
    obtain ⟨h1, hpo⟩ := strip_ok (ih (.rp :: rest) ⟨by intro a r; simp, by intro r; simp,
      by intro r; simp, by intro r; simp⟩)
    simp only [runSym] at hpo ⊢
    have e : (Tok.lp :: ts ++ [Tok.rp]) ++ rest = Tok.lp :: (ts ++ Tok.rp :: rest) := by simp
    rw [e, parseTerm.eq_def]
    simp only [hpo, strip]
  | atoms terms hne hpos =>
    intro rest hrest
    simp only [runSym, Follow] at hrest ⊢
    obtain ⟨s, terms', rfl⟩ : ∃ s t', terms = s :: t' := by
      cases terms with
      | nil => exact absurd rfl hne
      | cons s t' => exact ⟨s, t', rfl⟩
    have hat := atoms_append (s :: terms') rest hrest
    have e : List.map Tok.atom (s :: terms') ++ rest = Tok.atom s :: (List.map Tok.atom terms' ++ rest) := rfl
    rw [e] at hat ⊢
    rw [parseTerm.eq_def]
    simp only []
    cases hatoms : atoms (Tok.atom s :: (List.map Tok.atom terms' ++ rest)) with
    | mk terms2 rr =>
      obtain ⟨r2, h2⟩ := rr
      rw [hatoms] at hat
      simp only at hat
      obtain ⟨rfl, rfl⟩ := hat
      have hmap : ((s :: terms').map (parseAtom lx)).filterMap id =
          (s :: terms').filterMap (atomNode lx) := by
        rw [List.filterMap_map]
        congr 1; funext s; simp [parseAtom_eq]
      have hc := (combineAtoms_ok_iff ((s :: terms').map (parseAtom lx)) _).mpr
        ⟨by rw [hmap]; exact hpos, rfl⟩
      simp only [hc, ignoredOf_eq, hmap, strip]
  | @andE ts0 v0 ig0 items h0 hitems ih0 ihs =>
    intro rest hrest
    simp only [runSym]
    obtain ⟨h1, hpt⟩ := strip_ok (ih0 _ (follow_term_items items rest hrest))
    obtain ⟨h2, hat⟩ := strip_ok (andTail_items lx items rest hitems ihs hrest)
    simp only [runSym] at hpt
    rw [List.append_assoc, parseAnd.eq_def]
    simp only [hpt, hat, mkAnd_eq, optList_eq, strip]
  | @orE ts0 v0 ig0 items h0 hitems ih0 ihs =>
    intro rest hrest
    simp only [runSym]
    obtain ⟨h1, hpa⟩ := strip_ok (ih0 _ (follow_and_items items rest hrest))
    obtain ⟨h2, hot⟩ := strip_ok (orTail_items lx items rest ihs hrest)
    simp only [runSym] at hpa
    rw [List.append_assoc, parseOr.eq_def]
    simp only [hpa, hot, mkOr_eq, optList_eq, strip]

/-- `parseTokens` returns everything the grammar derives -/
theorem parseTokens_complete {lx : Lex} {ts : List Tok} {t : Tree} {ig : List Str}
    (h : Query lx ts t ig) : parseTokens lx ts = .ok (t, ig) := by
  have := derives_complete h [] ⟨by intro a r; simp, by intro r; simp, by intro r; simp,
    by intro r; simp⟩
  rw [List.append_nil] at this
  obtain ⟨h1, hpo⟩ := strip_ok this
  simp only [runSym] at hpo
  unfold parseTokens
  simp only [hpo]

/-- a grammatical query all of whose operands were dropped is rejected -/
theorem parseTokens_onlyCommon {lx : Lex} {ts : List Tok} {ig : List Str}
    (h : Derives lx .orE ts none ig) : parseTokens lx ts = .error .onlyCommon := by
  have := derives_complete h [] ⟨by intro a r; simp, by intro r; simp, by intro r; simp,
    by intro r; simp⟩
  rw [List.append_nil] at this
  obtain ⟨h1, hpo⟩ := strip_ok this
  simp only [runSym] at hpo
  unfold parseTokens
  simp only [hpo]

end Hyp.QP
