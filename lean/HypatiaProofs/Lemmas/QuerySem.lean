import HypatiaProofs.Lemmas.QueryCompl

/-!
# `_apply` computes the set-theoretic reading `sem` (the specification of C04)

For every catalog and every tree whose comparators are implemented by their index classes and that has no
`All`/`NotAll` (finding D2): `sem` (And = intersection, Or = union, Not = complement in the catalog's documents,
a comparator = its own meaning) exists and has the members `_apply` returns – for trees with a `Not` under the
hypothesis of the complement clause (`Total`: every document supplies a value to every index).
-/
set_option linter.unusedSectionVars false
set_option linter.unusedSimpArgs false
set_option linter.unusedVariables false
namespace Hyp.Query
open Hyp

mutual
/-- the tree has no `Not` node -/
def noNot : Q → Bool
  | .cmp _ _ _ => true
  | .range _ _ _ _ _ _ => true
  | .and qs => noNotList qs
  | .or qs => noNotList qs
  | .not _ => false
def noNotList : List Q → Bool
  | [] => true
  | q :: qs => noNot q && noNotList qs
end

theorem noNotList_iff (qs : List Q) : noNotList qs = true ↔ ∀ q ∈ qs, noNot q = true := by
  induction qs with
  | nil => simp [noNotList]
  | cons x xs ih => simp [noNotList, ih]

theorem mem_interAll_ne (l : List IdSet) (hne : l ≠ []) (d : Int) : d ∈ interAll l ↔ ∀ s ∈ l, d ∈ s := by
  induction l with
  | nil => exact absurd rfl hne
  | cons x xs ih =>
    cases xs with
    | nil => simp [interAll]
    | cons y ys =>
      simp only [interAll, LSet.mem_inter]
      rw [ih (by simp)]
      simp

theorem mem_foldl_lunion (l : List IdSet) (acc : IdSet) (d : Int) :
    d ∈ l.foldl LSet.union acc ↔ d ∈ acc ∨ ∃ s ∈ l, d ∈ s := by
  induction l generalizing acc with
  | nil => simp
  | cons x xs ih =>
    simp only [List.foldl_cons, ih, LSet.mem_union, List.mem_cons]
    constructor
    · rintro ((h | h) | ⟨s, hs, h⟩)
      · exact Or.inl h
      · exact Or.inr ⟨x, Or.inl rfl, h⟩
      · exact Or.inr ⟨s, Or.inr hs, h⟩
    · rintro (h | ⟨s, rfl | hs, h⟩)
      · exact Or.inl (Or.inl h)
      · exact Or.inl (Or.inr h)
      · exact Or.inr ⟨s, hs, h⟩

theorem mem_unionAll (l : List IdSet) (d : Int) : d ∈ unionAll l ↔ ∃ s ∈ l, d ∈ s := by
  unfold unionAll
  rw [mem_foldl_lunion]; simp

theorem semList_ok (cat : Catalog) (R : Q → IdSet) : ∀ qs : List Q, (∀ q ∈ qs, sem cat q = .ok (R q)) →
    semList cat qs = .ok (qs.map R)
  | [], _ => rfl
  | q :: qs, h => by
    simp only [semList, h q (by simp), semList_ok cat R qs (fun x hx => h x (List.mem_cons_of_mem _ hx)),
      bind, Except.bind, pure, Except.pure, List.map_cons]

theorem wellTypedStrict_and (cat : Catalog) (qs : List Q) :
    wellTypedStrict cat (.and qs) = true ↔ qs ≠ [] ∧ ∀ q ∈ qs, wellTypedStrict cat q = true :=
  wellTyped_and supportsStrict cat qs

theorem wellTypedStrict_or (cat : Catalog) (qs : List Q) :
    wellTypedStrict cat (.or qs) = true ↔ qs ≠ [] ∧ ∀ q ∈ qs, wellTypedStrict cat q = true :=
  wellTyped_or supportsStrict cat qs

theorem applyCmp_eq_semCmp (cat : Catalog) (c : Cmp) (i : Nat) (v : Val) (hc : c ≠ .notall) :
    applyCmp cat c i v = semCmp cat c i v := by
  unfold applyCmp semCmp
  cases getIndex cat i with
  | error e => rfl
  | ok ix => cases c <;> first | rfl | exact absurd rfl hc

/-- **`sem` exists and is what `_apply` returns** -/
theorem sem_val (cat : Catalog) : ∀ (n : Nat) (q : Q), size q ≤ n → wellTypedStrict cat q = true →
    (Total cat ∨ noNot q = true) → ∃ r, sem cat q = .ok r ∧ ∀ d, d ∈ r ↔ d ∈ val cat q := by
  intro n
  induction n with
  | zero => intro q h; have := size_pos q; omega
  | succ n ih =>
    intro q hs hw hT
    have hwt := strict_wellTyped hw
    cases q with
    | cmp c i v =>
      refine ⟨val cat (.cmp c i v), ?_, fun d => Iff.rfl⟩
      have hc : c ≠ .notall := by
        intro e; subst e
        simp only [wellTypedStrict, wellTypedW] at hw
        cases hi : cat[i]? with
        | none => simp [hi] at hw
        | some ix => simp [hi, supportsStrict] at hw
      show semCmp cat c i v = _
      rw [← applyCmp_eq_semCmp cat c i v hc, ← applyQ_cmp]
      exact applyQ_val hwt
    | range neg i lo hi el eh =>
      refine ⟨val cat (.range neg i lo hi el eh), ?_, fun d => Iff.rfl⟩
      show applyRange cat neg i lo hi el eh = _
      rw [← applyQ_range]
      exact applyQ_val hwt
    | and qs =>
      obtain ⟨hne, hall⟩ := (wellTypedStrict_and cat qs).mp hw
      simp only [size] at hs
      have hT' : ∀ q ∈ qs, Total cat ∨ noNot q = true := by
        intro q hq
        rcases hT with h | h
        · exact Or.inl h
        · exact Or.inr ((noNotList_iff qs).mp (by simpa [noNot] using h) q hq)
      have hq : ∀ q ∈ qs, ∃ r, sem cat q = .ok r ∧ ∀ d, d ∈ r ↔ d ∈ val cat q :=
        fun q hq => ih q (by have := size_le_sizeList hq; omega) (hall q hq) (hT' q hq)
      let R : Q → IdSet := fun q => match sem cat q with | .ok r => r | .error _ => []
      have hR : ∀ q ∈ qs, sem cat q = .ok (R q) := by
        intro q hq'
        obtain ⟨r, hr, _⟩ := hq q hq'
        simp only [R, hr]
      have hRm : ∀ q ∈ qs, ∀ d, d ∈ R q ↔ d ∈ val cat q := by
        intro q hq' d
        obtain ⟨r, hr, hm⟩ := hq q hq'
        simp only [R, hr]; exact hm d
      refine ⟨interAll (qs.map R), ?_, fun d => ?_⟩
      · simp only [sem, semList_ok cat R qs hR, Except.map]
      · rw [mem_interAll_ne _ (by simpa using hne), val_and hwt]
        simp only [List.mem_map, forall_exists_index, and_imp, forall_apply_eq_imp_iff₂]
        exact ⟨fun h q hq' => (hRm q hq' d).mp (h q hq'), fun h q hq' => (hRm q hq' d).mpr (h q hq')⟩
    | or qs =>
      obtain ⟨hne, hall⟩ := (wellTypedStrict_or cat qs).mp hw
      simp only [size] at hs
      have hT' : ∀ q ∈ qs, Total cat ∨ noNot q = true := by
        intro q hq
        rcases hT with h | h
        · exact Or.inl h
        · exact Or.inr ((noNotList_iff qs).mp (by simpa [noNot] using h) q hq)
      have hq : ∀ q ∈ qs, ∃ r, sem cat q = .ok r ∧ ∀ d, d ∈ r ↔ d ∈ val cat q :=
        fun q hq => ih q (by have := size_le_sizeList hq; omega) (hall q hq) (hT' q hq)
      let R : Q → IdSet := fun q => match sem cat q with | .ok r => r | .error _ => []
      have hR : ∀ q ∈ qs, sem cat q = .ok (R q) := by
        intro q hq'
        obtain ⟨r, hr, _⟩ := hq q hq'
        simp only [R, hr]
      have hRm : ∀ q ∈ qs, ∀ d, d ∈ R q ↔ d ∈ val cat q := by
        intro q hq' d
        obtain ⟨r, hr, hm⟩ := hq q hq'
        simp only [R, hr]; exact hm d
      refine ⟨unionAll (qs.map R), ?_, fun d => ?_⟩
      · simp only [sem, semList_ok cat R qs hR, Except.map]
      · rw [mem_unionAll, val_or hwt]
        simp only [List.mem_map]
        constructor
        · rintro ⟨_, ⟨q, hq', rfl⟩, h⟩
          exact ⟨q, hq', (hRm q hq' d).mp h⟩
        · rintro ⟨q, hq', h⟩
          exact ⟨R q, ⟨q, hq', rfl⟩, (hRm q hq' d).mpr h⟩
    | not q =>
      have ht : Total cat := by
        rcases hT with h | h
        · exact h
        · simp [noNot] at h
      have hwq : wellTypedStrict cat q = true := by simpa [wellTypedStrict, wellTypedW] using hw
      simp only [size] at hs
      obtain ⟨r, hr, hm⟩ := ih q (by omega) hwq (Or.inl ht)
      refine ⟨LSet.diff (docs cat) r, by simp only [sem, hr, Except.map], fun d => ?_⟩
      rw [LSet.mem_diff, val_not, val_negate ht _ q (Nat.le_refl _) hwq d, hm d]

end Hyp.Query
