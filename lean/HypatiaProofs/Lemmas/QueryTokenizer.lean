import HypatiaModel.Spec.QueryGrammar
/-!
The scanner against the shape of the tokenizer regex: every token is a match of the regex,
tokens and skipped characters make up the input, only white space and quotes are skipped;
keyword classification.
-/
set_option linter.unusedSimpArgs false
set_option linter.unusedVariables false
namespace Hyp.QP
open Spec

theorem splitQuote_spec {s b r : Str} (h : splitQuote s = some (b, r)) :
    s = b ++ QUOTE :: r ∧ QUOTE ∉ b := by
  induction s generalizing b r with
  | nil => simp [splitQuote] at h
  | cons c cs ih =>
    unfold splitQuote at h
    split at h
    · rename_i hc
      cases h
      simp at hc
      simp [hc]
    · rename_i hc
      cases h2 : splitQuote cs with
      | none => simp [h2] at h
      | some p =>
        obtain ⟨b', r'⟩ := p
        simp only [h2] at h
        cases h
        obtain ⟨e, hn⟩ := ih h2
        refine ⟨by simp [← e], ?_⟩
        intro hm
        rcases List.mem_cons.mp hm with hm | hm
        · simp [← hm] at hc
        · exact hn hm

theorem run_spec (sp : Nat → Bool) (s : Str) :
    (run sp s).1 ++ (run sp s).2 = s ∧ ∀ c ∈ (run sp s).1, ordinary sp c = true := by
  induction s with
  | nil => simp [run]
  | cons c cs ih =>
    unfold run
    split
    · rename_i hc
      refine ⟨by simp [ih.1], ?_⟩
      intro x hx
      rcases List.mem_cons.mp hx with rfl | hx
      · exact hc
      · exact ih.2 x hx
    · simp

theorem run_nil_head {sp : Nat → Bool} {c : Nat} {cs : Str} (h : (run sp (c :: cs)).1 = []) :
    ordinary sp c = false := by
  unfold run at h
  split at h
  · simp at h
  · rename_i hc; simpa using hc

theorem quotedAt_spec {s a r : Str} (h : quotedAt s = some (a, r)) : a ++ r = s ∧ IsQuoted a := by
  cases s with
  | nil => simp [quotedAt] at h
  | cons c cs =>
    simp only [quotedAt] at h
    split at h
    · rename_i hc
      split at h
      · rename_i b' r' h2
        cases h
        obtain ⟨e, hn⟩ := splitQuote_spec h2
        simp at hc
        subst hc
        exact ⟨by simp [e], b', rfl, hn⟩
      · cases h
    · cases h

theorem runAt_spec {sp : Nat → Bool} {s a r : Str} (h : runAt sp s = some (a, r)) :
    a ++ r = s ∧ IsWord sp a := by
  unfold runAt at h
  have hs := run_spec sp s
  cases hr : run sp s with
  | mk a' r' =>
    rw [hr] at h hs
    cases a' with
    | nil => simp at h
    | cons x xs =>
      simp at h
      obtain ⟨rfl, rfl⟩ := h
      exact ⟨hs.1, by simp, hs.2⟩

theorem runAt_none {sp : Nat → Bool} {c : Nat} {cs : Str} (h : runAt sp (c :: cs) = none) :
    ordinary sp c = false := by
  unfold runAt at h
  cases hr : run sp (c :: cs) with
  | mk a' r' =>
    rw [hr] at h
    cases a' with
    | nil => exact run_nil_head (by rw [hr])
    | cons x xs => simp at h

theorem atomBody_spec {sp : Nat → Bool} {s a r : Str} (h : atomBody sp s = some (a, r)) :
    a ++ r = s ∧ IsAtomText sp a := by
  unfold atomBody at h
  cases hq : quotedAt s with
  | some x =>
    simp only [hq] at h
    cases h
    obtain ⟨e, q⟩ := quotedAt_spec hq
    exact ⟨e, .inl q⟩
  | none =>
    simp only [hq] at h
    obtain ⟨e, w⟩ := runAt_spec h
    exact ⟨e, .inr w⟩

theorem atomBody_none {sp : Nat → Bool} {c : Nat} {cs : Str} (h : atomBody sp (c :: cs) = none) :
    ordinary sp c = false := by
  unfold atomBody at h
  cases hq : quotedAt (c :: cs) with
  | some x => simp [hq] at h
  | none => simp only [hq] at h; exact runAt_none h

theorem atomAt_spec {sp : Nat → Bool} {c : Nat} {cs a r : Str} (h : atomAt sp c cs = some (a, r)) :
    a ++ r = c :: cs ∧ (IsAtomText sp a ∨ ∃ b, a = HYPHEN :: b ∧ IsAtomText sp b) := by
  unfold atomAt at h
  cases hh : hyphenAt sp c cs with
  | none =>
    simp only [hh] at h
    obtain ⟨e, q⟩ := atomBody_spec h
    exact ⟨e, .inl q⟩
  | some x =>
    simp only [hh] at h
    cases h
    unfold hyphenAt at hh
    split at hh
    · rename_i hc
      cases hb : atomBody sp cs with
      | none => simp [hb] at hh
      | some p =>
        obtain ⟨b', r'⟩ := p
        simp only [hb] at hh
        cases hh
        obtain ⟨e, q⟩ := atomBody_spec hb
        simp at hc
        subst hc
        exact ⟨by simp [e], .inr ⟨b', rfl, q⟩⟩
    · cases hh

theorem atomAt_none {sp : Nat → Bool} {c : Nat} {cs : Str} (h : atomAt sp c cs = none) :
    ordinary sp c = false := by
  unfold atomAt at h
  cases hh : hyphenAt sp c cs with
  | none => simp only [hh] at h; exact atomBody_none h
  | some x => simp [hh] at h

/-- every token the scanner emits is a match of the tokenizer regex -/
theorem scan_tokens (sp : Nat → Bool) (s : Str) : ∀ t ∈ scan sp s, IsToken sp t := by
  fun_induction scan sp s with
  | case1 => simp
  | case2 c cs hc ih =>
    intro t ht
    rcases List.mem_cons.mp ht with rfl | ht
    · simp at hc
      rcases hc with rfl | rfl
      · exact .inl rfl
      · exact .inr (.inl rfl)
    · exact ih t ht
  | case3 c cs hc tok rest h hlt ih =>
    intro t ht
    rcases List.mem_cons.mp ht with rfl | ht
    · rcases (atomAt_spec h).2 with q | q
      · exact .inr (.inr (.inl q))
      · exact .inr (.inr (.inr q))
    · exact ih t ht
  | case4 c cs hc h ih => exact ih

/-- tokens and skipped characters make up the input; only white space and double quotes
(those without a partner) are skipped -/
theorem scan_conserves (sp : Nat → Bool) (s : Str) :
    (scan sp s).flatten.filter (keptChar sp) = s.filter (keptChar sp) := by
  fun_induction scan sp s with
  | case1 => simp
  | case2 c cs hc ih => simp [List.filter_cons, ih]
  | case3 c cs hc tok rest h hlt ih =>
    rw [List.flatten_cons, List.filter_append, ih, ← List.filter_append, (atomAt_spec h).1]
  | case4 c cs hc h ih =>
    have ho := atomAt_none h
    have hk : keptChar sp c = false := by
      simp [ordinary] at ho hc
      simp [keptChar]
      rcases hsp : sp c with _ | _
      · have := ho hc.1 hc.2
        simp [hsp] at this
        simp [this]
      · simp
    rw [ih, List.filter_cons, hk]
    simp

/-! ### keyword classification -/

theorem classify_and_iff (t : Str) : classify t = .and ↔ t.map upperAscii = [65, 78, 68] := by
  unfold classify
  simp only []
  split
  · rename_i h; simp at h; simp [h]
  · rename_i h
    simp at h
    constructor
    · intro hc; split at hc <;> try cases hc
      split at hc <;> try cases hc
      split at hc <;> try cases hc
      split at hc <;> cases hc
    · intro hc; exact absurd hc h

theorem classify_or_iff (t : Str) : classify t = .or ↔ t.map upperAscii = [79, 82] := by
  unfold classify
  simp only []
  split
  · rename_i h; simp at h; simp [h]
  · split
    · rename_i h; simp at h; simp [h]
    · rename_i h1 h
      simp at h
      constructor
      · intro hc
        split at hc <;> try cases hc
        split at hc <;> try cases hc
        split at hc <;> cases hc
      · intro hc; exact absurd hc h

theorem classify_not_iff (t : Str) : classify t = .not ↔ t.map upperAscii = [78, 79, 84] := by
  unfold classify
  simp only []
  split
  · rename_i h; simp at h; simp [h]
  · split
    · rename_i h; simp at h; simp [h]
    · split
      · rename_i h; simp at h; simp [h]
      · rename_i h1 h2 h
        simp at h
        constructor
        · intro hc
          split at hc <;> try cases hc
          split at hc <;> cases hc
        · intro hc; exact absurd hc h

/-- anything else than AND/OR/NOT (any case) and the parentheses is an ATOM carrying its own text -/
theorem classify_atom (t : Str) (h1 : t.map upperAscii ≠ [65, 78, 68]) (h2 : t.map upperAscii ≠ [79, 82])
    (h3 : t.map upperAscii ≠ [78, 79, 84]) (h4 : t ≠ [LP]) (h5 : t ≠ [RP]) :
    classify t = .atom t := by
  have e4 : t.map upperAscii ≠ [LP] := by
    intro h
    cases t with
    | nil => simp at h
    | cons c cs =>
      cases cs with
      | cons d ds => simp at h
      | nil =>
        simp [upperAscii, LP] at h
        split at h
        · omega
        · subst h; exact h4 rfl
  have e5 : t.map upperAscii ≠ [RP] := by
    intro h
    cases t with
    | nil => simp at h
    | cons c cs =>
      cases cs with
      | cons d ds => simp at h
      | nil =>
        simp [upperAscii, RP] at h
        split at h
        · omega
        · subst h; exact h5 rfl
  unfold classify
  simp [h1, h2, h3, e4, e5]

/-- a quoted token (with or without the hyphen) is never a keyword -/
theorem classify_quoted (b : Str) :
    classify (QUOTE :: b) = .atom (QUOTE :: b) ∧
    classify (HYPHEN :: QUOTE :: b) = .atom (HYPHEN :: QUOTE :: b) := by
  constructor <;> (unfold classify; simp [upperAscii, QUOTE, HYPHEN, LP, RP])

end Hyp.QP
