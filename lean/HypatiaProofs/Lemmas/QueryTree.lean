import HypatiaModel.Spec.QueryGrammar
/-!
Lemmas about tree shapes: `WF → Executable`, `Executable ↔ exec succeeds`, and
`Derives … (some t) … → WF t`.
-/
set_option linter.unusedSimpArgs false
set_option linter.unusedVariables false
namespace Hyp.QP
open Spec

theorem wf_positive {lx : Lex} {t : Tree} (h : WF lx t) : t.isNot = false := by
  cases h <;> rfl

theorem wf_executable {lx : Lex} {t : Tree} (h : WF lx t) : Executable t := by
  induction h with
  | atom _ => exact .atom
  | glob _ => exact .glob
  | phrase _ => exact .phrase
  | andN pos negs hne hlen hp hn ihp ihn =>
    refine .andN _ ?_ ?_
    · intro t ht hnot
      rcases List.mem_append.mp ht with h1 | h1
      · exact ihp t h1
      · obtain ⟨u, _, rfl⟩ := List.mem_map.mp h1
        simp [Tree.isNot] at hnot
    · intro u hu
      rcases List.mem_append.mp hu with h1 | h1
      · have := wf_positive (hp _ h1)
        simp [Tree.isNot] at this
      · obtain ⟨u', hu', he⟩ := List.mem_map.mp h1
        cases he
        exact ihn u hu'
  | orN ts hlen h ih => exact .orN _ ih

/-! ### `Executable` is exactly "`exec` does not raise" -/

theorem execAnd_ok_of {R : Type} (ix : Index R) (ts : List Tree)
    (h1 : ∀ t ∈ ts, t.isNot = false → ∃ r, exec ix t = .ok r)
    (h2 : ∀ u, Tree.notN u ∈ ts → ∃ r, exec ix u = .ok r) :
    ∃ p, execAnd ix ts = .ok p := by
  induction ts with
  | nil => simp [execAnd]
  | cons t rest ih =>
    obtain ⟨p, hp⟩ := ih (fun t ht => h1 t (List.mem_cons_of_mem _ ht))
      (fun u hu => h2 u (List.mem_cons_of_mem _ hu))
    cases t with
    | notN u =>
      obtain ⟨r, hr⟩ := h2 u (List.mem_cons_self)
      simp [execAnd, hr, hp]
    | atom w => obtain ⟨r, hr⟩ := h1 _ (List.mem_cons_self) rfl; simp [execAnd, hr, hp]
    | phrase w => obtain ⟨r, hr⟩ := h1 _ (List.mem_cons_self) rfl; simp [execAnd, hr, hp]
    | glob w => obtain ⟨r, hr⟩ := h1 _ (List.mem_cons_self) rfl; simp [execAnd, hr, hp]
    | andN w => obtain ⟨r, hr⟩ := h1 _ (List.mem_cons_self) rfl; simp [execAnd, hr, hp]
    | orN w => obtain ⟨r, hr⟩ := h1 _ (List.mem_cons_self) rfl; simp [execAnd, hr, hp]

theorem execOr_ok_of {R : Type} (ix : Index R) (ts : List Tree)
    (h1 : ∀ t ∈ ts, ∃ r, exec ix t = .ok r) : ∃ p, execOr ix ts = .ok p := by
  induction ts with
  | nil => simp [execOr]
  | cons t rest ih =>
    obtain ⟨p, hp⟩ := ih (fun t ht => h1 t (List.mem_cons_of_mem _ ht))
    obtain ⟨r, hr⟩ := h1 t (List.mem_cons_self)
    simp [execOr, hr, hp]

theorem exec_ok_of_executable {R : Type} (ix : Index R) {t : Tree} (h : Executable t) :
    ∃ r, exec ix t = .ok r := by
  induction h with
  | atom => simp [exec]
  | glob => simp [exec]
  | phrase => simp [exec]
  | andN ts h1 h2 ih1 ih2 =>
    obtain ⟨⟨L, nots⟩, hp⟩ := execAnd_ok_of ix ts ih1 ih2
    simp [exec, hp]
  | orN ts h1 ih =>
    obtain ⟨p, hp⟩ := execOr_ok_of ix ts ih
    simp [exec, hp]

mutual
theorem executable_of_exec_ok {R : Type} (ix : Index R) :
    ∀ (t : Tree) (r : Option R), exec ix t = .ok r → Executable t
  | .atom _, _, _ => .atom
  | .phrase _, _, _ => .phrase
  | .glob _, _, _ => .glob
  | .notN _, _, h => by simp [exec] at h
  | .andN ts, r, h => by
    cases hp : execAnd ix ts with
    | error e => simp [exec, hp] at h
    | ok p =>
      have := executableAnd_of_ok ix ts p hp
      exact .andN ts this.1 this.2
  | .orN ts, r, h => by
    cases hp : execOr ix ts with
    | error e => simp [exec, hp] at h
    | ok p => exact .orN ts (executableOr_of_ok ix ts p hp)

theorem executableAnd_of_ok {R : Type} (ix : Index R) :
    ∀ (ts : List Tree) (p : List R × List R), execAnd ix ts = .ok p →
      (∀ t ∈ ts, t.isNot = false → Executable t) ∧ (∀ u, Tree.notN u ∈ ts → Executable u)
  | [], _, _ => by simp
  | t :: rest, p, h => by
    cases t with
    | notN u =>
      cases hu : exec ix u with
      | error e => simp [execAnd, hu] at h
      | ok r =>
        cases hr : execAnd ix rest with
        | error e => simp [execAnd, hu, hr] at h
        | ok p' =>
          have ih := executableAnd_of_ok ix rest p' hr
          have eu := executable_of_exec_ok ix u r hu
          refine ⟨?_, ?_⟩
          · intro t ht hn
            rcases List.mem_cons.mp ht with rfl | ht
            · simp [Tree.isNot] at hn
            · exact ih.1 t ht hn
          · intro v hv
            rcases List.mem_cons.mp hv with hv | hv
            · cases hv; exact eu
            · exact ih.2 v hv
    | atom w =>
      cases hr : execAnd ix rest with
      | error e => simp [execAnd, exec, hr] at h
      | ok p' =>
        have ih := executableAnd_of_ok ix rest p' hr
        refine ⟨?_, ?_⟩
        · intro t ht hn
          rcases List.mem_cons.mp ht with rfl | ht
          · exact .atom
          · exact ih.1 t ht hn
        · intro v hv
          rcases List.mem_cons.mp hv with hv | hv
          · cases hv
          · exact ih.2 v hv
    | phrase w =>
      cases hr : execAnd ix rest with
      | error e => simp [execAnd, exec, hr] at h
      | ok p' =>
        have ih := executableAnd_of_ok ix rest p' hr
        refine ⟨?_, ?_⟩
        · intro t ht hn
          rcases List.mem_cons.mp ht with rfl | ht
          · exact .phrase
          · exact ih.1 t ht hn
        · intro v hv
          rcases List.mem_cons.mp hv with hv | hv
          · cases hv
          · exact ih.2 v hv
    | glob w =>
      cases hr : execAnd ix rest with
      | error e => simp [execAnd, exec, hr] at h
      | ok p' =>
        have ih := executableAnd_of_ok ix rest p' hr
        refine ⟨?_, ?_⟩
        · intro t ht hn
          rcases List.mem_cons.mp ht with rfl | ht
          · exact .glob
          · exact ih.1 t ht hn
        · intro v hv
          rcases List.mem_cons.mp hv with hv | hv
          · cases hv
          · exact ih.2 v hv
    | andN w =>
      cases hu : exec ix (.andN w) with
      | error e => simp [execAnd, hu] at h
      | ok r =>
        cases hr : execAnd ix rest with
        | error e => simp [execAnd, hu, hr] at h
        | ok p' =>
          have ih := executableAnd_of_ok ix rest p' hr
          have eu := executable_of_exec_ok ix (.andN w) r hu
          refine ⟨?_, ?_⟩
          · intro t ht hn
            rcases List.mem_cons.mp ht with rfl | ht
            · exact eu
            · exact ih.1 t ht hn
          · intro v hv
            rcases List.mem_cons.mp hv with hv | hv
            · cases hv
            · exact ih.2 v hv
    | orN w =>
      cases hu : exec ix (.orN w) with
      | error e => simp [execAnd, hu] at h
      | ok r =>
        cases hr : execAnd ix rest with
        | error e => simp [execAnd, hu, hr] at h
        | ok p' =>
          have ih := executableAnd_of_ok ix rest p' hr
          have eu := executable_of_exec_ok ix (.orN w) r hu
          refine ⟨?_, ?_⟩
          · intro t ht hn
            rcases List.mem_cons.mp ht with rfl | ht
            · exact eu
            · exact ih.1 t ht hn
          · intro v hv
            rcases List.mem_cons.mp hv with hv | hv
            · cases hv
            · exact ih.2 v hv

theorem executableOr_of_ok {R : Type} (ix : Index R) :
    ∀ (ts : List Tree) (p : List R), execOr ix ts = .ok p → ∀ t ∈ ts, Executable t
  | [], _, _ => by simp
  | t :: rest, p, h => by
    cases hu : exec ix t with
    | error e => simp [execOr, hu] at h
    | ok r =>
      cases hr : execOr ix rest with
      | error e => simp [execOr, hu, hr] at h
      | ok p' =>
        have ih := executableOr_of_ok ix rest p' hr
        have eu := executable_of_exec_ok ix t r hu
        intro t' ht'
        rcases List.mem_cons.mp ht' with rfl | ht'
        · exact eu
        · exact ih t' ht'
end

end Hyp.QP
