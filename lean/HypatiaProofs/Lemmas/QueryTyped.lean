import HypatiaProofs.Lemmas.Query

set_option linter.unusedSectionVars false
set_option linter.unusedSimpArgs false
namespace Hyp.Query
open Hyp

theorem wellTypedList_iff (sup : IndexT → Cmp → Bool) (cat : Catalog) (qs : List Q) :
    wellTypedListW sup cat qs = true ↔ ∀ q ∈ qs, wellTypedW sup cat q = true := by
  induction qs with
  | nil => simp [wellTypedListW]
  | cons x xs ih => simp [wellTypedListW, ih]

theorem mem_negateList {q : Q} {qs : List Q} : q ∈ negateList qs ↔ ∃ p ∈ qs, q = negate p := by
  induction qs with
  | nil => simp [negateList]
  | cons x xs ih =>
    simp only [negateList, List.mem_cons, ih]
    constructor
    · rintro (rfl | ⟨p, hp, rfl⟩)
      · exact ⟨x, Or.inl rfl, rfl⟩
      · exact ⟨p, Or.inr hp, rfl⟩
    · rintro ⟨p, rfl | hp, rfl⟩
      · exact Or.inl rfl
      · exact Or.inr ⟨p, hp, rfl⟩

theorem negateList_eq_map (qs : List Q) : negateList qs = qs.map negate := by
  induction qs with
  | nil => rfl
  | cons x xs ih => simp [negateList, ih]

theorem supports_negate (ix : IndexT) (c : Cmp) : supports ix c.negate = supports ix c := by
  cases ix <;> cases c <;> rfl

theorem valOk_negate (c : Cmp) (v : Val) : valOk c.negate v = valOk c v := by
  cases c <;> cases v <;> rfl

theorem wellTyped_and (sup : IndexT → Cmp → Bool) (cat : Catalog) (qs : List Q) :
    wellTypedW sup cat (.and qs) = true ↔ qs ≠ [] ∧ ∀ q ∈ qs, wellTypedW sup cat q = true := by
  simp only [wellTypedW, Bool.and_eq_true, wellTypedList_iff]
  cases qs <;> simp

theorem wellTyped_or (sup : IndexT → Cmp → Bool) (cat : Catalog) (qs : List Q) :
    wellTypedW sup cat (.or qs) = true ↔ qs ≠ [] ∧ ∀ q ∈ qs, wellTypedW sup cat q = true := by
  simp only [wellTypedW, Bool.and_eq_true, wellTypedList_iff]
  cases qs <;> simp

theorem wellTyped_mkOr (sup : IndexT → Cmp → Bool) (cat : Catalog) (qs : List Q) (hne : qs ≠ [])
    (h : ∀ q ∈ qs, wellTypedW sup cat q = true) : wellTypedW sup cat (mkOr qs) = true := by
  unfold mkOr
  rw [wellTyped_or]
  constructor
  · cases qs with
    | nil => exact absurd rfl hne
    | cons x xs =>
      have hx := h x (by simp)
      cases x with
      | or ys =>
        have := (wellTyped_or sup cat ys).mp hx
        cases ys with
        | nil => exact absurd rfl this.1
        | cons y ys' => simp [flatOr]
      | cmp _ _ _ => simp [flatOr]
      | range _ _ _ _ _ _ => simp [flatOr]
      | and _ => simp [flatOr]
      | not _ => simp [flatOr]
  · intro q hq
    obtain ⟨x, hx, hqx⟩ := List.mem_flatMap.mp hq
    have hwx := h x hx
    cases x with
    | or ys => simp only [flatOr] at hqx; exact ((wellTyped_or sup cat ys).mp hwx).2 q hqx
    | cmp _ _ _ => simp only [flatOr, List.mem_singleton] at hqx; rw [hqx]; exact hwx
    | range _ _ _ _ _ _ => simp only [flatOr, List.mem_singleton] at hqx; rw [hqx]; exact hwx
    | and _ => simp only [flatOr, List.mem_singleton] at hqx; rw [hqx]; exact hwx
    | not _ => simp only [flatOr, List.mem_singleton] at hqx; rw [hqx]; exact hwx

theorem wellTyped_mkAnd (sup : IndexT → Cmp → Bool) (cat : Catalog) (qs : List Q) (hne : qs ≠ [])
    (h : ∀ q ∈ qs, wellTypedW sup cat q = true) : wellTypedW sup cat (mkAnd qs) = true := by
  unfold mkAnd
  rw [wellTyped_and]
  constructor
  · cases qs with
    | nil => exact absurd rfl hne
    | cons x xs =>
      have hx := h x (by simp)
      cases x with
      | and ys =>
        have := (wellTyped_and sup cat ys).mp hx
        cases ys with
        | nil => exact absurd rfl this.1
        | cons y ys' => simp [flatAnd]
      | cmp _ _ _ => simp [flatAnd]
      | range _ _ _ _ _ _ => simp [flatAnd]
      | or _ => simp [flatAnd]
      | not _ => simp [flatAnd]
  · intro q hq
    obtain ⟨x, hx, hqx⟩ := List.mem_flatMap.mp hq
    have hwx := h x hx
    cases x with
    | and ys => simp only [flatAnd] at hqx; exact ((wellTyped_and sup cat ys).mp hwx).2 q hqx
    | cmp _ _ _ => simp only [flatAnd, List.mem_singleton] at hqx; rw [hqx]; exact hwx
    | range _ _ _ _ _ _ => simp only [flatAnd, List.mem_singleton] at hqx; rw [hqx]; exact hwx
    | or _ => simp only [flatAnd, List.mem_singleton] at hqx; rw [hqx]; exact hwx
    | not _ => simp only [flatAnd, List.mem_singleton] at hqx; rw [hqx]; exact hwx

/-- well-typedness is preserved by `negate` -/
theorem wellTyped_negate (sup : IndexT → Cmp → Bool) (hsup : ∀ ix c, sup ix c.negate = sup ix c) (cat : Catalog) : ∀ (n : Nat) (q : Q), size q ≤ n →
    wellTypedW sup cat q = true → wellTypedW sup cat (negate q) = true := by
  intro n
  induction n with
  | zero => intro q h; have := size_pos q; omega
  | succ n ih =>
    intro q hs hw
    cases q with
    | cmp c i v =>
      simp only [negate, wellTypedW] at hw ⊢
      cases hc : cat[i]? with
      | none => simp [hc] at hw
      | some ix => simp only [hc] at hw ⊢; rw [hsup, valOk_negate]; exact hw
    | range neg i lo hi el eh => simpa [negate, wellTypedW] using hw
    | not q => simpa [negate, wellTypedW] using hw
    | and qs =>
      obtain ⟨hne, hall⟩ := (wellTyped_and sup cat qs).mp hw
      simp only [negate]
      apply wellTyped_mkOr
      · rw [negateList_eq_map]; simpa using hne
      · intro x hx
        obtain ⟨p, hp, rfl⟩ := mem_negateList.mp hx
        have := size_le_sizeList hp
        simp only [size] at hs
        exact ih p (by omega) (hall p hp)
    | or qs =>
      obtain ⟨hne, hall⟩ := (wellTyped_or sup cat qs).mp hw
      simp only [negate]
      apply wellTyped_mkAnd
      · rw [negateList_eq_map]; simpa using hne
      · intro x hx
        obtain ⟨p, hp, rfl⟩ := mem_negateList.mp hx
        have := size_le_sizeList hp
        simp only [size] at hs
        exact ih p (by omega) (hall p hp)

end Hyp.Query

namespace Hyp.Query

theorem getIndex_of_get {cat : Catalog} {i : Nat} {ix : IndexT} (h : cat[i]? = some ix) :
    getIndex cat i = .ok ix := by simp [getIndex, h]

/-- a supported comparator on a well-formed value has an answer -/
theorem applyCmp_ok {cat : Catalog} {i : Nat} {ix : IndexT} (hi : cat[i]? = some ix)
    (c : Cmp) (v : Val) (hs : supports ix c = true) (hv : valOk c v = true) :
    ∃ r, applyCmp cat c i v = .ok r := by
  unfold applyCmp
  rw [getIndex_of_get hi]
  cases ix <;> cases c <;> cases v <;>
    simp_all [supports, valOk, leafIndex, leafPos, Cmp.positive, bind, Except.bind, Except.map, pure, Except.pure]

theorem applyRange_ok {cat : Catalog} {i : Nat} {t : Field.Spec.Table Int} (hi : cat[i]? = some (.field t))
    (neg : Bool) (lo hi' : Int) (el eh : Bool) :
    ∃ r, applyRange cat neg i lo hi' el eh = .ok r := by
  unfold applyRange
  rw [getIndex_of_get hi]
  simp [rangePos, bind, Except.bind, pure, Except.pure]

/-- **Totality on well-typed trees**: every well-typed query has an answer. -/
theorem applyQ_ok (cat : Catalog) : ∀ (n : Nat) (q : Q), size q ≤ n → wellTyped cat q = true →
    ∃ r, applyQ cat q = .ok r := by
  intro n
  induction n with
  | zero => intro q h; have := size_pos q; omega
  | succ n ih =>
    intro q hs hw
    cases q with
    | cmp c i v =>
      simp only [wellTyped, wellTypedW] at hw
      cases hc : cat[i]? with
      | none => simp [hc] at hw
      | some ix =>
        simp only [hc, Bool.and_eq_true] at hw
        exact applyCmp_ok hc c v hw.1 hw.2
    | range neg i lo hi el eh =>
      simp only [wellTyped, wellTypedW] at hw
      cases hc : cat[i]? with
      | none => simp [hc] at hw
      | some ix =>
        cases ix with
        | field t => exact applyRange_ok hc neg lo hi el eh
        | keyword t => simp [hc] at hw
        | text t => simp [hc] at hw
    | not q =>
      rw [applyQ_not]
      simp only [size] at hs
      have := size_negate_le q
      exact ih (negate q) (by omega) (wellTyped_negate supports supports_negate cat _ q (Nat.le_refl _) (by simpa [wellTyped, wellTypedW] using hw))
    | and qs =>
      obtain ⟨hne, hall⟩ := (wellTyped_and supports cat qs).mp hw
      simp only [size] at hs
      have hex : ∀ q ∈ qs, ∃ r, applyQ cat q = .ok r := fun q hq =>
        ih q (by have := size_le_sizeList hq; omega) (hall q hq)
      let R : Q → IdSet := fun q => match applyQ cat q with | .ok r => r | .error _ => []
      have hR : ∀ q ∈ qs, applyQ cat q = .ok (R q) := by
        intro q hq; obtain ⟨r, hr⟩ := hex q hq; simp [R, hr]
      obtain ⟨r, hr, _⟩ := apply_and cat qs hne R hR
      exact ⟨r, hr⟩
    | or qs =>
      obtain ⟨hne, hall⟩ := (wellTyped_or supports cat qs).mp hw
      simp only [size] at hs
      have hex : ∀ q ∈ qs, ∃ r, applyQ cat q = .ok r := fun q hq =>
        ih q (by have := size_le_sizeList hq; omega) (hall q hq)
      let R : Q → IdSet := fun q => match applyQ cat q with | .ok r => r | .error _ => []
      have hR : ∀ q ∈ qs, applyQ cat q = .ok (R q) := by
        intro q hq; obtain ⟨r, hr⟩ := hex q hq; simp [R, hr]
      obtain ⟨r, hr, _⟩ := apply_or cat qs hne R hR
      exact ⟨r, hr⟩

/-- the answer of a well-typed query as a plain set -/
def val (cat : Catalog) (q : Q) : IdSet :=
  match applyQ cat q with
  | .ok r => r
  | .error _ => []

theorem applyQ_val {cat : Catalog} {q : Q} (hw : wellTyped cat q = true) :
    applyQ cat q = .ok (val cat q) := by
  obtain ⟨r, hr⟩ := applyQ_ok cat _ q (Nat.le_refl _) hw
  simp [val, hr]

theorem val_and {cat : Catalog} {qs : List Q} (hw : wellTyped cat (.and qs) = true) (d : Int) :
    d ∈ val cat (.and qs) ↔ ∀ q ∈ qs, d ∈ val cat q := by
  obtain ⟨hne, hall⟩ := (wellTyped_and supports cat qs).mp hw
  obtain ⟨r, hr, hm⟩ := apply_and cat qs hne (val cat) (fun q hq => applyQ_val (hall q hq))
  simp only [val, hr]; exact hm d

theorem val_or {cat : Catalog} {qs : List Q} (hw : wellTyped cat (.or qs) = true) (d : Int) :
    d ∈ val cat (.or qs) ↔ ∃ q ∈ qs, d ∈ val cat q := by
  obtain ⟨hne, hall⟩ := (wellTyped_or supports cat qs).mp hw
  obtain ⟨r, hr, hm⟩ := apply_or cat qs hne (val cat) (fun q hq => applyQ_val (hall q hq))
  simp only [val, hr]; exact hm d

theorem val_not (cat : Catalog) (q : Q) : val cat (.not q) = val cat (negate q) := by
  simp only [val, applyQ_not]

/-- the flattening constructor does not change the answer -/
theorem val_mkOr {cat : Catalog} {qs : List Q} (hne : qs ≠ [])
    (hall : ∀ q ∈ qs, wellTyped cat q = true) (d : Int) :
    d ∈ val cat (mkOr qs) ↔ ∃ q ∈ qs, d ∈ val cat q := by
  have hw := wellTyped_mkOr supports cat qs hne hall
  unfold mkOr at hw ⊢
  rw [val_or hw]
  constructor
  · rintro ⟨y, hy, hd⟩
    obtain ⟨x, hx, hyx⟩ := List.mem_flatMap.mp hy
    refine ⟨x, hx, ?_⟩
    cases x with
    | or ys =>
      simp only [flatOr] at hyx
      exact (val_or (hall _ hx) d).mpr ⟨y, hyx, hd⟩
    | cmp _ _ _ => simp only [flatOr, List.mem_singleton] at hyx; rw [← hyx]; exact hd
    | range _ _ _ _ _ _ => simp only [flatOr, List.mem_singleton] at hyx; rw [← hyx]; exact hd
    | and _ => simp only [flatOr, List.mem_singleton] at hyx; rw [← hyx]; exact hd
    | not _ => simp only [flatOr, List.mem_singleton] at hyx; rw [← hyx]; exact hd
  · rintro ⟨x, hx, hd⟩
    cases x with
    | or ys =>
      obtain ⟨y, hy, hdy⟩ := (val_or (hall _ hx) d).mp hd
      exact ⟨y, List.mem_flatMap.mpr ⟨_, hx, by simpa [flatOr] using hy⟩, hdy⟩
    | cmp c i v => exact ⟨_, List.mem_flatMap.mpr ⟨_, hx, by simp [flatOr]⟩, hd⟩
    | range a b c e f g => exact ⟨_, List.mem_flatMap.mpr ⟨_, hx, by simp [flatOr]⟩, hd⟩
    | and ys => exact ⟨_, List.mem_flatMap.mpr ⟨_, hx, by simp [flatOr]⟩, hd⟩
    | not y => exact ⟨_, List.mem_flatMap.mpr ⟨_, hx, by simp [flatOr]⟩, hd⟩

theorem val_mkAnd {cat : Catalog} {qs : List Q} (hne : qs ≠ [])
    (hall : ∀ q ∈ qs, wellTyped cat q = true) (d : Int) :
    d ∈ val cat (mkAnd qs) ↔ ∀ q ∈ qs, d ∈ val cat q := by
  have hw := wellTyped_mkAnd supports cat qs hne hall
  unfold mkAnd at hw ⊢
  rw [val_and hw]
  constructor
  · intro h x hx
    cases x with
    | and ys =>
      rw [val_and (hall _ hx)]
      intro y hy
      exact h y (List.mem_flatMap.mpr ⟨_, hx, by simpa [flatAnd] using hy⟩)
    | cmp c i v => exact h _ (List.mem_flatMap.mpr ⟨_, hx, by simp [flatAnd]⟩)
    | range a b c e f g => exact h _ (List.mem_flatMap.mpr ⟨_, hx, by simp [flatAnd]⟩)
    | or ys => exact h _ (List.mem_flatMap.mpr ⟨_, hx, by simp [flatAnd]⟩)
    | not y => exact h _ (List.mem_flatMap.mpr ⟨_, hx, by simp [flatAnd]⟩)
  · intro h y hy
    obtain ⟨x, hx, hyx⟩ := List.mem_flatMap.mp hy
    have hdx := h x hx
    cases x with
    | and ys =>
      simp only [flatAnd] at hyx
      exact (val_and (hall _ hx) d).mp hdx y hyx
    | cmp _ _ _ => simp only [flatAnd, List.mem_singleton] at hyx; rw [hyx]; exact hdx
    | range _ _ _ _ _ _ => simp only [flatAnd, List.mem_singleton] at hyx; rw [hyx]; exact hdx
    | or _ => simp only [flatAnd, List.mem_singleton] at hyx; rw [hyx]; exact hdx
    | not _ => simp only [flatAnd, List.mem_singleton] at hyx; rw [hyx]; exact hdx

end Hyp.Query
