import HypatiaProofs.Lemmas.RankRepr
import Mathlib.Algebra.Order.BigOperators.Ring.Finset
import Mathlib.Algebra.BigOperators.Group.Finset.Basic

/-!
# Cauchy–Schwarz: a cosine score over distinct word ids is at most the query weight
-/
set_option linter.unusedSectionVars false
set_option linter.unusedSimpArgs false
namespace Hyp.Score
open Hyp Hyp.SetOps Hyp.SetSpec

-- for any BM25 parameters (`Score.Bm25`: `K1`, `B` of the scoring loop, `K1` of `query_weight`)
variable [Bm25 ℝ]

theorem nodup_eraseDups : ∀ (n : Nat) (l : List Nat), l.length ≤ n → l.eraseDups.Nodup := by
  intro n
  induction n with
  | zero =>
    intro l hl
    have : l = [] := List.eq_nil_of_length_eq_zero (by omega)
    subst this; simp
  | succ n ih =>
    intro l hl
    cases l with
    | nil => simp
    | cons a as =>
      rw [List.eraseDups_cons, List.nodup_cons]
      constructor
      · rw [List.mem_eraseDups, List.mem_filter]
        simp
      · apply ih
        have := List.length_filter_le (fun b => !b == a) as
        simp only [List.length_cons] at hl
        omega

theorem wdt_ge_one (ws : List Nat) (t : Nat) (ht : t ∈ ws) : (1 : ℝ) ≤ ScoreSpec.wdt ws t := by
  unfold ScoreSpec.wdt
  simp only [Scalar.nat_real, Scalar.log_real, Nat.cast_one]
  have hc : 1 ≤ ws.count t := List.count_pos_iff.mpr ht
  have : (1 : ℝ) ≤ (ws.count t : ℝ) := by exact_mod_cast hc
  have := Real.log_nonneg this
  linarith

/-- `W(D)² = Σ_{t in D} w(D,t)²` -/
theorem bigW_sq (ws : List Nat) :
    (ScoreSpec.bigW ws : ℝ) ^ 2 = ∑ t ∈ ws.toFinset, ScoreSpec.wdt ws t ^ 2 := by
  unfold ScoreSpec.bigW
  simp only [Scalar.sqrt_real, Scalar.nat_real, Nat.cast_zero]
  rw [foldl_add_real, Real.sq_sqrt]
  · rw [← List.sum_toFinset _ (nodup_eraseDups _ _ (le_refl _))]
    have : ws.eraseDups.toFinset = ws.toFinset := by
      ext x; simp
    rw [this]
    apply Finset.sum_congr rfl
    intro x _; ring
  · apply List.sum_nonneg
    intro x hx
    obtain ⟨t, _, rfl⟩ := List.mem_map.mp hx
    exact mul_self_nonneg _

theorem bigW_pos (ws : List Nat) (t : Nat) (ht : t ∈ ws) : (0 : ℝ) < ScoreSpec.bigW ws := by
  have hsq := bigW_sq ws
  have h1 : (1 : ℝ) ≤ ∑ u ∈ ws.toFinset, ScoreSpec.wdt ws u ^ 2 := by
    have hmem : t ∈ ws.toFinset := by simpa using ht
    have := Finset.single_le_sum (f := fun u => (ScoreSpec.wdt ws u : ℝ) ^ 2) (fun u _ => sq_nonneg _) hmem
    have h2 := wdt_ge_one ws t ht
    have : (1 : ℝ) ≤ ScoreSpec.wdt ws t ^ 2 := by nlinarith
    linarith
  have hnn : (0 : ℝ) ≤ ScoreSpec.bigW ws := by
    unfold ScoreSpec.bigW; simp only [Scalar.sqrt_real]; exact Real.sqrt_nonneg _
  rcases eq_or_lt_of_le hnn with h | h
  · rw [← h] at hsq; norm_num at hsq; linarith
  · exact h

/-- cosine `query_weight` squared is the sum of the squared IDFs of the in-vocabulary ids -/
theorem cosine_qw (T : Table) (W : List Nat) :
    (ScoreSpec.queryWeight .cosine T W : ℝ) =
      Real.sqrt (((W.filter (fun t => decide (0 < ScoreSpec.df T t))).map (fun t => ScoreSpec.idf T t ^ 2)).sum) := by
  unfold ScoreSpec.queryWeight
  simp only [Scalar.sqrt_real, Scalar.nat_real, Nat.cast_zero]
  rw [foldl_add_real]
  congr 2
  apply List.map_congr_left
  intro t _; ring

theorem sublist_sum_le (S W : List Nat) (f : Nat → ℝ) (h : S.Sublist W) (hf : ∀ x ∈ W, 0 ≤ f x) :
    (S.map f).sum ≤ (W.map f).sum := by
  induction h with
  | slnil => simp
  | @cons l₁ l₂ a _ ih =>
    simp only [List.map_cons, List.sum_cons]
    have := ih (fun x hx => hf x (List.mem_cons_of_mem _ hx))
    have := hf a (by simp)
    linarith
  | @cons_cons l₁ l₂ a _ ih =>
    simp only [List.map_cons, List.sum_cons]
    have := ih (fun x hx => hf x (List.mem_cons_of_mem _ hx))
    linarith

/-- the core inequality: for distinct word ids `S` of the document, sub-list of the query's ids -/
theorem cosine_sum_bounds (T : Table) (d : Int) (ws : List Nat) (hd : AMap.get T d = some ws)
    (S W : List Nat) (hne : S ≠ []) (hsub : S.Sublist W) (hnd : W.Nodup) (hS : ∀ x ∈ S, x ∈ ws) :
    0 < (S.map (specTerm .cosine T ws)).sum ∧
      (S.map (specTerm .cosine T ws)).sum ≤ ScoreSpec.queryWeight .cosine T W := by
  have hSnd : S.Nodup := hsub.nodup hnd
  obtain ⟨t0, ht0⟩ := List.exists_mem_of_ne_nil S hne
  have hW := bigW_pos ws t0 (hS t0 ht0)
  have hterm_pos : ∀ x ∈ S, 0 < specTerm .cosine T ws x := by
    intro x hx
    unfold specTerm
    simp only
    have h1 := wdt_ge_one ws x (hS x hx)
    have h2 := idf_pos T x (df_pos_of_get hd (hS x hx))
    exact mul_pos (div_pos (by linarith) hW) h2
  constructor
  · apply sum_pos_of_pos
    · simpa using hne
    · intro y hy
      obtain ⟨x, hx, rfl⟩ := List.mem_map.mp hy
      exact hterm_pos x hx
  · rw [cosine_qw]
    -- to finite sums over S
    have hsum : (S.map (specTerm .cosine T ws)).sum =
        ∑ x ∈ S.toFinset, (ScoreSpec.wdt ws x / ScoreSpec.bigW ws) * ScoreSpec.idf T x := by
      rw [List.sum_toFinset _ hSnd]; rfl
    rw [hsum]
    have hcs := Finset.sum_mul_sq_le_sq_mul_sq S.toFinset
      (fun x => (ScoreSpec.wdt ws x / ScoreSpec.bigW ws : ℝ)) (fun x => (ScoreSpec.idf T x : ℝ))
    -- Σ (w/W)² ≤ 1
    have hone : ∑ x ∈ S.toFinset, (ScoreSpec.wdt ws x / ScoreSpec.bigW ws : ℝ) ^ 2 ≤ 1 := by
      have hsubset : S.toFinset ⊆ ws.toFinset := by
        intro x hx; simp at hx ⊢; exact hS x hx
      have h1 : ∑ x ∈ S.toFinset, (ScoreSpec.wdt ws x : ℝ) ^ 2 ≤ ∑ x ∈ ws.toFinset, (ScoreSpec.wdt ws x : ℝ) ^ 2 :=
        Finset.sum_le_sum_of_subset_of_nonneg hsubset (fun _ _ _ => sq_nonneg _)
      rw [← bigW_sq] at h1
      have : ∑ x ∈ S.toFinset, (ScoreSpec.wdt ws x / ScoreSpec.bigW ws : ℝ) ^ 2
          = (∑ x ∈ S.toFinset, (ScoreSpec.wdt ws x : ℝ) ^ 2) * ((ScoreSpec.bigW ws : ℝ) ^ 2)⁻¹ := by
        rw [Finset.sum_mul]
        apply Finset.sum_congr rfl
        intro x _; rw [div_pow, div_eq_mul_inv]
      rw [this, ← div_eq_mul_inv, div_le_one (by positivity)]
      exact h1
    -- Σ_S idf² ≤ Σ_{W in vocabulary} idf²
    have hidf : ∑ x ∈ S.toFinset, (ScoreSpec.idf T x : ℝ) ^ 2 ≤
        ((W.filter (fun t => decide (0 < ScoreSpec.df T t))).map (fun t => (ScoreSpec.idf T t : ℝ) ^ 2)).sum := by
      rw [List.sum_toFinset _ hSnd]
      apply sublist_sum_le
      · have : S = S.filter (fun t => decide (0 < ScoreSpec.df T t)) := by
          symm; apply List.filter_eq_self.mpr
          intro x hx; simpa using df_pos_of_get hd (hS x hx)
        rw [this]
        exact hsub.filter _
      · intro x _; exact sq_nonneg _
    have hnn : (0 : ℝ) ≤ ∑ x ∈ S.toFinset, (ScoreSpec.idf T x : ℝ) ^ 2 :=
      Finset.sum_nonneg (fun _ _ => sq_nonneg _)
    have hsq : (∑ x ∈ S.toFinset, (ScoreSpec.wdt ws x / ScoreSpec.bigW ws : ℝ) * ScoreSpec.idf T x) ^ 2 ≤
        ((W.filter (fun t => decide (0 < ScoreSpec.df T t))).map (fun t => (ScoreSpec.idf T t : ℝ) ^ 2)).sum := by
      calc _ ≤ (∑ x ∈ S.toFinset, (ScoreSpec.wdt ws x / ScoreSpec.bigW ws : ℝ) ^ 2) *
              ∑ x ∈ S.toFinset, (ScoreSpec.idf T x : ℝ) ^ 2 := hcs
        _ ≤ 1 * ∑ x ∈ S.toFinset, (ScoreSpec.idf T x : ℝ) ^ 2 := mul_le_mul_of_nonneg_right hone hnn
        _ ≤ _ := by rw [one_mul]; exact hidf
    exact le_trans (le_abs_self _) (Real.abs_le_sqrt hsq)

end Hyp.Score
