import HypatiaProofs.Lemmas.RankTree

/-!
# Every score of a tree is a sum of docstring summands over a sub-list of the tree's word ids

`Repr k T W m`: each value of `m` at a document `d` is `Σ_{x ∈ S} specTerm k T ws x` for a
non-empty sub-list `S` of `W` whose members all occur in `d`'s words `ws`.  It holds for the
leaves (C08) and is preserved by the weighted unions / intersections / differences of
`executeQuery` (weights 1), for both back ends.
-/
set_option linter.unusedSectionVars false
set_option linter.unusedSimpArgs false
namespace Hyp.Score
open Hyp Hyp.SetOps Hyp.SetSpec Hyp.QP

-- for any BM25 parameters (`Score.Bm25`: `K1`, `B` of the scoring loop, `K1` of `query_weight`)
variable [Bm25 ℝ]

def Repr (k : Kind) (T : Table) (W : List Nat) (m : WMap ℝ) : Prop :=
  ∀ d v, AMap.get m d = some v → ∃ ws S, AMap.get T d = some ws ∧ S ≠ [] ∧ S.Sublist W ∧
    (∀ x ∈ S, x ∈ ws) ∧ v = (S.map (specTerm k T ws)).sum

theorem repr_mono {k : Kind} {T : Table} {W W' : List Nat} {m : WMap ℝ} (h : Repr k T W m)
    (hW : W.Sublist W') : Repr k T W' m := by
  intro d v hv
  obtain ⟨ws, S, h1, h2, h3, h4, h5⟩ := h d v hv
  exact ⟨ws, S, h1, h2, h3.trans hW, h4, h5⟩

/-- a term-list score is such a sum -/
theorem repr_point (k : Kind) (T : Table) (wids : List Nat) (d : Int) (v : ℝ)
    (hv : ScoreSpec.score k T wids d = some v) :
    ∃ ws S, AMap.get T d = some ws ∧ S ≠ [] ∧ S.Sublist wids ∧ (∀ x ∈ S, x ∈ ws) ∧
      v = (S.map (specTerm k T ws)).sum := by
  rw [score_unfold] at hv
  cases hd : AMap.get T d with
  | none => rw [hd] at hv; cases hv
  | some ws =>
    rw [hd] at hv
    simp only [Option.bind_some] at hv
    rw [sum1_eq] at hv
    split at hv
    · cases hv
    · next hne =>
      injection hv with hv
      refine ⟨ws, wids.filter (fun t => ws.contains t), rfl, ?_, List.filter_sublist, ?_, hv.symm⟩
      · intro e; apply hne; rw [e]; rfl
      · intro x hx; simpa using (List.mem_filter.mp hx).2

theorem repr_of_score (k : Kind) (T : Table) (wids : List Nat) (m : WMap ℝ)
    (hg : ∀ d, AMap.get m d = ScoreSpec.score k T wids d) : Repr k T wids m :=
  fun d v hv => repr_point k T wids d v (by rw [← hg d]; exact hv)

def ReprAll (k : Kind) (T : Table) (ms : List (WMap ℝ)) (Ws : List (List Nat)) : Prop :=
  List.Forall₂ (fun m W => Repr k T W m) ms Ws

theorem contribs_repr (k : Kind) (T : Table) (ms : List (WMap ℝ)) (Ws : List (List Nat))
    (h : ReprAll k T ms Ws) (d : Int) (ws : List Nat) (hd : AMap.get T d = some ws) :
    ∃ S : List Nat, S.Sublist Ws.flatten ∧ (∀ x ∈ S, x ∈ ws) ∧
      (contribs (ms.map (fun m => (m, (1 : ℝ)))) d).sum = (S.map (specTerm k T ws)).sum ∧
      (contribs (ms.map (fun m => (m, (1 : ℝ)))) d ≠ [] → S ≠ []) := by
  induction h with
  | nil => exact ⟨[], by simp, by simp, by simp [contribs], by simp [contribs]⟩
  | @cons m W ms Ws hmW _ ih =>
    obtain ⟨S, hS1, hS2, hS3, hS4⟩ := ih
    simp only [List.map_cons]
    rw [contribs_cons]
    cases hg : AMap.get m d with
    | none =>
      simp only [List.nil_append, List.flatten_cons]
      exact ⟨S, hS1.trans (List.sublist_append_right _ _), hS2, hS3, hS4⟩
    | some v =>
      obtain ⟨ws', S', h1, h2, h3, h4, h5⟩ := hmW d v hg
      rw [hd] at h1; injection h1 with h1; subst h1
      refine ⟨S' ++ S, ?_, ?_, ?_, ?_⟩
      · simp only [List.flatten_cons]; exact List.Sublist.append h3 hS1
      · intro x hx
        rcases List.mem_append.mp hx with hx | hx
        · exact h4 x hx
        · exact hS2 x hx
      · simp only [List.cons_append, List.nil_append, List.sum_cons, one_mul, List.map_append,
          List.sum_append, hS3, h5]
      · intro _ e
        exact h2 (List.append_eq_nil_iff.mp e).1

theorem unionAt_repr (k : Kind) (T : Table) (ms : List (WMap ℝ)) (Ws : List (List Nat))
    (h : ReprAll k T ms Ws) (d : Int) (v : ℝ)
    (hv : unionAt (ms.map (fun m => (m, (Scalar.nat 1 : ℝ)))) d = some v) :
    ∃ ws S, AMap.get T d = some ws ∧ S ≠ [] ∧ S.Sublist Ws.flatten ∧ (∀ x ∈ S, x ∈ ws) ∧
      v = (S.map (specTerm k T ws)).sum := by
  rw [nat_one] at hv
  unfold unionAt at hv
  rw [sum1_eq] at hv
  split at hv
  · cases hv
  · next hne =>
    injection hv with hv
    -- some operand contains `d`, so `d` is in the table
    have hex : ∃ ws, AMap.get T d = some ws := by
      by_contra hcon
      apply hne
      have hnone : AMap.get T d = none := by
        cases hd : AMap.get T d with
        | none => rfl
        | some ws => exact absurd ⟨ws, hd⟩ hcon
      clear hne hv
      induction h with
      | nil => simp [contribs]
      | @cons m W ms Ws hmW _ ih =>
        simp only [List.map_cons]
        rw [contribs_cons, ih]
        cases hg : AMap.get m d with
        | none => rfl
        | some x =>
          obtain ⟨ws', _, h1, _⟩ := hmW d x hg
          rw [hnone] at h1; cases h1
    obtain ⟨ws, hd⟩ := hex
    obtain ⟨S, hS1, hS2, hS3, hS4⟩ := contribs_repr k T ms Ws h d ws hd
    exact ⟨ws, S, hd, hS4 hne, hS1, hS2, by rw [← hv, hS3]⟩

section
variable (k : Kind) (s : State) (lex : Lex)

noncomputable abbrev ixK : Index (Res ℝ) := textIndex k s lex

/-- the word ids of a tree's terms (`tree.terms()` through `termToWordIds`) -/
def Wt (t : Tree) : List Nat := (terms t).flatMap lex.termWids
def WL (ts : List Tree) : List Nat := (termsL ts).flatMap lex.termWids

theorem WL_cons (t : Tree) (ts : List Tree) : WL lex (t :: ts) = Wt lex t ++ WL lex ts := by
  unfold WL Wt; rw [termsL, List.flatMap_append]

theorem inter_repr (ms : List (WMap ℝ)) (Ws : List (List Nat)) (h : ReprAll k s.T ms Ws) :
    ∃ hits, (ixK k s lex).inter (ms.map Except.ok) = .ok hits ∧ Repr k s.T Ws.flatten hits := by
  obtain ⟨hits, hh, hg⟩ := massInter_spec (ms.map (fun m => (some m, (Scalar.nat 1 : ℝ))))
  refine ⟨hits, ?_, fun d v hv => ?_⟩
  · simp only [ixK, textIndex]
    rw [seqRes_map_ok]; exact hh
  · rw [hg d, present_map_some1] at hv
    exact unionAt_repr k s.T ms Ws h d v (interAt_some_unionAt hv)

theorem union_repr (ms : List (WMap ℝ)) (Ws : List (List Nat)) (h : ReprAll k s.T ms Ws) :
    ∃ u, (ixK k s lex).union (ms.map Except.ok) = .ok u ∧ Repr k s.T Ws.flatten u := by
  obtain ⟨u, hu, hg⟩ := massUnion_spec (ms.map (fun m => (m, (Scalar.nat 1 : ℝ))))
  refine ⟨u, ?_, fun d v hv => ?_⟩
  · simp only [ixK, textIndex]
    rw [seqRes_map_ok]; exact hu
  · rw [hg d] at hv
    exact unionAt_repr k s.T ms Ws h d v hv

theorem union_okK (ns : List (WMap ℝ)) : ∃ u, (ixK k s lex).union (ns.map Except.ok) = .ok u := by
  obtain ⟨u, hu, _⟩ := massUnion_spec (ns.map (fun m => (m, (Scalar.nat 1 : ℝ))))
  refine ⟨u, ?_⟩
  simp only [ixK, textIndex]
  rw [seqRes_map_ok]; exact hu

theorem diff_repr (a u : WMap ℝ) (W : List Nat) (h : Repr k s.T W a) :
    ∃ m, (ixK k s lex).diff (.ok a) (.ok u) = .ok m ∧ Repr k s.T W m := by
  refine ⟨a.filter (fun p => !(AMap.contains u p.1)), rfl, fun d v hv => ?_⟩
  rw [get_filter_key a (fun j => !(AMap.contains u j)) d] at hv
  split at hv
  · exact h d v hv
  · cases hv

def GoodR (L : List (Res ℝ)) (W : List Nat) : Prop :=
  ∃ ms Ws, L = ms.map Except.ok ∧ ReprAll k s.T ms Ws ∧ Ws.flatten.Sublist W

theorem goodR_nil : GoodR k s ([] : List (Res ℝ)) [] := ⟨[], [], rfl, List.Forall₂.nil, by simp⟩

theorem goodR_cons {L : List (Res ℝ)} {W W' : List Nat} (m : WMap ℝ) (hm : Repr k s.T W' m)
    (h : GoodR k s L W) : GoodR k s (.ok m :: L) (W' ++ W) := by
  obtain ⟨ms, Ws, rfl, hb, hsub⟩ := h
  exact ⟨m :: ms, W' :: Ws, rfl, List.Forall₂.cons hm hb, by
    simp only [List.flatten_cons]; exact List.Sublist.append (List.Sublist.refl _) hsub⟩

theorem goodR_mono {L : List (Res ℝ)} {W W' : List Nat} (h : GoodR k s L W) (hW : W.Sublist W') :
    GoodR k s L W' := by
  obtain ⟨ms, Ws, e, hb, hsub⟩ := h
  exact ⟨ms, Ws, e, hb, hsub.trans hW⟩

def RT (t : Tree) : Prop :=
  globFree t = true → ∀ r, exec (ixK k s lex) t = .ok (some r) → ∃ m, r = .ok m ∧ Repr k s.T (Wt lex t) m
def RA (ts : List Tree) : Prop :=
  globFreeL ts = true → ∀ L nots, execAnd (ixK k s lex) ts = .ok (L, nots) →
    GoodR k s L (WL lex ts) ∧ ∃ ns : List (WMap ℝ), nots = ns.map Except.ok
def RO (ts : List Tree) : Prop :=
  globFreeL ts = true → ∀ L, execOr (ixK k s lex) ts = .ok L → GoodR k s L (WL lex ts)

theorem rt_atom (hs : Inv s) (w : Str) : RT k s lex (.atom w) := by
  intro _ r h
  rw [exec] at h
  injection h with h
  have hw : Wt lex (.atom w) = lex.termWids [w] := by unfold Wt; simp [terms]
  rw [hw]
  simp only [ixK, textIndex] at h
  by_cases hne : lex.termWids [w] = []
  · rw [hne] at h; cases h
  · obtain ⟨m, hm, hg⟩ := search_spec k s hs (lex.termWids [w]) hne
    rw [hm] at h; injection h with h; subst h
    exact ⟨m, rfl, repr_of_score k s.T _ m hg⟩

theorem rt_phrase (hs : Inv s) (ws : List Str) : RT k s lex (.phrase ws) := by
  intro _ r h
  rw [exec] at h
  injection h with h; injection h with h
  have hw : Wt lex (.phrase ws) = lex.termWids ws := by unfold Wt; simp [terms]
  rw [hw]
  simp only [ixK, textIndex] at h
  obtain ⟨m, hm, hg⟩ := phrase_spec k s hs (lex.termWids ws)
  rw [hm] at h; subst h
  refine ⟨m, rfl, fun d v hv => ?_⟩
  rw [hg d] at hv
  unfold ScoreSpec.phraseScore at hv
  cases hd : AMap.get s.T d with
  | none => rw [hd] at hv; cases hv
  | some dws =>
    rw [hd] at hv
    simp only at hv
    split at hv
    · have := repr_point k s.T (lex.termWids ws) d v hv
      rw [hd] at this
      exact this
    · cases hv

theorem rt_glob (p : Str) : RT k s lex (.glob p) := by
  intro hg; simp [globFree] at hg

theorem rt_not (t : Tree) : RT k s lex (.notN t) := by
  intro _ r h; rw [exec] at h; cases h

theorem rt_and (ts : List Tree) (h : RA k s lex ts) : RT k s lex (.andN ts) := by
  intro hg r hr
  rw [exec] at hr
  have hq : Wt lex (.andN ts) = WL lex ts := by unfold Wt WL; rw [terms]
  rw [hq]
  cases he : execAnd (ixK k s lex) ts with
  | error e => rw [he] at hr; cases hr
  | ok p =>
    obtain ⟨L, nots⟩ := p
    rw [he] at hr
    simp only at hr
    injection hr with hr; injection hr with hr
    obtain ⟨⟨ms, Ws, rfl, hb, hsub⟩, ns, rfl⟩ := h (by simpa [globFree] using hg) L nots he
    obtain ⟨hits, hh, hbd⟩ := inter_repr k s lex ms Ws hb
    have hbd' := repr_mono hbd hsub
    rw [hh] at hr
    by_cases hn : (ns.map (Except.ok : WMap ℝ → Res ℝ)).isEmpty = true
    · rw [if_pos hn] at hr; subst hr; exact ⟨hits, rfl, hbd'⟩
    · rw [if_neg hn] at hr
      obtain ⟨u, hu⟩ := union_okK k s lex ns
      rw [hu] at hr
      obtain ⟨m, hm, hmb⟩ := diff_repr k s lex hits u _ hbd'
      rw [hm] at hr; subst hr
      exact ⟨m, rfl, hmb⟩

theorem rt_or (ts : List Tree) (h : RO k s lex ts) : RT k s lex (.orN ts) := by
  intro hg r hr
  rw [exec] at hr
  have hq : Wt lex (.orN ts) = WL lex ts := by unfold Wt WL; rw [terms]
  rw [hq]
  cases he : execOr (ixK k s lex) ts with
  | error e => rw [he] at hr; cases hr
  | ok L =>
    rw [he] at hr
    simp only at hr
    injection hr with hr; injection hr with hr
    obtain ⟨ms, Ws, rfl, hb, hsub⟩ := h (by simpa [globFree] using hg) L he
    obtain ⟨u, hu, hbd⟩ := union_repr k s lex ms Ws hb
    rw [hu] at hr; subst hr
    exact ⟨u, rfl, repr_mono hbd hsub⟩

theorem ra_nil : RA k s lex [] := by
  intro _ L nots h
  rw [execAnd] at h
  injection h with h; injection h with h1 h2
  subst h1; subst h2
  have : WL lex [] = [] := by unfold WL; simp [termsL]
  rw [this]
  exact ⟨goodR_nil k s, [], rfl⟩

theorem child_goodR (t : Tree) (h : RT k s lex t) (hg : globFree t = true) (r : Option (Res ℝ))
    (hr : exec (ixK k s lex) t = .ok r) (L : List (Res ℝ)) (W : List Nat) (hL : GoodR k s L W) :
    GoodR k s (r.toList ++ L) (Wt lex t ++ W) := by
  cases r with
  | none =>
    simp only [Option.toList_none, List.nil_append]
    exact goodR_mono k s hL (List.sublist_append_right _ _)
  | some x =>
    obtain ⟨m, rfl, hm⟩ := h hg x hr
    simp only [Option.toList_some, List.cons_append, List.nil_append]
    exact goodR_cons k s m hm hL

theorem ra_cons_not (t : Tree) (rest : List Tree) (h1 : RT k s lex t) (h2 : RA k s lex rest) :
    RA k s lex (.notN t :: rest) := by
  intro hg L nots h
  rw [execAnd.eq_2] at h
  simp only [globFreeL, globFree, Bool.and_eq_true] at hg
  cases he : exec (ixK k s lex) t with
  | error e => rw [he] at h; cases h
  | ok r =>
    rw [he] at h
    simp only at h
    cases hr : execAnd (ixK k s lex) rest with
    | error e => rw [hr] at h; cases h
    | ok p =>
      obtain ⟨L', nots'⟩ := p
      rw [hr] at h
      simp only at h
      injection h with h; injection h with h1' h2'
      subst h1'; subst h2'
      obtain ⟨hgood, ns, rfl⟩ := h2 hg.2 L' nots' hr
      have hw : WL lex (.notN t :: rest) = WL lex rest := by
        rw [WL_cons]; unfold Wt; simp [terms]
      rw [hw]
      refine ⟨hgood, ?_⟩
      cases r with
      | none => exact ⟨ns, rfl⟩
      | some x =>
        obtain ⟨m, rfl, _⟩ := h1 hg.1 x he
        exact ⟨m :: ns, rfl⟩

theorem ra_cons_pos (t : Tree) (rest : List Tree) (hnot : ∀ t', t = Tree.notN t' → False)
    (h1 : RT k s lex t) (h2 : RA k s lex rest) : RA k s lex (t :: rest) := by
  intro hg L nots h
  rw [execAnd.eq_3 _ _ _ hnot] at h
  simp only [globFreeL, Bool.and_eq_true] at hg
  cases he : exec (ixK k s lex) t with
  | error e => rw [he] at h; cases h
  | ok r =>
    rw [he] at h
    simp only at h
    cases hr : execAnd (ixK k s lex) rest with
    | error e => rw [hr] at h; cases h
    | ok p =>
      obtain ⟨L', nots'⟩ := p
      rw [hr] at h
      simp only at h
      injection h with h; injection h with h1' h2'
      subst h1'; subst h2'
      obtain ⟨hgood, ns, rfl⟩ := h2 hg.2 L' nots' hr
      rw [WL_cons]
      have hc := child_goodR k s lex t h1 hg.1 r he L' _ hgood
      refine ⟨?_, ns, rfl⟩
      cases r <;> simpa using hc

theorem ro_nil : RO k s lex [] := by
  intro _ L h
  rw [execOr] at h
  injection h with h; subst h
  have : WL lex [] = [] := by unfold WL; simp [termsL]
  rw [this]
  exact goodR_nil k s

theorem ro_cons (t : Tree) (rest : List Tree) (h1 : RT k s lex t) (h2 : RO k s lex rest) :
    RO k s lex (t :: rest) := by
  intro hg L h
  rw [execOr] at h
  simp only [globFreeL, Bool.and_eq_true] at hg
  cases he : exec (ixK k s lex) t with
  | error e => rw [he] at h; cases h
  | ok r =>
    rw [he] at h
    simp only at h
    cases hr : execOr (ixK k s lex) rest with
    | error e => rw [hr] at h; cases h
    | ok L' =>
      rw [hr] at h
      simp only at h
      injection h with h; subst h
      rw [WL_cons]
      have hc := child_goodR k s lex t h1 hg.1 r he L' _ (h2 hg.2 L' hr)
      cases r <;> simpa using hc

mutual
theorem rt_all (hs : Inv s) : ∀ t : Tree, RT k s lex t
  | .atom w => rt_atom k s lex hs w
  | .phrase ws => rt_phrase k s lex hs ws
  | .glob p => rt_glob k s lex p
  | .notN t => rt_not k s lex t
  | .andN ts => rt_and k s lex ts (ra_all hs ts)
  | .orN ts => rt_or k s lex ts (ro_all hs ts)
theorem ra_all (hs : Inv s) : ∀ ts : List Tree, RA k s lex ts
  | [] => ra_nil k s lex
  | .notN t :: rest => ra_cons_not k s lex t rest (rt_all hs t) (ra_all hs rest)
  | .atom w :: rest => ra_cons_pos k s lex _ rest (by intro t' e; cases e) (rt_all hs (.atom w)) (ra_all hs rest)
  | .phrase w :: rest => ra_cons_pos k s lex _ rest (by intro t' e; cases e) (rt_all hs (.phrase w)) (ra_all hs rest)
  | .glob w :: rest => ra_cons_pos k s lex _ rest (by intro t' e; cases e) (rt_all hs (.glob w)) (ra_all hs rest)
  | .andN w :: rest => ra_cons_pos k s lex _ rest (by intro t' e; cases e) (rt_all hs (.andN w)) (ra_all hs rest)
  | .orN w :: rest => ra_cons_pos k s lex _ rest (by intro t' e; cases e) (rt_all hs (.orN w)) (ra_all hs rest)
theorem ro_all (hs : Inv s) : ∀ ts : List Tree, RO k s lex ts
  | [] => ro_nil k s lex
  | t :: rest => ro_cons k s lex t rest (rt_all hs t) (ro_all hs rest)
end

end
end Hyp.Score
