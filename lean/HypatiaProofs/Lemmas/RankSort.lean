import HypatiaProofs.Lemmas.ScalarReal
import HypatiaModel.TextSort
import Mathlib.Data.Prod.Lex

/-!
# TextIndex.sort over ℝ: the tuple order is a total preorder, the output is sorted
-/
set_option linter.unusedSectionVars false
set_option linter.unusedSimpArgs false
namespace Hyp.TextSort
open Hyp Hyp.SetOps Hyp.Sort

/-- Python's tuple comparison is the lexicographic order -/
theorem tupleLt_iff (a c : ℝ × Int) : tupleLt a c = true ↔ toLex a < toLex c := by
  rw [Prod.Lex.toLex_lt_toLex]
  unfold tupleLt
  simp [Scalar.ltb_real, Scalar.beq_real]

theorem inFront_iff (reverse : Bool) (a c : ℝ × Int) :
    inFront reverse a c = true ↔ if reverse then toLex a ≤ toLex c else toLex c ≤ toLex a := by
  cases reverse
  · simp only [inFront, Bool.false_eq_true, if_false, Bool.not_eq_true', ← Bool.not_eq_true, tupleLt_iff, not_lt]
  · simp only [inFront, if_true, Bool.not_eq_true', ← Bool.not_eq_true, tupleLt_iff, not_lt]

theorem inFront_tp (reverse : Bool) : TotalPreorder (inFront reverse : ℝ × Int → ℝ × Int → Bool) where
  total a c := by
    rw [inFront_iff, inFront_iff]
    cases reverse
    · simpa using le_total (toLex c) (toLex a)
    · simpa using le_total (toLex a) (toLex c)
  trans a b c := by
    rw [inFront_iff, inFront_iff, inFront_iff]
    cases reverse
    · simpa using fun h1 h2 => le_trans h2 h1
    · simpa using fun h1 h2 => le_trans h1 h2

/-- lexicographically ordered tuples have ordered first components -/
theorem fst_le_of_lex {a c : ℝ × Int} (h : toLex a ≤ toLex c) : a.1 ≤ c.1 := by
  rw [Prod.Lex.toLex_le_toLex] at h
  rcases h with h | h
  · exact le_of_lt h
  · exact le_of_eq h.1

theorem cut_prefix (limit : Option Int) (l : List Int) : cut limit l <+: l := by
  unfold cut
  cases limit with
  | none => exact List.prefix_refl _
  | some n =>
    simp only
    split
    · exact List.prefix_refl _
    · split <;> exact List.take_prefix _ _

theorem length_cut_pos (n : Int) (hn : 0 < n) (l : List Int) : (cut (some n) l).length = min n.toNat l.length := by
  unfold cut
  have h0 : ¬ n = 0 := by omega
  simp [h0, hn]

end Hyp.TextSort
