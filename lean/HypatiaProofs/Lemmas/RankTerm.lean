import HypatiaProofs.Lemmas.ScorePhrase

/-!
# The BM25 summand is positive and below its query-weight share (over ℝ)
-/
set_option linter.unusedSectionVars false
set_option linter.unusedSimpArgs false
namespace Hyp.Score
open Hyp Hyp.SetOps Hyp.SetSpec

-- for any BM25 parameters (`Score.Bm25`: `K1`, `B` of the scoring loop, `K1` of `query_weight`)
variable [Bm25 ℝ]

/-- the parameter ranges the bound needs: `K1 ≥ 0` and `0 ≤ B ≤ 1` (what the class body of `OkapiIndex`
asserts of its own values) for the scoring loop, and `query_weight` reading a `K1` that is not smaller
than the loop's (it reads the same attribute in the pure-Python loop; the compiled loop keeps 1.2 whatever
the attribute says) -/
class Bm25Ok : Prop where
  k1_nonneg : (0 : ℝ) ≤ Bm25.k1
  b_nonneg : (0 : ℝ) ≤ Bm25.b
  b_le_one : (Bm25.b : ℝ) ≤ 1
  k1_le_kq : (Bm25.k1 : ℝ) ≤ Bm25.kq

/-- `0 < v ≤ B` for every stored value -/
def Bounded (m : WMap ℝ) (B : ℝ) : Prop := ∀ d v, AMap.get m d = some v → 0 < v ∧ v ≤ B

theorem tl_ge_of_get {T : Table} {d : Int} {ws : List Nat} (h : AMap.get T d = some ws) :
    ws.length ≤ tl T := by
  induction T with
  | nil => simp at h
  | cons p T ih =>
    obtain ⟨a, v⟩ := p
    rw [AMap.get_cons] at h
    simp only [tl, List.map_cons, List.sum_cons]
    by_cases e : a = d
    · simp only [e, if_true, Option.some.injEq] at h; subst h; omega
    · simp only [e, if_false] at h
      have := ih h
      simp only [tl] at this; omega

theorem N_pos_of_get {T : Table} {d : Int} {ws : List Nat} (h : AMap.get T d = some ws) :
    0 < ScoreSpec.N T := by
  unfold ScoreSpec.N
  cases T with
  | nil => simp at h
  | cons _ _ => simp

theorem df_pos_of_get {T : Table} {d : Int} {ws : List Nat} (h : AMap.get T d = some ws) {t : Nat}
    (ht : t ∈ ws) : 0 < ScoreSpec.df T t := by
  unfold ScoreSpec.df
  apply List.length_pos_of_mem (a := (d, ws))
  rw [List.mem_filter]
  exact ⟨AMap.mem_of_get h, by simpa using ht⟩

theorem df_le_N (T : Table) (t : Nat) : ScoreSpec.df T t ≤ ScoreSpec.N T := List.length_filter_le _ _

/-- idf > 0 for a term that occurs somewhere -/
theorem idf_pos (T : Table) (t : Nat) (h : 0 < ScoreSpec.df T t) : (0 : ℝ) < ScoreSpec.idf T t := by
  have hN : 0 < ScoreSpec.N T := lt_of_lt_of_le h (df_le_N T t)
  unfold ScoreSpec.idf
  simp only [Scalar.nat_real, Scalar.log_real]
  apply Real.log_pos
  have h1 : (0 : ℝ) < (ScoreSpec.N T : ℝ) := by exact_mod_cast hN
  have h2 : (0 : ℝ) < (ScoreSpec.df T t : ℝ) := by exact_mod_cast h
  have : (0 : ℝ) < (ScoreSpec.N T : ℝ) / (ScoreSpec.df T t : ℝ) := div_pos h1 h2
  push_cast; linarith

variable [Bm25Ok]

/-- `0 < TF(D,t) ≤ k1 + 1` for a term of the document (strictly below for `k1 > 0`) -/
theorem okapiTF_bounds (T : Table) (hd : AMap.get T d = some ws) (ht : t ∈ ws) :
    (0 : ℝ) < ScoreSpec.okapiTF T ws t ∧ (ScoreSpec.okapiTF T ws t : ℝ) ≤ ScoreSpec.k1 + Scalar.nat 1 := by
  have hf : 0 < ws.count t := List.count_pos_iff.mpr ht
  have hf' : (0 : ℝ) < (ws.count t : ℝ) := by exact_mod_cast hf
  have hN : (0 : ℝ) < (ScoreSpec.N T : ℝ) := by exact_mod_cast N_pos_of_get hd
  have htl : (0 : ℝ) < (ScoreSpec.totalLen T : ℝ) := by
    have := tl_ge_of_get hd
    have hlen : 0 < ws.length := List.length_pos_of_mem ht
    rw [totalLen_eq]
    have : 0 < tl T := by omega
    exact_mod_cast this
  have hmean : (0 : ℝ) < ScoreSpec.meanLen T := by
    unfold ScoreSpec.meanLen; simp only [Scalar.nat_real]; exact div_pos htl hN
  have hk : (0 : ℝ) ≤ Bm25.k1 := Bm25Ok.k1_nonneg
  have hb0 : (0 : ℝ) ≤ Bm25.b := Bm25Ok.b_nonneg
  have hb1 : (Bm25.b : ℝ) ≤ 1 := Bm25Ok.b_le_one
  unfold ScoreSpec.okapiTF ScoreSpec.k1 ScoreSpec.b
  simp only [Scalar.nat_real, Nat.cast_one]
  set f : ℝ := (ws.count t : ℝ)
  set m : ℝ := ScoreSpec.meanLen T
  set k : ℝ := Bm25.k1
  set b : ℝ := Bm25.b
  have hl : (0 : ℝ) ≤ (ws.length : ℝ) := by positivity
  have hq : (0 : ℝ) ≤ b * (ws.length : ℝ) / m := div_nonneg (mul_nonneg hb0 hl) (le_of_lt hmean)
  have hlw : (0 : ℝ) ≤ 1 - b + b * (ws.length : ℝ) / m := by linarith
  have hD : (0 : ℝ) < f + k * (1 - b + b * (ws.length : ℝ) / m) := by
    have := mul_nonneg hk hlw; linarith
  have h3 : (0 : ℝ) < k + 1 := by linarith
  constructor
  · exact div_pos (mul_pos hf' h3) hD
  · rw [div_le_iff₀ hD]
    have h2 := mul_nonneg hk hlw
    nlinarith [mul_nonneg (le_of_lt h3) h2]

/-- the Okapi summand of a term of the document: positive, at most `IDF·(k1+1)` -/
theorem okapi_term_bounds (T : Table) (hd : AMap.get T d = some ws) (ht : t ∈ ws) :
    (0 : ℝ) < specTerm .okapi T ws t ∧
      specTerm .okapi T ws t ≤ ScoreSpec.idf T t * (ScoreSpec.k1 + Scalar.nat 1) := by
  obtain ⟨h1, h2⟩ := okapiTF_bounds T hd ht
  have hi := idf_pos T t (df_pos_of_get hd ht)
  unfold specTerm
  simp only
  constructor
  · exact mul_pos h1 hi
  · rw [mul_comm]
    exact mul_le_mul_of_nonneg_left h2 (le_of_lt hi)

omit [Bm25Ok] in
theorem sum_filter_le (l : List Nat) (c p : Nat → Bool) (a b : Nat → ℝ)
    (hcp : ∀ t, c t = true → p t = true) (hab : ∀ t, c t = true → a t ≤ b t)
    (hb : ∀ t, p t = true → 0 ≤ b t) :
    ((l.filter c).map a).sum ≤ ((l.filter p).map b).sum := by
  induction l with
  | nil => simp
  | cons x l ih =>
    by_cases hc : c x = true
    · simp only [List.filter_cons, hc, hcp x hc, if_true, List.map_cons, List.sum_cons]
      exact add_le_add (hab x hc) ih
    · by_cases hp : p x = true
      · simp only [List.filter_cons, hc, hp, if_true, List.map_cons, List.sum_cons]
        have := hb x hp
        simp only [Bool.not_eq_true] at hc
        simp only [hc, Bool.false_eq_true, if_false]
        linarith
      · simp only [Bool.not_eq_true] at hc hp
        simp only [List.filter_cons, hc, hp, Bool.false_eq_true, if_false]
        exact ih

omit [Bm25Ok] in
theorem sum_pos_of_pos (l : List ℝ) (hne : l ≠ []) (h : ∀ x ∈ l, 0 < x) : 0 < l.sum := by
  induction l with
  | nil => exact absurd rfl hne
  | cons a l ih =>
    simp only [List.sum_cons]
    have ha := h a (by simp)
    by_cases hl : l = []
    · subst hl; simpa using ha
    · have := ih hl (fun x hx => h x (List.mem_cons_of_mem _ hx)); linarith

omit [Bm25Ok] in
/-- Okapi `query_weight` as a sum; it is never negative -/
theorem okapi_qw_eq (T : Table) (wids : List Nat) :
    (ScoreSpec.queryWeight .okapi T wids : ℝ) =
      ((wids.filter (fun t => decide (0 < ScoreSpec.df T t))).map
        (fun t => ScoreSpec.idf T t * (ScoreSpec.kq + Scalar.nat 1))).sum := by
  unfold ScoreSpec.queryWeight
  simp only [Scalar.nat_real, Nat.cast_zero]
  rw [foldl_add_real]

theorem k1_plus_one_pos : (0 : ℝ) < ScoreSpec.kq + Scalar.nat 1 := by
  have h1 : (0 : ℝ) ≤ Bm25.k1 := Bm25Ok.k1_nonneg
  have h2 : (Bm25.k1 : ℝ) ≤ Bm25.kq := Bm25Ok.k1_le_kq
  unfold ScoreSpec.kq; simp only [Scalar.nat_real, Nat.cast_one]; linarith

/-- the loop's ceiling `k1 + 1` is at most the `kq + 1` that `query_weight` uses -/
theorem k1_le_kq_plus : (ScoreSpec.k1 + Scalar.nat 1 : ℝ) ≤ ScoreSpec.kq + Scalar.nat 1 := by
  have h2 : (Bm25.k1 : ℝ) ≤ Bm25.kq := Bm25Ok.k1_le_kq
  unfold ScoreSpec.kq ScoreSpec.k1; linarith

theorem okapi_qw_nonneg (T : Table) (wids : List Nat) : (0 : ℝ) ≤ ScoreSpec.queryWeight .okapi T wids := by
  rw [okapi_qw_eq]
  apply List.sum_nonneg
  intro x hx
  obtain ⟨t, ht, rfl⟩ := List.mem_map.mp hx
  have := (List.mem_filter.mp ht).2
  exact le_of_lt (mul_pos (idf_pos T t (by simpa using this)) k1_plus_one_pos)

omit [Bm25Ok] in
theorem okapi_qw_append (T : Table) (a c : List Nat) :
    (ScoreSpec.queryWeight .okapi T (a ++ c) : ℝ) =
      ScoreSpec.queryWeight .okapi T a + ScoreSpec.queryWeight .okapi T c := by
  simp only [okapi_qw_eq, List.filter_append, List.map_append, List.sum_append]

/-- a scored document of an Okapi term-list query: `0 < score ≤ query_weight` -/
theorem okapi_score_bounds (T : Table) (wids : List Nat) (d : Int) (v : ℝ)
    (h : ScoreSpec.score .okapi T wids d = some v) :
    0 < v ∧ v ≤ ScoreSpec.queryWeight .okapi T wids := by
  rw [score_unfold] at h
  cases hd : AMap.get T d with
  | none => rw [hd] at h; cases h
  | some ws =>
    rw [hd] at h
    simp only [Option.bind_some] at h
    rw [sum1_eq] at h
    split at h
    · cases h
    · next hne =>
      injection h with h; subst h
      constructor
      · apply sum_pos_of_pos _ hne
        intro x hx
        obtain ⟨t, ht, rfl⟩ := List.mem_map.mp hx
        have := (List.mem_filter.mp ht).2
        exact (okapi_term_bounds T hd (by simpa using this)).1
      · rw [okapi_qw_eq]
        apply sum_filter_le
        · intro t ht; simpa using df_pos_of_get hd (by simpa using ht)
        · intro t ht
          have hm : t ∈ ws := by simpa using ht
          exact le_trans (okapi_term_bounds T hd hm).2
            (mul_le_mul_of_nonneg_left k1_le_kq_plus (le_of_lt (idf_pos T t (df_pos_of_get hd hm))))
        · intro t ht
          exact le_of_lt (mul_pos (idf_pos T t (by simpa using ht)) k1_plus_one_pos)

end Hyp.Score
