import HypatiaProofs.Lemmas.RankTerm

/-!
# `0 < score ≤ query_weight` for every glob-free tree (Okapi, over ℝ)

Mutual structural induction over `Tree` / `List Tree`, following `exec` / `execAnd` / `execOr`.
-/
set_option linter.unusedSectionVars false
set_option linter.unusedSimpArgs false
namespace Hyp.Score
open Hyp Hyp.SetOps Hyp.SetSpec Hyp.QP

-- for any BM25 parameters (`Score.Bm25`: `K1`, `B` of the scoring loop, `K1` of `query_weight`)
variable [Bm25 ℝ]

mutual
/-- no `GlobNode` anywhere in the tree (also not below NOT) -/
def globFree : Tree → Bool
  | .atom _ => true
  | .phrase _ => true
  | .glob _ => false
  | .notN t => globFree t
  | .andN ts => globFreeL ts
  | .orN ts => globFreeL ts
def globFreeL : List Tree → Bool
  | [] => true
  | t :: ts => globFree t && globFreeL ts
end

/-- bounded operands with non-negative bounds -/
def BoundedAll (ms : List (WMap ℝ)) (Bs : List ℝ) : Prop :=
  List.Forall₂ (fun m B => Bounded m B ∧ 0 ≤ B) ms Bs

theorem contribs_bounded (ms : List (WMap ℝ)) (Bs : List ℝ) (h : BoundedAll ms Bs) (d : Int) :
    (∀ x ∈ contribs (ms.map (fun m => (m, (1 : ℝ)))) d, 0 < x) ∧
      (contribs (ms.map (fun m => (m, (1 : ℝ)))) d).sum ≤ Bs.sum := by
  induction h with
  | nil => simp [contribs]
  | @cons m B ms Bs hmB _ ih =>
    simp only [List.map_cons]
    rw [contribs_cons]
    cases hg : AMap.get m d with
    | none =>
      simp only [List.nil_append, List.sum_cons]
      exact ⟨ih.1, by linarith [ih.2, hmB.2]⟩
    | some v =>
      obtain ⟨hv1, hv2⟩ := hmB.1 d v hg
      simp only [List.cons_append, List.nil_append, List.mem_cons, List.sum_cons, one_mul]
      refine ⟨?_, by linarith [ih.2]⟩
      rintro x (rfl | hx)
      · exact hv1
      · exact ih.1 x hx

theorem nat_one : (Scalar.nat 1 : ℝ) = 1 := by simp

theorem unionAt_bounded (ms : List (WMap ℝ)) (Bs : List ℝ) (h : BoundedAll ms Bs) (d : Int) (v : ℝ)
    (hv : unionAt (ms.map (fun m => (m, (Scalar.nat 1 : ℝ)))) d = some v) : 0 < v ∧ v ≤ Bs.sum := by
  rw [nat_one] at hv
  unfold unionAt at hv
  rw [sum1_eq] at hv
  obtain ⟨h1, h2⟩ := contribs_bounded ms Bs h d
  split at hv
  · cases hv
  · next hne =>
    injection hv with hv; subst hv
    exact ⟨sum_pos_of_pos _ hne h1, h2⟩

theorem present_map_some1 (ms : List (WMap ℝ)) (w : ℝ) :
    present (ms.map (fun m => (some m, w))) = ms.map (fun m => (m, w)) := by
  unfold present
  induction ms with
  | nil => rfl
  | cons m ms ih => simp [List.filterMap_cons, ih]

theorem interAt_some_unionAt {L : List (WMap ℝ × ℝ)} {d : Int} {v : ℝ} (h : interAt L d = some v) :
    unionAt L d = some v := by
  unfold interAt at h
  split at h
  · exact h
  · cases h

theorem seqRes_map_ok (ms : List (WMap ℝ)) : seqRes (ms.map (Except.ok : WMap ℝ → Res ℝ)) = .ok ms := by
  induction ms with
  | nil => rfl
  | cons m ms ih => simp [seqRes, ih]

theorem bounded_mono {m : WMap ℝ} {B B' : ℝ} (h : Bounded m B) (hB : B ≤ B') : Bounded m B' :=
  fun d v hv => ⟨(h d v hv).1, le_trans (h d v hv).2 hB⟩

section
-- the Okapi bound: parameters in the ranges of `Bm25Ok`
variable [Bm25Ok]
variable (s : State) (hs : Inv s) (lex : Lex)

/-- the Okapi index over the reals, as `executeQuery` sees it -/
noncomputable abbrev ixR : Index (Res ℝ) := textIndex .okapi s lex

/-- Okapi `query_weight` of a word-id list -/
noncomputable def QW (wids : List Nat) : ℝ := ScoreSpec.queryWeight .okapi s.T wids
noncomputable def QWt (t : Tree) : ℝ := QW s ((terms t).flatMap lex.termWids)
noncomputable def QWL (ts : List Tree) : ℝ := QW s ((termsL ts).flatMap lex.termWids)

theorem QWL_cons (t : Tree) (ts : List Tree) : QWL s lex (t :: ts) = QWt s lex t + QWL s lex ts := by
  unfold QWL QWt QW
  rw [termsL, List.flatMap_append, okapi_qw_append]

theorem QWt_nonneg (t : Tree) : 0 ≤ QWt s lex t := okapi_qw_nonneg _ _
theorem QWL_nonneg (ts : List Tree) : 0 ≤ QWL s lex ts := okapi_qw_nonneg _ _
theorem QWL_nil : QWL s lex [] = 0 := by
  unfold QWL QW; rw [termsL, okapi_qw_eq]; simp
theorem QWt_not (t : Tree) : QWt s lex (.notN t) = 0 := by
  unfold QWt QW; rw [terms, okapi_qw_eq]; simp

/-- the intersection of bounded operands (weights 1) is bounded by the sum of the bounds -/
theorem inter_bounded (ms : List (WMap ℝ)) (Bs : List ℝ) (h : BoundedAll ms Bs) :
    ∃ hits, (ixR s lex).inter (ms.map Except.ok) = .ok hits ∧ Bounded hits Bs.sum := by
  obtain ⟨hits, hh, hg⟩ := massInter_spec (ms.map (fun m => (some m, (Scalar.nat 1 : ℝ))))
  refine ⟨hits, ?_, fun d v hv => ?_⟩
  · simp only [ixR, textIndex]
    rw [seqRes_map_ok]; exact hh
  · rw [hg d, present_map_some1] at hv
    exact unionAt_bounded ms Bs h d v (interAt_some_unionAt hv)

theorem union_bounded (ms : List (WMap ℝ)) (Bs : List ℝ) (h : BoundedAll ms Bs) :
    ∃ u, (ixR s lex).union (ms.map Except.ok) = .ok u ∧ Bounded u Bs.sum := by
  obtain ⟨u, hu, hg⟩ := massUnion_spec (ms.map (fun m => (m, (Scalar.nat 1 : ℝ))))
  refine ⟨u, ?_, fun d v hv => ?_⟩
  · simp only [ixR, textIndex]
    rw [seqRes_map_ok]; exact hu
  · rw [hg d] at hv
    exact unionAt_bounded ms Bs h d v hv

theorem union_ok (ns : List (WMap ℝ)) :
    ∃ u, (ixR s lex).union (ns.map Except.ok) = .ok u := by
  obtain ⟨u, hu, _⟩ := massUnion_spec (ns.map (fun m => (m, (Scalar.nat 1 : ℝ))))
  refine ⟨u, ?_⟩
  simp only [ixR, textIndex]
  rw [seqRes_map_ok]; exact hu

theorem diff_bounded (a u : WMap ℝ) (B : ℝ) (h : Bounded a B) :
    ∃ m, (ixR s lex).diff (.ok a) (.ok u) = .ok m ∧ Bounded m B := by
  refine ⟨a.filter (fun p => !(AMap.contains u p.1)), rfl, fun d v hv => ?_⟩
  rw [get_filter_key a (fun j => !(AMap.contains u j)) d] at hv
  split at hv
  · exact h d v hv
  · cases hv

/-- what `execAnd` / `execOr` hand on: error-free operands, each bounded, bounds summing to at
most the query weight of the subtrees' terms -/
def GoodList (L : List (Res ℝ)) (B : ℝ) : Prop :=
  ∃ ms Bs, L = ms.map Except.ok ∧ BoundedAll ms Bs ∧ Bs.sum ≤ B

theorem goodList_nil : GoodList ([] : List (Res ℝ)) 0 := ⟨[], [], rfl, List.Forall₂.nil, by simp⟩

theorem goodList_cons {L : List (Res ℝ)} {B B' : ℝ} (m : WMap ℝ) (hm : Bounded m B') (hB' : 0 ≤ B')
    (h : GoodList L B) : GoodList (.ok m :: L) (B' + B) := by
  obtain ⟨ms, Bs, rfl, hb, hsum⟩ := h
  exact ⟨m :: ms, B' :: Bs, rfl, List.Forall₂.cons ⟨hm, hB'⟩ hb, by simp; linarith⟩

theorem goodList_mono {L : List (Res ℝ)} {B B' : ℝ} (h : GoodList L B) (hB : B ≤ B') : GoodList L B' := by
  obtain ⟨ms, Bs, e, hb, hsum⟩ := h
  exact ⟨ms, Bs, e, hb, le_trans hsum hB⟩

/-- the three induction predicates, following `exec` / `execAnd` / `execOr` -/
def PT (t : Tree) : Prop :=
  globFree t = true → ∀ r, exec (ixR s lex) t = .ok (some r) →
    ∃ m, r = .ok m ∧ Bounded m (QWt s lex t)
def PA (ts : List Tree) : Prop :=
  globFreeL ts = true → ∀ L nots, execAnd (ixR s lex) ts = .ok (L, nots) →
    GoodList L (QWL s lex ts) ∧ ∃ ns : List (WMap ℝ), nots = ns.map Except.ok
def PO (ts : List Tree) : Prop :=
  globFreeL ts = true → ∀ L, execOr (ixR s lex) ts = .ok L → GoodList L (QWL s lex ts)

theorem pt_atom (hs : Inv s) (w : Str) : PT s lex (.atom w) := by
  intro _ r h
  rw [exec] at h
  injection h with h
  have hw : QWt s lex (.atom w) = QW s (lex.termWids [w]) := by
    unfold QWt; simp [terms]
  rw [hw]
  simp only [ixR, textIndex] at h
  by_cases hne : lex.termWids [w] = []
  · rw [hne] at h; cases h
  · obtain ⟨m, hm, hg⟩ := search_spec .okapi s hs (lex.termWids [w]) hne
    rw [hm] at h; injection h with h; subst h
    exact ⟨m, rfl, fun d v hv => okapi_score_bounds s.T _ d v (by rw [← hg d]; exact hv)⟩

theorem pt_phrase (hs : Inv s) (ws : List Str) : PT s lex (.phrase ws) := by
  intro _ r h
  rw [exec] at h
  injection h with h; injection h with h
  have hw : QWt s lex (.phrase ws) = QW s (lex.termWids ws) := by
    unfold QWt; simp [terms]
  rw [hw]
  simp only [ixR, textIndex] at h
  obtain ⟨m, hm, hg⟩ := phrase_spec .okapi s hs (lex.termWids ws)
  rw [hm] at h; subst h
  refine ⟨m, rfl, fun d v hv => ?_⟩
  rw [hg d] at hv
  unfold ScoreSpec.phraseScore at hv
  cases hd : AMap.get s.T d with
  | none => rw [hd] at hv; cases hv
  | some dws =>
    rw [hd] at hv
    simp only at hv
    split at hv
    · exact okapi_score_bounds s.T _ d v hv
    · cases hv

theorem pt_glob (p : Str) : PT s lex (.glob p) := by
  intro hg; simp [globFree] at hg

theorem pt_not (t : Tree) : PT s lex (.notN t) := by
  intro _ r h; rw [exec] at h; cases h

theorem pt_and (ts : List Tree) (h : PA s lex ts) : PT s lex (.andN ts) := by
  intro hg r hr
  rw [exec] at hr
  have hq : QWt s lex (.andN ts) = QWL s lex ts := by unfold QWt QWL; rw [terms]
  rw [hq]
  cases he : execAnd (ixR s lex) ts with
  | error e => rw [he] at hr; cases hr
  | ok p =>
    obtain ⟨L, nots⟩ := p
    rw [he] at hr
    simp only at hr
    injection hr with hr; injection hr with hr
    obtain ⟨⟨ms, Bs, rfl, hb, hsum⟩, ns, rfl⟩ := h (by simpa [globFree] using hg) L nots he
    obtain ⟨hits, hh, hbd⟩ := inter_bounded s lex ms Bs hb
    have hbd' := bounded_mono hbd hsum
    rw [hh] at hr
    by_cases hn : (ns.map (Except.ok : WMap ℝ → Res ℝ)).isEmpty = true
    · rw [if_pos hn] at hr; subst hr; exact ⟨hits, rfl, hbd'⟩
    · rw [if_neg hn] at hr
      obtain ⟨u, hu⟩ := union_ok s lex ns
      rw [hu] at hr
      obtain ⟨m, hm, hmb⟩ := diff_bounded s lex hits u _ hbd'
      rw [hm] at hr; subst hr
      exact ⟨m, rfl, hmb⟩

theorem pt_or (ts : List Tree) (h : PO s lex ts) : PT s lex (.orN ts) := by
  intro hg r hr
  rw [exec] at hr
  have hq : QWt s lex (.orN ts) = QWL s lex ts := by unfold QWt QWL; rw [terms]
  rw [hq]
  cases he : execOr (ixR s lex) ts with
  | error e => rw [he] at hr; cases hr
  | ok L =>
    rw [he] at hr
    simp only at hr
    injection hr with hr; injection hr with hr
    obtain ⟨ms, Bs, rfl, hb, hsum⟩ := h (by simpa [globFree] using hg) L he
    obtain ⟨u, hu, hbd⟩ := union_bounded s lex ms Bs hb
    rw [hu] at hr; subst hr
    exact ⟨u, rfl, bounded_mono hbd hsum⟩

theorem pa_nil : PA s lex [] := by
  intro _ L nots h
  rw [execAnd] at h
  injection h with h; injection h with h1 h2
  subst h1; subst h2
  rw [QWL_nil]
  exact ⟨goodList_nil, [], rfl⟩

/-- the operand list contributed by one child -/
theorem child_good (t : Tree) (h : PT s lex t) (hg : globFree t = true) (r : Option (Res ℝ))
    (hr : exec (ixR s lex) t = .ok r) (L : List (Res ℝ)) (B : ℝ) (hL : GoodList L B) :
    GoodList (r.toList ++ L) (QWt s lex t + B) := by
  cases r with
  | none =>
    simp only [Option.toList_none, List.nil_append]
    exact goodList_mono hL (by linarith [QWt_nonneg s lex t])
  | some x =>
    obtain ⟨m, rfl, hm⟩ := h hg x hr
    simp only [Option.toList_some, List.cons_append, List.nil_append]
    exact goodList_cons m hm (QWt_nonneg s lex t) hL

theorem pa_cons_not (t : Tree) (rest : List Tree) (h1 : PT s lex t) (h2 : PA s lex rest) :
    PA s lex (.notN t :: rest) := by
  intro hg L nots h
  rw [execAnd.eq_2] at h
  simp only [globFreeL, globFree, Bool.and_eq_true] at hg
  cases he : exec (ixR s lex) t with
  | error e => rw [he] at h; cases h
  | ok r =>
    rw [he] at h
    simp only at h
    cases hr : execAnd (ixR s lex) rest with
    | error e => rw [hr] at h; cases h
    | ok p =>
      obtain ⟨L', nots'⟩ := p
      rw [hr] at h
      simp only at h
      injection h with h; injection h with h1' h2'
      subst h1'; subst h2'
      obtain ⟨hgood, ns, rfl⟩ := h2 hg.2 L' nots' hr
      rw [QWL_cons, QWt_not, zero_add]
      refine ⟨hgood, ?_⟩
      cases r with
      | none => exact ⟨ns, rfl⟩
      | some x =>
        obtain ⟨m, rfl, _⟩ := h1 hg.1 x he
        exact ⟨m :: ns, rfl⟩

theorem pa_cons_pos (t : Tree) (rest : List Tree) (hnot : ∀ t', t = Tree.notN t' → False)
    (h1 : PT s lex t) (h2 : PA s lex rest) : PA s lex (t :: rest) := by
  intro hg L nots h
  rw [execAnd.eq_3 _ _ _ hnot] at h
  simp only [globFreeL, Bool.and_eq_true] at hg
  cases he : exec (ixR s lex) t with
  | error e => rw [he] at h; cases h
  | ok r =>
    rw [he] at h
    simp only at h
    cases hr : execAnd (ixR s lex) rest with
    | error e => rw [hr] at h; cases h
    | ok p =>
      obtain ⟨L', nots'⟩ := p
      rw [hr] at h
      simp only at h
      injection h with h; injection h with h1' h2'
      subst h1'; subst h2'
      obtain ⟨hgood, ns, rfl⟩ := h2 hg.2 L' nots' hr
      rw [QWL_cons]
      have hc := child_good s lex t h1 hg.1 r he L' _ hgood
      refine ⟨?_, ns, rfl⟩
      cases r <;> simpa using hc

theorem po_nil : PO s lex [] := by
  intro _ L h
  rw [execOr] at h
  injection h with h; subst h
  rw [QWL_nil]
  exact goodList_nil

theorem po_cons (t : Tree) (rest : List Tree) (h1 : PT s lex t) (h2 : PO s lex rest) :
    PO s lex (t :: rest) := by
  intro hg L h
  rw [execOr] at h
  simp only [globFreeL, Bool.and_eq_true] at hg
  cases he : exec (ixR s lex) t with
  | error e => rw [he] at h; cases h
  | ok r =>
    rw [he] at h
    simp only at h
    cases hr : execOr (ixR s lex) rest with
    | error e => rw [hr] at h; cases h
    | ok L' =>
      rw [hr] at h
      simp only at h
      injection h with h; subst h
      rw [QWL_cons]
      have hc := child_good s lex t h1 hg.1 r he L' _ (h2 hg.2 L' hr)
      cases r <;> simpa using hc

mutual
theorem pt_all (hs : Inv s) : ∀ t : Tree, PT s lex t
  | .atom w => pt_atom s lex hs w
  | .phrase ws => pt_phrase s lex hs ws
  | .glob p => pt_glob s lex p
  | .notN t => pt_not s lex t
  | .andN ts => pt_and s lex ts (pa_all hs ts)
  | .orN ts => pt_or s lex ts (po_all hs ts)
theorem pa_all (hs : Inv s) : ∀ ts : List Tree, PA s lex ts
  | [] => pa_nil s lex
  | .notN t :: rest => pa_cons_not s lex t rest (pt_all hs t) (pa_all hs rest)
  | .atom w :: rest => pa_cons_pos s lex _ rest (by intro t' e; cases e) (pt_all hs (.atom w)) (pa_all hs rest)
  | .phrase w :: rest => pa_cons_pos s lex _ rest (by intro t' e; cases e) (pt_all hs (.phrase w)) (pa_all hs rest)
  | .glob w :: rest => pa_cons_pos s lex _ rest (by intro t' e; cases e) (pt_all hs (.glob w)) (pa_all hs rest)
  | .andN w :: rest => pa_cons_pos s lex _ rest (by intro t' e; cases e) (pt_all hs (.andN w)) (pa_all hs rest)
  | .orN w :: rest => pa_cons_pos s lex _ rest (by intro t' e; cases e) (pt_all hs (.orN w)) (pa_all hs rest)
theorem po_all (hs : Inv s) : ∀ ts : List Tree, PO s lex ts
  | [] => po_nil s lex
  | t :: rest => po_cons s lex t rest (pt_all hs t) (po_all hs rest)
end

end
end Hyp.Score
