import HypatiaModel.Spec.ResultSetSpec
import HypatiaProofs.Lemmas.FieldSortSpec

/-!
Case analyses behind C11: the representation (collection or one-shot stream) does not show through
`first`/`one`; `sort` and `intersect` computed on the denoted sequence.
-/
set_option linter.unusedSectionVars false
set_option linter.unusedSimpArgs false
set_option linter.unusedVariables false
namespace Hyp.RSet
open Hyp Hyp.Field Hyp.RSet.Spec

variable {R : Type}

/-- `first` on a result set that is not an exhausted stream with a pending exception: the head of
the sequence, and the receiver is exactly as before (the consumed element is chained back) -/
theorem first_eq (rs : RS R) (b : Bool) (h : pending rs = none ∨ seq rs ≠ []) :
    rs.first b = (rs, .ok (Spec.first (rs.present b) (seq rs))) := by
  obtain ⟨ids, n, res, st⟩ := rs
  cases ids with
  | coll xs => cases xs <;> rfl
  | stream g =>
    obtain ⟨gi, gr⟩ := g
    cases gi with
    | cons x rest => rfl
    | nil =>
      cases gr with
      | none => rfl
      | some ds =>
        rcases h with h | h
        · simp [pending, Ids.contents] at h
        · simp [seq, Ids.contents] at h

/-- the other case: an exhausted stream with a pending `Unsortable` raises it, once -/
theorem first_pending (rs : RS R) (b : Bool) (ds : List Int) (h1 : pending rs = some ds)
    (h2 : seq rs = []) :
    (rs.first b).2 = .error (.unsortable ds) ∧ pending (rs.first b).1 = none ∧ seq (rs.first b).1 = [] := by
  obtain ⟨ids, n, res, st⟩ := rs
  cases ids with
  | coll xs => simp [pending, Ids.contents] at h1
  | stream g =>
    obtain ⟨gi, gr⟩ := g
    simp only [pending, seq, Ids.contents] at h1 h2
    subst h1; subst h2
    exact ⟨rfl, rfl, rfl⟩

theorem one_eq (rs : RS R) (b : Bool) (hn : rs.numids = (seq rs).length)
    (h : pending rs = none ∨ seq rs ≠ []) :
    rs.one b = (rs, Spec.one (rs.present b) (seq rs)) := by
  unfold RS.one
  cases hs : seq rs with
  | nil =>
    rw [hs] at hn
    simp [hn, Spec.one]
  | cons x rest =>
    cases rest with
    | nil =>
      rw [hs] at hn
      have : rs.numids = 1 := by simpa using hn
      rw [if_pos this, first_eq rs b h, hs]
      rfl
    | cons y rest' =>
      rw [hs] at hn
      have h1 : ¬ rs.numids = 1 := by simp at hn; omega
      have h2 : rs.numids > 1 := by simp at hn; omega
      simp [h1, h2, Spec.one]

/-! ### peeking any number of times -/

inductive Peek where
  | first (resolve : Bool)
  | one (resolve : Bool)
  | len

def peek (rs : RS R) : Peek → RS R
  | .first b => (rs.first b).1
  | .one b => (rs.one b).1
  | .len => rs

theorem peek_eq (rs : RS R) (p : Peek) (h : pending rs = none ∨ seq rs ≠ []) : peek rs p = rs := by
  cases p with
  | first b => simp [peek, first_eq rs b h]
  | one b =>
    simp only [peek, RS.one]
    split
    · simp [first_eq rs b h]
    · split <;> rfl
  | len => rfl

theorem peeks_eq (rs : RS R) (ps : List Peek) (h : pending rs = none ∨ seq rs ≠ []) :
    ps.foldl peek rs = rs := by
  induction ps with
  | nil => rfl
  | cons p ps ih => rw [List.foldl_cons, peek_eq rs p h, ih]

/-! ### sort -/

theorem materialise_of_pending_none (ids : Ids) (h : ids.contents.2 = none) :
    ids.materialise.2 = .ok ids.contents.1 := by
  cases ids with
  | coll xs => rfl
  | stream g =>
    obtain ⟨gi, gr⟩ := g
    simp only [Ids.contents] at h
    subst h
    rfl

theorem materialise_of_pending_some (ids : Ids) (ds : List Int) (h : ids.contents.2 = some ds) :
    ids.materialise = (.stream { ids := [] }, .error ds) := by
  cases ids with
  | coll xs => simp [Ids.contents] at h
  | stream g =>
    obtain ⟨gi, gr⟩ := g
    simp only [Ids.contents] at h
    subst h
    rfl

theorem sort_of_pending_none (rs : RS R) (idx : IndexSort) (reverse : Bool) (limit : Option Int)
    (st : Option SortType) (raiseU : Bool) (h : pending rs = none) :
    (rs.sort idx reverse limit st raiseU).2 =
      match ofSortRes (idx (seq rs) reverse limit (rs.effType st) raiseU) with
      | .error e => .error e
      | .ok ids => .ok { ids := ids, numids := limitNumids rs.numids limit, resolver := rs.resolver,
                         sortType := some .stable } := by
  have hm := materialise_of_pending_none rs.ids h
  unfold RS.sort
  cases hmm : rs.ids.materialise with
  | mk a b =>
    rw [hmm] at hm
    simp only at hm
    subst hm
    simp only [seq]
    split
    · next heq => rw [heq]
    · next heq => rw [heq]

theorem sort_of_pending_some (rs : RS R) (idx : IndexSort) (reverse : Bool) (limit : Option Int)
    (st : Option SortType) (raiseU : Bool) (ds : List Int) (h : pending rs = some ds) :
    (rs.sort idx reverse limit st raiseU).2 = .error (.unsortable ds) := by
  unfold RS.sort
  rw [materialise_of_pending_some rs.ids ds h]

theorem ofSortRes_ok {r : SortRes} {ids : Ids} (h : ofSortRes r = .ok ids) :
    ∃ g : Gen, r.observe = some g ∧ ids.contents = (g.ids, g.raised) := by
  cases r with
  | valueError => simp [ofSortRes] at h
  | unsortableAtCall ds => simp [ofSortRes] at h
  | emptyList =>
    simp only [ofSortRes, Except.ok.injEq] at h
    subst h
    exact ⟨{ ids := [] }, rfl, rfl⟩
  | gen g =>
    simp only [ofSortRes, Except.ok.injEq] at h
    subst h
    exact ⟨g, rfl, rfl⟩

theorem ofSortRes_error {r : SortRes} {e : Err} (h : ofSortRes r = .error e) :
    (r = .valueError ∧ e = .valueError) ∨ (∃ ds, r = .unsortableAtCall ds ∧ e = .unsortable ds) := by
  cases r with
  | valueError => simp only [ofSortRes, Except.error.injEq] at h; exact Or.inl ⟨rfl, h.symm⟩
  | unsortableAtCall ds => simp only [ofSortRes, Except.error.injEq] at h; exact Or.inr ⟨ds, rfl, h.symm⟩
  | emptyList => simp [ofSortRes] at h
  | gen g => simp [ofSortRes] at h

variable {V : Type} [DecidableEq V] [LT V] [DecidableLT V] [LE V] [DecidableLE V]

theorem observe_some_not_badLimit {s : State V} {docids : List Int} {reverse : Bool}
    {limit : Option Int} {st : Option SortType} {raiseU : Bool} {g : Gen}
    (hg : (Field.sort s docids reverse limit st raiseU).observe = some g) :
    Field.Spec.badLimit limit = false := by
  rcases sort_cases s docids reverse limit st raiseU with
    ⟨_, e⟩ | ⟨hb, _⟩ | ⟨hb, _⟩ | ⟨hb, _⟩ | ⟨hb, _⟩
  · rw [e] at hg; cases hg
  all_goals exact hb

theorem limitNumids_eq_cut (n : Nat) (limit : Option Int) (hb : Field.Spec.badLimit limit = false) :
    limitNumids n limit = Field.Spec.cut (limit.map Int.toNat) n := by
  cases limit with
  | none => rfl
  | some l =>
    simp only [Field.Spec.badLimit, limitInvalid, decide_eq_false_iff_not] at hb
    have : l ≠ 0 := by omega
    simp only [limitNumids, this, if_false, Option.map_some, Field.Spec.cut]
    exact Nat.min_comm _ _

theorem sortables_all {t : Field.Spec.Table V} {l : List Int}
    (h : ∀ d ∈ l, Field.Spec.sortable t d = true) : Field.Spec.sortables t l = l :=
  List.filter_eq_self.mpr h

theorem missing_none {t : Field.Spec.Table V} {l : List Int}
    (h : ∀ d ∈ l, Field.Spec.sortable t d = true) : Field.Spec.missing t l = [] :=
  List.filter_eq_nil_iff.mpr (fun d hd => by simp [h d hd])

end Hyp.RSet
