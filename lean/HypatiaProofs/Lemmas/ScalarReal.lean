import Mathlib.Analysis.SpecialFunctions.Log.Basic
import Mathlib.Analysis.Real.Sqrt
import HypatiaModel.Prim.Scalar

/-!
# The real numbers as scalars

The instance the C08 / C17 / C20 theorems are about.  `+ * / -` are those of `ℝ`
(the parent instances are found by unification), `nat` is the cast, `log`/`sqrt` are
`Real.log`/`Real.sqrt`, `beq`/`ltb` decide `=`/`<` classically.
-/
namespace Hyp
open Classical in
noncomputable instance instScalarReal : Scalar ℝ where
  nat n := (n : ℝ)
  log := Real.log
  sqrt := Real.sqrt
  beq a b := decide (a = b)
  ltb a b := decide (a < b)

@[simp] theorem Scalar.nat_real (n : Nat) : (Scalar.nat n : ℝ) = (n : ℝ) := rfl
@[simp] theorem Scalar.log_real (x : ℝ) : Scalar.log x = Real.log x := rfl
@[simp] theorem Scalar.sqrt_real (x : ℝ) : Scalar.sqrt x = Real.sqrt x := rfl
@[simp] theorem Scalar.beq_real (a b : ℝ) : Scalar.beq a b = true ↔ a = b := by
  simp [Scalar.beq]
@[simp] theorem Scalar.ltb_real (a b : ℝ) : Scalar.ltb a b = true ↔ a < b := by
  simp [Scalar.ltb]

example (a b c : ℝ) : Scalar.nat 1 * a + b * c = c * b + a := by simp; ring

end Hyp
