import HypatiaProofs.Lemmas.ScoreTable
import HypatiaProofs.Lemmas.SetOps

/-!
# Per-term score maps and their combination, over ℝ
-/
set_option linter.unusedSectionVars false
set_option linter.unusedSimpArgs false
namespace Hyp.Score
open Hyp Hyp.SetOps Hyp.SetSpec

/-- `get` of a key-preserving `filterMap` over a table with distinct keys -/
theorem get_filterMap_wf {V W : Type} (T : AMap Int V) (hwf : AMap.WF T) (g : Int → V → Option W) (d : Int) :
    AMap.get (T.filterMap (fun p => (g p.1 p.2).map (fun x => (p.1, x)))) d = (AMap.get T d).bind (g d) := by
  induction T with
  | nil => rfl
  | cons p T ih =>
    obtain ⟨a, v⟩ := p
    unfold AMap.WF AMap.keys at hwf
    simp only [List.map_cons, List.nodup_cons] at hwf
    have hn : AMap.get T a = none := (AMap.not_mem_keys_iff T a).mp hwf.1
    simp only [List.filterMap_cons]
    cases hg : g a v with
    | none =>
      simp only [Option.map_none]
      rw [ih hwf.2, AMap.get_cons]
      by_cases e : a = d
      · subst e; simp [hn, hg]
      · simp [e]
    | some x =>
      simp only [Option.map_some, AMap.get_cons]
      by_cases e : a = d
      · subst e; simp [hg]
      · simp only [e, if_false]; exact ih hwf.2

theorem count_eq_zero_iff (ws : List Nat) (w : Nat) : ws.count w = 0 ↔ ws.contains w = false := by
  rw [List.count_eq_zero]; simp

theorem get_docsWith (T : Table) (hwf : AMap.WF T) (w : Nat) (d : Int) :
    AMap.get (docsWith T w) d =
      (AMap.get T d).bind (fun ws => if ws.count w = 0 then none else some (ws.count w)) := by
  have : docsWith T w = T.filterMap (fun p =>
      ((fun (_ : Int) (ws : List Nat) => if ws.count w = 0 then none else some (ws.count w)) p.1 p.2).map
        (fun x => (p.1, x))) := by
    unfold docsWith
    congr 1; funext p
    by_cases h : p.2.count w = 0 <;> simp [h]
  rw [this]
  exact get_filterMap_wf T hwf (fun _ ws => if ws.count w = 0 then none else some (ws.count w)) d

theorem get_cosTermMap (T : Table) (hwf : AMap.WF T) (w : Nat) (d : Int) :
    AMap.get (cosTermMap T w : WMap ℝ) d =
      (AMap.get T d).bind (fun ws => if ws.count w = 0 then none else some (cosWeight ws w)) := by
  have : (cosTermMap T w : WMap ℝ) = T.filterMap (fun p =>
      ((fun (_ : Int) (ws : List Nat) => if ws.count w = 0 then none else some (cosWeight ws w : ℝ)) p.1 p.2).map
        (fun x => (p.1, x))) := by
    unfold cosTermMap
    congr 1; funext p
    by_cases h : p.2.count w = 0 <;> simp [h]
  rw [this]
  exact get_filterMap_wf T hwf (fun _ ws => if ws.count w = 0 then none else some (cosWeight ws w : ℝ)) d

theorem length_docsWith (T : Table) (w : Nat) : (docsWith T w).length = ScoreSpec.df T w := by
  unfold docsWith ScoreSpec.df
  induction T with
  | nil => rfl
  | cons p T ih =>
    by_cases hm : w ∈ p.2
    · have h : p.2.count w ≠ 0 := fun e => (List.count_eq_zero.mp e) hm
      simp [List.filterMap_cons, List.filter_cons, h, hm]
      simpa using ih
    · have h : p.2.count w = 0 := List.count_eq_zero.mpr hm
      simp [List.filterMap_cons, List.filter_cons, h, hm]
      simpa using ih

theorem length_cosTermMap (T : Table) (w : Nat) :
    (cosTermMap T w : WMap ℝ).length = ScoreSpec.df T w := by
  unfold cosTermMap ScoreSpec.df
  induction T with
  | nil => rfl
  | cons p T ih =>
    by_cases hm : w ∈ p.2
    · have h : p.2.count w ≠ 0 := fun e => (List.count_eq_zero.mp e) hm
      simp [List.filterMap_cons, List.filter_cons, h, hm]
      simpa using ih
    · have h : p.2.count w = 0 := List.count_eq_zero.mpr hm
      simp [List.filterMap_cons, List.filter_cons, h, hm]
      simpa using ih

/-- a word that occurs in an indexed document is in the vocabulary -/
theorem inVocab_of_mem (T : Table) (hwf : AMap.WF T) (w : Nat) (d : Int) (ws : List Nat)
    (hd : AMap.get T d = some ws) (hw : ws.contains w = true) : inVocab T w = true := by
  have hc : ws.count w ≠ 0 := fun h => by rw [(count_eq_zero_iff _ _).mp h] at hw; cases hw
  have := get_docsWith T hwf w d
  rw [hd] at this
  simp only [Option.bind_some, hc, if_false] at this
  have hm := AMap.mem_of_get this
  unfold inVocab
  cases hl : docsWith T w with
  | nil => rw [hl] at hm; cases hm
  | cons _ _ => rfl

theorem inVocab_iff_df (T : Table) (w : Nat) : inVocab T w = true ↔ 0 < ScoreSpec.df T w := by
  rw [← length_docsWith]
  unfold inVocab
  cases docsWith T w <;> simp

/-! ### sums over the query's word ids -/

theorem filterMap_ite {β : Type} (l : List Nat) (c : Nat → Bool) (G : Nat → β) :
    l.filterMap (fun w => if c w = true then some (G w) else none) = (l.filter c).map G := by
  induction l with
  | nil => rfl
  | cons x l ih => by_cases h : c x = true <;> simp [List.filterMap_cons, List.filter_cons, h, ih]

theorem filter_filter_of_imp (l : List Nat) (p c : Nat → Bool) (h : ∀ x, c x = true → p x = true) :
    (l.filter p).filter c = l.filter c := by
  induction l with
  | nil => rfl
  | cons x l ih =>
    by_cases hc : c x = true
    · simp [List.filter_cons, hc, h x hc, ih]
    · by_cases hp : p x = true <;> simp [List.filter_cons, hc, hp, ih]

/-- union of per-term maps at a document with words `ws` -/
theorem unionAt_termMaps (wids : List Nat) (M : Nat → WMap ℝ) (wt val : Nat → ℝ) (d : Int) (ws : List Nat)
    (hM : ∀ w, AMap.get (M w) d = if ws.contains w = true then some (val w) else none) :
    unionAt (wids.map (fun w => (M w, wt w))) d =
      sum1 ((wids.filter (fun w => ws.contains w)).map (fun w => wt w * val w)) := by
  unfold unionAt contribs
  rw [List.filterMap_map]
  congr 1
  rw [← filterMap_ite]
  congr 1; funext w
  simp only [Function.comp, hM]
  by_cases h : ws.contains w = true <;> simp [h]

theorem unionAt_termMaps_none (wids : List Nat) (M : Nat → WMap ℝ) (wt : Nat → ℝ) (d : Int)
    (hM : ∀ w, AMap.get (M w) d = none) :
    unionAt (wids.map (fun w => (M w, wt w))) d = none := by
  unfold unionAt contribs
  rw [List.filterMap_map]
  have : List.filterMap ((fun p : WMap ℝ × ℝ => Option.map (fun v => p.2 * v) (AMap.get p.1 d)) ∘
      fun w => (M w, wt w)) wids = [] := by
    induction wids with
    | nil => rfl
    | cons x l ih => simp [List.filterMap_cons, hM, ih]
  rw [this]; rfl

theorem all_contains_termMaps (wids : List Nat) (M : Nat → WMap ℝ) (wt : Nat → ℝ) (d : Int) (c : Nat → Bool)
    (hM : ∀ w, (AMap.get (M w) d).isSome = c w) :
    (wids.map (fun w => (M w, wt w))).all (fun p => AMap.contains p.1 d) = wids.all c := by
  rw [List.all_map]
  congr 1; funext w
  simp [AMap.contains, hM]

end Hyp.Score
