import HypatiaProofs.Lemmas.Score

/-!
# search / search_glob / search_phrase / query_weight equal the documented formulas (over ℝ)
-/
set_option linter.unusedSectionVars false
set_option linter.unusedSimpArgs false
namespace Hyp.Score
open Hyp Hyp.SetOps Hyp.SetSpec

-- any BM25 parameters (`K1`, `B` of the loop, `K1` of `query_weight`): the formulas hold for all of them
variable [Bm25 ℝ]

/-- the map `_search_wids` produces for one word id -/
noncomputable def termMap (k : Kind) (s : State) (w : Nat) : WMap ℝ :=
  match k with
  | .okapi => okapiTermMap s w
  | .cosine => cosTermMap s.T w

/-- … and its weight -/
noncomputable def termWt (k : Kind) (s : State) (w : Nat) : ℝ :=
  match k with
  | .okapi => Scalar.nat 1
  | .cosine => idf (cosTermMap s.T w : WMap ℝ).length (numDocs s.T)

/-- the stored per-document value of word `w` in a document with words `ws` -/
noncomputable def termVal (k : Kind) (s : State) (ws : List Nat) (w : Nat) : ℝ :=
  match k with
  | .okapi => okapiTf (ws.count w) ws.length (meanLen s) * idf (docsWith s.T w).length (numDocs s.T)
  | .cosine => cosWeight ws w

/-- the specification's summand for term `t` -/
noncomputable def specTerm (k : Kind) (T : Table) (ws : List Nat) (t : Nat) : ℝ :=
  match k with
  | .okapi => ScoreSpec.okapiTF T ws t * ScoreSpec.idf T t
  | .cosine => ScoreSpec.wdt ws t / ScoreSpec.bigW ws * ScoreSpec.idf T t

theorem searchWids_eq (k : Kind) (s : State) (wids : List Nat) :
    (searchWids k s wids : List (WMap ℝ × ℝ)) = wids.map (fun w => (termMap k s w, termWt k s w)) := by
  cases k <;> rfl

theorem get_termMap (k : Kind) (s : State) (h : Inv s) (w : Nat) (d : Int) :
    AMap.get (termMap k s w) d =
      (AMap.get s.T d).bind (fun ws => if ws.contains w = true then some (termVal k s ws w) else none) := by
  cases k with
  | okapi =>
    unfold termMap termVal okapiTermMap scoreLoop
    rw [get_map_val, get_docsWith s.T h.wf]
    cases hd : AMap.get s.T d with
    | none => rfl
    | some ws =>
      simp only [Option.bind_some]
      by_cases hm : w ∈ ws
      · have hc : ws.count w ≠ 0 := fun e => (List.count_eq_zero.mp e) hm
        simp [hc, hm, docLen, docWords, hd]
      · have hc : ws.count w = 0 := List.count_eq_zero.mpr hm
        simp [hc, hm]
  | cosine =>
    unfold termMap termVal
    rw [get_cosTermMap s.T h.wf]
    cases hd : AMap.get s.T d with
    | none => rfl
    | some ws =>
      simp only [Option.bind_some]
      by_cases hm : w ∈ ws
      · have hc : ws.count w ≠ 0 := fun e => (List.count_eq_zero.mp e) hm
        simp [hc, hm]
      · have hc : ws.count w = 0 := List.count_eq_zero.mpr hm
        simp [hc, hm]

theorem meanLen_eq (s : State) (h : Inv s) : (meanLen s : ℝ) = ScoreSpec.meanLen s.T := by
  unfold meanLen ScoreSpec.meanLen numDocs ScoreSpec.N
  rw [h.tot, totalLen_eq]
  simp

theorem idf_eq (T : Table) (n : Nat) (hn : n = ScoreSpec.df T w) :
    (idf n (numDocs T) : ℝ) = ScoreSpec.idf T w := by
  subst hn; rfl

theorem b_eq : (Score.b : ℝ) = ScoreSpec.b := rfl

/-- weight · stored value = the docstring's summand -/
theorem wt_mul_val (k : Kind) (s : State) (h : Inv s) (ws : List Nat) (w : Nat) :
    termWt k s w * termVal k s ws w = specTerm k s.T ws w := by
  cases k with
  | okapi =>
    unfold termWt termVal specTerm okapiTf ScoreSpec.okapiTF
    rw [meanLen_eq s h, idf_eq s.T _ (length_docsWith s.T w), b_eq]
    simp [Score.k1, ScoreSpec.k1]
  | cosine =>
    unfold termWt termVal specTerm cosWeight
    rw [idf_eq s.T _ (length_cosTermMap s.T w)]
    have : (cosW ws : ℝ) = ScoreSpec.bigW ws := rfl
    rw [this]
    have : (docTermWeight (ws.count w) : ℝ) = ScoreSpec.wdt ws w := rfl
    rw [this]; ring

theorem score_unfold (k : Kind) (T : Table) (wids : List Nat) (d : Int) :
    (ScoreSpec.score k T wids d : Option ℝ) =
      (AMap.get T d).bind (fun ws => sum1 ((wids.filter (fun t => ws.contains t)).map (specTerm k T ws))) := by
  cases k <;>
  · simp only [ScoreSpec.score, ScoreSpec.okapiScore, ScoreSpec.cosineScore, ScoreSpec.matched, ScoreSpec.sum1]
    cases AMap.get T d <;> rfl

/-- the weighted union of the per-word maps, for any sub-list of word ids that keeps every word
occurring in an indexed document -/
theorem unionAt_searchWids (k : Kind) (s : State) (h : Inv s) (wids : List Nat) (d : Int) :
    unionAt (searchWids k s (removeOov s.T wids) : List (WMap ℝ × ℝ)) d = ScoreSpec.score k s.T wids d := by
  rw [searchWids_eq, score_unfold]
  cases hd : AMap.get s.T d with
  | none =>
    simp only [Option.bind_none]
    apply unionAt_termMaps_none
    intro w; rw [get_termMap k s h, hd]; rfl
  | some ws =>
    simp only [Option.bind_some]
    rw [unionAt_termMaps (removeOov s.T wids) (termMap k s) (termWt k s) (termVal k s ws) d ws
      (fun w => by rw [get_termMap k s h, hd]; rfl)]
    unfold removeOov
    rw [filter_filter_of_imp wids (inVocab s.T) (fun w => ws.contains w)
      (fun x hx => inVocab_of_mem s.T h.wf x d ws hd hx)]
    congr 1
    apply List.map_congr_left
    intro w _
    exact wt_mul_val k s h ws w

theorem search_spec (k : Kind) (s : State) (h : Inv s) (wids : List Nat) (hne : wids ≠ []) :
    ∃ r, (search k s wids : Option (Res ℝ)) = some (.ok r) ∧
      ∀ d, AMap.get r d = ScoreSpec.score k s.T wids d := by
  obtain ⟨r, hr, hg⟩ := massUnion_spec (searchWids k s (removeOov s.T wids))
  refine ⟨r, ?_, fun d => by rw [hg d, unionAt_searchWids k s h]⟩
  unfold search
  cases wids with
  | nil => exact absurd rfl hne
  | cons x xs => simp [hr]

theorem glob_spec (k : Kind) (s : State) (h : Inv s) (wids : List Nat) :
    ∃ r, (searchGlob k s wids : Res ℝ) = .ok r ∧ ∀ d, AMap.get r d = ScoreSpec.score k s.T wids d := by
  obtain ⟨r, hr, hg⟩ := massUnion_spec (searchWids k s (removeOov s.T wids))
  exact ⟨r, hr, fun d => by rw [hg d, unionAt_searchWids k s h]⟩

end Hyp.Score
