import HypatiaProofs.Lemmas.ScoreMain

/-!
# search_phrase, query_weight, and independence of the table's representation (over ℝ)
-/
set_option linter.unusedSectionVars false
set_option linter.unusedSimpArgs false
namespace Hyp.Score
open Hyp Hyp.SetOps Hyp.SetSpec

-- for any BM25 parameters (`Score.Bm25`: `K1`, `B` of the scoring loop, `K1` of `query_weight`)
variable [Bm25 ℝ]

theorem containsPhrase_iff (p d : List Nat) : containsPhrase p d = true ↔ p <:+: d := by
  induction d with
  | nil => simp [containsPhrase, List.infix_nil]
  | cons x xs ih =>
    simp only [containsPhrase, Bool.or_eq_true, ih, List.infix_cons_iff, List.isPrefixOf_iff_prefix]

theorem mem_of_containsPhrase {p d : List Nat} (h : containsPhrase p d = true) : ∀ w ∈ p, w ∈ d :=
  fun w hw => ((containsPhrase_iff p d).mp h).subset hw

/-- intersection of per-term maps at a document with words `ws` -/
theorem interAt_termMaps (wids : List Nat) (M : Nat → WMap ℝ) (wt val : Nat → ℝ) (d : Int) (ws : List Nat)
    (hM : ∀ w, AMap.get (M w) d = if ws.contains w = true then some (val w) else none) :
    interAt (wids.map (fun w => (M w, wt w))) d =
      if wids.all (fun w => ws.contains w) then sum1 (wids.map (fun w => wt w * val w)) else none := by
  unfold interAt
  rw [all_contains_termMaps wids M wt d (fun w => ws.contains w)
    (fun w => by rw [hM]; cases h : ws.contains w <;> simp)]
  by_cases ha : wids.all (fun w => ws.contains w) = true
  · rw [if_pos ha, if_pos ha, unionAt_termMaps wids M wt val d ws hM]
    have : wids.filter (fun w => ws.contains w) = wids := by
      apply List.filter_eq_self.mpr
      intro a ha'
      exact List.all_eq_true.mp ha a ha'
    rw [this]
  · rw [if_neg ha, if_neg ha]

theorem interAt_termMaps_none (wids : List Nat) (M : Nat → WMap ℝ) (wt : Nat → ℝ) (d : Int)
    (hM : ∀ w, AMap.get (M w) d = none) :
    interAt (wids.map (fun w => (M w, wt w))) d = none := by
  unfold interAt
  rw [unionAt_termMaps_none wids M wt d hM]
  split <;> rfl

theorem sum1_isSome_of_ne_nil (l : List ℝ) (h : l ≠ []) : (sum1 l).isSome = true := by
  cases l with
  | nil => exact absurd rfl h
  | cons a l => rfl

theorem phrase_spec (k : Kind) (s : State) (h : Inv s) (wids : List Nat) :
    ∃ r, (searchPhrase k s wids : Res ℝ) = .ok r ∧
      ∀ d, AMap.get r d = ScoreSpec.phraseScore k s.T wids d := by
  unfold searchPhrase
  -- what the specification says at `d`, in terms of the per-term values
  have hspec : ∀ d, (ScoreSpec.phraseScore k s.T wids d : Option ℝ) =
      (AMap.get s.T d).bind (fun ws => if wids ≠ [] ∧ containsPhrase wids ws = true then
        sum1 (wids.map (specTerm k s.T ws)) else none) := by
    intro d
    unfold ScoreSpec.phraseScore
    rw [score_unfold]
    cases hd : AMap.get s.T d with
    | none => rfl
    | some ws =>
      simp only [Option.bind_some]
      by_cases hc : wids ≠ [] ∧ containsPhrase wids ws = true
      · rw [if_pos hc, if_pos hc]
        have : wids.filter (fun t => ws.contains t) = wids := by
          apply List.filter_eq_self.mpr
          intro a ha
          simpa using mem_of_containsPhrase hc.2 a ha
        rw [this]
      · rw [if_neg hc, if_neg hc]
  by_cases hl : (removeOov s.T wids).length ≠ wids.length
  · -- some word id is out of vocabulary: no document contains the phrase
    rw [if_pos hl]
    refine ⟨[], rfl, fun d => ?_⟩
    rw [hspec d]
    cases hd : AMap.get s.T d with
    | none => rfl
    | some ws =>
      simp only [Option.bind_some, AMap.get_nil]
      rw [if_neg]
      rintro ⟨_, hc⟩
      apply hl
      unfold removeOov
      rw [List.filter_eq_self.mpr]
      intro a ha
      exact inVocab_of_mem s.T h.wf a d ws hd (by simpa using mem_of_containsPhrase hc a ha)
  · rw [if_neg hl]
    obtain ⟨hits, hh, hg⟩ := massInter_spec ((searchWids k s wids).map (fun p => (some p.1, p.2)))
    rw [present_map_some, searchWids_eq] at hg
    rw [hh]
    simp only
    -- the intersection at `d`
    have hinter : ∀ d, AMap.get hits d =
        (AMap.get s.T d).bind (fun ws => if wids.all (fun w => ws.contains w) then
          sum1 (wids.map (specTerm k s.T ws)) else none) := by
      intro d
      rw [hg d]
      cases hd : AMap.get s.T d with
      | none =>
        exact interAt_termMaps_none wids _ _ d (fun w => by rw [get_termMap k s h, hd]; rfl)
      | some ws =>
        simp only [Option.bind_some]
        rw [interAt_termMaps wids (termMap k s) (termWt k s) (termVal k s ws) d ws
          (fun w => by rw [get_termMap k s h, hd]; rfl)]
        congr 2
        apply List.map_congr_left
        intro w _
        exact wt_mul_val k s h ws w
    by_cases he : hits.isEmpty = true
    · rw [if_pos he]
      refine ⟨hits, rfl, fun d => ?_⟩
      have hnil : hits = [] := List.isEmpty_iff.mp he
      rw [hspec d]
      have hi := hinter d
      rw [hnil] at hi ⊢
      cases hd : AMap.get s.T d with
      | none => rfl
      | some ws =>
        rw [hd] at hi
        simp only [Option.bind_some, AMap.get_nil] at hi ⊢
        by_cases hc : wids ≠ [] ∧ containsPhrase wids ws = true
        · exfalso
          have hall : wids.all (fun w => ws.contains w) = true :=
            List.all_eq_true.mpr (fun a ha => by simpa using mem_of_containsPhrase hc.2 a ha)
          rw [if_pos hall] at hi
          have := sum1_isSome_of_ne_nil (wids.map (specTerm k s.T ws)) (by simpa using hc.1)
          rw [← hi] at this; cases this
        · rw [if_neg hc]
    · rw [if_neg he]
      refine ⟨_, rfl, fun d => ?_⟩
      rw [get_filter_key hits (fun j => containsPhrase wids (docWords s.T j)) d, hinter d, hspec d]
      cases hd : AMap.get s.T d with
      | none => simp
      | some ws =>
        have hw : docWords s.T d = ws := by simp [docWords, hd]
        simp only [Option.bind_some, hw]
        by_cases hc : containsPhrase wids ws = true
        · have hall : wids.all (fun w => ws.contains w) = true :=
            List.all_eq_true.mpr (fun a ha => by simpa using mem_of_containsPhrase hc a ha)
          rw [if_pos hc, if_pos hall]
          by_cases hn : wids = []
          · subst hn; simp [sum1]
          · rw [if_pos ⟨hn, hc⟩]
        · rw [if_neg hc, if_neg (fun hh => hc hh.2)]

/-! ### query_weight -/

theorem foldl_add_real (l : List ℝ) : l.foldl (· + ·) (0 : ℝ) = l.sum := by
  rw [foldl_add_eq]; simp

theorem removeOov_eq (T : Table) (wids : List Nat) :
    removeOov T wids = wids.filter (fun t => decide (0 < ScoreSpec.df T t)) := by
  unfold removeOov
  congr 1; funext t
  have := inVocab_iff_df T t
  cases hv : inVocab T t <;> simp [hv] at this ⊢ <;> omega

theorem queryWeight_spec (k : Kind) (s : State) (wids : List Nat) :
    (queryWeight k s wids : ℝ) = ScoreSpec.queryWeight k s.T wids := by
  unfold queryWeight ScoreSpec.queryWeight
  rw [removeOov_eq]
  cases k with
  | okapi =>
    simp only [Scalar.sumFrom]
    congr 1
    apply List.map_congr_left
    intro t _
    rw [idf_eq s.T _ (length_docsWith s.T t)]
    simp only [Score.kq, ScoreSpec.kq]; ring
  | cosine =>
    simp only [Scalar.sumFrom]
    congr 2
    apply List.map_congr_left
    intro t _
    rw [idf_eq s.T _ (length_docsWith s.T t)]

/-! ### the scores depend on the table as a finite map, not on how it is laid out -/

theorem perm_cons_erase_of_get {T : Table} (hwf : AMap.WF T) {a : Int} {v : List Nat}
    (h : AMap.get T a = some v) : T.Perm ((a, v) :: AMap.erase T a) := by
  induction T with
  | nil => simp at h
  | cons p T ih =>
    obtain ⟨x, y⟩ := p
    unfold AMap.WF AMap.keys at hwf
    simp only [List.map_cons, List.nodup_cons] at hwf
    rw [AMap.get_cons] at h
    by_cases e : x = a
    · subst e
      simp only [if_true, Option.some.injEq] at h
      subst h
      have hn : AMap.get T x = none := (AMap.not_mem_keys_iff T x).mp hwf.1
      have he : AMap.erase ((x, y) :: T) x = T := by
        have := AMap.erase_of_get_none hn
        unfold AMap.erase at this ⊢
        simp [List.filter, this]
      rw [he]
    · simp only [e, if_false] at h
      have he : AMap.erase ((x, y) :: T) a = (x, y) :: AMap.erase T a := by
        unfold AMap.erase; simp [List.filter, e]
      rw [he]
      exact (List.Perm.cons _ (ih hwf.2 h)).trans (List.Perm.swap _ _ _)

theorem perm_of_get_eq : ∀ (T₁ T₂ : Table), AMap.WF T₁ → AMap.WF T₂ →
    (∀ d, AMap.get T₁ d = AMap.get T₂ d) → T₁.Perm T₂ := by
  intro T₁
  induction T₁ with
  | nil =>
    intro T₂ _ _ hg
    cases T₂ with
    | nil => exact List.Perm.refl _
    | cons p T =>
      have := hg p.1
      obtain ⟨a, v⟩ := p
      simp [AMap.get_cons] at this
  | cons p T ih =>
    intro T₂ h1 h2 hg
    obtain ⟨a, v⟩ := p
    have ha : AMap.get T₂ a = some v := by rw [← hg a]; simp [AMap.get_cons]
    have hp := perm_cons_erase_of_get h2 ha
    refine (List.Perm.cons _ (ih (AMap.erase T₂ a) ?_ (AMap.WF_erase h2 a) ?_)).trans hp.symm
    · unfold AMap.WF AMap.keys at h1 ⊢
      simp only [List.map_cons, List.nodup_cons] at h1
      exact h1.2
    · intro d
      rw [AMap.get_erase]
      unfold AMap.WF AMap.keys at h1
      simp only [List.map_cons, List.nodup_cons] at h1
      by_cases e : a = d
      · subst e
        simp only [if_true]
        exact (AMap.not_mem_keys_iff T a).mp h1.1
      · have := hg d
        rw [AMap.get_cons] at this
        simp only [e, if_false] at this ⊢
        exact this

theorem score_congr (k : Kind) (T₁ T₂ : Table) (h1 : AMap.WF T₁) (h2 : AMap.WF T₂)
    (hg : ∀ d, AMap.get T₁ d = AMap.get T₂ d) (wids : List Nat) (d : Int) :
    (ScoreSpec.score k T₁ wids d : Option ℝ) = ScoreSpec.score k T₂ wids d ∧
    (ScoreSpec.phraseScore k T₁ wids d : Option ℝ) = ScoreSpec.phraseScore k T₂ wids d ∧
    (ScoreSpec.queryWeight k T₁ wids : ℝ) = ScoreSpec.queryWeight k T₂ wids := by
  have hp := perm_of_get_eq T₁ T₂ h1 h2 hg
  have hN : ScoreSpec.N T₁ = ScoreSpec.N T₂ := hp.length_eq
  have hdf : ∀ t, ScoreSpec.df T₁ t = ScoreSpec.df T₂ t := fun t => (hp.filter _).length_eq
  have htl : ScoreSpec.totalLen T₁ = ScoreSpec.totalLen T₂ := by
    rw [totalLen_eq, totalLen_eq]; exact (hp.map _).sum_eq
  have hidf : ∀ t, (ScoreSpec.idf T₁ t : ℝ) = ScoreSpec.idf T₂ t := by
    intro t; unfold ScoreSpec.idf; rw [hN, hdf]
  have hmean : (ScoreSpec.meanLen T₁ : ℝ) = ScoreSpec.meanLen T₂ := by
    unfold ScoreSpec.meanLen; rw [hN, htl]
  have hterm : ∀ ws t, specTerm k T₁ ws t = specTerm k T₂ ws t := by
    intro ws t
    cases k
    · simp only [specTerm, ScoreSpec.okapiTF, hidf, hmean]
    · simp only [specTerm, hidf]
  have hscore : (ScoreSpec.score k T₁ wids d : Option ℝ) = ScoreSpec.score k T₂ wids d := by
    rw [score_unfold, score_unfold, hg d]
    congr 1; funext ws
    congr 1
    apply List.map_congr_left
    intro t _; exact hterm ws t
  refine ⟨hscore, ?_, ?_⟩
  · unfold ScoreSpec.phraseScore
    rw [hg d, hscore]
  · unfold ScoreSpec.queryWeight
    simp only [hdf, hidf]

end Hyp.Score
