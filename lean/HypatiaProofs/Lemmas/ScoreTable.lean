import HypatiaModel.Spec.ScoreSpec

/-!
# The document table behind the scores (core Lean only)

The model's table is the specification's table; it has distinct docids; the running
total-length counter equals the table's total length after every history.
-/
set_option linter.unusedSectionVars false
set_option linter.unusedSimpArgs false
namespace Hyp.Score
open Hyp

/-- total number of words, as a `List.sum` -/
def tl (T : Table) : Nat := (T.map (fun p => p.2.length)).sum

theorem foldl_add_nat (l : List Nat) (z : Nat) : l.foldl (· + ·) z = z + l.sum := by
  induction l generalizing z with
  | nil => simp
  | cons a l ih => simp only [List.foldl_cons, List.sum_cons, ih]; omega

theorem totalLen_eq (T : Table) : ScoreSpec.totalLen T = tl T := by
  simp [ScoreSpec.totalLen, tl, foldl_add_nat]

theorem tl_erase_of_get {T : Table} (hwf : AMap.WF T) {d : Int} {old : List Nat}
    (h : AMap.get T d = some old) : tl T = old.length + tl (AMap.erase T d) := by
  induction T with
  | nil => simp at h
  | cons p T ih =>
    obtain ⟨a, v⟩ := p
    unfold AMap.WF AMap.keys at hwf
    simp only [List.map_cons, List.nodup_cons] at hwf
    rw [AMap.get_cons] at h
    by_cases e : a = d
    · subst e
      simp only [if_true, Option.some.injEq] at h
      subst h
      have hn : AMap.get T a = none := (AMap.not_mem_keys_iff T a).mp hwf.1
      have he : AMap.erase ((a, v) :: T) a = T := by
        have := AMap.erase_of_get_none hn
        unfold AMap.erase at this ⊢
        simp [List.filter, this]
      rw [he]; simp [tl]
    · simp only [e, if_false] at h
      have := ih hwf.2 h
      have he : AMap.erase ((a, v) :: T) d = (a, v) :: AMap.erase T d := by
        unfold AMap.erase; simp [List.filter, e]
      rw [he]
      simp only [tl, List.map_cons, List.sum_cons] at this ⊢
      omega

structure Inv (s : State) : Prop where
  wf : AMap.WF s.T
  tot : s.tot = (tl s.T : Int)

theorem inv_init : Inv ({} : State) := ⟨AMap.WF_nil, by simp [tl]⟩

theorem tl_set {T : Table} (hwf : AMap.WF T) (d : Int) (ws : List Nat) :
    (tl (AMap.set T d ws) : Int) =
      tl T - ((AMap.get T d).map List.length).getD 0 + ws.length := by
  unfold AMap.set
  cases h : AMap.get T d with
  | none =>
    rw [AMap.erase_of_get_none h]
    simp [tl]; omega
  | some old =>
    have := tl_erase_of_get hwf h
    simp only [tl, List.map_cons, List.sum_cons, Option.map_some, Option.getD_some] at this ⊢
    omega

/-- `stepD` in closed form: the table is updated like a map, the counter by the length difference -/
theorem stepD_eq (s : State) (op : Op) :
    stepD s op = match op with
      | .index d ws => { T := AMap.set s.T d ws,
                         tot := s.tot - (((AMap.get s.T d).map List.length).getD 0 : Nat) + ws.length }
      | .reindex d ws => if (AMap.get s.T d).isSome then
                           { T := AMap.set s.T d ws,
                             tot := s.tot - (((AMap.get s.T d).map List.length).getD 0 : Nat) + ws.length }
                         else s
      | .unindex d => { T := AMap.erase s.T d,
                        tot := s.tot - (((AMap.get s.T d).map List.length).getD 0 : Nat) }
      | .reset => {} := by
  obtain ⟨T, tot⟩ := s
  cases op with
  | index d ws => cases hg : AMap.get T d <;> simp [stepD, step, hg]
  | reindex d ws => cases hg : AMap.get T d <;> simp [stepD, step, hg]
  | unindex d =>
    cases hg : AMap.get T d with
    | none => simp [stepD, step, hg, AMap.erase_of_get_none hg]
    | some old => simp [stepD, step, hg]
  | reset => simp [stepD, step]

theorem tl_erase {T : Table} (hwf : AMap.WF T) (d : Int) :
    (tl (AMap.erase T d) : Int) = tl T - (((AMap.get T d).map List.length).getD 0 : Nat) := by
  cases h : AMap.get T d with
  | none => rw [AMap.erase_of_get_none h]; simp
  | some old => have := tl_erase_of_get hwf h; simp; omega

theorem inv_step (s : State) (op : Op) (h : Inv s) : Inv (stepD s op) := by
  rw [stepD_eq]
  cases op with
  | index d ws => exact ⟨AMap.WF_set h.wf d ws, by simp only [tl_set h.wf d ws, h.tot]⟩
  | reindex d ws =>
    simp only
    split
    · exact ⟨AMap.WF_set h.wf d ws, by simp only [tl_set h.wf d ws, h.tot]⟩
    · exact h
  | unindex d => exact ⟨AMap.WF_erase h.wf d, by simp only [tl_erase h.wf d, h.tot]⟩
  | reset => exact inv_init

theorem inv_run (ops : List Op) : Inv (run ops) := by
  unfold run
  have : ∀ (s : State), Inv s → Inv (ops.foldl stepD s) := by
    induction ops with
    | nil => intro s h; exact h
    | cons op ops ih => intro s h; exact ih _ (inv_step s op h)
  exact this _ inv_init

theorem table_step (s : State) (op : Op) : (stepD s op).T = ScoreSpec.stepT s.T op := by
  rw [stepD_eq]
  cases op with
  | index d ws => rfl
  | reindex d ws => simp only [ScoreSpec.stepT]; split <;> rfl
  | unindex d => rfl
  | reset => rfl

theorem table_run (ops : List Op) : (run ops).T = ScoreSpec.tableOf ops := by
  unfold run ScoreSpec.tableOf
  have : ∀ (s : State) (T : Table), s.T = T → (ops.foldl stepD s).T = ops.foldl ScoreSpec.stepT T := by
    induction ops with
    | nil => intro s T h; exact h
    | cons op ops ih => intro s T h; exact ih _ _ (by rw [table_step, h])
  exact this _ _ rfl

end Hyp.Score
