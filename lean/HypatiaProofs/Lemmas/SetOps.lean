import HypatiaProofs.Lemmas.ScalarReal
import HypatiaProofs.Lemmas.SetOpsGet
import HypatiaProofs.Lemmas.NBest
import HypatiaModel.Spec.SetOpsSpec
import Mathlib.Algebra.BigOperators.Group.List.Basic

/-!
# Weighted union / intersection over ℝ

`unionAt L k` is `some (Σ contribs)` iff some map contains `k`; it is invariant under
permutation and under replacing two operands by their weighted union with weight 1 – the loop
invariant of `mass_weightedUnion`'s merge queue.
-/
set_option linter.unusedSectionVars false
set_option linter.unusedSimpArgs false
namespace Hyp.SetOps
open Hyp Hyp.SetSpec

/-- does some map of `L` contain `k`? -/
def hasK (L : List (WMap ℝ × ℝ)) (k : Int) : Bool := L.any (fun p => AMap.contains p.1 k)

/-- `Σ weight · map[k]` over the maps containing `k` -/
noncomputable def tot (L : List (WMap ℝ × ℝ)) (k : Int) : ℝ := (contribs L k).sum

theorem foldl_add_eq (c : ℝ) (cs : List ℝ) : cs.foldl (· + ·) c = c + cs.sum := by
  induction cs generalizing c with
  | nil => simp
  | cons a as ih => simp only [List.foldl_cons, List.sum_cons, ih]; ring

theorem sum1_eq (l : List ℝ) : sum1 l = if l = [] then none else some l.sum := by
  cases l with
  | nil => rfl
  | cons c cs => simp [sum1, foldl_add_eq]

theorem contribs_cons (m : WMap ℝ) (w : ℝ) (R : List (WMap ℝ × ℝ)) (k : Int) :
    contribs ((m, w) :: R) k =
      (match AMap.get m k with | some v => [w * v] | none => []) ++ contribs R k := by
  unfold contribs
  cases h : AMap.get m k <;> simp [List.filterMap_cons, h]

theorem hasK_cons (m : WMap ℝ) (w : ℝ) (R : List (WMap ℝ × ℝ)) (k : Int) :
    hasK ((m, w) :: R) k = ((AMap.get m k).isSome || hasK R k) := by
  simp [hasK, AMap.contains]

theorem contribs_eq_nil (L : List (WMap ℝ × ℝ)) (k : Int) : contribs L k = [] ↔ hasK L k = false := by
  induction L with
  | nil => simp [contribs, hasK]
  | cons p R ih =>
    obtain ⟨m, w⟩ := p
    rw [contribs_cons, hasK_cons]
    cases h : AMap.get m k <;> simp [ih]

theorem unionAt_eq (L : List (WMap ℝ × ℝ)) (k : Int) :
    unionAt L k = if hasK L k then some (tot L k) else none := by
  unfold unionAt tot
  rw [sum1_eq]
  by_cases h : contribs L k = []
  · simp [h, (contribs_eq_nil L k).mp h]
  · have : hasK L k = true := by
      cases hh : hasK L k with
      | true => rfl
      | false => exact absurd ((contribs_eq_nil L k).mpr hh) h
    simp [h, this]

theorem tot_cons (m : WMap ℝ) (w : ℝ) (R : List (WMap ℝ × ℝ)) (k : Int) :
    tot ((m, w) :: R) k = (match AMap.get m k with | some v => w * v | none => 0) + tot R k := by
  unfold tot
  rw [contribs_cons]
  cases AMap.get m k <;> simp

theorem contribs_perm {L L' : List (WMap ℝ × ℝ)} (h : L.Perm L') (k : Int) :
    (contribs L k).Perm (contribs L' k) := h.filterMap _

theorem unionAt_perm {L L' : List (WMap ℝ × ℝ)} (h : L.Perm L') (k : Int) :
    unionAt L k = unionAt L' k := by
  have hp := contribs_perm h k
  unfold unionAt
  rw [sum1_eq, sum1_eq, hp.sum_eq]
  have : contribs L k = [] ↔ contribs L' k = [] := by
    constructor
    · intro e; rw [e] at hp; exact List.Perm.eq_nil hp.symm
    · intro e; rw [e] at hp; exact List.Perm.eq_nil hp
  by_cases e : contribs L k = []
  · simp [e, this.mp e]
  · simp [e, mt this.mpr e]

theorem allK_perm {L L' : List (WMap ℝ × ℝ)} (h : L.Perm L') (k : Int) :
    L.all (fun p => AMap.contains p.1 k) = L'.all (fun p => AMap.contains p.1 k) := by
  induction h with
  | nil => rfl
  | cons x _ ih => simp [ih]
  | swap x y l => simp [Bool.and_left_comm]
  | trans _ _ ih1 ih2 => rw [ih1, ih2]

theorem interAt_perm {L L' : List (WMap ℝ × ℝ)} (h : L.Perm L') (k : Int) :
    interAt L k = interAt L' k := by
  unfold interAt
  rw [allK_perm h, unionAt_perm h]

/-- replacing two operands by their weighted union with weight 1 changes nothing -/
theorem unionAt_merge (x y : WMap ℝ) (wx wy : ℝ) (R : List (WMap ℝ × ℝ)) (k : Int) :
    unionAt ((wUnion x y wx wy, Scalar.nat 1) :: R) k = unionAt ((x, wx) :: (y, wy) :: R) k := by
  rw [unionAt_eq, unionAt_eq, hasK_cons, hasK_cons, hasK_cons, tot_cons, tot_cons, tot_cons, get_wUnion]
  cases hx : AMap.get x k with
  | none =>
    cases hy : AMap.get y k with
    | none => simp
    | some b => simp
  | some a =>
    cases hy : AMap.get y k with
    | none => simp
    | some b => simp; ring

/-! ### `_trivial` -/

theorem get_trivial (L : List (WMap ℝ × ℝ)) (h : L.length < 2) :
    ∃ t, trivial L = .ok t ∧ ∀ k, AMap.get t.val k = unionAt L k := by
  match L, h with
  | [], _ => exact ⟨.fresh [], rfl, fun k => by simp [Triv.val, unionAt, contribs, sum1]⟩
  | [(m, w)], _ =>
    unfold trivial
    by_cases hw : Scalar.beq w (Scalar.nat 1) = true
    · refine ⟨.operand m, by show (if _ then _ else _) = _; rw [if_pos hw], fun k => ?_⟩
      have : w = 1 := by simpa using hw
      subst this
      rw [unionAt_eq, hasK_cons, tot_cons]
      simp only [Triv.val]
      cases AMap.get m k <;> simp [hasK, tot, contribs]
    · refine ⟨.fresh (wUnion [] m (Scalar.nat 0) w), by show (if _ then _ else _) = _; rw [if_neg hw], fun k => ?_⟩
      rw [unionAt_eq, hasK_cons, tot_cons]
      simp only [Triv.val, get_wUnion, AMap.get_nil]
      cases AMap.get m k <;> simp [hasK, tot, contribs]

/-! ### the merge queue -/

theorem add_of_lt (s : Queue ℝ) (p : (WMap ℝ × ℝ) × Nat) (h : s.l.length < s.cap) :
    (NBest.add s p).l = NBest.insertAsc p s.l ∧ (NBest.add s p).cap = s.cap := by
  unfold NBest.add
  have hs : NBest.skips s p = false := by
    unfold NBest.skips
    cases hl : s.l with
    | nil => rfl
    | cons e es =>
      have h' : (e :: es).length < s.cap := hl ▸ h
      simp only [List.length_cons] at h'
      simp; intro hc; omega
  have hne : s.l.length ≠ s.cap := by omega
  simp [hs, hne]

theorem insertAsc_perm {ι σ : Type} [LT σ] [DecidableLT σ] (p : ι × σ) (l : List (ι × σ)) :
    (NBest.insertAsc p l).Perm (p :: l) := by
  induction l with
  | nil => exact List.Perm.refl _
  | cons e es ih =>
    unfold NBest.insertAsc
    split
    · exact (List.Perm.cons e ih).trans (List.Perm.swap p e es)
    · exact List.Perm.refl _

/-- filling the queue: nothing is dropped while there is room -/
theorem fill_queue (ps : List (WMap ℝ × ℝ)) (q : Queue ℝ) (h : q.l.length + ps.length ≤ q.cap) :
    let q' := ps.foldl (fun q p => NBest.add q (p, p.1.length)) q
    (q'.l.map (·.1)).Perm (ps ++ q.l.map (·.1)) ∧ q'.l.length = q.l.length + ps.length ∧ q'.cap = q.cap := by
  induction ps generalizing q with
  | nil => simp
  | cons p ps ih =>
    simp only [List.foldl_cons, List.length_cons] at h ⊢
    obtain ⟨hl, hc⟩ := add_of_lt q (p, p.1.length) (by omega)
    have hlen : (NBest.add q (p, p.1.length)).l.length = q.l.length + 1 := by
      rw [hl, NBest.length_insertAsc]
    have := ih (NBest.add q (p, p.1.length)) (by rw [hlen, hc]; omega)
    obtain ⟨h1, h2, h3⟩ := this
    refine ⟨?_, by rw [h2, hlen]; omega, by rw [h3, hc]⟩
    refine h1.trans ?_
    rw [hl]
    have := (insertAsc_perm (p, p.1.length) q.l).map (·.1)
    simp only [List.map_cons] at this
    exact (List.Perm.append_left ps this).trans (by simpa using List.perm_middle)

theorem mergeLoop_spec (n : Nat) : ∀ (q : Queue ℝ), q.l.length = n → q.l.length ≤ q.cap →
    (2 ≤ q.l.length ∨ ∃ r m, q.l = [((r, (1 : ℝ)), m)]) →
    ∃ r, mergeLoop q = .ok r ∧ ∀ k, AMap.get r k = unionAt (q.l.map (·.1)) k := by
  induction n using Nat.strong_induction_on with
  | _ n ih =>
    intro q hn hcap hshape
    rw [mergeLoop]
    split
    · next hl => rcases hshape with h | ⟨r, m, h⟩ <;> simp [hl] at h
    · next r w m hl =>
      refine ⟨r, rfl, fun k => ?_⟩
      rcases hshape with h | ⟨r', m', h⟩
      · simp [hl] at h
      · rw [hl] at h ⊢
        simp only [List.cons.injEq, Prod.mk.injEq, and_true] at h
        obtain ⟨⟨rfl, rfl⟩, rfl⟩ := h
        rw [unionAt_eq]
        simp only [List.map_cons, List.map_nil, hasK_cons, tot_cons]
        cases AMap.get r k <;> simp [hasK, tot, contribs]
    · next x wx nx y wy ny rest hl =>
      simp only
      set z := wUnion x y wx wy with hz
      have hrest : rest.length < q.cap := by rw [hl] at hcap; simp at hcap; omega
      obtain ⟨hal, hac⟩ := add_of_lt ({ q with l := rest } : Queue ℝ) ((z, Scalar.nat 1), z.length) hrest
      have hlen : (NBest.add ({ q with l := rest } : Queue ℝ) ((z, Scalar.nat 1), z.length)).l.length
          = rest.length + 1 := by rw [hal, NBest.length_insertAsc]
      have hlt : rest.length + 1 < n := by rw [← hn, hl]; simp
      obtain ⟨r, hr, hget⟩ := ih (rest.length + 1) hlt _ hlen (by rw [hlen, hac]; exact hrest) (by
        cases rest with
        | nil => right; exact ⟨z, z.length, by rw [hal]; simp [NBest.insertAsc]⟩
        | cons e es => left; rw [hlen]; simp)
      refine ⟨r, hr, fun k => ?_⟩
      rw [hget k, hal, hl]
      have hp := (insertAsc_perm ((z, (Scalar.nat 1 : ℝ)), z.length) rest).map (·.1)
      rw [unionAt_perm hp k]
      simp only [List.map_cons]
      exact unionAt_merge x y wx wy _ k

theorem massUnionT_spec (L : List (WMap ℝ × ℝ)) :
    ∃ t, massUnionT L = .ok t ∧ ∀ k, AMap.get t.val k = unionAt L k := by
  unfold massUnionT
  by_cases h : L.length < 2
  · simp only [h, if_true]; exact get_trivial L h
  · simp only [h, if_false]
    obtain ⟨h1, h2, h3⟩ := fill_queue L ({ cap := L.length } : Queue ℝ) (by simp)
    simp only [List.map_nil, List.append_nil, List.length_nil, Nat.zero_add] at h1 h2 h3
    obtain ⟨r, hr, hget⟩ := mergeLoop_spec _ _ rfl (by rw [h2, h3]) (Or.inl (by rw [h2]; omega))
    refine ⟨.fresh r, by rw [hr]; rfl, fun k => ?_⟩
    rw [show (Triv.fresh r).val = r from rfl, hget k, unionAt_perm h1 k]

/-! ### intersection -/

theorem get_foldl_wInter (rest : List (WMap ℝ × ℝ)) (acc : WMap ℝ) (k : Int) :
    AMap.get (rest.foldl (fun acc p => wInter acc p.1 (Scalar.nat 1) p.2) acc) k =
      if rest.all (fun p => AMap.contains p.1 k) then (AMap.get acc k).map (· + tot rest k) else none := by
  induction rest generalizing acc with
  | nil => simp [tot, contribs]
  | cons p rest ih =>
    obtain ⟨m, w⟩ := p
    simp only [List.foldl_cons, List.all_cons]
    rw [ih, get_wInter', tot_cons]
    unfold AMap.contains
    obtain ⟨o, ho⟩ : ∃ o, AMap.get m k = o := ⟨_, rfl⟩
    obtain ⟨o', ho'⟩ : ∃ o, AMap.get acc k = o := ⟨_, rfl⟩
    simp only [ho, ho']
    cases o <;> cases o' <;> simp
    by_cases hA : (rest.all fun p => (AMap.get p.1 k).isSome) = true <;> simp [hA]
    all_goals (try ring)

theorem massInterT_spec (L : List (Option (WMap ℝ) × ℝ)) :
    ∃ t, massInterT L = .ok t ∧ ∀ k, AMap.get t.val k = interAt (present L) k := by
  unfold massInterT
  show ∃ t, (if (present L).length < 2 then trivial (present L) else _) = .ok t ∧ _
  by_cases h : (present L).length < 2
  · simp only [h, if_true]
    obtain ⟨t, ht, hg⟩ := get_trivial (present L) h
    refine ⟨t, ht, fun k => ?_⟩
    rw [hg k]
    unfold interAt
    match hL : present L, h with
    | [], _ => simp [unionAt, contribs, sum1]
    | [(m, w)], _ =>
      rw [unionAt_eq, hasK_cons]
      simp [AMap.contains, hasK]
      all_goals (try (intro hn; simp [hn]))
  · simp only [h, if_false]
    have hp : (sortBySize (present L)).Perm (present L) := Sort.isort_perm _ _
    have hlen := hp.length_eq
    match hs : sortBySize (present L) with
    | [] => rw [hs] at hlen; simp at hlen; omega
    | [_] => rw [hs] at hlen; simp at hlen; omega
    | (x, wx) :: (y, wy) :: rest =>
      refine ⟨_, rfl, fun k => ?_⟩
      rw [← interAt_perm hp k, hs]
      show AMap.get (rest.foldl _ _) k = _
      rw [get_foldl_wInter, get_wInter']
      unfold interAt
      rw [unionAt_eq]
      simp only [List.all_cons, hasK_cons, tot_cons, AMap.contains]
      cases hx : AMap.get x k <;> cases hy : AMap.get y k <;> simp
      all_goals (by_cases hA : (rest.all fun p => (AMap.get p.1 k).isSome) = true <;> simp [hA])
      all_goals (try ring)

end Hyp.SetOps

namespace Hyp.SetOps
open Hyp Hyp.SetSpec

theorem massUnion_spec (L : List (WMap ℝ × ℝ)) :
    ∃ r, massUnion L = .ok r ∧ ∀ k, AMap.get r k = unionAt L k := by
  obtain ⟨t, ht, hg⟩ := massUnionT_spec L
  exact ⟨t.val, by simp [massUnion, ht, Except.map], hg⟩

theorem massInter_spec (L : List (Option (WMap ℝ) × ℝ)) :
    ∃ r, massInter L = .ok r ∧ ∀ k, AMap.get r k = interAt (present L) k := by
  obtain ⟨t, ht, hg⟩ := massInterT_spec L
  exact ⟨t.val, by simp [massInter, ht, Except.map], hg⟩

theorem present_map_some (L : List (WMap ℝ × ℝ)) :
    present (L.map (fun p => (some p.1, p.2))) = L := by
  unfold present
  induction L with
  | nil => rfl
  | cons p L ih => simp [List.filterMap_cons, ih]

end Hyp.SetOps
