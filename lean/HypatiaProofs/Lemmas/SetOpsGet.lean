import HypatiaModel.SetOps

/-!
# `get` of `wUnion` / `wInter` (any scalar type, core Lean only)
-/
namespace Hyp.SetOps
open Hyp
variable {α : Type} [Scalar α]

theorem get_map_val {V W : Type} (m : AMap Int V) (f : Int × V → W) (k : Int) :
    AMap.get (m.map (fun p => (p.1, f p))) k = (AMap.get m k).map (fun v => f (k, v)) := by
  induction m with
  | nil => rfl
  | cons e es ih =>
    obtain ⟨a, b⟩ := e
    simp only [List.map_cons, AMap.get_cons]
    by_cases h : a = k
    · subst h; simp
    · simp [h, ih]

theorem get_filter_key {V : Type} (m : AMap Int V) (g : Int → Bool) (k : Int) :
    AMap.get (m.filter (fun p => g p.1)) k = if g k then AMap.get m k else none := by
  induction m with
  | nil => simp
  | cons e es ih =>
    obtain ⟨a, b⟩ := e
    by_cases h : a = k
    · subst h
      cases hg : g a <;> simp [List.filter, hg, AMap.get_cons, ih]
    · cases hg : g a <;> simp [List.filter, hg, AMap.get_cons, ih, h]

theorem get_append {V : Type} (a b : AMap Int V) (k : Int) :
    AMap.get (a ++ b) k = match AMap.get a k with
      | some v => some v
      | none => AMap.get b k := by
  induction a with
  | nil => rfl
  | cons e es ih =>
    obtain ⟨x, y⟩ := e
    simp only [List.cons_append, AMap.get_cons]
    by_cases h : x = k <;> simp [h, ih]

theorem get_wUnion (x y : WMap α) (wx wy : α) (k : Int) :
    AMap.get (wUnion x y wx wy) k =
      match AMap.get x k, AMap.get y k with
      | some a, some b => some (wx * a + wy * b)
      | some a, none => some (wx * a)
      | none, some b => some (wy * b)
      | none, none => none := by
  unfold wUnion
  rw [get_append, get_map_val, get_map_val]
  have hf := get_filter_key y (fun j => !(AMap.contains x j)) k
  rw [hf]
  unfold AMap.contains
  cases hx : AMap.get x k <;> cases hy : AMap.get y k <;> simp [hy]

theorem get_wInter (x y : WMap α) (wx wy : α) (k : Int) :
    AMap.get (wInter x y wx wy) k =
      match AMap.get x k, AMap.get y k with
      | some a, some b => some (wx * a + wy * b)
      | _, _ => none := by
  unfold wInter
  induction x with
  | nil => simp
  | cons e es ih =>
    obtain ⟨a, b⟩ := e
    simp only [List.filterMap_cons, AMap.get_cons]
    by_cases h : a = k
    · subst h
      cases hy : AMap.get y a with
      | some v => simp [AMap.get_cons]
      | none =>
        simp only []
        rw [ih]; simp [hy]
    · cases hy : AMap.get y a <;> simp [AMap.get_cons, h, ih]

theorem get_wInter' (x y : WMap α) (wx wy : α) (k : Int) :
    AMap.get (wInter x y wx wy) k =
      (AMap.get x k).bind (fun a => (AMap.get y k).map (fun b => wx * a + wy * b)) := by
  rw [get_wInter]
  cases AMap.get x k <;> cases AMap.get y k <;> rfl

theorem get_wUnion' (x y : WMap α) (wx wy : α) (k : Int) :
    AMap.get (wUnion x y wx wy) k =
      match AMap.get x k with
      | some a => some (match AMap.get y k with | some b => wx * a + wy * b | none => wx * a)
      | none => (AMap.get y k).map (fun b => wy * b) := by
  rw [get_wUnion]
  cases AMap.get x k <;> cases AMap.get y k <;> rfl

end Hyp.SetOps
