import HypatiaProofs.Lemmas.SetOps

/-!
# The results of `mass_weightedUnion` / `mass_weightedIntersection` are maps

When the operands have pairwise distinct keys (`AMap.WF` – what a BTrees bucket guarantees), so has every
intermediate and the final result: the association lists of the model are maps, `get` reads *the* entry of a
key.
-/
set_option linter.unusedSectionVars false
set_option linter.unusedSimpArgs false
set_option linter.unusedVariables false
namespace Hyp.SetOps
open Hyp

theorem keys_wUnion (x y : WMap ℝ) (wx wy : ℝ) :
    AMap.keys (wUnion x y wx wy) = AMap.keys x ++ (AMap.keys y).filter (fun k => !(AMap.contains x k)) := by
  unfold wUnion AMap.keys
  simp only [List.map_append, List.map_map, Function.comp_def]
  congr 1
  induction y with
  | nil => rfl
  | cons p ps ih =>
    simp only [List.filter_cons, List.map_cons]
    by_cases h : AMap.contains x p.1 = true
    · simp [h, ih]
    · simp [h, ih]

theorem wf_wUnion {x y : WMap ℝ} (hx : AMap.WF x) (hy : AMap.WF y) (wx wy : ℝ) :
    AMap.WF (wUnion x y wx wy) := by
  unfold AMap.WF at hx hy ⊢
  rw [keys_wUnion, List.nodup_append]
  refine ⟨hx, hy.filter _, ?_⟩
  intro a ha b hb hab
  subst hab
  have := (List.mem_filter.mp hb).2
  rw [AMap.mem_keys_iff] at ha
  simp [AMap.contains, ha] at this

theorem keys_wInter (x y : WMap ℝ) (wx wy : ℝ) :
    AMap.keys (wInter x y wx wy) = (AMap.keys x).filter (fun k => AMap.contains y k) := by
  unfold wInter AMap.keys
  induction x with
  | nil => rfl
  | cons p ps ih =>
    simp only [List.filterMap_cons, List.map_cons, List.filter_cons]
    cases hg : AMap.get y p.1 with
    | none => simp [AMap.contains, hg, ih]
    | some v => simp [AMap.contains, hg, ih]

theorem wf_wInter {x : WMap ℝ} (hx : AMap.WF x) (y : WMap ℝ) (wx wy : ℝ) : AMap.WF (wInter x y wx wy) := by
  unfold AMap.WF at hx ⊢
  rw [keys_wInter]
  exact hx.filter _

theorem wf_trivial (L : List (WMap ℝ × ℝ)) (hwf : ∀ p ∈ L, AMap.WF p.1) (t : Triv ℝ)
    (h : trivial L = .ok t) : AMap.WF t.val := by
  unfold trivial at h
  split at h
  · cases h; exact AMap.WF_nil
  · next m w =>
    have hm := hwf (m, w) (by simp)
    split at h
    · cases h; exact hm
    · cases h; exact wf_wUnion AMap.WF_nil hm _ _
  · cases h

/-- the merge loop keeps distinct keys -/
theorem mergeLoop_wf (n : Nat) : ∀ (q : Queue ℝ), q.l.length = n → q.l.length ≤ q.cap →
    (∀ e ∈ q.l, AMap.WF e.1.1) → ∀ r, mergeLoop q = .ok r → AMap.WF r := by
  induction n using Nat.strong_induction_on with
  | _ n ih =>
    intro q hn hcap hwf r hr
    rw [mergeLoop] at hr
    split at hr
    · cases hr
    · next r' w m hl =>
      cases hr
      exact hwf ((r, w), m) (by rw [hl]; simp)
    · next x wx nx y wy ny rest hl =>
      simp only at hr
      have hxw : AMap.WF x := hwf ((x, wx), nx) (by rw [hl]; simp)
      have hyw : AMap.WF y := hwf ((y, wy), ny) (by rw [hl]; simp)
      have hz := wf_wUnion hxw hyw wx wy
      have hrest : rest.length < q.cap := by rw [hl] at hcap; simp at hcap; omega
      obtain ⟨hal, hac⟩ := add_of_lt ({ q with l := rest } : Queue ℝ)
        ((wUnion x y wx wy, Scalar.nat 1), (wUnion x y wx wy).length) hrest
      have hlen : (NBest.add ({ q with l := rest } : Queue ℝ)
          ((wUnion x y wx wy, Scalar.nat 1), (wUnion x y wx wy).length)).l.length = rest.length + 1 := by
        rw [hal, NBest.length_insertAsc]
      have hlt : rest.length + 1 < n := by rw [← hn, hl]; simp
      refine ih (rest.length + 1) hlt _ hlen (by rw [hlen, hac]; exact hrest) ?_ r hr
      intro e he
      rw [hal] at he
      rcases (NBest.mem_insertAsc _ _ _).mp he with rfl | he'
      · exact hz
      · exact hwf e (by rw [hl]; simp [he'])

/-- the queue after filling holds the operands -/
theorem fill_queue_mem (ps : List (WMap ℝ × ℝ)) (cap : Nat) (h : ps.length ≤ cap) :
    ∀ e ∈ (ps.foldl (fun q p => NBest.add q (p, p.1.length)) ({ cap := cap } : Queue ℝ)).l, e.1 ∈ ps := by
  intro e he
  obtain ⟨h1, _, _⟩ := fill_queue ps ({ cap := cap } : Queue ℝ) (by simpa using h)
  have hm : e.1 ∈ (ps.foldl (fun q p => NBest.add q (p, p.1.length)) ({ cap := cap } : Queue ℝ)).l.map (·.1) :=
    List.mem_map.mpr ⟨e, he, rfl⟩
  simpa using h1.mem_iff.mp hm

/-- **`mass_weightedUnion` returns a map**: distinct keys in every operand give distinct keys in the result -/
theorem massUnion_wf (L : List (WMap ℝ × ℝ)) (hwf : ∀ p ∈ L, AMap.WF p.1) (r : WMap ℝ)
    (h : massUnion L = .ok r) : AMap.WF r := by
  unfold massUnion massUnionT at h
  by_cases hl : L.length < 2
  · simp only [hl, if_true] at h
    cases ht : trivial L with
    | error e => rw [ht] at h; cases h
    | ok t =>
      rw [ht] at h
      simp only [Except.map, Except.ok.injEq] at h
      subst h
      exact wf_trivial L hwf t ht
  · simp only [hl, if_false] at h
    obtain ⟨_, h2, h3⟩ := fill_queue L ({ cap := L.length } : Queue ℝ) (by simp)
    simp only [List.length_nil, Nat.zero_add] at h2 h3
    cases hm : mergeLoop (L.foldl (fun q p => NBest.add q (p, p.1.length)) ({ cap := L.length } : Queue ℝ)) with
    | error e => rw [hm] at h; cases h
    | ok r' =>
      rw [hm] at h
      simp only [Except.map, Except.ok.injEq, Triv.val] at h
      subst h
      refine mergeLoop_wf _ _ rfl (by rw [h2, h3]) ?_ _ hm
      intro e he
      exact hwf _ (fill_queue_mem L L.length (Nat.le_refl _) e he)

theorem wf_foldl_wInter (rest : List (WMap ℝ × ℝ)) (acc : WMap ℝ) (h : AMap.WF acc) :
    AMap.WF (rest.foldl (fun acc p => wInter acc p.1 (Scalar.nat 1) p.2) acc) := by
  induction rest generalizing acc with
  | nil => exact h
  | cons p ps ih => exact ih _ (wf_wInter h _ _ _)

/-- **`mass_weightedIntersection` returns a map** -/
theorem massInter_wf (L : List (Option (WMap ℝ) × ℝ)) (hwf : ∀ p ∈ L, ∀ m, p.1 = some m → AMap.WF m)
    (r : WMap ℝ) (h : massInter L = .ok r) : AMap.WF r := by
  have hwf1 : ∀ p ∈ L.filterMap (fun p => p.1.map (fun x => (x, p.2))), AMap.WF p.1 := by
    intro p hp
    obtain ⟨a, ha, hap⟩ := List.mem_filterMap.mp hp
    cases hm : a.1 with
    | none => simp [hm] at hap
    | some m =>
      simp only [hm, Option.map_some, Option.some.injEq] at hap
      subst hap
      exact hwf a ha m hm
  unfold massInter massInterT at h
  simp only at h
  by_cases hl : (L.filterMap (fun p => p.1.map (fun x => (x, p.2)))).length < 2
  · simp only [hl, if_true] at h
    cases ht : trivial (L.filterMap (fun p => p.1.map (fun x => (x, p.2)))) with
    | error e => rw [ht] at h; cases h
    | ok t =>
      rw [ht] at h
      simp only [Except.map, Except.ok.injEq] at h
      subst h
      exact wf_trivial _ hwf1 t ht
  · simp only [hl, if_false] at h
    split at h
    · next x wx y wy rest hs =>
      simp only [Except.map, Except.ok.injEq, Triv.val] at h
      subst h
      have hx : AMap.WF x := hwf1 (x, wx) (by
        rw [← Sort.mem_isort (fun a b : WMap ℝ × ℝ => decide (a.1.length ≤ b.1.length))]
        unfold sortBySize at hs; rw [hs]; simp)
      exact wf_foldl_wInter rest _ (wf_wInter hx _ _ _)
    · simp [Except.map] at h

end Hyp.SetOps
