import HypatiaModel.Prim.Sort

/-!
# Stable insertion sort and appending at the end

`isort le (xs ++ [p])` inserts `p` *behind* every element that may stay in front of it
(`insertAfter`); taking the first `N` commutes with such insertions.  Core Lean only.
-/
namespace Hyp.Sort
variable {α : Type}

/-- insert `p` behind all leading elements `y` with `le y p` -/
def insertAfter (le : α → α → Bool) (p : α) : List α → List α
  | [] => [p]
  | y :: ys => if le y p then y :: insertAfter le p ys else p :: y :: ys

theorem insertBy_insertAfter_comm {le : α → α → Bool} (tp : TotalPreorder le) (x p : α) (s : List α) :
    insertBy le x (insertAfter le p s) = insertAfter le p (insertBy le x s) := by
  induction s with
  | nil =>
    cases hxp : le x p <;> simp [insertAfter, insertBy, hxp]
  | cons y s ih =>
    cases hxy : le x y with
    | true =>
      cases hyp : le y p with
      | true =>
        have hxp : le x p = true := tp.trans _ _ _ hxy hyp
        simp [insertAfter, insertBy, hxy, hyp, hxp]
      | false =>
        cases hxp : le x p with
        | true => simp [insertAfter, insertBy, hxy, hyp, hxp]
        | false => simp [insertAfter, insertBy, hxy, hyp, hxp]
    | false =>
      cases hyp : le y p with
      | true => simp [insertAfter, insertBy, hxy, hyp, ih]
      | false =>
        have hpy : le p y = true := (tp.total p y).resolve_right (by simp [hyp])
        have hxp : le x p = false := by
          cases h : le x p with
          | false => rfl
          | true => rw [tp.trans _ _ _ h hpy] at hxy; cases hxy
        simp [insertAfter, insertBy, hxy, hyp, hxp]

theorem isort_append_singleton {le : α → α → Bool} (tp : TotalPreorder le) (xs : List α) (p : α) :
    isort le (xs ++ [p]) = insertAfter le p (isort le xs) := by
  induction xs with
  | nil => rfl
  | cons x xs ih =>
    show insertBy le x (isort le (xs ++ [p])) = insertAfter le p (insertBy le x (isort le xs))
    rw [ih, insertBy_insertAfter_comm tp]

theorem isort_append {le : α → α → Bool} (tp : TotalPreorder le) (xs ps : List α) :
    isort le (xs ++ ps) = ps.foldl (fun acc p => insertAfter le p acc) (isort le xs) := by
  induction ps generalizing xs with
  | nil => simp
  | cons p ps ih =>
    have : xs ++ p :: ps = (xs ++ [p]) ++ ps := by simp
    rw [this, ih, isort_append_singleton tp]
    rfl

theorem take_cons_take (n : Nat) (y : α) (s : List α) :
    (y :: s.take n).take n = (y :: s).take n := by
  cases n with
  | zero => rfl
  | succ m => simp [List.take_take]

theorem take_insertAfter_take (le : α → α → Bool) (p : α) (n : Nat) (s : List α) :
    (insertAfter le p (s.take n)).take n = (insertAfter le p s).take n := by
  induction s generalizing n with
  | nil => simp
  | cons y s ih =>
    cases n with
    | zero => simp
    | succ m =>
      simp only [List.take_succ_cons, insertAfter]
      cases hyp : le y p with
      | true => simp [ih]
      | false =>
        simp only [Bool.false_eq_true, if_false, List.take_succ_cons]
        rw [take_cons_take]

/-- taking the first `n` after every insertion = taking the first `n` once at the end -/
theorem foldl_take_insertAfter (le : α → α → Bool) (n : Nat) (s : List α) (ps : List α) :
    ps.foldl (fun acc p => (insertAfter le p acc).take n) (s.take n)
      = (ps.foldl (fun acc p => insertAfter le p acc) s).take n := by
  induction ps generalizing s with
  | nil => rfl
  | cons p ps ih =>
    simp only [List.foldl_cons]
    rw [take_insertAfter_take, ih]

theorem insertBy_of_le_head (le : α → α → Bool) (x : α) (s : List α)
    (h : ∀ y ∈ s, le x y = true) : insertBy le x s = x :: s := by
  cases s with
  | nil => rfl
  | cons y ys => simp [insertBy, h y (by simp)]

theorem isort_of_sorted (le : α → α → Bool) (s : List α)
    (h : s.Pairwise (fun a b => le a b = true)) : isort le s = s := by
  induction s with
  | nil => rfl
  | cons x xs ih =>
    rw [List.pairwise_cons] at h
    show insertBy le x (isort le xs) = x :: xs
    rw [ih h.2, insertBy_of_le_head le x xs h.1]

theorem insertAfter_of_all_le (le : α → α → Bool) (p : α) (s : List α)
    (h : ∀ y ∈ s, le y p = true) : insertAfter le p s = s ++ [p] := by
  induction s with
  | nil => rfl
  | cons y ys ih =>
    simp only [insertAfter, h y (by simp), if_true, List.cons_append]
    rw [ih (fun z hz => h z (List.mem_cons_of_mem _ hz))]

theorem insertAfter_append_singleton (le : α → α → Bool) (p e : α) (s : List α)
    (h : le e p = false) : insertAfter le p (s ++ [e]) = insertAfter le p s ++ [e] := by
  induction s with
  | nil => simp [insertAfter, h]
  | cons y ys ih =>
    simp only [List.cons_append, insertAfter]
    cases le y p <;> simp [ih]

theorem length_insertAfter (le : α → α → Bool) (p : α) (s : List α) :
    (insertAfter le p s).length = s.length + 1 := by
  induction s with
  | nil => rfl
  | cons y ys ih => simp only [insertAfter]; split <;> simp [ih]

end Hyp.Sort
