import HypatiaProofs.Lemmas.SortOrder

/-!
List facts used by the sort proofs (core Lean only): insertion in front of the first greater
element, filtering a sorted list, uniqueness of the sorted permutation, "the L smallest" as
an invariant of the `insort`/`pop` loop, and splitting a sorted list at the sentinel.
-/
set_option linter.unusedSectionVars false
set_option linter.unusedSimpArgs false
set_option linter.unusedVariables false
namespace Hyp.Sort
variable {α β : Type}

abbrev Sorted (le : α → α → Bool) (l : List α) : Prop := l.Pairwise (fun a b => le a b = true)

/-- inserting with *any* comparison that is sound for `le` keeps a list `le`-sorted
(`bisect.insort_right` inserts with `<`, `isort` with `≤`) -/
theorem insertBy_sorted' {le cmp : α → α → Bool} (tp : TotalPreorder le) (x : α)
    (h1 : ∀ y, cmp x y = true → le x y = true) (h2 : ∀ y, cmp x y = false → le y x = true)
    (l : List α) (h : Sorted le l) : Sorted le (insertBy cmp x l) := by
  induction l with
  | nil => simp [insertBy]
  | cons y ys ih =>
    unfold insertBy
    have h' := List.pairwise_cons.mp h
    split
    · next hxy =>
      refine List.pairwise_cons.mpr ⟨?_, h⟩
      intro a ha
      rcases List.mem_cons.mp ha with rfl | ha'
      · exact h1 _ hxy
      · exact tp.trans _ _ _ (h1 _ hxy) (h'.1 a ha')
    · next hxy =>
      refine List.pairwise_cons.mpr ⟨?_, ih h'.2⟩
      intro a ha
      have := (insertBy_perm cmp x ys).mem_iff.mp ha
      rcases List.mem_cons.mp this with rfl | ha'
      · exact h2 _ (by simpa using hxy)
      · exact h'.1 a ha'

theorem insertBy_append_last (cmp : α → α → Bool) (x b : α) (a : List α) (h : cmp x b = true) :
    insertBy cmp x (a ++ [b]) = insertBy cmp x a ++ [b] := by
  induction a with
  | nil => simp [insertBy, h]
  | cons y ys ih =>
    simp only [List.cons_append, insertBy]
    split
    · rfl
    · rw [ih]; rfl

theorem length_insertBy (cmp : α → α → Bool) (x : α) (l : List α) :
    (insertBy cmp x l).length = l.length + 1 := by
  have := (insertBy_perm cmp x l).length_eq
  simpa using this

theorem insertBy_of_le_all (le : α → α → Bool) (x : α) (m : List α)
    (h : ∀ z ∈ m, le x z = true) : insertBy le x m = x :: m := by
  cases m with
  | nil => rfl
  | cons z zs => simp [insertBy, h z (by simp)]

theorem filter_insertBy_pos {le : α → α → Bool} (tp : TotalPreorder le) (p : α → Bool) (x : α)
    (l : List α) (hs : Sorted le l) (hx : p x = true) :
    (insertBy le x l).filter p = insertBy le x (l.filter p) := by
  induction l with
  | nil => simp [insertBy, hx]
  | cons y ys ih =>
    have h' := List.pairwise_cons.mp hs
    cases hxy : le x y with
    | true =>
      have e : insertBy le x (y :: ys) = x :: y :: ys := by simp [insertBy, hxy]
      rw [e, insertBy_of_le_all le x ((y :: ys).filter p)]
      · simp [List.filter, hx]
      · intro z hz
        have hz' := (List.mem_filter.mp hz).1
        rcases List.mem_cons.mp hz' with rfl | hz''
        · exact hxy
        · exact tp.trans _ _ _ hxy (h'.1 z hz'')
    | false =>
      have e : insertBy le x (y :: ys) = y :: insertBy le x ys := by simp [insertBy, hxy]
      rw [e]
      cases hy : p y with
      | true =>
        simp only [List.filter_cons, hy, if_true, ih h'.2]
        simp [insertBy, hxy]
      | false =>
        simp only [List.filter_cons, hy, ih h'.2]
        simp

/-- filtering commutes with the stable sort -/
theorem filter_isort {le : α → α → Bool} (tp : TotalPreorder le) (p : α → Bool) (l : List α) :
    (isort le l).filter p = isort le (l.filter p) := by
  induction l with
  | nil => rfl
  | cons x xs ih =>
    show (insertBy le x (isort le xs)).filter p = _
    cases hx : p x with
    | true =>
      rw [filter_insertBy_pos tp p x _ (isort_sorted tp xs) hx, ih]
      simp [List.filter, hx, isort]
    | false =>
      rw [filter_insertBy_neg le p x _ hx, ih]
      simp [List.filter, hx]

/-- a sorted permutation is unique when the order is antisymmetric (on the elements at hand) -/
theorem eq_of_perm_sorted' {le : α → α → Bool} {l1 l2 : List α}
    (anti : ∀ a b, a ∈ l1 → b ∈ l1 → le a b = true → le b a = true → a = b)
    (hp : l1.Perm l2) (h1 : Sorted le l1) (h2 : Sorted le l2) : l1 = l2 := by
  induction l1 generalizing l2 with
  | nil => exact hp.nil_eq
  | cons a l1 ih =>
    cases l2 with
    | nil => exact absurd hp.length_eq (by simp)
    | cons b l2 =>
      have h1' := List.pairwise_cons.mp h1
      have h2' := List.pairwise_cons.mp h2
      have hab : a = b := by
        have ha : a ∈ b :: l2 := hp.mem_iff.mp (by simp)
        have hb : b ∈ a :: l1 := hp.mem_iff.mpr (by simp)
        rcases List.mem_cons.mp ha with e | ha'
        · exact e
        · rcases List.mem_cons.mp hb with e | hb'
          · exact e.symm
          · exact anti _ _ (by simp) (by simp [hb']) (h1'.1 b hb') (h2'.1 a ha')
      subst hab
      rw [ih (fun x y hx hy => anti x y (by simp [hx]) (by simp [hy])) hp.cons_inv h1'.2 h2'.2]

theorem eq_of_perm_sorted {le : α → α → Bool} (anti : ∀ a b, le a b = true → le b a = true → a = b)
    {l1 l2 : List α} (hp : l1.Perm l2) (h1 : Sorted le l1) (h2 : Sorted le l2) : l1 = l2 :=
  eq_of_perm_sorted' (fun a b _ _ => anti a b) hp h1 h2

/-- `out` consists of `L` smallest elements of `all` (with `dr` the rest): it is the first `L`
elements of the sorted list -/
theorem nsmallest_eq_take {le : α → α → Bool} (tp : TotalPreorder le)
    (anti : ∀ a b, le a b = true → le b a = true → a = b) {all out dr : List α} {L : Nat}
    (hs : Sorted le out) (hp : (out ++ dr).Perm all)
    (hd : ∀ x ∈ dr, ∀ y ∈ out, le y x = true) (hl : out.length = min L all.length) :
    out = (isort le all).take L := by
  have hsorted : Sorted le (out ++ isort le dr) := by
    refine List.pairwise_append.mpr ⟨hs, isort_sorted tp dr, ?_⟩
    intro a ha b hb
    exact hd b ((mem_isort le dr b).mp hb) a ha
  have hperm : (out ++ isort le dr).Perm (isort le all) :=
    ((List.Perm.append_left out (isort_perm le dr)).trans hp).trans (isort_perm le all).symm
  have heq := eq_of_perm_sorted anti hperm hsorted (isort_sorted tp all)
  rw [← heq]
  have hlen : out.length + dr.length = all.length := by
    have := hp.length_eq; simpa using this
  by_cases hL : out.length = L
  · exact (List.take_left' hL).symm
  · have hdr : dr = [] := by
      have : dr.length = 0 := by omega
      exact List.length_eq_zero_iff.mp this
    subst hdr
    simp only [isort, List.append_nil]
    exact (List.take_of_length_le (by omega)).symm

/-- the invariant of the `insort`/`pop` loop of `nbest_ascending` -/
theorem nbestLoop_inv {lt le : α → α → Bool} (tp : TotalPreorder le) (hlt : ∀ x y, lt x y = !le y x)
    (rest : List α) : ∀ (result dr : List α), Sorted le result →
      (∀ x ∈ dr, ∀ y ∈ result, le y x = true) →
      ∃ dr', Sorted le (Field.nbestLoop lt le result rest) ∧
        (Field.nbestLoop lt le result rest ++ dr').Perm (result ++ dr ++ rest) ∧
        (∀ x ∈ dr', ∀ y ∈ Field.nbestLoop lt le result rest, le y x = true) ∧
        (Field.nbestLoop lt le result rest).length = result.length := by
  induction rest with
  | nil =>
    intro result dr hs hd
    exact ⟨dr, by simpa [Field.nbestLoop] using hs, by simp [Field.nbestLoop], by simpa [Field.nbestLoop] using hd,
      by simp [Field.nbestLoop]⟩
  | cons elem rest ih =>
    intro result dr hs hd
    unfold Field.nbestLoop
    cases hlast : result.getLast? with
    | none =>
      have : result = [] := List.getLast?_eq_none_iff.mp hlast
      subst this
      exact ⟨dr ++ elem :: rest, by simp, by simp, by simp, by simp⟩
    | some los =>
      obtain ⟨init, rfl⟩ := List.getLast?_eq_some_iff.mp hlast
      have hsa := List.pairwise_append.mp hs
      have hrefl : ∀ a, le a a = true := fun a => (tp.total a a).elim id id
      have hle_los : ∀ y ∈ init ++ [los], le y los = true := by
        intro y hy
        rcases List.mem_append.mp hy with h | h
        · exact hsa.2.2 y h los (by simp)
        · have : y = los := by simpa using h
          subst this; exact hrefl _
      simp only
      cases hcmp : le los elem with
      | true =>
        simp only [if_true]
        obtain ⟨dr', a1, a2, a3, a4⟩ := ih (init ++ [los]) (elem :: dr) hs (by
          intro x hx y hy
          rcases List.mem_cons.mp hx with rfl | hx'
          · exact tp.trans _ _ _ (hle_los y hy) hcmp
          · exact hd x hx' y hy)
        refine ⟨dr', a1, a2.trans ?_, a3, a4⟩
        simp only [List.append_assoc, List.cons_append]
        refine List.Perm.append_left init (List.Perm.append_left [los] ?_)
        exact (List.perm_middle (l₁ := dr) (l₂ := rest) (a := elem)).symm
      | false =>
        simp only [Bool.false_eq_true, if_false]
        have hlt' : lt elem los = true := by rw [hlt]; simp [hcmp]
        have hle' : le elem los = true := (tp.total elem los).resolve_right (by simp [hcmp])
        rw [insertBy_append_last lt elem los init hlt', List.dropLast_concat]
        have hs' : Sorted le (insertBy lt elem init) :=
          insertBy_sorted' tp elem
            (fun y hy => by
              rw [hlt] at hy
              exact (tp.total elem y).resolve_right (by simpa using hy))
            (fun y hy => by rw [hlt] at hy; simpa using hy) init hsa.1
        obtain ⟨dr', a1, a2, a3, a4⟩ := ih (insertBy lt elem init) (los :: dr) hs' (by
          intro x hx y hy
          have hy' := (insertBy_perm lt elem init).mem_iff.mp hy
          rcases List.mem_cons.mp hx with rfl | hx'
          · rcases List.mem_cons.mp hy' with rfl | hy''
            · exact hle'
            · exact hsa.2.2 y hy'' _ (by simp)
          · rcases List.mem_cons.mp hy' with rfl | hy''
            · exact tp.trans _ _ _ hle' (hd x hx' los (by simp))
            · exact hd x hx' y (by simp [hy'']))
        refine ⟨dr', a1, a2.trans ?_, a3, ?_⟩
        · have p1 : (insertBy lt elem init).Perm (elem :: init) := insertBy_perm lt elem init
          have : (insertBy lt elem init ++ los :: dr ++ rest).Perm
              (elem :: (init ++ [los] ++ dr ++ rest)) := by
            have := List.Perm.append_right (los :: dr ++ rest) p1
            simpa [List.append_assoc] using this
          refine this.trans ?_
          have := (List.perm_middle (l₁ := init ++ [los] ++ dr) (l₂ := rest) (a := elem)).symm
          simpa [List.append_assoc] using this
        · rw [a4, length_insertBy]; simp

/-- a sorted list in which `p`-elements never come after non-`p`-elements splits at the boundary -/
theorem sorted_split {le : α → α → Bool} (p : α → Bool)
    (hsep : ∀ x y, p x = true → p y = false → le y x = false) (l : List α) (hs : Sorted le l) :
    l = l.filter p ++ l.filter (fun x => !p x) := by
  induction l with
  | nil => rfl
  | cons a l ih =>
    have h' := List.pairwise_cons.mp hs
    cases ha : p a with
    | true => simp only [List.filter_cons, ha, if_true, Bool.not_true, Bool.false_eq_true, if_false,
        List.cons_append]; rw [← ih h'.2]
    | false =>
      have hall : ∀ b ∈ l, p b = false := by
        intro b hb
        cases hb' : p b with
        | false => rfl
        | true => have := hsep b a hb' ha; rw [h'.1 b hb] at this; cases this
      have e1 : l.filter p = [] := List.filter_eq_nil_iff.mpr (fun b hb => by simp [hall b hb])
      have e2 : l.filter (fun x => !p x) = l := List.filter_eq_self.mpr (fun b hb => by simp [hall b hb])
      simp [List.filter_cons, ha, e1, e2]

theorem insertBy_congr {le1 le2 : α → α → Bool} (x : α) (l : List α)
    (h : ∀ b ∈ l, le1 x b = le2 x b) : insertBy le1 x l = insertBy le2 x l := by
  induction l with
  | nil => rfl
  | cons y ys ih =>
    simp only [insertBy, h y (by simp)]
    rw [ih (fun b hb => h b (by simp [hb]))]

/-- the sort only looks at the comparison between elements of the list -/
theorem isort_congr {le1 le2 : α → α → Bool} (l : List α)
    (h : ∀ a ∈ l, ∀ b ∈ l, le1 a b = le2 a b) : isort le1 l = isort le2 l := by
  induction l with
  | nil => rfl
  | cons x xs ih =>
    simp only [isort]
    rw [ih (fun a ha b hb => h a (by simp [ha]) b (by simp [hb]))]
    exact insertBy_congr x _ (fun b hb => h x (by simp) b (by simp [(mem_isort le2 xs b).mp hb]))

theorem insertBy_decorate (f : α → β) (le : β → β → Bool) (x : α) (m : List (β × α))
    (hm : ∀ p ∈ m, p.1 = f p.2) :
    (insertBy (fun (u v : β × α) => le u.1 v.1) (f x, x) m).map Prod.snd =
      insertBy (fun a b => le (f a) (f b)) x (m.map Prod.snd) := by
  induction m with
  | nil => rfl
  | cons p ps ih =>
    have hp := hm p (by simp)
    simp only [insertBy, List.map_cons, hp]
    split
    · rfl
    · simp only [List.map_cons, ih (fun q hq => hm q (by simp [hq]))]

/-- sorting on a key computed once per element = sorting with the key recomputed in every comparison -/
theorem isort_decorate (f : α → β) (le : β → β → Bool) (l : List α) :
    (isort (fun (u v : β × α) => le u.1 v.1) (l.map (fun a => (f a, a)))).map Prod.snd =
      isort (fun a b => le (f a) (f b)) l := by
  induction l with
  | nil => rfl
  | cons x xs ih =>
    simp only [List.map_cons, isort]
    rw [insertBy_decorate f le x, ih]
    intro p hp
    have := (mem_isort _ _ p).mp hp
    obtain ⟨a, _, rfl⟩ := List.mem_map.mp this
    rfl

theorem filterMap_ite (p : α → Bool) (g : α → β) (l : List α) :
    l.filterMap (fun x => if p x then some (g x) else none) = (l.filter p).map g := by
  induction l with
  | nil => rfl
  | cons x xs ih =>
    cases hx : p x <;> simp [List.filterMap_cons, List.filter_cons, hx, ih]

/-- cutting a list whose tail part contributes nothing: cut and projection commute -/
theorem take_split_map (P Q : List α) (p : α → Bool) (g : α → β) (L : Nat)
    (hP : ∀ x ∈ P, p x = true) (hQ : ∀ x ∈ Q, p x = false) :
    (((P ++ Q).take L).filter p).map g = (((P ++ Q).filter p).map g).take L := by
  have e1 : P.filter p = P := List.filter_eq_self.mpr hP
  have e2 : Q.filter p = [] := List.filter_eq_nil_iff.mpr (fun x hx => by simp [hQ x hx])
  have e3 : (P.take L).filter p = P.take L :=
    List.filter_eq_self.mpr (fun x hx => hP x (List.mem_of_mem_take hx))
  have e4 : (Q.take (L - P.length)).filter p = [] :=
    List.filter_eq_nil_iff.mpr (fun x hx => by simp [hQ x (List.mem_of_mem_take hx)])
  rw [List.take_append, List.filter_append, List.filter_append, e1, e2, e3, e4]
  simp [List.map_take]

/-- … and the tail part shows up in the cut exactly when the cut is longer than the head part -/
theorem take_split_tail (P Q : List α) (p : α → Bool) (L : Nat)
    (hP : ∀ x ∈ P, p x = true) (hQ : ∀ x ∈ Q, p x = false) :
    (((P ++ Q).take L).filter (fun x => !p x)).isEmpty = (decide (L ≤ P.length) || Q.isEmpty) := by
  have e3 : (P.take L).filter (fun x => !p x) = [] :=
    List.filter_eq_nil_iff.mpr (fun x hx => by simp [hP x (List.mem_of_mem_take hx)])
  have e4 : (Q.take (L - P.length)).filter (fun x => !p x) = Q.take (L - P.length) :=
    List.filter_eq_self.mpr (fun x hx => by simp [hQ x (List.mem_of_mem_take hx)])
  rw [List.take_append, List.filter_append, e3, e4, List.nil_append]
  cases Q with
  | nil => simp
  | cons q Q =>
    by_cases h : L ≤ P.length
    · have : L - P.length = 0 := by omega
      simp [h, this]
    · have : L - P.length = (L - P.length - 1) + 1 := by omega
      rw [this]; simp [h]

end Hyp.Sort
