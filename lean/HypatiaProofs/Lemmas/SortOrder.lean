import HypatiaModel.FieldSort
import HypatiaModel.Prim.Order

/-!
Order facts behind the sort algorithms: the comparisons Python performs (`<` on values, on values
with a sentinel, on `(value, docid)` tuples, on keys) are strict linear / strict weak orders, so the
derived "may stay in front of" relations are total preorders – which is all the insertion sort of
`Prim/Sort.lean` needs.
-/
set_option linter.unusedSectionVars false
set_option linter.unusedSimpArgs false
set_option linter.unusedVariables false
namespace Hyp.Sort
variable {α β : Type}

structure StrictLin (lt : α → α → Bool) : Prop where
  irrefl : ∀ a, lt a a = false
  trans : ∀ a b c, lt a b = true → lt b c = true → lt a c = true
  tri : ∀ a b, a = b ∨ lt a b = true ∨ lt b a = true

structure StrictWeak (lt : α → α → Bool) : Prop where
  asymm : ∀ a b, lt a b = true → lt b a = false
  negtrans : ∀ a b c, lt a c = true → lt a b = true ∨ lt b c = true

theorem StrictLin.weak {lt : α → α → Bool} (h : StrictLin lt) : StrictWeak lt where
  asymm := by
    intro a b hab
    cases hba : lt b a with
    | false => rfl
    | true => have := h.trans a b a hab hba; rw [h.irrefl] at this; cases this
  negtrans := by
    intro a b c hac
    rcases h.tri a b with e | e | e
    · subst e; exact Or.inr hac
    · exact Or.inl e
    · exact Or.inr (h.trans b a c e hac)

theorem StrictWeak.flip {lt : α → α → Bool} (h : StrictWeak lt) : StrictWeak (fun a b => lt b a) where
  asymm := fun a b hab => h.asymm b a hab
  negtrans := fun a b c hac => (h.negtrans c b a hac).symm

theorem StrictWeak.pullback {lt : β → β → Bool} (h : StrictWeak lt) (f : α → β) :
    StrictWeak (fun a b => lt (f a) (f b)) where
  asymm := fun a b hab => h.asymm _ _ hab
  negtrans := fun a b c hac => h.negtrans _ (f b) _ hac

/-- "x may stay in front of y unless y < x" is a total preorder -/
theorem StrictWeak.tp {lt : α → α → Bool} (h : StrictWeak lt) : TotalPreorder (fun x y => !lt y x) where
  total := by
    intro a b
    cases hba : lt b a with
    | false => left; simp [hba]
    | true => right; simp [h.asymm b a hba]
  trans := by
    intro a b c hab hbc
    cases hca : lt c a with
    | false => simp [hca]
    | true =>
      rcases h.negtrans c b a hca with e | e
      · simp [e] at hbc
      · simp [e] at hab

/-- the descending variant: "x may stay in front of y unless x < y" -/
theorem StrictWeak.tpRev {lt : α → α → Bool} (h : StrictWeak lt) : TotalPreorder (fun x y => !lt x y) :=
  h.flip.tp

theorem StrictLin.antisymm {lt : α → α → Bool} (h : StrictLin lt) (a b : α)
    (h1 : (!lt b a) = true) (h2 : (!lt a b) = true) : a = b := by
  rcases h.tri a b with e | e | e
  · exact e
  · simp [e] at h2
  · simp [e] at h1

end Hyp.Sort

namespace Hyp.Field
open Hyp Hyp.Sort
variable {V : Type} [DecidableEq V] [LT V] [DecidableLT V] [LE V] [DecidableLE V]

theorem ord_lt_irrefl (o : OrdLaws V) (a : V) : ¬ a < a := by
  rw [o.lt_iff]; exact fun h => h.2 h.1

theorem ord_lt_trans (o : OrdLaws V) {a b c : V} (h1 : a < b) (h2 : b < c) : a < c := by
  rw [o.lt_iff] at *
  exact ⟨o.le_trans _ _ _ h1.1 h2.1, fun h => h2.2 (o.le_trans _ _ _ h h1.1)⟩

theorem ord_tri (o : OrdLaws V) (a b : V) : a = b ∨ a < b ∨ b < a := by
  by_cases h1 : a ≤ b
  · by_cases h2 : b ≤ a
    · exact Or.inl (o.le_antisymm _ _ h1 h2)
    · exact Or.inr (Or.inl ((o.lt_iff _ _).mpr ⟨h1, h2⟩))
  · exact Or.inr (Or.inr ((o.not_le _ _).mp h1))

theorem strictLin_val (o : OrdLaws V) : StrictLin (fun a b : V => decide (a < b)) where
  irrefl := by intro a; simp [ord_lt_irrefl o]
  trans := by
    intro a b c h1 h2
    simp only [decide_eq_true_eq] at *
    exact ord_lt_trans o h1 h2
  tri := by
    intro a b
    simp only [decide_eq_true_eq]
    exact ord_tri o a b

theorem strictLin_ltAsc (o : OrdLaws V) : StrictLin (ltAsc (V := V)) where
  irrefl := by intro a; cases a <;> simp [ltAsc, ord_lt_irrefl o]
  trans := by
    intro a b c h1 h2
    cases a <;> cases b <;> cases c <;> simp [ltAsc] at *
    exact ord_lt_trans o h1 h2
  tri := by
    intro a b
    cases a <;> cases b <;> simp [ltAsc]
    exact ord_tri o _ _

theorem strictLin_ltDesc (o : OrdLaws V) : StrictLin (ltDesc (V := V)) where
  irrefl := by intro a; cases a <;> simp [ltDesc, ord_lt_irrefl o]
  trans := by
    intro a b c h1 h2
    cases a <;> cases b <;> cases c <;> simp [ltDesc] at *
    exact ord_lt_trans o h1 h2
  tri := by
    intro a b
    cases a <;> cases b <;> simp [ltDesc]
    exact ord_tri o _ _

/-- lexicographic `(value, docid)` tuples -/
theorem strictLin_pairLt {ltK : Option V → Option V → Bool} (h : StrictLin ltK) :
    StrictLin (pairLt ltK) where
  irrefl := by intro a; simp [pairLt]
  trans := by
    intro a b c h1 h2
    obtain ⟨a1, a2⟩ := a; obtain ⟨b1, b2⟩ := b; obtain ⟨c1, c2⟩ := c
    unfold pairLt at *
    simp only at *
    by_cases e1 : a1 = b1
    · subst e1
      by_cases e2 : a1 = c1
      · subst e2; simp at *; omega
      · simp [e2] at *; exact h2
    · by_cases e2 : b1 = c1
      · subst e2; simp [e1] at *; exact h1
      · simp only [e1, e2, if_false] at h1 h2
        have h3 := h.trans _ _ _ h1 h2
        by_cases e3 : a1 = c1
        · subst e3; rw [h.irrefl] at h3; cases h3
        · simp [e3, h3]
  tri := by
    intro a b
    obtain ⟨a1, a2⟩ := a; obtain ⟨b1, b2⟩ := b
    unfold pairLt
    simp only
    by_cases e1 : a1 = b1
    · subst e1
      simp only [if_true, decide_eq_true_eq, Prod.mk.injEq, true_and]
      omega
    · have e1' : ¬ b1 = a1 := fun e => e1 e.symm
      simp only [e1, e1', if_false, Prod.mk.injEq, false_and, false_or]
      rcases h.tri a1 b1 with e | e | e
      · exact absurd e e1
      · exact Or.inl e
      · exact Or.inr e

/-- Python's tuple `<=` is the negation of the flipped tuple `<` -/
theorem pairLe_leAsc_eq (o : OrdLaws V) (a b : Option V × Int) :
    pairLe leAsc a b = !pairLt ltAsc b a := by
  obtain ⟨a1, a2⟩ := a; obtain ⟨b1, b2⟩ := b
  unfold pairLe pairLt
  simp only
  by_cases e1 : a1 = b1
  · subst e1
    simp only [if_true]
    by_cases h : a2 ≤ b2
    · have : ¬ b2 < a2 := by omega
      simp [h, this]
    · have : b2 < a2 := by omega
      simp [h, this]
  · have e1' : ¬ b1 = a1 := fun e => e1 e.symm
    simp only [e1, e1', if_false]
    cases a1 <;> cases b1 <;> simp [leAsc, ltAsc] at *
    rename_i x y
    by_cases h : x ≤ y
    · have : ¬ y < x := (o.not_lt _ _).mpr h
      simp [h, this]
    · have : y < x := (o.not_le _ _).mp h
      simp [h, this]

end Hyp.Field
