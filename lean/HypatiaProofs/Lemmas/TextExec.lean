import HypatiaProofs.Lemmas.TextSearch
import HypatiaProofs.Properties.C14
/-!
`executeQuery` over the text index computes `sat` – by induction on the shape (`WF`) of the trees
the parser returns.
-/
set_option linter.unusedSimpArgs false
set_option linter.unusedSectionVars false
set_option linter.unusedVariables false
namespace Hyp.Text
open Hyp.QP (Str Tree)
open Hyp.Lex (Cfg getWid)
open Spec

/-- the result set holds exactly the documents satisfying the tree -/
def Holds (T : Table) (r : List Int) (t : Tree) : Prop := ∀ d, d ∈ r ↔ satDoc T t d = true

theorem satAll_iff (ts : List Tree) (toks : List Str) :
    satAll ts toks = true ↔ ∀ t ∈ ts, sat t toks = true := by
  induction ts with
  | nil => simp [satAll]
  | cons t ts ih => simp [satAll, ih]

theorem satAny_iff (ts : List Tree) (toks : List Str) :
    satAny ts toks = true ↔ ∃ t ∈ ts, sat t toks = true := by
  induction ts with
  | nil => simp [satAny]
  | cons t ts ih => simp [satAny, ih]

theorem admissibles_iff (cfg : Cfg) (ts : List Tree) :
    admissibles cfg ts = true ↔ ∀ t ∈ ts, admissible cfg t = true := by
  induction ts with
  | nil => simp [admissibles]
  | cons t ts ih => simp [admissibles, ih]

mutual
theorem noLeading_of_adm (cfg : Cfg) : ∀ t : Tree, admissible cfg t = true → leadingGlobLeaf t = false
  | .atom _, _ => rfl
  | .phrase _, _ => rfl
  | .glob p, h => by
    cases p with
    | nil => rfl
    | cons c p => simpa [admissible, leadingGlobLeaf] using h
  | .notN t, h => by
    simp only [admissible] at h
    simp only [leadingGlobLeaf]
    exact noLeading_of_adm cfg t h
  | .andN ts, h => by
    simp only [admissible] at h
    simp only [leadingGlobLeaf]
    exact noLeadings_of_adm cfg ts h
  | .orN ts, h => by
    simp only [admissible] at h
    simp only [leadingGlobLeaf]
    exact noLeadings_of_adm cfg ts h
theorem noLeadings_of_adm (cfg : Cfg) : ∀ ts : List Tree, admissibles cfg ts = true → leadingGlobLeafs ts = false
  | [], _ => rfl
  | t :: ts, h => by
    simp only [admissibles, Bool.and_eq_true] at h
    simp only [leadingGlobLeafs, Bool.or_eq_false_iff]
    exact ⟨noLeading_of_adm cfg t h.1, noLeadings_of_adm cfg ts h.2⟩
end

/-! ### the loops of `AndNode` / `OrNode` -/

/-- two lists related element by element -/
inductive Rel2 {α β : Type} (P : α → β → Prop) : List α → List β → Prop
  | nil : Rel2 P [] []
  | cons {a : α} {b : β} {l : List α} {L : List β} : P a b → Rel2 P l L → Rel2 P (a :: l) (b :: L)

theorem Rel2.imp {α β : Type} {P Q : α → β → Prop} {l : List α} {L : List β}
    (h : Rel2 P l L) (hpq : ∀ {a b}, P a b → Q a b) : Rel2 Q l L := by
  induction h with
  | nil => exact .nil
  | cons hx _ ih => exact .cons (hpq hx) ih

theorem exists_forall2 {α β : Type} (P : α → β → Prop) (l : List α) (h : ∀ a ∈ l, ∃ b, P a b) :
    ∃ L, Rel2 P l L := by
  induction l with
  | nil => exact ⟨[], .nil⟩
  | cons a l ih =>
    obtain ⟨b, hb⟩ := h a (by simp)
    obtain ⟨L, hL⟩ := ih (fun x hx => h x (List.mem_cons_of_mem _ hx))
    exact ⟨b :: L, .cons hb hL⟩

theorem execAnd_cons_pos {R : Type} (ix : QP.Index R) (t : Tree) (rest : List Tree) (r : R)
    (L nots : List R) (hn : t.isNot = false) (ht : QP.exec ix t = .ok (some r))
    (hr : QP.execAnd ix rest = .ok (L, nots)) : QP.execAnd ix (t :: rest) = .ok (r :: L, nots) := by
  cases t with
  | notN u => simp [Tree.isNot] at hn
  | atom w => simp [QP.execAnd, ht, hr]
  | phrase w => simp [QP.execAnd, ht, hr]
  | glob w => simp [QP.execAnd, ht, hr]
  | andN w => simp [QP.execAnd, ht, hr]
  | orN w => simp [QP.execAnd, ht, hr]

theorem execAnd_negs {R : Type} (ix : QP.Index R) (negs : List Tree) (Ln : List R)
    (h : Rel2 (fun t r => QP.exec ix t = .ok (some r)) negs Ln) :
    QP.execAnd ix (negs.map .notN) = .ok ([], Ln) := by
  induction h with
  | nil => simp [QP.execAnd]
  | cons hx _ ih => simp [QP.execAnd, hx, ih]

theorem execAnd_split {R : Type} (ix : QP.Index R) (pos negs : List Tree) (Lp Ln : List R)
    (hp : Rel2 (fun t r => t.isNot = false ∧ QP.exec ix t = .ok (some r)) pos Lp)
    (hn : Rel2 (fun t r => QP.exec ix t = .ok (some r)) negs Ln) :
    QP.execAnd ix (pos ++ negs.map .notN) = .ok (Lp, Ln) := by
  induction hp with
  | nil => exact execAnd_negs ix negs Ln hn
  | cons hx _ ih => exact execAnd_cons_pos ix _ _ _ _ _ hx.1 hx.2 ih

theorem execOr_all {R : Type} (ix : QP.Index R) (ts : List Tree) (L : List R)
    (h : Rel2 (fun t r => QP.exec ix t = .ok (some r)) ts L) : QP.execOr ix ts = .ok L := by
  induction h with
  | nil => simp [QP.execOr]
  | cons hx _ ih => simp [QP.execOr, hx, ih]

theorem forall2_mem_left {α β : Type} {P : α → β → Prop} {l : List α} {L : List β}
    (h : Rel2 P l L) : ∀ a ∈ l, ∃ b ∈ L, P a b := by
  induction h with
  | nil => simp
  | cons hx _ ih =>
    intro a ha
    rcases List.mem_cons.mp ha with e | e
    · subst e; exact ⟨_, by simp, hx⟩
    · obtain ⟨b, hb, hab⟩ := ih a e; exact ⟨b, List.mem_cons_of_mem _ hb, hab⟩

theorem forall2_mem_right {α β : Type} {P : α → β → Prop} {l : List α} {L : List β}
    (h : Rel2 P l L) : ∀ b ∈ L, ∃ a ∈ l, P a b := by
  induction h with
  | nil => simp
  | cons hx _ ih =>
    intro b hb
    rcases List.mem_cons.mp hb with e | e
    · subst e; exact ⟨_, by simp, hx⟩
    · obtain ⟨a, ha, hab⟩ := ih b e; exact ⟨a, List.mem_cons_of_mem _ ha, hab⟩

/-! ### the main induction -/

theorem exec_spec (cfg : Cfg) {s : State} {T : Table} (hi : Inv s T) (hs : Small s.base.lex)
    {t : Tree} (hwf : QP.Spec.WF (lexOf cfg) t) (hadm : admissible cfg t = true) :
    ∃ r, QP.exec (indexOf cfg s.base) t = .ok (some r) ∧ Holds T r t := by
  induction hwf with
  | @atom w _ =>
    obtain ⟨r, h1, h2⟩ := search_spec cfg hi w (by simpa [admissible] using hadm)
    exact ⟨r, by simp [QP.exec, indexOf, h1], h2⟩
  | @glob p _ =>
    have hstart : ∀ c, p.head? = some c → Lex.isGlobChar c = false := by
      intro c hc
      cases p with
      | nil => simp at hc
      | cons x p => simp at hc; subst hc; simpa [admissible] using hadm
    obtain ⟨r, h1, h2⟩ := searchGlob_spec hi p hstart
    exact ⟨r, by simp [QP.exec, indexOf, h1], h2⟩
  | @phrase ws hlen =>
    have hne : ws ≠ [] := by intro e; subst e; simp at hlen
    have hst : ∀ w ∈ ws, stableWord cfg w = true := by simpa [admissible] using hadm
    exact ⟨_, by simp [QP.exec, indexOf], searchPhrase_spec cfg hi hs ws hne hst⟩
  | andN pos negs hne hlen hp hn ihp ihn =>
    simp only [admissible, admissibles_iff] at hadm
    have hap : ∀ t ∈ pos, admissible cfg t = true := fun t ht => hadm t (by simp [ht])
    have han : ∀ t ∈ negs, admissible cfg t = true := by
      intro t ht
      have := hadm (.notN t) (by simp [ht])
      simpa [admissible] using this
    obtain ⟨Lp, hLp⟩ := exists_forall2
      (fun t r => (t.isNot = false ∧ QP.exec (indexOf cfg s.base) t = .ok (some r)) ∧ Holds T r t) pos
      (fun t ht => by
        obtain ⟨r, h1, h2⟩ := ihp t ht (hap t ht)
        exact ⟨r, ⟨QP.wf_positive (hp t ht), h1⟩, h2⟩)
    obtain ⟨Ln, hLn⟩ := exists_forall2
      (fun t r => QP.exec (indexOf cfg s.base) t = .ok (some r) ∧ Holds T r t) negs
      (fun t ht => ihn t ht (han t ht))
    have hexec := execAnd_split (indexOf cfg s.base) pos negs Lp Ln
      (hLp.imp (fun h => h.1)) (hLn.imp (fun h => h.1))
    refine ⟨_, by simp only [QP.exec, hexec]; rfl, ?_⟩
    -- membership
    have hLpne : Lp ≠ [] := by
      intro e; subst e
      cases hLp with
      | nil => exact hne rfl
    have hinter : ∀ d, d ∈ interAll Lp ↔ ∀ t ∈ pos, satDoc T t d = true := by
      intro d
      rw [mem_interAll Lp hLpne]
      constructor
      · intro h t ht
        obtain ⟨r, hr, hP⟩ := forall2_mem_left hLp t ht
        exact (hP.2 d).mp (h r hr)
      · intro h r hr
        obtain ⟨t, ht, hP⟩ := forall2_mem_right hLp r hr
        exact (hP.2 d).mpr (h t ht)
    have hunion : ∀ d, d ∈ unionAll Ln ↔ ∃ t ∈ negs, satDoc T t d = true := by
      intro d
      rw [mem_unionAll]
      constructor
      · rintro ⟨r, hr, hd⟩
        obtain ⟨t, ht, hP⟩ := forall2_mem_right hLn r hr
        exact ⟨t, ht, (hP.2 d).mp hd⟩
      · rintro ⟨t, ht, hd⟩
        obtain ⟨r, hr, hP⟩ := forall2_mem_left hLn t ht
        exact ⟨r, hr, (hP.2 d).mpr hd⟩
    have hsat : ∀ d, satDoc T (.andN (pos ++ negs.map .notN)) d = true ↔
        (∀ t ∈ pos, satDoc T t d = true) ∧ ¬ ∃ t ∈ negs, satDoc T t d = true := by
      intro d
      simp only [satDoc_iff, sat, satAll_iff, List.mem_append, List.mem_map]
      constructor
      · rintro ⟨toks, ht, h⟩
        refine ⟨fun t htp => ⟨toks, ht, h t (Or.inl htp)⟩, ?_⟩
        rintro ⟨t, htn, toks', ht', hs'⟩
        rw [ht] at ht'; cases ht'
        have := h (.notN t) (Or.inr ⟨t, htn, rfl⟩)
        simp [sat, hs'] at this
      · rintro ⟨h1, h2⟩
        obtain ⟨t0, ht0⟩ := List.exists_mem_of_ne_nil pos hne
        obtain ⟨toks, ht, _⟩ := h1 t0 ht0
        refine ⟨toks, ht, ?_⟩
        rintro t (htp | ⟨u, hu, rfl⟩)
        · obtain ⟨toks', ht', hs'⟩ := h1 t htp
          rw [ht] at ht'; cases ht'; exact hs'
        · simp only [sat, Bool.not_eq_true']
          cases hsu : sat u toks with
          | false => rfl
          | true => exact absurd ⟨u, hu, toks, ht, hsu⟩ h2
    intro d
    rw [hsat]
    show d ∈ (if Ln.isEmpty then interAll Lp else LSet.diff (interAll Lp) (unionAll Ln)) ↔ _
    by_cases hemp : Ln.isEmpty = true
    · simp only [hemp, if_true, hinter]
      have : negs = [] := by
        rw [List.isEmpty_iff] at hemp; subst hemp
        cases hLn with
        | nil => rfl
      subst this
      simp
    · simp only [hemp, Bool.false_eq_true, if_false, LSet.mem_diff, hinter, hunion]
  | orN ts hlen h ih =>
    simp only [admissible, admissibles_iff] at hadm
    obtain ⟨L, hL⟩ := exists_forall2
      (fun t r => QP.exec (indexOf cfg s.base) t = .ok (some r) ∧ Holds T r t) ts
      (fun t ht => ih t ht (hadm t ht))
    have hexec := execOr_all (indexOf cfg s.base) ts L (hL.imp (fun h => h.1))
    refine ⟨_, by simp only [QP.exec, hexec]; rfl, ?_⟩
    intro d
    show d ∈ unionAll L ↔ _
    rw [mem_unionAll]
    simp only [satDoc_iff, sat, satAny_iff]
    constructor
    · rintro ⟨r, hr, hd⟩
      obtain ⟨t, ht, hP⟩ := forall2_mem_right hL r hr
      obtain ⟨toks, h1, h2⟩ := (satDoc_iff T t d).mp ((hP.2 d).mp hd)
      exact ⟨toks, h1, t, ht, h2⟩
    · rintro ⟨toks, h1, t, ht, h2⟩
      obtain ⟨r, hr, hP⟩ := forall2_mem_left hL t ht
      exact ⟨r, hr, (hP.2 d).mpr ((satDoc_iff T t d).mpr ⟨toks, h1, h2⟩)⟩

/-! ### `apply`, `_negate` -/

theorem apply_spec (cfg : Cfg) (sp : Nat → Bool) {s : State} {T : Table} (hi : Inv s T)
    (hs : Small s.base.lex) (q : Str) (t : Tree) (ig : List Str)
    (hp : QP.parseQuery (lexOf cfg) sp q = .ok (t, ig)) (hadm : admissible cfg t = true) :
    ∃ r, apply cfg sp s q = .ok (some r) ∧ Holds T r t := by
  have hwf := QP.c14_well_formed (lexOf cfg) sp q t ig hp
  obtain ⟨r, h1, h2⟩ := exec_spec cfg hi hs hwf hadm
  refine ⟨r, ?_, h2⟩
  simp [apply, hp, noLeading_of_adm cfg t hadm, h1]

theorem mem_keys_table {s : State} {T : Table} (hi : Inv s T) (d : Int) :
    d ∈ AMap.keys T ↔ d ∈ docids s := by
  rw [AMap.mem_keys_iff]
  unfold docids indexed
  rw [LSet.mem_union, hi.notIdx d, AMap.mem_keys_iff, hi.docwords d]
  unfold tokensOf
  cases hg : AMap.get T d with
  | none => simp
  | some v => cases v <;> simp

theorem applyNot_spec (cfg : Cfg) (sp : Nat → Bool) {s : State} {T : Table} (hi : Inv s T)
    (hs : Small s.base.lex) (q : Str) (t : Tree) (ig : List Str)
    (hp : QP.parseQuery (lexOf cfg) sp q = .ok (t, ig)) (hadm : admissible cfg t = true) :
    ∃ r, applyNotContains cfg sp s q = .ok r ∧ ∀ d, d ∈ r ↔ d ∈ notContains T t := by
  obtain ⟨pos, h1, h2⟩ := apply_spec cfg sp hi hs q t ig hp hadm
  have hmem : ∀ d, d ∈ notContains T t ↔ d ∈ docids s ∧ d ∉ pos := by
    intro d
    simp only [notContains, List.mem_filter, mem_keys_table hi, h2 d, Bool.not_eq_true',
      Bool.not_eq_true]
  by_cases hemp : pos.isEmpty = true
  · refine ⟨docids s, by simp [applyNotContains, applyContains, h1, hemp], ?_⟩
    intro d
    rw [hmem]
    rw [List.isEmpty_iff] at hemp
    simp [hemp]
  · refine ⟨LSet.diff (docids s) pos, by simp [applyNotContains, applyContains, h1, hemp], ?_⟩
    intro d
    rw [hmem, LSet.mem_diff]

end Hyp.Text
