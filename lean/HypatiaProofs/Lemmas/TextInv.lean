import HypatiaModel.Spec.TextSpec
import HypatiaProofs.Lemmas.LexiconInv
import HypatiaProofs.Lemmas.LexiconGlob
import HypatiaProofs.Properties.C16
/-!
The representation invariant of the text index (postings = document table, `_docwords` = encoded
token ids) and its preservation by `index_doc` (both paths), `unindex_doc`, `reset`.
-/
set_option linter.unusedSimpArgs false
set_option linter.unusedSectionVars false
set_option linter.unusedVariables false
namespace Hyp.Text
open Hyp.QP (Str Tree)
open Hyp.Lex (Cfg getWid)
open Spec

/-! ### postings under `_add_wordinfo` / `_del_wordinfo` -/

theorem posting_add (b : Base) (w : Nat) (d : Int) (w' : Nat) :
    posting (addWordinfo b w d) w' = if w = w' then LSet.insert (posting b w) d else posting b w' := by
  unfold addWordinfo posting
  cases h : AMap.get b.wordinfo w with
  | none =>
    simp only [AMap.get_set]
    by_cases e : w = w'
    · subst e; simp [h, LSet.insert]
    · simp [e]
  | some ds =>
    simp only [AMap.get_set]
    by_cases e : w = w'
    · subst e; simp [h]
    · simp [e]

theorem posting_del (b : Base) (w : Nat) (d : Int) (w' : Nat) :
    posting (delWordinfo b w d) w' = if w = w' then LSet.remove (posting b w) d else posting b w' := by
  unfold delWordinfo posting
  cases h : AMap.get b.wordinfo w with
  | none =>
    by_cases e : w = w'
    · subst e; simp [h, LSet.remove]
    · simp [e]
  | some ds =>
    simp only
    by_cases hemp : (LSet.remove ds d).isEmpty = true
    · simp only [hemp, if_true, AMap.get_erase]
      by_cases e : w = w'
      · subst e
        simp only [if_true, h, Option.getD_some, Option.getD_none]
        exact (List.isEmpty_iff.mp hemp).symm
      · simp [e]
    · simp only [hemp, Bool.false_eq_true, if_false, AMap.get_set]
      by_cases e : w = w'
      · subst e; simp [h]
      · simp [e]

/-- what the two updates leave alone -/
theorem add_frame (b : Base) (w : Nat) (d : Int) :
    (addWordinfo b w d).lex = b.lex ∧ (addWordinfo b w d).docwords = b.docwords ∧
    (addWordinfo b w d).indexedCount = b.indexedCount ∧ (addWordinfo b w d).totalDocLen = b.totalDocLen := by
  unfold addWordinfo; cases AMap.get b.wordinfo w <;> simp

theorem del_frame (b : Base) (w : Nat) (d : Int) :
    (delWordinfo b w d).lex = b.lex ∧ (delWordinfo b w d).docwords = b.docwords ∧
    (delWordinfo b w d).indexedCount = b.indexedCount ∧ (delWordinfo b w d).totalDocLen = b.totalDocLen := by
  unfold delWordinfo
  cases AMap.get b.wordinfo w with
  | none => simp
  | some ds => simp only; split <;> simp

/-- well-formedness of `_wordinfo`: unique keys, no empty posting, no duplicate docid,
`word_count` = number of postings -/
structure WI (b : Base) : Prop where
  wf : AMap.WF b.wordinfo
  nonempty : ∀ w ds, AMap.get b.wordinfo w = some ds → ds ≠ []
  nodup : ∀ w ds, AMap.get b.wordinfo w = some ds → ds.Nodup
  count : b.wordCount = b.wordinfo.length

theorem length_set_of_some {K V : Type} [DecidableEq K] {m : AMap K V} (hwf : AMap.WF m) {k : K}
    {v v' : V} (h : AMap.get m k = some v) : (AMap.set m k v').length = m.length := by
  unfold AMap.set
  have := AMap.length_erase_of_get hwf h
  simp; omega

theorem wi_add {b : Base} (h : WI b) (w : Nat) (d : Int) : WI (addWordinfo b w d) := by
  unfold addWordinfo
  cases hg : AMap.get b.wordinfo w with
  | none =>
    refine ⟨AMap.WF_set h.wf _ _, ?_, ?_, ?_⟩
    · intro w' ds hd
      simp only [AMap.get_set] at hd
      split at hd
      · cases hd; simp
      · exact h.nonempty w' ds hd
    · intro w' ds hd
      simp only [AMap.get_set] at hd
      split at hd
      · cases hd; simp
      · exact h.nodup w' ds hd
    · show b.wordCount + 1 = ((AMap.set b.wordinfo w [d]).length : Int)
      rw [Lex.length_set_of_none hg, h.count]; simp
  | some ds =>
    refine ⟨AMap.WF_set h.wf _ _, ?_, ?_, ?_⟩
    · intro w' ds' hd
      simp only [AMap.get_set] at hd
      split at hd
      · cases hd
        intro e
        have : d ∈ LSet.insert ds d := (LSet.mem_insert ds d d).mpr (Or.inl rfl)
        rw [e] at this; simp at this
      · exact h.nonempty w' ds' hd
    · intro w' ds' hd
      simp only [AMap.get_set] at hd
      split at hd
      · cases hd; exact LSet.nodup_insert (h.nodup w ds hg) d
      · exact h.nodup w' ds' hd
    · show b.wordCount = ((AMap.set b.wordinfo w (LSet.insert ds d)).length : Int)
      rw [length_set_of_some h.wf hg, h.count]

theorem wi_del {b : Base} (h : WI b) (w : Nat) (d : Int) : WI (delWordinfo b w d) := by
  unfold delWordinfo
  cases hg : AMap.get b.wordinfo w with
  | none => exact h
  | some ds =>
    simp only
    by_cases hemp : (LSet.remove ds d).isEmpty = true
    · simp only [hemp, if_true]
      refine ⟨AMap.WF_erase h.wf _, ?_, ?_, ?_⟩
      · intro w' ds' hd
        simp only [AMap.get_erase] at hd
        split at hd
        · cases hd
        · exact h.nonempty w' ds' hd
      · intro w' ds' hd
        simp only [AMap.get_erase] at hd
        split at hd
        · cases hd
        · exact h.nodup w' ds' hd
      · show b.wordCount - 1 = ((AMap.erase b.wordinfo w).length : Int)
        have := AMap.length_erase_of_get h.wf hg
        rw [h.count]; omega
    · simp only [hemp, Bool.false_eq_true, if_false]
      refine ⟨AMap.WF_set h.wf _ _, ?_, ?_, ?_⟩
      · intro w' ds' hd
        simp only [AMap.get_set] at hd
        split at hd
        · cases hd
          intro e; rw [e] at hemp; simp at hemp
        · exact h.nonempty w' ds' hd
      · intro w' ds' hd
        simp only [AMap.get_set] at hd
        split at hd
        · cases hd; exact LSet.nodup_remove (h.nodup w ds hg) d
        · exact h.nodup w' ds' hd
      · show b.wordCount = ((AMap.set b.wordinfo w (LSet.remove ds d)).length : Int)
        rw [length_set_of_some h.wf hg, h.count]

/-! ### the two loops -/

def addAll (b : Base) (ws : List Nat) (d : Int) : Base := ws.foldl (fun b w => addWordinfo b w d) b
def delAll (b : Base) (ws : List Nat) (d : Int) : Base := ws.foldl (fun b w => delWordinfo b w d) b

theorem addAll_frame (b : Base) (ws : List Nat) (d : Int) :
    (addAll b ws d).lex = b.lex ∧ (addAll b ws d).docwords = b.docwords ∧
    (addAll b ws d).indexedCount = b.indexedCount ∧ (addAll b ws d).totalDocLen = b.totalDocLen := by
  unfold addAll
  induction ws generalizing b with
  | nil => simp
  | cons w ws ih =>
    simp only [List.foldl_cons]
    obtain ⟨a1, a2, a3, a4⟩ := add_frame b w d
    obtain ⟨b1, b2, b3, b4⟩ := ih (addWordinfo b w d)
    exact ⟨b1.trans a1, b2.trans a2, b3.trans a3, b4.trans a4⟩

theorem delAll_frame (b : Base) (ws : List Nat) (d : Int) :
    (delAll b ws d).lex = b.lex ∧ (delAll b ws d).docwords = b.docwords ∧
    (delAll b ws d).indexedCount = b.indexedCount ∧ (delAll b ws d).totalDocLen = b.totalDocLen := by
  unfold delAll
  induction ws generalizing b with
  | nil => simp
  | cons w ws ih =>
    simp only [List.foldl_cons]
    obtain ⟨a1, a2, a3, a4⟩ := del_frame b w d
    obtain ⟨b1, b2, b3, b4⟩ := ih (delWordinfo b w d)
    exact ⟨b1.trans a1, b2.trans a2, b3.trans a3, b4.trans a4⟩

theorem wi_addAll {b : Base} (h : WI b) (ws : List Nat) (d : Int) : WI (addAll b ws d) := by
  unfold addAll
  induction ws generalizing b with
  | nil => exact h
  | cons w ws ih => exact ih (wi_add h w d)

theorem wi_delAll {b : Base} (h : WI b) (ws : List Nat) (d : Int) : WI (delAll b ws d) := by
  unfold delAll
  induction ws generalizing b with
  | nil => exact h
  | cons w ws ih => exact ih (wi_del h w d)

theorem mem_posting_addAll (b : Base) (ws : List Nat) (d : Int) (w : Nat) (x : Int) :
    x ∈ posting (addAll b ws d) w ↔ x ∈ posting b w ∨ (x = d ∧ w ∈ ws) := by
  unfold addAll
  induction ws generalizing b with
  | nil => simp
  | cons v ws ih =>
    simp only [List.foldl_cons, ih, posting_add, List.mem_cons]
    by_cases e : v = w
    · subst e
      simp only [if_true, LSet.mem_insert]
      constructor
      · rintro ((h | h) | ⟨h1, h2⟩)
        · exact Or.inr ⟨h, Or.inl trivial⟩
        · exact Or.inl h
        · exact Or.inr ⟨h1, Or.inr h2⟩
      · rintro (h | ⟨h1, h2 | h2⟩)
        · exact Or.inl (Or.inr h)
        · exact Or.inl (Or.inl h1)
        · exact Or.inr ⟨h1, h2⟩
    · simp only [e, if_false]
      constructor
      · rintro (h | ⟨h1, h2⟩)
        · exact Or.inl h
        · exact Or.inr ⟨h1, Or.inr h2⟩
      · rintro (h | ⟨h1, h2 | h2⟩)
        · exact Or.inl h
        · exact absurd h2.symm e
        · exact Or.inr ⟨h1, h2⟩

theorem mem_posting_delAll (b : Base) (ws : List Nat) (d : Int) (w : Nat) (x : Int) :
    x ∈ posting (delAll b ws d) w ↔ x ∈ posting b w ∧ ¬ (x = d ∧ w ∈ ws) := by
  unfold delAll
  induction ws generalizing b with
  | nil => simp
  | cons v ws ih =>
    simp only [List.foldl_cons, ih, posting_del, List.mem_cons]
    by_cases e : v = w
    · subst e
      simp only [if_true, LSet.mem_remove]
      constructor
      · rintro ⟨⟨h1, h2⟩, h3⟩
        exact ⟨h2, fun ⟨a, _⟩ => h1 a⟩
      · rintro ⟨h1, h2⟩
        exact ⟨⟨fun a => h2 ⟨a, Or.inl trivial⟩, h1⟩, fun ⟨a, c⟩ => h2 ⟨a, Or.inr c⟩⟩
    · simp only [e, if_false]
      constructor
      · rintro ⟨h1, h2⟩
        refine ⟨h1, ?_⟩
        rintro ⟨a, c | c⟩
        · exact e c.symm
        · exact h2 ⟨a, c⟩
      · rintro ⟨h1, h2⟩
        exact ⟨h1, fun ⟨a, c⟩ => h2 ⟨a, Or.inr c⟩⟩

theorem mem_distinct (l : List Nat) (x : Nat) : x ∈ distinct l ↔ x ∈ l := by
  have := LSet.mem_union ([] : List Nat) l x
  simpa [distinct, LSet.union] using this

/-! ### the invariant -/

/-- the word ids of a token list -/
def idsOf (L : Lex.State) (toks : List Str) : List Nat := toks.map (getWid L)

structure Inv (s : State) (T : Table) : Prop where
  lex : Lex.Inv s.base.lex
  wi : WI s.base
  wfT : AMap.WF T
  wfD : AMap.WF s.base.docwords
  /-- `_docwords[d]` is the encoded id list of the document's tokens -/
  docwords : ∀ d, AMap.get s.base.docwords d =
    (tokensOf T d).map (fun toks => Widcode.encode (idsOf s.base.lex toks))
  /-- every token of every indexed document is in the lexicon -/
  known : ∀ d toks, tokensOf T d = some toks → ∀ w ∈ toks, (AMap.get s.base.lex.wids w).isSome
  /-- the posting of a word id holds exactly the documents that contain a token with that id -/
  postings : ∀ w d, d ∈ posting s.base w ↔ ∃ toks, tokensOf T d = some toks ∧ w ∈ idsOf s.base.lex toks
  notIdx : ∀ d, d ∈ s.notIndexed ↔ AMap.get T d = some none
  notIdxNodup : s.notIndexed.Nodup
  icount : s.base.indexedCount = s.base.docwords.length

theorem inv_init : Inv {} [] := by
  refine ⟨Lex.inv_init, ⟨AMap.WF_nil, ?_, ?_, rfl⟩, AMap.WF_nil, AMap.WF_nil, ?_, ?_, ?_, ?_, List.nodup_nil, rfl⟩
  · intro w ds h; simp at h
  · intro w ds h; simp at h
  · intro d; simp [tokensOf]
  · intro d toks h; simp [tokensOf] at h
  · intro w d; simp [posting, tokensOf]
  · intro d; simp

/-- the vocabulary limit of the id encoding: 28 bits -/
def Small (L : Lex.State) : Prop := L.count < 0x10000000

theorem getWid_le {L : Lex.State} (hi : Lex.Inv L) (w : Str) : getWid L w ≤ L.count := by
  unfold getWid
  cases h : AMap.get L.wids w with
  | none => simp
  | some i => simpa using (Lex.inv_pos hi h).2

theorem valid_idsOf {L : Lex.State} (hi : Lex.Inv L) (hs : Small L) (toks : List Str) :
    Widcode.Valid (idsOf L toks) := by
  intro w hw
  obtain ⟨t, _, rfl⟩ := List.mem_map.mp hw
  have := getWid_le hi t
  unfold Small at hs; omega

theorem tokensOf_set (T : Table) (d : Int) (v : Option (List Str)) (d' : Int) :
    tokensOf (AMap.set T d v) d' = if d = d' then v else tokensOf T d' := by
  unfold tokensOf
  rw [AMap.get_set]
  by_cases e : d = d'
  · subst e; cases v <;> simp
  · simp [e]

theorem tokensOf_erase (T : Table) (d d' : Int) :
    tokensOf (AMap.erase T d) d' = if d = d' then none else tokensOf T d' := by
  unfold tokensOf
  rw [AMap.get_erase]
  by_cases e : d = d' <;> simp [e]

/-- ids of known words do not change when the lexicon grows -/
theorem idsOf_stable {L L' : Lex.State} (toks : List Str)
    (hk : ∀ w ∈ toks, (AMap.get L.wids w).isSome)
    (hkeep : ∀ w i, AMap.get L.wids w = some i → AMap.get L'.wids w = some i) :
    idsOf L' toks = idsOf L toks := by
  unfold idsOf
  apply List.map_congr_left
  intro w hw
  have := hk w hw
  cases h : AMap.get L.wids w with
  | none => rw [h] at this; cases this
  | some i => simp [getWid, h, hkeep w i h]

/-! ### `unindex_doc` -/

theorem getWords_of_inv {s : State} {T : Table} (hi : Inv s T) (hs : Small s.base.lex) (d : Int) :
    getWords s.base d = (tokensOf T d).map (idsOf s.base.lex) := by
  unfold getWords
  rw [hi.docwords d]
  cases tokensOf T d with
  | none => rfl
  | some toks =>
    simp only [Option.map_some]
    rw [Widcode.c16_round_trip _ (valid_idsOf hi.lex hs toks)]

/-- what `unindex_doc` does to the base index -/
theorem unindexDoc_spec {s : State} {T : Table} (hi : Inv s T) (hs : Small s.base.lex) (okapi : Bool)
    (d : Int) :
    let b' := unindexDoc okapi s.base d
    b'.lex = s.base.lex ∧ WI b' ∧ b'.docwords = AMap.erase s.base.docwords d ∧
    (∀ w x, x ∈ posting b' w ↔ x ∈ posting s.base w ∧ x ≠ d) ∧
    b'.indexedCount = b'.docwords.length ∧
    b'.totalDocLen = (if okapi then s.base.totalDocLen - (((tokensOf T d).map List.length).getD 0 : Nat)
      else s.base.totalDocLen) := by
  intro b'
  have hgw := getWords_of_inv hi hs d
  cases ht : tokensOf T d with
  | none =>
    rw [ht] at hgw
    have hb : b' = s.base := by simp [b', unindexDoc, hgw]
    have hdn : AMap.get s.base.docwords d = none := by rw [hi.docwords d, ht]; rfl
    rw [hb]
    refine ⟨rfl, hi.wi, (AMap.erase_of_get_none hdn).symm, ?_, hi.icount, by simp [ht]⟩
    intro w x
    constructor
    · intro hx
      refine ⟨hx, ?_⟩
      rintro rfl
      obtain ⟨toks, h1, _⟩ := (hi.postings w x).mp hx
      rw [ht] at h1; cases h1
    · exact fun h => h.1
  | some toks =>
    rw [ht] at hgw
    simp only [Option.map_some] at hgw
    have hdw : AMap.get s.base.docwords d = some (Widcode.encode (idsOf s.base.lex toks)) := by
      rw [hi.docwords d, ht]; rfl
    let b1 : Base := { s.base with totalDocLen :=
      if okapi then s.base.totalDocLen - (idsOf s.base.lex toks).length else s.base.totalDocLen }
    have hb : b' = { delAll b1 (distinct (idsOf s.base.lex toks)) d with
        docwords := AMap.erase (delAll b1 (distinct (idsOf s.base.lex toks)) d).docwords d,
        indexedCount := (delAll b1 (distinct (idsOf s.base.lex toks)) d).indexedCount - 1 } := by
      simp [b', unindexDoc, hgw, delAll, b1]
    obtain ⟨f1, f2, f3, f4⟩ := delAll_frame b1 (distinct (idsOf s.base.lex toks)) d
    have hwi1 : WI b1 := ⟨hi.wi.wf, hi.wi.nonempty, hi.wi.nodup, hi.wi.count⟩
    have hwi := wi_delAll hwi1 (distinct (idsOf s.base.lex toks)) d
    rw [hb]
    refine ⟨f1, ⟨hwi.wf, hwi.nonempty, hwi.nodup, hwi.count⟩, by simp [f2, b1], ?_, ?_, ?_⟩
    · intro w x
      show x ∈ posting (delAll b1 _ d) w ↔ _
      rw [mem_posting_delAll]
      have hp : posting b1 w = posting s.base w := rfl
      rw [hp, mem_distinct]
      constructor
      · rintro ⟨h1, h2⟩
        refine ⟨h1, ?_⟩
        rintro rfl
        obtain ⟨toks', e1, e2⟩ := (hi.postings w x).mp h1
        rw [ht] at e1; cases e1
        exact h2 ⟨rfl, e2⟩
      · rintro ⟨h1, h2⟩
        exact ⟨h1, fun ⟨a, _⟩ => h2 a⟩
    · show (delAll b1 _ d).indexedCount - 1 = ((AMap.erase (delAll b1 _ d).docwords d).length : Int)
      rw [f3, f2]
      have := AMap.length_erase_of_get hi.wfD hdw
      have h2 := hi.icount
      show s.base.indexedCount - 1 = _
      rw [h2]; simp only [b1]; omega
    · show (delAll b1 _ d).totalDocLen = _
      rw [f4]
      simp [b1, ht, idsOf]

/-- the `_del_wordinfo` calls of `unindex_doc`/`reindex_doc` never raise `KeyError` -/
theorem updateDefined_of_inv {s : State} {T : Table} (hi : Inv s T) (hs : Small s.base.lex) (d : Int) :
    updateDefined s.base d = true := by
  unfold updateDefined
  rw [getWords_of_inv hi hs d]
  cases ht : tokensOf T d with
  | none => rfl
  | some toks =>
    simp only [Option.map_some, List.all_eq_true, mem_distinct]
    intro w hw
    have hp : d ∈ posting s.base w := (hi.postings w d).mpr ⟨toks, ht, hw⟩
    unfold posting at hp
    unfold delDefined
    cases hg : AMap.get s.base.wordinfo w with
    | none => rw [hg] at hp; simp at hp
    | some ds => rw [hg] at hp; simpa using hp

end Hyp.Text
