import HypatiaProofs.Lemmas.TextExec
/-!
Bookkeeping of the text index (C06): every enumeration / statistics answer is a function of the
document table; Okapi's total document length is the sum of the token counts.
-/
set_option linter.unusedSimpArgs false
set_option linter.unusedSectionVars false
set_option linter.unusedVariables false
namespace Hyp.Text
open Hyp.QP (Str Tree)
open Hyp.Lex (Cfg getWid)
open Spec

/-! ### Okapi's `_totaldoclen` -/

def tokLen (v : Option (Option (List Str))) : Nat :=
  match v with
  | some (some toks) => toks.length
  | _ => 0

theorem sumLens_erase (T : Table) (hwf : AMap.WF T) (d : Int) :
    sumLens (AMap.erase T d) + tokLen (AMap.get T d) = sumLens T := by
  induction T with
  | nil => simp [AMap.erase, sumLens, tokLen]
  | cons p T ih =>
    obtain ⟨k, v⟩ := p
    unfold AMap.WF AMap.keys at hwf
    simp only [List.map_cons, List.nodup_cons] at hwf
    have ih' := ih hwf.2
    rw [AMap.get_cons]
    by_cases e : k = d
    · subst e
      have hn : AMap.get T k = none := (AMap.not_mem_keys_iff T k).mp hwf.1
      have he : AMap.erase ((k, v) :: T) k = T := by
        have := AMap.erase_of_get_none hn
        unfold AMap.erase at this ⊢
        simp [List.filter, this]
      rw [he]
      simp only [if_true, sumLens]
      cases v with
      | none => simp [tokLen]
      | some o => cases o <;> simp [tokLen] <;> omega
    · have he : AMap.erase ((k, v) :: T) d = (k, v) :: AMap.erase T d := by
        unfold AMap.erase; simp [List.filter, e]
      rw [he]
      simp only [e, if_false, sumLens]
      omega

theorem sumLens_set (T : Table) (hwf : AMap.WF T) (d : Int) (v : Option (List Str)) :
    sumLens (AMap.set T d v) + tokLen (AMap.get T d) = sumLens T + (v.map List.length).getD 0 := by
  unfold AMap.set
  simp only [sumLens]
  have := sumLens_erase T hwf d
  omega

theorem tokLen_eq (T : Table) (d : Int) :
    tokLen (AMap.get T d) = ((tokensOf T d).map List.length).getD 0 := by
  unfold tokLen tokensOf
  cases AMap.get T d with
  | none => rfl
  | some v => cases v <;> rfl

/-- `_totaldoclen` (Okapi) is the total number of tokens of the indexed documents -/
def TDL (okapi : Bool) (s : State) (T : Table) : Prop :=
  okapi = true → s.base.totalDocLen = (sumLens T : Int)

theorem tdl_step (cfg : Cfg) (okapi : Bool) {s : State} {T : Table} (hi : Inv s T)
    (hs : Small s.base.lex) (ht : TDL okapi s T) (op : Op) :
    TDL okapi (step cfg okapi s op) (stepT cfg T op) := by
  intro hok
  have h0 := ht hok
  cases op with
  | index d text =>
    cases text with
    | none =>
      have h6 := (unindexDoc_spec hi hs okapi d).2.2.2.2.2
      show (unindexDoc okapi s.base d).totalDocLen = _
      rw [h6, hok]
      simp only [if_true, stepT]
      have := sumLens_set T hi.wfT d none
      rw [tokLen_eq] at this
      simp at this
      omega
    | some text =>
      have h6 := (indexDoc_spec cfg hi hs okapi d text).2.2.2.2.2
      show (indexDoc cfg okapi s.base d text).totalDocLen = _
      rw [h6, hok]
      simp only [if_true, stepT]
      have := sumLens_set T hi.wfT d (some (Lex.runPipeline cfg.tables cfg.pipeline text))
      rw [tokLen_eq] at this
      simp at this
      have hle : ((tokensOf T d).map List.length).getD 0 ≤ sumLens T := by
        have := sumLens_erase T hi.wfT d
        rw [tokLen_eq] at this
        omega
      omega
  | unindex d =>
    have h6 := (unindexDoc_spec hi hs okapi d).2.2.2.2.2
    show (unindexDoc okapi s.base d).totalDocLen = _
    rw [h6, hok]
    simp only [if_true, stepT]
    have := sumLens_erase T hi.wfT d
    rw [tokLen_eq] at this
    omega
  | reset => simp [step, resetBase, stepT, sumLens]

theorem inv_tdl_foldl (cfg : Cfg) (okapi : Bool) (h : List Op) {s : State} {T : Table} (hi : Inv s T)
    (ht : TDL okapi s T) (hs : Small (h.foldl (step cfg okapi) s).base.lex) :
    TDL okapi (h.foldl (step cfg okapi) s) (h.foldl (stepT cfg) T) := by
  induction h generalizing s T with
  | nil => exact ht
  | cons op h ih =>
    simp only [List.foldl_cons] at hs ⊢
    have hs1 : Small (step cfg okapi s op).base.lex := by
      have := foldl_count_mono cfg okapi h (step_lexInv cfg okapi hi.lex op)
      unfold Small at hs ⊢; omega
    have hs0 : Small s.base.lex := by
      have := step_count_mono cfg okapi hi.lex op
      unfold Small at hs1 ⊢; omega
    exact ih (inv_step cfg okapi hi op hs1) (tdl_step cfg okapi hi hs0 ht op) hs

theorem tdl_run (cfg : Cfg) (okapi : Bool) (h : List Op) (hs : Small (run cfg okapi h).base.lex) :
    TDL okapi (run cfg okapi h) (table cfg h) :=
  inv_tdl_foldl cfg okapi h inv_init (by intro _; simp [sumLens]) hs

/-! ### what the enumeration / statistics API reports -/

theorem mem_wordsInUse (T : Table) (w : Str) :
    w ∈ wordsInUse T ↔ ∃ d toks, tokensOf T d = some toks ∧ w ∈ toks := by
  unfold wordsInUse
  rw [LSet.mem_union]
  simp only [List.not_mem_nil, false_or, List.mem_flatMap]
  constructor
  · rintro ⟨d, _, hw⟩
    cases ht : tokensOf T d with
    | none => rw [ht] at hw; simp at hw
    | some toks => rw [ht] at hw; exact ⟨d, toks, ht, by simpa using hw⟩
  · rintro ⟨d, toks, ht, hw⟩
    refine ⟨d, ?_, by rw [ht]; simpa using hw⟩
    rw [AMap.mem_keys_iff]
    unfold tokensOf at ht
    cases hg : AMap.get T d with
    | none => rw [hg] at ht; cases ht
    | some v => rfl

theorem nodup_map_on {α β : Type} (f : α → β) (l : List α) (hl : l.Nodup)
    (hinj : ∀ a ∈ l, ∀ b ∈ l, f a = f b → a = b) : (l.map f).Nodup := by
  induction l with
  | nil => simp
  | cons x l ih =>
    simp only [List.nodup_cons] at hl
    simp only [List.map_cons, List.nodup_cons, List.mem_map, not_exists, not_and]
    refine ⟨?_, ih hl.2 (fun a ha b hb => hinj a (List.mem_cons_of_mem _ ha) b (List.mem_cons_of_mem _ hb))⟩
    intro y hy e
    have := hinj y (List.mem_cons_of_mem _ hy) x (by simp) e
    subst this
    exact hl.1 hy

theorem wordsInUse_nodup (T : Table) : (wordsInUse T).Nodup :=
  LSet.nodup_union List.nodup_nil _

structure ObsSpec (s : State) (T : Table) : Prop where
  indexed_mem : ∀ d, d ∈ indexed s ↔ (tokensOf T d).isSome
  indexed_nodup : (indexed s).Nodup
  not_indexed_mem : ∀ d, d ∈ s.notIndexed ↔ AMap.get T d = some none
  not_indexed_nodup : s.notIndexed.Nodup
  disjoint : ∀ d, ¬ (d ∈ indexed s ∧ d ∈ s.notIndexed)
  docids_mem : ∀ d, d ∈ docids s ↔ d ∈ indexed s ∨ d ∈ s.notIndexed
  docids_known : ∀ d, d ∈ docids s ↔ (AMap.get T d).isSome
  docids_nodup : (docids s).Nodup
  indexed_count : indexedCount s = (indexed s).length
  word_count : wordCount s = (wordsInUse T).length
  document_repr : ∀ d, documentRepr s d = tokensOf T d

theorem mapM_getWord {L : Lex.State} (hi : Lex.Inv L) (toks : List Str)
    (hk : ∀ w ∈ toks, (AMap.get L.wids w).isSome) :
    (idsOf L toks).mapM (Lex.getWord L) = some toks := by
  induction toks with
  | nil => rfl
  | cons w toks ih =>
    have hw := hk w (by simp)
    cases hg : AMap.get L.wids w with
    | none => rw [hg] at hw; cases hw
    | some i =>
      have h1 : Lex.getWord L (getWid L w) = some w := by
        rw [Lex.getWid_of_get hg]; exact (hi.inverse w i).mp hg
      simp only [idsOf, List.map_cons, List.mapM_cons, h1]
      have := ih (fun x hx => hk x (List.mem_cons_of_mem _ hx))
      unfold idsOf at this
      simp [this]

theorem obsSpec_of_inv {s : State} {T : Table} (hi : Inv s T) (hs : Small s.base.lex) : ObsSpec s T := by
  have hidx : ∀ d, d ∈ indexed s ↔ (tokensOf T d).isSome := by
    intro d
    unfold indexed
    rw [AMap.mem_keys_iff, hi.docwords d]
    cases tokensOf T d <;> simp
  have hdis : ∀ d, ¬ (d ∈ indexed s ∧ d ∈ s.notIndexed) := by
    rintro d ⟨h1, h2⟩
    rw [hidx] at h1
    rw [hi.notIdx] at h2
    unfold tokensOf at h1
    rw [h2] at h1; cases h1
  have hdoc : ∀ d, d ∈ docids s ↔ d ∈ indexed s ∨ d ∈ s.notIndexed := by
    intro d; unfold docids; rw [LSet.mem_union]; exact Or.comm
  refine ⟨hidx, hi.wfD, hi.notIdx, hi.notIdxNodup, hdis, hdoc, ?_, LSet.nodup_union hi.notIdxNodup _,
    hi.icount.trans (by simp [indexed, AMap.length_keys]), ?_, ?_⟩
  · intro d; rw [← mem_keys_table hi d, AMap.mem_keys_iff]
  · -- word_count = number of distinct words in use
    show s.base.wordCount = _
    rw [hi.wi.count]
    have hperm : (AMap.keys s.base.wordinfo).Perm ((wordsInUse T).map (getWid s.base.lex)) := by
      have hnd : ((wordsInUse T).map (getWid s.base.lex)).Nodup := by
        apply nodup_map_on _ _ (wordsInUse_nodup T)
        intro a ha b hb e
        obtain ⟨d, toks, ht, hw⟩ := (mem_wordsInUse T a).mp ha
        exact getWid_inj hi.lex (hi.known d toks ht a hw) e
      apply (List.perm_ext_iff_of_nodup hi.wi.wf hnd).mpr
      intro i
      rw [AMap.mem_keys_iff, List.mem_map]
      constructor
      · intro hsome
        cases hg : AMap.get s.base.wordinfo i with
        | none => rw [hg] at hsome; cases hsome
        | some ds =>
          have hne := hi.wi.nonempty i ds hg
          obtain ⟨x, hx⟩ := List.exists_mem_of_ne_nil ds hne
          have hp : x ∈ posting s.base i := by simp [posting, hg, hx]
          obtain ⟨toks, ht, hw⟩ := (hi.postings i x).mp hp
          obtain ⟨w, hw', e⟩ := List.mem_map.mp hw
          exact ⟨w, (mem_wordsInUse T w).mpr ⟨x, toks, ht, hw'⟩, e⟩
      · rintro ⟨w, hw, rfl⟩
        obtain ⟨d, toks, ht, hw'⟩ := (mem_wordsInUse T w).mp hw
        have hp := (mem_posting_word hi w d).mpr ⟨toks, ht, hw'⟩
        have := contains_of_mem_posting hp
        simpa [AMap.contains] using this
    have := hperm.length_eq
    rw [AMap.length_keys, List.length_map] at this
    rw [this]
  · intro d
    unfold documentRepr
    rw [getWords_of_inv hi hs d]
    cases ht : tokensOf T d with
    | none => rfl
    | some toks =>
      simp only [Option.map_some]
      exact mapM_getWord hi.lex toks (hi.known d toks ht)

/-- two index states cannot be told apart through `indexed`, `not_indexed`, `docids`, the counts,
`word_count` and `document_repr` (word ids are not observable there) -/
structure ObsEq (s s' : State) : Prop where
  indexed : ∀ d, d ∈ indexed s ↔ d ∈ indexed s'
  not_indexed : ∀ d, d ∈ s.notIndexed ↔ d ∈ s'.notIndexed
  docids : ∀ d, d ∈ docids s ↔ d ∈ docids s'
  indexed_count : indexedCount s = indexedCount s'
  not_indexed_count : notIndexedCount s = notIndexedCount s'
  docids_count : docidsCount s = docidsCount s'
  word_count : wordCount s = wordCount s'
  document_repr : ∀ d, documentRepr s d = documentRepr s' d

theorem length_eq_of_mem_iff {α : Type} [DecidableEq α] {a b : List α} (ha : a.Nodup) (hb : b.Nodup)
    (h : ∀ x, x ∈ a ↔ x ∈ b) : a.length = b.length :=
  ((List.perm_ext_iff_of_nodup ha hb).mpr h).length_eq

theorem obsEq_of_spec {s s' : State} {T T' : Table} (o : ObsSpec s T) (o' : ObsSpec s' T')
    (hsame : ∀ d, AMap.get T d = AMap.get T' d) : ObsEq s s' := by
  have htok : ∀ d, tokensOf T d = tokensOf T' d := by intro d; unfold tokensOf; rw [hsame d]
  have h1 : ∀ d, d ∈ indexed s ↔ d ∈ indexed s' := by
    intro d; rw [o.indexed_mem, o'.indexed_mem, htok]
  have h2 : ∀ d, d ∈ s.notIndexed ↔ d ∈ s'.notIndexed := by
    intro d; rw [o.not_indexed_mem, o'.not_indexed_mem, hsame]
  have h3 : ∀ d, d ∈ docids s ↔ d ∈ docids s' := by
    intro d; rw [o.docids_known, o'.docids_known, hsame]
  refine ⟨h1, h2, h3, ?_, ?_, ?_, ?_, ?_⟩
  · rw [o.indexed_count, o'.indexed_count, length_eq_of_mem_iff o.indexed_nodup o'.indexed_nodup h1]
  · exact length_eq_of_mem_iff o.not_indexed_nodup o'.not_indexed_nodup h2
  · exact length_eq_of_mem_iff o.docids_nodup o'.docids_nodup h3
  · rw [o.word_count, o'.word_count]
    congr 1
    apply length_eq_of_mem_iff (wordsInUse_nodup T) (wordsInUse_nodup T')
    intro w
    rw [mem_wordsInUse, mem_wordsInUse]
    simp only [htok]
  · intro d; rw [o.document_repr, o'.document_repr, htok]

/-! ### the current mapping and fresh indexes -/

theorem stepX_wf {X : Texts} (h : AMap.WF X) (op : Op) : AMap.WF (stepX X op) := by
  cases op with
  | index d v => exact AMap.WF_set h _ _
  | unindex d => exact AMap.WF_erase h _
  | reset => exact AMap.WF_nil

theorem texts_wf (h : List Op) : AMap.WF (texts h) := by
  unfold texts
  have : ∀ (X : Texts), AMap.WF X → AMap.WF (h.foldl stepX X) := by
    induction h with
    | nil => intro X hX; exact hX
    | cons op h ih => intro X hX; exact ih _ (stepX_wf hX op)
  exact this [] AMap.WF_nil

/-- the token table is the text mapping, tokenised -/
theorem table_of_texts (cfg : Cfg) (h : List Op) (d : Int) :
    AMap.get (table cfg h) d =
      (AMap.get (texts h) d).map (fun v => v.map (Lex.runPipeline cfg.tables cfg.pipeline)) := by
  unfold table texts
  have : ∀ (T : Table) (X : Texts),
      (∀ d, AMap.get T d = (AMap.get X d).map (fun v => v.map (Lex.runPipeline cfg.tables cfg.pipeline))) →
      ∀ d, AMap.get (h.foldl (stepT cfg) T) d =
        (AMap.get (h.foldl stepX X) d).map (fun v => v.map (Lex.runPipeline cfg.tables cfg.pipeline)) := by
    induction h with
    | nil => intro T X hR; exact hR
    | cons op h ih =>
      intro T X hR
      apply ih
      intro d'
      cases op with
      | index k v =>
        cases v with
        | none =>
          simp only [stepT, stepX, AMap.get_set]
          by_cases e : k = d' <;> simp [e, hR d']
        | some text =>
          simp only [stepT, stepX, AMap.get_set]
          by_cases e : k = d' <;> simp [e, hR d']
      | unindex k =>
        simp only [stepT, stepX, AMap.get_erase]
        by_cases e : k = d' <;> simp [e, hR d']
      | reset => simp [stepT, stepX]
  exact this [] [] (by intro d; simp) d

theorem get_foldl_freshOps (X acc : Texts) (d : Int) (hwf : AMap.WF X)
    (hdis : ∀ k, k ∈ AMap.keys X → AMap.get acc k = none) :
    AMap.get ((freshOps X).foldl stepX acc) d =
      match AMap.get X d with
      | some x => some x
      | none => AMap.get acc d := by
  induction X generalizing acc with
  | nil => simp [freshOps]
  | cons p ps ih =>
    obtain ⟨k, x⟩ := p
    unfold AMap.WF AMap.keys at hwf
    simp only [List.map_cons, List.nodup_cons] at hwf
    simp only [freshOps, List.map_cons, List.foldl_cons, stepX]
    have := ih (AMap.set acc k x) hwf.2 (by
      intro k' hk'
      rw [AMap.get_set]
      have : k ≠ k' := by intro e; subst e; exact hwf.1 hk'
      simp only [this, if_false]
      exact hdis k' (by simp [AMap.keys]; exact Or.inr (by simpa [AMap.keys] using hk')))
    unfold freshOps at this
    rw [this, AMap.get_cons]
    by_cases e : k = d
    · subst e
      have : AMap.get ps k = none := (AMap.not_mem_keys_iff ps k).mp hwf.1
      simp [this, AMap.get_set]
    · simp only [e, if_false]
      cases AMap.get ps d with
      | some y => rfl
      | none => simp [AMap.get_set, e]

theorem texts_freshOps (X : Texts) (hwf : AMap.WF X) (d : Int) :
    AMap.get (texts (freshOps X)) d = AMap.get X d := by
  unfold texts
  rw [get_foldl_freshOps X [] d hwf (by simp)]
  cases AMap.get X d <;> simp

end Hyp.Text
