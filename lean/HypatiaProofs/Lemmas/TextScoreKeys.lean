import HypatiaProofs.Lemmas.ExecRel
import HypatiaProofs.Lemmas.TextExec
import HypatiaProofs.Lemmas.TextStep
import HypatiaProofs.Lemmas.ScorePhrase
import HypatiaProofs.Properties.C17
import HypatiaModel.TextScoreBridge

/-!
# Scores and membership agree on who matches  (C03 ∘ C08/C20)

The scoring model (`TextScore.lean`, result = docid ↦ score) read off a reachable state of the key-set model
(`TextIndex.lean`, result = docid set) has, for every primitive of `executeQuery` and hence for every tree,
exactly the keys the key-set model returns.  Scores are real numbers (C17's theorems about
`mass_weightedUnion` / `mass_weightedIntersection` give the key sets).
-/
set_option linter.unusedSectionVars false
set_option linter.unusedSimpArgs false
set_option linter.unusedVariables false
namespace Hyp.Text
open Hyp Hyp.QP Hyp.SetOps Hyp.SetSpec Hyp.Text.Spec
open Hyp.Lex (Cfg)

-- for any BM25 parameters (`Score.Bm25`); which documents are returned does not depend on them
variable [Score.Bm25 ℝ]

/-- the scored result exists and has exactly these keys -/
def KeyRel (r1 : Score.Res ℝ) (r2 : List Int) : Prop :=
  ∃ m, r1 = .ok m ∧ ∀ d, d ∈ AMap.keys m ↔ d ∈ r2

section
variable {s : State} {T : Table} (hi : Inv s T) (hs : Small s.base.lex)
include hi hs

theorem get_scoreT (d : Int) : AMap.get (scoreState s).T d = getWords s.base d := by
  unfold scoreState getWords
  exact SetOps.get_map_val s.base.docwords (fun p => Widcode.decode p.2) d

theorem scoreT_wf : AMap.WF (scoreState s).T := by
  have : AMap.keys (scoreState s).T = AMap.keys s.base.docwords := by
    simp [scoreState, AMap.keys, List.map_map, Function.comp_def]
  unfold AMap.WF; rw [this]; exact hi.wfD

/-- the posting of a word id = the documents whose (decoded) word list contains it -/
theorem mem_posting_iff (w : Nat) (d : Int) :
    d ∈ posting s.base w ↔ ∃ ws, AMap.get (scoreState s).T d = some ws ∧ w ∈ ws := by
  rw [hi.postings w d, get_scoreT hi hs, getWords_of_inv hi hs]
  constructor
  · rintro ⟨toks, ht, hw⟩; exact ⟨_, by rw [ht]; rfl, hw⟩
  · rintro ⟨ws, hg, hw⟩
    cases ht : tokensOf T d with
    | none => rw [ht] at hg; cases hg
    | some toks =>
      rw [ht] at hg
      simp only [Option.map_some, Option.some.injEq] at hg
      subst hg
      exact ⟨toks, rfl, hw⟩

theorem mem_docsWith_keys (w : Nat) (d : Int) :
    d ∈ (Score.docsWith (scoreState s).T w).map (·.1) ↔ d ∈ posting s.base w := by
  rw [mem_posting_iff hi hs]
  unfold Score.docsWith
  simp only [List.mem_map, List.mem_filterMap]
  constructor
  · rintro ⟨p, ⟨e, he, hp⟩, rfl⟩
    by_cases hc : e.2.count w = 0
    · simp [hc] at hp
    · simp only [hc, if_false, Option.some.injEq] at hp
      subst hp
      refine ⟨e.2, AMap.get_of_mem (scoreT_wf hi hs) (by simpa using he), ?_⟩
      exact List.count_pos_iff.mp (Nat.pos_of_ne_zero hc)
  · rintro ⟨ws, hg, hw⟩
    have hc : ws.count w ≠ 0 := Nat.pos_iff_ne_zero.mp (List.count_pos_iff.mpr hw)
    exact ⟨(d, ws.count w), ⟨(d, ws), AMap.mem_of_get hg, by simp [hc]⟩, rfl⟩

/-- the keys of the scored posting of a word id (either back end) are its posting -/
theorem termMap_keys (k : Score.Kind) (wids : List Nat) :
    ∀ p ∈ (Score.searchWids k (scoreState s) wids : List (WMap ℝ × ℝ)), ∃ w ∈ wids,
      ∀ d, d ∈ AMap.keys p.1 ↔ d ∈ posting s.base w := by
  intro p hp
  cases k with
  | okapi =>
    simp only [Score.searchWids, List.mem_map] at hp
    obtain ⟨w, hw, rfl⟩ := hp
    refine ⟨w, hw, fun d => ?_⟩
    rw [← mem_docsWith_keys hi hs]
    simp [Score.okapiTermMap, Score.scoreLoop, AMap.keys, List.map_map, Function.comp_def]
  | cosine =>
    simp only [Score.searchWids, List.mem_map] at hp
    obtain ⟨w, hw, rfl⟩ := hp
    refine ⟨w, hw, fun d => ?_⟩
    rw [← mem_docsWith_keys hi hs]
    simp only [Score.cosTermMap, Score.docsWith, AMap.keys, List.mem_map, List.mem_filterMap]
    constructor
    · rintro ⟨q, ⟨e, he, hq⟩, rfl⟩
      by_cases hc : e.2.count w = 0
      · simp [hc] at hq
      · simp only [hc, if_false, Option.some.injEq] at hq
        subst hq
        exact ⟨(e.1, e.2.count w), ⟨e, he, by simp [hc]⟩, rfl⟩
    · rintro ⟨q, ⟨e, he, hq⟩, rfl⟩
      by_cases hc : e.2.count w = 0
      · simp [hc] at hq
      · simp only [hc, if_false, Option.some.injEq] at hq
        subst hq
        exact ⟨(e.1, Score.cosWeight e.2 w), ⟨e, he, by simp [hc]⟩, rfl⟩

theorem termMap_keys_conv (k : Score.Kind) (wids : List Nat) (w : Nat) (hw : w ∈ wids) :
    ∃ p ∈ (Score.searchWids k (scoreState s) wids : List (WMap ℝ × ℝ)),
      ∀ d, d ∈ AMap.keys p.1 ↔ d ∈ posting s.base w := by
  obtain ⟨p, hp, hpw⟩ : ∃ p ∈ (Score.searchWids k (scoreState s) [w] : List (WMap ℝ × ℝ)), True := by
    cases k <;> simp [Score.searchWids]
  obtain ⟨w', hw', hk⟩ := termMap_keys hi hs k [w] p hp
  simp only [List.mem_singleton] at hw'
  subst hw'
  refine ⟨p, ?_, hk⟩
  cases k <;> simp only [Score.searchWids, List.mem_map, List.mem_singleton] at hp ⊢
  · obtain ⟨a, rfl, rfl⟩ := hp; exact ⟨a, hw, rfl⟩
  · obtain ⟨a, rfl, rfl⟩ := hp; exact ⟨a, hw, rfl⟩

theorem inVocab_iff (w : Nat) : Score.inVocab (scoreState s).T w = AMap.contains s.base.wordinfo w := by
  have h1 : Score.inVocab (scoreState s).T w = true ↔ ∃ d, d ∈ posting s.base w := by
    unfold Score.inVocab
    constructor
    · intro h
      cases hd : Score.docsWith (scoreState s).T w with
      | nil => simp [hd] at h
      | cons e es =>
        exact ⟨e.1, (mem_docsWith_keys hi hs w e.1).mp (by rw [hd]; simp)⟩
    · rintro ⟨d, hd⟩
      have := (mem_docsWith_keys hi hs w d).mpr hd
      cases hdw : Score.docsWith (scoreState s).T w with
      | nil => rw [hdw] at this; simp at this
      | cons e es => simp
  have h2 : AMap.contains s.base.wordinfo w = true ↔ ∃ d, d ∈ posting s.base w := by
    constructor
    · intro h
      unfold AMap.contains at h
      cases hg : AMap.get s.base.wordinfo w with
      | none => rw [hg] at h; cases h
      | some ds =>
        have hne := hi.wi.nonempty w ds hg
        cases ds with
        | nil => exact absurd rfl hne
        | cons x xs => exact ⟨x, by simp [posting, hg]⟩
    · rintro ⟨d, hd⟩; exact contains_of_mem_posting hd
  cases ha : Score.inVocab (scoreState s).T w <;> cases hb : AMap.contains s.base.wordinfo w <;> simp_all

theorem removeOov_eq (wids : List Nat) : Score.removeOov (scoreState s).T wids = removeOov s.base wids := by
  unfold Score.removeOov removeOov
  apply List.filter_congr
  intro w _
  exact inVocab_iff hi hs w

/-- union of scored postings: the keys are the union of the postings -/
theorem unionWids_rel (k : Score.Kind) (wids : List Nat) :
    KeyRel (massUnion (Score.searchWids k (scoreState s) wids)) (unionAll (wids.map (posting s.base))) := by
  obtain ⟨r, hr, _⟩ := C17.c17_union_value (Score.searchWids k (scoreState s) wids)
  refine ⟨r, hr, fun d => ?_⟩
  rw [C17.c17_union_keys _ r hr d, mem_unionAll]
  simp only [List.mem_map]
  constructor
  · rintro ⟨p, hp, hd⟩
    obtain ⟨w, hw, hk⟩ := termMap_keys hi hs k wids p hp
    exact ⟨_, ⟨w, hw, rfl⟩, (hk d).mp hd⟩
  · rintro ⟨_, ⟨w, hw, rfl⟩, hd⟩
    obtain ⟨p, hp, hk⟩ := termMap_keys_conv hi hs k wids w hw
    exact ⟨p, hp, (hk d).mpr hd⟩

theorem search_rel (cfg : Cfg) (k : Score.Kind) (w : Str) :
    OptRel KeyRel ((Score.textIndex k (scoreState s) (scoreLex cfg s)).search w)
      ((indexOf cfg s.base).search w) := by
  show OptRel KeyRel (Score.search k (scoreState s) (Lex.termToWordIds cfg s.base.lex [w])) (search cfg s.base w)
  unfold Score.search search
  by_cases he : (Lex.termToWordIds cfg s.base.lex [w]).isEmpty = true
  · simp [he, OptRel]
  · simp only [he, Bool.false_eq_true, if_false, OptRel]
    rw [removeOov_eq hi hs]
    exact unionWids_rel hi hs k _

theorem searchGlob_rel (cfg : Cfg) (k : Score.Kind) (p : Str) :
    KeyRel ((Score.textIndex k (scoreState s) (scoreLex cfg s)).searchGlob p)
      ((indexOf cfg s.base).searchGlob p) := by
  show KeyRel (Score.searchGlob k (scoreState s)
      (match Lex.globToWordIds s.base.lex p with | .ok ws => ws | .error _ => []))
    (match searchGlob s.base p with | .ok r => r | .error _ => [])
  unfold Score.searchGlob searchGlob
  rw [removeOov_eq hi hs]
  cases Lex.globToWordIds s.base.lex p with
  | error e =>
    simp only [removeOov, List.filter_nil]
    exact unionWids_rel hi hs k []
  | ok ws => exact unionWids_rel hi hs k _

theorem searchPhrase_rel (cfg : Cfg) (k : Score.Kind) (ws : List Str) :
    KeyRel ((Score.textIndex k (scoreState s) (scoreLex cfg s)).searchPhrase ws)
      ((indexOf cfg s.base).searchPhrase ws) := by
  show KeyRel (Score.searchPhrase k (scoreState s) (Lex.termToWordIds cfg s.base.lex ws)) (searchPhrase cfg s.base ws)
  unfold Score.searchPhrase searchPhrase
  simp only
  generalize hwids : Lex.termToWordIds cfg s.base.lex ws = wids
  have hvalid : Widcode.Valid wids := by
    rw [← hwids]; exact valid_idsOf hi.lex hs _
  rw [removeOov_eq hi hs]
  by_cases hoov : (removeOov s.base wids).length = wids.length
  · have h1 : ¬ (removeOov s.base wids).length ≠ wids.length := fun h => h hoov
    have h2 : (wids.length != (removeOov s.base wids).length) = false := by simp [hoov]
    simp only [h1, if_false, h2, Bool.false_eq_true]
    obtain ⟨hits, hh, _⟩ := C17.c17_inter_value
      ((Score.searchWids k (scoreState s) wids : List (WMap ℝ × ℝ)).map (fun p => (some p.1, p.2)))
    rw [hh]
    simp only
    have hkeys : ∀ d, d ∈ AMap.keys hits ↔ d ∈ interAll (wids.map (posting s.base)) := by
      intro d
      rw [C17.c17_inter_keys _ hits hh d, SetOps.present_map_some]
      by_cases hne : wids = []
      · subst hne
        cases k <;> simp [Score.searchWids, interAll]
      · rw [mem_interAll _ (by simpa using hne)]
        have hne' : (Score.searchWids k (scoreState s) wids : List (WMap ℝ × ℝ)) ≠ [] := by
          cases k <;> simpa [Score.searchWids] using hne
        simp only [hne', ne_eq, not_false_eq_true, true_and, List.mem_map]
        constructor
        · rintro h _ ⟨w, hw, rfl⟩
          obtain ⟨p, hp, hk⟩ := termMap_keys_conv hi hs k wids w hw
          exact (hk d).mp (h p hp)
        · intro h p hp
          obtain ⟨w, hw, hk⟩ := termMap_keys hi hs k wids p hp
          exact (hk d).mpr (h _ ⟨w, hw, rfl⟩)
    have hemp : hits.isEmpty = (interAll (wids.map (posting s.base))).isEmpty := by
      cases hh' : hits with
      | nil =>
        cases hI : interAll (wids.map (posting s.base)) with
        | nil => rfl
        | cons x xs =>
          have := (hkeys x).mpr (by rw [hI]; simp)
          rw [hh'] at this; simp [AMap.keys] at this
      | cons e es =>
        cases hI : interAll (wids.map (posting s.base)) with
        | nil =>
          have := (hkeys e.1).mp (by rw [hh']; simp [AMap.keys])
          rw [hI] at this; simp at this
        | cons x xs => rfl
    by_cases he : hits.isEmpty = true
    · have he' : (interAll (wids.map (posting s.base))).isEmpty = true := by rw [← hemp]; exact he
      simp only [he, he', if_true]
      exact ⟨hits, rfl, hkeys⟩
    · have he' : (interAll (wids.map (posting s.base))).isEmpty = false := by
        rw [← hemp]; simpa using he
      simp only [he, he', Bool.false_eq_true, if_false]
      refine ⟨_, rfl, fun d => ?_⟩
      have hwne : wids ≠ [] := by
        intro e; subst e
        simp [interAll] at he'
      simp only [AMap.keys, List.mem_map, List.mem_filter]
      constructor
      · rintro ⟨e, ⟨he1, he2⟩, rfl⟩
        have hd : e.1 ∈ interAll (wids.map (posting s.base)) := (hkeys e.1).mp (List.mem_map.mpr ⟨e, he1, rfl⟩)
        refine ⟨hd, ?_⟩
        -- the document has decoded words; the encoded scan decides the same containment
        have hin := (mem_interAll _ (by simpa using hwne) e.1).mp hd
        obtain ⟨w0, hw0⟩ := List.exists_mem_of_ne_nil wids hwne
        obtain ⟨dws, hg, _⟩ := (mem_posting_iff hi hs w0 e.1).mp (hin _ (List.mem_map.mpr ⟨w0, hw0, rfl⟩))
        have hgw : getWords s.base e.1 = some dws := by rw [← get_scoreT hi hs]; exact hg
        rw [getWords_of_inv hi hs] at hgw
        cases ht : tokensOf T e.1 with
        | none => rw [ht] at hgw; cases hgw
        | some toks =>
          rw [ht] at hgw
          simp only [Option.map_some, Option.some.injEq] at hgw
          subst hgw
          rw [hi.docwords e.1, ht]
          simp only [Option.map_some]
          rw [Widcode.c16_phraseFind_iff_sublist _ _ hvalid (valid_idsOf hi.lex hs toks) hwne]
          have : Score.docWords (scoreState s).T e.1 = idsOf s.base.lex toks := by
            simp [Score.docWords, hg]
          rw [this, Score.containsPhrase_iff] at he2
          exact he2
      · rintro ⟨hd, hf⟩
        have hk := (hkeys d).mpr hd
        obtain ⟨e, he1, rfl⟩ := List.mem_map.mp hk
        refine ⟨e, ⟨he1, ?_⟩, rfl⟩
        have hin := (mem_interAll _ (by simpa using hwne) e.1).mp hd
        obtain ⟨w0, hw0⟩ := List.exists_mem_of_ne_nil wids hwne
        obtain ⟨dws, hg, _⟩ := (mem_posting_iff hi hs w0 e.1).mp (hin _ (List.mem_map.mpr ⟨w0, hw0, rfl⟩))
        have hgw : getWords s.base e.1 = some dws := by rw [← get_scoreT hi hs]; exact hg
        rw [getWords_of_inv hi hs] at hgw
        cases ht : tokensOf T e.1 with
        | none => rw [ht] at hgw; cases hgw
        | some toks =>
          rw [ht] at hgw
          simp only [Option.map_some, Option.some.injEq] at hgw
          subst hgw
          rw [hi.docwords e.1, ht] at hf
          simp only [Option.map_some] at hf
          rw [Widcode.c16_phraseFind_iff_sublist _ _ hvalid (valid_idsOf hi.lex hs toks) hwne] at hf
          have : Score.docWords (scoreState s).T e.1 = idsOf s.base.lex toks := by
            simp [Score.docWords, hg]
          rw [this, Score.containsPhrase_iff]
          exact hf
  · have h2 : (wids.length != (removeOov s.base wids).length) = true := by
      simp; exact fun h => hoov h.symm
    simp only [hoov, ne_eq, not_false_eq_true, if_true, h2]
    exact ⟨[], rfl, fun d => by simp [AMap.keys]⟩

end

/-! ### the set operations -/

theorem seqRes_of_rel {L1 : List (Score.Res ℝ)} {L2 : List (List Int)} (h : RelL KeyRel L1 L2) :
    ∃ ms : List (WMap ℝ), Score.seqRes L1 = .ok ms ∧ ms.length = L2.length ∧
      ∀ d, (∀ m ∈ ms, d ∈ AMap.keys m) ↔ (∀ r ∈ L2, d ∈ r) := by
  induction h with
  | nil => exact ⟨[], rfl, rfl, fun d => by simp⟩
  | cons hab _ ih =>
    obtain ⟨m, rfl, hk⟩ := hab
    obtain ⟨ms, h1, h2, h3⟩ := ih
    refine ⟨m :: ms, by simp [Score.seqRes, h1], by simp [h2], fun d => ?_⟩
    simp only [List.forall_mem_cons, hk d, h3 d]

theorem seqRes_of_rel_any {L1 : List (Score.Res ℝ)} {L2 : List (List Int)} (h : RelL KeyRel L1 L2) :
    ∃ ms : List (WMap ℝ), Score.seqRes L1 = .ok ms ∧
      ∀ d, (∃ m ∈ ms, d ∈ AMap.keys m) ↔ (∃ r ∈ L2, d ∈ r) := by
  induction h with
  | nil => exact ⟨[], rfl, fun d => by simp⟩
  | cons hab _ ih =>
    obtain ⟨m, rfl, hk⟩ := hab
    obtain ⟨ms, h1, h3⟩ := ih
    refine ⟨m :: ms, by simp [Score.seqRes, h1], fun d => ?_⟩
    constructor
    · rintro ⟨m', hm', hd⟩
      rcases List.mem_cons.mp hm' with rfl | hm''
      · exact ⟨_, List.mem_cons_self, (hk d).mp hd⟩
      · obtain ⟨r, hr, hdr⟩ := (h3 d).mp ⟨m', hm'', hd⟩
        exact ⟨r, List.mem_cons_of_mem _ hr, hdr⟩
    · rintro ⟨r, hr, hd⟩
      rcases List.mem_cons.mp hr with rfl | hr'
      · exact ⟨_, List.mem_cons_self, (hk d).mpr hd⟩
      · obtain ⟨m', hm', hdm⟩ := (h3 d).mpr ⟨r, hr', hd⟩
        exact ⟨m', List.mem_cons_of_mem _ hm', hdm⟩

theorem index_rel (cfg : Cfg) (k : Score.Kind) {s : State} {T : Table} (hi : Inv s T) (hs : Small s.base.lex) :
    IndexRel KeyRel (Score.textIndex k (scoreState s) (scoreLex cfg s) : Index (Score.Res ℝ))
      (indexOf cfg s.base) where
  search := search_rel hi hs cfg k
  searchPhrase := searchPhrase_rel hi hs cfg k
  searchGlob := searchGlob_rel hi hs cfg k
  inter := by
    intro L1 L2 h
    obtain ⟨ms, h1, h2, h3⟩ := seqRes_of_rel h
    simp only [Score.textIndex, indexOf, h1]
    obtain ⟨r, hr, _⟩ := C17.c17_inter_value (ms.map (fun m => (some m, (Scalar.nat 1 : ℝ))))
    refine ⟨r, hr, fun d => ?_⟩
    rw [C17.c17_inter_keys _ r hr d]
    have hp : present (ms.map (fun m => (some m, (Scalar.nat 1 : ℝ)))) = ms.map (fun m => (m, (Scalar.nat 1 : ℝ))) := by
      have := SetOps.present_map_some (ms.map (fun m => (m, (Scalar.nat 1 : ℝ))))
      simpa [List.map_map, Function.comp_def] using this
    rw [hp]
    cases L2 with
    | nil =>
      have : ms = [] := List.eq_nil_of_length_eq_zero (by simpa using h2)
      subst this; simp [interAll]
    | cons x xs =>
      have hne : ms ≠ [] := by intro e; subst e; simp at h2
      rw [mem_interAll _ (by simp)]
      simp only [ne_eq, List.map_eq_nil_iff, hne, not_false_eq_true, true_and, List.mem_map,
        forall_exists_index, and_imp, forall_apply_eq_imp_iff₂]
      exact h3 d
  union := by
    intro L1 L2 h
    obtain ⟨ms, h1, h3⟩ := seqRes_of_rel_any h
    simp only [Score.textIndex, indexOf, h1]
    obtain ⟨r, hr, _⟩ := C17.c17_union_value (ms.map (fun m => (m, (Scalar.nat 1 : ℝ))))
    refine ⟨r, hr, fun d => ?_⟩
    rw [C17.c17_union_keys _ r hr d, mem_unionAll]
    simp only [List.mem_map, exists_exists_and_eq_and]
    exact h3 d
  diff := by
    rintro a1 a2 b1 b2 ⟨x, rfl, hx⟩ ⟨y, rfl, hy⟩
    refine ⟨_, rfl, fun d => ?_⟩
    show d ∈ AMap.keys (x.filter (fun p => !(AMap.contains y p.1))) ↔ d ∈ LSet.diff a2 b2
    rw [LSet.mem_diff, ← hx d, ← hy d]
    simp only [AMap.keys, List.mem_map, List.mem_filter]
    constructor
    · rintro ⟨e, ⟨he1, he2⟩, rfl⟩
      refine ⟨⟨e, he1, rfl⟩, ?_⟩
      rintro ⟨e', he', hee⟩
      have : AMap.contains y e.1 = true := by
        unfold AMap.contains
        rw [← AMap.mem_keys_iff]
        exact List.mem_map.mpr ⟨e', he', hee⟩
      simp [this] at he2
    · rintro ⟨⟨e, he1, rfl⟩, hn⟩
      refine ⟨e, ⟨he1, ?_⟩, rfl⟩
      cases hc : AMap.contains y e.1 with
      | false => rfl
      | true =>
        exfalso
        unfold AMap.contains at hc
        rw [← AMap.mem_keys_iff] at hc
        obtain ⟨e', he', hee⟩ := List.mem_map.mp hc
        exact hn ⟨e', he', hee⟩

/-- **every tree**: executing it over the scoring index gives a scored result whose keys are the key-set
model's result (same `QueryError`, `None` on both sides) -/
theorem exec_keys (cfg : Cfg) (k : Score.Kind) {s : State} {T : Table} (hi : Inv s T) (hs : Small s.base.lex)
    (t : Tree) :
    ExecRel (OptRel KeyRel)
      (exec (Score.textIndex k (scoreState s) (scoreLex cfg s) : Index (Score.Res ℝ)) t)
      (exec (indexOf cfg s.base) t) :=
  exec_rel (index_rel cfg k hi hs) t

end Hyp.Text
