import HypatiaProofs.Lemmas.TextStep
import HypatiaProofs.Lemmas.LexiconPipeline
/-!
`search`, `search_glob`, `search_phrase` on an index that satisfies the invariant return exactly
the documents whose token sequence contains the word / a token fitting the pattern / the words
contiguously.
-/
set_option linter.unusedSimpArgs false
set_option linter.unusedSectionVars false
set_option linter.unusedVariables false
namespace Hyp.Text
open Hyp.QP (Str Tree)
open Hyp.Lex (Cfg getWid)
open Spec

/-! ### set operations on result sets -/

theorem mem_foldl_union (l : List (List Int)) (acc : List Int) (d : Int) :
    d ∈ l.foldl LSet.union acc ↔ d ∈ acc ∨ ∃ r ∈ l, d ∈ r := by
  induction l generalizing acc with
  | nil => simp
  | cons x l ih =>
    simp only [List.foldl_cons, ih, LSet.mem_union, List.mem_cons]
    constructor
    · rintro ((h | h) | ⟨r, hr, h⟩)
      · exact Or.inl h
      · exact Or.inr ⟨x, Or.inl rfl, h⟩
      · exact Or.inr ⟨r, Or.inr hr, h⟩
    · rintro (h | ⟨r, hr | hr, h⟩)
      · exact Or.inl (Or.inl h)
      · subst hr; exact Or.inl (Or.inr h)
      · exact Or.inr ⟨r, hr, h⟩

theorem mem_unionAll (l : List (List Int)) (d : Int) : d ∈ unionAll l ↔ ∃ r ∈ l, d ∈ r := by
  unfold unionAll; rw [mem_foldl_union]; simp

theorem mem_foldl_inter (l : List (List Int)) (acc : List Int) (d : Int) :
    d ∈ l.foldl LSet.inter acc ↔ d ∈ acc ∧ ∀ r ∈ l, d ∈ r := by
  induction l generalizing acc with
  | nil => simp
  | cons x l ih =>
    simp only [List.foldl_cons, ih, LSet.mem_inter, List.mem_cons]
    constructor
    · rintro ⟨⟨h1, h2⟩, h3⟩
      refine ⟨h1, ?_⟩
      rintro r (e | e)
      · subst e; exact h2
      · exact h3 r e
    · rintro ⟨h1, h2⟩
      exact ⟨⟨h1, h2 x (Or.inl rfl)⟩, fun r hr => h2 r (Or.inr hr)⟩

/-- intersection of a non-empty list of result sets -/
theorem mem_interAll (l : List (List Int)) (hne : l ≠ []) (d : Int) :
    d ∈ interAll l ↔ ∀ r ∈ l, d ∈ r := by
  cases l with
  | nil => exact absurd rfl hne
  | cons x xs =>
    simp only [interAll, mem_foldl_inter, List.mem_cons]
    constructor
    · rintro ⟨h1, h2⟩ r (e | e)
      · subst e; exact h1
      · exact h2 r e
    · intro h; exact ⟨h x (Or.inl rfl), fun r hr => h r (Or.inr hr)⟩

theorem contains_of_mem_posting {b : Base} {w : Nat} {d : Int} (h : d ∈ posting b w) :
    AMap.contains b.wordinfo w = true := by
  unfold posting at h
  unfold AMap.contains
  cases hg : AMap.get b.wordinfo w with
  | none => rw [hg] at h; simp at h
  | some ds => rfl

/-- `_remove_oov_wids` does not change which documents are found -/
theorem mem_union_removeOov (b : Base) (wids : List Nat) (d : Int) :
    d ∈ unionAll ((removeOov b wids).map (posting b)) ↔ ∃ w ∈ wids, d ∈ posting b w := by
  rw [mem_unionAll]
  simp only [List.mem_map, removeOov, List.mem_filter]
  constructor
  · rintro ⟨r, ⟨w, ⟨hw, _⟩, rfl⟩, hd⟩; exact ⟨w, hw, hd⟩
  · rintro ⟨w, hw, hd⟩; exact ⟨_, ⟨w, ⟨hw, contains_of_mem_posting hd⟩, rfl⟩, hd⟩

/-! ### words and ids -/

theorem getWid_inj {L : Lex.State} (hi : Lex.Inv L) {w w' : Str}
    (hk : (AMap.get L.wids w).isSome = true) (h : getWid L w = getWid L w') : w = w' := by
  cases hg : AMap.get L.wids w with
  | none => rw [hg] at hk; cases hk
  | some i =>
    have hpos := (Lex.inv_pos hi hg).1
    rw [Lex.getWid_of_get hg] at h
    cases hg' : AMap.get L.wids w' with
    | none => simp [getWid, hg'] at h; omega
    | some j =>
      rw [Lex.getWid_of_get hg'] at h
      subst h
      have a := (hi.inverse w i).mp hg
      have b := (hi.inverse w' i).mp hg'
      rw [a] at b; cases b; rfl

theorem satDoc_iff (T : Table) (t : Tree) (d : Int) :
    satDoc T t d = true ↔ ∃ toks, tokensOf T d = some toks ∧ sat t toks = true := by
  unfold satDoc
  cases tokensOf T d with
  | none => simp
  | some toks => simp

/-- the posting of a word's id holds exactly the documents containing the word – for every
word, known or not -/
theorem mem_posting_word {s : State} {T : Table} (hi : Inv s T) (w : Str) (d : Int) :
    d ∈ posting s.base (getWid s.base.lex w) ↔ ∃ toks, tokensOf T d = some toks ∧ w ∈ toks := by
  rw [hi.postings]
  constructor
  · rintro ⟨toks, ht, hw⟩
    refine ⟨toks, ht, ?_⟩
    obtain ⟨w', hw', e⟩ := List.mem_map.mp hw
    have := getWid_inj hi.lex (hi.known d toks ht w' hw') e
    exact this ▸ hw'
  · rintro ⟨toks, ht, hw⟩
    exact ⟨toks, ht, List.mem_map.mpr ⟨w, hw, rfl⟩⟩

theorem runPipeline_stable (cfg : Cfg) (ws : List Str) (h : ∀ w ∈ ws, stableWord cfg w = true) :
    Lex.runPipeline cfg.tables cfg.pipeline ws = ws := by
  induction ws with
  | nil => exact Lex.runPipeline_nil _ _
  | cons w ws ih =>
    rw [Lex.runPipeline_cons, ih (fun x hx => h x (List.mem_cons_of_mem _ hx))]
    have := h w (by simp)
    unfold stableWord at this
    rw [beq_iff_eq] at this
    rw [this]; rfl

/-! ### `search` -/

theorem search_spec (cfg : Cfg) {s : State} {T : Table} (hi : Inv s T) (w : Str)
    (hst : stableWord cfg w = true) :
    ∃ r, search cfg s.base w = some r ∧ ∀ d, d ∈ r ↔ satDoc T (.atom w) d = true := by
  have hp : Lex.runPipeline cfg.tables cfg.pipeline [w] = [w] := by
    unfold stableWord at hst; simpa using hst
  have hw : Lex.termToWordIds cfg s.base.lex [w] = [getWid s.base.lex w] := by
    simp [Lex.termToWordIds, hp]
  refine ⟨unionAll ((removeOov s.base [getWid s.base.lex w]).map (posting s.base)), by simp [search, hw], ?_⟩
  intro d
  rw [mem_union_removeOov, satDoc_iff]
  simp only [List.mem_singleton, exists_eq_left, mem_posting_word hi, sat, List.contains_eq_mem,
    decide_eq_true_eq]

/-! ### `search_glob` -/

theorem searchGlob_spec {s : State} {T : Table} (hi : Inv s T) (p : Str)
    (hstart : ∀ c, p.head? = some c → Lex.isGlobChar c = false) :
    ∃ r, searchGlob s.base p = .ok r ∧ ∀ d, d ∈ r ↔ satDoc T (.glob p) d = true := by
  obtain ⟨ids, hg, hm⟩ := Lex.globToWordIds_spec hi.lex p hstart
  refine ⟨unionAll ((removeOov s.base ids).map (posting s.base)), by simp [searchGlob, hg], ?_⟩
  intro d
  rw [mem_union_removeOov, satDoc_iff]
  simp only [sat, List.any_eq_true, Lex.globMatchB_iff]
  constructor
  · rintro ⟨i, hi', hd⟩
    obtain ⟨w, hw, hmw⟩ := (hm i).mp hi'
    rw [← Lex.getWid_of_get hw] at hd
    obtain ⟨toks, ht, hwt⟩ := (mem_posting_word hi w d).mp hd
    exact ⟨toks, ht, w, hwt, hmw⟩
  · rintro ⟨toks, ht, w, hwt, hmw⟩
    have hk := hi.known d toks ht w hwt
    cases hgw : AMap.get s.base.lex.wids w with
    | none => rw [hgw] at hk; cases hk
    | some i =>
      refine ⟨i, (hm i).mpr ⟨w, hgw, hmw⟩, ?_⟩
      rw [← Lex.getWid_of_get hgw]
      exact (mem_posting_word hi w d).mpr ⟨toks, ht, hwt⟩

/-! ### `search_phrase` -/

theorem infixB_iff (ws toks : List Str) : infixB ws toks = true ↔ ws <:+: toks := by
  induction toks with
  | nil =>
    simp only [infixB, List.isPrefixOf_iff_prefix]
    constructor
    · intro h; exact h.isInfix
    · intro h
      have : ws = [] := List.eq_nil_of_infix_nil h
      subst this; exact List.prefix_refl _
  | cons t toks ih =>
    simp only [infixB, Bool.or_eq_true, List.isPrefixOf_iff_prefix, ih]
    constructor
    · rintro (h | h)
      · exact h.isInfix
      · exact List.IsInfix.trans h (List.suffix_cons t toks).isInfix
    · intro h
      rcases List.infix_cons_iff.mp h with h' | h'
      · exact Or.inl h'
      · exact Or.inr h'

theorem map_injOn_eq {α β : Type} (f : α → β) (a b : List α)
    (hinj : ∀ x ∈ a, ∀ y ∈ b, f x = f y → x = y) (h : a.map f = b.map f) : a = b := by
  induction a generalizing b with
  | nil => cases b with
    | nil => rfl
    | cons y b => simp at h
  | cons x a ih =>
    cases b with
    | nil => simp at h
    | cons y b =>
      simp only [List.map_cons, List.cons.injEq] at h
      have := hinj x (by simp) y (by simp) h.1
      subst this
      rw [ih b (fun u hu v hv => hinj u (List.mem_cons_of_mem _ hu) v (List.mem_cons_of_mem _ hv)) h.2]

/-- an injective renaming reflects contiguous containment -/
theorem infix_of_map_infix {α β : Type} (f : α → β) (ws toks : List α)
    (hinj : ∀ x ∈ ws, ∀ y ∈ toks, f x = f y → x = y) (h : ws.map f <:+: toks.map f) :
    ws <:+: toks := by
  obtain ⟨pre, suf, e⟩ := h
  obtain ⟨l12, l3, e1, e2, e3⟩ := List.map_eq_append_iff.mp e.symm
  obtain ⟨l1, l2, e4, e5, e6⟩ := List.map_eq_append_iff.mp e2
  subst e1; subst e4
  have : ws = l2 := by
    apply map_injOn_eq f ws l2 _ e6.symm
    intro x hx y hy
    exact hinj x hx y (by simp [hy])
  subst this
  exact ⟨l1, l3, rfl⟩

theorem searchPhrase_spec (cfg : Cfg) {s : State} {T : Table} (hi : Inv s T) (hs : Small s.base.lex)
    (ws : List Str) (hne : ws ≠ []) (hst : ∀ w ∈ ws, stableWord cfg w = true) (d : Int) :
    d ∈ searchPhrase cfg s.base ws ↔ satDoc T (.phrase ws) d = true := by
  have hw : Lex.termToWordIds cfg s.base.lex ws = idsOf s.base.lex ws := by
    simp [Lex.termToWordIds, runPipeline_stable cfg ws hst, idsOf]
  rw [satDoc_iff]
  simp only [sat, infixB_iff]
  have hidne : idsOf s.base.lex ws ≠ [] := by
    cases ws with
    | nil => exact absurd rfl hne
    | cons a l => simp [idsOf]
  -- a document that has the phrase has every word of it
  have hall : ∀ toks, tokensOf T d = some toks → ws <:+: toks →
      ∀ w ∈ ws, d ∈ posting s.base (getWid s.base.lex w) := by
    intro toks ht hin w hw'
    exact (mem_posting_word hi w d).mpr ⟨toks, ht, hin.subset hw'⟩
  unfold searchPhrase
  rw [hw]
  by_cases hoov : ((idsOf s.base.lex ws).length != (removeOov s.base (idsOf s.base.lex ws)).length) = true
  · -- some word id is out of vocabulary: no document can have the phrase
    simp only [hoov, if_true, List.not_mem_nil, false_iff]
    rintro ⟨toks, ht, hin⟩
    have hfilter : removeOov s.base (idsOf s.base.lex ws) = idsOf s.base.lex ws := by
      unfold removeOov
      apply List.filter_eq_self.mpr
      intro i hi'
      obtain ⟨w, hw', rfl⟩ := List.mem_map.mp hi'
      exact contains_of_mem_posting (hall toks ht hin w hw')
    rw [hfilter] at hoov
    simp at hoov
  · simp only [hoov, Bool.false_eq_true, if_false]
    have hmem_hits : ∀ x, x ∈ interAll ((idsOf s.base.lex ws).map (posting s.base)) ↔
        ∀ w ∈ ws, x ∈ posting s.base (getWid s.base.lex w) := by
      intro x
      rw [mem_interAll _ (by simpa using hidne)]
      simp only [List.mem_map, idsOf]
      constructor
      · intro h w hw'; exact h _ ⟨_, ⟨w, hw', rfl⟩, rfl⟩
      · rintro h r ⟨i, ⟨w, hw', rfl⟩, rfl⟩; exact h w hw'
    have hvalid := valid_idsOf hi.lex hs
    -- the filter step
    have hfilt : d ∈ (interAll ((idsOf s.base.lex ws).map (posting s.base))).filter (fun d =>
          match AMap.get s.base.docwords d with
          | some docwords => Widcode.phraseFind (Widcode.encode (idsOf s.base.lex ws)) docwords
          | none => false) ↔ ∃ toks, tokensOf T d = some toks ∧ ws <:+: toks := by
      rw [List.mem_filter, hmem_hits, hi.docwords d]
      constructor
      · rintro ⟨hin, hf⟩
        cases ht : tokensOf T d with
        | none => rw [ht] at hf; simp at hf
        | some toks =>
          rw [ht] at hf
          simp only [Option.map_some] at hf
          rw [Widcode.c16_phraseFind_iff_sublist _ _ (hvalid ws) (hvalid toks) hidne] at hf
          refine ⟨toks, rfl, ?_⟩
          apply infix_of_map_infix (getWid s.base.lex) ws toks _ hf
          intro x hx y hy e
          have hxt : x ∈ toks := by
            obtain ⟨t', ht', hx'⟩ := (mem_posting_word hi x d).mp (hin x hx)
            rw [ht] at ht'; cases ht'; exact hx'
          exact getWid_inj hi.lex (hi.known d toks ht x hxt) e
      · rintro ⟨toks, ht, hin⟩
        refine ⟨hall toks ht hin, ?_⟩
        rw [ht]
        simp only [Option.map_some]
        rw [Widcode.c16_phraseFind_iff_sublist _ _ (hvalid ws) (hvalid toks) hidne]
        obtain ⟨a, b, e⟩ := hin
        exact ⟨idsOf s.base.lex a, idsOf s.base.lex b, by simp [idsOf, ← e]⟩
    by_cases hemp : (interAll ((idsOf s.base.lex ws).map (posting s.base))).isEmpty = true
    · simp only [hemp, if_true]
      rw [← hfilt]
      rw [List.isEmpty_iff] at hemp
      rw [hemp]; simp
    · simp only [hemp, Bool.false_eq_true, if_false]
      exact hfilt

end Hyp.Text
