import HypatiaProofs.Lemmas.TextExec
import HypatiaProofs.Lemmas.QueryGrammar
/-!
`admissible` (the query's words are fixed points of the pipeline) derived from a decidable
condition on the character tables, for pipelines `Splitter, CaseNormalizer, filters…`.
-/
set_option linter.unusedSimpArgs false
set_option linter.unusedSectionVars false
set_option linter.unusedVariables false
namespace Hyp.Lex
open Hyp.QP (Str)

/-- `StopWordRemover` / `StopWordAndSingleCharRemover` -/
def isFilter : Elem → Bool
  | .stop _ => true
  | .stopSingle _ => true
  | _ => false

/-- does the word pass the filter -/
def passes : Elem → Str → Bool
  | .stop d, w => !d.contains w
  | .stopSingle d, w => !(d.contains w || isSingle w)
  | _, _ => true

theorem process_filter (t : Tables) (e : Elem) (h : isFilter e = true) (l : List Str) :
    process t e l = l.filter (passes e) ∧ processGlob t e l = l.filter (passes e) := by
  cases e <;> simp [isFilter] at h <;> exact ⟨rfl, rfl⟩

theorem foldl_filters (t : Tables) (fs : List Elem) (h : ∀ e ∈ fs, isFilter e = true) (l : List Str) :
    fs.foldl (fun acc e => process t e acc) l = l.filter (fun w => fs.all (fun e => passes e w)) := by
  induction fs generalizing l with
  | nil =>
    simp only [List.foldl_nil, List.all_nil]
    exact (List.filter_eq_self.mpr (fun _ _ => rfl)).symm
  | cons e fs ih =>
    simp only [List.foldl_cons, (process_filter t e (h e (by simp)) l).1,
      ih (fun x hx => h x (List.mem_cons_of_mem _ hx)), List.filter_filter, List.all_cons]
    apply List.filter_congr
    intro w _
    exact Bool.and_comm _ _

theorem foldl_filtersGlob (t : Tables) (fs : List Elem) (h : ∀ e ∈ fs, isFilter e = true) (l : List Str) :
    fs.foldl (fun acc e => processGlob t e acc) l = l.filter (fun w => fs.all (fun e => passes e w)) := by
  induction fs generalizing l with
  | nil =>
    simp only [List.foldl_nil, List.all_nil]
    exact (List.filter_eq_self.mpr (fun _ _ => rfl)).symm
  | cons e fs ih =>
    simp only [List.foldl_cons, (process_filter t e (h e (by simp)) l).2,
      ih (fun x hx => h x (List.mem_cons_of_mem _ hx)), List.filter_filter, List.all_cons]
    apply List.filter_congr
    intro w _
    exact Bool.and_comm _ _

/-- `parseTerms` / the plain pipeline for `Splitter, CaseNormalizer, filters…` -/
theorem default_pipelines (cfg : Cfg) (fs : List Elem)
    (hpl : cfg.pipeline = .splitter :: .caseNorm :: fs) (hfs : ∀ e ∈ fs, isFilter e = true)
    (l : List Str) :
    runPipelineGlob cfg.tables cfg.pipeline l =
      ((l.flatMap (splitGlobs cfg.tables)).map (lowerStr cfg.tables)).filter
        (fun w => fs.all (fun e => passes e w)) ∧
    runPipeline cfg.tables cfg.pipeline l =
      ((l.flatMap (splitWords cfg.tables)).map (lowerStr cfg.tables)).filter
        (fun w => fs.all (fun e => passes e w)) := by
  unfold runPipelineGlob runPipeline
  rw [hpl]
  simp only [List.foldl_cons]
  rw [foldl_filtersGlob cfg.tables fs hfs, foldl_filters cfg.tables fs hfs]
  exact ⟨rfl, rfl⟩

end Hyp.Lex

namespace Hyp.Text
open Hyp.QP (Str Tree)
open Hyp.Lex (Cfg Tables)
open Spec

/-- lower-casing a word character yields a non-empty string of word characters that are their own
lower case; `*` and `?` survive lower-casing and are not word characters.  (CPython: false only
for U+0130.) -/
def StableTables (t : Tables) : Prop :=
  (∀ c, t.isWord c = true → t.lower c ≠ [] ∧ ∀ d ∈ t.lower c, t.isWord d = true ∧ t.lower d = [d]) ∧
  Lex.STAR ∈ t.lower Lex.STAR ∧ Lex.QM ∈ t.lower Lex.QM ∧
  t.isWord Lex.STAR = false ∧ t.isWord Lex.QM = false

/-- tables given by finite lists (what the driver receives as `cfg` lines) -/
def tablesOfLists (words : List Nat) (lowers : List (Nat × Str)) : Tables :=
  { isWord := fun c => words.contains c, lower := fun c => (lowers.lookup c).getD [c] }

def stableTablesB (words : List Nat) (lowers : List (Nat × Str)) : Bool :=
  let t := tablesOfLists words lowers
  words.all (fun c => !(t.lower c).isEmpty && (t.lower c).all (fun d => words.contains d && t.lower d == [d]))
    && (t.lower Lex.STAR).contains Lex.STAR && (t.lower Lex.QM).contains Lex.QM
    && !words.contains Lex.STAR && !words.contains Lex.QM

theorem stableTables_of_B (words : List Nat) (lowers : List (Nat × Str))
    (h : stableTablesB words lowers = true) : StableTables (tablesOfLists words lowers) := by
  simp only [stableTablesB, Bool.and_eq_true, List.all_eq_true, List.contains_eq_mem,
    decide_eq_true_eq, beq_iff_eq, Bool.not_eq_true', List.isEmpty_eq_false_iff] at h
  obtain ⟨⟨⟨⟨h1, h2⟩, h3⟩, h4⟩, h5⟩ := h
  refine ⟨?_, h2, h3, by simpa [tablesOfLists] using h4, by simpa [tablesOfLists] using h5⟩
  intro c hc
  have hc' : c ∈ words := by simpa [tablesOfLists] using hc
  obtain ⟨a, b⟩ := h1 c hc'
  refine ⟨a, ?_⟩
  intro d hd
  obtain ⟨b1, b2⟩ := b d hd
  exact ⟨by simpa [tablesOfLists] using b1, b2⟩

mutual
/-- no word of a phrase contains `*` or `?` -/
def phrasesPlain : Tree → Bool
  | .atom _ => true
  | .phrase ws => ws.all (fun w => !Lex.isGlob w)
  | .glob _ => true
  | .notN t => phrasesPlain t
  | .andN ts => phrasesPlainL ts
  | .orN ts => phrasesPlainL ts
def phrasesPlainL : List Tree → Bool
  | [] => true
  | t :: ts => phrasesPlain t && phrasesPlainL ts
end

theorem phrasesPlainL_iff (ts : List Tree) : phrasesPlainL ts = true ↔ ∀ t ∈ ts, phrasesPlain t = true := by
  induction ts with
  | nil => simp [phrasesPlainL]
  | cons t ts ih => simp [phrasesPlainL, ih]

/-! ### words of the default pipelines are fixed points -/

theorem lowerStr_fix (t : Tables) (hst : StableTables t) (g : Str) (hg : ∀ c ∈ g, t.isWord c = true) :
    Lex.lowerStr t (Lex.lowerStr t g) = Lex.lowerStr t g ∧
    (∀ c ∈ Lex.lowerStr t g, t.isWord c = true) := by
  induction g with
  | nil => simp [Lex.lowerStr]
  | cons c g ih =>
    obtain ⟨ih1, ih2⟩ := ih (fun x hx => hg x (List.mem_cons_of_mem _ hx))
    obtain ⟨_, hd⟩ := hst.1 c (hg c (by simp))
    have hfix : (t.lower c).flatMap t.lower = t.lower c := by
      have : ∀ l : Str, (∀ d ∈ l, t.lower d = [d]) → l.flatMap t.lower = l := by
        intro l hl
        induction l with
        | nil => rfl
        | cons d l ihl =>
          simp only [List.flatMap_cons, hl d (by simp), ihl (fun x hx => hl x (List.mem_cons_of_mem _ hx))]
          rfl
      exact this _ (fun d hd' => (hd d hd').2)
    unfold Lex.lowerStr at ih1 ih2 ⊢
    refine ⟨?_, ?_⟩
    · simp only [List.flatMap_cons, List.flatMap_append, hfix, ih1]
    · intro x hx
      simp only [List.flatMap_cons, List.mem_append] at hx
      rcases hx with hx | hx
      · exact (hd x hx).1
      · exact ih2 x hx

/-- a lower-cased glob token without glob characters is a fixed point of `Splitter, CaseNormalizer,
filters…` as long as it passes the filters -/
theorem stable_of_tables (cfg : Cfg) (fs : List Lex.Elem)
    (hpl : cfg.pipeline = .splitter :: .caseNorm :: fs) (hfs : ∀ e ∈ fs, Lex.isFilter e = true)
    (hst : StableTables cfg.tables) (term : Str) (w : Str)
    (hw : w ∈ Lex.parseTerms cfg [term]) (hg : Lex.isGlob w = false) : stableWord cfg w = true := by
  unfold Lex.parseTerms at hw
  rw [(Lex.default_pipelines cfg fs hpl hfs [term]).1] at hw
  simp only [List.flatMap_cons, List.flatMap_nil, List.append_nil, List.mem_filter, List.mem_map] at hw
  obtain ⟨⟨g, hgmem, rfl⟩, hpass⟩ := hw
  -- g is a glob token: word character, then word/glob characters; no glob character survives
  obtain ⟨c, r, rfl, hc, hr⟩ := Lex.tokens_shape _ _ term g hgmem
  have hnoglob : ∀ x ∈ c :: r, Lex.isGlobChar x = false := by
    intro x hx
    cases hxg : Lex.isGlobChar x with
    | false => rfl
    | true =>
      exfalso
      have hx' : x = Lex.STAR ∨ x = Lex.QM := by simpa [Lex.isGlobChar] using hxg
      have hin : x ∈ Lex.lowerStr cfg.tables (c :: r) := by
        simp only [Lex.lowerStr, List.mem_flatMap]
        refine ⟨x, hx, ?_⟩
        rcases hx' with e | e
        · subst e; exact hst.2.1
        · subst e; exact hst.2.2.1
      simp only [Lex.isGlob, Bool.or_eq_false_iff, List.contains_eq_mem, decide_eq_false_iff_not] at hg
      rcases hx' with e | e
      · subst e; exact hg.1 hin
      · subst e; exact hg.2 hin
  have hword : ∀ x ∈ c :: r, cfg.tables.isWord x = true := by
    intro x hx
    rcases List.mem_cons.mp hx with e | e
    · subst e; exact hc
    · have := hr x e
      simpa [hnoglob x hx] using this
  obtain ⟨hfix, hallw⟩ := lowerStr_fix cfg.tables hst (c :: r) hword
  -- the lower-cased token is non-empty
  have hne : Lex.lowerStr cfg.tables (c :: r) ≠ [] := by
    obtain ⟨h1, _⟩ := hst.1 c hc
    intro e
    simp only [Lex.lowerStr, List.flatMap_cons, List.append_eq_nil_iff] at e
    exact h1 e.1
  unfold stableWord
  rw [beq_iff_eq, (Lex.default_pipelines cfg fs hpl hfs _).2]
  simp only [List.flatMap_cons, List.flatMap_nil, List.append_nil]
  cases hl : Lex.lowerStr cfg.tables (c :: r) with
  | nil => exact absurd hl hne
  | cons a rest =>
    rw [hl] at hallw hfix hpass
    have hsplit : Lex.splitWords cfg.tables (a :: rest) = [a :: rest] :=
      Lex.tokens_single _ _ a rest (hallw a (by simp)) (fun d hd => hallw d (List.mem_cons_of_mem _ hd))
    rw [hsplit]
    simp only [List.map_cons, List.map_nil, hfix]
    simp [List.filter_cons, hpass]

/-! ### every tree the grammar derives is admissible -/

theorem conj_closed (P : Tree → Prop) (hand : ∀ xs, (∀ x ∈ xs, P x) → P (.andN xs)) {l : List Tree}
    {t : Tree} (hl : ∀ x ∈ l, P x) (h : QP.Spec.conj l = some t) : P t := by
  match l, hl, h with
  | [x], hl, h => simp only [QP.Spec.conj, Option.some.injEq] at h; subst h; exact hl x (by simp)
  | x :: y :: l, hl, h => simp only [QP.Spec.conj, Option.some.injEq] at h; subst h; exact hand _ hl

theorem disj_closed (P : Tree → Prop) (hor : ∀ xs, (∀ x ∈ xs, P x) → P (.orN xs)) {l : List Tree}
    {t : Tree} (hl : ∀ x ∈ l, P x) (h : QP.Spec.disj l = some t) : P t := by
  match l, hl, h with
  | [x], hl, h => simp only [QP.Spec.disj, Option.some.injEq] at h; subst h; exact hl x (by simp)
  | x :: y :: l, hl, h => simp only [QP.Spec.disj, Option.some.injEq] at h; subst h; exact hor _ hl

/-- a property of trees that holds for the value of every ATOM and is closed under And/Or/Not
holds for every tree the grammar derives -/
theorem derives_closed {lx : QP.Lex} (P : Tree → Prop)
    (hleaf : ∀ term t, QP.Spec.atomNode lx term = some t → P t)
    (hand : ∀ xs, (∀ x ∈ xs, P x) → P (.andN xs))
    (hor : ∀ xs, (∀ x ∈ xs, P x) → P (.orN xs))
    (hnot : ∀ t, P t → P (.notN t))
    {s : QP.Spec.Sym} {ts : List QP.Tok} {v : Option Tree} {ig : List Str}
    (h : QP.Spec.Derives lx s ts v ig) : ∀ t, v = some t → P t := by
  induction h with
  | paren _ ih => exact ih
  | atoms terms hne hpos =>
    intro t ht
    refine conj_closed P hand ?_ ht
    intro x hx
    have hx' : x ∈ terms.filterMap (QP.Spec.atomNode lx) := by
      rcases List.mem_append.mp hx with h | h
      · exact (List.mem_filter.mp h).1
      · exact (List.mem_filter.mp h).1
    obtain ⟨term, _, hs⟩ := List.mem_filterMap.mp hx'
    exact hleaf term x hs
  | @andE ts0 v0 ig0 items h0 hitems ih0 ihs =>
    intro t ht
    split at ht
    · cases ht
    · refine conj_closed P hand ?_ ht
      intro x hx
      rcases List.mem_append.mp hx with hx | hx
      · rcases List.mem_append.mp hx with hx | hx
        · cases v0 with
          | none => simp [QP.Spec.optL] at hx
          | some y =>
            simp only [QP.Spec.optL, List.mem_singleton] at hx
            subst hx
            exact ih0 _ rfl
        · obtain ⟨it, hit, hv⟩ := List.mem_filterMap.mp hx
          unfold QP.Spec.posVal at hv
          split at hv
          · cases hv
          · exact ihs it hit x hv
      · obtain ⟨it, hit, hv⟩ := List.mem_filterMap.mp hx
        unfold QP.Spec.negVal at hv
        split at hv
        · cases hval : it.2.val with
          | none => rw [hval] at hv; cases hv
          | some y =>
            rw [hval] at hv
            simp only [Option.map_some, Option.some.injEq] at hv
            subst hv
            exact hnot y (ihs it hit y hval)
        · cases hv
  | @orE ts0 v0 ig0 items h0 hitems ih0 ihs =>
    intro t ht
    refine disj_closed P hor ?_ ht
    intro x hx
    rcases List.mem_append.mp hx with hx | hx
    · cases v0 with
      | none => simp [QP.Spec.optL] at hx
      | some y =>
        simp only [QP.Spec.optL, List.mem_singleton] at hx
        subst hx
        exact ih0 _ rfl
    · obtain ⟨it, hit, hv⟩ := List.mem_filterMap.mp hx
      exact ihs it hit x hv

theorem admissible_of_stable (cfg : Cfg) (fs : List Lex.Elem)
    (hpl : cfg.pipeline = .splitter :: .caseNorm :: fs) (hfs : ∀ e ∈ fs, Lex.isFilter e = true)
    (hst : StableTables cfg.tables)
    {s : QP.Spec.Sym} {ts : List QP.Tok} {v : Option Tree} {ig : List Str}
    (h : QP.Spec.Derives (lexOf cfg) s ts v ig) :
    ∀ t, v = some t → phrasesPlain t = true → admissible cfg t = true := by
  apply derives_closed (fun t => phrasesPlain t = true → admissible cfg t = true) _ _ _ _ h
  · -- the value of one ATOM
    intro term t ht
    have hwords := stable_of_tables cfg fs hpl hfs hst term
    have hleafP : ∀ u, QP.Spec.leaf (lexOf cfg) ((lexOf cfg).parseTerms term) = some u →
        phrasesPlain u = true → admissible cfg u = true := by
      intro u hu hp
      have hpt : (lexOf cfg).parseTerms term = Lex.parseTerms cfg [term] := rfl
      rw [hpt] at hu
      match hws : Lex.parseTerms cfg [term], hu with
      | [], hu => simp [QP.Spec.leaf] at hu
      | [w], hu =>
        simp only [QP.Spec.leaf, Option.some.injEq] at hu
        by_cases hg : (lexOf cfg).isGlob w = true
        · simp only [hg, if_true] at hu
          subst hu
          -- a glob token starts with a word character, which lower-cases to word characters
          have hw : w ∈ Lex.parseTerms cfg [term] := by rw [hws]; simp
          unfold Lex.parseTerms at hw
          rw [(Lex.default_pipelines cfg fs hpl hfs [term]).1] at hw
          have hw' := (List.mem_filter.mp hw).1
          simp only [List.flatMap_cons, List.flatMap_nil, List.append_nil, List.mem_map] at hw'
          obtain ⟨g, hgmem, rfl⟩ := hw'
          obtain ⟨c, r, rfl, hc, _⟩ := Lex.tokens_shape _ _ term g hgmem
          obtain ⟨h1, h2⟩ := hst.1 c hc
          simp only [admissible]
          cases hl : cfg.tables.lower c with
          | nil => exact absurd hl h1
          | cons a rest =>
            have ha : cfg.tables.isWord a = true := (h2 a (by rw [hl]; simp)).1
            simp only [Lex.lowerStr, List.flatMap_cons, hl, List.cons_append]
            have hsw : Lex.isGlobChar a = false := by
              cases hga : Lex.isGlobChar a with
              | false => rfl
              | true =>
                exfalso
                have : a = Lex.STAR ∨ a = Lex.QM := by simpa [Lex.isGlobChar] using hga
                rcases this with e | e
                · subst e; rw [hst.2.2.2.1] at ha; cases ha
                · subst e; rw [hst.2.2.2.2] at ha; cases ha
            simp [hsw]
        · simp only [hg, Bool.false_eq_true, if_false] at hu
          subst hu
          simp only [admissible]
          apply hwords w (by rw [hws]; simp)
          have hg' : Lex.isGlob w = (lexOf cfg).isGlob w := rfl
          rw [hg']; simpa using hg
      | w1 :: w2 :: ws, hu =>
        simp only [QP.Spec.leaf, Option.some.injEq] at hu
        subst hu
        simp only [phrasesPlain, List.all_eq_true, Bool.not_eq_true'] at hp
        simp only [admissible, List.all_eq_true]
        intro w hw
        exact hwords w (by rw [hws]; exact hw) (hp w hw)
    unfold QP.Spec.atomNode at ht
    cases hlf : QP.Spec.leaf (lexOf cfg) ((lexOf cfg).parseTerms term) with
    | none => rw [hlf] at ht; cases ht
    | some u =>
      rw [hlf] at ht
      simp only [Option.map_some, Option.some.injEq] at ht
      split at ht
      · subst ht
        intro hp
        simp only [phrasesPlain] at hp
        simp only [admissible]
        exact hleafP u hlf hp
      · subst ht; exact hleafP u hlf
  · intro xs hxs hp
    simp only [phrasesPlain, phrasesPlainL_iff] at hp
    simp only [admissible, admissibles_iff]
    exact fun x hx => hxs x hx (hp x hx)
  · intro xs hxs hp
    simp only [phrasesPlain, phrasesPlainL_iff] at hp
    simp only [admissible, admissibles_iff]
    exact fun x hx => hxs x hx (hp x hx)
  · intro t ht hp
    simp only [phrasesPlain] at hp
    simp only [admissible]
    exact ht hp

end Hyp.Text
