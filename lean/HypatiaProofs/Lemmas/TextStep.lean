import HypatiaProofs.Lemmas.TextInv
/-!
`index_doc` (new document and differential re-index), the four `TextIndex` operations and
histories preserve the invariant of `TextInv.lean`.
-/
set_option linter.unusedSimpArgs false
set_option linter.unusedSectionVars false
set_option linter.unusedVariables false
namespace Hyp.Text
open Hyp.QP (Str Tree)
open Hyp.Lex (Cfg getWid)
open Spec

/-! ### the lexicon component of every operation (no invariant needed) -/

theorem unindexDoc_lex (okapi : Bool) (b : Base) (d : Int) : (unindexDoc okapi b d).lex = b.lex := by
  unfold unindexDoc
  cases getWords b d with
  | none => rfl
  | some wids =>
    simp only
    exact (delAll_frame _ (distinct wids) d).1

theorem indexDoc_lex (cfg : Cfg) (okapi : Bool) (b : Base) (d : Int) (text : List Str) :
    (indexDoc cfg okapi b d text).lex = (Lex.sourceToWordIds cfg b.lex text).1 := by
  unfold indexDoc baseIndexDoc reindexDoc
  cases hsrc : Lex.sourceToWordIds cfg b.lex text with
  | mk lex' ids =>
    by_cases hc : AMap.contains b.docwords d = true
    · simp only [hc, if_true, hsrc]
      cases okapi
      · simp only [Bool.false_eq_true, if_false]
        exact (addAll_frame _ _ d).1.trans (delAll_frame _ _ d).1
      · simp only [if_true]
        exact (addAll_frame _ _ d).1.trans (delAll_frame _ _ d).1
    · simp only [hc, Bool.false_eq_true, if_false, hsrc]
      cases okapi
      · simp only [Bool.false_eq_true, if_false]
        exact (addAll_frame _ _ d).1
      · simp only [if_true]
        exact (addAll_frame _ _ d).1

theorem step_lex (cfg : Cfg) (okapi : Bool) (s : State) (op : Op) :
    (step cfg okapi s op).base.lex =
      match op with
      | .index _ (some text) => (Lex.sourceToWordIds cfg s.base.lex text).1
      | _ => s.base.lex := by
  cases op with
  | index d text =>
    cases text with
    | none => simp [step, tUnindex, unindexDoc_lex]
    | some text => simp [step, indexDoc_lex]
  | unindex d => simp [step, tUnindex, unindexDoc_lex]
  | reset => simp [step, resetBase]

theorem step_lexInv (cfg : Cfg) (okapi : Bool) {s : State} (h : Lex.Inv s.base.lex) (op : Op) :
    Lex.Inv (step cfg okapi s op).base.lex := by
  rw [step_lex]
  cases op with
  | index d text =>
    cases text with
    | none => exact h
    | some text => exact Lex.inv_createAll h _
  | unindex d => exact h
  | reset => exact h

theorem step_count_mono (cfg : Cfg) (okapi : Bool) {s : State} (h : Lex.Inv s.base.lex) (op : Op) :
    s.base.lex.count ≤ (step cfg okapi s op).base.lex.count := by
  rw [step_lex]
  cases op with
  | index d text =>
    cases text with
    | none => exact Nat.le_refl _
    | some text => exact Lex.createAll_count_mono h _
  | unindex d => exact Nat.le_refl _
  | reset => exact Nat.le_refl _

theorem foldl_count_mono (cfg : Cfg) (okapi : Bool) (h : List Op) {s : State} (hl : Lex.Inv s.base.lex) :
    s.base.lex.count ≤ (h.foldl (step cfg okapi) s).base.lex.count := by
  induction h generalizing s with
  | nil => exact Nat.le_refl _
  | cons op h ih =>
    exact Nat.le_trans (step_count_mono cfg okapi hl op) (ih (step_lexInv cfg okapi hl op))

/-! ### `index_doc` on the base index -/

theorem indexDoc_spec (cfg : Cfg) {s : State} {T : Table} (hi : Inv s T) (hs : Small s.base.lex)
    (okapi : Bool) (d : Int) (text : List Str) :
    let toks := Lex.runPipeline cfg.tables cfg.pipeline text
    let lex' := (Lex.sourceToWordIds cfg s.base.lex text).1
    let b' := indexDoc cfg okapi s.base d text
    b'.lex = lex' ∧ WI b' ∧
    b'.docwords = AMap.set s.base.docwords d (Widcode.encode (idsOf lex' toks)) ∧
    (∀ w x, x ∈ posting b' w ↔ (x ≠ d ∧ x ∈ posting s.base w) ∨ (x = d ∧ w ∈ idsOf lex' toks)) ∧
    b'.indexedCount = b'.docwords.length ∧
    b'.totalDocLen = (if okapi then
        s.base.totalDocLen - (((tokensOf T d).map List.length).getD 0 : Nat) + (toks.length : Nat)
      else s.base.totalDocLen) := by
  intro toks lex' b'
  have hres := Lex.createAll_result hi.lex toks
  cases hsrc : Lex.sourceToWordIds cfg s.base.lex text with
  | mk lx ids =>
    have hlx : lex' = lx := by simp [lex', hsrc]
    have hids : ids = idsOf lx toks := by
      have h1 : (Lex.createAll s.base.lex toks) = (lx, ids) := hsrc
      have := hres.1
      rw [h1] at this
      exact this
    rw [hlx]
    have hwi0 : ∀ (b : Base), b.wordinfo = s.base.wordinfo → b.wordCount = s.base.wordCount → WI b := by
      intro b e1 e2
      exact ⟨e1 ▸ hi.wi.wf, e1 ▸ hi.wi.nonempty, e1 ▸ hi.wi.nodup, by rw [e1, e2]; exact hi.wi.count⟩
    by_cases hc : AMap.contains s.base.docwords d = true
    · -- re-index: differential update
      have hdsome : ∃ code, AMap.get s.base.docwords d = some code := by
        unfold AMap.contains at hc
        cases hg : AMap.get s.base.docwords d with
        | none => rw [hg] at hc; cases hc
        | some c => exact ⟨c, rfl⟩
      obtain ⟨code, hcode⟩ := hdsome
      have hgw := getWords_of_inv hi hs d
      cases ht : tokensOf T d with
      | none =>
        have := hi.docwords d
        rw [ht, hcode] at this; cases this
      | some toks0 =>
        rw [ht] at hgw
        simp only [Option.map_some] at hgw
        let old := idsOf s.base.lex toks0
        let b1 : Base := { s.base with lex := lx, totalDocLen :=
          (if okapi then s.base.totalDocLen - old.length else s.base.totalDocLen) }
        let b2 := delAll b1 (LSet.diff (distinct old) (distinct ids)) d
        let b3 := addAll b2 (LSet.diff (distinct ids) (distinct old)) d
        have hb : b' = { b3 with
            docwords := AMap.set b3.docwords d (Widcode.encode ids)
            totalDocLen := (if okapi then b3.totalDocLen + ids.length else b3.totalDocLen) } := by
          simp only [b', indexDoc, baseIndexDoc, hc, if_true, reindexDoc, hsrc, hgw, Option.getD_some,
            b3, b2, b1, addAll, delAll, old]
          cases okapi <;> simp
        obtain ⟨g1, g2, g3, g4⟩ := delAll_frame b1 (LSet.diff (distinct old) (distinct ids)) d
        obtain ⟨k1, k2, k3, k4⟩ := addAll_frame b2 (LSet.diff (distinct ids) (distinct old)) d
        have hwi : WI b3 := wi_addAll (wi_delAll (hwi0 b1 rfl rfl) _ d) _ d
        rw [hb]
        refine ⟨by show b3.lex = lx; rw [k1, g1], ⟨hwi.wf, hwi.nonempty, hwi.nodup, hwi.count⟩, ?_, ?_, ?_, ?_⟩
        · show AMap.set b3.docwords d _ = _
          rw [k2, g2, hids]
        · intro w x
          show x ∈ posting b3 w ↔ _
          rw [mem_posting_addAll, mem_posting_delAll]
          have hp : posting b1 w = posting s.base w := rfl
          rw [hp, LSet.mem_diff, LSet.mem_diff, mem_distinct, mem_distinct, ← hids]
          have hold : d ∈ posting s.base w ↔ w ∈ old := by
            rw [hi.postings w d]
            constructor
            · rintro ⟨t, e1, e2⟩; rw [ht] at e1; cases e1; exact e2
            · intro h; exact ⟨toks0, ht, h⟩
          by_cases hx : x = d
          · subst hx
            simp only [ne_eq, not_true_eq_false, false_and, true_and, false_or, hold]
            by_cases ho : w ∈ old <;> by_cases hn : w ∈ ids <;> simp [ho, hn]
          · simp [hx]
        · show b3.indexedCount = ((AMap.set b3.docwords d (Widcode.encode ids)).length : Int)
          rw [k3, g3, k2, g2]
          show s.base.indexedCount = _
          rw [length_set_of_some hi.wfD hcode, hi.icount]
        · show (if okapi then b3.totalDocLen + (ids.length : Nat) else b3.totalDocLen) = _
          rw [k4, g4, hids]
          cases okapi <;> simp [b1, old, idsOf]
    · -- new document
      have hdnone : AMap.get s.base.docwords d = none := by
        unfold AMap.contains at hc
        cases hg : AMap.get s.base.docwords d with
        | none => rfl
        | some c => rw [hg] at hc; simp at hc
      have htn : tokensOf T d = none := by
        have := hi.docwords d
        rw [hdnone] at this
        cases ht : tokensOf T d with
        | none => rfl
        | some t => rw [ht] at this; cases this
      let b1 : Base := { s.base with lex := lx }
      let b2 := addAll b1 (distinct ids) d
      have hb : b' = { b2 with
          docwords := AMap.set b2.docwords d (Widcode.encode ids)
          indexedCount := b2.indexedCount + 1
          totalDocLen := (if okapi then b2.totalDocLen + ids.length else b2.totalDocLen) } := by
        simp only [b', indexDoc, baseIndexDoc, hc, Bool.false_eq_true, if_false, hsrc, b2, b1, addAll]
        cases okapi <;> simp
      obtain ⟨k1, k2, k3, k4⟩ := addAll_frame b1 (distinct ids) d
      have hwi : WI b2 := wi_addAll (hwi0 b1 rfl rfl) _ d
      rw [hb]
      refine ⟨by show b2.lex = lx; rw [k1], ⟨hwi.wf, hwi.nonempty, hwi.nodup, hwi.count⟩, ?_, ?_, ?_, ?_⟩
      · show AMap.set b2.docwords d _ = _
        rw [k2, hids]
      · intro w x
        show x ∈ posting b2 w ↔ _
        rw [mem_posting_addAll, mem_distinct, ← hids]
        have hp : posting b1 w = posting s.base w := rfl
        rw [hp]
        constructor
        · rintro (h | h)
          · refine Or.inl ⟨?_, h⟩
            rintro rfl
            obtain ⟨t, e1, _⟩ := (hi.postings w x).mp h
            rw [htn] at e1; cases e1
          · exact Or.inr h
        · rintro (⟨_, h⟩ | h)
          · exact Or.inl h
          · exact Or.inr h
      · show b2.indexedCount + 1 = ((AMap.set b2.docwords d (Widcode.encode ids)).length : Int)
        rw [k3, k2]
        show s.base.indexedCount + 1 = _
        rw [Lex.length_set_of_none hdnone, hi.icount]; simp
      · show (if okapi then b2.totalDocLen + (ids.length : Nat) else b2.totalDocLen) = _
        rw [k4, hids, htn]
        cases okapi <;> simp [b1, idsOf]

/-! ### the operations of `TextIndex` preserve the invariant -/

theorem inv_unindex {s : State} {T : Table} (hi : Inv s T) (hs : Small s.base.lex) (okapi : Bool)
    (d : Int) : Inv (tUnindex okapi s d) (AMap.erase T d) := by
  obtain ⟨h1, h2, h3, h4, h5, h6⟩ := unindexDoc_spec hi hs okapi d
  have hbase : (tUnindex okapi s d).base = unindexDoc okapi s.base d := rfl
  have hni : (tUnindex okapi s d).notIndexed = LSet.remove s.notIndexed d := rfl
  refine ⟨?_, ?_, AMap.WF_erase hi.wfT d, ?_, ?_, ?_, ?_, ?_, ?_, ?_⟩
  · rw [hbase, h1]; exact hi.lex
  · rw [hbase]; exact h2
  · rw [hbase, h3]; exact AMap.WF_erase hi.wfD d
  · intro d'
    rw [hbase, h3, h1, AMap.get_erase, tokensOf_erase]
    by_cases e : d = d'
    · simp [e]
    · simp only [e, if_false]; exact hi.docwords d'
  · intro d' toks ht w hw
    rw [hbase, h1]
    rw [tokensOf_erase] at ht
    by_cases e : d = d'
    · simp [e] at ht
    · simp only [e, if_false] at ht; exact hi.known d' toks ht w hw
  · intro w x
    rw [hbase, h4, h1, hi.postings w x]
    constructor
    · rintro ⟨⟨toks, e1, e2⟩, hx⟩
      refine ⟨toks, ?_, e2⟩
      rw [tokensOf_erase]; simp [Ne.symm hx, e1]
    · rintro ⟨toks, e1, e2⟩
      rw [tokensOf_erase] at e1
      by_cases e : d = x
      · simp [e] at e1
      · simp only [e, if_false] at e1
        exact ⟨⟨toks, e1, e2⟩, Ne.symm e⟩
  · intro d'
    rw [hni, LSet.mem_remove, hi.notIdx d', AMap.get_erase]
    by_cases e : d = d'
    · subst e; simp
    · simp [e, Ne.symm e]
  · rw [hni]; exact LSet.nodup_remove hi.notIdxNodup d
  · rw [hbase]; exact h5

theorem inv_index_none {s : State} {T : Table} (hi : Inv s T) (hs : Small s.base.lex) (okapi : Bool)
    (d : Int) : Inv (step (cfg := cfg) okapi s (.index d none)) (AMap.set T d none) := by
  have hu := inv_unindex hi hs okapi d
  have htok : ∀ d', tokensOf (AMap.set T d none) d' = tokensOf (AMap.erase T d) d' := by
    intro d'; rw [tokensOf_set, tokensOf_erase]
  refine ⟨hu.lex, hu.wi, AMap.WF_set hi.wfT _ _, hu.wfD, ?_, ?_, ?_, ?_, ?_, hu.icount⟩
  · intro d'; rw [htok]; exact hu.docwords d'
  · intro d' toks ht; rw [htok] at ht; exact hu.known d' toks ht
  · intro w x
    have := hu.postings w x
    simp only [htok]
    exact this
  · intro d'
    show d' ∈ LSet.insert (LSet.remove s.notIndexed d) d ↔ _
    rw [LSet.mem_insert, LSet.mem_remove, hi.notIdx d', AMap.get_set]
    by_cases e : d = d'
    · subst e; simp
    · simp [e, Ne.symm e]
  · exact LSet.nodup_insert (LSet.nodup_remove hi.notIdxNodup d) d

theorem inv_index_some (cfg : Cfg) {s : State} {T : Table} (hi : Inv s T) (hs : Small s.base.lex)
    (okapi : Bool) (d : Int) (text : List Str) :
    Inv (step cfg okapi s (.index d (some text)))
      (AMap.set T d (some (Lex.runPipeline cfg.tables cfg.pipeline text))) := by
  obtain ⟨h1, h2, h3, h4, h5, h6⟩ := indexDoc_spec cfg hi hs okapi d text
  let toks := Lex.runPipeline cfg.tables cfg.pipeline text
  let lex' := (Lex.sourceToWordIds cfg s.base.lex text).1
  have hli : Lex.Inv lex' := Lex.inv_createAll hi.lex toks
  have hkeep : ∀ w i, AMap.get s.base.lex.wids w = some i → AMap.get lex'.wids w = some i :=
    fun w i h => Lex.createAll_keeps hi.lex toks h
  have hnew : ∀ w ∈ toks, (AMap.get lex'.wids w).isSome := (Lex.createAll_result hi.lex toks).2
  have hstable : ∀ d' t, tokensOf T d' = some t → idsOf lex' t = idsOf s.base.lex t :=
    fun d' t ht => idsOf_stable t (hi.known d' t ht) hkeep
  have hbase : (step cfg okapi s (.index d (some text))).base = indexDoc cfg okapi s.base d text := rfl
  have hni : (step cfg okapi s (.index d (some text))).notIndexed = LSet.remove s.notIndexed d := rfl
  refine ⟨?_, ?_, AMap.WF_set hi.wfT _ _, ?_, ?_, ?_, ?_, ?_, ?_, ?_⟩
  · rw [hbase, h1]; exact hli
  · rw [hbase]; exact h2
  · rw [hbase, h3]; exact AMap.WF_set hi.wfD _ _
  · intro d'
    rw [hbase, h3, h1, AMap.get_set, tokensOf_set]
    by_cases e : d = d'
    · simp only [e, if_true, Option.map_some]
    · simp only [e, if_false]
      rw [hi.docwords d']
      cases ht : tokensOf T d' with
      | none => rfl
      | some t =>
        simp only [Option.map_some]
        rw [hstable d' t ht]
  · intro d' t ht w hw
    rw [hbase, h1]
    rw [tokensOf_set] at ht
    by_cases e : d = d'
    · simp only [e, if_true] at ht; cases ht; exact hnew w hw
    · simp only [e, if_false] at ht
      have := hi.known d' t ht w hw
      cases hg : AMap.get s.base.lex.wids w with
      | none => rw [hg] at this; cases this
      | some i => rw [hkeep w i hg]; rfl
  · intro w x
    rw [hbase, h4, h1]
    by_cases e : x = d
    · subst e
      simp only [ne_eq, not_true_eq_false, false_and, true_and, false_or, tokensOf_set, if_true]
      constructor
      · intro h; exact ⟨toks, rfl, h⟩
      · rintro ⟨t, e1, e2⟩; cases e1; exact e2
    · simp only [ne_eq, e, not_false_eq_true, true_and, false_and, or_false, tokensOf_set,
        Ne.symm e, if_false]
      rw [hi.postings w x]
      constructor
      · rintro ⟨t, e1, e2⟩; exact ⟨t, e1, by rw [hstable x t e1]; exact e2⟩
      · rintro ⟨t, e1, e2⟩; exact ⟨t, e1, by rw [← hstable x t e1]; exact e2⟩
  · intro d'
    rw [hni, LSet.mem_remove, hi.notIdx d', AMap.get_set]
    by_cases e : d = d'
    · subst e; simp
    · simp [e, Ne.symm e]
  · rw [hni]; exact LSet.nodup_remove hi.notIdxNodup d
  · rw [hbase]; exact h5

theorem inv_reset {s : State} {T : Table} (hi : Inv s T) :
    Inv { base := resetBase s.base, notIndexed := [] } [] := by
  refine ⟨hi.lex, ⟨AMap.WF_nil, ?_, ?_, rfl⟩, AMap.WF_nil, AMap.WF_nil, ?_, ?_, ?_, ?_, List.nodup_nil, rfl⟩
  · intro w ds h; simp [resetBase] at h
  · intro w ds h; simp [resetBase] at h
  · intro d; simp [tokensOf, resetBase]
  · intro d toks h; simp [tokensOf] at h
  · intro w d; simp [posting, tokensOf, resetBase]
  · intro d; simp

theorem inv_step (cfg : Cfg) (okapi : Bool) {s : State} {T : Table} (hi : Inv s T) (op : Op)
    (hs : Small (step cfg okapi s op).base.lex) : Inv (step cfg okapi s op) (stepT cfg T op) := by
  have hs0 : Small s.base.lex := by
    have := step_count_mono cfg okapi hi.lex op
    unfold Small at hs ⊢; omega
  cases op with
  | index d text =>
    cases text with
    | none => exact inv_index_none (cfg := cfg) hi hs0 okapi d
    | some text => exact inv_index_some cfg hi hs0 okapi d text
  | unindex d => exact inv_unindex hi hs0 okapi d
  | reset => exact inv_reset hi

theorem inv_foldl (cfg : Cfg) (okapi : Bool) (h : List Op) {s : State} {T : Table} (hi : Inv s T)
    (hs : Small (h.foldl (step cfg okapi) s).base.lex) :
    Inv (h.foldl (step cfg okapi) s) (h.foldl (stepT cfg) T) := by
  induction h generalizing s T with
  | nil => exact hi
  | cons op h ih =>
    simp only [List.foldl_cons] at hs ⊢
    have hs1 : Small (step cfg okapi s op).base.lex := by
      have := foldl_count_mono cfg okapi h (step_lexInv cfg okapi hi.lex op)
      unfold Small at hs ⊢; omega
    exact ih (inv_step cfg okapi hi op hs1) hs

/-- the refinement: after every history (within the 28-bit vocabulary limit of the id encoding)
the index represents the history's document table -/
theorem inv_run (cfg : Cfg) (okapi : Bool) (h : List Op) (hs : Small (run cfg okapi h).base.lex) :
    Inv (run cfg okapi h) (table cfg h) :=
  inv_foldl cfg okapi h inv_init hs

end Hyp.Text
