import HypatiaModel.Widcode

namespace Hyp.Widcode

def Valid (ws : List Nat) : Prop := ∀ w ∈ ws, w < 0x10000000

theorem valid_cons {w : Nat} {ws : List Nat} (h : Valid (w :: ws)) : w < 0x10000000 ∧ Valid ws :=
  ⟨h w (by simp), fun x hx => h x (by simp [hx])⟩

theorem valid_append {a b : List Nat} : Valid (a ++ b) ↔ Valid a ∧ Valid b := by
  unfold Valid
  constructor
  · intro h; exact ⟨fun w hw => h w (by simp [hw]), fun w hw => h w (by simp [hw])⟩
  · rintro ⟨h1, h2⟩ w hw
    rcases List.mem_append.mp hw with h | h
    · exact h1 w h
    · exact h2 w h

theorem enc1_shape (w : Nat) (hw : w < 0x10000000) :
    ∃ h t, enc1 w = h :: t ∧ 0x80 ≤ h ∧ h < 0x100 ∧ (∀ b ∈ t, b < 0x80) ∧ t.length ≤ 3 ∧
      decode1 h t = w := by
  unfold enc1
  split
  · exact ⟨_, _, rfl, by omega, by omega, by simp, by simp, by simp [decode1]⟩
  · split
    · refine ⟨_, _, rfl, by omega, by omega, ?_, by simp, ?_⟩
      · intro b hb; simp at hb; omega
      · simp [decode1]; omega
    · split
      · refine ⟨_, _, rfl, by omega, by omega, ?_, by simp, ?_⟩
        · intro b hb; simp at hb; omega
        · simp [decode1]; omega
      · refine ⟨_, _, rfl, by omega, by omega, ?_, by simp, ?_⟩
        · intro b hb; simp at hb; omega
        · simp [decode1]; omega

theorem decodeAux_cont (t : List Nat) (ht : ∀ b ∈ t, b < 0x80) (h : Nat) (t0 rest acc : List Nat) :
    decodeAux (t ++ rest) (some (h, t0)) acc = decodeAux rest (some (h, t.reverse ++ t0)) acc := by
  induction t generalizing t0 with
  | nil => simp
  | cons b bs ih =>
    have hb : b < 0x80 := ht b (by simp)
    have : ¬ (0x80 ≤ b) := by omega
    simp only [List.cons_append, decodeAux, this, if_false]
    rw [ih (fun x hx => ht x (by simp [hx]))]
    simp

theorem decodeAux_encode (ws : List Nat) (hws : Valid ws)
    (cur : Option (Nat × List Nat)) (acc : List Nat) :
    decodeAux (encode ws) cur acc =
      match cur with
      | none => acc.reverse ++ ws
      | some (h, t) => acc.reverse ++ decode1 h t.reverse :: ws := by
  induction ws generalizing cur acc with
  | nil => cases cur with
    | none => simp [encode, decodeAux]
    | some p => obtain ⟨h, t⟩ := p; simp [encode, decodeAux]
  | cons w ws ih =>
    obtain ⟨hw, hws'⟩ := valid_cons hws
    obtain ⟨h, t, he, hh, _, ht, _, hd⟩ := enc1_shape w hw
    have e : encode (w :: ws) = h :: (t ++ encode ws) := by simp [encode, he]
    rw [e]
    cases cur with
    | none =>
      simp only [decodeAux, hh, if_true]
      rw [decodeAux_cont t ht, ih hws']; simp [hd]
    | some p =>
      obtain ⟨h0, t0⟩ := p
      simp only [decodeAux, hh, if_true]
      rw [decodeAux_cont t ht, ih hws']; simp [hd]

theorem encode_append (a b : List Nat) : encode (a ++ b) = encode a ++ encode b := by
  simp [encode]

theorem encode_cons (w : Nat) (ws : List Nat) : encode (w :: ws) = enc1 w ++ encode ws := by
  simp [encode]

/-- a byte string is *aligned* if it is empty or starts with a high byte -/
def Aligned : List Nat → Prop
  | [] => True
  | b :: _ => 0x80 ≤ b

theorem aligned_encode (ws : List Nat) (h : Valid ws) : Aligned (encode ws) := by
  cases ws with
  | nil => simp [encode, Aligned]
  | cons w ws =>
    obtain ⟨hw, _⟩ := valid_cons h
    obtain ⟨hd, t, he, hh, _⟩ := enc1_shape w hw
    rw [encode_cons, he]; simpa [Aligned] using hh

/-- if `t ++ r = x ++ y` with all of `t` low and `y` aligned, then `t` is a prefix of `x` -/
theorem low_prefix_split (t : List Nat) (ht : ∀ b ∈ t, b < 0x80) (x y r : List Nat)
    (h1 : t ++ r = x ++ y) (hy : Aligned y) : ∃ x'', x = t ++ x'' ∧ r = x'' ++ y := by
  induction t generalizing x with
  | nil => exact ⟨x, rfl, by simpa using h1⟩
  | cons b t iht =>
    have hblow : b < 0x80 := ht b (by simp)
    cases x with
    | nil =>
      simp only [List.nil_append] at h1
      cases y with
      | nil => simp at h1
      | cons y0 y' =>
        simp only [List.cons_append, List.cons.injEq] at h1
        simp only [Aligned] at hy
        omega
    | cons x1 x2 =>
      simp only [List.cons_append, List.cons.injEq] at h1
      obtain ⟨e1, e2⟩ := h1
      obtain ⟨x'', hx, hr⟩ := iht (fun b hb => ht b (by simp [hb])) x2 e2
      exact ⟨x'', by simp [e1, hx], hr⟩

/-- Cutting a valid code in front of an aligned remainder cuts the id list. -/
theorem split_aligned (d : List Nat) (hd : Valid d) (x y : List Nat)
    (h : encode d = x ++ y) (hy : Aligned y) :
    ∃ d1 d2, d = d1 ++ d2 ∧ x = encode d1 ∧ y = encode d2 := by
  induction d generalizing x with
  | nil =>
    have : x = [] ∧ y = [] := by simpa [encode] using h.symm
    exact ⟨[], [], rfl, by simp [this.1, encode], by simp [this.2, encode]⟩
  | cons w ws ih =>
    obtain ⟨hw, hws⟩ := valid_cons hd
    obtain ⟨hb, t, he, hh, _, ht, _, _⟩ := enc1_shape w hw
    cases x with
    | nil =>
      exact ⟨[], w :: ws, rfl, by simp [encode], by simpa using h.symm⟩
    | cons x0 x' =>
      rw [encode_cons, he] at h
      simp only [List.cons_append, List.cons.injEq] at h
      obtain ⟨h0, h1⟩ := h
      -- t ++ encode ws = x' ++ y ; all of t is low, y is aligned
      have key := low_prefix_split t ht x' y (encode ws) h1 hy
      obtain ⟨x'', hx, hr⟩ := key
      obtain ⟨d1, d2, e1, e2, e3⟩ := ih hws x'' hr
      refine ⟨w :: d1, d2, by simp [e1], ?_, e3⟩
      rw [encode_cons, he, ← h0, hx, e2]; simp

theorem matchAt_iff (code doc : List Nat) :
    matchAt code doc = true ↔ ∃ y, doc = code ++ y ∧ Aligned y := by
  unfold matchAt
  simp only [Bool.and_eq_true, List.isPrefixOf_iff_prefix]
  constructor
  · rintro ⟨⟨y, rfl⟩, h2⟩
    refine ⟨y, rfl, ?_⟩
    simp only [List.drop_left] at h2
    cases y with
    | nil => trivial
    | cons b t => simpa [Aligned] using h2
  · rintro ⟨y, rfl, hy⟩
    refine ⟨⟨y, rfl⟩, ?_⟩
    simp only [List.drop_left]
    cases y with
    | nil => rfl
    | cons b t => simpa [Aligned] using hy

theorem phraseFind_iff (code doc : List Nat) :
    phraseFind code doc = true ↔ ∃ x y, doc = x ++ code ++ y ∧ Aligned y := by
  induction doc with
  | nil =>
    simp only [phraseFind, matchAt_iff]
    constructor
    · rintro ⟨y, h, hy⟩; exact ⟨[], y, by simpa using h, hy⟩
    · rintro ⟨x, y, h, hy⟩
      have : x = [] ∧ code = [] ∧ y = [] := by simpa [and_assoc] using h.symm
      exact ⟨[], by simp [this.2.1], trivial⟩
  | cons b rest ih =>
    simp only [phraseFind, Bool.or_eq_true, matchAt_iff, ih]
    constructor
    · rintro (⟨y, h, hy⟩ | ⟨x, y, h, hy⟩)
      · exact ⟨[], y, by simpa using h, hy⟩
      · exact ⟨b :: x, y, by simp [h], hy⟩
    · rintro ⟨x, y, h, hy⟩
      cases x with
      | nil => exact Or.inl ⟨y, by simpa using h, hy⟩
      | cons x0 x' =>
        simp only [List.cons_append, List.cons.injEq] at h
        exact Or.inr ⟨x', y, by simpa using h.2, hy⟩

theorem rawFind_iff (code doc : List Nat) :
    rawFind code doc = true ↔ ∃ x y, doc = x ++ code ++ y := by
  induction doc with
  | nil =>
    simp only [rawFind, List.isPrefixOf_iff_prefix]
    constructor
    · rintro ⟨y, h⟩; exact ⟨[], y, by simpa using h.symm⟩
    · rintro ⟨x, y, h⟩
      have : x = [] ∧ code = [] ∧ y = [] := by simpa [and_assoc] using h.symm
      exact ⟨[], by simp [this.2.1]⟩
  | cons b rest ih =>
    simp only [rawFind, Bool.or_eq_true, List.isPrefixOf_iff_prefix, ih]
    constructor
    · rintro (⟨y, h⟩ | ⟨x, y, h⟩)
      · exact ⟨[], y, by simpa using h.symm⟩
      · exact ⟨b :: x, y, by simp [h]⟩
    · rintro ⟨x, y, h⟩
      cases x with
      | nil => exact Or.inl ⟨y, by simpa using h.symm⟩
      | cons x0 x' =>
        simp only [List.cons_append, List.cons.injEq] at h
        exact Or.inr ⟨x', y, by simpa using h.2⟩

end Hyp.Widcode
