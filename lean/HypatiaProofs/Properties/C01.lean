import HypatiaProofs.Lemmas.FieldQuery

/-!
# C01  Field index answers every comparison query exactly, after any history

`run h` is the model state after history `h`, `table h` the specification's document table.
Every statement is for all histories, all constants, all docids; `V` is any value type with
the order laws `OrdLaws V` (needed only where the code relies on them: a point range
`values(q, q)` selects the key equal to `q`).
Property statements only – lemmas live in `Lemmas/Field.lean`, `Lemmas/FieldQuery.lean`.
-/
set_option linter.unusedSectionVars false
namespace Hyp.Field
open Hyp Hyp.Field.Spec

variable {V : Type} [DecidableEq V] [LT V] [DecidableLT V] [LE V] [DecidableLE V]

/-- Refinement: after any history the index's attributes represent the document table. -/
theorem c01_refinement (h : List (Op V)) : Inv (run h) (table h) := run_inv h

/-- in-range with either bound open (`none`) or exclusive -/
theorem c01_inrange (h : List (Op V)) (lo hi : Option V) (exlo exhi : Bool) (d : Int) :
    d ∈ applyInRange (run h) lo hi exlo exhi ↔
      ∃ v, valueOf (table h) d = some v ∧ inLo lo exlo v = true ∧ inHi hi exhi v = true := by
  rw [mem_applyInRange (run_inv h)]; unfold inRange; rw [mem_sat]; simp

theorem c01_eq (o : OrdLaws V) (h : List (Op V)) (c : V) (d : Int) :
    d ∈ applyEq (run h) c ↔ valueOf (table h) d = some c := by
  unfold applyEq; rw [mem_searchOr (run_inv h) o]; unfold any; rw [mem_sat]; simp

theorem c01_any (o : OrdLaws V) (h : List (Op V)) (cs : List V) (d : Int) :
    d ∈ applyAny (run h) cs ↔ ∃ v ∈ cs, valueOf (table h) d = some v := by
  unfold applyAny; rw [mem_searchOr (run_inv h) o]; unfold any; rw [mem_sat]
  constructor
  · rintro ⟨v, hv, hp⟩; exact ⟨v, by simpa using hp, hv⟩
  · rintro ⟨v, hp, hv⟩; exact ⟨v, hv, by simpa using hp⟩

theorem c01_gt (h : List (Op V)) (c : V) (d : Int) :
    d ∈ applyGt (run h) c ↔ ∃ v, valueOf (table h) d = some v ∧ c < v := by
  unfold applyGt; rw [c01_inrange]; simp [inLo, inHi]

theorem c01_ge (h : List (Op V)) (c : V) (d : Int) :
    d ∈ applyGe (run h) c ↔ ∃ v, valueOf (table h) d = some v ∧ c ≤ v := by
  unfold applyGe; rw [c01_inrange]; simp [inLo, inHi]

theorem c01_lt (h : List (Op V)) (c : V) (d : Int) :
    d ∈ applyLt (run h) c ↔ ∃ v, valueOf (table h) d = some v ∧ v < c := by
  unfold applyLt; rw [c01_inrange]; simp [inLo, inHi]

theorem c01_le (h : List (Op V)) (c : V) (d : Int) :
    d ∈ applyLe (run h) c ↔ ∃ v, valueOf (table h) d = some v ∧ v ≤ c := by
  unfold applyLe; rw [c01_inrange]; simp [inLo, inHi]

/-- the ids the index currently knows: indexed or seen without a value -/
theorem c01_docids (h : List (Op V)) (d : Int) :
    d ∈ docids (run h) ↔ (AMap.get (table h) d).isSome := by
  rw [mem_docids (run_inv h)]; unfold known; rw [AMap.mem_keys_iff]

/-- A negated query returns exactly the known ids (including value-less documents) minus the
positive answer. -/
theorem c01_noteq (o : OrdLaws V) (h : List (Op V)) (c : V) (d : Int) :
    d ∈ applyNotEq (run h) c ↔
      (AMap.get (table h) d).isSome ∧ valueOf (table h) d ≠ some c := by
  unfold applyNotEq
  rw [mem_negate (run_inv h)]; unfold neg
  rw [List.mem_filter]; unfold known; rw [AMap.mem_keys_iff]
  simp [c01_eq o]

theorem c01_notany (o : OrdLaws V) (h : List (Op V)) (cs : List V) (d : Int) :
    d ∈ applyNotAny (run h) cs ↔
      (AMap.get (table h) d).isSome ∧ ¬ ∃ v ∈ cs, valueOf (table h) d = some v := by
  unfold applyNotAny
  rw [mem_negate (run_inv h)]; unfold neg
  rw [List.mem_filter]; unfold known; rw [AMap.mem_keys_iff]
  simp only [Bool.not_eq_eq_eq_not, Bool.not_true, decide_eq_false_iff_not, c01_any o]

theorem c01_notinrange (h : List (Op V)) (lo hi : Option V) (exlo exhi : Bool) (d : Int) :
    d ∈ applyNotInRange (run h) lo hi exlo exhi ↔
      (AMap.get (table h) d).isSome ∧
        ¬ ∃ v, valueOf (table h) d = some v ∧ inLo lo exlo v = true ∧ inHi hi exhi v = true := by
  unfold applyNotInRange
  rw [mem_negate (run_inv h)]; unfold neg
  rw [List.mem_filter]; unfold known; rw [AMap.mem_keys_iff]
  simp only [Bool.not_eq_eq_eq_not, Bool.not_true, decide_eq_false_iff_not, c01_inrange]

/-- a range whose lower bound exceeds its upper bound is empty -/
theorem c01_inverted_range_empty (o : OrdLaws V) (h : List (Op V)) (lo hi : V) (exlo exhi : Bool)
    (hgt : hi < lo) (d : Int) : d ∉ applyInRange (run h) (some lo) (some hi) exlo exhi := by
  rw [c01_inrange]
  rintro ⟨v, _, h1, h2⟩
  have a : lo ≤ v := by
    cases exlo <;> simp [inLo] at h1
    · exact h1
    · exact ((o.lt_iff _ _).mp h1).1
  have b : v ≤ hi := by
    cases exhi <;> simp [inHi] at h2
    · exact h2
    · exact ((o.lt_iff _ _).mp h2).1
  exact ((o.lt_iff _ _).mp hgt).2 (o.le_trans _ _ _ a b)

/-- an empty any-list matches nothing -/
theorem c01_any_nil (h : List (Op V)) : applyAny (run h) [] = [] := by
  simp [applyAny, searchOr, multiunion]

/-- no stale ids: an id whose document was unindexed (and not indexed again) is in no answer -/
theorem c01_no_stale (h : List (Op V)) (d : Int) (lo hi : Option V) (exlo exhi : Bool) :
    d ∉ applyInRange (run (h ++ [Op.unindex d])) lo hi exlo exhi := by
  rw [c01_inrange]
  rintro ⟨v, hv, _⟩
  have : table (h ++ [Op.unindex d]) = AMap.erase (table h) d := by
    simp [table, stepT]
  rw [this, valueOf_erase] at hv
  simp at hv

/-- Finding D13 (documented legacy, not repaired): `applyEq` of a 2-tuple constant is a range
query.  The model mirrors it; the witness shows it differs from "value equals the tuple". -/
theorem c01_eq_tuple_is_range (h : List (Op V)) (a b : V) (d : Int) :
    d ∈ applyEqTuple (run h) a b ↔ d ∈ applyInRange (run h) (some a) (some b) false false := by
  unfold applyEqTuple applyInRange
  rw [mem_multiunion]; simp

/-! non-vacuity: a 6-operation history with re-index, no-value and unindex -/
example :
    let h : List (Op Int) := [.index 1 (some 5), .index 2 (some 7), .index 1 (some 7),
                               .index 3 none, .unindex 2, .index 4 (some 5)]
    applyGe (run h) 5 = [1, 4] ∧ applyEq (run h) 7 = [1] ∧ applyNotEq (run h) 7 = [4, 3] := by decide

end Hyp.Field
