import HypatiaProofs.Lemmas.KeywordQuery

/-!
# C02  Keyword index answers Eq/Any/All and negations exactly, after any history

`run h` is the model state after history `h` (operations: `index`/`reindex` with a keyword
list or without a value, a rejected `str` value, `unindex`, `reset`, and – anywhere –
`optimize()` and `tree_threshold := n` for any `n`); `table h` is the specification's document
table, `kwOf (table h) d` the document's current keyword list.  The index *knows* `d` when
`d` was last indexed without a value or has at least one keyword (`Spec.Known`).  `K` is any keyword type
with decidable equality.  Every statement is for all histories, keywords, lists and docids.
Property statements only – lemmas live in `Lemmas/Keyword*.lean`.
-/
set_option linter.unusedSectionVars false
namespace Hyp.Keyword
open Hyp Hyp.Keyword.Spec

variable {K : Type} [DecidableEq K]

/-- Refinement: after any history – whatever the thresholds, wherever `optimize()` was called –
the index, with its posting representation erased, represents the document table. -/
theorem c02_refinement (h : List (Op K)) : Inv (erase (run h)) (table h) := run_inv h

/-- 'equals k': exactly the documents whose current keyword set contains `k` -/
theorem c02_eq (h : List (Op K)) (k : K) (d : Int) :
    d ∈ applyEq (run h) k ↔ k ∈ kwOf (table h) d := mem_applyEq (run_viewOK h) k d

/-- 'any of K': exactly the documents whose keyword set meets `K` -/
theorem c02_any (h : List (Op K)) (ks : List K) (d : Int) :
    d ∈ applyAny (run h) ks ↔ ∃ k ∈ ks, k ∈ kwOf (table h) d := mem_applyAny (run_viewOK h) ks d

/-- 'all of K', `K` non-empty: exactly the documents whose keyword set includes `K` -/
theorem c02_all (h : List (Op K)) (ks : List K) (hne : ks ≠ []) (d : Int) :
    d ∈ applyAll (run h) ks ↔ ∀ k ∈ ks, k ∈ kwOf (table h) d := by
  rw [mem_applyAll (run_viewOK h)]; simp [hne]

/-- the empty list matches nothing (in any state) -/
theorem c02_all_nil (s : State K) : applyAll s [] = [] := by
  simp [applyAll, View.applyAll, View.searchAnd, Sort.isort, interLoop]

theorem c02_any_nil (s : State K) : applyAny s [] = [] := by
  simp [applyAny, View.applyAny, View.searchOr, multiunion]

/-- the ids the index currently knows -/
theorem c02_docids (h : List (Op K)) (d : Int) : d ∈ docids (run h) ↔ Known (table h) d := by
  rw [mem_docids (run_viewOK h), known_iff]

/-- each negation returns the known ids minus the positive result -/
theorem c02_noteq (h : List (Op K)) (k : K) (d : Int) :
    d ∈ applyNotEq (run h) k ↔ Known (table h) d ∧ k ∉ kwOf (table h) d := by
  rw [mem_applyNotEq (run_viewOK h), known_iff]

theorem c02_notany (h : List (Op K)) (ks : List K) (d : Int) :
    d ∈ applyNotAny (run h) ks ↔ Known (table h) d ∧ ¬ ∃ k ∈ ks, k ∈ kwOf (table h) d := by
  rw [mem_applyNotAny (run_viewOK h), known_iff]

theorem c02_notall (h : List (Op K)) (ks : List K) (hne : ks ≠ []) (d : Int) :
    d ∈ applyNotAll (run h) ks ↔ Known (table h) d ∧ ¬ ∀ k ∈ ks, k ∈ kwOf (table h) d := by
  rw [mem_applyNotAll (run_viewOK h), known_iff]; simp [hne]

/-- 'not all of []' is every known id (as 'all of []' is empty) -/
theorem c02_notall_nil (h : List (Op K)) (d : Int) :
    d ∈ applyNotAll (run h) [] ↔ Known (table h) d := by
  rw [mem_applyNotAll (run_viewOK h), known_iff]; simp

/-- no stale ids: an unindexed document is in no positive answer -/
theorem c02_no_stale (h : List (Op K)) (d : Int) (k : K) :
    d ∉ applyEq (run (h ++ [Op.unindex d])) k := by
  rw [c02_eq]
  have : table (h ++ [Op.unindex d]) = AMap.erase (table h) d := by simp [table, stepT]
  rw [this, kwOf_erase]; simp

/-- The internal `KeyError` branches of `unindex_doc` / `index_doc` are never taken: in every
reachable state, removing `d` from the postings of any duplicate-free selection of `d`'s
recorded keywords succeeds. -/
theorem c02_no_keyerror (h : List (Op K)) (d : Int) (kw : List K)
    (hr : AMap.get (run h).rev d = some kw) (ws : List K) (hsub : ∀ w ∈ ws, w ∈ kw)
    (hnd : ws.Nodup) : (unpostAll (run h).fwd d ws).2 = true := by
  have hi := run_inv h
  have e := erase_unpostAll d ws (run h).fwd
  have hin : ∀ w ∈ ws, d ∈ Plain.posting (erase (run h)).fwd w := by
    intro w hw
    rw [hi.fwd_eq]
    show w ∈ kws (run h).rev d
    unfold kws; rw [hr]; exact hsub w hw
  have := (Plain.unpostAll_spec d ws _ hi.fwd_ok hnd hin).1
  have e2 : (Plain.unpostAll (erase (run h)).fwd d ws).2 = (unpostAll (run h).fwd d ws).2 := by
    show (Plain.unpostAll (eraseFwd (run h).fwd) d ws).2 = _; rw [e]
  rw [← e2]; exact this

/-! ## representation independence -/

/-- erasing the representation tags and the threshold commutes with every operation, in
every state (reachable or not); on the erased index `optimize()` and threshold changes do
nothing -/
theorem c02_erase_step (s : State K) (op : Op K) : erase (step s op) = Plain.step (erase s) op :=
  erase_step s op

theorem c02_erase_run (h : List (Op K)) : erase (run h) = Plain.run h := erase_run h

/-- no query reads a tag: all of `applyEq … applyNotAll`, `docids` are functions of `State.view`,
and the view of a state is the view of its erasure -/
theorem c02_erase_view (s : State K) : (erase s).view = s.view := view_erase s

/-- Two histories that differ only in where `optimize()` is called and how `tree_threshold` is
set lead to the same erased index, hence to the same answer for every query. -/
theorem c02_representation_independent (h h' : List (Op K))
    (hcore : h.filter (fun op => !op.isRepr) = h'.filter (fun op => !op.isRepr)) :
    erase (run h) = erase (run h') ∧ (run h).view = (run h').view := by
  have e : erase (run h) = erase (run h') := by
    rw [erase_run, erase_run]
    unfold Plain.run
    rw [plain_foldl_filter h, plain_foldl_filter h', hcore]
  exact ⟨e, by rw [← view_erase, ← view_erase, e]⟩

/-! ## entry points -/

/-- the index entry points `applyX` compute the specification's meaning of every query -/
theorem c02_index_entry (h : List (Op K)) (q : QObj K) (d : Int) :
    d ∈ QObj.applyIndex (run h) q ↔ d ∈ Spec.sem (table h) q := applyIndex_sem (run_viewOK h) q d

/-- Query-object entry point (`index.eq(k).execute()` …): every comparator except `NotAll`
computes its meaning.  Full statement (all six comparators) fails for `NotAll` – finding D2,
see `c02_notall_object_is_all` / `c02_notall_object_differs`. -/
theorem c02_query_entry_partial (h : List (Op K)) (q : QObj K) (hq : ∀ ks, q ≠ QObj.notall ks)
    (d : Int) : d ∈ QObj.apply (run h) q ↔ d ∈ Spec.sem (table h) q := by
  rw [← c02_index_entry]
  cases q with
  | notall ks => exact absurd rfl (hq ks)
  | _ => rfl

/-- D2, mirrored from the code: `NotAll._apply` calls `applyAll` -/
theorem c02_notall_object_is_all (s : State K) (ks : List K) :
    QObj.apply s (QObj.notall ks) = applyAll s ks := rfl

/-- D2 witness: three documents `{1,2}`, `{1}`, `{4}`; `NotAll([1,2])` through the query object
answers `{1}` (= `All`), the specification and `applyNotAll` answer `{2,3}` -/
theorem c02_notall_object_differs :
    let h : List (Op Nat) := [.index 1 (some [1, 2]), .index 2 (some [1]), .index 3 (some [4])]
    QObj.apply (run h) (.notall [1, 2]) = [1] ∧ Spec.sem (table h) (.notall [1, 2]) = [3, 2] ∧
      QObj.applyIndex (run h) (.notall [1, 2]) = [3, 2] := by decide

/-! non-vacuity: a history with duplicates, growth, shrinking, an empty list, a withdrawn
document, an unindex, a threshold change and `optimize()` in the middle -/
example :
    let h : List (Op Nat) := [.setThr 2, .index 1 (some [5, 7, 5]), .index 2 (some [7]), .optimize,
                              .index 1 (some [7, 9]), .index 3 none, .index 4 (some [9]),
                              .index 4 (some []), .index 5 (some [9, 5]), .unindex 2, .setThr 1]
    applyEq (run h) 7 = [1] ∧ applyAny (run h) [5, 9] = [1, 5] ∧ applyAll (run h) [9, 5] = [5] ∧
      applyNotEq (run h) 9 = [3] ∧ applyNotAll (run h) [7, 9] = [5, 3] ∧
      (run h).fwd.map (fun e => (e.1, e.2.1)) = [(7, Tag.tree), (5, Tag.set), (9, Tag.tree)] := by
  decide

end Hyp.Keyword
