import HypatiaProofs.Lemmas.TextExec
import HypatiaProofs.Lemmas.TextStable

/-!
# C03  Text search returns exactly the documents that satisfy the query

Property statements only; lemmas are in `HypatiaProofs/Lemmas/Text{Inv,Step,Search,Exec,Stable}.lean`.

* Model: `HypatiaModel/TextIndex.lean` (`BaseIndex` with `_wordinfo` postings, `_docwords` encoded
  strings, `index_doc` → differential `reindex_doc`, `unindex_doc`, `reset`, `search`,
  `search_glob`, `search_phrase`; `TextIndex.apply / applyNotContains / applyEq / applyNotEq`) on
  top of `Lexicon.lean` (C15), `Widcode.lean` (C16), `QueryParser.lean` + `ParseTree.lean` (C14).
  Result sets are key sets; weights are C08/C20.
* Specification: `HypatiaModel/Spec/TextSpec.lean` (`table`, `sat`, `contains`, `notContains`,
  `admissible`).
* Quantifiers: every lexicon configuration `cfg` (character tables, pipeline, stop words), both
  back ends (`okapi : Bool`), every history `h` of index / re-index / no-value index / unindex /
  reset, every white-space predicate `sp`, every query string `q` the parser accepts.

Hypotheses, both explicit and decidable:
* `Small`: the lexicon holds fewer than 2^28 words – the documented limit of the id encoding
  (`widcode.py`: "The int to be encoded can contain no more than 28 bits"; beyond it `encode`
  fails an `assert`).  Nothing else depends on the vocabulary size: 1-, 2-, 3- and 4-byte ids are
  all covered.
* `admissible cfg t` (finding D14): the words of the parsed query are fixed points of the
  pipeline, because the code tokenises query words a second time (`termToWordIds` after
  `parseTerms`), and glob patterns do not start with a glob character.  `c03_admissible_default`
  derives it from a decidable condition on the character tables (`StableTables`: lower-casing a
  word character yields word characters that are their own lower case) for the pipelines
  `Splitter, CaseNormalizer, stop-word removers…` and queries whose phrases contain no `*`/`?`;
  U+0130 'İ' (lower-cases to `i` + U+0307, and U+0307 is not a word character) is the one code
  point of CPython's tables that violates it: `c03_unstable_query_misses` is the witness.
-/
namespace Hyp.Text
open Hyp.QP (Str Tree)
open Hyp.Lex (Cfg)
open Spec

/-- **Refinement.** After every history the index represents the history's document table:
postings = "documents containing a token with this id", `_docwords` = encoded token ids,
`_not_indexed` = documents without text, counters = sizes. -/
theorem c03_refinement (cfg : Cfg) (okapi : Bool) (h : List Op)
    (hs : Small (run cfg okapi h).base.lex) : Inv (run cfg okapi h) (table cfg h) :=
  inv_run cfg okapi h hs

/-- **Contains.** For every history and every query the parser accepts, `apply` returns exactly
the indexed documents whose token sequence satisfies the parsed query read as boolean logic. -/
theorem c03_apply (cfg : Cfg) (okapi : Bool) (sp : Nat → Bool) (h : List Op) (q : Str) (t : Tree)
    (ig : List Str) (hs : Small (run cfg okapi h).base.lex)
    (hp : QP.parseQuery (lexOf cfg) sp q = .ok (t, ig)) (hadm : admissible cfg t = true) :
    ∃ r, apply cfg sp (run cfg okapi h) q = .ok (some r) ∧
      ∀ d, d ∈ r ↔ ∃ toks, tokensOf (table cfg h) d = some toks ∧ sat t toks = true := by
  obtain ⟨r, h1, h2⟩ := apply_spec cfg sp (inv_run cfg okapi h hs) hs q t ig hp hadm
  exact ⟨r, h1, fun d => (h2 d).trans (satDoc_iff _ t d)⟩

/-- The same against the specification's answer (what the driver prints after `##`). -/
theorem c03_apply_eq_contains (cfg : Cfg) (okapi : Bool) (sp : Nat → Bool) (h : List Op) (q : Str)
    (t : Tree) (ig : List Str) (hs : Small (run cfg okapi h).base.lex)
    (hp : QP.parseQuery (lexOf cfg) sp q = .ok (t, ig)) (hadm : admissible cfg t = true) :
    ∃ r, apply cfg sp (run cfg okapi h) q = .ok (some r) ∧ ∀ d, d ∈ r ↔ d ∈ contains (table cfg h) t := by
  have hi := inv_run cfg okapi h hs
  obtain ⟨r, h1, h2⟩ := apply_spec cfg sp hi hs q t ig hp hadm
  refine ⟨r, h1, fun d => ?_⟩
  rw [h2 d]
  simp only [contains, List.mem_filter, iff_and_self]
  intro hsd
  obtain ⟨toks, ht, _⟩ := (satDoc_iff _ t d).mp hsd
  rw [AMap.mem_keys_iff]
  unfold tokensOf at ht
  cases hg : AMap.get (table cfg h) d with
  | none => rw [hg] at ht; cases ht
  | some v => rfl

/-- **NotContains.** `applyNotContains` returns exactly the known documents (with or without
text) that do not satisfy the query. -/
theorem c03_apply_not (cfg : Cfg) (okapi : Bool) (sp : Nat → Bool) (h : List Op) (q : Str) (t : Tree)
    (ig : List Str) (hs : Small (run cfg okapi h).base.lex)
    (hp : QP.parseQuery (lexOf cfg) sp q = .ok (t, ig)) (hadm : admissible cfg t = true) :
    ∃ r, applyNotContains cfg sp (run cfg okapi h) q = .ok r ∧
      ∀ d, d ∈ r ↔ d ∈ notContains (table cfg h) t :=
  applyNot_spec cfg sp (inv_run cfg okapi h hs) hs q t ig hp hadm

/-- Eq / NotEq on a text index mean Contains / NotContains. -/
theorem c03_eq_is_contains (cfg : Cfg) (sp : Nat → Bool) (s : State) (q : Str) :
    applyEq cfg sp s q = applyContains cfg sp s q ∧ applyNotEq cfg sp s q = applyNotContains cfg sp s q :=
  ⟨rfl, rfl⟩

/-- **Independence of the vocabulary.** The answer depends on the history only through the
document table: two histories – however many distinct words each has ever seen, in whatever
order, hence whatever ids the words got – that end with the same documents answer alike. -/
theorem c03_depends_only_on_table (cfg : Cfg) (okapi okapi' : Bool) (sp : Nat → Bool) (h h' : List Op)
    (q : Str) (t : Tree) (ig : List Str)
    (hs : Small (run cfg okapi h).base.lex) (hs' : Small (run cfg okapi' h').base.lex)
    (hT : table cfg h = table cfg h')
    (hp : QP.parseQuery (lexOf cfg) sp q = .ok (t, ig)) (hadm : admissible cfg t = true) :
    ∃ r r', apply cfg sp (run cfg okapi h) q = .ok (some r) ∧
      apply cfg sp (run cfg okapi' h') q = .ok (some r') ∧ ∀ d, d ∈ r ↔ d ∈ r' := by
  obtain ⟨r, h1, h2⟩ := apply_spec cfg sp (inv_run cfg okapi h hs) hs q t ig hp hadm
  obtain ⟨r', h1', h2'⟩ := apply_spec cfg sp (inv_run cfg okapi' h' hs') hs' q t ig hp hadm
  refine ⟨r, r', h1, h1', fun d => ?_⟩
  rw [h2 d, h2' d, hT]

/-- The individual searches (every word, known or not; every phrase; every pattern). -/
theorem c03_search_word (cfg : Cfg) (okapi : Bool) (h : List Op) (w : Str)
    (hs : Small (run cfg okapi h).base.lex) (hst : stableWord cfg w = true) :
    ∃ r, search cfg (run cfg okapi h).base w = some r ∧
      ∀ d, d ∈ r ↔ ∃ toks, tokensOf (table cfg h) d = some toks ∧ w ∈ toks := by
  obtain ⟨r, h1, h2⟩ := search_spec cfg (inv_run cfg okapi h hs) w hst
  refine ⟨r, h1, fun d => ?_⟩
  rw [h2 d, satDoc_iff]; simp [sat]

theorem c03_search_phrase (cfg : Cfg) (okapi : Bool) (h : List Op) (ws : List Str) (hne : ws ≠ [])
    (hs : Small (run cfg okapi h).base.lex) (hst : ∀ w ∈ ws, stableWord cfg w = true) (d : Int) :
    d ∈ searchPhrase cfg (run cfg okapi h).base ws ↔
      ∃ toks, tokensOf (table cfg h) d = some toks ∧ ws <:+: toks := by
  rw [searchPhrase_spec cfg (inv_run cfg okapi h hs) hs ws hne hst d, satDoc_iff]
  simp [sat, infixB_iff]

theorem c03_search_glob (cfg : Cfg) (okapi : Bool) (h : List Op) (p : Str)
    (hs : Small (run cfg okapi h).base.lex)
    (hstart : ∀ c, p.head? = some c → Lex.isGlobChar c = false) :
    ∃ r, searchGlob (run cfg okapi h).base p = .ok r ∧
      ∀ d, d ∈ r ↔ ∃ toks, tokensOf (table cfg h) d = some toks ∧ ∃ w ∈ toks, Lex.Spec.GlobMatch p w := by
  obtain ⟨r, h1, h2⟩ := searchGlob_spec (inv_run cfg okapi h hs) p hstart
  refine ⟨r, h1, fun d => ?_⟩
  rw [h2 d, satDoc_iff]; simp [sat, Lex.globMatchB_iff]

/-- The `KeyError`s of `_del_wordinfo` cannot occur: every call `unindex_doc` / `reindex_doc`
make finds its posting and its docid. -/
theorem c03_updates_defined (cfg : Cfg) (okapi : Bool) (h : List Op)
    (hs : Small (run cfg okapi h).base.lex) (d : Int) :
    updateDefined (run cfg okapi h).base d = true :=
  updateDefined_of_inv (inv_run cfg okapi h hs) hs d

/-- Rejections are clean: a query the parser rejects gives `ParseError` from `apply` and from
`applyNotContains`, whatever the state. -/
theorem c03_rejected (cfg : Cfg) (sp : Nat → Bool) (s : State) (q : Str) (e : QP.PErr)
    (hp : QP.parseQuery (lexOf cfg) sp q = .error e) :
    apply cfg sp s q = .error .parseError ∧ applyNotContains cfg sp s q = .error .parseError := by
  simp [applyNotContains, applyContains, apply, hp]

/-! ## `admissible` from the character tables (the `Stable tables` hypothesis) -/

/-- With a pipeline `Splitter, CaseNormalizer, stop-word removers…` and stable character tables,
every tree the parser returns is admissible, provided its phrases contain no `*`/`?`. -/
theorem c03_admissible_default (cfg : Cfg) (fs : List Lex.Elem)
    (hpl : cfg.pipeline = .splitter :: .caseNorm :: fs) (hfs : ∀ e ∈ fs, Lex.isFilter e = true)
    (hst : StableTables cfg.tables) (sp : Nat → Bool) (q : Str) (t : Tree) (ig : List Str)
    (hp : QP.parseQuery (lexOf cfg) sp q = .ok (t, ig)) (hplain : phrasesPlain t = true) :
    admissible cfg t = true :=
  admissible_of_stable cfg fs hpl hfs hst (QP.c14_sound (lexOf cfg) sp q t ig hp) t rfl hplain

/-- `StableTables` is decidable for tables given as finite lists (what the driver gets). -/
theorem c03_stable_tables_decidable (words : List Nat) (lowers : List (Nat × Str))
    (h : stableTablesB words lowers = true) : StableTables (tablesOfLists words lowers) :=
  stableTables_of_B words lowers h

/-! ## the hypotheses are satisfiable; the witness of D14 -/

/-- ASCII digits/letters/underscore + a few Latin-1 letters, upper case lower-cased -/
private def exWords : List Nat :=
  [48, 49, 50, 57, 65, 66, 67, 90, 95, 97, 98, 99, 100, 101, 111, 116, 120, 121, 122, 0xC9, 0xE9, 0xDF, 0x131]
private def exLowers : List (Nat × Str) :=
  [(65, [97]), (66, [98]), (67, [99]), (90, [122]), (0xC9, [0xE9])]

example : StableTables (tablesOfLists exWords exLowers) :=
  stableTables_of_B _ _ (by decide)

/-- … and with U+0130 'İ' in the table (lower case `i` U+0307; U+0307 is not a word character)
the condition fails -/
example : stableTablesB (0x130 :: 105 :: exWords) ((0x130, [105, 0x307]) :: exLowers) = false := by
  decide

private def exCfg : Cfg :=
  { tables := tablesOfLists (0x130 :: 105 :: exWords) ((0x130, [105, 0x307]) :: exLowers),
    pipeline := [.splitter, .caseNorm, .stop [[116, 111]]] }
-- documents: 1 = "a b c", 2 = "c b a to", 3 = "İ" (one token: i U+0307), 4 without text; 1 re-indexed
private def exHist : List Op :=
  [.index 1 (some [[97, 32, 120]]), .index 2 (some [[99, 32, 98, 32, 97, 32, 116, 111]]),
   .index 3 (some [[0x130]]), .index 4 none, .index 1 (some [[97, 32, 98, 32, 99]])]
private def idsOpt (r : Except QP.ExecErr (Option (List Int))) : Option (List Int) :=
  match r with | .ok (some l) => some (Sort.isort (fun a b => decide (a ≤ b)) l) | _ => none
private def exIx : QP.Index (List Int) := indexOf exCfg (run exCfg true exHist).base

-- the trees of `"a b"`, `b -c`, `a OR x`, `c*`: the model finds what `sat` says
example : idsOpt (QP.exec exIx (.phrase [[97], [98]])) = some [1] := by decide
example : idsOpt (QP.exec exIx (.andN [.atom [98], .notN (.atom [99])])) = some [] := by decide
example : idsOpt (QP.exec exIx (.orN [.atom [97], .atom [120]])) = some [1, 2] := by decide
example : idsOpt (QP.exec exIx (.glob [99, 42])) = some [1, 2] := by decide
example : Sort.isort (fun a b => decide (a ≤ b)) (docids (run exCfg true exHist)) = [1, 2, 3, 4] := by decide
example : admissible exCfg (.andN [.atom [98], .notN (.phrase [[97], [98]])]) = true := by decide

/-- **D14.** Document 3 is "İ"; its one token is `i` U+0307, and the query token "İ" becomes the
atom `i` U+0307 (one word, not a glob: `_parseAtom` makes an `AtomNode` of it) – `sat` holds, but the index does not return document 3, because the atom is
tokenised again and falls apart into `i`.  The atom is not `admissible`. -/
theorem c03_unstable_query_misses :
    (lexOf exCfg).parseTerms [0x130] = [[105, 0x307]] ∧ (lexOf exCfg).isGlob [105, 0x307] = false ∧
    tokensOf (table exCfg exHist) 3 = some [[105, 0x307]] ∧
    sat (.atom [105, 0x307]) [[105, 0x307]] = true ∧
    idsOpt (QP.exec exIx (.atom [105, 0x307])) = some [] ∧
    admissible exCfg (.atom [105, 0x307]) = false := by
  refine ⟨by decide, by decide, by decide, by decide, by decide, by decide⟩

end Hyp.Text
