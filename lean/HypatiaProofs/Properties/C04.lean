import HypatiaModel.Query

namespace Hyp.Query

/-- `Not._apply` is `negate()._apply` -/
theorem c04_not_apply (cat : Catalog) (n : Nat) (q : Q) :
    applyFuel cat (n + 1) (.not q) = applyFuel cat n (negate q) := rfl

end Hyp.Query
