import HypatiaProofs.Lemmas.QueryCompl
import HypatiaProofs.Lemmas.QueryEndToEnd

/-!
# C04  And/Or/Not compose query results as intersection, union and complement

`applyQ cat q` is the model of `q._apply(names)` / `q.execute(optimize=False)` over a catalog
whose comparators are answered at specification level.  For field and keyword/facet indexes that is
justified by a theorem, not by reference: `c04_end_to_end` composes C01/C02 with this file – the same
`_apply` composition (one definition, `applyQL`, parametric in the leaf oracle) run over the index *models*
after arbitrary histories has the same outcome on every tree (text leaves stay at specification level).
Statements only; proofs of the lemmas are in `Lemmas/Query*.lean`.
-/
namespace Hyp.Query
open Hyp

/-- `_apply` needs no evaluation budget: any budget above the tree size gives the same answer
(the model's `Not` re-enters on the negated tree; this shows the recursion is well-founded). -/
theorem c04_budget_irrelevant (cat : Catalog) (n : Nat) (q : Q) (h : size q < n) :
    applyFuel cat n q = applyQ cat q := applyFuel_applyQ cat n q h

/-- And = intersection of the operands' answers: any arity ≥ 1, operands of any index type,
empty operands in any position (the early exit of `And._apply` changes nothing). -/
theorem c04_and (cat : Catalog) (qs : List Q) (hne : qs ≠ []) (R : Q → IdSet)
    (hR : ∀ q ∈ qs, applyQ cat q = .ok (R q)) :
    ∃ r, applyQ cat (.and qs) = .ok r ∧ ∀ d, d ∈ r ↔ ∀ q ∈ qs, d ∈ R q :=
  apply_and cat qs hne R hR

/-- Or = union of the operands' answers. -/
theorem c04_or (cat : Catalog) (qs : List Q) (hne : qs ≠ []) (R : Q → IdSet)
    (hR : ∀ q ∈ qs, applyQ cat q = .ok (R q)) :
    ∃ r, applyQ cat (.or qs) = .ok r ∧ ∀ d, d ∈ r ↔ ∃ q ∈ qs, d ∈ R q :=
  apply_or cat qs hne R hR

/-- Every query whose comparators are implemented by their index classes has an answer
(nesting depth and arity arbitrary). -/
theorem c04_well_typed_succeeds (cat : Catalog) (q : Q) (hw : wellTyped cat q = true) :
    ∃ r, applyQ cat q = .ok r := applyQ_ok cat _ q (Nat.le_refl _) hw

/-- The operators `&` / `|` and the constructors `And(..)` / `Or(..)` promote operands of the
same type one level (`BoolOp.__init__`); the answer is that of the unflattened tree. -/
theorem c04_and_constructor (cat : Catalog) (qs : List Q) (hne : qs ≠ [])
    (hall : ∀ q ∈ qs, wellTyped cat q = true) (d : Int) :
    d ∈ val cat (mkAnd qs) ↔ ∀ q ∈ qs, d ∈ val cat q := val_mkAnd hne hall d

theorem c04_or_constructor (cat : Catalog) (qs : List Q) (hne : qs ≠ [])
    (hall : ∀ q ∈ qs, wellTyped cat q = true) (d : Int) :
    d ∈ val cat (mkOr qs) ↔ ∃ q ∈ qs, d ∈ val cat q := val_mkOr hne hall d

/-- `Not(q)` is executed as `q.negate()`: the two are equivalent by construction. -/
theorem c04_not_is_negate (cat : Catalog) (q : Q) : applyQ cat (.not q) = applyQ cat (negate q) :=
  applyQ_not cat q

/-- **Complement clause.** When every document supplies a value to every index (`Total`), `Not(q)` –
at any depth inside `q`, including `Not` of `And`/`Or`/`Not`, and as the outermost node – returns
exactly the catalog's documents that `q` does not return.

`wellTypedStrict` = every comparator is implemented by its index class and the tree has no
`All`/`NotAll`: for those the code violates the clause (`c04_notall_violates_complement`, finding
D2).  Full statement: the same with `wellTyped` in place of `wellTypedStrict`. -/
theorem c04_complement_partial (cat : Catalog) (ht : Total cat) (q : Q)
    (hw : wellTypedStrict cat q = true) (r r' : IdSet)
    (hq : applyQ cat q = .ok r) (hn : applyQ cat (.not q) = .ok r') :
    ∀ d, d ∈ r' ↔ d ∈ docs cat ∧ d ∉ r := by
  intro d
  have h := val_negate ht _ q (Nat.le_refl _) hw d
  rw [← val_not] at h
  simpa [val, hq, hn] using h

/-- … and `q.negate()` is equivalent to `Not(q)` in the same sense. -/
theorem c04_negate_complement_partial (cat : Catalog) (ht : Total cat) (q : Q)
    (hw : wellTypedStrict cat q = true) (d : Int) :
    d ∈ val cat (negate q) ↔ d ∈ docs cat ∧ d ∉ val cat q :=
  val_negate ht _ q (Nat.le_refl _) hw d

/-- Finding D2, proved on a witness: through the query object, `NotAll` returns the *positive*
`All` answer, so `Not(All(..))` is not the complement.  Keyword index {1:[1,2], 2:[2], 3:[3]}. -/
theorem c04_notall_violates_complement :
    let cat : Catalog := [.keyword [(1, some [1, 2]), (2, some [2]), (3, some [3])]]
    applyQ cat (.cmp .all 0 (.many [1, 2])) = .ok [1] ∧
    applyQ cat (.not (.cmp .all 0 (.many [1, 2]))) = .ok [1] ∧
    docs cat = [3, 2, 1] := ⟨rfl, rfl, rfl⟩

/-! ## composition with C01/C02: leaves answered by the index models -/

/-- **End to end.**  For all histories of all indexes of the catalog (field: index / re-index / no value /
unindex / reset, C01; keyword: the same plus `optimize()` and threshold changes, C02), for every tree:
`_apply` over the index models (`applyQM`: leaves are the models' `applyEq … applyNotInRange`, `_negate`
with its short-cuts) raises exactly when `_apply` over the specification tables raises – the same error –
and otherwise returns the same members.  So every theorem of this file and of C05 about `applyQ` holds for
the composed models. -/
theorem c04_end_to_end (hs : List IndexH) (q : Q) :
    (∀ e, applyQM (modelCatalog hs) q = .error e ↔ applyQ (specCatalog hs) q = .error e) ∧
    (∀ r, applyQM (modelCatalog hs) q = .ok r →
      ∃ r', applyQ (specCatalog hs) q = .ok r' ∧ ∀ d, d ∈ r ↔ d ∈ r') ∧
    (∀ r', applyQ (specCatalog hs) q = .ok r' →
      ∃ r, applyQM (modelCatalog hs) q = .ok r ∧ ∀ d, d ∈ r ↔ d ∈ r') := by
  have h := applyQM_refines hs q
  refine ⟨(ResEq.ok_iff h).2, (ResEq.ok_iff h).1, fun r' hr' => ?_⟩
  obtain ⟨r, hr, he⟩ := (ResEq.ok_iff (ResEq.symm h)).1 r' hr'
  exact ⟨r, hr, fun d => (he d).symm⟩

/-- the congruence behind it: `_apply` depends on the leaf answers only up to member-wise equality
(the short-cuts of `intersect`/`union` and `And`'s early exit test emptiness only) -/
theorem c04_apply_congruence (L1 L2 : Leaves) (h : LeavesEq L1 L2) (q : Q) :
    ResEq (applyQL L1 q) (applyQL L2 q) := applyQL_congr h q

/-- e.g. totality and And = intersection, transported to the composed models -/
theorem c04_and_end_to_end (hs : List IndexH) (qs : List Q)
    (hw : wellTyped (specCatalog hs) (.and qs) = true) :
    ∃ r, applyQM (modelCatalog hs) (.and qs) = .ok r ∧
      ∀ d, d ∈ r ↔ ∀ q ∈ qs, ∃ rq, applyQM (modelCatalog hs) q = .ok rq ∧ d ∈ rq := by
  obtain ⟨hne, hall⟩ := (wellTyped_and supports _ qs).mp hw
  obtain ⟨r, hr, he⟩ := (c04_end_to_end hs (.and qs)).2.2 _ (applyQ_val hw)
  refine ⟨r, hr, fun d => ?_⟩
  rw [he d, val_and hw]
  constructor
  · intro h q hq
    obtain ⟨rq, hrq, heq⟩ := (c04_end_to_end hs q).2.2 _ (applyQ_val (hall q hq))
    exact ⟨rq, hrq, (heq d).mpr (h q hq)⟩
  · intro h q hq
    obtain ⟨rq, hrq, hd⟩ := h q hq
    obtain ⟨r', hr', heq⟩ := (c04_end_to_end hs q).2.1 rq hrq
    have : r' = val (specCatalog hs) q := by simp [val, hr']
    rw [← this]; exact (heq d).mp hd

/-! non-vacuity: histories with re-index, a value-less document, unindex, an empty keyword list, a
threshold change and `optimize()`; the tree uses a range, a negated comparator and a nested `Not` -/
example :
    let hs : List IndexH :=
      [.field [.index 1 (some 5), .index 2 (some 7), .index 1 (some 8), .index 3 none, .index 4 (some 5),
               .unindex 2],
       .keyword [.setThr 2, .index 1 (some [1, 2, 1]), .index 3 (some [2]), .optimize, .index 4 (some [3]),
                 .index 5 (some []), .index 4 (some [2, 3])]]
    let q : Q := .or [.and [.range false 0 5 8 false true, .cmp .noteq 1 (.one 1)],
                      .not (.or [.cmp .le 0 (.one 7), .cmp .any 1 (.many [3])])]
    applyQM (modelCatalog hs) q = .ok [1, 4] ∧ applyQ (specCatalog hs) q = .ok [1, 4] ∧
      applyQM (modelCatalog hs) (.range true 0 5 6 false true) = .ok [1, 3] ∧
      applyQ (specCatalog hs) (.range true 0 5 6 false true) = .ok [3, 1] := ⟨rfl, rfl, rfl, rfl⟩

/-! non-vacuity: a Total catalog (field + keyword), a strict well-typed tree with nested Not -/
example :
    let cat : Catalog := [.field [(1, some 5), (2, some 7)], .keyword [(1, some [1]), (2, some [1, 2])]]
    let q : Q := .not (.and [.cmp .gt 0 (.one 4), .not (.or [.cmp .eq 1 (.one 2), .cmp .lt 0 (.one 3)])])
    wellTypedStrict cat q = true ∧ applyQ cat q = .ok [2] ∧
      applyQ cat (.not q) = .ok [1] := ⟨rfl, rfl, rfl⟩

end Hyp.Query
