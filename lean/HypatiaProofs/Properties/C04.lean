import HypatiaProofs.Lemmas.QueryCompl
import HypatiaProofs.Lemmas.QueryEndToEnd
import HypatiaProofs.Lemmas.QuerySem
import HypatiaProofs.Lemmas.QueryEndToEndExample
import HypatiaProofs.Properties.C03

/-!
# C04  And/Or/Not compose query results as intersection, union and complement

`applyQ cat q` is the model of `q._apply(names)` / `q.execute(optimize=False)` over a catalog
whose comparators are answered at specification level.  For all four index kinds that is
justified by a theorem, not by reference: `c04_end_to_end` composes C01/C02/C13/C03 with this file – the same
`_apply` composition (one definition, `applyQL`, parametric in the leaf oracle) run over the index *models*
(field, keyword, facet, text) after arbitrary histories has the same outcome on every tree; a text leaf
carries a query string of the text query language (`c04_text_leaf`).
Statements only; proofs of the lemmas are in `Lemmas/Query*.lean`.
-/
namespace Hyp.Query
open Hyp

/-- `_apply` needs no evaluation budget: any budget above the tree size gives the same answer
(the model's `Not` re-enters on the negated tree; this shows the recursion is well-founded). -/
theorem c04_budget_irrelevant (cat : Catalog) (n : Nat) (q : Q) (h : size q < n) :
    applyFuel cat n q = applyQ cat q := applyFuel_applyQ cat n q h

/-- And = intersection of the operands' answers: any arity ≥ 1, operands of any index type,
empty operands in any position (the early exit of `And._apply` changes nothing). -/
theorem c04_and (cat : Catalog) (qs : List Q) (hne : qs ≠ []) (R : Q → IdSet)
    (hR : ∀ q ∈ qs, applyQ cat q = .ok (R q)) :
    ∃ r, applyQ cat (.and qs) = .ok r ∧ ∀ d, d ∈ r ↔ ∀ q ∈ qs, d ∈ R q :=
  apply_and cat qs hne R hR

/-- Or = union of the operands' answers. -/
theorem c04_or (cat : Catalog) (qs : List Q) (hne : qs ≠ []) (R : Q → IdSet)
    (hR : ∀ q ∈ qs, applyQ cat q = .ok (R q)) :
    ∃ r, applyQ cat (.or qs) = .ok r ∧ ∀ d, d ∈ r ↔ ∃ q ∈ qs, d ∈ R q :=
  apply_or cat qs hne R hR

/-- Every query whose comparators are implemented by their index classes has an answer
(nesting depth and arity arbitrary). -/
theorem c04_well_typed_succeeds (cat : Catalog) (q : Q) (hw : wellTyped cat q = true) :
    ∃ r, applyQ cat q = .ok r := applyQ_ok cat _ q (Nat.le_refl _) hw

/-- The operators `&` / `|` and the constructors `And(..)` / `Or(..)` promote operands of the
same type one level (`BoolOp.__init__`); the answer is that of the unflattened tree. -/
theorem c04_and_constructor (cat : Catalog) (qs : List Q) (hne : qs ≠ [])
    (hall : ∀ q ∈ qs, wellTyped cat q = true) (d : Int) :
    d ∈ val cat (mkAnd qs) ↔ ∀ q ∈ qs, d ∈ val cat q := val_mkAnd hne hall d

theorem c04_or_constructor (cat : Catalog) (qs : List Q) (hne : qs ≠ [])
    (hall : ∀ q ∈ qs, wellTyped cat q = true) (d : Int) :
    d ∈ val cat (mkOr qs) ↔ ∃ q ∈ qs, d ∈ val cat q := val_mkOr hne hall d

/-- `Not(q)` is executed as `q.negate()`: the two are equivalent by construction. -/
theorem c04_not_is_negate (cat : Catalog) (q : Q) : applyQ cat (.not q) = applyQ cat (negate q) :=
  applyQ_not cat q

/-- **Complement clause.** When every document supplies a value to every index (`Total`), `Not(q)` –
at any depth inside `q`, including `Not` of `And`/`Or`/`Not`, and as the outermost node – returns
exactly the catalog's documents that `q` does not return.

`wellTypedStrict` = every comparator is implemented by its index class and the tree has no
`All`/`NotAll`: for those the code violates the clause (`c04_notall_violates_complement`, finding
D2).  Full statement: the same with `wellTyped` in place of `wellTypedStrict`. -/
theorem c04_complement_partial (cat : Catalog) (ht : Total cat) (q : Q)
    (hw : wellTypedStrict cat q = true) (r r' : IdSet)
    (hq : applyQ cat q = .ok r) (hn : applyQ cat (.not q) = .ok r') :
    ∀ d, d ∈ r' ↔ d ∈ docs cat ∧ d ∉ r := by
  intro d
  have h := val_negate ht _ q (Nat.le_refl _) hw d
  rw [← val_not] at h
  simpa [val, hq, hn] using h

/-- … and `q.negate()` is equivalent to `Not(q)` in the same sense. -/
theorem c04_negate_complement_partial (cat : Catalog) (ht : Total cat) (q : Q)
    (hw : wellTypedStrict cat q = true) (d : Int) :
    d ∈ val cat (negate q) ↔ d ∈ docs cat ∧ d ∉ val cat q :=
  val_negate ht _ q (Nat.le_refl _) hw d

/-- Finding D2, proved on a witness: through the query object, `NotAll` returns the *positive*
`All` answer, so `Not(All(..))` is not the complement.  Keyword index {1:[1,2], 2:[2], 3:[3]}. -/
theorem c04_notall_violates_complement :
    let cat : Catalog := [.keyword [(1, some [1, 2]), (2, some [2]), (3, some [3])]]
    applyQ cat (.cmp .all 0 (.many [1, 2])) = .ok [1] ∧
    applyQ cat (.not (.cmp .all 0 (.many [1, 2]))) = .ok [1] ∧
    docs cat = [3, 2, 1] := ⟨rfl, rfl, rfl⟩

/-- **`_apply` computes the set-theoretic reading.**  `sem` reads the tree as the property does: a comparator
= its own meaning, `And` = intersection, `Or` = union of the operands' sets, `Not` = complement in the catalog's
documents.  For every catalog and every tree of any depth and arity whose comparators are implemented by their
index classes: `sem` exists and `_apply` returns exactly its members – for trees containing a `Not` under the
hypothesis of the complement clause (`Total`).

Partial: `wellTypedStrict` excludes `All`/`NotAll` (finding D2, `c04_notall_violates_complement`); full
statement: the same with `wellTyped`. -/
theorem c04_apply_is_sem_partial (cat : Catalog) (q : Q) (hw : wellTypedStrict cat q = true)
    (hT : Total cat ∨ noNot q = true) :
    ∃ r r', applyQ cat q = .ok r ∧ sem cat q = .ok r' ∧ ∀ d, d ∈ r ↔ d ∈ r' := by
  obtain ⟨r', h1, h2⟩ := sem_val cat _ q (Nat.le_refl _) hw hT
  exact ⟨val cat q, r', applyQ_val (strict_wellTyped hw), h1, fun d => (h2 d).symm⟩

/-! ## composition with C01/C02/C13/C03: leaves answered by the index models -/

/-- **End to end.**  For all histories of all indexes of the catalog – field (index / re-index / no value /
unindex / reset, C01), keyword (the same plus `optimize()` and threshold changes, C02), facet (configured
facet set, paths, C13), text (lexicon configuration, both back ends, C03) – and for every tree:
`_apply` over the index models (`applyQM`: leaves are the models' `applyEq … applyNotInRange`,
`applyContains/applyNotContains` of the query *strings*, `_negate` with its short-cuts) raises exactly when
`_apply` over the specification tables raises – the same error – and otherwise returns the same members.
So every theorem of this file and of C05 about `applyQ` holds for the composed models.

Hypotheses, both decidable and evaluated by the driver: `HistsOK` = C03's hypotheses for every text index of
the catalog (`histOK`: fewer than 2^28 words, every query string of its dictionary accepted by the parser and
`admissible` – finding D14); `leavesListed` = the tree's text leaves name query strings of the dictionary.
Nothing is assumed about field, keyword and facet indexes (`c04_end_to_end_no_text`). -/
theorem c04_end_to_end (hs : List IndexH) (q : Q) (hok : HistsOK hs) (hq : leavesListed hs q = true) :
    (∀ e, applyQM (modelCatalog hs) q = .error e ↔ applyQ (specCatalog hs) q = .error e) ∧
    (∀ r, applyQM (modelCatalog hs) q = .ok r →
      ∃ r', applyQ (specCatalog hs) q = .ok r' ∧ ∀ d, d ∈ r ↔ d ∈ r') ∧
    (∀ r', applyQ (specCatalog hs) q = .ok r' →
      ∃ r, applyQM (modelCatalog hs) q = .ok r ∧ ∀ d, d ∈ r ↔ d ∈ r') := by
  have h := applyQM_refines hs hok q hq
  refine ⟨(ResEq.ok_iff h).2, (ResEq.ok_iff h).1, fun r' hr' => ?_⟩
  obtain ⟨r, hr, he⟩ := (ResEq.ok_iff (ResEq.symm h)).1 r' hr'
  exact ⟨r, hr, fun d => (he d).symm⟩

/-- …without hypotheses for catalogs of field, keyword and facet indexes (the statement `c04_end_to_end` had
before facet and text models joined the composition, now including facet indexes) -/
theorem c04_end_to_end_no_text (hs : List IndexH) (hnt : hs.all noText = true) (q : Q) :
    (∀ e, applyQM (modelCatalog hs) q = .error e ↔ applyQ (specCatalog hs) q = .error e) ∧
    (∀ r, applyQM (modelCatalog hs) q = .ok r →
      ∃ r', applyQ (specCatalog hs) q = .ok r' ∧ ∀ d, d ∈ r ↔ d ∈ r') ∧
    (∀ r', applyQ (specCatalog hs) q = .ok r' →
      ∃ r, applyQM (modelCatalog hs) q = .ok r ∧ ∀ d, d ∈ r ↔ d ∈ r') :=
  c04_end_to_end hs q (histsOK_of_noText hs hnt) (leavesListed_of_noText hs hnt q)

/-- what a text leaf of the composed catalog is: `Contains x` on a text index model is
`TextIndex.applyContains` of the `x`-th query string and – by C03 (`c03_apply`) – returns exactly the
documents whose token sequence satisfies the parsed string read as boolean logic -/
theorem c04_text_leaf (cfg : Lex.Cfg) (okapi : Bool) (sp : Nat → Bool) (qs : List QP.Str) (h : List Text.Op)
    (hok : histOK (.text cfg okapi sp qs h) = true) (x : Nat) (hx : x < qs.length) :
    ∃ t ig r, QP.parseQuery (Text.lexOf cfg) sp qs[x] = .ok (t, ig) ∧
      Text.applyContains cfg sp (Text.run cfg okapi h) qs[x] = .ok (some r) ∧
      applyQM (modelCatalog [.text cfg okapi sp qs h]) (.cmp .contains 0 (.one x)) = .ok r ∧
      ∀ d, d ∈ r ↔ ∃ toks, Text.Spec.tokensOf (Text.Spec.table cfg h) d = some toks ∧
        Text.Spec.sat t toks = true := by
  obtain ⟨hs, hq⟩ := histOK_text hok
  obtain ⟨t, ig, hp, hadm⟩ := queryOK_spec (hq _ (List.getElem_mem hx))
  obtain ⟨r, h1, h2⟩ := Text.c03_apply cfg okapi sp h qs[x] t ig hs hp hadm
  refine ⟨t, ig, r, hp, h1, ?_, h2⟩
  have hn : nth qs [] (x : Int) = qs[x] := by
    have : ¬ ((x : Int) < 0) := by omega
    unfold nth; simp [List.getElem?_eq_getElem hx, this]
  show (do let ix ← getIndexM [IndexM.text cfg sp qs (Text.run cfg okapi h)] 0; leafIndexM ix .contains (.one x)) = _
  simp only [getIndexM, List.getElem?_cons_zero, bind, Except.bind, leafIndexM, Cmp.positive, leafPosM, textPos,
    hn]
  rw [show Text.applyContains cfg sp (Text.run cfg okapi h) qs[x] = .ok (some r) from h1]

/-- the congruence behind it: `_apply` depends on the leaf answers only up to member-wise equality
(the short-cuts of `intersect`/`union` and `And`'s early exit test emptiness only) -/
theorem c04_apply_congruence (L1 L2 : Leaves) (h : LeavesEq L1 L2) (q : Q) :
    ResEq (applyQL L1 q) (applyQL L2 q) := applyQL_congr h q

/-- …and only at the leaves of the tree -/
theorem c04_apply_leaves_only (L1 L2 : Leaves) (p : Cmp → Nat → Val → Bool)
    (hp : ∀ c i v, p c i v = true → p c.negate i v = true)
    (hc : ∀ c i v, p c i v = true → L1.cmp c i v = L2.cmp c i v) (hr : L1.range = L2.range)
    (q : Q) (hq : leavesAll p q = true) : applyQL L1 q = applyQL L2 q :=
  applyQL_ext hp hc (fun _ _ _ _ _ _ => by rw [hr]) q hq

/-- e.g. totality and And = intersection, transported to the composed models -/
theorem c04_and_end_to_end (hs : List IndexH) (qs : List Q) (hok : HistsOK hs)
    (hq : leavesListed hs (.and qs) = true)
    (hw : wellTyped (specCatalog hs) (.and qs) = true) :
    ∃ r, applyQM (modelCatalog hs) (.and qs) = .ok r ∧
      ∀ d, d ∈ r ↔ ∀ q ∈ qs, ∃ rq, applyQM (modelCatalog hs) q = .ok rq ∧ d ∈ rq := by
  obtain ⟨hne, hall⟩ := (wellTyped_and supports _ qs).mp hw
  have hqs := (leavesAll_and _ qs).mp hq
  obtain ⟨r, hr, he⟩ := (c04_end_to_end hs (.and qs) hok hq).2.2 _ (applyQ_val hw)
  refine ⟨r, hr, fun d => ?_⟩
  rw [he d, val_and hw]
  constructor
  · intro h q hq
    obtain ⟨rq, hrq, heq⟩ := (c04_end_to_end hs q hok (hqs q hq)).2.2 _ (applyQ_val (hall q hq))
    exact ⟨rq, hrq, (heq d).mpr (h q hq)⟩
  · intro h q hq
    obtain ⟨rq, hrq, hd⟩ := h q hq
    obtain ⟨r', hr', heq⟩ := (c04_end_to_end hs q hok (hqs q hq)).2.1 rq hrq
    have : r' = val (specCatalog hs) q := by simp [val, hr']
    rw [← this]; exact (heq d).mp hd

/-! non-vacuity: histories with re-index, a value-less document, unindex, an empty keyword list, a
threshold change and `optimize()`; the tree uses a range, a negated comparator and a nested `Not` -/
example :
    let hs : List IndexH :=
      [.field [.index 1 (some 5), .index 2 (some 7), .index 1 (some 8), .index 3 none, .index 4 (some 5),
               .unindex 2],
       .keyword [.setThr 2, .index 1 (some [1, 2, 1]), .index 3 (some [2]), .optimize, .index 4 (some [3]),
                 .index 5 (some []), .index 4 (some [2, 3])]]
    let q : Q := .or [.and [.range false 0 5 8 false true, .cmp .noteq 1 (.one 1)],
                      .not (.or [.cmp .le 0 (.one 7), .cmp .any 1 (.many [3])])]
    applyQM (modelCatalog hs) q = .ok [1, 4] ∧ applyQ (specCatalog hs) q = .ok [1, 4] ∧
      applyQM (modelCatalog hs) (.range true 0 5 6 false true) = .ok [1, 3] ∧
      applyQ (specCatalog hs) (.range true 0 5 6 false true) = .ok [3, 1] := ⟨rfl, rfl, rfl, rfl⟩

/-! non-vacuity with all four kinds (`exHs`, `Lemmas/QueryEndToEndExample.lean`): a field index with a re-index
and a value-less document, a keyword index, a facet index with hierarchical paths, a repeated configured
facet, `optimize()` and a name that is not configured, and a text index (stop word, upper-case, re-index,
a document without text) with the query strings `b`, `a b`, `b AND NOT c`.  The catalog satisfies `HistsOK`,
the tree `leavesListed` and `wellTyped`; its answer is `{1}` (evaluated: `applyQM` and `applyQ` both print
`[1]`, and `[2, 3]` / `[3, 2]` for `Not` of it); the text leaf is proved to return `[1]`. -/
private def exQ : Q :=
  .and [.cmp .contains 3 (.one 2), .cmp .eq 2 (.one 1), .not (.cmp .lt 0 (.one 6)), .cmp .notany 1 (.many [7])]

example : HistsOK exHs ∧ leavesListed exHs exQ = true ∧ leavesListed exHs (.not exQ) = true ∧
    wellTyped (specCatalog exHs) exQ = true := ⟨exHs_ok, by decide, by decide, by decide⟩

example : applyQM (modelCatalog exHs) (.cmp .contains 3 (.one 2)) = .ok [1] := by
  show (do let ix ← getIndexM (modelCatalog exHs) 3; leafIndexM ix .contains (.one 2)) = _
  simp only [getIndexM, modelCatalog, exHs, List.map, modelIndex, List.getElem?_cons_succ,
    List.getElem?_cons_zero, bind, Except.bind, leafIndexM, Cmp.positive, leafPosM, textPos, Text.applyContains,
    Text.apply, nth, exQs]
  simp only [show ¬ ((2 : Int) < 0) by decide, if_false, show (2 : Int).toNat = 2 from rfl,
    List.getElem?_cons_succ, List.getElem?_cons_zero, Option.getD, ex_parse2]
  rfl

/-- the facet and field/keyword leaves of the same catalog evaluate by `rfl` -/
example :
    applyQM (modelCatalog exHs) (.and [.cmp .eq 2 (.one 1), .not (.cmp .lt 0 (.one 6)),
      .cmp .notany 1 (.many [7])]) = .ok [1] ∧
    applyQM (modelCatalog exHs) (.cmp .any 2 (.many [0, 3, 17])) = .ok [1, 2] ∧
    applyQM (modelCatalog exHs) (.cmp .noteq 2 (.one 2)) = .ok [1, 3] := ⟨rfl, rfl, rfl⟩

/-! non-vacuity: a Total catalog (field + keyword), a strict well-typed tree with nested Not -/
example :
    let cat : Catalog := [.field [(1, some 5), (2, some 7)], .keyword [(1, some [1]), (2, some [1, 2])]]
    let q : Q := .not (.and [.cmp .gt 0 (.one 4), .not (.or [.cmp .eq 1 (.one 2), .cmp .lt 0 (.one 3)])])
    wellTypedStrict cat q = true ∧ applyQ cat q = .ok [2] ∧
      applyQ cat (.not q) = .ok [1] := ⟨rfl, rfl, rfl⟩

end Hyp.Query
