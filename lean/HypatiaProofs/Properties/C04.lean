import HypatiaProofs.Lemmas.QueryCompl

/-!
# C04  And/Or/Not compose query results as intersection, union and complement

`applyQ cat q` is the model of `q._apply(names)` / `q.execute(optimize=False)` over a catalog
whose comparators are answered at specification level (C01/C02/C03 justify that).
Statements only; proofs of the lemmas are in `Lemmas/Query*.lean`.
-/
namespace Hyp.Query
open Hyp

/-- `_apply` needs no evaluation budget: any budget above the tree size gives the same answer
(the model's `Not` re-enters on the negated tree; this shows the recursion is well-founded). -/
theorem c04_budget_irrelevant (cat : Catalog) (n : Nat) (q : Q) (h : size q < n) :
    applyFuel cat n q = applyQ cat q := applyFuel_applyQ cat n q h

/-- And = intersection of the operands' answers: any arity ≥ 1, operands of any index type,
empty operands in any position (the early exit of `And._apply` changes nothing). -/
theorem c04_and (cat : Catalog) (qs : List Q) (hne : qs ≠ []) (R : Q → IdSet)
    (hR : ∀ q ∈ qs, applyQ cat q = .ok (R q)) :
    ∃ r, applyQ cat (.and qs) = .ok r ∧ ∀ d, d ∈ r ↔ ∀ q ∈ qs, d ∈ R q :=
  apply_and cat qs hne R hR

/-- Or = union of the operands' answers. -/
theorem c04_or (cat : Catalog) (qs : List Q) (hne : qs ≠ []) (R : Q → IdSet)
    (hR : ∀ q ∈ qs, applyQ cat q = .ok (R q)) :
    ∃ r, applyQ cat (.or qs) = .ok r ∧ ∀ d, d ∈ r ↔ ∃ q ∈ qs, d ∈ R q :=
  apply_or cat qs hne R hR

/-- Every query whose comparators are implemented by their index classes has an answer
(nesting depth and arity arbitrary). -/
theorem c04_well_typed_succeeds (cat : Catalog) (q : Q) (hw : wellTyped cat q = true) :
    ∃ r, applyQ cat q = .ok r := applyQ_ok cat _ q (Nat.le_refl _) hw

/-- The operators `&` / `|` and the constructors `And(..)` / `Or(..)` promote operands of the
same type one level (`BoolOp.__init__`); the answer is that of the unflattened tree. -/
theorem c04_and_constructor (cat : Catalog) (qs : List Q) (hne : qs ≠ [])
    (hall : ∀ q ∈ qs, wellTyped cat q = true) (d : Int) :
    d ∈ val cat (mkAnd qs) ↔ ∀ q ∈ qs, d ∈ val cat q := val_mkAnd hne hall d

theorem c04_or_constructor (cat : Catalog) (qs : List Q) (hne : qs ≠ [])
    (hall : ∀ q ∈ qs, wellTyped cat q = true) (d : Int) :
    d ∈ val cat (mkOr qs) ↔ ∃ q ∈ qs, d ∈ val cat q := val_mkOr hne hall d

/-- `Not(q)` is executed as `q.negate()`: the two are equivalent by construction. -/
theorem c04_not_is_negate (cat : Catalog) (q : Q) : applyQ cat (.not q) = applyQ cat (negate q) :=
  applyQ_not cat q

/-- **Complement clause.** When every document supplies a value to every index (`Total`), `Not(q)` –
at any depth inside `q`, including `Not` of `And`/`Or`/`Not`, and as the outermost node – returns
exactly the catalog's documents that `q` does not return.

`wellTypedStrict` = every comparator is implemented by its index class and the tree has no
`All`/`NotAll`: for those the code violates the clause (`c04_notall_violates_complement`, finding
D2).  Full statement: the same with `wellTyped` in place of `wellTypedStrict`. -/
theorem c04_complement_partial (cat : Catalog) (ht : Total cat) (q : Q)
    (hw : wellTypedStrict cat q = true) (r r' : IdSet)
    (hq : applyQ cat q = .ok r) (hn : applyQ cat (.not q) = .ok r') :
    ∀ d, d ∈ r' ↔ d ∈ docs cat ∧ d ∉ r := by
  intro d
  have h := val_negate ht _ q (Nat.le_refl _) hw d
  rw [← val_not] at h
  simpa [val, hq, hn] using h

/-- … and `q.negate()` is equivalent to `Not(q)` in the same sense. -/
theorem c04_negate_complement_partial (cat : Catalog) (ht : Total cat) (q : Q)
    (hw : wellTypedStrict cat q = true) (d : Int) :
    d ∈ val cat (negate q) ↔ d ∈ docs cat ∧ d ∉ val cat q :=
  val_negate ht _ q (Nat.le_refl _) hw d

/-- Finding D2, proved on a witness: through the query object, `NotAll` returns the *positive*
`All` answer, so `Not(All(..))` is not the complement.  Keyword index {1:[1,2], 2:[2], 3:[3]}. -/
theorem c04_notall_violates_complement :
    let cat : Catalog := [.keyword [(1, some [1, 2]), (2, some [2]), (3, some [3])]]
    applyQ cat (.cmp .all 0 (.many [1, 2])) = .ok [1] ∧
    applyQ cat (.not (.cmp .all 0 (.many [1, 2]))) = .ok [1] ∧
    docs cat = [3, 2, 1] := ⟨rfl, rfl, rfl⟩

/-! non-vacuity: a Total catalog (field + keyword), a strict well-typed tree with nested Not -/
example :
    let cat : Catalog := [.field [(1, some 5), (2, some 7)], .keyword [(1, some [1]), (2, some [1, 2])]]
    let q : Q := .not (.and [.cmp .gt 0 (.one 4), .not (.or [.cmp .eq 1 (.one 2), .cmp .lt 0 (.one 3)])])
    wellTypedStrict cat q = true ∧ applyQ cat q = .ok [2] ∧
      applyQ cat (.not q) = .ok [1] := ⟨rfl, rfl, rfl⟩

end Hyp.Query
