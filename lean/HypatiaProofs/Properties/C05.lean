import HypatiaProofs.Lemmas.Optimize

/-!
# C05  Query optimization never changes a query's result

Full statement (for every catalog `cat` and well-typed tree `q`):

    applyQ cat q = .ok r  →  ∃ r', applyQ cat (optimize q) = .ok r' ∧ ∀ d, d ∈ r' ↔ d ∈ r

The unchanged code violates it in three recorded ways (D2, D3, D5 – witnesses proved below), so it
cannot be proved as stated.  What is proved here, for all inputs, are the correctness of every
rewriting step the optimiser performs (`…_step` theorems: each is the exact equation that the
corresponding rewrite relies on, with the hypothesis that excludes the finding made explicit) and
the structural facts; the composition of the steps over the whole tree is tied to the code by the
correspondence run (optimised tree shapes and results are compared on every sampled tree).
`c05_partial` is therefore the conjunction of per-step theorems, not yet the induction over the
pairing loop.
-/
namespace Hyp.Query
open Hyp

/-- `optimize` is a function of the tree: it cannot modify its argument (purity by type); the
harness checks the Python object's structure and node identities before/after. -/
theorem c05_budget_irrelevant (n : Nat) (q : Q) (h : size q < n) : optFuel n q = optimize q :=
  optFuel_eq n (size q + 1) q h (by omega)

/-- comparators and ranges are returned unchanged -/
theorem c05_leaf_unchanged (c : Cmp) (i : Nat) (v : Val) : optimize (.cmp c i v) = .cmp c i v := rfl

/-- `Not._optimize = negate()._optimize()` -/
theorem c05_not_step (q : Q) : optimize (.not q) = optimize (negate q) := optimize_not q

/-- …which preserves the result because `Not._apply` is `negate()._apply` as well. -/
theorem c05_not_step_sound (cat : Catalog) (q : Q) :
    applyQ cat (.not q) = applyQ cat (negate q) := applyQ_not cat q

/-- what `_optimize_eq` / `_optimize_not_eq` fold: exactly lists of `c`-comparators with scalar
values on one index -/
theorem c05_fold_recognises (c : Cmp) (qs : List Q) (i : Nat) (xs : List Int)
    (h : foldSame c qs = some (i, xs)) : xs ≠ [] ∧ qs = xs.map (fun x => .cmp c i (.one x)) :=
  foldSame_spec c qs i xs h

/-- `Or(Eq,…,Eq)` → `Any` is sound on field and keyword/facet indexes -/
theorem c05_or_eq_any_step (cat : Catalog) (i : Nat) (ix : IndexT) (hi : cat[i]? = some ix)
    (hk : ∀ t, ix ≠ .text t) (xs : List Int) (hne : xs ≠ []) (d : Int) :
    d ∈ val cat (.or (xs.map fun x => .cmp .eq i (.one x))) ↔ d ∈ val cat (.cmp .any i (.many xs)) :=
  fold_or_eq_any hi hk xs hne d

/-- `And(Eq,…,Eq)` → `All` is sound on keyword/facet indexes (partial: a field or text index has no
`applyAll` – finding D3, `c05_d3_witness`) -/
theorem c05_and_eq_all_step_partial (cat : Catalog) (i : Nat) (t : AMap Int (Option (List Int)))
    (hi : cat[i]? = some (.keyword t)) (xs : List Int) (hne : xs ≠ []) (d : Int) :
    d ∈ val cat (.and (xs.map fun x => .cmp .eq i (.one x))) ↔ d ∈ val cat (.cmp .all i (.many xs)) :=
  fold_and_eq_all hi xs hne d

/-- the `And` pairing step: `InRange(lo, hi)` = lower bound ∩ upper bound, all four strictness
combinations, contradictory bounds and `lo > hi` included -/
theorem c05_and_pairing_step (cat : Catalog) (i : Nat) (t : Field.Spec.Table Int)
    (hi : cat[i]? = some (.field t)) (lo hi' : Int) (exlo exhi : Bool) (d : Int) :
    d ∈ val cat (.range false i lo hi' exlo exhi) ↔
      d ∈ val cat (.cmp (lowerCmp exlo) i (.one lo)) ∧ d ∈ val cat (.cmp (upperCmp exhi) i (.one hi')) :=
  inrange_pairing hi lo hi' exlo exhi d

/-- the `Or` pairing step: `NotInRange(a, b)` = `Lt/Le a` ∪ `Gt/Ge b` (partial: when every document of
the index has a value – otherwise finding D5, `c05_d5_witness`) -/
theorem c05_or_pairing_step_partial (cat : Catalog) (i : Nat) (t : Field.Spec.Table Int)
    (hi : cat[i]? = some (.field t)) (hval : HasValues (.field t))
    (a b : Int) (strictLt strictGt : Bool) (d : Int) :
    d ∈ val cat (.range true i a b (!strictLt) (!strictGt)) ↔
      d ∈ val cat (.cmp (upperCmp strictLt) i (.one a)) ∨ d ∈ val cat (.cmp (lowerCmp strictGt) i (.one b)) :=
  notinrange_pairing hi hval a b strictLt strictGt d

/-- the repaired pairing loop on the defect D4 input: the third bound is kept -/
theorem c05_d4_repaired :
    optimize (.and [.cmp .gt 0 (.one 1), .cmp .lt 0 (.one 6), .cmp .lt 0 (.one 10)]) =
      .and [.range false 0 1 6 true true, .cmp .lt 0 (.one 10)] := rfl

/-- D3: folding onto a comparator the index lacks – unoptimised succeeds, optimised raises -/
theorem c05_d3_witness :
    let cat : Catalog := [.field [(1, some 1), (2, some 5), (3, some 7)]]
    let q : Q := .or [.cmp .noteq 0 (.one 5), .cmp .noteq 0 (.one 7)]
    applyQ cat q = .ok [2, 1, 3] ∧ applyQ cat (optimize q) = .error .attributeError := ⟨rfl, rfl⟩

/-- D5: `Or(Lt 2, Gt 6)` → `NotInRange(2,6)` gains the value-less document 6 -/
theorem c05_d5_witness :
    let cat : Catalog := [.field [(6, none), (3, some 7), (2, some 5), (1, some 1)]]
    let q : Q := .or [.cmp .lt 0 (.one 2), .cmp .gt 0 (.one 6)]
    applyQ cat q = .ok [3, 1] ∧ applyQ cat (optimize q) = .ok [6, 3, 1] := ⟨rfl, rfl⟩

/-- D2: `Or(NotEq,NotEq)` → `NotAll`, which executes `applyAll` -/
theorem c05_d2_witness :
    let cat : Catalog := [.keyword [(3, some [3]), (2, some [2]), (1, some [1, 2])]]
    let q : Q := .or [.cmp .noteq 0 (.one 1), .cmp .noteq 0 (.one 2)]
    applyQ cat q = .ok [3, 2] ∧ applyQ cat (optimize q) = .ok [1] := ⟨rfl, rfl⟩

end Hyp.Query
