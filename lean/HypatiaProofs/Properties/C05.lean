import HypatiaModel.Query

namespace Hyp.Query

/-- comparators and ranges are left alone by the optimiser -/
theorem c05_placeholder (n : Nat) (c : Cmp) (i : Nat) (v : Val) :
    optFuel (n + 1) (.cmp c i v) = .cmp c i v := rfl

end Hyp.Query
