import HypatiaProofs.Lemmas.OptimizeSound
import HypatiaProofs.Lemmas.OptimizeExact
import HypatiaProofs.Lemmas.QueryEndToEnd

/-!
# C05  Query optimization never changes a query's result

Full statement (for every catalog `cat` and every tree `q`):

    applyQ cat q = .ok r  →  ∃ r', applyQ cat (optimize q) = .ok r' ∧ ∀ d, d ∈ r' ↔ d ∈ r

The unchanged code violates it in three recorded ways (D2, D3, D5 – witnesses proved below), so it
cannot be proved as stated.  `c05_optimize_sound_partial` / `c05_optimize_succeeds_partial` prove it for
**every catalog and every tree of any arity and depth** under two decidable hypotheses:

* `wellTyped cat q` – every comparator of the tree is one its index class implements (on other trees
  the unoptimised execution succeeds or fails depending on evaluation order and `And._apply`'s early
  exit; `c05_illtyped_order_witness` shows the optimiser can then turn a success into an error);
* `OptSafe cat q` – following the optimiser down the tree, no rewrite meets D3 (a fold onto a comparator
  the index class lacks), D2 (a fold producing `NotAll`, executed as `applyAll`) or D5 (an Or-pairing
  into `NotInRange` on a field index that has value-less documents).  `hazards cat q` names them; each
  excluded region contains a proved counterexample (`c05_d2_witness`, `c05_d3_witness`, `c05_d5_witness`),
  and nothing else is excluded.

The proof is an induction on the tree (through the optimiser's budget) with the loop theorem
`pairLoop_forall` for the lowers/uppers pairing loops (invariant `LoopInv`: the processed prefix keeps its
meaning; every `lowers`/`uppers` entry points at a live, unpaired bound of its index).  The `…_step`
theorems below are the equations the individual rewrites rely on.
-/
namespace Hyp.Query
open Hyp

/-- **Optimisation preserves the answer** (same id set), outside D2/D3/D5. -/
theorem c05_optimize_sound_partial (cat : Catalog) (q : Q) (hw : wellTyped cat q = true)
    (hsafe : OptSafe cat q = true) : ∀ d, d ∈ val cat (optimize q) ↔ d ∈ val cat q :=
  (optimize_sound cat q hw hsafe).2

/-- **…and succeeds whenever the unoptimised execution succeeds**, with the same members. -/
theorem c05_optimize_succeeds_partial (cat : Catalog) (q : Q) (hw : wellTyped cat q = true)
    (hsafe : OptSafe cat q = true) (r : IdSet) (hr : applyQ cat q = .ok r) :
    ∃ r', applyQ cat (optimize q) = .ok r' ∧ ∀ d, d ∈ r' ↔ d ∈ r := by
  obtain ⟨h1, h2⟩ := optimize_sound cat q hw hsafe
  refine ⟨val cat (optimize q), applyQ_val h1, fun d => ?_⟩
  rw [h2 d]; simp [val, hr]

/-- the optimised tree is again well-typed (so it can be optimised or negated again) -/
theorem c05_optimize_well_typed_partial (cat : Catalog) (q : Q) (hw : wellTyped cat q = true)
    (hsafe : OptSafe cat q = true) : wellTyped cat (optimize q) = true :=
  (optimize_sound cat q hw hsafe).1

/-- **Composed with C01/C02/C13/C03** (`c04_end_to_end`): over the index *models* of all four kinds after
arbitrary histories of every index, the optimised tree succeeds where the unoptimised does and returns the
same members.  Partial for the same reason as above (`wellTyped`, `OptSafe`, evaluated on the specification
tables of the histories); `HistsOK` / `leavesListed` are C03's hypotheses for the text indexes of the
catalog (see `c04_end_to_end`) – the optimiser keeps a tree's text leaves inside the dictionary
(`c05_optimize_keeps_text_leaves`). -/
theorem c05_end_to_end_partial (hs : List IndexH) (q : Q) (hok : HistsOK hs) (hq : leavesListed hs q = true)
    (hw : wellTyped (specCatalog hs) q = true) (hsafe : OptSafe (specCatalog hs) q = true) :
    ∃ r r', applyQM (modelCatalog hs) q = .ok r ∧ applyQM (modelCatalog hs) (optimize q) = .ok r' ∧
      ∀ d, d ∈ r' ↔ d ∈ r := by
  obtain ⟨hwo, hv⟩ := optimize_sound _ q hw hsafe
  obtain ⟨r, hr, he⟩ := (ResEq.ok_iff (ResEq.symm (applyQM_refines hs hok q hq))).1 _ (applyQ_val hw)
  obtain ⟨r', hr', he'⟩ := (ResEq.ok_iff (ResEq.symm (applyQM_refines hs hok (optimize q)
    (leavesListed_optimize hs q hq)))).1 _ (applyQ_val hwo)
  exact ⟨r, r', hr, hr', fun d => by rw [← he' d, hv d, he d]⟩

/-- `_optimize` (negation, folds, pairing loops, re-construction) never moves a text leaf outside the
dictionary of query strings: every `Contains/NotContains/Eq/NotEq` leaf of the optimised tree on a text index
carries a value of the original tree -/
theorem c05_optimize_keeps_text_leaves (hs : List IndexH) (q : Q) (hq : leavesListed hs q = true) :
    leavesListed hs (optimize q) = true := leavesListed_optimize hs q hq

/-- the pairing loops (any arity): with `P` a predicate that the range node built from a matched pair
turns into the conjunction of the pair, "all operands satisfy `P`" is unchanged by the loop -/
theorem c05_pairing_loop (kA kB : Kind) (mk : MkRange) (P : Q → Prop) (qs : List Q)
    (hdisj : ∀ q x y, kA q = some x → kB q = some y → False)
    (hmk : ∀ qa ∈ qs, ∀ qb ∈ qs, ∀ idx a sa b sb, kA qa = some (idx, a, sa) → kB qb = some (idx, b, sb) →
      (P (mk idx a sa b sb) ↔ P qa ∧ P qb)) :
    (∀ q ∈ pairLoop (genStep kA kB mk) qs, P q) ↔ (∀ q ∈ qs, P q) :=
  pairLoop_forall hdisj hmk

/-- …of which `And._optimize`'s and `Or._optimize`'s loops are the two instances -/
theorem c05_pairing_loop_instances :
    andStep = genStep lowerOf upperOf mkInRange ∧ orStep = genStep upperOf lowerOf mkNotInRange :=
  ⟨andStep_eq, orStep_eq⟩

/-- `optimize` is a function of the tree: it cannot modify its argument (purity by type); the
harness checks the Python object's structure and node identities before/after. -/
theorem c05_budget_irrelevant (n : Nat) (q : Q) (h : size q < n) : optFuel n q = optimize q :=
  optFuel_eq n (size q + 1) q h (by omega)

/-- comparators and ranges are returned unchanged -/
theorem c05_leaf_unchanged (c : Cmp) (i : Nat) (v : Val) : optimize (.cmp c i v) = .cmp c i v := rfl

/-- `Not._optimize = negate()._optimize()` -/
theorem c05_not_step (q : Q) : optimize (.not q) = optimize (negate q) := optimize_not q

/-- …which preserves the result because `Not._apply` is `negate()._apply` as well. -/
theorem c05_not_step_sound (cat : Catalog) (q : Q) :
    applyQ cat (.not q) = applyQ cat (negate q) := applyQ_not cat q

/-- what `_optimize_eq` / `_optimize_not_eq` fold: exactly lists of `c`-comparators with scalar
values on one index -/
theorem c05_fold_recognises (c : Cmp) (qs : List Q) (i : Nat) (xs : List Int)
    (h : foldSame c qs = some (i, xs)) : xs ≠ [] ∧ qs = xs.map (fun x => .cmp c i (.one x)) :=
  foldSame_spec c qs i xs h

/-- `Or(Eq,…,Eq)` → `Any` is sound on field and keyword/facet indexes -/
theorem c05_or_eq_any_step (cat : Catalog) (i : Nat) (ix : IndexT) (hi : cat[i]? = some ix)
    (hk : ∀ t, ix ≠ .text t) (xs : List Int) (hne : xs ≠ []) (d : Int) :
    d ∈ val cat (.or (xs.map fun x => .cmp .eq i (.one x))) ↔ d ∈ val cat (.cmp .any i (.many xs)) :=
  fold_or_eq_any hi hk xs hne d

/-- `And(Eq,…,Eq)` → `All` is sound on keyword/facet indexes (partial: a field or text index has no
`applyAll` – finding D3, `c05_d3_witness`) -/
theorem c05_and_eq_all_step_partial (cat : Catalog) (i : Nat) (t : AMap Int (Option (List Int)))
    (hi : cat[i]? = some (.keyword t)) (xs : List Int) (hne : xs ≠ []) (d : Int) :
    d ∈ val cat (.and (xs.map fun x => .cmp .eq i (.one x))) ↔ d ∈ val cat (.cmp .all i (.many xs)) :=
  fold_and_eq_all hi xs hne d

/-- the `And` pairing step: `InRange(lo, hi)` = lower bound ∩ upper bound, all four strictness
combinations, contradictory bounds and `lo > hi` included -/
theorem c05_and_pairing_step (cat : Catalog) (i : Nat) (t : Field.Spec.Table Int)
    (hi : cat[i]? = some (.field t)) (lo hi' : Int) (exlo exhi : Bool) (d : Int) :
    d ∈ val cat (.range false i lo hi' exlo exhi) ↔
      d ∈ val cat (.cmp (lowerCmp exlo) i (.one lo)) ∧ d ∈ val cat (.cmp (upperCmp exhi) i (.one hi')) :=
  inrange_pairing hi lo hi' exlo exhi d

/-- the `Or` pairing step: `NotInRange(a, b)` = `Lt/Le a` ∪ `Gt/Ge b` (partial: when every document of
the index has a value – otherwise finding D5, `c05_d5_witness`) -/
theorem c05_or_pairing_step_partial (cat : Catalog) (i : Nat) (t : Field.Spec.Table Int)
    (hi : cat[i]? = some (.field t)) (hval : HasValues (.field t))
    (a b : Int) (strictLt strictGt : Bool) (d : Int) :
    d ∈ val cat (.range true i a b (!strictLt) (!strictGt)) ↔
      d ∈ val cat (.cmp (upperCmp strictLt) i (.one a)) ∨ d ∈ val cat (.cmp (lowerCmp strictGt) i (.one b)) :=
  notinrange_pairing hi hval a b strictLt strictGt d

/-- the repaired pairing loop on the defect D4 input: the third bound is kept -/
theorem c05_d4_repaired :
    optimize (.and [.cmp .gt 0 (.one 1), .cmp .lt 0 (.one 6), .cmp .lt 0 (.one 10)]) =
      .and [.range false 0 1 6 true true, .cmp .lt 0 (.one 10)] := rfl

/-- D3: folding onto a comparator the index lacks – unoptimised succeeds, optimised raises.  The tree
is well-typed and D3 is the only hypothesis of the theorem it violates. -/
theorem c05_d3_witness :
    let cat : Catalog := [.field [(1, some 1), (2, some 5), (3, some 7)]]
    let q : Q := .or [.cmp .noteq 0 (.one 5), .cmp .noteq 0 (.one 7)]
    wellTyped cat q = true ∧ hazards cat q = [.d3] ∧
      applyQ cat q = .ok [2, 1, 3] ∧ applyQ cat (optimize q) = .error .attributeError := ⟨rfl, rfl, rfl, rfl⟩

/-- D3 also through `And(Eq,Eq)` → `All` on a field index -/
theorem c05_d3_witness_and :
    let cat : Catalog := [.field [(1, some 1), (2, some 5), (3, some 7)]]
    let q : Q := .and [.cmp .eq 0 (.one 5), .cmp .eq 0 (.one 7)]
    wellTyped cat q = true ∧ hazards cat q = [.d3] ∧
      applyQ cat q = .ok [] ∧ applyQ cat (optimize q) = .error .attributeError := ⟨rfl, rfl, rfl, rfl⟩

/-- D5: `Or(Lt 2, Gt 6)` → `NotInRange(2,6)` gains the value-less document 6 -/
theorem c05_d5_witness :
    let cat : Catalog := [.field [(6, none), (3, some 7), (2, some 5), (1, some 1)]]
    let q : Q := .or [.cmp .lt 0 (.one 2), .cmp .gt 0 (.one 6)]
    wellTyped cat q = true ∧ hazards cat q = [.d5] ∧
      applyQ cat q = .ok [3, 1] ∧ applyQ cat (optimize q) = .ok [6, 3, 1] := ⟨rfl, rfl, rfl, rfl⟩

/-- …and the same tree over the same index without the value-less document is inside the theorem -/
example :
    let cat : Catalog := [.field [(3, some 7), (2, some 5), (1, some 1)]]
    let q : Q := .or [.cmp .lt 0 (.one 2), .cmp .gt 0 (.one 6)]
    wellTyped cat q = true ∧ OptSafe cat q = true ∧ optimize q = .range true 0 2 6 false false ∧
      applyQ cat q = .ok [3, 1] ∧ applyQ cat (optimize q) = .ok [3, 1] := ⟨rfl, rfl, rfl, rfl, rfl⟩

/-- D2: `Or(NotEq,NotEq)` → `NotAll`, which executes `applyAll` -/
theorem c05_d2_witness :
    let cat : Catalog := [.keyword [(3, some [3]), (2, some [2]), (1, some [1, 2])]]
    let q : Q := .or [.cmp .noteq 0 (.one 1), .cmp .noteq 0 (.one 2)]
    wellTyped cat q = true ∧ hazards cat q = [.d2] ∧
      applyQ cat q = .ok [3, 2] ∧ applyQ cat (optimize q) = .ok [1] := ⟨rfl, rfl, rfl, rfl⟩

/-- D2 is reached through `Not` as well: `Not(And(Eq,Eq))` negates to `Or(NotEq,NotEq)` first -/
theorem c05_d2_witness_not :
    let cat : Catalog := [.keyword [(3, some [3]), (2, some [2]), (1, some [1, 2])]]
    let q : Q := .not (.and [.cmp .eq 0 (.one 1), .cmp .eq 0 (.one 2)])
    wellTyped cat q = true ∧ hazards cat q = [.d2] ∧
      applyQ cat q = .ok [3, 2] ∧ applyQ cat (optimize q) = .ok [1] := ⟨rfl, rfl, rfl, rfl⟩

/-- a `NotAll` that is already in the tree is *not* excluded: the optimiser leaves it alone and both
executions call `applyAll` -/
example :
    let cat : Catalog := [.keyword [(3, some [3]), (2, some [2]), (1, some [1, 2])]]
    let q : Q := .and [.cmp .notall 0 (.many [1, 2]), .not (.cmp .all 0 (.many [2]))]
    wellTyped cat q = true ∧ OptSafe cat q = true := ⟨rfl, rfl⟩

/-- Outside `wellTyped` (not one of the recorded findings; the check leaves such trees undetermined):
`Contains` does not exist on a field index; unoptimised, `And`'s early exit never evaluates it; the
pairing moves the range to the end, so the optimised tree evaluates it first. -/
theorem c05_illtyped_order_witness :
    let cat : Catalog := [.field [(1, some 5), (2, some 7), (3, some 9)]]
    let q : Q := .and [.cmp .lt 0 (.one 3), .cmp .contains 0 (.one 1), .cmp .gt 0 (.one 1)]
    wellTyped cat q = false ∧ optimize q = .and [.cmp .contains 0 (.one 1), .range false 0 1 3 true true] ∧
      applyQ cat q = .ok [] ∧ applyQ cat (optimize q) = .error .attributeError := ⟨rfl, rfl, rfl, rfl⟩

/-! ## the excluded regions are exact (for every catalog, not only on the witnesses) -/

/-- D3: whenever the optimiser's result for a well-typed tree is a folded `Any/All/NotAny/NotAll` its index
class lacks, the unoptimised execution succeeds and the optimised one raises `AttributeError` -/
theorem c05_d3_exact (cat : Catalog) (q : Q) (hw : wellTyped cat q = true) (c : Cmp) (i : Nat) (xs : List Int)
    (hopt : optimize q = .cmp c i (.many xs)) (hc : c = .any ∨ c = .all ∨ c = .notany ∨ c = .notall)
    (ix : IndexT) (hi : cat[i]? = some ix) (hs : supports ix c = false) :
    (∃ r, applyQ cat q = .ok r) ∧ applyQ cat (optimize q) = .error .attributeError :=
  ⟨applyQ_ok cat _ q (Nat.le_refl _) hw, by rw [hopt]; exact folded_unsupported_raises cat c i xs hc ix hi hs⟩

/-- D5: `Or(Lt/Le a, Gt/Ge b)` on a field index gains *every* value-less document of that index – so the
hypothesis "the index has no value-less documents" cannot be weakened -/
theorem c05_d5_exact (cat : Catalog) (i : Nat) (t : Field.Spec.Table Int) (hi : cat[i]? = some (.field t))
    (d : Int) (hk : d ∈ Field.Spec.known t) (hv : Field.Spec.valueOf t d = none) (a b : Int) (s1 s2 : Bool) :
    d ∈ val cat (optimize (.or [.cmp (upperCmp s1) i (.one a), .cmp (lowerCmp s2) i (.one b)])) ∧
      d ∉ val cat (.or [.cmp (upperCmp s1) i (.one a), .cmp (lowerCmp s2) i (.one b)]) :=
  valueless_gained hi d hk hv a b s1 s2

/-- D2: `Or(NotEq,…,NotEq)` on a keyword/facet index is folded to `NotAll`; on every document the index
knows, the optimised answer is the opposite of the unoptimised one -/
theorem c05_d2_exact (cat : Catalog) (i : Nat) (t : AMap Int (Option (List Int)))
    (hi : cat[i]? = some (.keyword t)) (qs : List Q) (xs : List Int)
    (h : foldSame .noteq qs = some (i, xs)) (d : Int) (hk : d ∈ kwKnown t) :
    d ∈ val cat (optimize (.or qs)) ↔ d ∉ val cat (.or qs) :=
  notall_fold_flips hi h d hk

/-! ## non-vacuity of `c05_optimize_sound_partial` -/

/-- four range bounds on one index plus one on another, contradictory bounds, nested `Not` over `Or`,
a keyword fold – inside the hypotheses, and the optimiser really rewrites the tree -/
example :
    let cat : Catalog := [.field [(1, some 1), (2, some 5), (3, some 7), (4, none)],
                          .keyword [(1, some [1, 2]), (2, some [2]), (3, some [3])],
                          .field [(1, some 3), (2, some 4)]]
    let q : Q := .and [.cmp .gt 0 (.one 0), .cmp .lt 0 (.one 6), .cmp .lt 0 (.one 10), .cmp .ge 0 (.one 5),
                       .cmp .le 2 (.one 4),
                       .not (.or [.cmp .lt 0 (.one 2), .not (.or [.cmp .eq 1 (.one 2), .cmp .eq 1 (.one 3)])])]
    wellTyped cat q = true ∧ OptSafe cat q = true ∧
      optimize q = .and [.range false 0 0 6 true true, .range false 0 5 10 false true, .cmp .le 2 (.one 4),
                         .cmp .ge 0 (.one 2), .cmp .any 1 (.many [2, 3])] ∧
      applyQ cat q = .ok [2] ∧ applyQ cat (optimize q) = .ok [2] := ⟨rfl, rfl, rfl, rfl, rfl⟩

/-- contradictory bounds (`lo > hi`) and an Or-pairing on an index whose documents all have values -/
example :
    let cat : Catalog := [.field [(1, some 1), (2, some 5), (3, some 7)]]
    let q : Q := .or [.and [.cmp .gt 0 (.one 6), .cmp .lt 0 (.one 2)],
                      .cmp .le 0 (.one 1), .cmp .ge 0 (.one 7), .cmp .gt 0 (.one 100)]
    wellTyped cat q = true ∧ OptSafe cat q = true ∧
      optimize q = .or [.range false 0 6 2 true true, .range true 0 1 7 true true, .cmp .gt 0 (.one 100)] ∧
      applyQ cat q = .ok [3, 1] ∧ applyQ cat (optimize q) = .ok [1, 3] := ⟨rfl, rfl, rfl, rfl, rfl⟩

end Hyp.Query
