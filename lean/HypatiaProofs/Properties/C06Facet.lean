import HypatiaProofs.Lemmas.FacetObs

/-!
# C06 (facet index)  Bookkeeping matches a fresh index built from the current contents

`run F0 h` is the model state of a `FacetIndex` configured with the facet list `F0` (any list,
duplicates allowed) after history `h` – `index_doc`/`reindex_doc` with a list of facet paths
(possibly empty, matching none / some / nested facets) or without a value, `unindex_doc`, `reset`,
and anywhere the inherited `optimize()` and `tree_threshold := n` for **any** `n`; `table h` maps a
docid to the paths last supplied (`none` = withdrawn).  A document is *listed* under
`listed F (pathsOf T d)`: the configured facets that are a ':'-prefix of one of its paths.
`ObsSpec F s T`: what `indexed()`, `not_indexed()`, `docids()`, the three `*_count`s, `word_count`,
`unique_values`, `document_repr` (and the hidden `_num_docs`) report, stated over `T`.
`ObsEq s s'`: the states cannot be told apart through that API.
Property statements only – lemmas live in `Lemmas/FacetObs.lean`.
-/
set_option linter.unusedSectionVars false
namespace Hyp.Facet
open Hyp Hyp.Keyword Hyp.Facet.Spec

theorem run_snoc (F0 : List Facet) (h : List Op) (op : Op) : run F0 (h ++ [op]) = step (run F0 h) op := by
  simp [run, List.foldl_append]

theorem table_snoc (h : List Op) (op : Op) : table (h ++ [op]) = Spec.stepT (table h) op := by
  simp [table, List.foldl_append]

/-- after any history: indexed/not_indexed are disjoint, their union is docids, every count is the size
of its (duplicate-free) set, `_num_docs` is the number of indexed documents, word_count /
unique_values are exactly the configured facets some document is still listed under, and
document_repr shows the facets the document is listed under (the default exactly for ids that are
not indexed – withdrawn, unknown, or matching no configured facet). -/
theorem c06_facet_bookkeeping (F0 : List Facet) (h : List Op) :
    ObsSpec (dedup F0) (run F0 h) (table h) := obsSpec_of_finv (run_finv F0 h)

/-- **fresh-index equivalence**: the index after any history is observationally equal to a new index
over the same facets – with any `tree_threshold` – that indexed just the current docid ↦ paths
mapping once. -/
theorem c06_facet_fresh (F0 : List Facet) (h : List Op) (thr : Nat) :
    ObsEq (run F0 h) (fresh F0 thr (table h)) :=
  obsEq_of_finv (run_finv F0 h) (run_finv F0 _)
    (sameListing_of_get (fun d => (table_freshOps (table h) (table_wf h) d).symm))

/-- **history independence**: histories whose current contents give every document the same listing
(and withdraw the same ids) are indistinguishable -/
theorem c06_facet_history_independent (F0 : List Facet) (h h' : List Op)
    (hsame : SameListing (dedup F0) (table h) (table h')) : ObsEq (run F0 h) (run F0 h') :=
  obsEq_of_finv (run_finv F0 h) (run_finv F0 h') hsame

/-- in particular for histories with literally the same docid ↦ paths mapping -/
theorem c06_facet_history_independent_get (F0 : List Facet) (h h' : List Op)
    (hsame : ∀ d, AMap.get (table h) d = AMap.get (table h') d) : ObsEq (run F0 h) (run F0 h') :=
  c06_facet_history_independent F0 h h' (sameListing_of_get hsame)

/-- reindex_doc (= index_doc for this class) is equivalent to unindex_doc followed by index_doc -/
theorem c06_facet_reindex (F0 : List Facet) (h : List Op) (d : Int) (v : Option (List Facet)) :
    ObsEq (run F0 (h ++ [.index d v])) (run F0 (h ++ [.unindex d, .index d v])) := by
  apply c06_facet_history_independent_get
  intro d'
  simp only [table, List.foldl_append, List.foldl_cons, List.foldl_nil, Spec.stepT]
  exact (get_set_erase _ d v d').symm

/-- unindexing an id the index does not know is a no-op: the state is literally unchanged -/
theorem c06_facet_unindex_unknown (F0 : List Facet) (h : List Op) (d : Int)
    (hunk : d ∉ docids (run F0 h)) : run F0 (h ++ [.unindex d]) = run F0 h := by
  have o := c06_facet_bookkeeping F0 h
  have hi : d ∉ indexed (run F0 h) := fun hc => hunk ((o.docids_union d).mpr (Or.inl hc))
  have hn : d ∉ (run F0 h).ks.notIndexed := fun hc => hunk ((o.docids_union d).mpr (Or.inr hc))
  have hr : AMap.get (run F0 h).ks.rev d = none := (AMap.not_mem_keys_iff _ d).mp hi
  rw [run_snoc]
  show { run F0 h with ks := Keyword.unindexDoc (run F0 h).ks d } = run F0 h
  unfold Keyword.unindexDoc
  simp only [hr, LSet.remove_of_not_mem hn]

/-- unindexing removes every trace of the id – in particular from the posting of every prefix facet -/
theorem c06_facet_unindex_erases (F0 : List Facet) (h : List Op) (d : Int) :
    let s := run F0 (h ++ [.unindex d])
    d ∉ indexed s ∧ d ∉ notIndexed s ∧ d ∉ docids s ∧ documentRepr s d = none ∧
      ∀ f, d ∉ Keyword.posting s.ks.fwd f := by
  have o := c06_facet_bookkeeping F0 (h ++ [Op.unindex d])
  have ht : AMap.get (table (h ++ [Op.unindex d])) d = none := by
    rw [table_snoc]; simp [Spec.stepT, AMap.get_erase]
  have hk : listed (dedup F0) (pathsOf (table (h ++ [Op.unindex d])) d) = [] := by
    simp [pathsOf, ht, listed]
  have hi : d ∉ indexed (run F0 (h ++ [Op.unindex d])) := by rw [o.indexed_mem, hk]; simp
  refine ⟨hi, ?_, ?_, ?_, ?_⟩
  · rw [o.not_indexed_mem, ht]; simp
  · rw [o.docids_mem, ht, hk]; simp
  · exact (o.document_repr_default d).mpr hi
  · intro f hc
    have := ((facet_run_viewOK F0 (h ++ [Op.unindex d])).post f d).mp hc
    rw [kwOf_kwTable, hk] at this; cases this

/-- reset gives exactly the state of a new index over the same facets (the instance's
`tree_threshold` is not part of the index's contents and stays) -/
theorem c06_facet_reset (F0 : List Facet) (h : List Op) :
    run F0 (h ++ [.reset]) = { init F0 with ks := { thr := (run F0 h).ks.thr } } := by
  rw [run_snoc]
  show { run F0 h with ks := Keyword.reset (run F0 h).ks } = _
  have hF : (run F0 h).facets = dedup F0 := (run_finv F0 h).1
  unfold Keyword.reset init
  rw [← hF]

/-- … and is therefore indistinguishable from a new index, also after any further history -/
theorem c06_facet_reset_then (F0 : List Facet) (h g : List Op) :
    ObsEq (run F0 (h ++ .reset :: g)) (run F0 g) := by
  apply c06_facet_history_independent_get
  intro d
  simp [table, List.foldl_append, Spec.stepT]

/-! non-vacuity: facets `{a, a:b, c}`; nested and unmatched paths, re-indexing identical content,
value ↔ no value, an empty path list, threshold 1 and `optimize()`.  Segments a=1 b=2 c=3 x=9. -/
example :
    let F0 : List Facet := [[1], [1, 2], [3], [1]]
    let h : List Op := [.setThr 1, .index 1 (some [[1, 2, 9]]), .index 1 (some [[1, 2, 9]]), .index 2 (some [[3]]),
      .index 3 (some [[9]]), .index 4 none, .optimize, .index 2 none, .index 4 (some [[1]]), .index 5 (some []),
      .index 6 (some [[3, 9]]), .unindex 6]
    indexed (run F0 h) = [4, 1] ∧ notIndexed (run F0 h) = [2] ∧ wordCount (run F0 h) = 2 ∧
      indexedCount (run F0 h) = 2 ∧ Keyword.numDocsCounter (run F0 h).ks = 2 ∧ docidsCount (run F0 h) = 3 ∧
      documentRepr (run F0 h) 3 = none ∧ 3 ∉ docids (run F0 h) ∧
      documentRepr (run F0 h) 1 = some [[1, 2], [1]] := by
  decide

end Hyp.Facet
