import HypatiaProofs.Lemmas.FieldObs

/-!
# C06 (field index)  Bookkeeping matches a fresh index built from the current contents

`ObsSpec s t`: everything `indexed()`, `not_indexed()`, `docids()`, the three `*_count`s,
`word_count`, `unique_values`, `document_repr` report, stated over the document table `t`.
`ObsEq s s'`: two index states cannot be told apart through that API.
-/
set_option linter.unusedSectionVars false
namespace Hyp.Field
open Hyp Hyp.Field.Spec

variable {V : Type} [DecidableEq V] [LT V] [DecidableLT V] [LE V] [DecidableLE V]

/-- after any history: indexed/not_indexed are disjoint, their union is docids, every count is the size
of its (duplicate-free) set, word_count / unique_values are exactly the values still in use, and
document_repr is the current value (the default exactly for ids that are not indexed). -/
theorem c06_field_bookkeeping (h : List (Op V)) : ObsSpec (run h) (table h) :=
  obsSpec_of_inv (run_inv h)

/-- **fresh-index equivalence**: the index after any history is observationally equal to a new index
that indexed just the current docid ↦ value mapping once. -/
theorem c06_field_fresh (h : List (Op V)) : ObsEq (run h) (run (freshOps (table h))) :=
  obsEq_of_inv (run_inv h) (run_inv _) (fun d => (table_freshOps (table h) (run_inv h).wf_t d).symm)

/-- histories with the same current contents are indistinguishable (history independence) -/
theorem c06_field_history_independent (h h' : List (Op V))
    (hsame : ∀ d, AMap.get (table h) d = AMap.get (table h') d) : ObsEq (run h) (run h') :=
  obsEq_of_inv (run_inv h) (run_inv h') hsame

/-- reindex_doc is equivalent to unindex_doc followed by index_doc -/
theorem c06_field_reindex (h : List (Op V)) (d : Int) (v : Option V) :
    ObsEq (run (h ++ [.index d v])) (run (h ++ [.unindex d, .index d v])) := by
  apply c06_field_history_independent
  intro d'
  simp only [table, List.foldl_append, List.foldl_cons, List.foldl_nil, stepT]
  exact (get_set_erase _ d v d').symm

/-- unindexing an unknown id is a no-op -/
theorem c06_field_unindex_unknown (h : List (Op V)) (d : Int)
    (hunk : AMap.get (table h) d = none) : ObsEq (run (h ++ [.unindex d])) (run h) := by
  apply c06_field_history_independent
  intro d'
  simp only [table, List.foldl_append, List.foldl_cons, List.foldl_nil, stepT]
  rw [AMap.get_erase]
  split
  · next e => subst e; exact hunk.symm
  · rfl

/-- unindexing removes every trace of the id -/
theorem c06_field_unindex_erases (h : List (Op V)) (d : Int) :
    let s := run (h ++ [.unindex d])
    d ∉ indexed s ∧ d ∉ s.notIndexed ∧ d ∉ docids s ∧ documentRepr s d = none ∧
      ∀ v, d ∉ (AMap.get s.fwd v).getD [] := by
  have hi := run_inv (h ++ [Op.unindex d])
  have o := obsSpec_of_inv hi
  have ht : AMap.get (table (h ++ [Op.unindex d])) d = none := by
    simp [table, stepT, AMap.get_erase]
  have hv : valueOf (table (h ++ [Op.unindex d])) d = none := by simp [valueOf, ht]
  refine ⟨?_, ?_, ?_, ?_, ?_⟩
  · rw [o.indexed_mem, hv]; simp
  · rw [o.not_indexed_mem, ht]; simp
  · rw [o.docids_mem, ht]; simp
  · rw [o.document_repr, hv]
  · intro v hc
    have := (hi.fwd_eq v d).mp hc
    rw [hi.rev_eq, hv] at this; cases this

/-- reset is indistinguishable from a new index -/
theorem c06_field_reset (h : List (Op V)) : run (h ++ [.reset]) = (init : State V) := by
  simp [run, step]

/-! non-vacuity -/
example :
    let h : List (Op Int) := [.index 1 (some 5), .index 2 (some 7), .index 1 (some 7), .index 3 none, .unindex 2]
    indexed (run h) = [1] ∧ (run h).notIndexed = [3] ∧ wordCount (run h) = 1 ∧ indexedCount (run h) = 1 := by
  decide

end Hyp.Field
