import HypatiaProofs.Lemmas.KeywordObs

/-!
# C06 (keyword index)  Bookkeeping matches a fresh index built from the current contents

`run h` is the model state of a `KeywordIndex` after history `h` – `index_doc`/`reindex_doc` with a
keyword list (possibly empty, possibly with duplicates) or without a value, a rejected `str` value,
`unindex_doc`, `reset`, and anywhere `optimize()` and `tree_threshold := n` for **any** `n` – and
`table h` the history's document table (docid ↦ keyword list last supplied / withdrawn).
`ObsSpec s t`: what `indexed()`, `not_indexed()`, `docids()`, the three `*_count`s, `word_count`,
`unique_values`, `document_repr` (and the hidden `_num_docs` counter) report, stated over `t`.
`ObsEq s s'`: the two states cannot be told apart through that API.  `TEquiv t t'`: the tables have
the same withdrawn ids and give every document the same keyword *set*.
Every theorem is for all histories (hence all thresholds and all placements of `optimize()`).
Property statements only – lemmas live in `Lemmas/KeywordObs.lean`.
-/
set_option linter.unusedSectionVars false
namespace Hyp.Keyword
open Hyp Hyp.Keyword.Spec

variable {K : Type} [DecidableEq K]

theorem run_snoc (h : List (Op K)) (op : Op K) : run (h ++ [op]) = step (run h) op := by
  simp [run, List.foldl_append]

theorem table_snoc (h : List (Op K)) (op : Op K) : table (h ++ [op]) = stepT (table h) op := by
  simp [table, List.foldl_append]

/-- after any history: indexed/not_indexed are disjoint, their union is docids, every count is the size
of its (duplicate-free) set, `_num_docs` is the number of indexed documents, word_count /
unique_values are exactly the keywords still in use, and document_repr shows the document's current
keyword set (the default exactly for ids that are not indexed). -/
theorem c06_keyword_bookkeeping (h : List (Op K)) : ObsSpec (run h) (table h) :=
  obsSpec_of_inv (run_inv h)

/-- **fresh-index equivalence**: the index after any history is observationally equal to a new index –
with any `tree_threshold` – that indexed just the current docid ↦ value mapping once. -/
theorem c06_keyword_fresh (h : List (Op K)) (thr : Nat) : ObsEq (run h) (fresh thr (table h)) :=
  obsEq_of_inv (run_inv h) (run_inv _)
    (tequiv_of_get_eq (fun d => (table_freshOps (table h) (table_wf h) d).symm))

/-- **history independence**: histories whose current contents agree (same withdrawn ids, same
keyword set for every document – order and repetitions inside the lists are irrelevant) are
indistinguishable, whatever thresholds and `optimize()` calls they contain -/
theorem c06_keyword_history_independent (h h' : List (Op K)) (hsame : TEquiv (table h) (table h')) :
    ObsEq (run h) (run h') :=
  obsEq_of_inv (run_inv h) (run_inv h') hsame

/-- in particular for histories with literally the same docid ↦ value mapping -/
theorem c06_keyword_history_independent_get (h h' : List (Op K))
    (hsame : ∀ d, AMap.get (table h) d = AMap.get (table h') d) : ObsEq (run h) (run h') :=
  c06_keyword_history_independent h h' (tequiv_of_get_eq hsame)

/-- reindex_doc (= index_doc for this class) is equivalent to unindex_doc followed by index_doc
(the inherited `BaseIndexMixin.reindex_doc`) -/
theorem c06_keyword_reindex (h : List (Op K)) (d : Int) (v : Option (List K)) :
    ObsEq (run (h ++ [.index d v])) (run (h ++ [.unindex d, .index d v])) := by
  apply c06_keyword_history_independent_get
  intro d'
  simp only [table, List.foldl_append, List.foldl_cons, List.foldl_nil, stepT]
  exact (get_set_erase _ d v d').symm

/-- unindexing an id the index does not know is a no-op: the state is literally unchanged -/
theorem c06_keyword_unindex_unknown (h : List (Op K)) (d : Int) (hunk : d ∉ docids (run h)) :
    run (h ++ [.unindex d]) = run h := by
  have o := c06_keyword_bookkeeping h
  have hi : d ∉ indexed (run h) := fun hc => hunk ((o.docids_union d).mpr (Or.inl hc))
  have hn : d ∉ (run h).notIndexed := fun hc => hunk ((o.docids_union d).mpr (Or.inr hc))
  have hr : AMap.get (run h).rev d = none := (AMap.not_mem_keys_iff _ d).mp hi
  rw [run_snoc]
  show unindexDoc (run h) d = run h
  unfold unindexDoc
  simp only [hr, LSet.remove_of_not_mem hn]

/-- unindexing removes every trace of the id -/
theorem c06_keyword_unindex_erases (h : List (Op K)) (d : Int) :
    let s := run (h ++ [.unindex d])
    d ∉ indexed s ∧ d ∉ s.notIndexed ∧ d ∉ docids s ∧ documentRepr s d = none ∧
      ∀ k, d ∉ posting s.fwd k := by
  have o := c06_keyword_bookkeeping (h ++ [Op.unindex d])
  have ht : AMap.get (table (h ++ [Op.unindex d])) d = none := by
    rw [table_snoc]; simp [stepT, AMap.get_erase]
  have hk : kwOf (table (h ++ [Op.unindex d])) d = [] := by simp [kwOf, ht]
  have hi : d ∉ indexed (run (h ++ [Op.unindex d])) := by rw [o.indexed_mem, hk]; simp
  refine ⟨hi, ?_, ?_, ?_, ?_⟩
  · rw [o.not_indexed_mem, ht]; simp
  · rw [o.docids_mem]; unfold Known; rw [ht, hk]; simp
  · exact (o.document_repr_default d).mpr hi
  · intro k hc
    have := ((run_viewOK (h ++ [Op.unindex d])).post k d).mp hc
    rw [hk] at this; cases this

/-- reset gives exactly the state of a new index (the instance's `tree_threshold` is not part of the
index's contents and stays) -/
theorem c06_keyword_reset (h : List (Op K)) :
    run (h ++ [.reset]) = { (init : State K) with thr := (run h).thr } := by
  rw [run_snoc]; rfl

/-- … and is therefore indistinguishable from a new index, also after any further history -/
theorem c06_keyword_reset_then (h g : List (Op K)) : ObsEq (run (h ++ .reset :: g)) (run g) := by
  apply c06_keyword_history_independent_get
  intro d
  simp [table, List.foldl_append, stepT]

/-- operations that only touch the representation (`optimize()`, threshold changes) are invisible -/
theorem c06_keyword_representation_invisible (h : List (Op K)) (op : Op K) (hop : op.isRepr = true)
    (g : List (Op K)) : ObsEq (run (h ++ op :: g)) (run (h ++ g)) := by
  apply c06_keyword_history_independent_get
  intro d
  have : stepT (table h) op = table h := by cases op <;> simp [Op.isRepr] at hop <;> rfl
  simp only [table, List.foldl_append, List.foldl_cons]
  rw [show List.foldl stepT [] h = table h from rfl, this]

/-! non-vacuity: re-indexing identical content, value ↔ no value, an empty keyword list, duplicates,
threshold 1 and `optimize()` in the history -/
example :
    let h : List (Op Int) := [.setThr 1, .index 1 (some [5, 7, 5]), .index 2 (some [7]), .index 1 (some [7, 5]),
      .index 3 none, .optimize, .index 2 none, .index 4 (some []), .index 3 (some [9]), .unindex 3,
      .index 2 (some [8])]
    indexed (run h) = [2, 1] ∧ (run h).notIndexed = [] ∧ wordCount (run h) = 3 ∧
      indexedCount (run h) = 2 ∧ numDocsCounter (run h) = 2 ∧ docidsCount (run h) = 2 ∧
      documentRepr (run h) 4 = none ∧ 4 ∉ docids (run h) := by
  decide

end Hyp.Keyword
