import HypatiaProofs.Lemmas.TextObs

/-!
# C06 (text index)  Bookkeeping matches a fresh index built from the current contents

Property statements only; lemmas are in `HypatiaProofs/Lemmas/TextObs.lean` (on top of the C03
refinement invariant).

`ObsSpec s T`: everything `indexed()`, `not_indexed()`, `docids()`, `indexed_count`,
`not_indexed_count`, `docids_count`, `word_count`, `document_repr` report, stated over the document
table `T`.  `ObsEq s s'`: two index states cannot be told apart through that API – which is
"equal up to word-id renaming": the ids live in the (shared, never reset) lexicon and are not
visible through the index's enumeration/statistics API.  `Small` is the 28-bit vocabulary limit
of the id encoding (see C03).  Both back ends (`okapi : Bool`), every lexicon configuration.
-/
namespace Hyp.Text
open Hyp.QP (Str)
open Hyp.Lex (Cfg)
open Spec

/-- after any history: indexed / not_indexed are disjoint, their union is docids, every count is
the size of its duplicate-free set, word_count is the number of distinct words of the documents
that currently have text, and document_repr gives the document's words (the default exactly for
ids that are not indexed). -/
theorem c06_text_bookkeeping (cfg : Cfg) (okapi : Bool) (h : List Op)
    (hs : Small (run cfg okapi h).base.lex) : ObsSpec (run cfg okapi h) (table cfg h) :=
  obsSpec_of_inv (inv_run cfg okapi h hs) hs

/-- Okapi: the total document length is the sum of the token counts of the indexed documents
(`reset` included: D15 as repaired). -/
theorem c06_text_totaldoclen (cfg : Cfg) (h : List Op) (hs : Small (run cfg true h).base.lex) :
    (run cfg true h).base.totalDocLen = (sumLens (table cfg h) : Int) :=
  tdl_run cfg true h hs rfl

/-- histories with the same current contents are indistinguishable (history independence) –
whatever ids their words got, whichever back end -/
theorem c06_text_history_independent (cfg : Cfg) (okapi okapi' : Bool) (h h' : List Op)
    (hs : Small (run cfg okapi h).base.lex) (hs' : Small (run cfg okapi' h').base.lex)
    (hsame : ∀ d, AMap.get (texts h) d = AMap.get (texts h') d) :
    ObsEq (run cfg okapi h) (run cfg okapi' h') := by
  apply obsEq_of_spec (c06_text_bookkeeping cfg okapi h hs) (c06_text_bookkeeping cfg okapi' h' hs')
  intro d
  rw [table_of_texts, table_of_texts, hsame]

/-- **fresh-index equivalence**: the index after any history is observationally equal to a new
index (new lexicon included) that indexed just the current docid ↦ text mapping once. -/
theorem c06_text_fresh (cfg : Cfg) (okapi : Bool) (h : List Op)
    (hs : Small (run cfg okapi h).base.lex)
    (hs' : Small (run cfg okapi (freshOps (texts h))).base.lex) :
    ObsEq (run cfg okapi h) (run cfg okapi (freshOps (texts h))) :=
  c06_text_history_independent cfg okapi okapi h _ hs hs'
    (fun d => (texts_freshOps (texts h) (texts_wf h) d).symm)

/-- re-indexing is equivalent to unindex followed by index (the differential update of
`reindex_doc` included) -/
theorem c06_text_reindex (cfg : Cfg) (okapi : Bool) (h : List Op) (d : Int) (v : Option (List Str))
    (hs : Small (run cfg okapi (h ++ [.index d v])).base.lex)
    (hs' : Small (run cfg okapi (h ++ [.unindex d, .index d v])).base.lex) :
    ObsEq (run cfg okapi (h ++ [.index d v])) (run cfg okapi (h ++ [.unindex d, .index d v])) := by
  apply c06_text_history_independent cfg okapi okapi _ _ hs hs'
  intro d'
  simp only [texts, List.foldl_append, List.foldl_cons, List.foldl_nil, stepX, AMap.get_set, AMap.get_erase]
  by_cases e : d = d' <;> simp [e]

/-- unindexing an unknown id is a no-op -/
theorem c06_text_unindex_unknown (cfg : Cfg) (okapi : Bool) (h : List Op) (d : Int)
    (hunk : AMap.get (texts h) d = none)
    (hs : Small (run cfg okapi h).base.lex) (hs' : Small (run cfg okapi (h ++ [.unindex d])).base.lex) :
    ObsEq (run cfg okapi (h ++ [.unindex d])) (run cfg okapi h) := by
  apply c06_text_history_independent cfg okapi okapi _ _ hs' hs
  intro d'
  simp only [texts, List.foldl_append, List.foldl_cons, List.foldl_nil, stepX, AMap.get_erase]
  split
  · next e => subst e; exact hunk.symm
  · rfl

/-- unindexing removes every trace of the id -/
theorem c06_text_unindex_erases (cfg : Cfg) (okapi : Bool) (h : List Op) (d : Int)
    (hs : Small (run cfg okapi (h ++ [.unindex d])).base.lex) :
    let s := run cfg okapi (h ++ [.unindex d])
    d ∉ indexed s ∧ d ∉ s.notIndexed ∧ d ∉ docids s ∧ documentRepr s d = none ∧
      ∀ w, d ∉ posting s.base w := by
  have hi := inv_run cfg okapi (h ++ [Op.unindex d]) hs
  have o := obsSpec_of_inv hi hs
  have ht : AMap.get (table cfg (h ++ [Op.unindex d])) d = none := by
    simp [table, stepT, AMap.get_erase]
  have hv : tokensOf (table cfg (h ++ [Op.unindex d])) d = none := by simp [tokensOf, ht]
  refine ⟨?_, ?_, ?_, ?_, ?_⟩
  · rw [o.indexed_mem, hv]; simp
  · rw [o.not_indexed_mem, ht]; simp
  · rw [o.docids_known, ht]; simp
  · rw [o.document_repr, hv]
  · intro w hc
    obtain ⟨toks, h1, _⟩ := (hi.postings w d).mp hc
    rw [hv] at h1; cases h1

/-- reset is indistinguishable from a new index (the shared lexicon keeps its words, which the
index's API does not show), and Okapi's total document length starts again at 0 -/
theorem c06_text_reset (cfg : Cfg) (okapi : Bool) (h : List Op)
    (hs : Small (run cfg okapi (h ++ [.reset])).base.lex) :
    ObsEq (run cfg okapi (h ++ [.reset])) (run cfg okapi []) ∧
    (run cfg okapi (h ++ [.reset])).base.totalDocLen = 0 := by
  refine ⟨?_, ?_⟩
  · apply c06_text_history_independent cfg okapi okapi _ _ hs (by simp [run, Small])
    intro d
    simp [texts, List.foldl_append, stepX]
  · simp [run, List.foldl_append, step, resetBase]

/-! non-vacuity -/
private def exTables : Lex.Tables :=
  { isWord := fun c => 97 ≤ c && c ≤ 122, lower := fun c => [c] }
private def exCfg : Cfg := { tables := exTables, pipeline := [.splitter, .caseNorm, .stop [[116, 111]]] }
-- 1:"a b"  2:"b c to"  1:"c c"(re-index)  3:no text  2 unindexed
private def exHist : List Op :=
  [.index 1 (some [[97, 32, 98]]), .index 2 (some [[98, 32, 99, 32, 116, 111]]),
   .index 1 (some [[99, 32, 99]]), .index 3 none, .unindex 2]

example : Small (run exCfg true exHist).base.lex := by unfold Small; decide
example : indexed (run exCfg true exHist) = [1] ∧ (run exCfg true exHist).notIndexed = [3] ∧
    wordCount (run exCfg true exHist) = 1 ∧ indexedCount (run exCfg true exHist) = 1 ∧
    (run exCfg true exHist).base.totalDocLen = 2 ∧
    documentRepr (run exCfg true exHist) 1 = some [[99], [99]] ∧
    documentRepr (run exCfg true exHist) 2 = none := by decide

end Hyp.Text
