import HypatiaProofs.Lemmas.FieldSortSpec

/-!
# C07  Field-index sort returns the right ids in the right order for every algorithm

`run h` is the index after history `h`, `table h` the document table of `h` (C01).  `V` is any value
type with the order laws `OrdLaws V` ("mutually orderable values").  The request is a list of
*distinct* docids (`docids.Nodup`) in the order the index iterates over it (for a set: its iteration
order); ids may be unknown to the index or known without a value.

Two layers:

* `sortWith (run h) a …` runs **one** algorithm `a ∈ {fwscan, nbest, timsort}` with the flags; the
  theorems hold for *every* algorithm that can run with those flags – the selection heuristics
  (`fwscan_wins`, `nbest_ascending_wins`, the reverse rule) are not trusted with anything.
  `limit ≠ some 0` is the only hypothesis (Python treats 0 as "no limit" in two of the three loops;
  `FieldIndex.sort` rejects it before any algorithm runs).
* `sort (run h) …` is `FieldIndex.sort` itself with `sort_type ∈ {None, STABLE, OPTIMAL, fwscan, nbest,
  timsort, anything else}` and an unvalidated limit; `SortRes.observe` is what the caller sees when
  iterating the result (ids, then possibly Unsortable), `none` for ValueError.

A `Gen` lists the yielded ids and then the exception: "after the sortable ids have been produced" is
the shape of the model's result (every `raise Unsortable` in the code is the generator's last
statement); `c07_complete_before_raise` adds that nothing sortable is missing at that point.
Property statements only – lemmas live in `Lemmas/Sort*.lean`, `Lemmas/FieldSort*.lean`.
-/
set_option linter.unusedSectionVars false
set_option linter.unusedVariables false
namespace Hyp.Field
open Hyp Hyp.Sort Hyp.Field.Spec

variable {V : Type} [DecidableEq V] [LT V] [DecidableLT V] [LE V] [DecidableLE V]

/-! ## every algorithm -/

/-- an algorithm refuses to run (ValueError) exactly for forward scan in reverse and n-best without
a limit -/
theorem c07_algorithm_runs_iff (s : State V) (a : Algo) (docids : List Int) (reverse : Bool)
    (limit : Option Nat) (raiseU : Bool) :
    sortWith s a docids reverse limit raiseU = none ↔
      (a = .fwscan ∧ reverse = true) ∨ (a = .nbest ∧ limit = none) := by
  cases a <;> cases reverse <;> cases limit <;> simp [sortWith]

/-- **The ids.**  Whatever algorithm runs: each id once, only requested ids that have a value, ordered
by value (descending when reversed), `min(limit, #sortable)` of them, and nothing that was left out
sorts before anything delivered. -/
theorem c07_sorted_ok (o : OrdLaws V) (h : List (Op V)) (a : Algo) (docids : List Int)
    (hnd : docids.Nodup) (reverse : Bool) (limit : Option Nat) (hlim : limit ≠ some 0) (raiseU : Bool)
    (g : Gen) (hg : sortWith (run h) a docids reverse limit raiseU = some g) :
    SortOK (table h) docids reverse limit g.ids :=
  canon_sortOK hnd (sortWith_canon o (run_inv h) a docids hnd reverse limit hlim raiseU g hg)

/-- clause: duplicate-free -/
theorem c07_each_once (o : OrdLaws V) (h : List (Op V)) (a : Algo) (docids : List Int)
    (hnd : docids.Nodup) (reverse : Bool) (limit : Option Nat) (hlim : limit ≠ some 0) (raiseU : Bool)
    (g : Gen) (hg : sortWith (run h) a docids reverse limit raiseU = some g) : g.ids.Nodup :=
  (c07_sorted_ok o h a docids hnd reverse limit hlim raiseU g hg).nodup

/-- clause: ⊆ requested ∩ sortable -/
theorem c07_only_requested_sortable (o : OrdLaws V) (h : List (Op V)) (a : Algo) (docids : List Int)
    (hnd : docids.Nodup) (reverse : Bool) (limit : Option Nat) (hlim : limit ≠ some 0) (raiseU : Bool)
    (g : Gen) (hg : sortWith (run h) a docids reverse limit raiseU = some g) (d : Int) (hd : d ∈ g.ids) :
    d ∈ docids ∧ ∃ v, valueOf (table h) d = some v := by
  have := (c07_sorted_ok o h a docids hnd reverse limit hlim raiseU g hg).subset d hd
  exact ⟨this.1, Option.isSome_iff_exists.mp this.2⟩

/-- clause: values non-decreasing (non-increasing when reversed) along the output -/
theorem c07_ordered (o : OrdLaws V) (h : List (Op V)) (a : Algo) (docids : List Int)
    (hnd : docids.Nodup) (reverse : Bool) (limit : Option Nat) (hlim : limit ≠ some 0) (raiseU : Bool)
    (g : Gen) (hg : sortWith (run h) a docids reverse limit raiseU = some g) :
    g.ids.Pairwise (fun x y => ∀ vx vy, valueOf (table h) x = some vx → valueOf (table h) y = some vy →
      if reverse then vy ≤ vx else vx ≤ vy) :=
  (c07_sorted_ok o h a docids hnd reverse limit hlim raiseU g hg).sorted

/-- clause: length = min(limit, number of sortable requested ids) -/
theorem c07_length (o : OrdLaws V) (h : List (Op V)) (a : Algo) (docids : List Int)
    (hnd : docids.Nodup) (reverse : Bool) (limit : Option Nat) (hlim : limit ≠ some 0) (raiseU : Bool)
    (g : Gen) (hg : sortWith (run h) a docids reverse limit raiseU = some g) :
    g.ids.length = match limit with
      | none => (sortables (table h) docids).length
      | some l => min l (sortables (table h) docids).length :=
  by
    have := (c07_sorted_ok o h a docids hnd reverse limit hlim raiseU g hg).length
    cases limit <;> exact this

/-- clause: every omitted sortable id has a value ≥ (≤ when reversed) that of every emitted id, in
particular of the last one -/
theorem c07_cut_keeps_first (o : OrdLaws V) (h : List (Op V)) (a : Algo) (docids : List Int)
    (hnd : docids.Nodup) (reverse : Bool) (limit : Option Nat) (hlim : limit ≠ some 0) (raiseU : Bool)
    (g : Gen) (hg : sortWith (run h) a docids reverse limit raiseU = some g)
    (d : Int) (hd : d ∈ docids) (vd : V) (hvd : valueOf (table h) d = some vd) (hout : d ∉ g.ids)
    (e : Int) (he : e ∈ g.ids) (ve : V) (hve : valueOf (table h) e = some ve) :
    if reverse then vd ≤ ve else ve ≤ vd :=
  (c07_sorted_ok o h a docids hnd reverse limit hlim raiseU g hg).omitted d hd
    (by simp [sortable, hvd]) hout e he ve vd hve hvd

/-- **The exception.**  Unsortable is raised exactly when raise_unsortable is set, some requested id has
no value, and the limit (if any) was not already filled by sortable ids. -/
theorem c07_raises_iff (o : OrdLaws V) (h : List (Op V)) (a : Algo) (docids : List Int)
    (hnd : docids.Nodup) (reverse : Bool) (limit : Option Nat) (hlim : limit ≠ some 0) (raiseU : Bool)
    (g : Gen) (hg : sortWith (run h) a docids reverse limit raiseU = some g) :
    g.raised.isSome = true ↔
      raiseU = true ∧ (∃ d ∈ docids, valueOf (table h) d = none) ∧
        (limit = none ∨ ∃ l, limit = some l ∧ (sortables (table h) docids).length < l) := by
  rw [canon_raised (sortWith_canon o (run_inv h) a docids hnd reverse limit hlim raiseU g hg)]
  unfold shouldRaise
  have hm : (missing (table h) docids).isEmpty = false ↔ ∃ d ∈ docids, valueOf (table h) d = none := by
    constructor
    · intro he
      cases hmm : missing (table h) docids with
      | nil => rw [hmm] at he; cases he
      | cons d rest =>
        have hmem : d ∈ missing (table h) docids := by rw [hmm]; simp
        unfold missing at hmem
        have hf := List.mem_filter.mp hmem
        refine ⟨d, hf.1, ?_⟩
        have h2 := hf.2
        unfold sortable at h2
        cases hv : valueOf (table h) d with
        | none => rfl
        | some v => rw [hv] at h2; cases h2
    · rintro ⟨d, hd, hv⟩
      have hmem : d ∈ missing (table h) docids := by
        unfold missing; exact List.mem_filter.mpr ⟨hd, by simp [sortable, hv]⟩
      cases hmm : missing (table h) docids with
      | nil => rw [hmm] at hmem; cases hmem
      | cons _ _ => rfl
  cases limit with
  | none => simp [hm]
  | some l => simp [hm, and_assoc]

/-- without raise_unsortable the ids without a value are skipped silently -/
theorem c07_silent_when_not_asked (o : OrdLaws V) (h : List (Op V)) (a : Algo) (docids : List Int)
    (hnd : docids.Nodup) (reverse : Bool) (limit : Option Nat) (hlim : limit ≠ some 0)
    (g : Gen) (hg : sortWith (run h) a docids reverse limit false = some g) : g.raised = none := by
  have := canon_raised (sortWith_canon o (run_inv h) a docids hnd reverse limit hlim false g hg)
  simpa [shouldRaise] using this

/-- when Unsortable is raised, all sortable requested ids have been produced before it -/
theorem c07_complete_before_raise (o : OrdLaws V) (h : List (Op V)) (a : Algo) (docids : List Int)
    (hnd : docids.Nodup) (reverse : Bool) (limit : Option Nat) (hlim : limit ≠ some 0) (raiseU : Bool)
    (g : Gen) (hg : sortWith (run h) a docids reverse limit raiseU = some g)
    (hr : g.raised.isSome = true) (d : Int) (hd : d ∈ docids) (v : V)
    (hv : valueOf (table h) d = some v) : d ∈ g.ids :=
  canon_complete (sortWith_canon o (run_inv h) a docids hnd reverse limit hlim raiseU g hg) hr d hd
    (by simp [sortable, hv])

/-- **Only tie order depends on the algorithm**: any two algorithms that can run with the flags
produce the same sequence of values and agree on raising. -/
theorem c07_algorithms_agree (o : OrdLaws V) (h : List (Op V)) (a1 a2 : Algo) (docids : List Int)
    (hnd : docids.Nodup) (reverse : Bool) (limit : Option Nat) (hlim : limit ≠ some 0) (raiseU : Bool)
    (g1 g2 : Gen) (h1 : sortWith (run h) a1 docids reverse limit raiseU = some g1)
    (h2 : sortWith (run h) a2 docids reverse limit raiseU = some g2) :
    g1.ids.map (valueOf (table h)) = g2.ids.map (valueOf (table h)) ∧
      g1.raised.isSome = g2.raised.isSome :=
  canon_agree o (sortWith_canon o (run_inv h) a1 docids hnd reverse limit hlim raiseU g1 h1)
    (sortWith_canon o (run_inv h) a2 docids hnd reverse limit hlim raiseU g2 h2)

/-! ## the stable sort -/

/-- timsort delivers the stable sort of the request order, cut at the limit -/
theorem c07_timsort_is_stable_sort (o : OrdLaws V) (h : List (Op V)) (docids : List Int)
    (reverse : Bool) (limit : Option Nat) (hlim : limit ≠ some 0) (raiseU : Bool) :
    (timsort (run h) docids limit reverse raiseU).ids =
      match limit with
      | none => stableSort (table h) reverse docids
      | some l => (stableSort (table h) reverse docids).take l := by
  rw [(timsort_ids o (run_inv h) docids limit hlim reverse raiseU).1]
  cases limit <;> rfl

/-- what "stable sort" means, independently of the sorting routine: a permutation of the sortable
requested ids, ordered by value, in which the ids of any one value appear in request order -/
theorem c07_stable_sort_characterised (o : OrdLaws V) (h : List (Op V)) (docids : List Int)
    (reverse : Bool) :
    (stableSort (table h) reverse docids).Perm (sortables (table h) docids) ∧
    (stableSort (table h) reverse docids).Pairwise (keyLe (table h) reverse) ∧
    ∀ v : V, (stableSort (table h) reverse docids).filter (fun d => decide (valueOf (table h) d = some v)) =
      docids.filter (fun d => decide (valueOf (table h) d = some v)) := by
  refine ⟨stableSort_perm _ _ _, stableSort_sorted o (run_inv h) docids reverse, ?_⟩
  intro v
  rw [stableSort_eq, filter_isort_of_equiv]
  · unfold sortables
    rw [List.filter_filter]
    apply List.filter_congr
    intro d _
    by_cases e : valueOf (table h) d = some v <;> simp [e, sortable]
  · intro x y _ _ hx hy
    simp only [decide_eq_true_eq] at hx hy
    cases reverse <;> simp [keyLeB, optLe, hx, hy, o.le_refl]

/-! ## `FieldIndex.sort` with every `sort_type` -/

/-- ValueError exactly for a limit below 1 and – once the request and the index are non-empty – for
forced forward scan in reverse, forced n-best without a limit, or an unknown sort type -/
theorem c07_sort_valueError_iff (h : List (Op V)) (docids : List Int) (reverse : Bool)
    (limit : Option Int) (st : Option SortType) (raiseU : Bool) :
    sort (run h) docids reverse limit st raiseU = .valueError ↔
      badLimit limit = true ∨
        (docids ≠ [] ∧ (∃ d v, valueOf (table h) d = some v) ∧ rejects reverse limit st = true) := by
  have hnz : (run h).numDocs ≠ 0 ↔ ∃ d v, valueOf (table h) d = some v := by
    rw [ne_eq, numDocs_zero_iff (run_inv h)]
    constructor
    · intro hne
      apply Classical.byContradiction
      intro hno
      apply hne
      intro d
      cases hv : valueOf (table h) d with
      | none => rfl
      | some v => exact absurd ⟨d, v, hv⟩ hno
    · rintro ⟨d, v, hv⟩ hall
      rw [hall d] at hv; cases hv
  rcases sort_cases (run h) docids reverse limit st raiseU with
    ⟨hb, e⟩ | ⟨hb, hd, e⟩ | ⟨hb, hd, hn, e⟩ | ⟨hb, hd, hn, hr, e⟩ | ⟨hb, hd, hn, hr, a, g, _, e, _⟩
  · simp [hb, e]
  · subst hd; simp [hb, e]
  · have : ¬ ∃ d v, valueOf (table h) d = some v := fun hx => (hnz.mpr hx) hn
    rw [e]
    cases raiseU <;> simp [hb, this]
  · simp [e, hd, hnz.mp hn, hr]
  · simp [e, hb, hr]

/-- **`sort` is right for every `sort_type`**: what the caller observes satisfies all clauses, raises
exactly when due, and has produced every sortable id before raising. -/
theorem c07_sort_ok (o : OrdLaws V) (h : List (Op V)) (docids : List Int) (hnd : docids.Nodup)
    (reverse : Bool) (limit : Option Int) (st : Option SortType) (raiseU : Bool) (g : Gen)
    (hg : (sort (run h) docids reverse limit st raiseU).observe = some g) :
    SortOK (table h) docids reverse (limit.map Int.toNat) g.ids ∧
    g.raised.isSome = shouldRaise (table h) docids (limit.map Int.toNat) raiseU ∧
    (g.raised.isSome = true → ∀ d ∈ docids, sortable (table h) d = true → d ∈ g.ids) := by
  have c := sort_observe_canon o (run_inv h) docids hnd reverse limit st raiseU g hg
  exact ⟨canon_sortOK hnd c, canon_raised c, canon_complete c⟩

/-- STABLE (or forced timsort): the answer is the stable sort of the request order, cut at the limit -/
theorem c07_sort_stable (o : OrdLaws V) (h : List (Op V)) (docids : List Int)
    (reverse : Bool) (limit : Option Int) (st : Option SortType)
    (hst : st = some .stable ∨ st = some .timsort) (raiseU : Bool) (g : Gen)
    (hg : (sort (run h) docids reverse limit st raiseU).observe = some g) :
    g.ids = match limit.map Int.toNat with
      | none => stableSort (table h) reverse docids
      | some l => (stableSort (table h) reverse docids).take l := by
  rw [sort_observe_stable o (run_inv h) docids reverse limit st
    (by rcases hst with e | e <;> simp [e, stableRequired]) raiseU g hg]
  cases limit.map Int.toNat <;> rfl

/-- the `sort_type` (hence the algorithm chosen automatically or forced) changes nothing but the
relative order of ids with equal values -/
theorem c07_sort_type_irrelevant (o : OrdLaws V) (h : List (Op V)) (docids : List Int)
    (hnd : docids.Nodup) (reverse : Bool) (limit : Option Int) (st1 st2 : Option SortType)
    (raiseU : Bool) (g1 g2 : Gen)
    (h1 : (sort (run h) docids reverse limit st1 raiseU).observe = some g1)
    (h2 : (sort (run h) docids reverse limit st2 raiseU).observe = some g2) :
    g1.ids.map (valueOf (table h)) = g2.ids.map (valueOf (table h)) ∧
      g1.raised.isSome = g2.raised.isSome :=
  canon_agree o (sort_observe_canon o (run_inv h) docids hnd reverse limit st1 raiseU g1 h1)
    (sort_observe_canon o (run_inv h) docids hnd reverse limit st2 raiseU g2 h2)

/-! ## non-vacuity

Index: 1↦5, 2↦7, 3↦5, 4↦1, 6 known without a value; request [3, 9, 2, 1, 6, 4] (9 unknown). -/
def exH : List (Op Int) :=
  [.index 1 (some 5), .index 2 (some 7), .index 3 (some 9), .index 3 (some 5), .index 4 (some 1),
   .index 6 none]

example : sortWith (run exH) .fwscan [3, 9, 2, 1, 6, 4] false (some 3) true
    = some { ids := [4, 1, 3], raised := none } := by decide
example : sortWith (run exH) .nbest [3, 9, 2, 1, 6, 4] false (some 3) true
    = some { ids := [4, 1, 3], raised := none } := by decide
example : sortWith (run exH) .timsort [3, 9, 2, 1, 6, 4] false (some 3) true
    = some { ids := [4, 3, 1], raised := none } := by decide
example : sortWith (run exH) .nbest [3, 9, 2, 1, 6, 4] true (some 5) true
    = some { ids := [2, 3, 1, 4], raised := some [9] } := by decide
example : sortWith (run exH) .timsort [3, 9, 2, 1, 6, 4] true none true
    = some { ids := [2, 3, 1, 4], raised := some [9, 6] } := by decide
example : sortWith (run exH) .fwscan [3, 9, 2, 1, 6, 4] false none true
    = some { ids := [4, 1, 3, 2], raised := some [9, 6] } := by decide
example : sort (run exH) [3, 9, 2, 1, 6, 4] true (some 2) (some .fwscan) true = .valueError := by decide
example : sort (run exH) [3, 9, 2, 1, 6, 4] false (some 0) none true = .valueError := by decide
example : sort (init : State Int) [3, 9] false none none true = .unsortableAtCall [3, 9] := by decide
example : stableSort (Spec.table exH) false [3, 9, 2, 1, 6, 4] = [4, 3, 1, 2] := by decide

end Hyp.Field
