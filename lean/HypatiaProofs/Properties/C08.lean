import HypatiaProofs.Lemmas.ScorePhrase

/-!
# C08  Relevance scores equal the documented BM25 / cosine formulas

Property statements only (lemmas: `Lemmas/Score*.lean`, and the C17 sum theorems in
`Lemmas/SetOps.lean`).  `Score.run ops` is the model state after a history of
index / reindex / unindex / reset calls (`HypatiaModel/TextScore.lean`), `ScoreSpec.tableOf ops`
the document table that history leaves behind, `ScoreSpec.score` / `phraseScore` / `queryWeight`
the docstring formulas evaluated on a table (`Spec/ScoreSpec.lean`).  Scalars are real numbers:
IEEE rounding, libm, the 32-bit floats of IF buckets and the C compiler are *not* covered here –
the correspondence run compares numerically (rel. tol. 2e-6) against the real index with the C
extension and with the pure-Python loop.

A query is the list of word ids the lexicon produced for it (any list: repeats, unknown ids,
`0`).  No hypothesis on the history or on the word ids is needed.
-/
set_option linter.unusedSectionVars false
namespace Hyp.C08
open Hyp Hyp.Score Hyp.SetOps

-- Every theorem below holds for ANY BM25 parameters (`Score.Bm25`: the `K1`, `B` the scoring loop reads and
-- the `K1` that `query_weight` reads – class attributes a subclass or an instance of `OkapiIndex` may
-- override); `c08_okapi_formula_default` / `c08_score_loop_default` spell the formulas out for the
-- values the property names, `K1 = 1.2`, `B = 0.75` (`Bm25.default`, also the constants of okascore.c).
variable [Bm25 ℝ]

/-- After every history the model's table is the specification's table, with distinct docids. -/
theorem c08_table_of_history (ops : List Op) :
    (run ops).T = ScoreSpec.tableOf ops ∧ AMap.WF (ScoreSpec.tableOf ops) := by
  refine ⟨table_run ops, ?_⟩
  rw [← table_run]; exact (inv_run ops).wf

/-- **Statistics are functions of the current table.** The one statistic the code keeps as a
running counter (`OkapiIndex._totaldoclen`, updated by index_doc, by reindex_doc called directly
or through index_doc, by unindex_doc and by reset) equals the total length of the current table
after every history – so the mean document length, like N and the document frequencies, is
determined by the table alone. -/
theorem c08_total_length_counter (ops : List Op) :
    (run ops).tot = (ScoreSpec.totalLen (ScoreSpec.tableOf ops) : Int) ∧
    (meanLen (run ops) : ℝ) = ScoreSpec.meanLen (ScoreSpec.tableOf ops) := by
  have h := inv_run ops
  refine ⟨by rw [h.tot, totalLen_eq, table_run], ?_⟩
  rw [meanLen_eq _ h, table_run]

/-- **`index.search(term)`**, Okapi and cosine: after any history, for any non-empty word-id list
of the term, the result contains exactly the documents with a score under the docstring formula,
with that score. -/
theorem c08_search (k : Kind) (ops : List Op) (wids : List Nat) (hne : wids ≠ []) :
    ∃ r, (search k (run ops) wids : Option (Res ℝ)) = some (.ok r) ∧
      ∀ d, AMap.get r d = ScoreSpec.score k (ScoreSpec.tableOf ops) wids d := by
  obtain ⟨r, hr, hg⟩ := search_spec k (run ops) (inv_run ops) wids hne
  exact ⟨r, hr, fun d => by rw [hg d, table_run]⟩

/-- a term without word ids (stop word) gives `None` -/
theorem c08_search_no_wids (k : Kind) (s : State) : (search k s [] : Option (Res ℝ)) = none := rfl

/-- **`index.search_glob(pattern)`** for the word ids the pattern expands to. -/
theorem c08_glob (k : Kind) (ops : List Op) (wids : List Nat) :
    ∃ r, (searchGlob k (run ops) wids : Res ℝ) = .ok r ∧
      ∀ d, AMap.get r d = ScoreSpec.score k (ScoreSpec.tableOf ops) wids d := by
  obtain ⟨r, hr, hg⟩ := glob_spec k (run ops) (inv_run ops) wids
  exact ⟨r, hr, fun d => by rw [hg d, table_run]⟩

/-- **`index.search_phrase(phrase)`**: exactly the documents containing the word ids
contiguously, each with the formula's sum over all the phrase's word ids. -/
theorem c08_phrase (k : Kind) (ops : List Op) (wids : List Nat) :
    ∃ r, (searchPhrase k (run ops) wids : Res ℝ) = .ok r ∧
      ∀ d, AMap.get r d = ScoreSpec.phraseScore k (ScoreSpec.tableOf ops) wids d := by
  obtain ⟨r, hr, hg⟩ := phrase_spec k (run ops) (inv_run ops) wids
  exact ⟨r, hr, fun d => by rw [hg d, table_run]⟩

/-- the phrase test is contiguous containment of word-id lists (C16 ties it to the encoded scan) -/
theorem c08_phrase_is_sublist (p d : List Nat) : containsPhrase p d = true ↔ p <:+: d :=
  containsPhrase_iff p d

/-- **`index.query_weight(terms)`**: Σ IDF·(k1+1) resp. sqrt Σ IDF² over the in-vocabulary ids. -/
theorem c08_query_weight (k : Kind) (ops : List Op) (wids : List Nat) :
    (queryWeight k (run ops) wids : ℝ) = ScoreSpec.queryWeight k (ScoreSpec.tableOf ops) wids := by
  rw [queryWeight_spec, table_run]

/-- **History independence.** Two histories that leave the same documents behind (the same
docid ↦ words function, however the table happens to be laid out) give the same scores, phrase
scores and query weights. -/
theorem c08_history_independent (k : Kind) (ops₁ ops₂ : List Op)
    (hsame : ∀ d, AMap.get (ScoreSpec.tableOf ops₁) d = AMap.get (ScoreSpec.tableOf ops₂) d)
    (wids : List Nat) (hne : wids ≠ []) :
    ∃ r₁ r₂, (search k (run ops₁) wids : Option (Res ℝ)) = some (.ok r₁) ∧
      (search k (run ops₂) wids : Option (Res ℝ)) = some (.ok r₂) ∧
      (∀ d, AMap.get r₁ d = AMap.get r₂ d) ∧
      (queryWeight k (run ops₁) wids : ℝ) = queryWeight k (run ops₂) wids ∧
      ∃ p₁ p₂, (searchPhrase k (run ops₁) wids : Res ℝ) = .ok p₁ ∧
        (searchPhrase k (run ops₂) wids : Res ℝ) = .ok p₂ ∧ ∀ d, AMap.get p₁ d = AMap.get p₂ d := by
  obtain ⟨r₁, h1, g1⟩ := c08_search k ops₁ wids hne
  obtain ⟨r₂, h2, g2⟩ := c08_search k ops₂ wids hne
  obtain ⟨p₁, q1, f1⟩ := c08_phrase k ops₁ wids
  obtain ⟨p₂, q2, f2⟩ := c08_phrase k ops₂ wids
  have hc := fun d => score_congr k _ _ (c08_table_of_history ops₁).2 (c08_table_of_history ops₂).2 hsame wids d
  refine ⟨r₁, r₂, h1, h2, fun d => by rw [g1 d, g2 d, (hc d).1], ?_, p₁, p₂, q1, q2,
    fun d => by rw [f1 d, f2 d, (hc d).2.1]⟩
  rw [c08_query_weight, c08_query_weight, (hc 0).2.2]

/-! ### the formulas, spelled out over ℝ -/

/-- Okapi: `score(D,Q) = Σ_{t∈Q, t in D} f·(k1+1)/(f + k1·((1−b) + b·len(D)/mean)) · ln(1+N/n_t)` for the
index's parameters `k1`, `b`; a document without a query word has no score. -/
theorem c08_okapi_formula (T : ScoreSpec.Table) (terms : List Nat) (d : Int) :
    (ScoreSpec.score .okapi T terms d : Option ℝ) =
      (AMap.get T d).bind (fun ws =>
        let Q := terms.filter (fun t => ws.contains t)
        if Q = [] then none else some ((Q.map (fun t =>
          (ws.count t : ℝ) * (Bm25.k1 + 1) /
            ((ws.count t : ℝ) + Bm25.k1 * ((1 - Bm25.b) + Bm25.b * (ws.length : ℝ) /
              ((ScoreSpec.totalLen T : ℝ) / (ScoreSpec.N T : ℝ)))) *
          Real.log (1 + (ScoreSpec.N T : ℝ) / (ScoreSpec.df T t : ℝ)))).sum)) := by
  rw [score_unfold]
  cases AMap.get T d with
  | none => rfl
  | some ws =>
    simp only [Option.bind_some]
    rw [sum1_eq]
    simp only [List.map_eq_nil_iff]
    congr 2
    apply congrArg
    apply List.map_congr_left
    intro t _
    simp only [specTerm, ScoreSpec.okapiTF, ScoreSpec.idf, ScoreSpec.meanLen, ScoreSpec.k1, ScoreSpec.b,
      Scalar.nat_real, Scalar.log_real, Nat.cast_one]

/-- … with the documented default parameters: `k1 = 1.2`, `b = 0.75`. -/
theorem c08_okapi_formula_default (T : ScoreSpec.Table) (terms : List Nat) (d : Int) :
    (@ScoreSpec.score ℝ _ Bm25.default .okapi T terms d : Option ℝ) =
      (AMap.get T d).bind (fun ws =>
        let Q := terms.filter (fun t => ws.contains t)
        if Q = [] then none else some ((Q.map (fun t =>
          (ws.count t : ℝ) * (1.2 + 1) /
            ((ws.count t : ℝ) + 1.2 * ((1 - 0.75) + 0.75 * (ws.length : ℝ) /
              ((ScoreSpec.totalLen T : ℝ) / (ScoreSpec.N T : ℝ)))) *
          Real.log (1 + (ScoreSpec.N T : ℝ) / (ScoreSpec.df T t : ℝ)))).sum)) := by
  rw [@c08_okapi_formula Bm25.default]
  cases AMap.get T d with
  | none => rfl
  | some ws =>
    simp only [Option.bind_some, Bm25.default_k1, Bm25.default_b, Scalar.nat_real]
    norm_num

/-- cosine: `score(D,Q) = Σ_{t∈Q, t in D} (1+ln f)/W(D) · ln(1+N/n_t)`, `W(D) = √Σ_{t in D}(1+ln f)²`. -/
theorem c08_cosine_formula (T : ScoreSpec.Table) (terms : List Nat) (d : Int) :
    (ScoreSpec.score .cosine T terms d : Option ℝ) =
      (AMap.get T d).bind (fun ws =>
        let Q := terms.filter (fun t => ws.contains t)
        if Q = [] then none else some ((Q.map (fun t =>
          (1 + Real.log (ws.count t : ℝ)) /
            Real.sqrt ((ws.eraseDups.map (fun u => (1 + Real.log (ws.count u : ℝ)) * (1 + Real.log (ws.count u : ℝ)))).sum) *
          Real.log (1 + (ScoreSpec.N T : ℝ) / (ScoreSpec.df T t : ℝ)))).sum)) := by
  rw [score_unfold]
  cases AMap.get T d with
  | none => rfl
  | some ws =>
    simp only [Option.bind_some]
    rw [sum1_eq]
    simp only [List.map_eq_nil_iff]
    congr 2
    apply congrArg
    apply List.map_congr_left
    intro t _
    simp only [specTerm, ScoreSpec.wdt, ScoreSpec.bigW, ScoreSpec.idf, Scalar.nat_real, Scalar.log_real,
      Scalar.sqrt_real]
    rw [foldl_add_eq]
    simp

/-- the inner scoring loop (the Python loop; with the default parameters also the C function
`okascore.score`): every `(docid, f)` item gets `f·(k1+1)/(f + k1·((1−b) + b·len/mean)) · idf`. -/
theorem c08_score_loop (d2f : List (Int × Nat)) (d2len : Int → Nat) (idfv mean : ℝ) (d : Int) :
    AMap.get (scoreLoop d2f d2len idfv mean) d =
      (AMap.get d2f d).map (fun f =>
        (f : ℝ) * (Bm25.k1 + 1) / ((f : ℝ) + Bm25.k1 * ((1 - Bm25.b) + Bm25.b * (d2len d : ℝ) / mean)) * idfv) := by
  unfold scoreLoop
  rw [get_map_val]
  cases AMap.get d2f d with
  | none => rfl
  | some f =>
    simp only [Option.map_some, okapiTf, Score.k1, Score.b, Scalar.nat_real, Nat.cast_one]
    rfl

/-- … with the constants of okascore.c: `f·2.2/(f + 1.2·(0.25 + 0.75·len/mean)) · idf`. -/
theorem c08_score_loop_default (d2f : List (Int × Nat)) (d2len : Int → Nat) (idfv mean : ℝ) (d : Int) :
    AMap.get (@scoreLoop ℝ _ Bm25.default d2f d2len idfv mean) d =
      (AMap.get d2f d).map (fun f =>
        (f : ℝ) * (1.2 + 1) / ((f : ℝ) + 1.2 * ((1 - 0.75) + 0.75 * (d2len d : ℝ) / mean)) * idfv) := by
  rw [@c08_score_loop Bm25.default]
  cases AMap.get d2f d with
  | none => rfl
  | some f =>
    simp only [Option.map_some, Bm25.default_k1, Bm25.default_b, Scalar.nat_real]
    norm_num

/-! ### non-vacuity -/

/-- a history with a re-index through `index_doc`, a direct `reindex_doc`, an unindex of an
unknown id and a failing `reindex_doc`: the counter is the total length of what is left -/
example : (run [.index 1 [1, 1, 2], .index 2 [1, 3, 3, 3, 3], .reindex 1 [1, 2, 2, 2], .index 2 [3],
    .unindex 7, .reindex 9 [1], .index 3 []]).tot = 5 := by decide
example : ScoreSpec.tableOf [.index 1 [1, 1, 2], .index 2 [1, 3, 3, 3, 3], .reindex 1 [1, 2, 2, 2], .index 2 [3],
    .unindex 7, .reindex 9 [1], .index 3 []] = [(3, []), (2, [3]), (1, [1, 2, 2, 2])] := by decide

/-- a concrete score with the default parameters: two documents, query word 1 occurs twice in document 1
(tf > 1, len ≠ mean) -/
example : ∃ r, (@search ℝ _ Bm25.default .okapi (run [.index 1 [1, 1, 2], .index 2 [1, 3, 3, 3, 3]]) [1] : Option (Res ℝ)) = some (.ok r) ∧
    AMap.get r 1 = some (2 * (1.2 + 1) / (2 + 1.2 * ((1 - 0.75) + 0.75 * 3 / (8 / 2))) * Real.log (1 + 2 / 2)) ∧
    AMap.get r 3 = none := by
  obtain ⟨r, hr, hg⟩ := @c08_search Bm25.default .okapi [.index 1 [1, 1, 2], .index 2 [1, 3, 3, 3, 3]] [1] (by simp)
  refine ⟨r, hr, ?_, ?_⟩
  · rw [hg 1, c08_okapi_formula_default]
    have : ScoreSpec.tableOf [.index 1 [1, 1, 2], .index 2 [1, 3, 3, 3, 3]] = [(2, [1, 3, 3, 3, 3]), (1, [1, 1, 2])] := by
      decide
    rw [this]
    simp [AMap.get, ScoreSpec.totalLen, ScoreSpec.N, ScoreSpec.df]
  · rw [hg 3, c08_okapi_formula_default]
    have : ScoreSpec.tableOf [.index 1 [1, 1, 2], .index 2 [1, 3, 3, 3, 3]] = [(2, [1, 3, 3, 3, 3]), (1, [1, 1, 2])] := by
      decide
    rw [this]
    simp [AMap.get]

/-- … and for a tuned index (`K1 = 2`, `B = 0.5` on a subclass or the instance, pure-Python loop): the same
document scores `2·3/(2 + 2·(0.5 + 0.5·3/4)) · ln 2` -/
example : ∃ r, (@search ℝ _ ⟨2, 0.5, 2⟩ .okapi (run [.index 1 [1, 1, 2], .index 2 [1, 3, 3, 3, 3]]) [1] : Option (Res ℝ)) = some (.ok r) ∧
    AMap.get r 1 = some (2 * (2 + 1) / (2 + 2 * ((1 - 0.5) + 0.5 * 3 / (8 / 2))) * Real.log (1 + 2 / 2)) := by
  obtain ⟨r, hr, hg⟩ := @c08_search ⟨2, 0.5, 2⟩ .okapi [.index 1 [1, 1, 2], .index 2 [1, 3, 3, 3, 3]] [1] (by simp)
  refine ⟨r, hr, ?_⟩
  rw [hg 1, @c08_okapi_formula ⟨2, 0.5, 2⟩]
  have : ScoreSpec.tableOf [.index 1 [1, 1, 2], .index 2 [1, 3, 3, 3, 3]] = [(2, [1, 3, 3, 3, 3]), (1, [1, 1, 2])] := by
    decide
  rw [this]
  simp [AMap.get, ScoreSpec.totalLen, ScoreSpec.N, ScoreSpec.df]

end Hyp.C08
