import HypatiaModel.Persist
namespace Hyp.Persist

/-- abort discards exactly the running transaction -/
theorem c09_abort_effective (l : Log) : (l.step .abort).1.effective = l.committed := by
  simp [Log.step, Log.effective]

end Hyp.Persist
